(* proof/AppendableSeq.v — C02: commit = one at a time in append order, also for transactions that
   hold float staleness markers, as long as no marker is followed (later in the same
   transaction) by another sample of the same series — the only configuration in which the
   re-queueing of a converted marker by commitFloats is visible (see commit_sequential_refuted).
   Route: a generic per-series step function f (Section Generic) with the commutation /
   permutation / head-time lemmas; then f := "convert the marker by the series' last sample type,
   then commit_sample" (cstep); commit_batch = fold of cstep over the batch's entries when the
   batch is marker-safe; the batching permutation of AppendableProofs finishes the argument. *)
From Coq Require Import List ZArith Bool Lia.
From Verif Require Import lib.Int64 model.Appendable proof.AppendableProofs.
Import ListNotations.
Open Scope Z_scope.

Section Generic.
  Variable f : series -> Z -> value -> series * option Z.

  Definition gstep (st : smap * acc) (e : entry) : smap * acc :=
    (smap_set (fst st) (e_sid e) (fst (f (fst st (e_sid e)) (e_t e) (e_val e))),
     match snd (f (fst st (e_sid e)) (e_t e) (e_val e)) with
     | Some t => acc_add (snd st) t | None => snd st end).

  Lemma gstep_proper st st' e : st_eq st st' -> st_eq (gstep st e) (gstep st' e).
  Proof.
    intros [Hm Ha]. unfold gstep. rewrite <- (Hm (e_sid e)), Ha. split; [|reflexivity].
    intros k. cbn [fst]. unfold smap_set. destruct (k =? e_sid e); auto.
  Qed.

  Lemma gfold_proper l : forall st st',
    st_eq st st' -> st_eq (fold_left gstep l st) (fold_left gstep l st').
  Proof.
    induction l as [|e l IH]; intros st st' H; cbn; [exact H|]. apply IH, gstep_proper, H.
  Qed.

  Lemma gstep_comm st a b :
    e_sid a <> e_sid b -> st_eq (gstep (gstep st a) b) (gstep (gstep st b) a).
  Proof.
    intros Hne. unfold gstep. cbn [fst snd].
    rewrite !smap_set_other by congruence.
    split; cbn [fst snd].
    - intros k. unfold smap_set.
      destruct (Z.eqb_spec k (e_sid a)), (Z.eqb_spec k (e_sid b)); try reflexivity. congruence.
    - destruct (snd (f (fst st (e_sid a)) (e_t a) (e_val a))),
               (snd (f (fst st (e_sid b)) (e_t b) (e_val b))); try reflexivity.
      apply acc_add_comm.
  Qed.

  Lemma gfold_perm l l' :
    perm_ds l l' -> forall st, st_eq (fold_left gstep l st) (fold_left gstep l' st).
  Proof.
    induction 1; intros st.
    - apply st_eq_refl.
    - rewrite !fold_left_app. cbn. apply gfold_proper, gstep_comm. assumption.
    - eapply st_eq_trans; eauto.
  Qed.

  (* a step commutes to the end across steps of other series *)
  Lemma gstep_past e L st :
    Forall (fun x => e_sid x <> e_sid e) L ->
    st_eq (fold_left gstep L (gstep st e)) (gstep (fold_left gstep L st) e).
  Proof.
    intros H. pose proof (gfold_perm _ _ (perm_ds_move e L H) st) as P.
    rewrite fold_left_app in P. exact P.
  Qed.

  Fixpoint gts (l : list entry) (m : smap) : list Z :=
    match l with
    | [] => []
    | e :: r =>
        (match snd (f (m (e_sid e)) (e_t e) (e_val e)) with Some t => [t] | None => [] end)
          ++ gts r (smap_set m (e_sid e) (fst (f (m (e_sid e)) (e_t e) (e_val e))))
    end.

  Lemma gfold_fst l : forall m ac ac',
    fst (fold_left gstep l (m, ac)) = fst (fold_left gstep l (m, ac')).
  Proof. induction l as [|e l IH]; intros m ac ac'; cbn [fold_left]; [reflexivity|]. apply IH. Qed.

  Lemma gfold_snd l : forall m ac,
    snd (fold_left gstep l (m, ac)) = fold_left acc_add (gts l m) ac.
  Proof.
    induction l as [|e l IH]; intros m ac; cbn [fold_left gts]; [reflexivity|].
    unfold gstep at 2. cbn [fst snd]. rewrite IH, fold_left_app.
    destruct (snd (f (m (e_sid e)) (e_t e) (e_val e))); reflexivity.
  Qed.

  Definition gafter (h : head) (l : list entry) : head :=
    mkHead (fold_left Z.min (gts l (h_series h)) (h_mint h))
           (fold_left Z.max (gts l (h_series h)) (h_maxt h))
           (h_minValid h)
           (fst (fold_left gstep l (h_series h, acc0))).

  Lemma gafter_proper h l l' :
    head_wf h ->
    st_eq (fold_left gstep l (h_series h, acc0)) (fold_left gstep l' (h_series h, acc0)) ->
    head_eq (gafter h l) (gafter h l').
  Proof.
    intros [Hw1 Hw2] [Hm Ha]. unfold head_eq, gafter. cbn [h_mint h_maxt h_minValid h_series].
    rewrite !gfold_snd in Ha.
    assert (E1 := f_equal ac_mint Ha). assert (E2 := f_equal ac_maxt Ha).
    rewrite !fold_acc_mint in E1. rewrite !fold_acc_maxt in E2. cbn [acc0 ac_mint ac_maxt] in E1, E2.
    repeat split.
    - rewrite !(fold_min_from (h_mint h)) by exact Hw1. rewrite E1. reflexivity.
    - rewrite !(fold_max_from (h_maxt h)) by exact Hw2. rewrite E2. reflexivity.
    - exact Hm.
  Qed.

  (* update the head after a whole fold = gafter *)
  Lemma gafter_update h l :
    head_wf h ->
    head_eq (update_min_max (mkHead (h_mint h) (h_maxt h) (h_minValid h)
                               (fst (fold_left gstep l (h_series h, acc0))))
                            (snd (fold_left gstep l (h_series h, acc0))))
            (gafter h l).
  Proof.
    intros [Hw1 Hw2].
    destruct (update_min_max_times
                (mkHead (h_mint h) (h_maxt h) (h_minValid h) (fst (fold_left gstep l (h_series h, acc0))))
                (snd (fold_left gstep l (h_series h, acc0)))) as [E1 E2].
    unfold head_eq, gafter. rewrite E1, E2. cbn [h_mint h_maxt h_minValid h_series update_min_max].
    rewrite gfold_snd, fold_acc_mint, fold_acc_maxt, min_fold, max_fold. cbn [acc0 ac_mint ac_maxt].
    rewrite (Z.min_l (h_mint h) maxInt64) by lia. rewrite (Z.max_l (h_maxt h) minInt64) by lia.
    repeat split; reflexivity.
  Qed.

  (* one step from a head, then the rest: the normal forms compose *)
  Lemma gafter_cons h e l :
    head_wf h ->
    let h1 := update_min_max (mkHead (h_mint h) (h_maxt h) (h_minValid h) (fst (gstep (h_series h, acc0) e)))
                             (snd (gstep (h_series h, acc0) e)) in
    gafter h1 l = gafter h (e :: l) /\ head_wf h1.
  Proof.
    intros [Hw1 Hw2] h1.
    destruct (update_min_max_times
                (mkHead (h_mint h) (h_maxt h) (h_minValid h) (fst (gstep (h_series h, acc0) e)))
                (snd (gstep (h_series h, acc0) e))) as [E1 E2].
    fold h1 in E1, E2. cbn [h_mint h_maxt] in E1, E2.
    assert (Es : h_series h1 = smap_set (h_series h) (e_sid e)
                   (fst (f (h_series h (e_sid e)) (e_t e) (e_val e)))) by reflexivity.
    assert (Ev : h_minValid h1 = h_minValid h) by reflexivity.
    unfold gstep in E1, E2. cbn [fst snd] in E1, E2.
    unfold gafter. cbn [gts fold_left]. rewrite Es, Ev. rewrite !fold_left_app.
    unfold gstep at 2. cbn [fst snd].
    destruct (snd (f (h_series h (e_sid e)) (e_t e) (e_val e))) as [t|].
    - rewrite acc_add_mint in E1. rewrite acc_add_maxt in E2. cbn [acc0 ac_mint ac_maxt] in E1, E2.
      cbn [fold_left].
      assert (E1' : h_mint h1 = Z.min (h_mint h) t) by lia.
      assert (E2' : h_maxt h1 = Z.max (h_maxt h) t) by lia.
      rewrite E1', E2'. split; [f_equal; apply gfold_fst|]. unfold head_wf. lia.
    - cbn [acc0 ac_mint ac_maxt] in E1, E2. cbn [fold_left].
      assert (E1' : h_mint h1 = h_mint h) by lia.
      assert (E2' : h_maxt h1 = h_maxt h) by lia.
      rewrite E1', E2'. split; [f_equal; apply gfold_fst|]. unfold head_wf. lia.
  Qed.
End Generic.

(* ------------------------------------------------------------------ *)
(* the conversion step                                                 *)

Section Conv.
  Variables (cap : Z) (sn : snap).

  (* the type a float staleness marker is converted to at commit (commitFloats) *)
  Definition conv_kind (s : series) (v : value) : option stype :=
    if is_stale_float v then
      match s_last s with
      | Some (_, VH _) => Some THist
      | Some (_, VFH _) => Some TFHist
      | _ => None
      end
    else None.

  Definition conv_val (s : series) (v : value) : value :=
    match conv_kind s v with Some THist => VH 0 | Some _ => VFH 0 | None => v end.

  Definition cs (s : series) (t : Z) (v : value) : series * option Z :=
    commit_sample cap sn s t (conv_val s v).

  Definition cstep := gstep cs.

  Lemma conv_kind_nonstale s v : is_stale_float v = false -> conv_kind s v = None.
  Proof. unfold conv_kind. intros ->. reflexivity. Qed.

  Lemma plain_is_cstep (st : smap * acc) e :
    conv_kind (fst st (e_sid e)) (e_val e) = None -> commit_plain cap sn st e = cstep st e.
  Proof.
    intros H. destruct st as [m ac]. rewrite commit_plain_unfold. unfold cstep, gstep, cs, conv_val.
    cbn [fst snd] in *. rewrite H. reflexivity.
  Qed.

  Lemma fold_plain_is_cstep l : forall st : smap * acc,
    nostale l -> fold_left (commit_plain cap sn) l st = fold_left cstep l st.
  Proof.
    induction l as [|e l IH]; intros st H; cbn [fold_left]; [reflexivity|].
    inversion H; subst. rewrite plain_is_cstep by (apply conv_kind_nonstale; assumption).
    apply IH. assumption.
  Qed.

  (* the converted marker is committed like the marker itself *)
  Lemma cstep_converted (st : smap * acc) e w :
    (conv_kind (fst st (e_sid e)) (e_val e) = Some THist /\ w = VH 0) \/
    (conv_kind (fst st (e_sid e)) (e_val e) = Some TFHist /\ w = VFH 0) ->
    cstep st (e_sid e, e_t e, w) = cstep st e.
  Proof.
    intros H.
    assert (E : conv_val (fst st (e_sid e)) (e_val e) = w /\ conv_val (fst st (e_sid e)) w = w).
    { destruct H as [[H ->]|[H ->]]; unfold conv_val; rewrite H; split; reflexivity. }
    destruct E as [E1 E2]. unfold cstep, gstep, cs.
    change (e_sid (e_sid e, e_t e, w)) with (e_sid e).
    change (e_t (e_sid e, e_t e, w)) with (e_t e).
    change (e_val (e_sid e, e_t e, w)) with w.
    rewrite E1, E2. reflexivity.
  Qed.

  Lemma conv_kind_cases s v :
    conv_kind s v = None \/ conv_kind s v = Some THist \/ conv_kind s v = Some TFHist.
  Proof.
    unfold conv_kind. destruct (is_stale_float v); auto.
    destruct (s_last s) as [[? []]|]; auto.
  Qed.

  Lemma conv_kind_some_stale s v k : conv_kind s v = Some k -> is_stale_float v = true.
  Proof. unfold conv_kind. destruct (is_stale_float v); congruence. Qed.

  (* marker-safety of the floats F of a batch against the other entries O of the batch: a float
     staleness marker is followed by no entry of its series *)
  Fixpoint fsafe (F O : list entry) : Prop :=
    match F with
    | [] => True
    | e :: F' => (is_stale_float (e_val e) = true ->
                  Forall (fun x => e_sid x <> e_sid e) F' /\ Forall (fun x => e_sid x <> e_sid e) O)
                 /\ fsafe F' O
    end.

  Lemma fsafe_add F : forall O O' e1,
    fsafe F O -> Forall (fun x => e_sid x <> e_sid e1) F ->
    (forall y, In y O' -> In y O \/ y = e1) -> fsafe F O'.
  Proof.
    induction F as [|e F IH]; intros O O' e1 Hs Hne Hin; cbn in *; [exact I|].
    destruct Hs as [He Hs]. inversion Hne; subst. split; [|eapply IH; eauto].
    intros St. destruct (He St) as [A B]. split; [exact A|].
    apply Forall_forall. intros y Hy. destruct (Hin y Hy) as [Hy'| ->].
    - rewrite Forall_forall in B. apply B. exact Hy'.
    - congruence.
  Qed.

  (* commitFloats followed by commitHistograms and commitFloatHistograms = the conversion step
     folded over floats, histograms, float histograms in that order *)
  Lemma batch_floats F : forall (m : smap) ac H FH,
    fsafe F (H ++ FH) -> nostale H -> nostale FH ->
    st_eq (let '(m1, ac1, H', FH') := fold_left (commit_float cap sn) F (m, ac, H, FH) in
           fold_left (commit_plain cap sn) FH' (fold_left (commit_plain cap sn) H' (m1, ac1)))
          (fold_left cstep FH (fold_left cstep H (fold_left cstep F (m, ac)))).
  Proof.
    induction F as [|e F IH]; intros m ac H FH Hs HnH HnFH.
    - cbn [fold_left]. rewrite !fold_plain_is_cstep by assumption. apply st_eq_refl.
    - cbn [fold_left]. destruct Hs as [He Hs].
      assert (Hfloat : commit_float cap sn (m, ac, H, FH) e =
                match conv_kind (m (e_sid e)) (e_val e) with
                | Some THist => (m, ac, H ++ [(e_sid e, e_t e, VH 0)], FH)
                | Some _ => (m, ac, H, FH ++ [(e_sid e, e_t e, VFH 0)])
                | None => let '(m', ac') := commit_plain cap sn (m, ac) e in (m', ac', H, FH)
                end) by reflexivity.
      rewrite Hfloat.
      destruct (conv_kind_cases (m (e_sid e)) (e_val e)) as [Ek|[Ek|Ek]]; rewrite Ek.
      + (* no conversion *)
        rewrite <- (plain_is_cstep (m, ac) e) by exact Ek.
        destruct (commit_plain cap sn (m, ac) e) as [m' ac']. apply IH; assumption.
      + (* re-queued behind the histograms *)
        pose proof (conv_kind_some_stale _ _ _ Ek) as St. destruct (He St) as [HF HO].
        apply Forall_app in HO. destruct HO as [HOH HOFH].
        set (e1 := (e_sid e, e_t e, VH 0)).
        eapply st_eq_trans.
        * apply IH.
          -- eapply fsafe_add with (e1 := e1); [exact Hs|exact HF|].
             intros y. rewrite !in_app_iff. cbn. intuition (subst; auto).
          -- apply Forall_app. split; [exact HnH|]. constructor; [reflexivity|constructor].
          -- exact HnFH.
        * rewrite fold_left_app. cbn [fold_left]. apply gfold_proper.
          rewrite <- (cstep_converted (m, ac) e (VH 0)) by (left; auto). fold e1.
          eapply st_eq_trans; [|apply gfold_proper; apply st_eq_sym; apply (gstep_past cs e1 F (m, ac)); exact HF].
          apply st_eq_sym. apply (gstep_past cs e1 H). exact HOH.
      + (* re-queued behind the float histograms *)
        pose proof (conv_kind_some_stale _ _ _ Ek) as St. destruct (He St) as [HF HO].
        apply Forall_app in HO. destruct HO as [HOH HOFH].
        set (e2 := (e_sid e, e_t e, VFH 0)).
        eapply st_eq_trans.
        * apply IH.
          -- eapply fsafe_add with (e1 := e2); [exact Hs|exact HF|].
             intros y. rewrite !in_app_iff. cbn. intuition (subst; auto).
          -- exact HnH.
          -- apply Forall_app. split; [exact HnFH|]. constructor; [reflexivity|constructor].
        * rewrite fold_left_app. cbn [fold_left].
          rewrite <- (cstep_converted (m, ac) e (VFH 0)) by (right; auto). fold e2.
          eapply st_eq_trans; [apply st_eq_sym; apply (gstep_past cs e2 FH); exact HOFH|].
          apply gfold_proper.
          eapply st_eq_trans; [apply st_eq_sym; apply (gstep_past cs e2 H); exact HOH|].
          apply gfold_proper.
          apply st_eq_sym. apply (gstep_past cs e2 F). exact HF.
  Qed.
End Conv.

(* ------------------------------------------------------------------ *)
(* batches, appenders, the theorem                                     *)

(* no float staleness marker is followed by another sample of its series *)
Fixpoint safe (l : list entry) : Prop :=
  match l with
  | [] => True
  | e :: r => (is_stale_float (e_val e) = true -> Forall (fun x => e_sid x <> e_sid e) r) /\ safe r
  end.

Lemma safe_app l1 : forall l2, safe (l1 ++ l2) -> safe l1 /\ safe l2.
Proof.
  induction l1 as [|e l1 IH]; intros l2 H; cbn in *; [auto|].
  destruct H as [He Hs]. destruct (IH l2 Hs) as [A B]. repeat split; auto.
  intros St. specialize (He St). apply Forall_app in He. tauto.
Qed.

Lemma safe_fsafe F : forall O, safe (F ++ O) -> fsafe F O.
Proof.
  induction F as [|e F IH]; intros O H; cbn in *; [exact I|].
  destruct H as [He Hs]. split; [|apply IH; exact Hs].
  intros St. specialize (He St). apply Forall_app in He. exact He.
Qed.

Lemma safe_perm l l' : perm_ds l l' -> safe l -> safe l'.
Proof.
  induction 1; intros Hs; auto.
  induction l1 as [|x l1 IH]; cbn in *.
  - destruct Hs as [Ha [Hb Hs]]. split; [|split; [|exact Hs]].
    + intros St. specialize (Hb St). constructor; [congruence|exact Hb].
    + intros St. specialize (Ha St). inversion Ha; assumption.
  - destruct Hs as [Hx Hs]. split; [|apply IH; exact Hs].
    intros St. specialize (Hx St).
    rewrite Forall_forall in *. intros y Hy. apply Hx.
    rewrite in_app_iff in *. cbn in *. tauto.
Qed.

Lemma safe_concat bs : safe (concat bs) -> Forall safe bs.
Proof.
  induction bs as [|b bs IH]; cbn; intros H; constructor.
  - apply (safe_app b _ H).
  - apply IH. apply (safe_app b _ H).
Qed.

Section Batches.
  Variables (cap : Z) (sn : snap).

  Definition bgood (b : batch) : Prop := safe (flat b) /\ nostale (b_h b) /\ nostale (b_fh b).

  Lemma commit_batch_cstep (m : smap) ac b :
    bgood b -> st_eq (commit_batch cap sn (m, ac) b) (fold_left (cstep cap sn) (flat b) (m, ac)).
  Proof.
    intros (Hs & Hh & Hfh). unfold commit_batch, flat. rewrite !fold_left_app.
    apply (batch_floats cap sn (b_f b) m ac (b_h b) (b_fh b)); [|exact Hh|exact Hfh].
    apply safe_fsafe. exact Hs.
  Qed.

  Lemma commit_batches_cstep bs : forall st : smap * acc,
    Forall bgood bs ->
    st_eq (fold_left (commit_batch cap sn) bs st) (fold_left (cstep cap sn) (concat (map flat bs)) st).
  Proof.
    induction bs as [|b bs IH]; intros st H; cbn [fold_left map concat]; [apply st_eq_refl|].
    inversion H; subst. rewrite fold_left_app.
    eapply st_eq_trans; [apply IH; assumption|].
    apply gfold_proper. destruct st as [m ac]. apply commit_batch_cstep. assumption.
  Qed.
End Batches.

(* histogram slices of the batches of an appender never hold float values *)
Definition kinds (a : appender) : Prop :=
  Forall (fun b => nostale (b_h b) /\ nostale (b_fh b)) (a_batches a).

Lemma nonfloat_nostale v : stype_of v <> TFloat -> is_stale_float v = false.
Proof. destruct v; cbn; [congruence|reflexivity|reflexivity]. Qed.

Lemma push_kinds b e : nostale (b_h b) /\ nostale (b_fh b) ->
  nostale (b_h (push b e)) /\ nostale (b_fh (push b e)).
Proof.
  intros [A B].
  destruct (flat_push b e) as [(Es & _ & -> & ->)|[(Es & _ & -> & ->)|(Es & _ & -> & ->)]]; split; auto;
    apply Forall_app; split; auto; constructor; auto; apply nonfloat_nostale; intros F; rewrite F in Es; discriminate.
Qed.

Lemma add_entry_kinds a e : kinds a -> kinds (add_entry a e).
Proof.
  unfold kinds, add_entry. intros H.
  assert (H0 : nostale (b_h (push batch0 e)) /\ nostale (b_fh (push batch0 e))).
  { apply push_kinds. split; constructor. }
  destruct (a_batches a) as [|b bs]; [cbn; auto|].
  inversion H; subst.
  destruct (lookup_type (a_types a) (e_sid e)).
  - destruct (stype_eqb s (stype_of (e_val e))); cbn [a_batches]; constructor; auto.
    apply push_kinds; assumption.
  - destruct (stype_of (e_val e)); cbn [a_batches]; constructor; auto; apply push_kinds; assumption.
Qed.

Lemma kinds_appender_of sn log : kinds (appender_of sn log).
Proof.
  unfold appender_of.
  assert (H : forall a, kinds a -> kinds (fold_left add_entry log a)).
  { induction log as [|e l IH]; intros a Ha; cbn; [exact Ha|]. apply IH, add_entry_kinds, Ha. }
  apply H. constructor.
Qed.

Lemma bgood_appender_of sn log :
  safe log -> Forall bgood (rev (a_batches (appender_of sn log))).
Proof.
  intros Hs.
  pose proof (safe_perm _ _ (entries_appender_of sn log) Hs) as Hse. unfold entries in Hse.
  pose proof (safe_concat _ Hse) as Hb.
  pose proof (kinds_appender_of sn log) as Hk. unfold kinds in Hk.
  apply Forall_forall. intros b Hin.
  rewrite Forall_forall in Hb, Hk.
  split; [apply Hb; apply in_map; exact Hin|]. apply Hk. apply in_rev. exact Hin.
Qed.

Lemma update_proper h (X Y : smap * acc) :
  st_eq X Y ->
  head_eq (update_min_max (mkHead (h_mint h) (h_maxt h) (h_minValid h) (fst X)) (snd X))
          (update_min_max (mkHead (h_mint h) (h_maxt h) (h_minValid h) (fst Y)) (snd Y)).
Proof.
  intros [Hm Ha]. rewrite Ha. unfold head_eq, update_min_max. cbn. repeat split. exact Hm.
Qed.

(* one sample through its own appender = one conversion step *)
Lemma commit_single_c c h sn e :
  commit c h (appender_of sn [e]) =
  update_min_max (mkHead (h_mint h) (h_maxt h) (h_minValid h)
                    (fst (cstep (c_oooCap c) sn (@pair smap acc (h_series h) acc0) e)))
                 (snd (cstep (c_oooCap c) sn (@pair smap acc (h_series h) acc0) e)).
Proof.
  destruct (is_stale_float (e_val e)) eqn:St.
  - (* a float staleness marker: batch ([e], [], []) *)
    destruct e as [[sid t] v]. destruct v as [b| |]; try discriminate St.
    unfold commit, appender_of. cbn -[commit_plain acc0 commit_float cstep].
    set (e0 := (sid, t, VF b)).
    assert (Hfloat : forall m : smap, commit_float (c_oooCap c) sn (m, acc0, [], []) e0 =
              match conv_kind (m sid) (VF b) with
              | Some THist => (m, acc0, [(sid, t, VH 0)], [])
              | Some _ => (m, acc0, [], [(sid, t, VFH 0)])
              | None => let '(m', ac') := commit_plain (c_oooCap c) sn (m, acc0) e0 in (m', ac', [], [])
              end) by reflexivity.
    rewrite Hfloat.
    destruct (conv_kind_cases (h_series h sid) (VF b)) as [Ek|[Ek|Ek]]; rewrite Ek.
    + rewrite (plain_is_cstep (c_oooCap c) sn _ e0) by exact Ek.
      match goal with |- context [cstep ?a ?b ?c ?d] => destruct (cstep a b c d) end. reflexivity.
    + cbn [fold_left].
      rewrite (plain_is_cstep (c_oooCap c) sn _ (sid, t, VH 0)) by reflexivity.
      rewrite (cstep_converted (c_oooCap c) sn _ e0 (VH 0)) by (left; auto).
      match goal with |- context [cstep ?a ?b ?c ?d] => destruct (cstep a b c d) end. reflexivity.
    + cbn [fold_left].
      rewrite (plain_is_cstep (c_oooCap c) sn _ (sid, t, VFH 0)) by reflexivity.
      rewrite (cstep_converted (c_oooCap c) sn _ e0 (VFH 0)) by (right; auto).
      match goal with |- context [cstep ?a ?b ?c ?d] => destruct (cstep a b c d) end. reflexivity.
  - rewrite (commit_single c h sn e St).
    rewrite (plain_is_cstep (c_oooCap c) sn _ e) by (apply conv_kind_nonstale; exact St).
    reflexivity.
Qed.

Lemma commit_each_gafter c sn log : forall h,
  head_wf h -> head_eq (commit_each c sn log h) (gafter (cs (c_oooCap c) sn) h log).
Proof.
  induction log as [|e l IH]; intros h Hw.
  - cbn. unfold gafter. cbn. destruct h. apply head_eq_refl.
  - cbn [commit_each fold_left]. fold (commit_each c sn l).
    rewrite (commit_single_c c h sn e).
    destruct (gafter_cons (cs (c_oooCap c) sn) h e l Hw) as [Ea Hw1].
    unfold cstep. rewrite <- Ea. apply IH. exact Hw1.
Qed.

(* commit of the transaction = its accepted samples committed one at a time, in append order,
   each under the original appender's window snapshot — for every transaction in which no float
   staleness marker is followed by another sample of the same series *)
Theorem commit_sequential_safe c sn h log :
  head_wf h -> safe log ->
  head_eq (commit c h (appender_of sn log)) (commit_each c sn log h).
Proof.
  intros Hw Hs.
  set (a := appender_of sn log).
  assert (Hc : head_eq (commit c h a) (gafter (cs (c_oooCap c) sn) h (entries a))).
  { assert (Esn : a_snap a = Some sn) by apply a_snap_appender_of.
    unfold commit. rewrite Esn. rewrite let_pair_head.
    eapply head_eq_trans; [|apply gafter_update; exact Hw].
    apply update_proper.
    apply (commit_batches_cstep (c_oooCap c) sn (rev (a_batches a)) (h_series h, acc0)).
    apply bgood_appender_of. exact Hs. }
  eapply head_eq_trans; [exact Hc|].
  eapply head_eq_trans; [|apply head_eq_sym; apply commit_each_gafter; exact Hw].
  apply gafter_proper; [exact Hw|].
  apply gfold_perm. apply perm_ds_sym. apply entries_appender_of.
Qed.

Lemma nostale_safe l : nostale l -> safe l.
Proof.
  induction 1 as [|e l He Hl IH]; cbn; [exact I|]. split; [|exact IH]. intros St. congruence.
Qed.

(* proof/NhcbProofs.v — lemmas about model/Nhcb.v (C36). *)
From Coq Require Import List ZArith Bool String Lia.
From Verif Require Import model.Nhcb.
Import ListNotations.
Open Scope Z_scope.

(* ------------------------------------------------------------------ shapes of one step *)

Definition erase (o : oentry) : oentry :=
  match o with OSeries s v => OSeries (mkS (s_lset s) (s_ts s) 0 []) v | _ => o end.
Definition visible (o : oentry) : bool := negb (is_nhcb o).
Definition nonseries_o (o : oentry) : bool :=
  match o with OSeries _ _ | ONhcb _ _ => false | _ => true end.
Definition nonseries_b (e : bentry) : bool := match e with BSeries _ _ => false | _ => true end.

Lemma process_nhcb_shape : forall p b p' fl,
  process_nhcb p = (b, p', fl) -> fl = [] \/ exists s n, fl = [ONhcb s n].
Proof.
  intros p b p' fl H. unfold process_nhcb in H.
  destruct (p_state p); try (inversion H; auto; fail).
  destruct (convert (p_tmp p)) as [n|]; [|inversion H; auto].
  destruct (validate n); inversion H; subst; [right; eauto | auto].
Qed.

Lemma process_nhcb_not_collecting : forall p,
  p_state p <> SCollecting -> process_nhcb p = (false, p, []).
Proof. intros p H. unfold process_nhcb. destruct (p_state p); congruence. Qed.

Section Steps.
Variable parse_le : string -> option num.
Variable c : cfg.

Lemma emit_series_shape : forall r s v p out,
  emit_series c r s v = (p, out) ->
  (out = [] /\ keep_classic c = false /\ fst r = true) \/
  (exists st ex, out = [OSeries (mkS (s_lset s) (s_ts s) st ex) v] /\
                 (fst r = false -> ex = s_ex s /\ (p_state p <> SCollecting -> st = s_st s))).
Proof.
  intros [isn p0] s v p out H. unfold emit_series in H.
  destruct isn; simpl in *.
  - destruct (keep_classic c); simpl in H; inversion H; subst; [right | left; auto].
    do 2 eexists. split; [reflexivity|]. intros X; discriminate.
  - inversion H; subst. right. unfold out_series. do 2 eexists. split; [reflexivity|].
    intros _. split; [reflexivity|]. intros Hs. destruct (p_state p); congruence.
Qed.

Lemma step_series_eq : forall p s v,
  step parse_le c p (BSeries s v) =
  let q := set_ts p (s_ts s) in
  match p_state q with
  | SCollecting =>
      if different_metric q (s_lset s) then
        let '(_, p1, fl) := process_nhcb q in
        let '(p2, out) := emit_series c (handle_classic parse_le c p1 s v) s v in
        (p2, fl ++ out)
      else emit_series c (handle_classic parse_le c q s v) s v
  | SInhibiting =>
      if different_metric q (s_lset s) then
        emit_series c (handle_classic parse_le c (set_state q SStart) s v) s v
      else emit_series c (false, q) s v
  | SStart => emit_series c (handle_classic parse_le c q s v) s v
  end.
Proof. reflexivity. Qed.

(* every step emits: at most one converted histogram, then the entry itself (a series entry
   possibly swallowed or with other exemplars / start timestamp) *)
Lemma step_shape : forall p e p' out,
  step parse_le c p e = (p', out) ->
  exists fl own, out = fl ++ own /\ (fl = [] \/ exists s n, fl = [ONhcb s n]) /\
    match e with
    | BSeries s v => own = [] /\ keep_classic c = false \/
                     exists st ex, own = [OSeries (mkS (s_lset s) (s_ts s) st ex) v]
    | _ => own = [to_o e]
    end.
Proof.
  intros p e p' out H. destruct e as [s v|s hid|n t|k a b]; [rewrite step_series_eq in H; cbv zeta in H | simpl in H ..].
  - set (q := set_ts p (s_ts s)) in *.
    assert (Tail : forall r p2 o2, emit_series c r s v = (p2, o2) ->
              o2 = [] /\ keep_classic c = false \/
              exists st ex, o2 = [OSeries (mkS (s_lset s) (s_ts s) st ex) v]).
    { intros r p2 o2 E. apply emit_series_shape in E.
      destruct E as [[? [? ?]]|[st [ex [? _]]]]; [left; auto | right; eauto]. }
    destruct (p_state q).
    + destruct (emit_series c (handle_classic parse_le c q s v) s v) as [p2 o2] eqn:E.
      injection H as <- <-. exists [], o2. split; [reflexivity|]. split; [auto|]. eapply Tail; eauto.
    + destruct (different_metric q (s_lset s)).
      * destruct (process_nhcb q) as [[b p1] fl] eqn:EP.
        destruct (emit_series c (handle_classic parse_le c p1 s v) s v) as [p2 o2] eqn:E.
        injection H as <- <-. exists fl, o2. split; [reflexivity|].
        split; [eapply process_nhcb_shape; eauto|]. eapply Tail; eauto.
      * destruct (emit_series c (handle_classic parse_le c q s v) s v) as [p2 o2] eqn:E.
        injection H as <- <-. exists [], o2. split; [reflexivity|]. split; [auto|]. eapply Tail; eauto.
    + destruct (different_metric q (s_lset s)).
      * destruct (emit_series c (handle_classic parse_le c (set_state q SStart) s v) s v) as [p2 o2] eqn:E.
        injection H as <- <-. exists [], o2. split; [reflexivity|]. split; [auto|]. eapply Tail; eauto.
      * destruct (emit_series c (false, q) s v) as [p2 o2] eqn:E.
        injection H as <- <-. exists [], o2. split; [reflexivity|]. split; [auto|]. eapply Tail; eauto.
  - inversion H; subst. exists [], [OHist s hid]. auto.
  - match type of H with context [process_nhcb ?q] => destruct (process_nhcb q) as [[b p1] fl] eqn:EP end.
    inversion H; subst. exists fl, [OType n t]. split; [reflexivity|].
    split; [eapply process_nhcb_shape; eauto | reflexivity].
  - destruct (process_nhcb p) as [[b0 p1] fl] eqn:EP.
    inversion H; subst. exists fl, [OOther k a b]. split; [reflexivity|].
    split; [eapply process_nhcb_shape; eauto | reflexivity].
Qed.

Lemma filter_flush : forall (f : oentry -> bool) fl,
  (forall s n, f (ONhcb s n) = false) ->
  (fl = [] \/ exists s n, fl = [ONhcb s n]) -> filter f fl = [].
Proof. intros f fl Hf [->|[s [n ->]]]; simpl; [reflexivity|]. rewrite Hf. reflexivity. Qed.

Lemma step_nonseries : forall p e p' out,
  step parse_le c p e = (p', out) ->
  filter nonseries_o out = if nonseries_b e then [to_o e] else [].
Proof.
  intros p e p' out H. apply step_shape in H. destruct H as [fl [own [-> [Hfl Hown]]]].
  rewrite filter_app, (filter_flush nonseries_o fl) by (auto; reflexivity). simpl.
  destruct e; simpl in *; try (subst own; reflexivity).
  destruct Hown as [[-> _]|[st [ex ->]]]; reflexivity.
Qed.

Lemma step_keep : forall p e p' out,
  keep_classic c = true ->
  step parse_le c p e = (p', out) ->
  map erase (filter visible out) = [erase (to_o e)].
Proof.
  intros p e p' out Hk H. apply step_shape in H. destruct H as [fl [own [-> [Hfl Hown]]]].
  rewrite filter_app, (filter_flush visible fl) by (auto; reflexivity). simpl.
  destruct e; simpl in *; try (subst own; reflexivity).
  destruct Hown as [[_ Hf]|[st [ex ->]]]; [congruence | reflexivity].
Qed.

Lemma run_from_nonseries : forall es p p' out,
  run_from parse_le c p es = (p', out) ->
  filter nonseries_o out = map to_o (filter nonseries_b es).
Proof.
  induction es as [|e r IH]; intros p p' out H; simpl in H.
  - inversion H; reflexivity.
  - destruct (step parse_le c p e) as [p1 o1] eqn:E1.
    destruct (run_from parse_le c p1 r) as [p2 o2] eqn:E2.
    inversion H; subst. rewrite filter_app, (step_nonseries _ _ _ _ E1), (IH _ _ _ E2).
    simpl. destruct (nonseries_b e); reflexivity.
Qed.

Lemma run_from_keep : forall es p p' out,
  keep_classic c = true ->
  run_from parse_le c p es = (p', out) ->
  map erase (filter visible out) = map erase (map to_o es).
Proof.
  induction es as [|e r IH]; intros p p' out Hk H; simpl in H.
  - inversion H; reflexivity.
  - destruct (step parse_le c p e) as [p1 o1] eqn:E1.
    destruct (run_from parse_le c p1 r) as [p2 o2] eqn:E2.
    inversion H; subst. rewrite filter_app, map_app, (step_keep _ _ _ _ Hk E1), (IH _ _ _ Hk E2).
    reflexivity.
Qed.

Lemma final_flush_shape : forall p, 
  snd (process_nhcb p) = [] \/ exists s n, snd (process_nhcb p) = [ONhcb s n].
Proof.
  intros p. destruct (process_nhcb p) as [[b p'] fl] eqn:E. simpl.
  eapply process_nhcb_shape; eauto.
Qed.

Theorem passthrough : forall es eof,
  filter nonseries_o (fst (run parse_le c es eof)) = map to_o (filter nonseries_b es).
Proof.
  intros es eof. unfold run. destruct (run_from parse_le c p_init es) as [p out] eqn:E. simpl.
  destruct eof; [|eapply run_from_nonseries; eauto].
  rewrite filter_app, (run_from_nonseries _ _ _ _ E).
  rewrite (filter_flush nonseries_o _ (fun _ _ => eq_refl) (final_flush_shape p)).
  apply app_nil_r.
Qed.

Theorem keep_classic_order : forall es eof,
  keep_classic c = true ->
  map erase (filter visible (fst (run parse_le c es eof))) = map erase (map to_o es).
Proof.
  intros es eof Hk. unfold run. destruct (run_from parse_le c p_init es) as [p out] eqn:E. simpl.
  destruct eof; [|eapply run_from_keep; eauto].
  rewrite filter_app, map_app, (run_from_keep _ _ _ _ Hk E).
  rewrite (filter_flush visible _ (fun _ _ => eq_refl) (final_flush_shape p)).
  apply app_nil_r.
Qed.

End Steps.

(* ------------------------------------------------------------------ TempHistogram *)

Definition last_opt (l : list bucket) : option bucket := last (map Some l) None.

Lemma last_opt_snoc : forall l x, last_opt (l ++ [x]) = Some x.
Proof.
  unfold last_opt. intros l x. rewrite map_app. simpl. apply last_last.
Qed.

Lemma last_opt_none : forall l, last_opt l = None -> l = [].
Proof.
  intros l. destruct l as [|x r] using rev_ind; [reflexivity|].
  rewrite last_opt_snoc. discriminate.
Qed.

(* feeding buckets one SetBucketCount at a time; None = Go panic *)
Fixpoint feed (h : temph) (bs : list bucket) : option temph :=
  match bs with
  | [] => Some h
  | (b, c) :: r => match set_bucket h b c with Some h' => feed h' r | None => None end
  end.

(* bounds strictly increasing (in particular no NaN), cumulative counts non-negative and
   non-decreasing; [prev] is the bucket before the list *)
Fixpoint incr (prev : option bucket) (bs : list bucket) : Prop :=
  match bs with
  | [] => True
  | (b, c) :: r =>
      num_eqb b NaN = false /\ 0 <= c /\
      match prev with Some (pb, pc) => num_lt pb b = true /\ pc <= c | None => True end /\
      incr (Some (b, c)) r
  end.

Lemma th_setb_setb : forall h a b, th_setb (th_setb h a) b = th_setb h b.
Proof. reflexivity. Qed.

Lemma feed_incr : forall bs pre h,
  th_err h = false -> th_b h = pre -> incr (last_opt pre) bs ->
  feed h bs = Some (th_setb h (pre ++ bs)).
Proof.
  induction bs as [|[b c] r IH]; intros pre h He Hb Hi.
  - simpl. rewrite app_nil_r, <- Hb. destruct h; reflexivity.
  - simpl in Hi. destruct Hi as [Hn [Hc [Hp Hr]]].
    simpl. unfold set_bucket. rewrite He, Hn.
    replace (c <? 0) with false by (symmetry; apply Z.ltb_ge; exact Hc).
    rewrite Hb. fold (last_opt pre).
    destruct (last_opt pre) as [[lle lc]|] eqn:EL.
    + destruct Hp as [Hlt Hle]. rewrite Hlt.
      replace (c <? lc) with false by (symmetry; apply Z.ltb_ge; exact Hle).
      rewrite (IH (pre ++ [(b, c)]) (th_setb h (pre ++ [(b, c)]))); try reflexivity.
      * rewrite th_setb_setb, <- app_assoc. reflexivity.
      * exact He.
      * rewrite last_opt_snoc. exact Hr.
    + apply last_opt_none in EL. subst pre. rewrite EL.
      rewrite (IH [(b, c)] (th_setb h [(b, c)])); try reflexivity; [exact He|].
      change (last_opt [(b, c)]) with (Some (b, c)). exact Hr.
Qed.

Definition top (l : list bucket) : Z := last (map snd l) 0.

Lemma last_cons_default : forall (l : list Z) x d, last (x :: l) d = last l x.
Proof.
  induction l as [|y r IH]; intros x d; [reflexivity|].
  change (last (x :: y :: r) d) with (last (y :: r) d). rewrite IH.
  change (last (y :: r) x) with (match r with [] => y | _ => last r x end).
  destruct r; [reflexivity|]. rewrite <- (IH y x). reflexivity.
Qed.

Lemma decumulate_snoc : forall l p b n,
  decumulate p (l ++ [(b, n)]) = decumulate p l ++ [n - last (map snd l) p].
Proof.
  induction l as [|[b0 c0] r IH]; intros p b n; [reflexivity|].
  change (decumulate p (((b0, c0) :: r) ++ [(b, n)])) with ((c0 - p) :: decumulate c0 (r ++ [(b, n)])).
  rewrite IH. change (map snd ((b0, c0) :: r)) with (c0 :: map snd r).
  rewrite last_cons_default. reflexivity.
Qed.

Definition finite_le (b : bucket) : bool := match fst b with Fin _ | NInf => true | _ => false end.

Lemma last_opt_finite : forall fin x, last_opt fin = Some x -> forallb finite_le fin = true ->
  num_feq (fst x) PInf = false.
Proof.
  intros fin. destruct fin as [|y r] using rev_ind; intros x H Hf; [discriminate|].
  rewrite last_opt_snoc in H. inversion H; subst.
  rewrite forallb_app in Hf. apply andb_true_iff in Hf. destruct Hf as [_ Hf]. simpl in Hf.
  rewrite andb_true_r in Hf. unfold finite_le in Hf. destruct (fst x); simpl; congruence.
Qed.

(* The conversion of a classic histogram given in the happy order.  [fin] are the buckets with a
   finite upper bound, [inf] the cumulative count of the le="+Inf" bucket if there is one,
   [cnt] the value of _count if there is one, [sum] of _sum (0 if absent). *)
Definition expected_count (fin : list bucket) (inf cnt : option Z) : Z :=
  match cnt, inf with Some c, _ => c | None, Some i => i | None, None => top fin end.

Definition with_count (h : temph) (cnt : option Z) : temph :=
  match cnt with Some c => set_count h c | None => h end.

Theorem convert_sorted : forall fin inf cnt sum h0,
  let infb := match inf with Some i => [(PInf, i)] | None => [] end in
  let N := expected_count fin inf cnt in
  forallb finite_le fin = true ->
  incr None (fin ++ infb) ->
  match cnt with Some c => 0 <= c | None => True end ->
  match cnt, inf with Some c, Some i => c = i | _, _ => True end ->
  feed th_empty (fin ++ infb) = Some h0 ->
  convert (set_sum (with_count h0 cnt) sum) =
  Some (mkNH (negb (forallb (fun b => is_int8 (snd b)) (fin ++ [(PInf, N)]) && is_int8 N))
             N sum (map fst fin) (decumulate 0 fin ++ [N - top fin])).
Proof.
  intros fin inf cnt sum h0 infb N Hfin Hi Hc Hci Hf.
  rewrite (feed_incr (fin ++ infb) [] th_empty eq_refl eq_refl Hi) in Hf.
  inversion Hf; subst h0; clear Hf. simpl app.
  assert (Hw : with_count (th_setb th_empty (fin ++ infb)) cnt =
               mkTH (fin ++ infb) (match cnt with Some c => c | None => 0 end) (Fin 0) false
                    (match cnt with Some _ => true | None => false end)).
  { destruct cnt as [c0|]; simpl; [|reflexivity]. unfold set_count. simpl.
    replace (c0 <? 0) with false by (symmetry; apply Z.ltb_ge; exact Hc). reflexivity. }
  rewrite Hw. clear Hw. unfold set_sum, convert.
  cbn [th_err th_b th_count th_hasCount th_sum]. cbv iota.
  fold (last_opt (fin ++ infb)).
  unfold N, expected_count, infb in *. clear N infb.
  destruct inf as [i|].
  - (* with +Inf bucket *)
    rewrite last_opt_snoc. cbn [num_feq num_eqb fst snd]. cbv iota.
    fold (last_opt (fin ++ [(PInf, i)])). rewrite last_opt_snoc.
    destruct cnt as [c0|]; [subst c0|];
      rewrite Z.eqb_refl, removelast_last, decumulate_snoc; unfold top; reflexivity.
  - (* without: the +Inf bucket is appended with the overall count *)
    rewrite app_nil_r in *.
    destruct (last_opt fin) as [[lle lc]|] eqn:EL.
    + pose proof (last_opt_finite fin (lle, lc) EL Hfin) as Hlf. cbn [fst] in Hlf. rewrite Hlf.
      assert (Htop : top fin = lc).
      { unfold top. clear - EL. destruct fin as [|y r] using rev_ind; [discriminate|].
        rewrite last_opt_snoc in EL. inversion EL; subst. rewrite map_app. simpl. apply last_last. }
      destruct cnt as [c0|]; cbv iota.
      * fold (last_opt (fin ++ [(PInf, c0)])). rewrite last_opt_snoc, Z.eqb_refl.
        rewrite removelast_last, decumulate_snoc. unfold top. reflexivity.
      * unfold top in *. rewrite Htop. fold (last_opt (fin ++ [(PInf, lc)])). rewrite last_opt_snoc, Z.eqb_refl.
        rewrite removelast_last, decumulate_snoc, Htop. reflexivity.
    + apply last_opt_none in EL. subst fin.
      destruct cnt as [c0|]; cbn; rewrite ?Z.eqb_refl; unfold top; cbn; rewrite ?Z.sub_0_r; reflexivity.
Qed.

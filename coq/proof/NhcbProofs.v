(* proof/NhcbProofs.v — lemmas about model/Nhcb.v (C36). *)
From Coq Require Import List ZArith Bool String Lia Arith.
From Verif Require Import model.Nhcb.
Import ListNotations.
Open Scope Z_scope.

(* ------------------------------------------------------------------ shapes of one step *)

Definition erase (o : oentry) : oentry :=
  match o with OSeries s v => OSeries (mkS (s_lset s) (s_ts s) 0 []) v | _ => o end.
Definition visible (o : oentry) : bool := negb (is_nhcb o).
Definition nonseries_o (o : oentry) : bool :=
  match o with OSeries _ _ | ONhcb _ _ => false | _ => true end.
Definition nonseries_b (e : bentry) : bool := match e with BSeries _ _ => false | _ => true end.

Lemma process_nhcb_shape : forall c p b p' fl,
  process_nhcb c p = (b, p', fl) -> fl = [] \/ exists s n, fl = [ONhcb s n].
Proof.
  intros c p b p' fl H. unfold process_nhcb in H.
  destruct (p_state p); try (inversion H; auto; fail).
  destruct (convert (p_tmp p)) as [n|]; [|inversion H; auto].
  destruct (validate n); [inversion H; subst; right; eauto|].
  destruct (fix_validate c); inversion H; auto.
Qed.

Lemma process_nhcb_not_collecting : forall c p,
  p_state p <> SCollecting -> process_nhcb c p = (false, p, []).
Proof. intros c p H. unfold process_nhcb. destruct (p_state p); congruence. Qed.

Section Steps.
Variable parse_le : string -> option num.
Variable c : cfg.

Lemma emit_series_shape : forall r s v p out,
  emit_series c r s v = (p, out) ->
  (out = [] /\ keep_classic c = false /\ fst r = true) \/
  (exists st ex, out = [OSeries (mkS (s_lset s) (s_ts s) st ex) v] /\
                 (fst r = false -> ex = s_ex s /\ (p_state p <> SCollecting -> st = s_st s))).
Proof.
  intros [isn p0] s v p out H. unfold emit_series in H.
  destruct isn; simpl in *.
  - destruct (keep_classic c); simpl in H; inversion H; subst; [right | left; auto].
    do 2 eexists. split; [reflexivity|]. intros X; discriminate.
  - inversion H; subst. right. unfold out_series. do 2 eexists. split; [reflexivity|].
    intros _. split; [reflexivity|]. intros Hs. destruct (p_state p); congruence.
Qed.

Lemma step_series_eq : forall p s v,
  step parse_le c p (BSeries s v) =
  let q := set_ts p (s_ts s) in
  match p_state q with
  | SCollecting =>
      if different_metric q (s_lset s) then
        let '(_, p1, fl) := process_nhcb c q in
        let '(p2, out) := emit_series c (handle_classic parse_le c p1 s v) s v in
        (p2, fl ++ out)
      else emit_series c (handle_classic parse_le c q s v) s v
  | SInhibiting =>
      if different_metric q (s_lset s) then
        emit_series c (handle_classic parse_le c (set_state q SStart) s v) s v
      else emit_series c (false, q) s v
  | SStart => emit_series c (handle_classic parse_le c q s v) s v
  end.
Proof. reflexivity. Qed.

(* every step emits: at most one converted histogram, then the entry itself (a series entry
   possibly swallowed or with other exemplars / start timestamp) *)
Lemma step_shape : forall p e p' out,
  step parse_le c p e = (p', out) ->
  exists fl own, out = fl ++ own /\ (fl = [] \/ exists s n, fl = [ONhcb s n]) /\
    match e with
    | BSeries s v => own = [] /\ keep_classic c = false \/
                     exists st ex, own = [OSeries (mkS (s_lset s) (s_ts s) st ex) v]
    | _ => own = [to_o e]
    end.
Proof.
  intros p e p' out H. destruct e as [s v|s hid|n t|k a b]; [rewrite step_series_eq in H; cbv zeta in H | simpl in H ..].
  - set (q := set_ts p (s_ts s)) in *.
    assert (Tail : forall r p2 o2, emit_series c r s v = (p2, o2) ->
              o2 = [] /\ keep_classic c = false \/
              exists st ex, o2 = [OSeries (mkS (s_lset s) (s_ts s) st ex) v]).
    { intros r p2 o2 E. apply emit_series_shape in E.
      destruct E as [[? [? ?]]|[st [ex [? _]]]]; [left; auto | right; eauto]. }
    destruct (p_state q).
    + destruct (emit_series c (handle_classic parse_le c q s v) s v) as [p2 o2] eqn:E.
      injection H as <- <-. exists [], o2. split; [reflexivity|]. split; [auto|]. eapply Tail; eauto.
    + destruct (different_metric q (s_lset s)).
      * destruct (process_nhcb c q) as [[b p1] fl] eqn:EP.
        destruct (emit_series c (handle_classic parse_le c p1 s v) s v) as [p2 o2] eqn:E.
        injection H as <- <-. exists fl, o2. split; [reflexivity|].
        split; [eapply process_nhcb_shape; eauto|]. eapply Tail; eauto.
      * destruct (emit_series c (handle_classic parse_le c q s v) s v) as [p2 o2] eqn:E.
        injection H as <- <-. exists [], o2. split; [reflexivity|]. split; [auto|]. eapply Tail; eauto.
    + destruct (different_metric q (s_lset s)).
      * destruct (emit_series c (handle_classic parse_le c (set_state q SStart) s v) s v) as [p2 o2] eqn:E.
        injection H as <- <-. exists [], o2. split; [reflexivity|]. split; [auto|]. eapply Tail; eauto.
      * destruct (emit_series c (false, q) s v) as [p2 o2] eqn:E.
        injection H as <- <-. exists [], o2. split; [reflexivity|]. split; [auto|]. eapply Tail; eauto.
  - inversion H; subst. exists [], [OHist s hid]. auto.
  - match type of H with context [process_nhcb c ?q] => destruct (process_nhcb c q) as [[b p1] fl] eqn:EP end.
    inversion H; subst. exists fl, [OType n t]. split; [reflexivity|].
    split; [eapply process_nhcb_shape; eauto | reflexivity].
  - destruct (process_nhcb c p) as [[b0 p1] fl] eqn:EP.
    inversion H; subst. exists fl, [OOther k a b]. split; [reflexivity|].
    split; [eapply process_nhcb_shape; eauto | reflexivity].
Qed.

Lemma filter_flush : forall (f : oentry -> bool) fl,
  (forall s n, f (ONhcb s n) = false) ->
  (fl = [] \/ exists s n, fl = [ONhcb s n]) -> filter f fl = [].
Proof. intros f fl Hf [->|[s [n ->]]]; simpl; [reflexivity|]. rewrite Hf. reflexivity. Qed.

Lemma step_nonseries : forall p e p' out,
  step parse_le c p e = (p', out) ->
  filter nonseries_o out = if nonseries_b e then [to_o e] else [].
Proof.
  intros p e p' out H. apply step_shape in H. destruct H as [fl [own [-> [Hfl Hown]]]].
  rewrite filter_app, (filter_flush nonseries_o fl) by (auto; reflexivity). simpl.
  destruct e; simpl in *; try (subst own; reflexivity).
  destruct Hown as [[-> _]|[st [ex ->]]]; reflexivity.
Qed.

Lemma step_keep : forall p e p' out,
  keep_classic c = true ->
  step parse_le c p e = (p', out) ->
  map erase (filter visible out) = [erase (to_o e)].
Proof.
  intros p e p' out Hk H. apply step_shape in H. destruct H as [fl [own [-> [Hfl Hown]]]].
  rewrite filter_app, (filter_flush visible fl) by (auto; reflexivity). simpl.
  destruct e; simpl in *; try (subst own; reflexivity).
  destruct Hown as [[_ Hf]|[st [ex ->]]]; [congruence | reflexivity].
Qed.

Lemma run_from_nonseries : forall es p p' out,
  run_from parse_le c p es = (p', out) ->
  filter nonseries_o out = map to_o (filter nonseries_b es).
Proof.
  induction es as [|e r IH]; intros p p' out H; simpl in H.
  - inversion H; reflexivity.
  - destruct (step parse_le c p e) as [p1 o1] eqn:E1.
    destruct (run_from parse_le c p1 r) as [p2 o2] eqn:E2.
    inversion H; subst. rewrite filter_app, (step_nonseries _ _ _ _ E1), (IH _ _ _ E2).
    simpl. destruct (nonseries_b e); reflexivity.
Qed.

Lemma run_from_keep : forall es p p' out,
  keep_classic c = true ->
  run_from parse_le c p es = (p', out) ->
  map erase (filter visible out) = map erase (map to_o es).
Proof.
  induction es as [|e r IH]; intros p p' out Hk H; simpl in H.
  - inversion H; reflexivity.
  - destruct (step parse_le c p e) as [p1 o1] eqn:E1.
    destruct (run_from parse_le c p1 r) as [p2 o2] eqn:E2.
    inversion H; subst. rewrite filter_app, map_app, (step_keep _ _ _ _ Hk E1), (IH _ _ _ Hk E2).
    reflexivity.
Qed.

Lemma final_flush_shape : forall p, 
  snd (process_nhcb c p) = [] \/ exists s n, snd (process_nhcb c p) = [ONhcb s n].
Proof.
  intros p. destruct (process_nhcb c p) as [[b p'] fl] eqn:E. simpl.
  eapply process_nhcb_shape; eauto.
Qed.

Theorem passthrough : forall es eof,
  filter nonseries_o (fst (run parse_le c es eof)) = map to_o (filter nonseries_b es).
Proof.
  intros es eof. unfold run. destruct (run_from parse_le c p_init es) as [p out] eqn:E. simpl.
  destruct eof; [|eapply run_from_nonseries; eauto].
  rewrite filter_app, (run_from_nonseries _ _ _ _ E).
  rewrite (filter_flush nonseries_o _ (fun _ _ => eq_refl) (final_flush_shape p)).
  apply app_nil_r.
Qed.

Theorem keep_classic_order : forall es eof,
  keep_classic c = true ->
  map erase (filter visible (fst (run parse_le c es eof))) = map erase (map to_o es).
Proof.
  intros es eof Hk. unfold run. destruct (run_from parse_le c p_init es) as [p out] eqn:E. simpl.
  destruct eof; [|eapply run_from_keep; eauto].
  rewrite filter_app, map_app, (run_from_keep _ _ _ _ Hk E).
  rewrite (filter_flush visible _ (fun _ _ => eq_refl) (final_flush_shape p)).
  apply app_nil_r.
Qed.


(* ------------------------------------------------------------------ native histogram inhibits *)

Lemma labels_eqb_refl : forall l, labels_eqb l l = true.
Proof.
  induction l as [|[k v] r IH]; [reflexivity|]. simpl. rewrite !String.eqb_refl, IH. reflexivity.
Qed.

Lemma step_inhibited : forall q s v,
  p_state q = SInhibiting -> different_metric q (s_lset s) = false ->
  step parse_le c q (BSeries s v) = (set_ts q (s_ts s), [OSeries s v]).
Proof.
  intros q s v Hs Hd. rewrite step_series_eq. cbv zeta.
  replace (p_state (set_ts q (s_ts s))) with SInhibiting by (symmetry; exact Hs).
  replace (different_metric (set_ts q (s_ts s)) (s_lset s)) with false by (symmetry; exact Hd).
  unfold emit_series, out_series. simpl. rewrite Hs. destruct s; reflexivity.
Qed.

Lemma run_from_cons : forall p e r,
  run_from parse_le c p (e :: r) =
  let '(p1, o1) := step parse_le c p e in
  let '(p2, o2) := run_from parse_le c p1 r in (p2, o1 ++ o2).
Proof. reflexivity. Qed.

Theorem native_inhibits : forall p s hid ss,
  p_typ p = T_HISTOGRAM ->
  Forall (fun sv : sample * num =>
            snd (base_name (lget (s_lset (fst sv)) NAME)) = lget (s_lset s) NAME /\
            without (s_lset (fst sv)) [LE] = without (s_lset s) []) ss ->
  let p1 := fst (step parse_le c p (BHist s hid)) in
  exists p2,
    run_from parse_le c p1 (map (fun sv => BSeries (fst sv) (snd sv)) ss) =
      (p2, map (fun sv => OSeries (fst sv) (snd sv)) ss) /\
    snd (process_nhcb c p2) = [].
Proof.
  intros p s hid ss Ht Hall p1.
  assert (Inv : p_state p1 = SInhibiting /\ p_typ p1 = T_HISTOGRAM /\
                p_lastname p1 = lget (s_lset s) NAME /\ p_lasthash p1 = without (s_lset s) []).
  { subst p1. simpl. auto. }
  clearbody p1. revert p1 Inv.
  induction Hall as [|[s1 v1] r [Hn Hk] _ IH]; intros p1 [Hs [Hty [Hln Hlh]]].
  - exists p1. split; [reflexivity|]. rewrite process_nhcb_not_collecting; [reflexivity | congruence].
  - simpl in Hn, Hk.
    assert (Hd : different_metric p1 (s_lset s1) = false).
    { unfold different_metric. rewrite Hty, Z.eqb_refl. simpl.
      rewrite Hln, Hn, String.eqb_refl. simpl. rewrite Hlh, Hk, labels_eqb_refl. reflexivity. }
    destruct (IH (set_ts p1 (s_ts s1))) as [p2 [Hr Hf]]; [simpl; auto|].
    exists p2. split; [|exact Hf].
    rewrite map_cons, run_from_cons. cbn [fst snd].
    rewrite (step_inhibited p1 s1 v1 Hs Hd), Hr. reflexivity.
Qed.


(* ------------------------------------------------------------------ one classic histogram *)

Definition suffix_of (u : upd) : suffix :=
  match u with UBucket _ => SufBucket | UCount => SufCount | USum => SufSum end.

(* [s] is a classic series of histogram [n] for the label set [key], in role [u] *)
Definition member (n : string) (key : labels) (s : sample) (u : upd) : Prop :=
  base_name (lget (s_lset s) NAME) = (suffix_of u, n) /\
  without (s_lset s) [LE] = key /\
  match u with
  | UBucket le => lhas (s_lset s) LE = true /\ parse_le (lget (s_lset s) LE) = Some le /\
                  num_eqb le NaN = false
  | _ => True
  end.

Definition apply_u (t : temph) (u : upd) (v : num) : option temph :=
  match u, v with
  | USum, _ => Some (set_sum t v)
  | UCount, Fin z => Some (set_count t z)
  | UBucket le, Fin z => set_bucket t le z
  | _, _ => None
  end.

Definition mem := (sample * num * upd)%type.
Definition m_sample (m : mem) : sample := fst (fst m).
Definition m_val (m : mem) : num := snd (fst m).
Definition m_upd (m : mem) : upd := snd m.

Fixpoint apply_all (t : temph) (ms : list mem) : option temph :=
  match ms with
  | [] => Some t
  | m :: r => match apply_u t (m_upd m) (m_val m) with Some t' => apply_all t' r | None => None end
  end.

Lemma handle_member : forall p n key s v u,
  p_typ p = T_HISTOGRAM -> p_bname p = n -> member n key s u ->
  handle_classic parse_le c p s v = (true, process_classic c p s v n u).
Proof.
  intros p n key s v u Ht Hb [Hbn [_ Hu]]. unfold handle_classic.
  rewrite Ht, Z.eqb_refl, Hbn, Hb, String.eqb_refl. simpl.
  destruct u as [le| |]; simpl; try reflexivity.
  destruct Hu as [Hh [Hp Hn]]. rewrite Hh, Hp, Hn. reflexivity.
Qed.

Lemma next_ptr_cnt : forall z e, eb_cnt (next_ptr z e) = eb_cnt e.
Proof.
  intros z e. unfold next_ptr.
  destruct (Z.of_nat (eb_cnt e) =? Z.of_nat (eb_len e) - 1); [reflexivity|].
  destruct (eb_len e =? List.length (eb_arr e))%nat; reflexivity.
Qed.

(* what a collated series without exemplars does to the parser state *)
Lemma process_classic_fields : forall p s v n u t',
  s_ex s = [] -> apply_u (p_tmp p) u v = Some t' ->
  let p' := process_classic c p s v n u in
  p_state p' = SCollecting /\ p_typ p' = p_typ p /\ p_bname p' = p_bname p /\ p_ts p' = p_ts p /\
  p_tmp p' = t' /\ eb_cnt (p_ex p') = eb_cnt (p_ex p) /\ p_oom p' = p_oom p /\ p_tmpts p' = p_ts p /\
  (p_state p = SCollecting ->
     p_tmpl p' = p_tmpl p /\ p_tmpst p' = p_tmpst p /\ p_lastname p' = p_lastname p /\
     p_lasthash p' = p_lasthash p) /\
  (p_state p <> SCollecting ->
     p_tmpl p' = metric_base (s_lset s) n /\ p_tmpst p' = (if parse_st c then s_st s else 0) /\
     p_lastname p' = n /\ p_lasthash p' = without (s_lset s) [LE]).
Proof.
  intros p s v n u t' Hex Ha p'. subst p'. unfold process_classic. rewrite Hex.
  assert (Hu : (let '(tmp, oom) :=
                  match u, v with
                  | USum, _ => (set_sum (p_tmp p) v, false)
                  | UCount, Fin z => (set_count (p_tmp p) z, false)
                  | UBucket le, Fin z => match set_bucket (p_tmp p) le z with
                                         | Some t => (t, false) | None => (p_tmp p, true) end
                  | _, _ => (p_tmp p, true)
                  end in (tmp, oom)) = (t', false)).
  { unfold apply_u in Ha. destruct u as [le| |]; destruct v; try discriminate; try (inversion Ha; reflexivity).
    destruct (set_bucket (p_tmp p) le z); inversion Ha; reflexivity. }
  destruct (p_state p) eqn:Es; simpl;
    (match goal with |- context [match ?u0 with UBucket _ => _ | UCount => _ | USum => _ end] => idtac end);
    cbn [p_tmp p_state p_typ p_bname p_ts p_tmpl p_ex p_tmpst p_lastname p_lasthash p_oom] in *.
  all: match type of Hu with (let '(tmp, oom) := ?X in _) = _ =>
         destruct X as [tmp oom] eqn:EX; inversion Hu; subst tmp oom end.
  all: cbn; rewrite next_ptr_cnt, orb_false_r.
  all: repeat split; auto; try (intros; congruence); try (intros X; exfalso; apply X; reflexivity).
Qed.

End Steps.


(* ------------------------------------------------------------------ TempHistogram *)

Definition last_opt (l : list bucket) : option bucket := last (map Some l) None.

Lemma last_opt_snoc : forall l x, last_opt (l ++ [x]) = Some x.
Proof.
  unfold last_opt. intros l x. rewrite map_app. simpl. apply last_last.
Qed.

Lemma last_opt_none : forall l, last_opt l = None -> l = [].
Proof.
  intros l. destruct l as [|x r] using rev_ind; [reflexivity|].
  rewrite last_opt_snoc. discriminate.
Qed.

(* feeding buckets one SetBucketCount at a time; None = Go panic *)
Fixpoint feed (h : temph) (bs : list bucket) : option temph :=
  match bs with
  | [] => Some h
  | (b, c) :: r => match set_bucket h b c with Some h' => feed h' r | None => None end
  end.

(* bounds strictly increasing (in particular no NaN), cumulative counts non-negative and
   non-decreasing; [prev] is the bucket before the list *)
Fixpoint incr (prev : option bucket) (bs : list bucket) : Prop :=
  match bs with
  | [] => True
  | (b, c) :: r =>
      num_eqb b NaN = false /\ 0 <= c /\
      match prev with Some (pb, pc) => num_lt pb b = true /\ pc <= c | None => True end /\
      incr (Some (b, c)) r
  end.

Lemma th_setb_setb : forall h a b, th_setb (th_setb h a) b = th_setb h b.
Proof. reflexivity. Qed.

Lemma feed_incr : forall bs pre h,
  th_err h = false -> th_b h = pre -> incr (last_opt pre) bs ->
  feed h bs = Some (th_setb h (pre ++ bs)).
Proof.
  induction bs as [|[b c] r IH]; intros pre h He Hb Hi.
  - simpl. rewrite app_nil_r, <- Hb. destruct h; reflexivity.
  - simpl in Hi. destruct Hi as [Hn [Hc [Hp Hr]]].
    simpl. unfold set_bucket. rewrite He, Hn.
    replace (c <? 0) with false by (symmetry; apply Z.ltb_ge; exact Hc).
    rewrite Hb. fold (last_opt pre).
    destruct (last_opt pre) as [[lle lc]|] eqn:EL.
    + destruct Hp as [Hlt Hle]. rewrite Hlt.
      replace (c <? lc) with false by (symmetry; apply Z.ltb_ge; exact Hle).
      rewrite (IH (pre ++ [(b, c)]) (th_setb h (pre ++ [(b, c)]))); try reflexivity.
      * rewrite th_setb_setb, <- app_assoc. reflexivity.
      * exact He.
      * rewrite last_opt_snoc. exact Hr.
    + apply last_opt_none in EL. subst pre. rewrite EL.
      rewrite (IH [(b, c)] (th_setb h [(b, c)])); try reflexivity; [exact He|].
      change (last_opt [(b, c)]) with (Some (b, c)). exact Hr.
Qed.

Definition top (l : list bucket) : Z := last (map snd l) 0.

Lemma last_cons_default : forall (l : list Z) x d, last (x :: l) d = last l x.
Proof.
  induction l as [|y r IH]; intros x d; [reflexivity|].
  change (last (x :: y :: r) d) with (last (y :: r) d). rewrite IH.
  change (last (y :: r) x) with (match r with [] => y | _ => last r x end).
  destruct r; [reflexivity|]. rewrite <- (IH y x). reflexivity.
Qed.

Lemma last_cons_default' : forall {A} (l : list A) x d, last (x :: l) d = last l x.
Proof.
  induction l as [|y r IH]; intros x d; [reflexivity|].
  change (last (x :: y :: r) d) with (last (y :: r) d). rewrite IH.
  change (last (y :: r) x) with (match r with [] => y | _ => last r x end).
  destruct r; [reflexivity|]. rewrite <- (IH y x). reflexivity.
Qed.

Lemma decumulate_snoc : forall l p b n,
  decumulate p (l ++ [(b, n)]) = decumulate p l ++ [n - last (map snd l) p].
Proof.
  induction l as [|[b0 c0] r IH]; intros p b n; [reflexivity|].
  change (decumulate p (((b0, c0) :: r) ++ [(b, n)])) with ((c0 - p) :: decumulate c0 (r ++ [(b, n)])).
  rewrite IH. change (map snd ((b0, c0) :: r)) with (c0 :: map snd r).
  rewrite last_cons_default. reflexivity.
Qed.

Definition finite_le (b : bucket) : bool := match fst b with Fin _ | NInf => true | _ => false end.

Lemma last_opt_finite : forall fin x, last_opt fin = Some x -> forallb finite_le fin = true ->
  num_feq (fst x) PInf = false.
Proof.
  intros fin. destruct fin as [|y r] using rev_ind; intros x H Hf; [discriminate|].
  rewrite last_opt_snoc in H. inversion H; subst.
  rewrite forallb_app in Hf. apply andb_true_iff in Hf. destruct Hf as [_ Hf]. simpl in Hf.
  rewrite andb_true_r in Hf. unfold finite_le in Hf. destruct (fst x); simpl; congruence.
Qed.

(* The conversion of a classic histogram given in the happy order.  [fin] are the buckets with a
   finite upper bound, [inf] the cumulative count of the le="+Inf" bucket if there is one,
   [cnt] the value of _count if there is one, [sum] of _sum (0 if absent). *)
Definition expected_count (fin : list bucket) (inf cnt : option Z) : Z :=
  match cnt, inf with Some c, _ => c | None, Some i => i | None, None => top fin end.

Definition with_count (h : temph) (cnt : option Z) : temph :=
  match cnt with Some c => set_count h c | None => h end.

Theorem convert_sorted : forall fin inf cnt sum h0,
  let infb := match inf with Some i => [(PInf, i)] | None => [] end in
  let N := expected_count fin inf cnt in
  forallb finite_le fin = true ->
  incr None (fin ++ infb) ->
  match cnt with Some c => 0 <= c | None => True end ->
  match cnt, inf with Some c, Some i => c = i | _, _ => True end ->
  feed th_empty (fin ++ infb) = Some h0 ->
  convert (set_sum (with_count h0 cnt) sum) =
  Some (mkNH (negb (forallb (fun b => is_int8 (snd b)) (fin ++ [(PInf, N)]) && is_int8 N))
             N sum (map fst fin) (decumulate 0 fin ++ [N - top fin])).
Proof.
  intros fin inf cnt sum h0 infb N Hfin Hi Hc Hci Hf.
  rewrite (feed_incr (fin ++ infb) [] th_empty eq_refl eq_refl Hi) in Hf.
  inversion Hf; subst h0; clear Hf. simpl app.
  assert (Hw : with_count (th_setb th_empty (fin ++ infb)) cnt =
               mkTH (fin ++ infb) (match cnt with Some c => c | None => 0 end) (Fin 0) false
                    (match cnt with Some _ => true | None => false end)).
  { destruct cnt as [c0|]; simpl; [|reflexivity]. unfold set_count. simpl.
    replace (c0 <? 0) with false by (symmetry; apply Z.ltb_ge; exact Hc). reflexivity. }
  rewrite Hw. clear Hw. unfold set_sum, convert.
  cbn [th_err th_b th_count th_hasCount th_sum]. cbv iota.
  fold (last_opt (fin ++ infb)).
  unfold N, expected_count, infb in *. clear N infb.
  destruct inf as [i|].
  - (* with +Inf bucket *)
    rewrite last_opt_snoc. cbn [num_feq num_eqb fst snd]. cbv iota.
    fold (last_opt (fin ++ [(PInf, i)])). rewrite last_opt_snoc.
    destruct cnt as [c0|]; [subst c0|];
      rewrite Z.eqb_refl, removelast_last, decumulate_snoc; unfold top; reflexivity.
  - (* without: the +Inf bucket is appended with the overall count *)
    rewrite app_nil_r in *.
    destruct (last_opt fin) as [[lle lc]|] eqn:EL.
    + pose proof (last_opt_finite fin (lle, lc) EL Hfin) as Hlf. cbn [fst] in Hlf. rewrite Hlf.
      assert (Htop : top fin = lc).
      { unfold top. clear - EL. destruct fin as [|y r] using rev_ind; [discriminate|].
        rewrite last_opt_snoc in EL. inversion EL; subst. rewrite map_app. simpl. apply last_last. }
      destruct cnt as [c0|]; cbv iota.
      * fold (last_opt (fin ++ [(PInf, c0)])). rewrite last_opt_snoc, Z.eqb_refl.
        rewrite removelast_last, decumulate_snoc. unfold top. reflexivity.
      * unfold top in *. rewrite Htop. fold (last_opt (fin ++ [(PInf, lc)])). rewrite last_opt_snoc, Z.eqb_refl.
        rewrite removelast_last, decumulate_snoc, Htop. reflexivity.
    + apply last_opt_none in EL. subst fin.
      destruct cnt as [c0|]; cbn; rewrite ?Z.eqb_refl; unfold top; cbn; rewrite ?Z.sub_0_r; reflexivity.
Qed.

Section OneHist.
Variable parse_le : string -> option num.
Variable c : cfg.
Hypothesis no_keep : keep_classic c = false.

Definition to_series (m : mem) : bentry := BSeries (m_sample m) (m_val m).
Definition good_member (n : string) (key : labels) (m : mem) : Prop :=
  member parse_le n key (m_sample m) (m_upd m) /\ s_ex (m_sample m) = [].

Lemma member_not_different : forall p n key s u,
  p_typ p = T_HISTOGRAM -> p_lastname p = n -> p_lasthash p = key ->
  member parse_le n key s u -> different_metric p (s_lset s) = false.
Proof.
  intros p n key s u Ht Hn Hk [Hb [Hw _]]. unfold different_metric.
  rewrite Ht, Z.eqb_refl, Hn, Hb, Hk, Hw. simpl. rewrite String.eqb_refl, labels_eqb_refl. reflexivity.
Qed.

(* the series of one histogram, read while collecting: all swallowed, the TempHistogram
   accumulates, label set / start timestamp of the collection stay, p.ts follows *)
Lemma collecting_run : forall n key ms p t',
  p_state p = SCollecting -> p_typ p = T_HISTOGRAM -> p_bname p = n ->
  p_lastname p = n -> p_lasthash p = key ->
  Forall (good_member n key) ms ->
  apply_all (p_tmp p) ms = Some t' ->
  exists p', run_from parse_le c p (map to_series ms) = (p', []) /\
    p_state p' = SCollecting /\ p_tmp p' = t' /\ p_tmpl p' = p_tmpl p /\ p_tmpst p' = p_tmpst p /\
    eb_cnt (p_ex p') = eb_cnt (p_ex p) /\
    p_ts p' = last (map (fun m => s_ts (m_sample m)) ms) (p_ts p) /\
    p_tmpts p' = last (map (fun m => s_ts (m_sample m)) ms) (p_tmpts p).
Proof.
  intros n key ms. induction ms as [|m r IH]; intros p t' Hs Ht Hb Hn Hk Hall Ha.
  - simpl in Ha. inversion Ha; subst. exists p. simpl. repeat split; auto.
  - apply Forall_cons_iff in Hall. destruct Hall as [[Hm Hex] Hr].
    simpl in Ha. destruct (apply_u (p_tmp p) (m_upd m) (m_val m)) as [t1|] eqn:E1; [|discriminate].
    set (q := set_ts p (s_ts (m_sample m))).
    assert (Hd : different_metric q (s_lset (m_sample m)) = false)
      by (eapply member_not_different; eauto).
    assert (Hstep : step parse_le c p (to_series m) =
                    (process_classic c q (m_sample m) (m_val m) n (m_upd m), [])).
    { unfold to_series. rewrite step_series_eq. cbv zeta. fold q.
      replace (p_state q) with SCollecting by (symmetry; exact Hs). rewrite Hd.
      rewrite (handle_member parse_le c q n key _ _ _ Ht Hb Hm).
      unfold emit_series. rewrite no_keep. reflexivity. }
    pose proof (process_classic_fields c q (m_sample m) (m_val m) n (m_upd m) t1 Hex E1) as PF.
    cbv zeta in PF. destruct PF as [F1 [F2 [F3 [F4 [F5 [F6 [F7 [F8 [F9 _]]]]]]]]].
    destruct (F9 Hs) as [G1 [G2 [G3 G4]]].
    set (p1 := process_classic c q (m_sample m) (m_val m) n (m_upd m)) in *.
    assert (Ha1 : apply_all (p_tmp p1) r = Some t') by (rewrite F5; exact Ha).
    assert (Ht1 : p_typ p1 = T_HISTOGRAM) by (rewrite F2; exact Ht).
    assert (Hb1 : p_bname p1 = n) by (rewrite F3; exact Hb).
    assert (Hn1 : p_lastname p1 = n) by (rewrite G3; exact Hn).
    assert (Hk1 : p_lasthash p1 = key) by (rewrite G4; exact Hk).
    destruct (IH p1 t' F1 Ht1 Hb1 Hn1 Hk1 Hr Ha1) as [p' [Hrun [R1 [R2 [R3 [R4 [R5 [R6 R7]]]]]]]].
    exists p'. split.
    + rewrite map_cons, run_from_cons, Hstep, Hrun. reflexivity.
    + split; [exact R1|]. split; [exact R2|]. split; [rewrite R3, G1; reflexivity|].
      split; [rewrite R4, G2; reflexivity|]. split; [rewrite R5, F6; reflexivity|]. split.
      * rewrite R6, F4. change (map (fun m0 => s_ts (m_sample m0)) (m :: r))
          with (s_ts (m_sample m) :: map (fun m0 => s_ts (m_sample m0)) r).
        rewrite last_cons_default'. reflexivity.
      * rewrite R7, F8. change (map (fun m0 => s_ts (m_sample m0)) (m :: r))
          with (s_ts (m_sample m) :: map (fun m0 => s_ts (m_sample m0)) r).
        rewrite last_cons_default'. reflexivity.
Qed.


Lemma run_from_app : forall a b p,
  run_from parse_le c p (a ++ b) =
  let '(p1, o1) := run_from parse_le c p a in
  let '(p2, o2) := run_from parse_le c p1 b in (p2, o1 ++ o2).
Proof.
  induction a as [|e r IH]; intros b p.
  - simpl. destruct (run_from parse_le c p b); reflexivity.
  - rewrite <- app_comm_cons, !run_from_cons.
    destruct (step parse_le c p e) as [p1 o1]. rewrite IH.
    destruct (run_from parse_le c p1 r) as [p2 o2].
    destruct (run_from parse_le c p2 b) as [p3 o3]. rewrite app_assoc. reflexivity.
Qed.

Definition is_meta (e : bentry) : bool :=
  match e with BType _ _ | BOther _ _ _ => true | _ => false end.

(* what the end of a collection emits *)
Lemma flush_collecting : forall p nh,
  p_state p = SCollecting -> convert (p_tmp p) = Some nh -> validate nh = true ->
  snd (process_nhcb c p) =
  [ONhcb (mkS (p_tmpl p) (if fix_ts c then p_tmpts p else p_ts p) (p_tmpst p)
              (firstn (eb_cnt (p_ex p)) (eb_arr (p_ex p)))) nh].
Proof.
  intros p nh Hs Hc Hv. unfold process_nhcb. rewrite Hs, Hc, Hv. reflexivity.
Qed.

(* One classic histogram: starting in the start state under `TYPE n histogram`, the series of
   one label set (any order of bucket/count/sum series that the TempHistogram accepts), then a
   TYPE/HELP/UNIT/comment entry or the end of input.  Nothing is emitted for the series, then
   exactly one converted histogram: the conversion of what the TempHistogram accumulated, under
   the label set without le and with the base name, the series' timestamp and the start
   timestamp of the first series. *)
Theorem one_histogram : forall n key m0 ms p t' nh,
  p_state p = SStart -> p_typ p = T_HISTOGRAM -> p_bname p = n -> p_tmp p = th_empty ->
  eb_cnt (p_ex p) = 0%nat ->
  Forall (good_member n key) (m0 :: ms) ->
  apply_all th_empty (m0 :: ms) = Some t' ->
  convert t' = Some nh -> validate nh = true ->
  let hist := ONhcb (mkS (metric_base (s_lset (m_sample m0)) n)
                         (last (map (fun m => s_ts (m_sample m)) (m0 :: ms)) None)
                         (if parse_st c then s_st (m_sample m0) else 0) []) nh in
  (forall e, is_meta e = true ->
     snd (run_from parse_le c p (map to_series (m0 :: ms) ++ [e])) = [hist; to_o e]) /\
  (let '(p', out) := run_from parse_le c p (map to_series (m0 :: ms)) in
   out ++ snd (process_nhcb c p') = [hist]).
Proof.
  intros n key m0 ms p t' nh Hs Ht Hb Htmp Hcnt Hall Ha Hc Hv hist.
  apply Forall_cons_iff in Hall. destruct Hall as [[Hm Hex] Hr].
  simpl in Ha. destruct (apply_u th_empty (m_upd m0) (m_val m0)) as [t1|] eqn:E1; [|discriminate].
  set (q := set_ts p (s_ts (m_sample m0))).
  assert (Hstep : step parse_le c p (to_series m0) =
                  (process_classic c q (m_sample m0) (m_val m0) n (m_upd m0), [])).
  { unfold to_series. rewrite step_series_eq. cbv zeta. fold q.
    replace (p_state q) with SStart by (symmetry; exact Hs).
    rewrite (handle_member parse_le c q n key _ _ _ Ht Hb Hm).
    unfold emit_series. rewrite no_keep. reflexivity. }
  assert (E1' : apply_u (p_tmp q) (m_upd m0) (m_val m0) = Some t1)
    by (change (p_tmp q) with (p_tmp p); rewrite Htmp; exact E1).
  pose proof (process_classic_fields c q (m_sample m0) (m_val m0) n (m_upd m0) t1 Hex E1') as PF.
  cbv zeta in PF. destruct PF as [F1 [F2 [F3 [F4 [F5 [F6 [F7 [F8 [_ F10]]]]]]]]].
  assert (Hq : p_state q <> SCollecting) by (change (p_state q) with (p_state p); congruence).
  destruct (F10 Hq) as [G1 [G2 [G3 G4]]].
  set (p1 := process_classic c q (m_sample m0) (m_val m0) n (m_upd m0)) in *.
  assert (Hk : p_lasthash p1 = key) by (rewrite G4; destruct Hm as [_ [Hw _]]; exact Hw).
  assert (Ha1 : apply_all (p_tmp p1) ms = Some t') by (rewrite F5; exact Ha).
  assert (Ht1 : p_typ p1 = T_HISTOGRAM) by (rewrite F2; exact Ht).
  assert (Hb1 : p_bname p1 = n) by (rewrite F3; exact Hb).
  destruct (collecting_run n key ms p1 t' F1 Ht1 Hb1 G3 Hk Hr Ha1)
    as [p' [Hrun [R1 [R2 [R3 [R4 [R5 [R6 R7]]]]]]]].
  assert (Hrun0 : run_from parse_le c p (map to_series (m0 :: ms)) = (p', [])).
  { rewrite map_cons, run_from_cons, Hstep, Hrun. reflexivity. }
  assert (Hts : (if fix_ts c then p_tmpts p' else p_ts p') =
                last (map (fun m => s_ts (m_sample m)) (m0 :: ms)) None).
  { change (map (fun m => s_ts (m_sample m)) (m0 :: ms))
      with (s_ts (m_sample m0) :: map (fun m => s_ts (m_sample m)) ms).
    rewrite last_cons_default', R6, R7, F4, F8. destruct (fix_ts c); reflexivity. }
  assert (Hcnt' : eb_cnt (p_ex p') = 0%nat).
  { rewrite R5, F6. exact Hcnt. }
  assert (Hflush : forall p2, p_state p2 = SCollecting -> p_tmp p2 = p_tmp p' -> p_tmpl p2 = p_tmpl p' ->
             p_tmpts p2 = p_tmpts p' -> p_ts p2 = p_ts p' -> p_tmpst p2 = p_tmpst p' -> p_ex p2 = p_ex p' ->
             snd (process_nhcb c p2) = [hist]).
  { intros p2 A1 A2 A3 A4 A5 A6 A7. rewrite (flush_collecting p2 nh A1); [|rewrite A2, R2; exact Hc|exact Hv].
    rewrite A3, A4, A5, A6, A7, Hts, Hcnt', R3, R4, G1, G2. reflexivity. }
  split.
  - intros e He. rewrite run_from_app, Hrun0.
    destruct e as [s v|s hid|n2 t2|k a b]; try discriminate.
    + simpl.
      match goal with |- context [process_nhcb c ?P] =>
        pose proof (Hflush P R1 eq_refl eq_refl eq_refl eq_refl eq_refl eq_refl) as HF;
        destruct (process_nhcb c P) as [[b0 p3] fl] end.
      simpl in HF. subst fl. reflexivity.
    + simpl.
      pose proof (Hflush p' R1 eq_refl eq_refl eq_refl eq_refl eq_refl eq_refl) as HF.
      destruct (process_nhcb c p') as [[b0 p3] fl]. simpl in HF. subst fl. reflexivity.
  - rewrite Hrun0. simpl. apply Hflush; auto.
Qed.

End OneHist.

(* ------------------------------------------------------------------ the exemplar buffer *)

Lemma length_zero_nth : forall k l, List.length (zero_nth k l) = List.length l.
Proof. induction k; destruct l; simpl; auto. Qed.

Lemma length_write_nth : forall p k x l, List.length (write_nth p k x l) = List.length l.
Proof. induction k; destruct l; simpl; auto. Qed.

Lemma firstn_zero_nth : forall k l, firstn k (zero_nth k l) = firstn k l.
Proof. induction k; destruct l; simpl; auto. f_equal. apply IHk. Qed.

Lemma nth_zero_nth : forall k l, (k < List.length l)%nat -> nth k (zero_nth k l) ex_zero = ex_zero.
Proof. induction k; destruct l; simpl; intros H; try lia; auto. apply IHk. lia. Qed.

Lemma firstn_write_nth : forall p k x l, firstn k (write_nth p k x l) = firstn k l.
Proof. induction k; destruct l; simpl; auto. f_equal. apply IHk. Qed.

(* a write is exact when the parser assigns every field, or the slot held no timestamp *)
Lemma firstn_S_write_nth : forall p k x l,
  (k < List.length l)%nat -> (p = false \/ snd (nth k l ex_zero) = None) ->
  firstn (S k) (write_nth p k x l) = firstn k l ++ [x].
Proof.
  induction k; destruct l as [|y r]; simpl; intros H Hp; try lia.
  - destruct x as [i t]. simpl. destruct t; [reflexivity|].
    destruct Hp as [-> | Hn]; [reflexivity|]. simpl in Hn. rewrite Hn. destruct p; reflexivity.
  - f_equal. apply IHk; [lia | exact Hp].
Qed.

Definition full (k : nat) (e : exbuf) : Prop :=
  eb_len e = k /\ eb_cnt e = k /\ (k <= List.length (eb_arr e))%nat.
Definition spare (partial : bool) (k : nat) (e : exbuf) : Prop :=
  eb_len e = S k /\ eb_cnt e = k /\ (S k <= List.length (eb_arr e))%nat /\
  (partial = false \/ snd (nth k (eb_arr e) ex_zero) = None).

Section Buf.
Variables partial zero : bool.
Hypothesis Hz : partial = false \/ zero = true.

Lemma next_ptr_full : forall k e, full k e ->
  spare partial k (next_ptr zero e) /\ firstn k (eb_arr (next_ptr zero e)) = firstn k (eb_arr e).
Proof.
  intros k e [Hl [Hc Hle]]. unfold next_ptr. rewrite Hl, Hc.
  replace (Z.of_nat k =? Z.of_nat k - 1) with false by (symmetry; apply Z.eqb_neq; lia).
  destruct (k =? List.length (eb_arr e))%nat eqn:E.
  - apply Nat.eqb_eq in E. unfold spare. simpl.
    assert (Hg : (1 <= growcap k - k)%nat) by (unfold growcap; destruct k; lia).
    destruct (growcap k - k)%nat as [|g] eqn:EG; [lia|].
    rewrite app_length, firstn_length, repeat_length. simpl repeat.
    split; [split; [reflexivity|split; [reflexivity|split; [lia|]]]|].
    + right. rewrite app_nth2 by (rewrite firstn_length; lia).
      rewrite firstn_length. replace (k - Nat.min k (List.length (eb_arr e)))%nat with O by lia. reflexivity.
    + rewrite firstn_app, firstn_length. replace (k - Nat.min k (List.length (eb_arr e)))%nat with O by lia.
      simpl. rewrite app_nil_r, firstn_firstn, Nat.min_id. reflexivity.
  - apply Nat.eqb_neq in E. unfold spare. simpl.
    destruct zero.
    + rewrite length_zero_nth. split; [split; [reflexivity|split; [reflexivity|split; [lia|]]]|].
      * right. rewrite nth_zero_nth by lia. reflexivity.
      * apply firstn_zero_nth.
    + destruct Hz as [Hp|Hp]; [|discriminate].
      split; [split; [reflexivity|split; [reflexivity|split; [lia|left; exact Hp]]]|reflexivity].
Qed.

Lemma next_ptr_spare : forall k e, spare partial k e -> next_ptr zero e = e.
Proof.
  intros k e [Hl [Hc _]]. unfold next_ptr. rewrite Hl, Hc.
  replace (Z.of_nat k =? Z.of_nat (S k) - 1) with true by (symmetry; apply Z.eqb_eq; lia).
  reflexivity.
Qed.

Lemma store_exemplars_spec : forall xs e k,
  full k e \/ spare partial k e ->
  let e' := store_exemplars partial zero e xs in
  spare partial (k + List.length xs) e' /\
  firstn (k + List.length xs) (eb_arr e') = firstn k (eb_arr e) ++ xs.
Proof.
  induction xs as [|x r IH]; intros e k H; simpl.
  - rewrite Nat.add_0_r, app_nil_r. destruct H as [H|H].
    + apply next_ptr_full. exact H.
    + rewrite (next_ptr_spare k e H). split; [exact H | reflexivity].
  - assert (H1 : spare partial k (next_ptr zero e) /\
                 firstn k (eb_arr (next_ptr zero e)) = firstn k (eb_arr e)).
    { destruct H as [H|H]; [apply next_ptr_full; exact H|].
      rewrite (next_ptr_spare k e H). split; [exact H | reflexivity]. }
    destruct H1 as [[Hl [Hc [Hle Hs]]] Hf]. set (e1 := next_ptr zero e) in *.
    rewrite Hl. replace (S k - 1)%nat with k by lia.
    set (e2 := mkEB (write_nth partial k x (eb_arr e1)) (S k) (S (eb_cnt e1))).
    assert (H2 : full (S k) e2).
    { unfold full, e2. simpl. rewrite Hc, length_write_nth. repeat split; lia. }
    destruct (IH e2 (S k) (or_introl H2)) as [R1 R2].
    replace (k + S (List.length r))%nat with (S k + List.length r)%nat by lia.
    split; [exact R1|]. rewrite R2. unfold e2. simpl eb_arr.
    rewrite firstn_S_write_nth by (auto; lia). rewrite Hf, <- app_assoc. reflexivity.
Qed.

End Buf.

(* ------------------------------------------------------------------ one classic histogram, with exemplars *)

Section OneHistEx.
Variable parse_le : string -> option num.
Variable c : cfg.
Hypothesis no_keep : keep_classic c = false.
(* exemplar writes are exact: the wrapped parser assigns every field of the exemplar, or the
   buffer slot is zeroed before it is used again (repair 3) *)
Hypothesis exact_ex : ex_partial c = false \/ fix_exzero c = true.

(* what a collated series does to the parser state (exemplars allowed) *)
Lemma process_classic_fields_ex : forall p s v n u t',
  apply_u (p_tmp p) u v = Some t' ->
  let p' := process_classic c p s v n u in
  p_state p' = SCollecting /\ p_typ p' = p_typ p /\ p_bname p' = p_bname p /\ p_ts p' = p_ts p /\
  p_tmp p' = t' /\
  p_ex p' = store_exemplars (ex_partial c) (fix_exzero c) (p_ex p) (s_ex s) /\
  p_tmpts p' = p_ts p /\
  (p_state p = SCollecting ->
     p_tmpl p' = p_tmpl p /\ p_tmpst p' = p_tmpst p /\ p_lastname p' = p_lastname p /\
     p_lasthash p' = p_lasthash p) /\
  (p_state p <> SCollecting ->
     p_tmpl p' = metric_base (s_lset s) n /\ p_tmpst p' = (if parse_st c then s_st s else 0) /\
     p_lastname p' = n /\ p_lasthash p' = without (s_lset s) [LE]).
Proof.
  intros p s v n u t' Ha p'. subst p'. unfold process_classic.
  assert (Hu : (let '(tmp, oom) :=
                  match u, v with
                  | USum, _ => (set_sum (p_tmp p) v, false)
                  | UCount, Fin z => (set_count (p_tmp p) z, false)
                  | UBucket le, Fin z => match set_bucket (p_tmp p) le z with
                                         | Some t => (t, false) | None => (p_tmp p, true) end
                  | _, _ => (p_tmp p, true)
                  end in (tmp, oom)) = (t', false)).
  { unfold apply_u in Ha. destruct u as [le| |]; destruct v; try discriminate; try (inversion Ha; reflexivity).
    destruct (set_bucket (p_tmp p) le z); inversion Ha; reflexivity. }
  destruct (p_state p) eqn:Es; simpl;
    cbn [p_tmp p_state p_typ p_bname p_ts p_tmpl p_ex p_tmpst p_lastname p_lasthash p_oom] in *.
  all: match type of Hu with (let '(tmp, oom) := ?X in _) = _ =>
         destruct X as [tmp oom] eqn:EX; inversion Hu; subst tmp oom end.
  all: cbn.
  all: repeat split; auto; try (intros; congruence); try (intros X; exfalso; apply X; reflexivity).
Qed.

Definition member_ok (n : string) (key : labels) (m : mem) : Prop :=
  member parse_le n key (m_sample m) (m_upd m).
Definition all_ex (ms : list mem) : list exem := flat_map (fun m => s_ex (m_sample m)) ms.

Lemma collecting_run_ex : forall n key ms p t' k,
  p_state p = SCollecting -> p_typ p = T_HISTOGRAM -> p_bname p = n ->
  p_lastname p = n -> p_lasthash p = key ->
  full k (p_ex p) \/ spare (ex_partial c) k (p_ex p) ->
  Forall (member_ok n key) ms ->
  apply_all (p_tmp p) ms = Some t' ->
  exists p', run_from parse_le c p (map to_series ms) = (p', []) /\
    p_state p' = SCollecting /\ p_tmp p' = t' /\ p_tmpl p' = p_tmpl p /\ p_tmpst p' = p_tmpst p /\
    (full (k + List.length (all_ex ms)) (p_ex p') \/ spare (ex_partial c) (k + List.length (all_ex ms)) (p_ex p')) /\
    firstn (k + List.length (all_ex ms)) (eb_arr (p_ex p')) = firstn k (eb_arr (p_ex p)) ++ all_ex ms /\
    p_ts p' = last (map (fun m => s_ts (m_sample m)) ms) (p_ts p) /\
    p_tmpts p' = last (map (fun m => s_ts (m_sample m)) ms) (p_tmpts p).
Proof.
  intros n key ms. induction ms as [|m r IH]; intros p t' k Hs Ht Hb Hn Hk Hbuf Hall Ha.
  - simpl in Ha. inversion Ha; subst. exists p. simpl. rewrite Nat.add_0_r, app_nil_r.
    repeat split; auto.
  - apply Forall_cons_iff in Hall. destruct Hall as [Hm Hr].
    simpl in Ha. destruct (apply_u (p_tmp p) (m_upd m) (m_val m)) as [t1|] eqn:E1; [|discriminate].
    set (q := set_ts p (s_ts (m_sample m))).
    assert (Hd : different_metric q (s_lset (m_sample m)) = false)
      by (eapply member_not_different; eauto).
    assert (Hstep : step parse_le c p (to_series m) =
                    (process_classic c q (m_sample m) (m_val m) n (m_upd m), [])).
    { unfold to_series. rewrite step_series_eq. cbv zeta. fold q.
      replace (p_state q) with SCollecting by (symmetry; exact Hs). rewrite Hd.
      rewrite (handle_member parse_le c q n key _ _ _ Ht Hb Hm).
      unfold emit_series. rewrite no_keep. reflexivity. }
    pose proof (process_classic_fields_ex q (m_sample m) (m_val m) n (m_upd m) t1 E1) as PF.
    cbv zeta in PF. destruct PF as [F1 [F2 [F3 [F4 [F5 [F6 [F8 [F9 _]]]]]]]].
    destruct (F9 Hs) as [G1 [G2 [G3 G4]]].
    set (p1 := process_classic c q (m_sample m) (m_val m) n (m_upd m)) in *.
    pose proof (store_exemplars_spec (ex_partial c) (fix_exzero c) exact_ex (s_ex (m_sample m)) (p_ex q) k Hbuf) as SB.
    cbv zeta in SB. rewrite <- F6 in SB. destruct SB as [SB1 SB2].
    assert (Ha1 : apply_all (p_tmp p1) r = Some t') by (rewrite F5; exact Ha).
    assert (Ht1 : p_typ p1 = T_HISTOGRAM) by (rewrite F2; exact Ht).
    assert (Hb1 : p_bname p1 = n) by (rewrite F3; exact Hb).
    assert (Hn1 : p_lastname p1 = n) by (rewrite G3; exact Hn).
    assert (Hk1 : p_lasthash p1 = key) by (rewrite G4; exact Hk).
    destruct (IH p1 t' (k + List.length (s_ex (m_sample m)))%nat F1 Ht1 Hb1 Hn1 Hk1 (or_intror SB1) Hr Ha1)
      as [p' [Hrun [R1 [R2 [R3 [R4 [R5 [R5b [R6 R7]]]]]]]]].
    assert (Hlen : (k + List.length (all_ex (m :: r)) =
                    k + List.length (s_ex (m_sample m)) + List.length (all_ex r))%nat).
    { unfold all_ex. simpl. rewrite app_length. lia. }
    exists p'. split.
    + rewrite map_cons, run_from_cons, Hstep, Hrun. reflexivity.
    + split; [exact R1|]. split; [exact R2|]. split; [rewrite R3, G1; reflexivity|].
      split; [rewrite R4, G2; reflexivity|].
      split; [rewrite Hlen; exact R5|].
      split.
      * rewrite Hlen, R5b, SB2. unfold all_ex. simpl. rewrite <- app_assoc. reflexivity.
      * split.
        -- rewrite R6, F4. change (map (fun m0 => s_ts (m_sample m0)) (m :: r))
             with (s_ts (m_sample m) :: map (fun m0 => s_ts (m_sample m0)) r).
           rewrite last_cons_default'. reflexivity.
        -- rewrite R7, F8. change (map (fun m0 => s_ts (m_sample m0)) (m :: r))
             with (s_ts (m_sample m) :: map (fun m0 => s_ts (m_sample m0)) r).
           rewrite last_cons_default'. reflexivity.
Qed.

(* One classic histogram, exemplars included. *)
Theorem one_histogram_ex : forall n key m0 ms p t' nh,
  p_state p = SStart -> p_typ p = T_HISTOGRAM -> p_bname p = n -> p_tmp p = th_empty ->
  full 0 (p_ex p) ->
  Forall (member_ok n key) (m0 :: ms) ->
  apply_all th_empty (m0 :: ms) = Some t' ->
  convert t' = Some nh -> validate nh = true ->
  let hist := ONhcb (mkS (metric_base (s_lset (m_sample m0)) n)
                         (last (map (fun m => s_ts (m_sample m)) (m0 :: ms)) None)
                         (if parse_st c then s_st (m_sample m0) else 0)
                         (all_ex (m0 :: ms))) nh in
  (forall e, is_meta e = true ->
     snd (run_from parse_le c p (map to_series (m0 :: ms) ++ [e])) = [hist; to_o e]) /\
  (let '(p', out) := run_from parse_le c p (map to_series (m0 :: ms)) in
   out ++ snd (process_nhcb c p') = [hist]).
Proof.
  intros n key m0 ms p t' nh Hs Ht Hb Htmp Hfull Hall Ha Hc Hv hist.
  apply Forall_cons_iff in Hall. destruct Hall as [Hm Hr].
  simpl in Ha. destruct (apply_u th_empty (m_upd m0) (m_val m0)) as [t1|] eqn:E1; [|discriminate].
  set (q := set_ts p (s_ts (m_sample m0))).
  assert (Hstep : step parse_le c p (to_series m0) =
                  (process_classic c q (m_sample m0) (m_val m0) n (m_upd m0), [])).
  { unfold to_series. rewrite step_series_eq. cbv zeta. fold q.
    replace (p_state q) with SStart by (symmetry; exact Hs).
    rewrite (handle_member parse_le c q n key _ _ _ Ht Hb Hm).
    unfold emit_series. rewrite no_keep. reflexivity. }
  assert (E1' : apply_u (p_tmp q) (m_upd m0) (m_val m0) = Some t1)
    by (change (p_tmp q) with (p_tmp p); rewrite Htmp; exact E1).
  pose proof (process_classic_fields_ex q (m_sample m0) (m_val m0) n (m_upd m0) t1 E1') as PF.
  cbv zeta in PF. destruct PF as [F1 [F2 [F3 [F4 [F5 [F6 [F8 [_ F10]]]]]]]].
  assert (Hq : p_state q <> SCollecting) by (change (p_state q) with (p_state p); congruence).
  destruct (F10 Hq) as [G1 [G2 [G3 G4]]].
  set (p1 := process_classic c q (m_sample m0) (m_val m0) n (m_upd m0)) in *.
  pose proof (store_exemplars_spec (ex_partial c) (fix_exzero c) exact_ex (s_ex (m_sample m0)) (p_ex q) 0%nat
                (or_introl Hfull)) as SB.
  cbv zeta in SB. rewrite <- F6 in SB. destruct SB as [SB1 SB2]. simpl in SB1, SB2.
  assert (Hk : p_lasthash p1 = key) by (rewrite G4; destruct Hm as [_ [Hw _]]; exact Hw).
  assert (Ha1 : apply_all (p_tmp p1) ms = Some t') by (rewrite F5; exact Ha).
  assert (Ht1 : p_typ p1 = T_HISTOGRAM) by (rewrite F2; exact Ht).
  assert (Hb1 : p_bname p1 = n) by (rewrite F3; exact Hb).
  destruct (collecting_run_ex n key ms p1 t' (List.length (s_ex (m_sample m0))) F1 Ht1 Hb1 G3 Hk (or_intror SB1) Hr Ha1)
    as [p' [Hrun [R1 [R2 [R3 [R4 [R5 [R5b [R6 R7]]]]]]]]].
  assert (Hrun0 : run_from parse_le c p (map to_series (m0 :: ms)) = (p', [])).
  { rewrite map_cons, run_from_cons, Hstep, Hrun. reflexivity. }
  assert (Hts : (if fix_ts c then p_tmpts p' else p_ts p') =
                last (map (fun m => s_ts (m_sample m)) (m0 :: ms)) None).
  { change (map (fun m => s_ts (m_sample m)) (m0 :: ms))
      with (s_ts (m_sample m0) :: map (fun m => s_ts (m_sample m)) ms).
    rewrite last_cons_default', R6, R7, F4, F8. destruct (fix_ts c); reflexivity. }
  assert (Hex : firstn (eb_cnt (p_ex p')) (eb_arr (p_ex p')) = all_ex (m0 :: ms)).
  { assert (Hcnt : eb_cnt (p_ex p') = (List.length (s_ex (m_sample m0)) + List.length (all_ex ms))%nat).
    { destruct R5 as [[_ [Hc' _]]|[_ [Hc' _]]]; exact Hc'. }
    rewrite Hcnt, R5b, SB2. reflexivity. }
  assert (Hflush : forall p2, p_state p2 = SCollecting -> p_tmp p2 = p_tmp p' -> p_tmpl p2 = p_tmpl p' ->
             p_tmpts p2 = p_tmpts p' -> p_ts p2 = p_ts p' -> p_tmpst p2 = p_tmpst p' -> p_ex p2 = p_ex p' ->
             snd (process_nhcb c p2) = [hist]).
  { intros p2 A1 A2 A3 A4 A5 A6 A7. rewrite (flush_collecting c p2 nh A1); [|rewrite A2, R2; exact Hc|exact Hv].
    rewrite A3, A4, A5, A6, A7, Hts, Hex, R3, R4, G1, G2. reflexivity. }
  split.
  - intros e He. rewrite run_from_app, Hrun0.
    destruct e as [s v|s hid|n2 t2|k a b]; try discriminate.
    + simpl.
      match goal with |- context [process_nhcb c ?P] =>
        pose proof (Hflush P R1 eq_refl eq_refl eq_refl eq_refl eq_refl eq_refl) as HF;
        destruct (process_nhcb c P) as [[b0 p3] fl] end.
      simpl in HF. subst fl. reflexivity.
    + simpl.
      pose proof (Hflush p' R1 eq_refl eq_refl eq_refl eq_refl eq_refl eq_refl) as HF.
      destruct (process_nhcb c p') as [[b0 p3] fl]. simpl in HF. subst fl. reflexivity.
  - rewrite Hrun0. simpl. apply Hflush; auto.
Qed.

End OneHistEx.

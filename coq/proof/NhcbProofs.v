(* proof/NhcbProofs.v — lemmas about model/Nhcb.v (C36). *)
From Coq Require Import List ZArith Bool String Lia.
From Verif Require Import model.Nhcb.
Import ListNotations.
Open Scope Z_scope.

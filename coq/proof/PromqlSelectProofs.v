(* proof/PromqlSelectProofs.v — proofs about model/PromqlSelect.v (C28). *)
From Coq Require Import List ZArith Bool Lia.
From Verif Require Import lib.Int64 model.PromqlSelect.
Import ListNotations.
Open Scope Z_scope.

(* ---------------------------------------------------------------- lists *)

Fixpoint take_while {A} (f : A -> bool) (l : list A) : list A :=
  match l with
  | [] => []
  | x :: r => if f x then x :: take_while f r else []
  end.

Lemma tw_dw {A} (f : A -> bool) l : take_while f l ++ drop_while f l = l.
Proof. induction l as [|x r IH]; simpl; auto. destruct (f x); simpl; congruence. Qed.

Lemma tw_all {A} (f : A -> bool) l : Forall (fun x => f x = true) (take_while f l).
Proof. induction l as [|x r IH]; simpl; auto. destruct (f x) eqn:E; auto. Qed.

Lemma dw_head {A} (f : A -> bool) l c r : drop_while f l = c :: r -> f c = false.
Proof.
  induction l as [|x l IH]; simpl; try discriminate.
  destruct (f x) eqn:E; auto. intros H; inversion H; subst; auto.
Qed.

Lemma dw_dw {A} (f g : A -> bool) l :
  (forall x, f x = true -> g x = true) -> drop_while g (drop_while f l) = drop_while g l.
Proof.
  intros Himp. induction l as [|x r IH]; simpl; auto.
  destruct (f x) eqn:E; simpl.
  - rewrite (Himp _ E). auto.
  - reflexivity.
Qed.

Lemma tw_tw {A} (f g : A -> bool) l :
  (forall x, f x = true -> g x = true) ->
  take_while g l = take_while f l ++ take_while g (drop_while f l).
Proof.
  intros Himp. induction l as [|x r IH]; simpl; auto.
  destruct (f x) eqn:E; simpl.
  - rewrite (Himp _ E). simpl. congruence.
  - reflexivity.
Qed.

Lemma dw_nop {A} (f : A -> bool) l : Forall (fun x => f x = false) l -> drop_while f l = l.
Proof. destruct l; simpl; auto. intros H; inversion H; subst. now rewrite H2. Qed.

Lemma tw_nil {A} (f : A -> bool) l : Forall (fun x => f x = false) l -> take_while f l = [].
Proof. destruct l; simpl; auto. intros H; inversion H; subst. now rewrite H2. Qed.

Lemma last_opt_app {A} (l : list A) x : last_opt (l ++ [x]) = Some x.
Proof.
  induction l as [|y r IH]; simpl; auto.
  destruct (r ++ [x]) eqn:E; [destruct r; discriminate|]. exact IH.
Qed.

Lemma last_opt_cons {A} (x : A) l : l <> [] -> last_opt (x :: l) = last_opt l.
Proof. destruct l; simpl; congruence. Qed.

Lemma last_opt_app2 {A} (a b : list A) : b <> [] -> last_opt (a ++ b) = last_opt b.
Proof.
  intros Hb. induction a as [|x a IH]; simpl; auto.
  destruct (a ++ b) eqn:E.
  - destruct a; simpl in E; congruence.
  - exact IH.
Qed.

Lemma last_opt_none {A} (l : list A) : last_opt l = None -> l = [].
Proof.
  induction l as [|x r IH]; auto. simpl. destruct r; try discriminate. intros H. specialize (IH H). discriminate.
Qed.

Lemma last_opt_split {A} (l : list A) p : last_opt l = Some p -> exists l', l = l' ++ [p].
Proof.
  induction l as [|x r IH]; simpl; try discriminate.
  destruct r as [|y r'].
  - intros H; inversion H; subst. now exists [].
  - intros H. destruct (IH H) as [l' E]. exists (x :: l'). simpl. now rewrite E.
Qed.

Lemma filter_none {A} (f : A -> bool) l : Forall (fun x => f x = false) l -> filter f l = [].
Proof. induction 1; simpl; auto. now rewrite H. Qed.

Lemma filter_all {A} (f : A -> bool) l : Forall (fun x => f x = true) l -> filter f l = l.
Proof. induction 1; simpl; auto. rewrite H. congruence. Qed.

(* ---------------------------------------------------------------- sorted series *)

Fixpoint ssorted (l : list sample) : Prop :=
  match l with
  | [] => True
  | x :: r => Forall (fun y => s_t x < s_t y) r /\ ssorted r
  end.

Lemma sortedb_ssorted l : sortedb l = true -> ssorted l.
Proof.
  induction l as [|x r IH]; simpl; auto.
  destruct r as [|y r'].
  - intros _. split; constructor.
  - intros H. apply andb_prop in H as [H1 H2]. apply Z.ltb_lt in H1.
    specialize (IH H2). split; auto.
    constructor; auto. destruct IH as [Hy _].
    eapply Forall_impl; [|exact Hy]. simpl. intros; lia.
Qed.

Lemma ssorted_app a b :
  ssorted (a ++ b) -> ssorted a /\ ssorted b /\ Forall (fun x => Forall (fun y => s_t x < s_t y) b) a.
Proof.
  induction a as [|x a IH]; simpl.
  - intros H; repeat split; auto.
  - intros [H1 H2]. destruct (IH H2) as (Ha & Hb & Hab).
    apply Forall_app in H1 as [H1a H1b]. repeat split; auto.
Qed.

Definition tlt (a : Z) (s : sample) : bool := s_t s <? a.
Notation tw a l := (take_while (tlt a) l).
Notation dw a l := (drop_while (tlt a) l).

Lemma tw_lt a l : Forall (fun s => s_t s < a) (tw a l).
Proof. eapply Forall_impl; [|apply tw_all]. unfold tlt. simpl. intros s H. now apply Z.ltb_lt. Qed.

Lemma ssorted_dw_ge a l : ssorted l -> Forall (fun s => a <= s_t s) (dw a l).
Proof.
  intros Hs. destruct (dw a l) as [|c r] eqn:E; auto.
  pose proof (dw_head _ _ _ _ E) as Hc. unfold tlt in Hc. apply Z.ltb_ge in Hc.
  pose proof (tw_dw (tlt a) l) as Hl. rewrite E in Hl. rewrite <- Hl in Hs.
  apply ssorted_app in Hs as (_ & [Hcr _] & _).
  constructor; auto. eapply Forall_impl; [|exact Hcr]. simpl; intros; lia.
Qed.

Lemma ssorted_dw a l : ssorted l -> ssorted (dw a l).
Proof. intros Hs. rewrite <- (tw_dw (tlt a) l) in Hs. now apply ssorted_app in Hs as (_ & H & _). Qed.

Lemma tlt_mono a b : a <= b -> forall x, tlt a x = true -> tlt b x = true.
Proof. unfold tlt. intros H x Hx. apply Z.ltb_lt in Hx. apply Z.ltb_lt. lia. Qed.

(* the window (lo, hi] of a sorted series, through its split at hi *)
Definition inwin (lo hi : Z) (s : sample) : bool := (lo <? s_t s) && (s_t s <=? hi).

(* the latest sample at or before [ref]: the head of (dw ref) if it sits exactly at ref, else the
   last of (tw ref) *)
Definition latest_le (ref : Z) (l : list sample) : option sample :=
  match dw ref l with
  | c :: _ => if s_t c =? ref then Some c else last_opt (tw ref l)
  | [] => last_opt (tw ref l)
  end.

Lemma filter_inwin_tw lo hi l :
  ssorted l -> Forall (fun s => s_t s < hi) l ->
  last_opt (filter (inwin lo hi) l) =
  match last_opt l with Some p => if lo <? s_t p then Some p else None | None => None end.
Proof.
  intros Hs Hlt. destruct (last_opt l) as [p|] eqn:E.
  - apply last_opt_split in E as [l' ->].
    apply ssorted_app in Hs as (_ & _ & Hl'). apply Forall_app in Hlt as [_ Hp].
    inversion Hp; subst. rewrite filter_app. simpl.
    unfold inwin at 2. destruct (lo <? s_t p) eqn:E1; simpl.
    + replace (s_t p <=? hi) with true by (symmetry; apply Z.leb_le; lia).
      apply last_opt_app.
    + rewrite app_nil_r. rewrite filter_none; auto.
      eapply Forall_impl; [|exact Hl']. simpl. intros s Hsp. inversion Hsp; subst.
      unfold inwin. apply Z.ltb_ge in E1. replace (lo <? s_t s) with false; auto.
      symmetry; apply Z.ltb_ge; lia.
  - apply last_opt_none in E; subst. reflexivity.
Qed.

Lemma spec_instant_latest lookback l ref :
  ssorted l -> 0 < lookback ->
  last_opt (filter (inwin (ref - lookback) ref) l) =
  match latest_le ref l with
  | Some p => if ref - lookback <? s_t p then Some p else None
  | None => None
  end.
Proof.
  intros Hs Hlb. unfold latest_le.
  pose proof (tw_dw (tlt ref) l) as Hl.
  pose proof (tw_lt ref l) as Htw.
  pose proof (ssorted_dw_ge ref l Hs) as Hdw.
  rewrite <- Hl at 1. rewrite filter_app.
  pose proof Hs as Hs'. rewrite <- Hl in Hs'. apply ssorted_app in Hs' as (Hs1 & Hs2 & _).
  destruct (dw ref l) as [|c r] eqn:E.
  - simpl. rewrite app_nil_r. now apply filter_inwin_tw.
  - simpl. destruct Hs2 as [Hcr _]. inversion Hdw; subst.
    assert (Hr : filter (inwin (ref - lookback) ref) r = []).
    { apply filter_none. eapply Forall_impl; [|exact Hcr]. simpl. intros s Hcs.
      unfold inwin. replace (s_t s <=? ref) with false; [apply andb_false_r|].
      symmetry; apply Z.leb_gt; lia. }
    rewrite Hr. unfold inwin at 2.
    destruct (s_t c =? ref) eqn:Ec.
    + apply Z.eqb_eq in Ec.
      replace (ref - lookback <? s_t c) with true by (symmetry; apply Z.ltb_lt; lia).
      replace (s_t c <=? ref) with true by (symmetry; apply Z.leb_le; lia).
      simpl. apply last_opt_app.
    + apply Z.eqb_neq in Ec.
      replace (s_t c <=? ref) with false by (symmetry; apply Z.leb_gt; lia).
      rewrite andb_false_r. rewrite app_nil_r. now apply filter_inwin_tw.
Qed.

(* ---------------------------------------------------------------- the memoized iterator *)

Lemma memo_loop_cons2 t c n r last prev :
  memo_loop t (c :: n :: r) last prev =
  if t <=? s_t n then (n :: r, s_t n, Some c) else memo_loop t (n :: r) (s_t n) (Some c).
Proof. reflexivity. Qed.

Lemma memo_loop_spec t c rest last prev :
  exists l', memo_loop t (c :: rest) last prev = (dw t rest, l', last_opt (c :: tw t rest)) /\
             (forall n r', dw t rest = n :: r' -> l' = s_t n).
Proof.
  revert c last prev. induction rest as [|n r IH]; intros c last prev.
  - exists last. split; auto. discriminate.
  - rewrite memo_loop_cons2. cbn [drop_while take_while].
    assert (Hl : (t <=? s_t n) = negb (tlt t n)) by (unfold tlt; apply Z.leb_antisym).
    rewrite Hl. destruct (tlt t n) eqn:E; cbn [negb].
    + destruct (IH n (s_t n) (Some c)) as (l' & H1 & H2). exists l'. split.
      * rewrite H1. reflexivity.
      * exact H2.
    + exists (s_t n). split.
      * reflexivity.
      * intros n0 r' H; inversion H; subst; auto.
Qed.

Section Memo.
Variable series : list sample.
Hypothesis Hsorted : ssorted series.

(* state of the memoized iterator after a Seek to R; B bounds the (forgotten) samples before R
   when no previous element is buffered *)
Definition MI (R B : Z) (m : memo) : Prop :=
  m_rest m = dw R series /\
  (forall c r, m_rest m = c :: r -> m_last m = s_t c) /\
  match m_prev m with
  | Some p => last_opt (tw R series) = Some p
  | None => Forall (fun s => s_t s < B) (tw R series)
  end.

Definition seek2 (t delta : Z) (m1 : memo) : memo :=
  match m_rest m1 with
  | [] => m1
  | _ :: _ =>
      if t <=? m_last m1 then m1
      else let '(r, l, p) := memo_loop t (m_rest m1) (m_last m1) (m_prev m1) in mkMemo r l p delta
  end.

Lemma MI_weaken R B B' m : MI R B m -> B <= B' -> MI R B' m.
Proof.
  intros (H1 & H2 & H3) Hle. repeat split; auto.
  destruct (m_prev m); auto. eapply Forall_impl; [|exact H3]. simpl; intros; lia.
Qed.

Lemma split_mono R ref :
  R <= ref ->
  dw ref series = dw ref (dw R series) /\ tw ref series = tw R series ++ tw ref (dw R series).
Proof.
  intros Hle. split.
  - symmetry. apply dw_dw. now apply tlt_mono.
  - apply tw_tw. now apply tlt_mono.
Qed.

Lemma seek2_MI R B ref delta m1 :
  MI R B m1 -> R <= ref -> MI ref B (seek2 ref delta m1).
Proof.
  intros (H1 & H2 & H3) Hle. destruct (split_mono R ref Hle) as [Hd Ht].
  unfold seek2. destruct (m_rest m1) as [|c r] eqn:Er.
  - (* exhausted *)
    rewrite <- H1 in Hd, Ht. simpl in Hd, Ht. rewrite app_nil_r in Ht.
    unfold MI. rewrite Er, Hd, Ht. repeat split; auto; discriminate.
  - specialize (H2 c r eq_refl).
    destruct (ref <=? m_last m1) eqn:E.
    + apply Z.leb_le in E.
      assert (Hc : tlt ref c = false) by (unfold tlt; apply Z.ltb_ge; lia).
      rewrite <- H1 in Hd, Ht. cbn [drop_while take_while] in Hd, Ht. rewrite Hc in Hd, Ht.
      rewrite app_nil_r in Ht.
      unfold MI. rewrite Er, Hd, Ht. repeat split; auto.
      intros c0 r0 H0; inversion H0; subst; auto.
    + apply Z.leb_gt in E.
      assert (Hc : tlt ref c = true) by (unfold tlt; apply Z.ltb_lt; lia).
      rewrite <- H1 in Hd, Ht. cbn [drop_while take_while] in Hd, Ht. rewrite Hc in Hd, Ht.
      destruct (memo_loop_spec ref c r (m_last m1) (m_prev m1)) as (l' & HL & HL2).
      rewrite HL. unfold MI. cbn [m_rest m_last m_prev]. rewrite Hd, Ht. repeat split; auto.
      destruct (last_opt (c :: tw ref r)) as [p|] eqn:Ep.
      * rewrite last_opt_app2 by discriminate. exact Ep.
      * apply last_opt_none in Ep. discriminate.
Qed.

Lemma memo_seek_unfold t m :
  memo_seek t m =
  seek2 t (m_delta m)
    (if negb (is_nil (m_rest m)) && (m_last m <? t - m_delta m) then
       let r := it_seek (t - m_delta m) (m_rest m) in
       mkMemo r (match r with [] => m_last m | c :: _ => s_t c end) None (m_delta m)
     else m).
Proof. reflexivity. Qed.

Lemma reset_MI t0 l lst delta :
  l = dw t0 series ->
  MI t0 t0 (mkMemo l (match l with [] => lst | c :: _ => s_t c end) None delta).
Proof.
  intros ->. unfold MI; cbn [m_rest m_last m_prev]. repeat split.
  - intros c r E. rewrite E. reflexivity.
  - apply tw_lt.
Qed.

Lemma seek_MI R B ref m :
  MI R B m -> R <= ref -> B <= ref - m_delta m -> 0 <= m_delta m ->
  MI ref (ref - m_delta m) (memo_seek ref m) /\ m_delta (memo_seek ref m) = m_delta m.
Proof.
  intros HM Hle HB Hd. rewrite memo_seek_unfold.
  assert (Hdel : forall m1, m_delta m1 = m_delta m -> m_delta (seek2 ref (m_delta m) m1) = m_delta m).
  { intros m1 E. unfold seek2. destruct (m_rest m1); auto. destruct (ref <=? m_last m1); auto.
    destruct (memo_loop ref (s :: l) (m_last m1) (m_prev m1)) as [[? ?] ?]. reflexivity. }
  destruct (negb (is_nil (m_rest m)) && (m_last m <? ref - m_delta m)) eqn:E.
  - apply andb_prop in E as [E1 E2]. apply Z.ltb_lt in E2.
    destruct HM as (H1 & H2 & H3).
    destruct (m_rest m) as [|c r] eqn:Er; [discriminate|].
    specialize (H2 c r eq_refl).
    assert (HcR : R <= s_t c).
    { symmetry in H1. apply dw_head in H1. unfold tlt in H1. apply Z.ltb_ge in H1. lia. }
    split; [|apply Hdel; reflexivity].
    apply (seek2_MI (ref - m_delta m)); [|lia].
    apply reset_MI. unfold it_seek. rewrite H1. apply dw_dw. apply tlt_mono. lia.
  - split; [|now apply Hdel]. eapply MI_weaken; [eapply seek2_MI; eauto|lia].
Qed.

Lemma seek2_delta t delta m1 : m_delta m1 = delta -> m_delta (seek2 t delta m1) = delta.
Proof.
  intros E. unfold seek2. destruct (m_rest m1); auto. destruct (t <=? m_last m1); auto.
  destruct (memo_loop t (s :: l) (m_last m1) (m_prev m1)) as [[? ?] ?]. reflexivity.
Qed.

Lemma is_nil_true {A} (l : list A) : is_nil l = true -> l = [].
Proof. destruct l; simpl; congruence. Qed.

Lemma fresh_MI ref delta :
  0 <= delta -> minInt64 < ref - delta ->
  MI ref (ref - delta) (memo_seek ref (memo_new delta series)) /\
  m_delta (memo_seek ref (memo_new delta series)) = delta.
Proof.
  intros Hd Hmin. rewrite memo_seek_unfold. unfold memo_new. cbn [m_rest m_last m_delta m_prev].
  split; [|apply seek2_delta; destruct (negb (is_nil series) && (minInt64 <? ref - delta)); reflexivity].
  replace (minInt64 <? ref - delta) with true by (symmetry; apply Z.ltb_lt; lia).
  rewrite andb_true_r.
  destruct (negb (is_nil series)) eqn:E.
  - apply (seek2_MI (ref - delta)); [|lia]. apply reset_MI. reflexivity.
  - apply negb_false_iff in E. apply is_nil_true in E.
    unfold seek2. cbn [m_rest]. unfold MI. cbn [m_rest m_last m_prev]. rewrite E. cbn.
    repeat split; auto; discriminate.
Qed.

(* what vectorSelectorSingle does after the Seek *)
Definition select_after (lookback ref : Z) (m' : memo) : option sample :=
  let peek :=
    match memo_peek_prev m' with
    | Some p => if s_t p <=? ref - lookback then None else Some p
    | None => None
    end in
  let pick :=
    match m_rest m' with
    | c :: _ => if ref <? s_t c then peek else Some c
    | [] => peek
    end in
  match pick with
  | Some s => if s_stale s then None else Some s
  | None => None
  end.

Lemma vss_unfold lookback m offset ts :
  vector_selector_single lookback m offset ts =
  (memo_seek (ts - offset) m, select_after lookback (ts - offset) (memo_seek (ts - offset) m)).
Proof. reflexivity. Qed.

Hypothesis Hmin : Forall (fun s => minInt64 < s_t s) series.

Lemma in_tw_series a p : last_opt (tw a series) = Some p -> In p series.
Proof.
  intros H. apply last_opt_split in H as [l' E].
  rewrite <- (tw_dw (tlt a) series). rewrite E. apply in_or_app. left. apply in_or_app. right. now left.
Qed.

Lemma select_after_spec lookback ref B m' :
  0 < lookback -> MI ref B m' -> B <= ref - lookback + 1 ->
  select_after lookback ref m' = spec_instant lookback series ref.
Proof.
  intros Hlb (H1 & H2 & H3) HB.
  unfold spec_instant.
  change (fun s : sample => (ref - lookback <? s_t s) && (s_t s <=? ref)) with (inwin (ref - lookback) ref).
  rewrite spec_instant_latest by assumption.
  unfold select_after, latest_le. rewrite H1.
  assert (Hpeek :
    match memo_peek_prev m' with
    | Some p => if s_t p <=? ref - lookback then None else Some p
    | None => None
    end =
    match last_opt (tw ref series) with
    | Some p => if ref - lookback <? s_t p then Some p else None
    | None => None
    end).
  { unfold memo_peek_prev. destruct (m_prev m') as [p|].
    - rewrite H3. pose proof (in_tw_series _ _ H3) as Hin.
      rewrite Forall_forall in Hmin. specialize (Hmin _ Hin).
      replace (s_t p =? minInt64) with false by (symmetry; apply Z.eqb_neq; lia).
      rewrite Z.leb_antisym. destruct (ref - lookback <? s_t p); reflexivity.
    - destruct (last_opt (tw ref series)) as [p|] eqn:E; auto.
      apply last_opt_split in E as [l' E]. rewrite E in H3. apply Forall_app in H3 as [_ H3].
      inversion H3; subst.
      replace (ref - lookback <? s_t p) with false; auto. symmetry; apply Z.ltb_ge; lia. }
  rewrite Hpeek.
  pose proof (ssorted_dw_ge ref series Hsorted) as Hge.
  destruct (dw ref series) as [|c r] eqn:Ed.
  - destruct (last_opt (tw ref series)) as [p|]; auto;
    destruct (ref - lookback <? s_t p); auto.
  - inversion Hge; subst.
    destruct (s_t c =? ref) eqn:Ec.
    + apply Z.eqb_eq in Ec. replace (ref <? s_t c) with false by (symmetry; apply Z.ltb_ge; lia).
      replace (ref - lookback <? s_t c) with true by (symmetry; apply Z.ltb_lt; lia). reflexivity.
    + apply Z.eqb_neq in Ec. replace (ref <? s_t c) with true by (symmetry; apply Z.ltb_lt; lia).
      destruct (last_opt (tw ref series)) as [p|]; auto;
      destruct (ref - lookback <? s_t p); auto.
Qed.

(* a fresh iterator (first step of an evaluator), delta = lookback or lookback - 1 *)
Lemma vss_fresh lookback delta offset ts :
  0 < lookback -> lookback - 1 <= delta -> minInt64 < ts - offset - delta ->
  snd (vector_selector_single lookback (memo_new delta series) offset ts) =
  spec_instant lookback series (ts - offset).
Proof.
  intros Hlb Hd Hm. rewrite vss_unfold. cbn [snd].
  destruct (fresh_MI (ts - offset) delta) as [HM _]; try lia.
  eapply select_after_spec; eauto. lia.
Qed.

(* one memoized iterator threaded through ascending evaluation times *)
Fixpoint ascending (l : list Z) : Prop :=
  match l with
  | [] => True
  | x :: r => match r with [] => True | y :: _ => x <= y end /\ ascending r
  end.

Definition out_point (isTs : bool) (t : Z) (s : sample) : point :=
  if isTs then mkP t KF (s_t s) else mkP t (s_k s) (s_id s).

Definition spec_steps (lookback : Z) (isTs : bool) (offset : Z) (ts : list Z) : list point :=
  flat_map (fun t => match spec_instant lookback series (t - offset) with
                     | Some s => [out_point isTs t s] | None => [] end) ts.

Lemma eval_steps_MI lookback isTs offset ts : forall m R B,
  0 < lookback -> lookback - 1 <= m_delta m -> 0 <= m_delta m ->
  MI R B m -> ascending ts ->
  match ts with t :: _ => R <= t - offset /\ B <= t - offset - m_delta m | [] => True end ->
  eval_steps lookback isTs m offset ts = spec_steps lookback isTs offset ts.
Proof.
  induction ts as [|t r IH]; intros m R B Hlb Hd Hd0 HM Hasc Hfirst; [reflexivity|].
  cbn [eval_steps spec_steps flat_map]. rewrite vss_unfold.
  destruct Hfirst as [HR HB]. destruct (seek_MI R B (t - offset) m HM HR HB Hd0) as [HM' Hdel].
  rewrite (select_after_spec lookback (t - offset) (t - offset - m_delta m) _ Hlb HM') by lia.
  destruct Hasc as [Hh Hasc].
  assert (IH' : eval_steps lookback isTs (memo_seek (t - offset) m) offset r = spec_steps lookback isTs offset r).
  { eapply IH; eauto; try (rewrite Hdel; lia).
    destruct r as [|y r']; auto. rewrite Hdel. lia. }
  destruct (spec_instant lookback series (t - offset)) as [s|].
  - unfold out_point. destruct isTs; cbn [app]; now rewrite IH'.
  - exact IH'.
Qed.

Lemma eval_steps_fresh lookback isTs delta offset ts :
  0 < lookback -> lookback - 1 <= delta -> ascending ts ->
  match ts with t :: _ => minInt64 < t - offset - delta | [] => True end ->
  eval_steps lookback isTs (memo_new delta series) offset ts = spec_steps lookback isTs offset ts.
Proof.
  intros Hlb Hd Hasc Hfirst. destruct ts as [|t r]; [reflexivity|].
  cbn [eval_steps spec_steps flat_map]. rewrite vss_unfold.
  destruct (fresh_MI (t - offset) delta) as [HM Hdel]; try lia.
  rewrite (select_after_spec lookback (t - offset) (t - offset - delta) _ Hlb HM) by lia.
  destruct Hasc as [Hh Hasc].
  assert (IH' : eval_steps lookback isTs (memo_seek (t - offset) (memo_new delta series)) offset r
                = spec_steps lookback isTs offset r).
  { eapply eval_steps_MI; eauto; try (rewrite Hdel; lia).
    destruct r as [|y r']; auto. rewrite Hdel. lia. }
  destruct (spec_instant lookback series (t - offset)) as [s|].
  - unfold out_point. destruct isTs; cbn [app]; now rewrite IH'.
  - exact IH'.
Qed.

End Memo.

(* ---------------------------------------------------------------- the buffered iterator / matrixIterSlice *)

Lemma buf_loop_cons2 t delta c n r last buf :
  buf_loop t delta (c :: n :: r) last buf =
  if t <=? s_t n then (n :: r, s_t n, ring_add delta buf c)
  else buf_loop t delta (n :: r) (s_t n) (ring_add delta buf c).
Proof. reflexivity. Qed.

Lemma buf_loop_spec t delta c rest last buf :
  exists l', buf_loop t delta (c :: rest) last buf =
             (dw t rest, l', fold_left (ring_add delta) (c :: tw t rest) buf).
Proof.
  revert c last buf. induction rest as [|n r IH]; intros c last buf.
  - exists last. reflexivity.
  - rewrite buf_loop_cons2. cbn [drop_while take_while].
    assert (Hl : (t <=? s_t n) = negb (tlt t n)) by (unfold tlt; apply Z.leb_antisym).
    rewrite Hl. destruct (tlt t n) eqn:E; cbn [negb].
    + destruct (IH n (s_t n) (ring_add delta buf c)) as (l' & H1). exists l'. rewrite H1. reflexivity.
    + exists (s_t n). reflexivity.
Qed.

Lemma ring_keep lo hi delta l : forall buf,
  hi - lo <= delta -> 0 <= delta ->
  Forall (fun x => lo <= s_t x < hi) buf -> Forall (fun x => lo <= s_t x < hi) l ->
  fold_left (ring_add delta) l buf = buf ++ l.
Proof.
  induction l as [|s l IH]; intros buf Hd Hd0 Hb Hl; simpl.
  - now rewrite app_nil_r.
  - inversion Hl; subst.
    assert (E : ring_add delta buf s = buf ++ [s]).
    { unfold ring_add. apply dw_nop. apply Forall_app. split.
      - eapply Forall_impl; [|exact Hb]. simpl. intros x Hx. apply Z.ltb_ge. lia.
      - constructor; auto. apply Z.ltb_ge. lia. }
    rewrite E. rewrite IH; auto.
    + now rewrite <- app_assoc.
    + apply Forall_app. split; auto.
Qed.

Definition winp (mint maxt : Z) (s : sample) : bool :=
  (mint <? s_t s) && (s_t s <=? maxt) && negb (s_stale s).

Lemma filter_tail_ge mint maxt l :
  mint < maxt -> ssorted l -> Forall (fun s => maxt <= s_t s) l ->
  filter (winp mint maxt) l =
  match l with
  | c :: _ => if (s_t c =? maxt) && negb (s_stale c) then [c] else []
  | [] => []
  end.
Proof.
  intros Hlt Hs Hge. destruct l as [|c r]; auto. simpl.
  destruct Hs as [Hcr _]. inversion Hge; subst.
  assert (Hr : filter (winp mint maxt) r = []).
  { apply filter_none. eapply Forall_impl; [|exact Hcr]. simpl. intros s Hcs. unfold winp.
    replace (s_t s <=? maxt) with false by (symmetry; apply Z.leb_gt; lia).
    now rewrite andb_false_r. }
  rewrite Hr. unfold winp.
  destruct (s_t c =? maxt) eqn:Ec.
  - apply Z.eqb_eq in Ec. replace (mint <? s_t c) with true by (symmetry; apply Z.ltb_lt; lia).
    replace (s_t c <=? maxt) with true by (symmetry; apply Z.leb_le; lia). reflexivity.
  - apply Z.eqb_neq in Ec. replace (s_t c <=? maxt) with false by (symmetry; apply Z.leb_gt; lia).
    now rewrite andb_false_r.
Qed.

Lemma mis_fresh r series maxt :
  ssorted series -> 0 <= r -> minInt64 < maxt - r ->
  matrix_iter_slice (buf_new r series) (maxt - r) maxt = spec_window r series maxt.
Proof.
  intros Hs Hr Hmin. unfold spec_window.
  change (fun s : sample => (maxt - r <? s_t s) && (s_t s <=? maxt) && negb (s_stale s))
    with (winp (maxt - r) maxt).
  unfold matrix_iter_slice. destruct (maxt - r =? maxt) eqn:E0.
  { apply Z.eqb_eq in E0. symmetry. apply filter_none. apply Forall_forall. intros s _.
    unfold winp. destruct (maxt - r <? s_t s) eqn:E1; auto. apply Z.ltb_lt in E1.
    replace (s_t s <=? maxt) with false; auto. symmetry; apply Z.leb_gt; lia. }
  apply Z.eqb_neq in E0. assert (Hr' : 0 < r) by lia.
  set (mint := maxt - r) in *.
  pose proof (tw_dw (tlt mint) series) as Hsplit.
  pose proof (tw_lt mint series) as Htw.
  pose proof (ssorted_dw_ge mint series Hs) as Hge.
  pose proof (ssorted_dw mint series Hs) as Hsd.
  assert (Hpre : filter (winp mint maxt) (tw mint series) = []).
  { apply filter_none. eapply Forall_impl; [|exact Htw]. simpl. intros s Hlt. unfold winp.
    replace (mint <? s_t s) with false; auto. symmetry; apply Z.ltb_ge; lia. }
  assert (Hrhs : filter (winp mint maxt) series = filter (winp mint maxt) (dw mint series)).
  { rewrite <- Hsplit at 1. now rewrite filter_app, Hpre. }
  rewrite Hrhs. clear Hrhs.
  unfold buf_seek, buf_new. cbn [b_rest b_last b_buf b_delta]. fold mint.
  replace (minInt64 <? mint) with true by (symmetry; apply Z.ltb_lt; lia). rewrite andb_true_r.
  destruct (negb (is_nil series)) eqn:En.
  2:{ apply negb_false_iff in En. apply is_nil_true in En. subst series. reflexivity. }
  cbn [b_rest b_last b_buf b_delta]. unfold it_seek.
  change (fun s : sample => s_t s <? mint) with (tlt mint).
  destruct (dw mint series) as [|c rest] eqn:Ed.
  { reflexivity. }
  inversion Hge; subst. destruct (maxt <=? s_t c) eqn:Ec.
  - apply Z.leb_le in Ec. cbn [b_buf b_rest].
    rewrite filter_tail_ge; auto; try lia.
    constructor; auto. destruct Hsd as [Hcr _]. eapply Forall_impl; [|exact Hcr]. simpl; intros; lia.
  - apply Z.leb_gt in Ec.
    destruct (buf_loop_spec maxt r c rest (s_t c) []) as (l' & HL). rewrite HL.
    cbn [b_buf b_rest].
    pose proof (tw_dw (tlt maxt) rest) as Hsplit2.
    pose proof (tw_lt maxt rest) as Htw2.
    destruct Hsd as [Hcr Hsr].
    pose proof (ssorted_dw_ge maxt rest Hsr) as Hge2.
    pose proof (ssorted_dw maxt rest Hsr) as Hsd2.
    assert (Hmid : Forall (fun x => mint <= s_t x < maxt) (c :: tw maxt rest)).
    { constructor; [lia|]. apply Forall_forall. intros x Hx.
      rewrite Forall_forall in Htw2. specialize (Htw2 _ Hx).
      assert (In x rest) by (rewrite <- Hsplit2; apply in_or_app; now left).
      rewrite Forall_forall in Hcr. specialize (Hcr _ H). lia. }
    rewrite (ring_keep mint maxt r _ []); auto; try (unfold mint; lia).
    cbn [app].
    assert (Hrhs : c :: rest = (c :: tw maxt rest) ++ dw maxt rest) by (cbn [app]; now rewrite Hsplit2).
    rewrite Hrhs, filter_app. f_equal.
    + apply filter_ext_in. intros x Hx. rewrite Forall_forall in Hmid. specialize (Hmid _ Hx).
      unfold winp. replace (s_t x <=? maxt) with true by (symmetry; apply Z.leb_le; lia).
      rewrite andb_true_r. apply andb_comm.
    + rewrite filter_tail_ge; auto. unfold mint; lia.
Qed.

(* ---------------------------------------------------------------- subquery step alignment *)

Lemma sub_start_floor T suboff range interval :
  0 < interval ->
  sub_start T suboff range interval = interval * ((T - suboff - range) / interval + 1).
Proof.
  intros Hi. unfold sub_start, godiv. set (x := T - suboff - range).
  pose proof (Z.quot_rem' x interval) as Hq.
  pose proof (Z.div_mod x interval ltac:(lia)) as Hd.
  pose proof (Z.mod_pos_bound x interval Hi) as Hm.
  assert (Hr : - interval < Z.rem x interval < interval).
  { destruct (Z_le_gt_dec 0 x).
    - pose proof (Z.rem_bound_pos x interval l Hi). lia.
    - pose proof (Z.rem_bound_pos_neg x interval Hi ltac:(lia)). lia. }
  assert (Hsgn : 0 <= x -> 0 <= Z.rem x interval).
  { intros. pose proof (Z.rem_bound_pos x interval H Hi). lia. }
  assert (Hsgn2 : x < 0 -> Z.rem x interval <= 0).
  { intros. pose proof (Z.rem_bound_pos_neg x interval Hi ltac:(lia)). lia. }
  set (q := Z.quot x interval) in *. set (rr := Z.rem x interval) in *.
  set (d := x / interval) in *. set (m := x mod interval) in *.
  destruct (interval * q <=? x) eqn:E.
  - apply Z.leb_le in E. assert (q = d) by nia. subst q. lia.
  - apply Z.leb_gt in E. assert (q = d + 1) by nia. lia.
Qed.

Lemma steps_eq_spec T suboff range interval :
  0 < interval ->
  steps (sub_start T suboff range interval) (T - suboff) interval =
  spec_sub_times interval (T - suboff - range) (T - suboff).
Proof.
  intros Hi. rewrite sub_start_floor by assumption. unfold steps, spec_sub_times.
  set (f := interval * ((T - suboff - range) / interval + 1)).
  destruct (T - suboff <? f) eqn:E; auto.
  apply Z.ltb_ge in E. unfold godiv. rewrite Z.quot_div_nonneg by lia. reflexivity.
Qed.

Lemma spec_sub_times_in step lo hi u :
  0 < step ->
  In u (spec_sub_times step lo hi) <-> (lo < u <= hi /\ u mod step = 0).
Proof.
  intros Hs. unfold spec_sub_times.
  pose proof (Z.div_mod lo step ltac:(lia)) as Hd.
  pose proof (Z.mod_pos_bound lo step Hs) as Hm.
  set (d := lo / step) in *. set (f := step * (d + 1)).
  assert (Hf : lo < f <= lo + step) by (unfold f; nia).
  destruct (hi <? f) eqn:E.
  - apply Z.ltb_lt in E. split; [intros []|]. intros [[H1 H2] H3].
    apply Z.mod_divide in H3; [|lia]. destruct H3 as [j Hj]. subst u. unfold f in *.
    assert (j < d + 1) by nia. assert (j * step <= step * d) by nia. lia.
  - apply Z.ltb_ge in E. rewrite in_map_iff. split.
    + intros (k & Hk & Hin). apply in_seq in Hin. subst u.
      pose proof (Z.div_mod (hi - f) step ltac:(lia)) as Hd2.
      pose proof (Z.mod_pos_bound (hi - f) step Hs) as Hm2.
      assert (Hn : 0 <= (hi - f) / step) by (apply Z.div_pos; lia).
      assert (Hk' : Z.of_nat k <= (hi - f) / step) by lia.
      split; [nia|].
      unfold f. replace (step * (d + 1) + Z.of_nat k * step) with ((d + 1 + Z.of_nat k) * step) by ring.
      apply Z_mod_mult.
    + intros [[H1 H2] H3]. apply Z.mod_divide in H3; [|lia]. destruct H3 as [j Hj]. subst u.
      pose proof (Z.div_mod (hi - f) step ltac:(lia)) as Hd2.
      pose proof (Z.mod_pos_bound (hi - f) step Hs) as Hm2.
      assert (Hj1 : d + 1 <= j) by (unfold f in *; nia).
      exists (Z.to_nat (j - (d + 1))). split.
      * rewrite Z2Nat.id by lia. unfold f. ring.
      * apply in_seq. split; [lia|]. simpl.
        assert (j - (d + 1) <= (hi - f) / step).
        { apply Z.div_le_lower_bound; [lia|]. unfold f. nia. }
        assert (0 <= (hi - f) / step) by (apply Z.div_pos; lia).
        lia.
Qed.

(* strictly ascending lists of times *)
Fixpoint zsorted (l : list Z) : Prop :=
  match l with
  | [] => True
  | x :: r => Forall (fun y => x < y) r /\ zsorted r
  end.

Lemma zsorted_affine f step n : forall k0,
  0 < step -> zsorted (map (fun k => f + Z.of_nat k * step) (seq k0 n)).
Proof.
  induction n as [|n IH]; intros k0 Hs; simpl; auto. split; auto.
  apply Forall_forall. intros y Hy. apply in_map_iff in Hy as (k & <- & Hk). apply in_seq in Hk. nia.
Qed.

Lemma spec_sub_times_sorted step lo hi : 0 < step -> zsorted (spec_sub_times step lo hi).
Proof.
  intros Hs. unfold spec_sub_times. destruct (hi <? _); simpl; auto. now apply zsorted_affine.
Qed.

Lemma zsorted_ascending l : zsorted l -> ascending l.
Proof.
  induction l as [|x r IH]; simpl; auto. intros [H1 H2]. split; auto.
  destruct r; auto. inversion H1; subst. lia.
Qed.

(* ---------------------------------------------------------------- range functions on the two slices *)

Fixpoint psorted (l : list point) : Prop :=
  match l with
  | [] => True
  | x :: r => Forall (fun y => p_t x < p_t y) r /\ psorted r
  end.

Lemma psorted_snoc a p : psorted (a ++ [p]) -> Forall (fun x => p_t x < p_t p) a.
Proof.
  induction a as [|x a IH]; simpl; auto. intros [H1 H2]. constructor; auto.
  apply Forall_app in H1 as [_ H1]. now inversion H1.
Qed.

Lemma last_opt_in {A} (l : list A) p : last_opt l = Some p -> In p l.
Proof. intros H. apply last_opt_split in H as [l' ->]. apply in_or_app. right. now left. Qed.

Lemma len_split w : (length (floats_of w) + length (hists_of w))%nat = length w.
Proof.
  induction w as [|p w IH]; simpl; auto. destruct (p_k p); simpl; lia.
Qed.

Lemma rfn_agree f T w : psorted w -> call_rfn f T w = spec_rfn f T w.
Proof.
  intros Hs. unfold call_rfn, spec_rfn. destruct w as [|p0 w0]; auto.
  cbv beta iota. assert (Hne : p0 :: w0 <> []) by discriminate.
  revert Hs Hne. generalize (p0 :: w0). intros w Hs Hne. destruct f.
  - cbn [apply_rfn]. now rewrite len_split.
  - destruct (last_opt w) as [p|] eqn:El; [|apply last_opt_none in El; contradiction].
    apply last_opt_split in El as [w' Ew]. rewrite Ew in *.
    pose proof (psorted_snoc _ _ Hs) as Hlt. rewrite Forall_forall in Hlt.
    unfold apply_rfn, floats_of, hists_of. rewrite !filter_app. simpl filter.
    destruct (p_k p) eqn:Ek; simpl kind_eqb; cbv iota.
    + rewrite app_nil_r, last_opt_app.
      destruct (last_opt (filter (fun p1 : point => kind_eqb (p_k p1) KH) w')) as [h|] eqn:Eh; auto.
      apply last_opt_in in Eh. apply filter_In in Eh as [Hin _]. specialize (Hlt _ Hin).
      replace (p_t h <? p_t p) with true by (symmetry; apply Z.ltb_lt; lia). reflexivity.
    + rewrite app_nil_r, last_opt_app.
      destruct (last_opt (filter (fun p1 : point => kind_eqb (p_k p1) KF) w')) as [fl|] eqn:Ef; auto.
      apply last_opt_in in Ef. apply filter_In in Ef as [Hin _]. specialize (Hlt _ Hin).
      replace (p_t p <? p_t fl) with false by (symmetry; apply Z.ltb_ge; lia). reflexivity.
  - reflexivity.
Qed.

(* ---------------------------------------------------------------- inner expressions over the steps *)

Definition spec_inner_pts (c : cfg) (series : list sample) (i : inner) (ts : list Z) : list point :=
  flat_map (fun u => match spec_inner c series i u with Some p => [p] | None => [] end) ts.

Lemma flat_map_single {A B} (g : A -> B) l : flat_map (fun u => [g u]) l = map g l.
Proof. induction l; simpl; congruence. Qed.

Lemma flat_map_nil {A B} (l : list A) : flat_map (fun _ => @nil B) l = [].
Proof. induction l; simpl; auto. Qed.

Lemma eval_inner_spec c series i off ts :
  ssorted series -> Forall (fun s => minInt64 < s_t s) series -> 0 < c_lookback c ->
  zsorted ts ->
  match i with
  | IVSel o None | ITs o None => off = o
  | IVSel o (Some a) => match ts with start :: _ => start - off = a - o | [] => True end
  | ITs _ (Some _) => True
  end ->
  match ts with t :: _ => minInt64 + c_lookback c < eff t (inner_off i) (inner_at i) | [] => True end ->
  eval_inner c series i off ts = spec_inner_pts c series i ts.
Proof.
  intros Hs Hmin Hlb Hts Hoff Hg. unfold spec_inner_pts.
  destruct ts as [|start r]; [reflexivity|].
  assert (Hasc : ascending (start :: r)) by now apply zsorted_ascending.
  assert (H1 : ascending [start]) by (simpl; auto).
  unfold eval_inner.
  destruct i as [o [a|]|o [a|]]; cbn [inner_at inner_off] in *; unfold eff in Hg.
  - (* m offset o @ a: evaluated once *)
    rewrite (eval_steps_fresh series Hs Hmin (c_lookback c) false (c_lookback c) off [start]); auto; try lia.
    unfold spec_steps. cbn [flat_map]. rewrite app_nil_r. rewrite Hoff.
    unfold spec_inner, eff.
    destruct (spec_instant (c_lookback c) series (a - o)) as [s|].
    + cbn [out_point]. rewrite flat_map_single. reflexivity.
    + now rewrite flat_map_nil.
  - (* m offset o *)
    subst off.
    rewrite (eval_steps_fresh series Hs Hmin); auto; try lia.
    unfold spec_steps. apply flat_map_ext. intros u. unfold spec_inner, eff.
    destruct (spec_instant (c_lookback c) series (u - o)); reflexivity.
  - (* timestamp(m offset o @ a) *)
    rewrite (eval_steps_fresh series Hs Hmin (c_lookback c) true (c_lookback c - 1) (o + (start - a)) [start]); auto; try lia.
    unfold spec_steps. cbn [flat_map]. rewrite app_nil_r.
    replace (start - (o + (start - a))) with (a - o) by lia.
    unfold spec_inner, eff.
    destruct (spec_instant (c_lookback c) series (a - o)) as [s|].
    + cbn [out_point]. rewrite flat_map_single. reflexivity.
    + now rewrite flat_map_nil.
  - subst off.
    rewrite (eval_steps_fresh series Hs Hmin); auto; try lia.
    unfold spec_steps. apply flat_map_ext. intros u. unfold spec_inner, eff.
    destruct (spec_instant (c_lookback c) series (u - o)); reflexivity.
Qed.

(* ---------------------------------------------------------------- the whole evaluator *)

(* no evaluation time is within a window of math.MinInt64 (the iterators' "unset" sentinel) *)
Definition min_guard (c : cfg) (q : query) : Prop :=
  match q with
  | QInner i => minInt64 + c_lookback c < eff (c_ts c) (inner_off i) (inner_at i)
  | QRange r off a | QRangeFn _ r off a => minInt64 + r < eff (c_ts c) off a
  | QSub i r _ off a | QSubFn _ i r _ off a =>
      minInt64 + r < eff (c_ts c) off a /\
      minInt64 + c_lookback c + r < eff (eff (c_ts c) off a) (inner_off i) (inner_at i)
  | _ => True
  end.

Lemma eff_at_offset T off a : T - at_offset T off a 0 = eff T off a.
Proof. unfold at_offset, eff. destruct a; lia. Qed.

Lemma steps_head s e i t r : steps s e i = t :: r -> t = s.
Proof.
  unfold steps. destruct (e <? s); [discriminate|].
  destruct (Z.to_nat (godiv (e - s) i + 1)); simpl; [discriminate|].
  intros H; inversion H. lia.
Qed.

Lemma sub_interval_pos c step : 0 < c_defstep c -> 0 <= step -> 0 < sub_interval c step.
Proof. intros. unfold sub_interval. destruct (step =? 0) eqn:E; auto. apply Z.eqb_neq in E. lia. Qed.

Lemma run_subquery_spec c series i r step off a :
  ssorted series -> Forall (fun s => minInt64 < s_t s) series ->
  0 < c_lookback c -> 0 < c_defstep c -> 0 < r -> 0 <= step ->
  minInt64 + c_lookback c + r < eff (eff (c_ts c) off a) (inner_off i) (inner_at i) ->
  run_subquery c series i r step off a = spec_sub c series i r step off a.
Proof.
  intros Hs Hmin Hlb Hds Hr Hst Hg.
  pose proof (sub_interval_pos c step Hds Hst) as Hi.
  unfold run_subquery, spec_sub.
  set (T := c_ts c) in *. set (suboff := at_offset T off a 0) in *.
  set (interval := sub_interval c step) in *.
  set (start := sub_start T suboff r interval) in *.
  assert (Hte : T - suboff = eff T off a) by apply eff_at_offset.
  pose proof (steps_eq_spec T suboff r interval Hi) as Hsteps. fold start in Hsteps.
  pose proof (steps_head start (T - suboff) interval) as Hhead.
  rewrite Hsteps in *. rewrite Hte in *.
  set (ts := spec_sub_times interval (eff T off a - r) (eff T off a)) in *.
  assert (Hin : forall t, In t ts -> eff T off a - r < t).
  { intros t Ht. apply spec_sub_times_in in Ht; auto. lia. }
  apply eval_inner_spec; auto.
  - now apply spec_sub_times_sorted.
  - destruct i as [o [a1|]|o [a1|]]; cbn [inner_off inner_at]; auto.
    destruct ts as [|t0 r0] eqn:Ets; auto. specialize (Hhead _ _ eq_refl). subst t0.
    unfold at_offset. lia.
  - destruct ts as [|t0 r0] eqn:Ets; auto. specialize (Hin t0 (or_introl eq_refl)).
    unfold eff in *. destruct (inner_at i); lia.
Qed.

Lemma ssorted_filter f l : ssorted l -> ssorted (filter f l).
Proof.
  induction l as [|x r IH]; simpl; auto. intros [H1 H2]. destruct (f x); auto.
  split; auto. apply Forall_forall. intros y Hy. apply filter_In in Hy as [Hy _].
  rewrite Forall_forall in H1. auto.
Qed.

Lemma psorted_map_pt l : ssorted l -> psorted (map pt_of l).
Proof.
  induction l as [|x r IH]; simpl; auto. intros [H1 H2]. split; auto.
  apply Forall_forall. intros y Hy. apply in_map_iff in Hy as (s & <- & Hs).
  rewrite Forall_forall in H1. simpl. auto.
Qed.

Lemma ssorted_map_smp l : psorted l -> ssorted (map smp_of l).
Proof.
  induction l as [|x r IH]; simpl; auto. intros [H1 H2]. split; auto.
  apply Forall_forall. intros y Hy. apply in_map_iff in Hy as (s & <- & Hs).
  rewrite Forall_forall in H1. simpl. auto.
Qed.

Lemma inner_pts_sorted c series i ts :
  zsorted ts ->
  psorted (spec_inner_pts c series i ts) /\ Forall (fun p => In (p_t p) ts) (spec_inner_pts c series i ts).
Proof.
  unfold spec_inner_pts. induction ts as [|u r IH]; simpl; auto. intros [H1 H2].
  destruct (IH H2) as [IH1 IH2].
  assert (IH2' : Forall (fun p => u = p_t p \/ In (p_t p) r)
                   (flat_map (fun u0 => match spec_inner c series i u0 with Some p => [p] | None => [] end) r)).
  { eapply Forall_impl; [|exact IH2]. simpl; auto. }
  destruct (spec_inner c series i u) as [p|] eqn:E; simpl; auto.
  assert (Hp : p_t p = u).
  { unfold spec_inner in E. destruct i; destruct (spec_instant _ _ _); inversion E; reflexivity. }
  split; [split; auto|constructor; auto].
  apply Forall_forall. intros y Hy. rewrite Forall_forall in IH2. specialize (IH2 _ Hy).
  rewrite Forall_forall in H1. rewrite Hp. auto.
Qed.

Lemma pt_smp_id l : map pt_of (map smp_of l) = l.
Proof. induction l as [|p r IH]; simpl; auto. rewrite IH. destruct p; reflexivity. Qed.

Theorem engine_eq_spec c q series :
  sortedb series = true -> Forall (fun s => minInt64 < s_t s) series ->
  wf_query c q = true -> modelled q = true -> min_guard c q ->
  engine_eval c q series = spec_eval c q series.
Proof.
  intros Hsb Hmin Hwf Hmod Hg. apply sortedb_ssorted in Hsb.
  unfold wf_query in Hwf. apply andb_prop in Hwf as [Hwf Hwq]. apply andb_prop in Hwf as [Hlb Hds].
  apply Z.ltb_lt in Hlb, Hds.
  destruct q as [i|r off a|f r off a|i r step off a|f i r step off a| |]; try discriminate Hmod;
    cbn [min_guard] in Hg.
  - (* instant selector / timestamp() *)
    unfold engine_eval, spec_eval.
    rewrite (eval_inner_spec c series i _ [c_ts c]); auto.
    + unfold spec_inner_pts. cbn [flat_map]. rewrite app_nil_r.
      destruct (spec_inner c series i (c_ts c)); reflexivity.
    + simpl; auto.
    + destruct i as [o [a1|]|o [a1|]]; cbn [inner_off inner_at at_offset]; auto. lia.
  - (* m[r] *)
    apply Z.ltb_lt in Hwq. unfold engine_eval, spec_eval. rewrite eff_at_offset.
    rewrite mis_fresh; auto; lia.
  - apply Z.ltb_lt in Hwq. unfold engine_eval, spec_eval. rewrite eff_at_offset.
    rewrite mis_fresh; auto; try lia. f_equal. apply rfn_agree.
    apply psorted_map_pt. unfold spec_window. now apply ssorted_filter.
  - (* subquery *)
    apply andb_prop in Hwq as [Hr Hst]. apply Z.ltb_lt in Hr. apply Z.leb_le in Hst.
    unfold engine_eval, spec_eval. f_equal. apply run_subquery_spec; auto; try tauto.
  - apply andb_prop in Hwq as [Hr Hst]. apply Z.ltb_lt in Hr. apply Z.leb_le in Hst.
    destruct Hg as [Hg1 Hg2].
    unfold engine_eval, spec_eval.
    rewrite run_subquery_spec; auto.
    rewrite eff_at_offset.
    pose proof (sub_interval_pos c step Hds Hst) as Hi.
    unfold spec_sub.
    set (te := eff (c_ts c) off a) in *.
    set (ts := spec_sub_times (sub_interval c step) (te - r) te).
    fold (spec_inner_pts c series i ts).
    destruct (inner_pts_sorted c series i ts (spec_sub_times_sorted _ _ _ Hi)) as [Hps Hpin].
    set (pts := spec_inner_pts c series i ts) in *.
    rewrite mis_fresh; try lia; [|now apply ssorted_map_smp].
    unfold spec_window. rewrite filter_all.
    + rewrite pt_smp_id. f_equal. now apply rfn_agree.
    + apply Forall_forall. intros s Hs. apply in_map_iff in Hs as (p & <- & Hp).
      rewrite Forall_forall in Hpin. specialize (Hpin _ Hp).
      apply spec_sub_times_in in Hpin; auto. simpl.
      replace (te - r <? p_t p) with true by (symmetry; apply Z.ltb_lt; lia).
      replace (p_t p <=? te) with true by (symmetry; apply Z.leb_le; lia). reflexivity.
Qed.

(* ---------------------------------------------------------------- select hints cover the windows *)

Lemma filter_filter_imp {A} (p q : A -> bool) l :
  (forall x, p x = true -> q x = true) -> filter p (filter q l) = filter p l.
Proof.
  intros Himp. induction l as [|x r IH]; simpl; auto.
  destruct (q x) eqn:Eq; simpl.
  - rewrite IH. reflexivity.
  - destruct (p x) eqn:Ep; auto. rewrite (Himp _ Ep) in Eq. discriminate.
Qed.

Lemma spec_instant_restrict lb h series te :
  fst h <= te - lb + 1 -> te <= snd h ->
  spec_instant lb (restrict h series) te = spec_instant lb series te.
Proof.
  intros H1 H2. unfold spec_instant, restrict. rewrite filter_filter_imp; auto.
  intros x Hx. apply andb_prop in Hx as [Ha Hb]. apply Z.ltb_lt in Ha. apply Z.leb_le in Hb.
  apply andb_true_intro. split; apply Z.leb_le; lia.
Qed.

Lemma spec_window_restrict r h series te :
  fst h <= te - r + 1 -> te <= snd h ->
  spec_window r (restrict h series) te = spec_window r series te.
Proof.
  intros H1 H2. unfold spec_window, restrict. rewrite filter_filter_imp; auto.
  intros x Hx. apply andb_prop in Hx as [Hx _]. apply andb_prop in Hx as [Ha Hb].
  apply Z.ltb_lt in Ha. apply Z.leb_le in Hb.
  apply andb_true_intro. split; apply Z.leb_le; lia.
Qed.

Lemma flat_map_ext_in' {A B} (f g : A -> list B) l :
  (forall a, In a l -> f a = g a) -> flat_map f l = flat_map g l.
Proof.
  induction l as [|x r IH]; simpl; auto. intros H. rewrite (H x) by auto. rewrite IH; auto.
Qed.

Lemma spec_inner_restrict c h series i u :
  fst h <= eff u (inner_off i) (inner_at i) - c_lookback c + 1 ->
  eff u (inner_off i) (inner_at i) <= snd h ->
  spec_inner c (restrict h series) i u = spec_inner c series i u.
Proof.
  intros H1 H2. destruct i; cbn [inner_off inner_at] in *; unfold spec_inner;
    rewrite spec_instant_restrict; auto.
Qed.

Lemma spec_sub_restrict c series i r step off a :
  0 < c_defstep c -> 0 <= step ->
  spec_sub c (restrict (hints c (QSub i r step off a)) series) i r step off a =
  spec_sub c series i r step off a.
Proof.
  intros Hds Hst. pose proof (sub_interval_pos c step Hds Hst) as Hi.
  unfold spec_sub. apply flat_map_ext_in'. intros u Hu.
  apply spec_sub_times_in in Hu; auto. destruct Hu as [[Hu1 Hu2] _].
  rewrite spec_inner_restrict; auto; unfold hints, eff in *; destruct (inner_at i); destruct a; cbn [fst snd]; lia.
Qed.

Lemma spec_sub2_restrict c series f1 i r1 s1 off1 a1 r2 s2 off2 a2 :
  0 < c_defstep c -> 0 <= s1 -> 0 <= s2 ->
  spec_sub2 c (restrict (hints c (QSub2 f1 i r1 s1 off1 a1 r2 s2 off2 a2)) series) f1 i r1 s1 off1 a1 r2 s2 off2 a2 =
  spec_sub2 c series f1 i r1 s1 off1 a1 r2 s2 off2 a2.
Proof.
  intros Hds Hs1 Hs2.
  pose proof (sub_interval_pos c s2 Hds Hs2) as Hi2.
  unfold spec_sub2. apply flat_map_ext_in'. intros u2 Hu2.
  apply spec_sub_times_in in Hu2; auto. destruct Hu2 as [[Hu2a Hu2b] _].
  assert (E : spec_sub (mkCfg u2 (c_lookback c) (c_defstep c))
                (restrict (hints c (QSub2 f1 i r1 s1 off1 a1 r2 s2 off2 a2)) series) i r1 s1 off1 a1 =
              spec_sub (mkCfg u2 (c_lookback c) (c_defstep c)) series i r1 s1 off1 a1).
  { unfold spec_sub. cbn [c_ts]. apply flat_map_ext_in'. intros u1 Hu1.
    assert (Hi1 : 0 < sub_interval (mkCfg u2 (c_lookback c) (c_defstep c)) s1)
      by (apply sub_interval_pos; auto).
    apply spec_sub_times_in in Hu1; auto. destruct Hu1 as [[Hu1a Hu1b] _].
    rewrite spec_inner_restrict; auto; cbn [c_lookback]; unfold hints, eff in *;
      destruct (inner_at i); destruct a1; destruct a2; cbn [fst snd]; lia. }
  now rewrite E.
Qed.

Theorem hints_cover c q series :
  wf_query c q = true ->
  spec_eval c q (restrict (hints c q) series) = spec_eval c q series.
Proof.
  intros Hwf. unfold wf_query in Hwf. apply andb_prop in Hwf as [Hwf Hwq]. apply andb_prop in Hwf as [Hlb Hds].
  apply Z.ltb_lt in Hlb, Hds.
  destruct q as [i|r off a|f r off a|i r step off a|f i r step off a
                |f1 i r1 s1 off1 a1 r2 s2 off2 a2|f2 f1 i r1 s1 off1 a1 r2 s2 off2 a2]; unfold spec_eval.
  - rewrite spec_inner_restrict; auto; unfold hints, eff; destruct (inner_at i); cbn [fst snd]; try rewrite Z.eqb_refl; lia.
  - apply Z.ltb_lt in Hwq. rewrite spec_window_restrict; auto; unfold hints, eff;
      replace (r =? 0) with false by (symmetry; apply Z.eqb_neq; lia); destruct a; cbn [fst snd]; lia.
  - apply Z.ltb_lt in Hwq. rewrite spec_window_restrict; auto; unfold hints, eff;
      replace (r =? 0) with false by (symmetry; apply Z.eqb_neq; lia); destruct a; cbn [fst snd]; lia.
  - apply andb_prop in Hwq as [Hr Hst]. apply Z.leb_le in Hst. now rewrite spec_sub_restrict.
  - apply andb_prop in Hwq as [Hr Hst]. apply Z.leb_le in Hst.
    change (hints c (QSubFn f i r step off a)) with (hints c (QSub i r step off a)).
    now rewrite spec_sub_restrict.
  - apply andb_prop in Hwq as [Hwq H4]. apply andb_prop in Hwq as [Hwq H3]. apply andb_prop in Hwq as [H1 H2].
    apply Z.leb_le in H2, H4. now rewrite spec_sub2_restrict.
  - apply andb_prop in Hwq as [Hwq H4]. apply andb_prop in Hwq as [Hwq H3]. apply andb_prop in Hwq as [H1 H2].
    apply Z.leb_le in H2, H4.
    change (hints c (QSub2Fn f2 f1 i r1 s1 off1 a1 r2 s2 off2 a2)) with (hints c (QSub2 f1 i r1 s1 off1 a1 r2 s2 off2 a2)).
    now rewrite spec_sub2_restrict.
Qed.

Lemma restrict_min h series :
  Forall (fun s => minInt64 < s_t s) series -> Forall (fun s => minInt64 < s_t s) (restrict h series).
Proof.
  intros H. apply Forall_forall. intros x Hx. apply filter_In in Hx as [Hx _].
  rewrite Forall_forall in H. auto.
Qed.

Lemma ssorted_sortedb l : ssorted l -> sortedb l = true.
Proof.
  induction l as [|x r IH]; simpl; auto. intros [H1 H2]. destruct r as [|y r']; auto.
  inversion H1; subst. apply andb_true_intro. split; [now apply Z.ltb_lt|auto].
Qed.

(* the engine, fed by a storage that returns exactly the hinted range, computes the documented
   selection over the full series *)
Theorem engine_on_storage_spec c q series :
  sortedb series = true -> Forall (fun s => minInt64 < s_t s) series ->
  wf_query c q = true -> modelled q = true -> min_guard c q ->
  engine_on_storage c q series = spec_eval c q series.
Proof.
  intros Hsb Hmin Hwf Hmod Hg. unfold engine_on_storage.
  rewrite engine_eq_spec; auto.
  - now apply hints_cover.
  - apply ssorted_sortedb. unfold restrict. apply ssorted_filter. now apply sortedb_ssorted.
  - now apply restrict_min.
Qed.

(* ---------------------------------------------------------------- meaning of spec_instant *)

Lemma ssorted_last_max l s : ssorted l -> last_opt l = Some s -> forall x, In x l -> s_t x <= s_t s.
Proof.
  intros Hs Hl x Hx. apply last_opt_split in Hl as [l' ->].
  apply ssorted_app in Hs as (_ & _ & H). apply in_app_or in Hx as [Hx|[<-|[]]]; [|lia].
  rewrite Forall_forall in H. specialize (H _ Hx). inversion H; subst. lia.
Qed.

Lemma ssorted_time_inj l a b : ssorted l -> In a l -> In b l -> s_t a = s_t b -> a = b.
Proof.
  induction l as [|x r IH]; simpl; [tauto|]. intros [H1 H2] [Ha|Ha] [Hb|Hb] E; subst; auto.
  - rewrite Forall_forall in H1. specialize (H1 _ Hb). lia.
  - rewrite Forall_forall in H1. specialize (H1 _ Ha). lia.
Qed.

Lemma spec_instant_meaning lookback series te s :
  sortedb series = true -> 0 < lookback ->
  (spec_instant lookback series te = Some s <->
   In s series /\ te - lookback < s_t s <= te /\ s_stale s = false /\
   forall s', In s' series -> s_t s' <= te -> s_t s' <= s_t s).
Proof.
  intros Hsb Hlb. apply sortedb_ssorted in Hsb. unfold spec_instant.
  set (W := fun s0 : sample => (te - lookback <? s_t s0) && (s_t s0 <=? te)).
  assert (HW : forall x, W x = true <-> te - lookback < s_t x <= te).
  { intros x. unfold W. rewrite andb_true_iff, Z.ltb_lt, Z.leb_le. tauto. }
  pose proof (ssorted_filter W series Hsb) as Hsf.
  split.
  - destruct (last_opt (filter W series)) as [s0|] eqn:El; [|discriminate].
    destruct (s_stale s0) eqn:Est; [discriminate|]. intros H; inversion H; subst s0.
    pose proof (last_opt_in _ _ El) as Hin. apply filter_In in Hin as [Hin Hw]. apply HW in Hw.
    repeat split; auto; try lia.
    intros s' Hs' Hle. destruct (Z_lt_le_dec (te - lookback) (s_t s')).
    + apply (ssorted_last_max _ _ Hsf El). apply filter_In. split; auto. apply HW. lia.
    + lia.
  - intros (Hin & Hw & Hst & Hmax).
    assert (Hf : In s (filter W series)) by (apply filter_In; split; auto; apply HW; lia).
    destruct (last_opt (filter W series)) as [s0|] eqn:El.
    + pose proof (ssorted_last_max _ _ Hsf El s Hf) as H1.
      pose proof (last_opt_in _ _ El) as Hin0. apply filter_In in Hin0 as [Hin0 Hw0]. apply HW in Hw0.
      pose proof (Hmax s0 Hin0 ltac:(lia)) as H2.
      assert (s0 = s) by (apply (ssorted_time_inj series); auto; lia). subst s0.
      now rewrite Hst.
    + apply last_opt_none in El. rewrite El in Hf. contradiction.
Qed.

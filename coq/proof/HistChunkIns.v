(* proof/HistChunkIns.v — the positional semantics of insert() for absolute values, and the
   correctness of expandSpansBothWays (both_go) with respect to it. *)
From Coq Require Import List ZArith Bool Lia.
From Verif Require Import model.HistChunk proof.HistChunkProofs.
Import ListNotations.
Open Scope Z_scope.

Lemma repeat_shift (n : Z) (X : list Z) : 0 <= n ->
  repeat 0 (Z.to_nat (n + 1)) ++ X = repeat 0 (Z.to_nat n) ++ 0 :: X.
Proof.
  intros H. replace (Z.to_nat (n + 1)) with (Z.to_nat n + 1)%nat by lia.
  rewrite repeat_app, <- app_assoc. reflexivity.
Qed.

Lemma extra_repeat n : 1 <= n -> 0 :: extra n = repeat 0 (Z.to_nat n).
Proof. intros H. unfold extra. replace (Z.to_nat n) with (S (Z.to_nat (n - 1))) by lia. reflexivity. Qed.

(* ---------- insert with deltas = false ---------- *)
Lemma take_ins_irrel i v v' f f' l : take_ins false i v f l = take_ins false i v' f' l.
Proof.
  revert f f'. induction l as [|x r IH]; intros f f'; simpl; [reflexivity|].
  destruct (i_pos x =? i); [|reflexivity]. now rewrite (IH false false).
Qed.

Lemma take_ins_none d i v f l : Forall (fun x => i < i_pos x) l -> take_ins d i v f l = ([], l).
Proof.
  destruct l as [|x r]; intros H; simpl; [reflexivity|]. inversion H; subst.
  destruct (Z.eqb_spec (i_pos x) i); [lia|reflexivity].
Qed.

Lemma leftover_irrel len v v' l : leftover false len v l = leftover false len v' l.
Proof. destruct l; simpl; reflexivity. Qed.

Lemma ins_body_unfold i v x va l :
  ins_body false i v (x :: va) l =
  let '(o, r) := take_ins false i v true l in
  w <- ins_body false (i + 1) (v + x) va r ;; Ok (o ++ x :: w).
Proof.
  destruct l as [|y r]; cbn [ins_body take_ins]; [reflexivity|].
  destruct (i_pos y =? i); [|reflexivity].
  destruct (take_ins false i v false r) as [o r']. reflexivity.
Qed.

Lemma ins_body_irrel i v v' va l : ins_body false i v va l = ins_body false i v' va l.
Proof.
  revert i v v' l. induction va as [|x va IH]; intros i v v' l.
  - simpl. apply leftover_irrel.
  - rewrite !ins_body_unfold. rewrite (take_ins_irrel i v v' true true).
    destruct (take_ins false i v' true l) as [o r]. now rewrite (IH (i + 1) (v + x) (v' + x)).
Qed.

Lemma ins_body_nil i v va : ins_body false i v va [] = Ok va.
Proof.
  revert i v. induction va as [|x va IH]; intros i v; [reflexivity|].
  cbn [ins_body]. rewrite IH. reflexivity.
Qed.

(* L2: no insert at the current position *)
Lemma ins_skip i v x va l :
  Forall (fun y => i < i_pos y) l ->
  ins_body false i v (x :: va) l = (w <- ins_body false (i + 1) v va l ;; Ok (x :: w)).
Proof.
  intros H. rewrite ins_body_unfold, (take_ins_none _ _ _ _ _ H).
  now rewrite (ins_body_irrel (i + 1) (v + x) v).
Qed.

(* L1: an insert at the current position contributes its zeros in front *)
Lemma ins_same_pos i v va n b l w :
  1 <= n -> ins_body false i v va l = Ok w ->
  ins_body false i v va (mkIns i n b :: l) = Ok (repeat 0 (Z.to_nat n) ++ w).
Proof.
  intros Hn H. destruct va as [|x va].
  - cbn [ins_body leftover i_pos i_num] in *. rewrite Z.ltb_irrefl.
    rewrite (leftover_irrel i 0 v), H. cbn [bind]. now rewrite extra_repeat.
  - rewrite ins_body_unfold in *. cbn [take_ins i_pos i_num]. rewrite Z.eqb_refl. cbn [andb].
    rewrite (take_ins_irrel i v v false true).
    destruct (take_ins false i v true l) as [o r].
    destruct (ins_body false (i + 1) (v + x) va r) as [w1| |]; cbn [bind] in *; try discriminate.
    inversion H; subst. rewrite <- extra_repeat by assumption.
    now rewrite <- !app_comm_cons, <- app_assoc.
Qed.

(* the pending insert (fp, fn) flushed in front of inserts that all lie further right *)
Lemma ins_flush fp fn F x va w v :
  0 <= fn -> Forall (fun y => fp < i_pos y) F ->
  ins_body false (fp + 1) v va F = Ok w ->
  ins_body false fp v (x :: va) (flush (mkIns fp fn 0) F) = Ok (repeat 0 (Z.to_nat fn) ++ x :: w).
Proof.
  intros Hfn HF H.
  assert (E : ins_body false fp v (x :: va) F = Ok (x :: w)) by (rewrite (ins_skip _ _ _ _ _ HF), H; reflexivity).
  unfold flush. cbn [i_num]. destruct (Z.ltb_spec 0 fn).
  - apply ins_same_pos; [lia|assumption].
  - replace fn with 0 by lia. exact E.
Qed.

Lemma ins_flush_end fp fn v :
  0 <= fn -> ins_body false fp v [] (flush (mkIns fp fn 0) []) = Ok (repeat 0 (Z.to_nat fn)).
Proof.
  intros H. unfold flush. cbn [i_num]. destruct (Z.ltb_spec 0 fn).
  - cbn [ins_body leftover i_pos i_num]. rewrite Z.ltb_irrefl. cbn [bind].
    rewrite app_nil_r. now rewrite extra_repeat by lia.
  - replace fn with 0 by lia. reflexivity.
Qed.

(* ---------- expandSpansBothWays ---------- *)
(* [F] (pending insert fn at position fp included) lays the values of (ix, va) out on M *)
Definition good (fp fn : Z) (F : list ins) (M ix : list Z) : Prop :=
  forall va v, length va = length ix ->
    ins_body false fp v va F = Ok (repeat 0 (Z.to_nat fn) ++ lay M ix va).

Lemma flush_lb fp fn F : Forall (fun y => fp < i_pos y) F -> Forall (fun y => fp <= i_pos y) (flush (mkIns fp fn 0) F).
Proof.
  intros H. unfold flush. destruct (0 <? i_num (mkIns fp fn 0)).
  - constructor; [simpl; lia|]. eapply Forall_impl; [|exact H]. simpl; intros; lia.
  - eapply Forall_impl; [|exact H]. simpl; intros; lia.
Qed.

Lemma lb_step fp F : Forall (fun y => fp + 1 <= i_pos y) F -> Forall (fun y => fp < i_pos y) F.
Proof. intros H. eapply Forall_impl; [|exact H]. simpl; intros; lia. Qed.

(* one stream exhausted *)
Lemma both_go_left fuel ia fp fn bp bn F B M :
  both_go fuel ia [] fp fn bp bn = Ok (F, B, M) ->
  F = flush (mkIns fp fn 0) [] /\ B = flush (mkIns bp (bn + Z.of_nat (length ia)) 0) [] /\ M = ia.
Proof.
  revert ia bn F B M. induction fuel as [|f IH]; intros ia bn F B M H; [discriminate|].
  destruct ia as [|a ia]; cbn [both_go] in H.
  - inversion H; subst. rewrite Z.add_0_r. auto.
  - destruct (both_go f ia [] fp fn bp (bn + 1)) as [[[F' B'] M']| |] eqn:E; cbn [bind] in H; try discriminate.
    inversion H; subst. destruct (IH _ _ _ _ _ E) as (-> & -> & ->).
    repeat split. cbn [length]. do 2 f_equal. lia.
Qed.

Lemma both_go_right fuel ib fp fn bp bn F B M :
  both_go fuel [] ib fp fn bp bn = Ok (F, B, M) ->
  F = flush (mkIns fp (fn + Z.of_nat (length ib)) 0) [] /\ B = flush (mkIns bp bn 0) [] /\ M = ib.
Proof.
  revert ib fn F B M. induction fuel as [|f IH]; intros ib fn F B M H; [discriminate|].
  destruct ib as [|b ib]; cbn [both_go] in H.
  - inversion H; subst. rewrite Z.add_0_r. auto.
  - destruct (both_go f [] ib fp (fn + 1) bp bn) as [[[F' B'] M']| |] eqn:E; cbn [bind] in H; try discriminate.
    inversion H; subst. destruct (IH _ _ _ _ _ E) as (-> & -> & ->).
    repeat split. cbn [length]. do 2 f_equal. lia.
Qed.

(* the exhausted side: all of M are new buckets *)
Lemma good_exhausted p n k M : 0 <= n -> k = Z.of_nat (length M) ->
  good p n (flush (mkIns p (n + k) 0) []) M [].
Proof.
  intros Hn -> va v Hlen. destruct va; [|discriminate].
  rewrite ins_flush_end by lia. rewrite lay_nil. f_equal.
  rewrite <- repeat_app. f_equal. lia.
Qed.

(* the other side: M is exactly its own index list *)
Lemma good_self p n M : 0 <= n -> good p n (flush (mkIns p n 0) []) M M.
Proof.
  intros Hn va v Hlen. rewrite lay_self by assumption. destruct va as [|x va].
  - rewrite ins_flush_end by lia. now rewrite app_nil_r.
  - apply ins_flush; [lia|constructor|apply ins_body_nil].
Qed.

Lemma flush_nil_lb p n : Forall (fun y => p <= i_pos y) (flush (mkIns p n 0) []).
Proof. apply flush_lb. constructor. Qed.

Ltac split7 := split; [|split; [|split; [|split; [|split; [|split]]]]].

Lemma both_go_spec fuel : forall ia ib fp fn bp bn F B M lo,
  both_go fuel ia ib fp fn bp bn = Ok (F, B, M) -> 0 <= fn -> 0 <= bn ->
  incr lo ia -> incr lo ib ->
  Forall (fun y => fp <= i_pos y) F /\ Forall (fun y => bp <= i_pos y) B /\
  good fp fn F M ia /\ good bp bn B M ib /\
  incr lo M /\ incl ia M /\ incl ib M.
Proof.
  induction fuel as [|f IH]; intros ia ib fp fn bp bn F B M lo H Hfn Hbn Hia Hib; [discriminate|].
  destruct ia as [|a ia']; [|destruct ib as [|b ib']].
  - (* a exhausted *)
    destruct (both_go_right _ _ _ _ _ _ _ _ _ H) as (-> & -> & ->).
    split7; auto using flush_nil_lb, good_exhausted, good_self, incl_refl, incl_nil_l.
  - (* b exhausted *)
    destruct (both_go_left _ _ _ _ _ _ _ _ _ H) as (-> & -> & ->).
    split7; auto using flush_nil_lb, good_exhausted, good_self, incl_refl, incl_nil_l.
  - cbn [both_go] in H. destruct Hia as [Ha1 Ha2], Hib as [Hb1 Hb2].
    destruct (Z.eqb_spec a b) as [<-|Hab]; [|destruct (Z.ltb_spec a b) as [Hlt|Hge]].
    + (* same bucket in both *)
      destruct (both_go f ia' ib' (fp + 1) 0 (bp + 1) 0) as [[[F' B'] M']| |] eqn:E; cbn [bind] in H; try discriminate.
      inversion H; subst; clear H.
      destruct (IH _ _ _ _ _ _ _ _ _ a E ltac:(lia) ltac:(lia) Ha2 Hb2) as (LF & LB & GF & GB & IM & IA & IB).
      split7.
      * apply flush_lb, lb_step, LF.
      * apply flush_lb, lb_step, LB.
      * intros va v Hlen. destruct va as [|x va]; [discriminate|]. cbn [lay]. rewrite Z.eqb_refl.
        apply ins_flush; [lia|apply lb_step, LF|]. apply (GF va v). simpl in Hlen; lia.
      * intros vb v Hlen. destruct vb as [|x vb]; [discriminate|]. cbn [lay]. rewrite Z.eqb_refl.
        apply ins_flush; [lia|apply lb_step, LB|]. apply (GB vb v). simpl in Hlen; lia.
      * simpl. auto.
      * intros x [->|Hx]; [now left|right; auto].
      * intros x [->|Hx]; [now left|right; auto].
    + (* a < b: b misses a *)
      destruct (both_go f ia' (b :: ib') (fp + 1) 0 bp (bn + 1)) as [[[F' B'] M']| |] eqn:E; cbn [bind] in H; try discriminate.
      inversion H; subst; clear H.
      assert (Hb' : incr a (b :: ib')) by (simpl; auto).
      destruct (IH _ _ _ _ _ _ _ _ _ a E ltac:(lia) ltac:(lia) Ha2 Hb') as (LF & LB & GF & GB & IM & IA & IB).
      split7.
      * apply flush_lb, lb_step, LF.
      * exact LB.
      * intros va v Hlen. destruct va as [|x va]; [discriminate|]. cbn [lay]. rewrite Z.eqb_refl.
        apply ins_flush; [lia|apply lb_step, LF|]. apply (GF va v). simpl in Hlen; lia.
      * intros vb v Hlen. rewrite (GB vb v Hlen). f_equal. rewrite repeat_shift by lia. f_equal.
        cbn [lay]. destruct vb as [|y vb]; [reflexivity|].
        destruct (Z.eqb_spec b a); [lia|reflexivity].
      * simpl. auto.
      * intros x [->|Hx]; [now left|right; auto].
      * intros x Hx. right. auto.
    + (* a > b: a misses b *)
      destruct (both_go f (a :: ia') ib' fp (fn + 1) (bp + 1) 0) as [[[F' B'] M']| |] eqn:E; cbn [bind] in H; try discriminate.
      inversion H; subst; clear H.
      assert (Ha' : incr b (a :: ia')) by (simpl; split; [lia|auto]).
      destruct (IH _ _ _ _ _ _ _ _ _ b E ltac:(lia) ltac:(lia) Ha' Hb2) as (LF & LB & GF & GB & IM & IA & IB).
      split7.
      * exact LF.
      * apply flush_lb, lb_step, LB.
      * intros va v Hlen. rewrite (GF va v Hlen). f_equal. rewrite repeat_shift by lia. f_equal.
        cbn [lay]. destruct va as [|y va]; [reflexivity|].
        destruct (Z.eqb_spec a b); [lia|reflexivity].
      * intros vb v Hlen. destruct vb as [|x vb]; [discriminate|]. cbn [lay]. rewrite Z.eqb_refl.
        apply ins_flush; [lia|apply lb_step, LB|]. apply (GB vb v). simpl in Hlen; lia.
      * simpl. auto.
      * intros x Hx. right. auto.
      * intros x [->|Hx]; [now left|right; auto].
Qed.

Lemma both_go_ok fuel : forall ia ib fp fn bp bn,
  (length ia + length ib < fuel)%nat -> exists r, both_go fuel ia ib fp fn bp bn = Ok r.
Proof.
  induction fuel as [|f IH]; intros ia ib fp fn bp bn H; [lia|].
  destruct ia as [|a ia']; destruct ib as [|b ib']; cbn [both_go].
  - eauto.
  - destruct (IH [] ib' fp (fn + 1) bp bn) as [[[F B] M] E]; [simpl in *; lia|]. rewrite E. cbn [bind]. eauto.
  - destruct (IH ia' [] fp fn bp (bn + 1)) as [[[F B] M] E]; [simpl in *; lia|]. rewrite E. cbn [bind]. eauto.
  - destruct (a =? b); [|destruct (a <? b)].
    + destruct (IH ia' ib' (fp + 1) 0 (bp + 1) 0) as [[[F B] M] E]; [simpl in *; lia|]. rewrite E. cbn [bind]. eauto.
    + destruct (IH ia' (b :: ib') (fp + 1) 0 bp (bn + 1)) as [[[F B] M] E]; [simpl in *; lia|]. rewrite E. cbn [bind]. eauto.
    + destruct (IH (a :: ia') ib' fp (fn + 1) (bp + 1) 0) as [[[F B] M] E]; [simpl in *; lia|]. rewrite E. cbn [bind]. eauto.
Qed.

(* proof/WriteReqProofs.v — proofs about model/WriteReq.v (C41). *)
From Coq Require Import List ZArith Bool Lia.
From Verif Require Import model.WriteReq.
Import ListNotations.
Open Scope Z_scope.

Arguments ac_st {St}. Arguments ac_s {St}. Arguments ac_h {St}. Arguments ac_e {St}.
Arguments ac_bad {St}. Arguments ac_tr {St}.

(* ---------- strings ---------- *)
Lemma str_eqb_eq : forall a b, str_eqb a b = true <-> a = b.
Proof.
  induction a as [|x a IH]; destruct b as [|y b]; simpl; split; intro H; try congruence; auto.
  - apply andb_true_iff in H as [H1 H2]. apply Z.eqb_eq in H1. apply IH in H2. congruence.
  - inversion H; subst. apply andb_true_iff; split; [apply Z.eqb_refl | apply IH; reflexivity].
Qed.

Lemma str_ltb_irrefl : forall a, str_ltb a a = false.
Proof. induction a as [|x a IH]; simpl; auto. rewrite Z.ltb_irrefl. exact IH. Qed.

Lemma str_ltb_leb : forall a b, str_ltb a b = true -> str_leb a b = true.
Proof.
  unfold str_leb. induction a as [|x a IH]; destruct b as [|y b]; simpl; intros H; try discriminate; auto.
  destruct (x <? y) eqn:E1.
  - apply Z.ltb_lt in E1. assert (y <? x = false) as -> by (apply Z.ltb_ge; lia). reflexivity.
  - destruct (y <? x) eqn:E2; [discriminate|]. apply IH in H.
    apply negb_true_iff in H. rewrite H. reflexivity.
Qed.

(* ---------- sorting ---------- *)
Lemma sort_sorted_strict : forall ls, sorted_strict ls = true -> sort_labels ls = ls.
Proof.
  induction ls as [|a t IH]; intros H; auto.
  change (sort_labels (a :: t)) with (insert_label a (sort_labels t)).
  destruct t as [|b t'].
  - reflexivity.
  - cbn [sorted_strict] in H. apply andb_true_iff in H as [H1 H2]. rewrite (IH H2).
    cbn [insert_label]. rewrite (str_ltb_leb _ _ H1). reflexivity.
Qed.

(* ---------- symbol table ---------- *)
Definition extends (a b : list str) : Prop := exists e, b = a ++ e.
Lemma extends_refl : forall a, extends a a.
Proof. intros a; exists []; rewrite app_nil_r; reflexivity. Qed.
Lemma extends_trans : forall a b c, extends a b -> extends b c -> extends a c.
Proof. intros a b c [e1 ->] [e2 ->]. exists (e1 ++ e2). rewrite app_assoc. reflexivity. Qed.
Lemma extends_app : forall a e, extends a (a ++ e).
Proof. intros; eexists; reflexivity. Qed.
Lemma nth_error_extends : forall (a b : list str) i s, extends a b -> nth_error a i = Some s -> nth_error b i = Some s.
Proof.
  intros a b i s [e ->] H. rewrite nth_error_app1; auto.
  apply nth_error_Some. congruence.
Qed.

Lemma find_idx_some : forall s tbl i k, find_idx s tbl i = Some k ->
  exists j, k = (i + j)%nat /\ nth_error tbl j = Some s.
Proof.
  induction tbl as [|x r IH]; simpl; intros i k H; [discriminate|].
  destruct (str_eqb s x) eqn:E.
  - inversion H; subst. apply str_eqb_eq in E; subst. exists 0%nat. split; [lia | reflexivity].
  - apply IH in H as [j [-> Hn]]. exists (S j). split; [lia | exact Hn].
Qed.

Lemma symbolize_spec : forall tbl s tbl' i, symbolize tbl s = (tbl', i) ->
  extends tbl tbl' /\ nth_error tbl' i = Some s.
Proof.
  unfold symbolize. intros tbl s tbl' i H. destruct (find_idx s tbl 0) as [k|] eqn:E.
  - inversion H; subst. apply find_idx_some in E as [j [-> Hn]]. split; [apply extends_refl | exact Hn].
  - inversion H; subst. split; [apply extends_app|].
    rewrite nth_error_app2 by lia. rewrite Nat.sub_diag. reflexivity.
Qed.

Lemma symbolize_labels_spec : forall ls tbl tbl' refs, symbolize_labels tbl ls = (tbl', refs) ->
  extends tbl tbl' /\ forall tb, extends tbl' tb -> desym_pairs refs tb = Some ls.
Proof.
  induction ls as [|[n v] r IH]; intros tbl tbl' refs H; simpl in H.
  - inversion H; subst. split; [apply extends_refl | reflexivity].
  - destruct (symbolize tbl n) as [t1 i] eqn:E1. destruct (symbolize t1 v) as [t2 j] eqn:E2.
    destruct (symbolize_labels t2 r) as [t3 rest] eqn:E3. inversion H; subst. clear H.
    apply symbolize_spec in E1 as [X1 N1]. apply symbolize_spec in E2 as [X2 N2].
    apply IH in E3 as [X3 D3]. split.
    + eapply extends_trans; [exact X1|]. eapply extends_trans; [exact X2 | exact X3].
    + intros tb Xb.
      assert (Hi : nth_error tb i = Some n).
      { eapply nth_error_extends; [|exact N1].
        eapply extends_trans; [exact X2|]. eapply extends_trans; [exact X3 | exact Xb]. }
      assert (Hj : nth_error tb j = Some v).
      { eapply nth_error_extends; [|exact N2]. eapply extends_trans; [exact X3 | exact Xb]. }
      cbn [desym_pairs]. rewrite Hi, Hj. rewrite (D3 tb Xb). reflexivity.
Qed.

Lemma symbols_roundtrip : forall tbl ls tbl' refs, symbolize_labels tbl ls = (tbl', refs) ->
  desymbolize refs tbl' = Some (sort_labels ls).
Proof.
  intros tbl ls tbl' refs H. apply symbolize_labels_spec in H as [_ D].
  unfold desymbolize. rewrite (D tbl' (extends_refl _)). reflexivity.
Qed.

Lemma symbols_roundtrip_sorted : forall tbl ls tbl' refs, sorted_strict ls = true ->
  symbolize_labels tbl ls = (tbl', refs) -> desymbolize refs tbl' = Some ls.
Proof.
  intros tbl ls tbl' refs S H. rewrite (symbols_roundtrip _ _ _ _ H).
  rewrite (sort_sorted_strict _ S). reflexivity.
Qed.

Lemma symbolize_all_spec : forall lss tbl tbl' refss, symbolize_all tbl lss = (tbl', refss) ->
  extends tbl tbl' /\
  forall tb, extends tbl' tb ->
    map (fun r => desymbolize r tb) refss = map (fun ls => Some (sort_labels ls)) lss.
Proof.
  induction lss as [|ls r IH]; intros tbl tbl' refss H; simpl in H.
  - inversion H; subst. split; [apply extends_refl | reflexivity].
  - destruct (symbolize_labels tbl ls) as [t1 refs] eqn:E1.
    destruct (symbolize_all t1 r) as [t2 rest] eqn:E2. inversion H; subst. clear H.
    apply symbolize_labels_spec in E1 as [X1 D1]. apply IH in E2 as [X2 D2]. split.
    + eapply extends_trans; eauto.
    + intros tb Xb. simpl. rewrite (D2 tb Xb). unfold desymbolize at 1.
      rewrite (D1 tb (extends_trans _ _ _ X2 Xb)). reflexivity.
Qed.

Lemma symbols_roundtrip_request : forall lss tbl tbl' refss, symbolize_all tbl lss = (tbl', refss) ->
  map (fun r => desymbolize r tbl') refss = map (fun ls => Some (sort_labels ls)) lss.
Proof.
  intros lss tbl tbl' refss H. apply symbolize_all_spec in H as [_ D].
  apply D, extends_refl.
Qed.

(* ---------- counting ---------- *)
Lemma filter_rev_length : forall {A} (f : A -> bool) l, length (filter f (rev l)) = length (filter f l).
Proof.
  induction l as [|x l IH]; simpl; auto.
  rewrite filter_app, app_length, IH. simpl. destruct (f x); simpl; lia.
Qed.
Lemma count_f_rev : forall tr, count_f (rev tr) = count_f tr.
Proof. intros; unfold count_f; rewrite filter_rev_length; reflexivity. Qed.
Lemma count_h_rev : forall tr, count_h (rev tr) = count_h tr.
Proof. intros; unfold count_h; rewrite filter_rev_length; reflexivity. Qed.
Lemma count_e_rev : forall tr, count_e (rev tr) = count_e tr.
Proof. intros; unfold count_e; rewrite filter_rev_length; reflexivity. Qed.

Lemma count_cons_F : forall l t v tr,
  count_f (EvF l t v :: tr) = count_f tr + 1 /\ count_h (EvF l t v :: tr) = count_h tr /\ count_e (EvF l t v :: tr) = count_e tr.
Proof. intros; unfold count_f, count_h, count_e; simpl; lia. Qed.
Lemma count_cons_H : forall l t h tr,
  count_f (EvH l t h :: tr) = count_f tr /\ count_h (EvH l t h :: tr) = count_h tr + 1 /\ count_e (EvH l t h :: tr) = count_e tr.
Proof. intros; unfold count_f, count_h, count_e; simpl; lia. Qed.
Lemma count_cons_E : forall l e tr,
  count_f (EvE l e :: tr) = count_f tr /\ count_h (EvE l e :: tr) = count_h tr /\ count_e (EvE l e :: tr) = count_e tr + 1.
Proof. intros; unfold count_f, count_h, count_e; simpl; lia. Qed.

Definition ev_labels (e : event) : labels :=
  match e with EvF l _ _ => l | EvH l _ _ => l | EvE l _ => l end.

(* ---------- the handlers over any appender ---------- *)
Section Generic.
Variable St : Type.
Variable A : appender St.
Variable maxT : Z.
(* any relation between appender state and the list of acknowledged appends (newest first)
   that the appender's operations maintain *)
Variable R : St -> list event -> Prop.
Hypothesis R_f : forall st tr l t v st' o, R st tr -> a_append A st l t v = (st', o) ->
  R st' (match o with OOk => EvF l t v :: tr | _ => tr end).
Hypothesis R_h : forall st tr l t h st' o, R st tr -> a_hist A st l t h = (st', o) ->
  R st' (match o with OOk => EvH l t h :: tr | _ => tr end).
Hypothesis R_e : forall st tr l e st' o, R st tr -> a_ex A st l e = (st', o) ->
  R st' (match o with OOk => EvE l e :: tr | _ => tr end).

Lemma rw_append_R : forall st tr l t v st' o, R st tr -> rw_append St A maxT st l t v = (st', o) ->
  R st' (match o with OOk => EvF l t v :: tr | _ => tr end).
Proof.
  unfold rw_append. intros st tr l t v st' o H E. destruct (maxT <? t).
  - inversion E; subst. exact H.
  - eapply R_f; eauto.
Qed.
Lemma rw_hist_R : forall st tr l t h st' o, R st tr -> rw_hist St A maxT st l t h = (st', o) ->
  R st' (match o with OOk => EvH l t (reduced h) :: tr | _ => tr end).
Proof.
  unfold rw_hist. intros st tr l t h st' o H E. destruct (maxT <? t).
  - inversion E; subst. exact H.
  - destruct (needs_reduce h && negb (h_redok h)).
    + inversion E; subst. exact H.
    + eapply R_h; eauto.
Qed.
Lemma rw_ex_R : forall st tr l e st' o, R st tr -> rw_ex St A maxT st l e = (st', o) ->
  R st' (match o with OOk => EvE l e :: tr | _ => tr end).
Proof.
  unfold rw_ex. intros st tr l e st' o H E. destruct (maxT <? ex_t e).
  - inversion E; subst. exact H.
  - eapply R_e; eauto.
Qed.

(* invariant of the 2.0 accumulator: the counters count the acknowledged appends, which all
   carry label sets satisfying P *)
Variable P : labels -> Prop.
Definition Inv (a : acc St) : Prop :=
  R (ac_st a) (ac_tr a) /\ ac_s a = count_f (ac_tr a) /\ ac_h a = count_h (ac_tr a)
  /\ ac_e a = count_e (ac_tr a) /\ Forall (fun e => P (ev_labels e)) (ac_tr a) /\ 0 <= ac_bad a.

Lemma Inv_bad : forall a st, Inv a -> R st (ac_tr a) -> Inv (bad St a st).
Proof. unfold Inv, bad; simpl; intros a st (H1 & H2 & H3 & H4 & H5 & H6) H. repeat split; auto; lia. Qed.

Lemma v2_samples_inv : forall l, P l -> forall ss a, Inv a ->
  match v2_samples St A maxT l ss a with
  | inl a' => Inv a' /\ ac_bad a <= ac_bad a'
  | inr st => exists tr, R st tr
  end.
Proof.
  intros l Pl. induction ss as [|[t v] r IH]; intros a HI; simpl.
  - split; [exact HI | lia].
  - destruct (rw_append St A maxT (ac_st a) l t v) as [st o] eqn:E.
    destruct HI as (H1 & H2 & H3 & H4 & H5 & H6).
    pose proof (rw_append_R _ _ _ _ _ _ _ H1 E) as HR.
    destruct o; try (eexists; exact HR).
    + destruct (count_cons_F l t v (ac_tr a)) as (C1 & C2 & C3).
      match goal with |- match v2_samples _ _ _ _ _ ?a1 with _ => _ end => specialize (IH a1) end.
      destruct (v2_samples St A maxT l r _) as [a'|st'].
      * simpl in IH. apply IH. unfold Inv; simpl. repeat split; auto; try lia.
      * apply IH. unfold Inv; simpl. repeat split; auto; try lia.
    + specialize (IH (bad St a st)).
      assert (HB : Inv (bad St a st)) by (apply Inv_bad; [unfold Inv; repeat split; auto | exact HR]).
      destruct (v2_samples St A maxT l r (bad St a st)) as [a'|st'].
      * destruct (IH HB) as [I1 I2]. split; [exact I1 | simpl in I2; lia].
      * apply IH, HB.
Qed.

Lemma v2_hists_inv : forall l, P l -> forall hs a, Inv a ->
  match v2_hists St A maxT l hs a with
  | inl a' => Inv a' /\ ac_bad a <= ac_bad a'
  | inr st => exists tr, R st tr
  end.
Proof.
  intros l Pl. induction hs as [|[t h] r IH]; intros a HI; simpl.
  - split; [exact HI | lia].
  - destruct (rw_hist St A maxT (ac_st a) l t h) as [st o] eqn:E.
    destruct HI as (H1 & H2 & H3 & H4 & H5 & H6).
    pose proof (rw_hist_R _ _ _ _ _ _ _ H1 E) as HR.
    assert (HB : Inv (bad St a st) -> match v2_hists St A maxT l r (bad St a st) with
        | inl a' => Inv a' /\ ac_bad a <= ac_bad a' | inr st0 => exists tr, R st0 tr end).
    { intros HBI. specialize (IH (bad St a st) HBI).
      destruct (v2_hists St A maxT l r (bad St a st)) as [a'|st'].
      - destruct IH as [I1 I2]. split; [exact I1 | simpl in I2; lia].
      - exact IH. }
    destruct o; try (eexists; exact HR).
    + destruct (count_cons_H l t (reduced h) (ac_tr a)) as (C1 & C2 & C3).
      match goal with |- match v2_hists _ _ _ _ _ ?a1 with _ => _ end => specialize (IH a1) end.
      destruct (v2_hists St A maxT l r _) as [a'|st'].
      * simpl in IH. apply IH. unfold Inv; simpl. repeat split; auto; try lia.
      * apply IH. unfold Inv; simpl. repeat split; auto; try lia.
    + apply HB. apply Inv_bad; [unfold Inv; repeat split; auto | exact HR].
    + apply HB. apply Inv_bad; [unfold Inv; repeat split; auto | exact HR].
Qed.

Lemma v2_exs_inv : forall syms l, P l -> forall es a, Inv a ->
  Inv (v2_exs St A maxT syms l es a) /\ ac_bad a <= ac_bad (v2_exs St A maxT syms l es a).
Proof.
  intros syms l Pl. induction es as [|e r IH]; intros a HI; simpl.
  - split; [exact HI | lia].
  - destruct (desymbolize (e2_refs e) syms) as [el|].
    2:{ destruct HI as (H1 & H2 & H3 & H4 & H5 & H6).
        destruct (IH (bad St a (ac_st a))) as [I1 I2].
        { apply Inv_bad; [unfold Inv; repeat split; auto | exact H1]. }
        split; [exact I1 | simpl in I2; lia]. }
    destruct (rw_ex St A maxT (ac_st a) l (mkEx el (e2_t e) (e2_v e))) as [st o] eqn:E.
    destruct HI as (H1 & H2 & H3 & H4 & H5 & H6).
    pose proof (rw_ex_R _ _ _ _ _ _ H1 E) as HR.
    destruct (count_cons_E l (mkEx el (e2_t e) (e2_v e)) (ac_tr a)) as (C1 & C2 & C3).
    destruct o.
    + match goal with |- Inv (v2_exs _ _ _ _ _ _ ?a1) /\ _ => destruct (IH a1) as [I1 I2] end.
      { unfold Inv; simpl. repeat split; auto; try lia. }
      split; [exact I1 | simpl in I2; lia].
    + match goal with |- Inv (v2_exs _ _ _ _ _ _ ?a1) /\ _ => destruct (IH a1) as [I1 I2] end.
      { unfold Inv; simpl. repeat split; auto; try lia. }
      split; [exact I1 | simpl in I2; lia].
    + match goal with |- Inv (v2_exs _ _ _ _ _ _ ?a1) /\ _ => destruct (IH a1) as [I1 I2] end.
      { unfold Inv; simpl. repeat split; auto; try lia. }
      split; [exact I1 | simpl in I2; lia].
    + destruct (IH (bad St a st)) as [I1 I2].
      { apply Inv_bad; [unfold Inv; repeat split; auto | exact HR]. }
      split; [exact I1 | simpl in I2; lia].
    + match goal with |- Inv (v2_exs _ _ _ _ _ _ ?a1) /\ _ => destruct (IH a1) as [I1 I2] end.
      { unfold Inv; simpl. repeat split; auto; try lia. }
      split; [exact I1 | simpl in I2; lia].
Qed.

(* a 2.0 series the receiver accepts: decodable references, a valid label set, not empty *)
Definition series_ok (syms : list str) (ts : ts2) : bool :=
  match desymbolize (t2_refs ts) syms with
  | None => false
  | Some ls => meta_ok ts syms && valid_series ls &&
               negb (match t2_samples ts, t2_hists ts with [], [] => true | _, _ => false end)
  end.

Hypothesis P_valid : forall ls, valid_series ls = true -> P ls.

Lemma v2_series_inv : forall syms ts a, Inv a ->
  match v2_series St A maxT syms ts a with
  | inl a' => Inv a' /\ ac_bad a <= ac_bad a' /\ (series_ok syms ts = false -> ac_bad a < ac_bad a')
  | inr st => exists tr, R st tr
  end.
Proof.
  intros syms ts a HI. unfold v2_series, series_ok.
  assert (HB : Inv (bad St a (ac_st a)) /\ ac_bad a <= ac_bad (bad St a (ac_st a))
               /\ ac_bad a < ac_bad (bad St a (ac_st a))).
  { split; [apply Inv_bad; [exact HI | apply HI] | simpl; lia]. }
  destruct (desymbolize (t2_refs ts) syms) as [ls|].
  2:{ destruct HB as (B1 & B2 & B3). auto. }
  destruct (meta_ok ts syms); simpl.
  2:{ destruct HB as (B1 & B2 & B3). auto. }
  destruct (valid_series ls) eqn:V; simpl.
  2:{ destruct HB as (B1 & B2 & B3). auto. }
  assert (Pl : P ls) by (apply P_valid; exact V).
  assert (Main :
    match (match v2_samples St A maxT ls (t2_samples ts) a with
           | inr st => inr st
           | inl a1 => match v2_hists St A maxT ls (t2_hists ts) a1 with
                       | inr st => inr st
                       | inl a2 => inl (v2_exs St A maxT syms ls (t2_exs ts) a2)
                       end
           end) with
    | inl a' => Inv a' /\ ac_bad a <= ac_bad a'
    | inr st => exists tr, R st tr
    end).
  { pose proof (v2_samples_inv ls Pl (t2_samples ts) a HI) as S1.
    destruct (v2_samples St A maxT ls (t2_samples ts) a) as [a1|st]; [|exact S1].
    destruct S1 as [I1 B1].
    pose proof (v2_hists_inv ls Pl (t2_hists ts) a1 I1) as S2.
    destruct (v2_hists St A maxT ls (t2_hists ts) a1) as [a2|st]; [|exact S2].
    destruct S2 as [I2 B2].
    destruct (v2_exs_inv syms ls Pl (t2_exs ts) a2 I2) as [I3 B3].
    split; [exact I3 | lia]. }
  destruct (t2_samples ts) as [|s0 sr] eqn:ES; destruct (t2_hists ts) as [|h0 hr] eqn:EH; simpl.
  - destruct HB as (B1 & B2 & B3). auto.
  - match type of Main with match ?X with _ => _ end =>
      match goal with |- match ?Y with _ => _ end => change Y with X end end.
    destruct (match v2_samples St A maxT ls [] a with inr st => inr st | inl a1 => _ end) as [a'|st];
      [|exact Main]. destruct Main as [M1 M2]. split; [exact M1|]. split; [exact M2|]. intros HH; discriminate HH.
  - match type of Main with match ?X with _ => _ end =>
      match goal with |- match ?Y with _ => _ end => change Y with X end end.
    destruct (match v2_samples St A maxT ls (s0 :: sr) a with inr st => inr st | inl a1 => _ end) as [a'|st];
      [|exact Main]. destruct Main as [M1 M2]. split; [exact M1|]. split; [exact M2|]. intros HH; discriminate HH.
  - match type of Main with match ?X with _ => _ end =>
      match goal with |- match ?Y with _ => _ end => change Y with X end end.
    destruct (match v2_samples St A maxT ls (s0 :: sr) a with inr st => inr st | inl a1 => _ end) as [a'|st];
      [|exact Main]. destruct Main as [M1 M2]. split; [exact M1|]. split; [exact M2|]. intros HH; discriminate HH.
Qed.

Lemma v2_all_inv : forall syms tss a, Inv a ->
  match v2_all St A maxT syms tss a with
  | inl a' => Inv a' /\ ac_bad a <= ac_bad a' /\
              (forallb (series_ok syms) tss = false -> ac_bad a < ac_bad a')
  | inr st => exists tr, R st tr
  end.
Proof.
  induction tss as [|ts r IH]; intros a HI; simpl.
  - split; [exact HI|]. split; [lia | intros HH; discriminate HH].
  - pose proof (v2_series_inv syms ts a HI) as S1.
    destruct (v2_series St A maxT syms ts a) as [a1|st]; [|exact S1].
    destruct S1 as (I1 & B1 & C1). specialize (IH a1 I1).
    destruct (v2_all St A maxT syms r a1) as [a2|st]; [|exact IH].
    destruct IH as (I2 & B2 & C2). split; [exact I2|]. split; [lia|].
    intros Hf. apply andb_false_iff in Hf as [Hf|Hf]; [specialize (C1 Hf)|specialize (C2 Hf)]; lia.
Qed.

(* ----- 1.0 ----- *)
Definition Inv1 (st : St) (tr : list event) : Prop :=
  R st tr /\ Forall (fun e => P (ev_labels e)) tr.

Lemma v1_samples_inv : forall l, P l -> forall ss st tr, Inv1 st tr ->
  match v1_samples St A maxT l ss st tr with
  | inl (st', tr') => Inv1 st' tr'
  | inr (st', _) => exists tr', R st' tr'
  end.
Proof.
  intros l Pl. induction ss as [|[t v] r IH]; intros st tr [H1 H2]; simpl.
  - split; auto.
  - destruct (rw_append St A maxT st l t v) as [st' o] eqn:E.
    pose proof (rw_append_R _ _ _ _ _ _ _ H1 E) as HR.
    destruct o; try (eexists; exact HR).
    apply IH. split; auto.
Qed.
Lemma v1_hists_inv : forall l, P l -> forall hs st tr, Inv1 st tr ->
  match v1_hists St A maxT l hs st tr with
  | inl (st', tr') => Inv1 st' tr'
  | inr (st', _) => exists tr', R st' tr'
  end.
Proof.
  intros l Pl. induction hs as [|[t h] r IH]; intros st tr [H1 H2]; simpl.
  - split; auto.
  - destruct (rw_hist St A maxT st l t h) as [st' o] eqn:E.
    pose proof (rw_hist_R _ _ _ _ _ _ _ H1 E) as HR.
    destruct o; try (eexists; exact HR).
    apply IH. split; auto.
Qed.
Lemma v1_exs_inv : forall l, P l -> forall es st tr, Inv1 st tr ->
  Inv1 (fst (v1_exs St A maxT l es st tr)) (snd (v1_exs St A maxT l es st tr)).
Proof.
  intros l Pl. induction es as [|e r IH]; intros st tr [H1 H2]; simpl.
  - split; auto.
  - destruct (rw_ex St A maxT st l _) as [st' o] eqn:E.
    pose proof (rw_ex_R _ _ _ _ _ _ H1 E) as HR.
    destruct o; apply IH; split; auto.
Qed.

Lemma v1_all_inv : forall tss st tr, Inv1 st tr ->
  match v1_all St A maxT tss st tr with
  | inl (st', tr') => Inv1 st' tr'
  | inr (st', _) => exists tr', R st' tr'
  end.
Proof.
  induction tss as [|ts r IH]; intros st tr HI; simpl.
  - exact HI.
  - destruct (valid_series (sort_labels (t1_labels ts))) eqn:V; simpl.
    2:{ apply IH, HI. }
    assert (Pl : P (sort_labels (t1_labels ts))) by (apply P_valid; exact V).
    pose proof (v1_samples_inv _ Pl (t1_samples ts) st tr HI) as S1.
    destruct (v1_samples St A maxT _ (t1_samples ts) st tr) as [[st1 tr1]|[st1 o1]]; [|exact S1].
    pose proof (v1_exs_inv _ Pl (t1_exs ts) st1 tr1 S1) as S2.
    destruct (v1_exs St A maxT _ (t1_exs ts) st1 tr1) as [st2 tr2]. simpl in S2.
    pose proof (v1_hists_inv _ Pl (t1_hists ts) st2 tr2 S2) as S3.
    destruct (v1_hists St A maxT _ (t1_hists ts) st2 tr2) as [[st3 tr3]|[st3 o3]]; [|exact S3].
    apply IH, S3.
Qed.
End Generic.

Arguments series_ok syms ts : simpl never.

(* ---------- reported counts = acknowledged appends, for every appender ---------- *)
Lemma count_nil : count_f [] = 0 /\ count_h [] = 0 /\ count_e [] = 0.
Proof. repeat split. Qed.

Theorem v2_counts_acknowledged : forall St (A : appender St) maxT st0 r,
  let res := handle_v2 A maxT st0 r in
  match r_fin res with
  | FCommitted =>
      r_stats res = Some (count_f (r_trace res), count_h (r_trace res), count_e (r_trace res))
      /\ (r_status res = 204 \/ r_status res = 400)
      /\ (r_status res = 204 -> forallb (series_ok (r2_syms r)) (r2_series r) = true)
      /\ Forall (fun e => valid_series (ev_labels e) = true) (r_trace res)
  | _ => r_stats res = Some (0, 0, 0) /\ r_trace res = [] /\ r_status res = 500
  end.
Proof.
  intros St A maxT st0 r. unfold handle_v2.
  pose proof (v2_all_inv St A maxT (fun _ _ => True) (fun _ _ _ _ _ _ _ _ _ => I)
                (fun _ _ _ _ _ _ _ _ _ => I) (fun _ _ _ _ _ _ _ _ => I)
                (fun ls => valid_series ls = true) (fun _ H => H)
                (r2_syms r) (r2_series r) (mkAcc St st0 0 0 0 0 [])) as H.
  destruct (v2_all St A maxT (r2_syms r) (r2_series r) (mkAcc St st0 0 0 0 0 [])) as [a|st].
  2:{ simpl. auto. }
  destruct H as ((_ & Hs & Hh & He & HF & Hb) & B & C).
  { unfold Inv; simpl. repeat split; auto. lia. }
  destruct (a_commit A (ac_st a)) as [st ok]. destruct ok; simpl.
  2:{ auto. }
  rewrite count_f_rev, count_h_rev, count_e_rev, <- Hs, <- Hh, <- He.
  split; [reflexivity|]. split.
  { destruct (ac_bad a =? 0); auto. }
  split.
  - intros H204. destruct (forallb (series_ok (r2_syms r)) (r2_series r)) eqn:E; [reflexivity|].
    specialize (C eq_refl). simpl in C. destruct (ac_bad a =? 0) eqn:E0; [|discriminate].
    apply Z.eqb_eq in E0. lia.
  - apply Forall_rev. exact HF.
Qed.

(* ---------- an atomic storage stores exactly what is reported ---------- *)
Definition ideal_R (s0 : ideal) (st : ideal) (tr : list event) : Prop :=
  id_pending st = tr /\ id_stored st = id_stored s0.

Lemma ideal_R_f : forall decide s0 st tr l t v st' o, ideal_R s0 st tr ->
  a_append (ideal_app decide) st l t v = (st', o) ->
  ideal_R s0 st' (match o with OOk => EvF l t v :: tr | _ => tr end).
Proof.
  unfold ideal_R. intros decide s0 st tr l t v st' o [H1 H2] E. simpl in E.
  inversion E; subst; clear E.
  destruct (decide (id_pending st ++ id_stored st) (EvF l t v)); simpl; auto.
Qed.
Lemma ideal_R_h : forall decide s0 st tr l t h st' o, ideal_R s0 st tr ->
  a_hist (ideal_app decide) st l t h = (st', o) ->
  ideal_R s0 st' (match o with OOk => EvH l t h :: tr | _ => tr end).
Proof.
  unfold ideal_R. intros decide s0 st tr l t h st' o [H1 H2] E. simpl in E.
  inversion E; subst; clear E.
  destruct (decide (id_pending st ++ id_stored st) (EvH l t h)); simpl; auto.
Qed.
Lemma ideal_R_e : forall decide s0 st tr l e st' o, ideal_R s0 st tr ->
  a_ex (ideal_app decide) st l e = (st', o) ->
  ideal_R s0 st' (match o with OOk => EvE l e :: tr | _ => tr end).
Proof.
  unfold ideal_R. intros decide s0 st tr l e st' o [H1 H2] E. simpl in E.
  inversion E; subst; clear E.
  destruct (decide (id_pending st ++ id_stored st) (EvE l e)); simpl; auto.
Qed.

Theorem v2_counts_equal_stored : forall decide maxT s0 r, id_pending s0 = [] ->
  let res := handle_v2 (ideal_app decide) maxT s0 r in
  exists new,
    id_stored (r_state res) = new ++ id_stored s0 /\ id_pending (r_state res) = []
    /\ r_stats res = Some (count_f new, count_h new, count_e new)
    /\ Forall (fun e => valid_series (ev_labels e) = true) new
    /\ (r_status res = 500 -> new = [])
    /\ (r_status res = 204 -> forallb (series_ok (r2_syms r)) (r2_series r) = true).
Proof.
  intros decide maxT s0 r P0. unfold handle_v2.
  pose proof (v2_all_inv ideal (ideal_app decide) maxT (ideal_R s0)
                (ideal_R_f decide s0) (ideal_R_h decide s0) (ideal_R_e decide s0)
                (fun ls => valid_series ls = true) (fun _ H => H)
                (r2_syms r) (r2_series r) (mkAcc ideal s0 0 0 0 0 [])) as H.
  destruct (v2_all ideal (ideal_app decide) maxT (r2_syms r) (r2_series r) (mkAcc ideal s0 0 0 0 0 [])) as [a|st].
  - destruct H as (([R1 R2] & Hs & Hh & He & HF & Hb) & B & C).
    { unfold Inv, ideal_R; simpl. repeat split; auto. lia. }
    simpl. exists (ac_tr a). rewrite R1, R2. simpl.
    rewrite Hs, Hh, He. repeat split; auto.
    + intros H5. destruct (ac_bad a =? 0); discriminate.
    + intros H204. destruct (forallb (series_ok (r2_syms r)) (r2_series r)) eqn:E; [reflexivity|].
      specialize (C eq_refl). simpl in C. destruct (ac_bad a =? 0) eqn:E0; [|discriminate].
      apply Z.eqb_eq in E0. lia.
  - destruct H as [tr [R1 R2]].
    { unfold Inv, ideal_R; simpl. repeat split; auto. lia. }
    simpl. exists []. simpl. rewrite R2. repeat split; auto. intros; discriminate.
Qed.

Theorem v1_stored_iff_success : forall decide maxT s0 r, id_pending s0 = [] ->
  let res := handle_v1 (ideal_app decide) maxT s0 r in
  id_pending (r_state res) = [] /\
  (r_status res = 204 ->
     id_stored (r_state res) = rev (r_trace res) ++ id_stored s0
     /\ Forall (fun e => valid_series (ev_labels e) = true) (r_trace res))
  /\ (r_status res <> 204 -> id_stored (r_state res) = id_stored s0 /\ r_trace res = []).
Proof.
  intros decide maxT s0 r P0. unfold handle_v1.
  pose proof (v1_all_inv ideal (ideal_app decide) maxT (ideal_R s0)
                (ideal_R_f decide s0) (ideal_R_h decide s0) (ideal_R_e decide s0)
                (fun ls => valid_series ls = true) (fun _ H => H) r s0 []) as H.
  destruct (v1_all ideal (ideal_app decide) maxT r s0 []) as [[st tr]|[st o]].
  - destruct H as [[R1 R2] HF].
    { unfold Inv1, ideal_R. repeat split; auto. }
    simpl. split; [reflexivity|]. split.
    + intros _. rewrite R1, R2, rev_involutive. split; [reflexivity | apply Forall_rev; exact HF].
    + intros X; exfalso; apply X; reflexivity.
  - destruct H as [tr [R1 R2]].
    { unfold Inv1, ideal_R. repeat split; auto. }
    simpl. split; [reflexivity|]. split.
    + intros X. destruct o; discriminate X.
    + intros _. split; [exact R2 | reflexivity].
Qed.

(* ---------- success means everything asked for was acknowledged ---------- *)
Definition nonex (tr : list event) : list event :=
  filter (fun e => match e with EvE _ _ => false | _ => true end) tr.
Definition evs_f (l : labels) (ss : list (Z * Z)) : list event := map (fun x => EvF l (fst x) (snd x)) ss.
Definition evs_h (l : labels) (hs : list (Z * hist)) : list event := map (fun x => EvH l (fst x) (reduced (snd x))) hs.
Definition v1_wanted (r : list ts1) : list event :=
  flat_map (fun ts => let ls := sort_labels (t1_labels ts) in
                      if valid_series ls then evs_f ls (t1_samples ts) ++ evs_h ls (t1_hists ts) else []) r.

Section Success.
Variable St : Type.
Variable A : appender St.
Variable maxT : Z.

Lemma v1_samples_ok : forall l ss st tr st' tr', v1_samples St A maxT l ss st tr = inl (st', tr') ->
  tr' = rev (evs_f l ss) ++ tr.
Proof.
  induction ss as [|[t v] r IH]; intros st tr st' tr' H; simpl in H.
  - inversion H; reflexivity.
  - destruct (rw_append St A maxT st l t v) as [s1 o]. destruct o; try discriminate.
    apply IH in H. subst. simpl. rewrite <- app_assoc. reflexivity.
Qed.
Lemma v1_hists_ok : forall l hs st tr st' tr', v1_hists St A maxT l hs st tr = inl (st', tr') ->
  tr' = rev (evs_h l hs) ++ tr.
Proof.
  induction hs as [|[t h] r IH]; intros st tr st' tr' H; simpl in H.
  - inversion H; reflexivity.
  - destruct (rw_hist St A maxT st l t h) as [s1 o]. destruct o; try discriminate.
    apply IH in H. subst. simpl. rewrite <- app_assoc. reflexivity.
Qed.
Lemma v1_exs_nonex : forall l es st tr, nonex (snd (v1_exs St A maxT l es st tr)) = nonex tr.
Proof.
  induction es as [|e r IH]; intros st tr; simpl; auto.
  destruct (rw_ex St A maxT st l _) as [s1 o]. destruct o; rewrite IH; reflexivity.
Qed.
Lemma nonex_app : forall a b, nonex (a ++ b) = nonex a ++ nonex b.
Proof. intros; unfold nonex; apply filter_app. Qed.
Lemma nonex_rev_f : forall l ss, nonex (rev (evs_f l ss)) = rev (evs_f l ss).
Proof.
  intros l ss. unfold nonex. rewrite <- (rev_involutive (filter _ (rev (evs_f l ss)))).
  f_equal. induction ss as [|x r IH]; simpl; auto.
  rewrite filter_app, rev_app_distr. simpl. rewrite IH. reflexivity.
Qed.
Lemma nonex_rev_h : forall l hs, nonex (rev (evs_h l hs)) = rev (evs_h l hs).
Proof.
  intros l hs. unfold nonex. rewrite <- (rev_involutive (filter _ (rev (evs_h l hs)))).
  f_equal. induction hs as [|x r IH]; simpl; auto.
  rewrite filter_app, rev_app_distr. simpl. rewrite IH. reflexivity.
Qed.

Lemma v1_all_ok : forall tss st tr st' tr', v1_all St A maxT tss st tr = inl (st', tr') ->
  nonex tr' = rev (v1_wanted tss) ++ nonex tr.
Proof.
  induction tss as [|ts r IH]; intros st tr st' tr' H; simpl in H.
  - inversion H; reflexivity.
  - unfold v1_wanted; simpl. fold (v1_wanted r).
    destruct (valid_series (sort_labels (t1_labels ts))); simpl in H.
    2:{ apply IH in H. simpl. exact H. }
    destruct (v1_samples St A maxT _ (t1_samples ts) st tr) as [[st1 tr1]|e] eqn:E1; [|discriminate].
    pose proof (v1_exs_nonex (sort_labels (t1_labels ts)) (t1_exs ts) st1 tr1) as E2.
    destruct (v1_exs St A maxT _ (t1_exs ts) st1 tr1) as [st2 tr2]. simpl in E2.
    destruct (v1_hists St A maxT _ (t1_hists ts) st2 tr2) as [[st3 tr3]|e] eqn:E3; [|discriminate].
    apply IH in H. apply v1_samples_ok in E1. apply v1_hists_ok in E3. subst tr3 tr1.
    rewrite H, nonex_app, nonex_rev_h, E2, nonex_app, nonex_rev_f.
    rewrite rev_app_distr, rev_app_distr. rewrite <- !app_assoc. reflexivity.
Qed.
End Success.

Theorem v1_success_all_acknowledged : forall St (A : appender St) maxT st0 r,
  let res := handle_v1 A maxT st0 r in
  r_status res = 204 -> nonex (r_trace res) = v1_wanted r.
Proof.
  intros St A maxT st0 r. unfold handle_v1.
  destruct (v1_all St A maxT r st0 []) as [[st tr]|[st o]] eqn:E.
  - destruct (a_commit A st) as [st' ok]. destruct ok; simpl; [|discriminate].
    intros _. apply v1_all_ok in E. simpl in E. rewrite app_nil_r in E.
    unfold nonex in *. rewrite <- (rev_involutive (filter _ (rev tr))).
    rewrite <- (rev_involutive (v1_wanted r)). f_equal. rewrite <- E.
    clear. induction tr as [|x t IH]; simpl; auto.
    rewrite filter_app, rev_app_distr, IH. simpl. destruct x; reflexivity.
  - simpl. destruct o; discriminate.
Qed.

(* ---------- invalid series ---------- *)
Theorem v1_invalid_skipped : forall St (A : appender St) maxT st0 r,
  Forall (fun e => valid_series (ev_labels e) = true) (r_trace (handle_v1 A maxT st0 r)).
Proof.
  intros St A maxT st0 r. unfold handle_v1.
  pose proof (v1_all_inv St A maxT (fun _ _ => True) (fun _ _ _ _ _ _ _ _ _ => I)
                (fun _ _ _ _ _ _ _ _ _ => I) (fun _ _ _ _ _ _ _ _ => I)
                (fun ls => valid_series ls = true) (fun _ H => H) r st0 []) as H.
  destruct (v1_all St A maxT r st0 []) as [[st tr]|[st o]].
  - destruct H as [_ HF]. { split; auto. }
    destruct (a_commit A st) as [st' ok]. destruct ok; simpl; [apply Forall_rev; exact HF | constructor].
  - simpl. constructor.
Qed.

(* ---------- the two-phase head: witnesses ---------- *)
Definition w_syms : list str := [[]; metric_name; [109; 49]; [116]; [120]].   (* "", __name__, m1, t, x *)
Definition w_big : Z := 10000000000000.

(* 2.0: two samples of one series, the second older than the first: both acknowledged by Append,
   the second dropped by Commit *)
Definition w_req_ooo : req2 := mkR2 w_syms [mkTS2 [1; 2]%nat 0 0 [(2000, 1); (1990, 2)] [] []].
Lemma head_counts_refuted :
  let h := head_new true 1000 in
  let res := head_request w_big h (R2 w_req_ooo) in
  r_status res = 204 /\ r_stats res = Some (2, 0, 0) /\ r_fin res = FCommitted
  /\ head_floats (ha_head (r_state res)) - head_floats h = 1.
Proof. vm_compute. repeat split. Qed.

(* 2.0: exemplar storage disabled: AppendExemplar returns (0, nil), the exemplar is counted *)
Definition w_req_ex : req2 := mkR2 w_syms [mkTS2 [1; 2]%nat 0 0 [(2000, 1)] [] [mkE2 [3; 4]%nat 2001 1]].
Lemma head_exemplars_disabled_refuted :
  let h := head_new false 1000 in
  let res := head_request w_big h (R2 w_req_ex) in
  r_status res = 204 /\ r_stats res = Some (1, 0, 1) /\ head_exs (ha_head (r_state res)) = 0.
Proof. vm_compute. repeat split. Qed.

(* 2.0: two exemplars of one series, the second older: both counted, one stored *)
Definition w_req_ex2 : req2 :=
  mkR2 w_syms [mkTS2 [1; 2]%nat 0 0 [(2000, 1)] [] [mkE2 [3; 4]%nat 2011 1; mkE2 [3; 3]%nat 2001 2]].
Lemma head_exemplars_ooo_refuted :
  let h := head_new true 1000 in
  let res := head_request w_big h (R2 w_req_ex2) in
  r_status res = 204 /\ r_stats res = Some (1, 0, 2) /\ head_exs (ha_head (r_state res)) = 1.
Proof. vm_compute. repeat split. Qed.

(* 1.0: success although a sample of a valid series was dropped *)
Definition w_req_v1 : list ts1 := [mkTS1 [(metric_name, [109; 49])] [(2000, 1); (1990, 2)] [] []].
Lemma head_v1_success_refuted :
  let h := head_new true 1000 in
  let res := head_request w_big h (R1 w_req_v1) in
  r_status res = 204 /\ length (v1_wanted w_req_v1) = 2%nat
  /\ head_floats (ha_head (r_state res)) = 1.
Proof. vm_compute. repeat split. Qed.

(* the same two samples sent in two requests: the second request is rejected with 400 *)
Lemma head_two_requests_rejected :
  let h := head_new true 1000 in
  let r1 := head_request w_big h (R2 (mkR2 w_syms [mkTS2 [1; 2]%nat 0 0 [(2000, 1)] [] []])) in
  let r2 := head_request w_big (ha_head (r_state r1)) (R2 (mkR2 w_syms [mkTS2 [1; 2]%nat 0 0 [(1990, 2)] [] []])) in
  r_status r1 = 204 /\ r_stats r1 = Some (1, 0, 0) /\ r_status r2 = 400 /\ r_stats r2 = Some (0, 0, 0)
  /\ head_floats (ha_head (r_state r2)) = 1.
Proof. vm_compute. repeat split. Qed.

(* ---------- non-vacuity ---------- *)
(* an atomic storage that refuses a second sample at a timestamp it already holds *)
Definition dedup (stored : list event) (e : event) : outcome :=
  match e with
  | EvF l t _ => if existsb (fun x => match x with EvF l' t' _ => labels_eqb l l' && (t =? t') | _ => false end) stored
                 then OSoft else OOk
  | _ => OOk
  end.
Definition w_req_mixed : req2 :=
  mkR2 w_syms [mkTS2 [1; 2]%nat 0 0 [(10, 1); (10, 2); (20, 3)] [(30, mkH false 1 true 9 true)] [mkE2 [3; 4]%nat 11 1];
               mkTS2 [3; 4]%nat 0 0 [(10, 1)] [] []].       (* second series has no metric name *)
Lemma nonvacuous_partial_write :
  let res := handle_v2 (ideal_app dedup) w_big (mkIdeal [] []) w_req_mixed in
  r_status res = 400 /\ r_stats res = Some (2, 1, 1) /\ length (id_stored (r_state res)) = 4%nat.
Proof. vm_compute. repeat split. Qed.
Lemma nonvacuous_symbols :
  symbolize_labels new_table [(metric_name, [109; 49]); ([97], [109; 49])]
  = ([[]; metric_name; [109; 49]; [97]], [1; 2; 3; 2]%nat)
  /\ sorted_strict [([97], [109; 49]); (metric_name, [109; 49])] = false
  /\ sorted_strict [(metric_name, [109; 49]); ([97], [109; 49])] = true.
Proof. vm_compute. repeat split. Qed.

(* ---------- histogram codec ---------- *)
Lemma wire_f_id : forall v, v <> negzero -> wire_f v = v.
Proof. intros v H. unfold wire_f. destruct (v =? negzero) eqn:E; [apply Z.eqb_eq in E; contradiction | reflexivity]. Qed.

Definition wire_safe (h : ghist) : Prop := g_sum h <> negzero /\ g_zt h <> negzero.

Lemma codec_roundtrip_int : forall st ts h, g_float h = false -> wire_safe h ->
  let p := transmit (from_int st ts h) in
  to_int p = Some h /\ is_float_hist p = false /\ p_ts p = ts /\ p_st p = st.
Proof.
  intros st ts h F [S1 S2]. destruct h; simpl in *. subst.
  unfold to_int, transmit, from_int; simpl. rewrite (wire_f_id _ S1), (wire_f_id _ S2). auto.
Qed.

Lemma codec_roundtrip_float : forall st ts h, g_float h = true -> wire_safe h ->
  let p := transmit (from_float st ts h) in
  to_float p = h /\ to_int p = None /\ is_float_hist p = true /\ p_ts p = ts /\ p_st p = st.
Proof.
  intros st ts h F [S1 S2]. destruct h; simpl in *. subst.
  unfold to_float, to_int, transmit, from_float; simpl. rewrite (wire_f_id _ S1), (wire_f_id _ S2). auto.
Qed.

(* negative zero in a scalar double field does not survive *)
Definition w_negz_hist : ghist := mkGH true 0 0 0 0 0 negzero [] [] [] [] [].
Lemma codec_negzero_refuted :
  wire_f negzero <> negzero /\
  g_float w_negz_hist = true /\ to_float (transmit (from_float 0 0 w_negz_hist)) <> w_negz_hist.
Proof. split; [vm_compute; discriminate|]. split; [reflexivity|]. vm_compute. discriminate. Qed.

(* the float view of an integer histogram: bucket counts are the partial sums of the deltas
   (exactly, while they stay below 2^53 in absolute value) *)
Fixpoint psums (cur : Z) (ds : list Z) : list Z :=
  match ds with [] => [] | d :: r => (cur + d) :: psums (cur + d) r end.
Definition small (x : Z) : Prop := Z.abs x < 9007199254740992.
Lemma rnd53_small : forall x, small x -> rnd53 x = x.
Proof. intros x H. unfold rnd53. destruct (Z.abs x <? 9007199254740992) eqn:E; [reflexivity|]. apply Z.ltb_ge in E. unfold small in H. lia. Qed.
Lemma deltas_to_counts_exact : forall ds cur, Forall small ds -> Forall small (psums cur ds) ->
  deltas_to_counts cur ds = map bits_exact (psums cur ds).
Proof.
  induction ds as [|d r IH]; intros cur H1 H2; simpl; auto.
  inversion H1; subst. simpl in H2. inversion H2; subst.
  rewrite (rnd53_small d) by assumption. rewrite (rnd53_small (cur + d)) by assumption.
  f_equal. apply IH; assumption.
Qed.
Lemma int_to_float_view : forall st ts h, g_float h = false ->
  Forall small (g_pb h) -> Forall small (psums 0 (g_pb h)) ->
  Forall small (g_nb h) -> Forall small (psums 0 (g_nb h)) ->
  let f := to_float (transmit (from_int st ts h)) in
  g_float f = true /\ g_hint f = g_hint h /\ g_schema f = g_schema h /\ g_zt f = wire_f (g_zt h)
  /\ g_sum f = wire_f (g_sum h) /\ g_zc f = z2f (g_zc h) /\ g_count f = z2f (g_count h)
  /\ g_pspans f = g_pspans h /\ g_nspans f = g_nspans h /\ g_custom f = g_custom h
  /\ g_pb f = map bits_exact (psums 0 (g_pb h)) /\ g_nb f = map bits_exact (psums 0 (g_nb h)).
Proof.
  intros st ts h F P1 P2 N1 N2. destruct h; simpl in *. subst.
  unfold to_float, transmit, from_int; simpl.
  rewrite (deltas_to_counts_exact _ 0 P1 P2), (deltas_to_counts_exact _ 0 N1 N2).
  repeat split; reflexivity.
Qed.
Lemma nonvacuous_codec :
  let h := mkGH false 2 3 4562254508917369340 1 6 4617315517961601024 [(0, 2)] [2; 1] [(-1, 1)] [3] [] in
  wire_safe h /\ g_pb (to_float (transmit (from_int 7 1000 h))) = [4611686018427387904; 4613937818241073152]
  /\ z2f 9007199254740993 = 4845873199050653696 /\ z2f 18446744073709551615 = 4895412794951729152.
Proof. vm_compute. repeat split; discriminate. Qed.

Lemma codec_roundtrip : forall st ts h, wire_safe h ->
  (g_float h = false ->
     let p := transmit (from_int st ts h) in
     to_int p = Some h /\ is_float_hist p = false /\ p_ts p = ts /\ p_st p = st) /\
  (g_float h = true ->
     let p := transmit (from_float st ts h) in
     to_float p = h /\ to_int p = None /\ is_float_hist p = true /\ p_ts p = ts /\ p_st p = st).
Proof.
  intros st ts h S. split; intros F; [apply codec_roundtrip_int | apply codec_roundtrip_float]; assumption.
Qed.

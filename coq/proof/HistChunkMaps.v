(* proof/HistChunkMaps.v — from "good" insert lists to preserved bucket maps, for both kinds
   of bucket encoding; the theorem about expandSpansBothWays at the level of spans. *)
From Coq Require Import List ZArith Bool Lia.
From Verif Require Import model.HistChunk proof.HistChunkProofs proof.HistChunkIns proof.HistChunkDelta.
Import ListNotations.
Open Scope Z_scope.

(* two (spans, buckets) pairs describe the same histogram side: every absolute bucket index
   carries the same count (absent = 0) *)
Definition same_map (k : kind) (s1 : list span) (b1 : list Z) (s2 : list span) (b2 : list Z) : Prop :=
  forall i, lookup i (bucket_alist k s1 b1) = lookup i (bucket_alist k s2 b2).

Lemma abs_counts_length k l : length (abs_counts k l) = length l.
Proof. destruct k; simpl; [apply prefix_sums_length|reflexivity]. Qed.

(* a good insert list widens any bucket slice from the index list ix to M, keeping its map *)
Lemma good_insert k F M ix lo buckets :
  good 0 0 F M ix -> incr lo M -> incr lo ix -> incl ix M -> length buckets = length ix ->
  exists out, insert_go (is_deltas k) buckets F (Z.of_nat (length M)) = Ok out /\
              length out = length M /\
              abs_counts k out = lay M ix (abs_counts k buckets) /\
              forall i, lookup i (combine M (abs_counts k out)) = lookup i (combine ix (abs_counts k buckets)).
Proof.
  intros G HM Hix Hin Hlen.
  assert (A : forall va, length va = length ix ->
                insert_go false va F (Z.of_nat (length M)) = Ok (lay M ix va)).
  { intros va Hva. unfold insert_go. rewrite (G va 0 Hva). cbn [repeat app bind Z.to_nat].
    rewrite lay_length, Z.ltb_irrefl, Z.sub_diag. cbn [Z.to_nat repeat]. now rewrite app_nil_r. }
  destruct k; cbn [is_deltas abs_counts].
  - destruct (insert_go_deltas buckets F (Z.of_nat (length M)) (lay M ix (prefix_sums 0 buckets))) as (outd & E & P).
    + apply A. now rewrite prefix_sums_length.
    + now rewrite lay_length.
    + intros w Hw. rewrite (G (prefix_sums 0 buckets) 0) in Hw by (now rewrite prefix_sums_length).
      inversion Hw; subst. cbn [repeat app Z.to_nat]. now rewrite lay_length.
    + exists outd. split; [exact E|]. split; [|split; [exact P|]].
      * rewrite <- (prefix_sums_length 0 outd), P. apply lay_length.
      * intros i. rewrite P. apply (lay_lookup lo); auto. now rewrite prefix_sums_length.
  - exists (lay M ix buckets). split; [now apply A|]. split; [apply lay_length|]. split; [reflexivity|].
    intros i. now apply (lay_lookup lo).
Qed.

Lemma spans_of_len l : Forall (fun s => 0 <= s_len s) (spans_of l).
Proof.
  unfold spans_of. apply Forall_rev.
  assert (G : forall l st, Forall (fun s => 1 <= s_len s) (fst st) ->
                           Forall (fun s => 1 <= s_len s) (fst (fold_left add_bucket l st))).
  { clear l. induction l as [|b l IH]; intros st H; simpl; [exact H|]. apply IH.
    destruct st as [rs last]. unfold add_bucket. destruct rs as [|s r]; cbn [fst] in *.
    - constructor; [simpl; lia|constructor].
    - inversion H; subst. destruct (b - last - 1 =? 0); cbn [fst].
      + constructor; [simpl; lia|assumption].
      + constructor; [simpl; lia|assumption]. }
  eapply Forall_impl; [|apply G; constructor]. simpl; intros; lia.
Qed.

Lemma count_spans_of l : count_spans (spans_of l) = Z.of_nat (length l).
Proof.
  rewrite <- (idxs_from_length 0 (spans_of l) (spans_of_len l)).
  change (idxs_from 0 (spans_of l)) with (idxs (spans_of l)). now rewrite idxs_spans_of.
Qed.

Lemma wf_spans_len l : wf_spans l -> Forall (fun s => 0 <= s_len s) l.
Proof.
  destruct l as [|s r]; intros H; [constructor|]. destruct H as [H1 H2]. constructor; [assumption|].
  eapply Forall_impl; [|exact H2]. simpl; intros; lia.
Qed.

Lemma incr_min lo1 lo2 l : incr lo1 l -> incr (Z.min lo1 lo2) l.
Proof. apply incr_weaken. lia. Qed.

Lemma both_go_members fuel : forall ia ib z0 z1 z2 z3 F B M i,
  both_go fuel ia ib z0 z1 z2 z3 = Ok (F, B, M) -> In i M -> In i ia \/ In i ib.
Proof.
    induction fuel as [|f IH]; intros ia ib z0 z1 z2 z3 F B M i E Hin; [discriminate|].
    destruct ia as [|x ia']; destruct ib as [|y ib']; cbn [both_go] in E.
    + inversion E; subst. destruct Hin.
    + destruct (both_go f [] ib' z0 (z1 + 1) z2 z3) as [[[F' B'] M']| |] eqn:E'; cbn [bind] in E; try discriminate.
      inversion E; subst. destruct Hin as [->|Hin]; [right; now left|].
      destruct (IH _ _ _ _ _ _ _ _ _ _ E' Hin); [tauto|right; now right].
    + destruct (both_go f ia' [] z0 z1 z2 (z3 + 1)) as [[[F' B'] M']| |] eqn:E'; cbn [bind] in E; try discriminate.
      inversion E; subst. destruct Hin as [->|Hin]; [left; now left|].
      destruct (IH _ _ _ _ _ _ _ _ _ _ E' Hin); [left; now right|tauto].
    + destruct (x =? y); [|destruct (x <? y)].
      * destruct (both_go f ia' ib' (z0 + 1) 0 (z2 + 1) 0) as [[[F' B'] M']| |] eqn:E'; cbn [bind] in E; try discriminate.
        inversion E; subst. destruct Hin as [->|Hin]; [left; now left|].
        destruct (IH _ _ _ _ _ _ _ _ _ _ E' Hin); [left; now right|right; now right].
      * destruct (both_go f ia' (y :: ib') (z0 + 1) 0 z2 (z3 + 1)) as [[[F' B'] M']| |] eqn:E'; cbn [bind] in E; try discriminate.
        inversion E; subst. destruct Hin as [->|Hin]; [left; now left|].
        destruct (IH _ _ _ _ _ _ _ _ _ _ E' Hin); [left; now right|now right].
      * destruct (both_go f (x :: ia') ib' z0 (z1 + 1) (z2 + 1) 0) as [[[F' B'] M']| |] eqn:E'; cbn [bind] in E; try discriminate.
        inversion E; subst. destruct Hin as [->|Hin]; [right; now left|].
        destruct (IH _ _ _ _ _ _ _ _ _ _ E' Hin); [now left|right; now right].
Qed.

(* expandSpansBothWays: always terminates without panic; the forward inserts widen any bucket
   slice laid out on [a] to the merged spans and the backward inserts any slice laid out on [b],
   each keeping the bucket map; the merged spans cover exactly the buckets of a and of b *)
Theorem expand_both_correct a b :
  wf_spans a -> wf_spans b ->
  exists F B M,
    expand_both a b = Ok (F, B, M) /\
    (forall i, In i (idxs M) <-> In i (idxs a) \/ In i (idxs b)) /\
    (forall k buckets, Z.of_nat (length buckets) = count_spans a ->
       exists out, insert_go (is_deltas k) buckets F (count_spans M) = Ok out /\
                   Z.of_nat (length out) = count_spans M /\ same_map k M out a buckets) /\
    (forall k buckets, Z.of_nat (length buckets) = count_spans b ->
       exists out, insert_go (is_deltas k) buckets B (count_spans M) = Ok out /\
                   Z.of_nat (length out) = count_spans M /\ same_map k M out b buckets).
Proof.
  intros Ha Hb. unfold expand_both.
  destruct (both_go_ok (S (length (idxs a) + length (idxs b))) (idxs a) (idxs b) 0 0 0 0 ltac:(lia)) as [[[F B] M] E].
  rewrite E. cbn [bind]. exists F, B, (spans_of M). split; [reflexivity|].
  destruct (idxs_incr a Ha) as [la Hia], (idxs_incr b Hb) as [lb Hib].
  destruct (both_go_spec _ _ _ _ _ _ _ _ _ _ (Z.min la lb) E ltac:(lia) ltac:(lia))
    as (_ & _ & GF & GB & IM & IA & IB).
  { now apply incr_min. } { rewrite Z.min_comm. now apply incr_min. }
  rewrite idxs_spans_of, count_spans_of.
  assert (La : Z.of_nat (length (idxs a)) = count_spans a) by (apply idxs_from_length, wf_spans_len, Ha).
  assert (Lb : Z.of_nat (length (idxs b)) = count_spans b) by (apply idxs_from_length, wf_spans_len, Hb).
  split; [|split].
  - (* M holds exactly the buckets of a and b: by construction of both_go *)
    intros i. split; [apply (both_go_members _ _ _ _ _ _ _ _ _ _ i E)|intros [H|H]; auto].
  - intros k buckets Hlen.
    destruct (good_insert k F M (idxs a) (Z.min la lb) buckets GF IM) as (out & E1 & E2 & _ & E4); auto.
    { now apply incr_min. } { lia. }
    exists out. split; [exact E1|]. split; [lia|]. intros i. unfold bucket_alist. rewrite idxs_spans_of. apply E4.
  - intros k buckets Hlen.
    destruct (good_insert k B M (idxs b) (Z.min la lb) buckets GB IM) as (out & E1 & E2 & _ & E4); auto.
    { rewrite Z.min_comm. now apply incr_min. } { lia. }
    exists out. split; [exact E1|]. split; [lia|]. intros i. unfold bucket_alist. rewrite idxs_spans_of. apply E4.
Qed.

(* proof/Xor2Proofs.v — lemmas and proofs about the XOR2 part of model/Xor.v (C10). *)
From Coq Require Import List ZArith Lia Bool.
From Verif Require Import lib.Int64 lib.Bits model.Xor proof.XorProofs.
Import ListNotations.
Open Scope Z_scope.

(* ---- varbit ------------------------------------------------------------------------------------ *)

Lemma W64_U64 d : int64 d -> W64 (U64 d) = d.
Proof.
  rewrite int64_unfold. intros H. rewrite W64_eq, U64_eq. unfold wrap64, u64, two64.
  Z.div_mod_to_equations. lia.
Qed.

Lemma unsign_gt_mod sz d : 1 <= sz <= 63 -> - (2 ^ (sz - 1) - 1) <= d <= 2 ^ (sz - 1) ->
  unsign_gt sz (d mod 2 ^ sz) = d.
Proof.
  intros Hsz Hd. unfold unsign_gt.
  assert (Hp : 2 ^ sz = 2 * 2 ^ (sz - 1)).
  { replace sz with (1 + (sz - 1)) at 1 by lia. rewrite Z.pow_add_r by lia. reflexivity. }
  assert (Hpos : 0 < 2 ^ (sz - 1)) by (apply Z.pow_pos_nonneg; lia).
  assert (Hle : 2 ^ (sz - 1) <= 2 ^ 62) by (apply Z.pow_le_mono_r; lia).
  change (2 ^ 62) with 4611686018427387904 in Hle.
  set (p := 2 ^ (sz - 1)) in *. rewrite Hp.
  destruct (Z_lt_le_dec d 0) as [Hneg|Hnn].
  - assert (Hm : d mod (2 * p) = d + 2 * p).
    { rewrite <- (Z_mod_plus_full d 1 (2 * p)). replace (d + 1 * (2 * p)) with (d + 2 * p) by lia. apply Z.mod_small. lia. }
    rewrite Hm. replace (p <? d + 2 * p) with true by (symmetry; apply Z.ltb_lt; lia).
    replace (d + 2 * p - 2 * p) with d by lia. apply W64_U64. rewrite int64_unfold. lia.
  - rewrite Z.mod_small by lia. replace (p <? d) with false by (symmetry; apply Z.ltb_ge; lia). reflexivity.
Qed.

Transparent put_bits get_bits.

Lemma read_ones_false n r : read_ones (S n) (false :: r) = Some (0, r).
Proof. reflexivity. Qed.

Lemma varbit_rt x r : int64 x -> get_varbit (put_varbit x ++ r) = Some (x, r).
Proof.
  intros Hx. unfold put_varbit.
  destruct (Z.eqb_spec x 0) as [->|Hnz]; [reflexivity|].
  destruct (bitRange x 3) eqn:H3.
  { apply bitRange_spec in H3. unfold get_varbit. cbn [app read_ones Z.eqb Z.add Pos.add].
    cbn [Z.to_nat Pos.to_nat Pos.iter_op Nat.add]. rewrite get_put_nat.
    change (Z.of_nat 3) with 3. rewrite unsign_gt_mod by (try exact H3; lia). reflexivity. }
  destruct (bitRange x 6) eqn:H6.
  { apply bitRange_spec in H6. unfold get_varbit. cbn [app read_ones Z.eqb Z.add Pos.add Pos.succ].
    cbn [Z.to_nat Pos.to_nat Pos.iter_op Nat.add]. rewrite get_put_nat.
    change (Z.of_nat 6) with 6. rewrite unsign_gt_mod by (try exact H6; lia). reflexivity. }
  destruct (bitRange x 9) eqn:H9.
  { apply bitRange_spec in H9. unfold get_varbit. cbn [app read_ones Z.eqb Z.add Pos.add Pos.succ].
    cbn [Z.to_nat Pos.to_nat Pos.iter_op Nat.add]. rewrite get_put_nat.
    change (Z.of_nat 9) with 9. rewrite unsign_gt_mod by (try exact H9; lia). reflexivity. }
  destruct (bitRange x 12) eqn:H12.
  { apply bitRange_spec in H12. unfold get_varbit. cbn [app read_ones Z.eqb Z.add Pos.add Pos.succ].
    cbn [Z.to_nat Pos.to_nat Pos.iter_op Nat.add]. rewrite get_put_nat.
    change (Z.of_nat 12) with 12. rewrite unsign_gt_mod by (try exact H12; lia). reflexivity. }
  destruct (bitRange x 18) eqn:H18.
  { apply bitRange_spec in H18. unfold get_varbit. cbn [app read_ones Z.eqb Z.add Pos.add Pos.succ].
    cbn [Z.to_nat Pos.to_nat Pos.iter_op Nat.add]. rewrite get_put_nat.
    change (Z.of_nat 18) with 18. rewrite unsign_gt_mod by (try exact H18; lia). reflexivity. }
  destruct (bitRange x 25) eqn:H25.
  { apply bitRange_spec in H25. unfold get_varbit. cbn [app read_ones Z.eqb Z.add Pos.add Pos.succ].
    cbn [Z.to_nat Pos.to_nat Pos.iter_op Nat.add]. rewrite get_put_nat.
    change (Z.of_nat 25) with 25. rewrite unsign_gt_mod by (try exact H25; lia). reflexivity. }
  destruct (bitRange x 56) eqn:H56.
  { apply bitRange_spec in H56. unfold get_varbit. cbn [app read_ones Z.eqb Z.add Pos.add Pos.succ].
    cbn [Z.to_nat Pos.to_nat Pos.iter_op Nat.add]. rewrite get_put_nat.
    change (Z.of_nat 56) with 56. rewrite unsign_gt_mod by (try exact H56; lia). reflexivity. }
  unfold get_varbit. cbn [app read_ones Z.eqb Z.add Pos.add Pos.succ].
  rewrite get_put_nat. change (Z.of_nat 64) with 64. rewrite W64_mod64 by exact Hx. reflexivity.
Qed.

(* ---- values ------------------------------------------------------------------------------------- *)

Lemma read_reuse_rt base delta l t r :
  0 < delta < 2 ^ 64 -> wf_window l t -> l <= lz64 delta -> t <= tz64 delta ->
  read_reuse_window base l t (put_bits (Z.to_nat (64 - l - t)) (Z.shiftr delta t) ++ r)
  = Some (Z.lxor base delta, r).
Proof.
  intros Hd [Hw1 [Hw2 Hw3]] Hl Ht. unfold read_reuse_window.
  replace ((64 - l - t) mod 256) with (64 - l - t) by (symmetry; apply Z.mod_small; lia).
  rewrite get_put_nat, pow2_to_nat by lia.
  pose proof (shiftr_fits delta l t Hd ltac:(lia) ltac:(lia)) as Hfit.
  rewrite Z.mod_small by exact Hfit.
  rewrite shiftr_shiftl_tz by lia. rewrite U64_id by (unfold is_u64; change 18446744073709551616 with (2 ^ 64); lia).
  reflexivity.
Qed.

Lemma read_new_rt base delta l t r :
  0 < delta < 2 ^ 64 -> wf_window l t -> l <= lz64 delta -> t <= tz64 delta ->
  read_new_window base (put_bits 5 l ++ put_bits 6 (64 - l - t) ++
                        put_bits (Z.to_nat (64 - l - t)) (Z.shiftr delta t) ++ r)
  = Some (Z.lxor base delta, l, t, r).
Proof.
  intros Hd [Hw1 [Hw2 Hw3]] Hl Ht. unfold read_new_window.
  rewrite get_put_nat. change (2 ^ Z.of_nat 5) with 32. rewrite (Z.mod_small l 32) by lia.
  rewrite get_put_nat. change (2 ^ Z.of_nat 6) with 64.
  assert (Hsig : 1 <= 64 - l - t <= 64) by lia.
  assert (Hmb : (if (64 - l - t) mod 64 =? 0 then 64 else (64 - l - t) mod 64) = 64 - l - t).
  { destruct (Z.eq_dec (64 - l - t) 64) as [He|Hne].
    - rewrite He. reflexivity.
    - rewrite Z.mod_small by lia. destruct (Z.eqb_spec (64 - l - t) 0); lia. }
  rewrite Hmb.
  replace ((64 - l - (64 - l - t)) mod 256) with t by (rewrite Z.mod_small; lia).
  rewrite get_put_nat, pow2_to_nat by lia.
  pose proof (shiftr_fits delta l t Hd ltac:(lia) ltac:(lia)) as Hfit.
  rewrite Z.mod_small by exact Hfit.
  rewrite shiftr_shiftl_tz by lia. rewrite U64_id by (unfold is_u64; change 18446744073709551616 with (2 ^ 64); lia).
  reflexivity.
Qed.

Lemma x2_window_spec delta lead trail il it_ :
  0 < delta < 2 ^ 64 -> win_rel lead trail il it_ -> wf_window il it_ ->
  wf_window (snd (fst (x2_window delta lead trail))) (snd (x2_window delta lead trail)) /\
  snd (fst (x2_window delta lead trail)) <= lz64 delta /\
  snd (x2_window delta lead trail) <= tz64 delta /\
  (fst (fst (x2_window delta lead trail)) = true ->
     snd (fst (x2_window delta lead trail)) = il /\ snd (x2_window delta lead trail) = it_).
Proof.
  intros Hd Hrel Hwf. unfold x2_window.
  destruct (clamp_lead_bound delta Hd) as [Hcl Hcl2].
  destruct (tz64_bound delta Hd) as [Htz Hsum].
  destruct (lz64_bound delta Hd) as [Hlz _].
  destruct (negb (lead =? 255) && (lead <=? clamp_lead (lz64 delta)) && (trail <=? tz64 delta)) eqn:Hreuse.
  - apply andb_true_iff in Hreuse. destruct Hreuse as [Hr1 Hr3]. apply andb_true_iff in Hr1. destruct Hr1 as [Hr1 Hr2].
    apply negb_true_iff, Z.eqb_neq in Hr1. apply Z.leb_le in Hr2, Hr3.
    destruct Hrel as [Hff|[Hl Ht]]; [contradiction|]. subst lead trail. cbn [fst snd].
    destruct Hwf as [Hw1 [Hw2 Hw3]]. repeat split; lia.
  - cbn [fst snd]. repeat split; try lia.
Qed.

Definition newbase (base v : Z) : Z := if is_stale v then base else v.

(* what a value decoder returns: value, baseline, window *)
Definition x2it_with (it : x2it) (base l t : Z) : Prop := j_base it = base /\ j_lead it = l /\ j_trail it = t.

Lemma lxor_base base v : Z.lxor base (Z.lxor v base) = v.
Proof. apply lxor_cancel. Qed.

(* writeVDeltaKnownNonZero / decodeValueKnownNonZero *)
Lemma x2_vdelta_nz_rt it base v lead trail :
  is_u64 base -> is_u64 v -> v <> base -> j_base it = base ->
  win_rel lead trail (j_lead it) (j_trail it) -> wf_window (j_lead it) (j_trail it) ->
  exists l' t',
    (forall r, x2_decode_value_nz it (fst (fst (x2_write_vdelta_nz (Z.lxor v base) lead trail)) ++ r)
               = Some (v, v, l', t', r)) /\
    win_rel (snd (fst (x2_write_vdelta_nz (Z.lxor v base) lead trail)))
            (snd (x2_write_vdelta_nz (Z.lxor v base) lead trail)) l' t' /\
    wf_window l' t' /\
    (snd (fst (x2_write_vdelta_nz (Z.lxor v base) lead trail)) = 255 ->
       lead = 255 /\ l' = j_lead it /\ t' = j_trail it).
Proof.
  intros Hb Hv Hne Hbase Hrel Hwf.
  pose proof (lxor_u64 v base Hv Hb) as Hd.
  assert (Hd' : 0 < Z.lxor v base < 2 ^ 64).
  { unfold is_u64 in Hd. change (2 ^ 64) with 18446744073709551616.
    assert (Z.lxor v base <> 0) by (intros Hc; apply Z.lxor_eq in Hc; contradiction). lia. }
  set (delta := Z.lxor v base) in *.
  destruct (x2_window_spec delta lead trail _ _ Hd' Hrel Hwf) as [Hw [Hl [Ht Hre]]].
  unfold x2_write_vdelta_nz.
  destruct (x2_window delta lead trail) as [[reuse l] t] eqn:Hwin. cbn [fst snd] in *.
  exists l, t. split; [|split; [right; split; reflexivity|split; [exact Hw|destruct Hw as [Hw' _]; intros Hc; lia]]].
  intros r. unfold x2_decode_value_nz, x2_window_bits. destruct reuse.
  - destruct (Hre eq_refl) as [El Et]. cbn [app get_bit]. unfold x2_read_reuse.
    rewrite <- El, <- Et, Hbase. rewrite read_reuse_rt by assumption.
    unfold delta. rewrite lxor_base. reflexivity.
  - cbn [app get_bit]. unfold x2_read_new. rewrite Hbase. rewrite <- !app_assoc.
    rewrite read_new_rt by assumption. unfold delta. rewrite lxor_base. reflexivity.
Qed.

Lemma is_stale_true v : is_stale v = true -> v = staleNaN.
Proof. unfold is_stale. apply Z.eqb_eq. Qed.

(* writeVDelta / decodeValue *)
Lemma x2_vdelta_rt it base v lead trail :
  is_u64 base -> is_u64 v -> j_base it = base ->
  win_rel lead trail (j_lead it) (j_trail it) -> wf_window (j_lead it) (j_trail it) ->
  exists l' t',
    (forall r, x2_decode_value it (fst (fst (x2_write_vdelta base v lead trail)) ++ r)
               = Some (v, newbase base v, l', t', r)) /\
    win_rel (snd (fst (x2_write_vdelta base v lead trail))) (snd (x2_write_vdelta base v lead trail)) l' t' /\
    wf_window l' t' /\
    (snd (fst (x2_write_vdelta base v lead trail)) = 255 -> lead = 255 /\ l' = j_lead it /\ t' = j_trail it).
Proof.
  intros Hb Hv Hbase Hrel Hwf. unfold x2_write_vdelta, newbase.
  destruct (is_stale v) eqn:Hst.
  { apply is_stale_true in Hst. subst v. exists (j_lead it), (j_trail it). cbn [fst snd].
    split; [|split; [assumption|split; [assumption|intros Hc; auto]]]. intros r. unfold x2_decode_value. cbn [app get_bit]. rewrite Hbase. reflexivity. }
  destruct (Z.eqb_spec (Z.lxor v base) 0) as [Hz|Hnz].
  { apply Z.lxor_eq in Hz. subst v. exists (j_lead it), (j_trail it). cbn [fst snd].
    split; [|split; [assumption|split; [assumption|intros Hc; auto]]]. intros r. unfold x2_decode_value. cbn [app get_bit]. rewrite Hbase. reflexivity. }
  pose proof (lxor_u64 v base Hv Hb) as Hd.
  assert (Hd' : 0 < Z.lxor v base < 2 ^ 64).
  { unfold is_u64 in Hd. change (2 ^ 64) with 18446744073709551616. lia. }
  set (delta := Z.lxor v base) in *.
  destruct (x2_window_spec delta lead trail _ _ Hd' Hrel Hwf) as [Hw [Hl [Ht Hre]]].
  destruct (x2_window delta lead trail) as [[reuse l] t] eqn:Hwin. cbn [fst snd] in *.
  exists l, t. split; [|split; [right; split; reflexivity|split; [exact Hw|destruct Hw as [Hw' _]; intros Hc; lia]]].
  intros r. unfold x2_decode_value, x2_window_bits. destruct reuse.
  - destruct (Hre eq_refl) as [El Et]. cbn [app get_bit]. unfold x2_read_reuse.
    rewrite <- El, <- Et, Hbase. rewrite read_reuse_rt by assumption.
    unfold delta. rewrite lxor_base. reflexivity.
  - cbn [app get_bit]. unfold x2_read_new. rewrite Hbase. rewrite <- !app_assoc.
    rewrite read_new_rt by assumption. unfold delta. rewrite lxor_base. reflexivity.
Qed.

(* ---- the joint timestamp/value encoding of samples >= 2 ----------------------------------------- *)

Lemma U64_W64 x : is_u64 x -> U64 (W64 x) = x.
Proof.
  unfold is_u64. intros H. rewrite W64_eq, U64_eq. unfold wrap64, u64, two64. Z.div_mod_to_equations. lia.
Qed.

Lemma sign13 d : -4096 <= d <= 4095 ->
  W64 (if (13 <? 64) && (2 ^ (13 - 1) <=? d mod 2 ^ 13) then U64 (d mod 2 ^ 13 - 2 ^ 13) else d mod 2 ^ 13) = d.
Proof.
  intros H. change (13 <? 64) with true. change (2 ^ (13 - 1)) with 4096. change (2 ^ 13) with 8192. cbn [andb].
  destruct (Z.leb_spec 4096 (d mod 8192)).
  - rewrite U64_eq, W64_eq. unfold wrap64, u64, two64. Z.div_mod_to_equations. lia.
  - rewrite W64_eq. unfold wrap64, two64. Z.div_mod_to_equations. lia.
Qed.

Lemma sign20 d : -524288 <= d <= 524287 ->
  W64 (if (20 <? 64) && (2 ^ (20 - 1) <=? d mod 2 ^ 20) then U64 (d mod 2 ^ 20 - 2 ^ 20) else d mod 2 ^ 20) = d.
Proof.
  intros H. change (20 <? 64) with true. change (2 ^ (20 - 1)) with 524288. change (2 ^ 20) with 1048576. cbn [andb].
  destruct (Z.leb_spec 524288 (d mod 1048576)).
  - rewrite U64_eq, W64_eq. unfold wrap64, u64, two64. Z.div_mod_to_equations. lia.
  - rewrite W64_eq. unfold wrap64, two64. Z.div_mod_to_equations. lia.
Qed.

Lemma x2_joint_rt it base v lead trail t :
  int64 (j_t it) -> int64 t -> is_u64 (j_tDelta it) -> is_u64 base -> is_u64 v -> j_base it = base ->
  win_rel lead trail (j_lead it) (j_trail it) -> wf_window (j_lead it) (j_trail it) ->
  forall tD dod, tD = U64 (t - j_t it) -> dod = W64 (tD - j_tDelta it) ->
  exists l' t',
    (forall r, x2_read_joint it (fst (fst (x2_encode_joint dod base v lead trail)) ++ r)
               = Some (tD, t, v, newbase base v, l', t', r)) /\
    win_rel (snd (fst (x2_encode_joint dod base v lead trail))) (snd (x2_encode_joint dod base v lead trail)) l' t' /\
    wf_window l' t' /\
    (snd (fst (x2_encode_joint dod base v lead trail)) = 255 -> lead = 255 /\ l' = j_lead it /\ t' = j_trail it).
Proof.
  intros Ht0 Ht Htd Hb Hv Hbase Hrel Hwf tD dod EtD Edod.
  assert (HtD : is_u64 tD) by (rewrite EtD; apply U64_range).
  assert (Hrt : U64 (W64 (j_tDelta it) + dod) = tD) by (rewrite Edod; apply dod_rt; assumption).
  assert (Htt : W64 (j_t it + W64 tD) = t) by (rewrite EtD; apply ts_delta_rt; assumption).
  assert (Hdod : int64 dod) by (rewrite Edod; apply W64_range).
  clear EtD Edod.
  unfold x2_encode_joint.
  destruct (Z.eqb_spec dod 0) as [H0|Hn0].
  { (* dod = 0 *)
    assert (HtD0 : tD = j_tDelta it).
    { rewrite H0, Z.add_0_r in Hrt. rewrite U64_W64 in Hrt by exact Htd. congruence. }
    destruct (is_stale v) eqn:Hst.
    { apply is_stale_true in Hst. exists (j_lead it), (j_trail it). cbn [fst snd].
      split; [|split; [assumption|split; [assumption|intros Hc; auto]]]. intros r. unfold x2_read_joint. cbn [app read_ones Z.eqb Z.add Pos.add Pos.succ].
      rewrite <- HtD0, Htt. unfold newbase. subst v. cbn. rewrite Hbase. reflexivity. }
    destruct (Z.eqb_spec (Z.lxor v base) 0) as [Hz|Hnz].
    { apply Z.lxor_eq in Hz. exists (j_lead it), (j_trail it). cbn [fst snd].
      split; [|split; [assumption|split; [assumption|intros Hc; auto]]]. intros r. unfold x2_read_joint. cbn [app read_ones Z.eqb].
      rewrite <- HtD0, Htt. unfold newbase. rewrite Hst, Hbase, Hz. reflexivity. }
    assert (Hne : v <> base) by (intros Hc; apply Hnz; rewrite Hc; apply Z.lxor_nilpotent).
    destruct (x2_vdelta_nz_rt it base v lead trail Hb Hv Hne Hbase Hrel Hwf) as [l' [t' [Hrd [Hrel' [Hwf' Hdet]]]]].
    destruct (x2_write_vdelta_nz (Z.lxor v base) lead trail) as [[b l] tr] eqn:Hw. cbn [fst snd] in *.
    exists l', t'. split; [|split; [assumption|split; [assumption|exact Hdet]]]. intros r. unfold x2_read_joint.
    cbn [app read_ones Z.eqb Z.add Pos.add Pos.succ]. rewrite Hrd.
    rewrite <- HtD0, Htt. unfold newbase. rewrite Hst. reflexivity. }
  (* dod <> 0 *)
  assert (Hvalue : exists l' t' vb lw tw,
    (if v =? base then ([false], lead, trail) else x2_write_vdelta base v lead trail) = (vb, lw, tw) /\
    (forall r, x2_decode_value it (vb ++ r) = Some (v, newbase base v, l', t', r)) /\
    win_rel lw tw l' t' /\ wf_window l' t' /\ (lw = 255 -> lead = 255 /\ l' = j_lead it /\ t' = j_trail it)).
  { destruct (Z.eqb_spec v base) as [He|Hne].
    - exists (j_lead it), (j_trail it), [false], lead, trail. split; [reflexivity|]. split; [|split; [assumption|split; [assumption|intros Hc; auto]]].
      intros r. unfold x2_decode_value. cbn [app get_bit]. rewrite Hbase. unfold newbase. rewrite He.
      destruct (is_stale base); reflexivity.
    - destruct (x2_vdelta_rt it base v lead trail Hb Hv Hbase Hrel Hwf) as [l' [t' [Hrd [Hrel' [Hwf' Hdet]]]]].
      destruct (x2_write_vdelta base v lead trail) as [[vb lw] tw]. cbn [fst snd] in *.
      exists l', t', vb, lw, tw. split; [reflexivity|]. split; [exact Hrd|]. split; [assumption|split; assumption]. }
  destruct Hvalue as [l' [t' [vb [lw [tw [Hveq [Hvrd [Hvrel [Hvwf Hvdet]]]]]]]]].
  assert (Hshape : forall tb, 
     (if v =? base then (tb ++ [false], lead, trail)
      else let '(b, l, t0) := x2_write_vdelta base v lead trail in (tb ++ b, l, t0)) = (tb ++ vb, lw, tw)).
  { intros tb. destruct (v =? base).
    - injection Hveq as E1 E2 E3. subst. reflexivity.
    - rewrite Hveq. reflexivity. }
  rewrite Hshape. cbn [fst snd].
  exists l', t'. split; [|split; [assumption|split; assumption]]. intros r. unfold x2_read_joint.
  destruct ((-4096 <=? dod) && (dod <=? 4095)) eqn:H13.
  { apply andb_true_iff in H13. destruct H13 as [Ha Hb']. apply Z.leb_le in Ha, Hb'.
    cbn [app read_ones Z.eqb Z.add Pos.add Pos.succ]. unfold x2_read_dod.
    rewrite <- !app_assoc. change (Z.to_nat 13) with 13%nat. rewrite get_put_nat. change (Z.of_nat 13) with 13.
    rewrite sign13 by lia. rewrite Hrt, Htt, Hvrd. reflexivity. }
  destruct ((-524288 <=? dod) && (dod <=? 524287)) eqn:H20.
  { apply andb_true_iff in H20. destruct H20 as [Ha Hb']. apply Z.leb_le in Ha, Hb'.
    cbn [app read_ones Z.eqb Z.add Pos.add Pos.succ]. unfold x2_read_dod.
    rewrite <- !app_assoc. change (Z.to_nat 20) with 20%nat. rewrite get_put_nat. change (Z.of_nat 20) with 20.
    rewrite sign20 by lia. rewrite Hrt, Htt, Hvrd. reflexivity. }
  cbn [app read_ones Z.eqb Z.add Pos.add Pos.succ]. unfold x2_read_dod.
  rewrite <- !app_assoc. change (Z.to_nat 64) with 64%nat. rewrite get_put_nat. change (Z.of_nat 64) with 64.
  change (64 <? 64) with false. rewrite andb_false_l. cbv iota. rewrite W64_mod64 by exact Hdod.
  rewrite Hrt, Htt, Hvrd. reflexivity.
Qed.

(* ---- the ST header: appender-side invariants ---------------------------------------------------- *)

Lemma lor128 n : 0 <= n < 128 -> Z.lor 128 n = 128 + n.
Proof.
  intros H.
  assert (Hall : forallb (fun k => Z.lor 128 (Z.of_nat k) =? 128 + Z.of_nat k) (seq 0 128) = true) by (vm_compute; reflexivity).
  rewrite forallb_forall in Hall. specialize (Hall (Z.to_nat n)).
  rewrite Z2Nat.id in Hall by lia. apply Z.eqb_eq, Hall. apply in_seq. lia.
Qed.

Definition hdr_of (a : x2app) : Z := (if b_fsk a then 128 else 0) + b_fsco a.

Definition HdrInv (a : x2app) (hdr : Z) : Prop :=
  hdr = hdr_of a /\ 0 <= b_fsco a <= 127 /\ (b_fsco a = 0 -> b_num a <= 127) /\
  (0 < b_fsco a -> b_fsco a < b_num a) /\ (b_num a = 0 -> b_fsk a = false) /\ 0 <= b_num a.

(* what the final header can still become, seen from an intermediate appender state *)
Definition Fut (a aF : x2app) : Prop :=
  b_num a <= b_num aF /\ (1 <= b_num a -> b_fsk aF = b_fsk a) /\
  (0 < b_fsco a -> b_fsco aF = b_fsco a) /\
  (b_fsco a = 0 -> b_fsco aF = 0 \/ b_num a <= b_fsco aF).

Lemma Fut_refl a : Fut a a.
Proof. unfold Fut. repeat split; try lia; auto. Qed.

Lemma Fut_trans a b c : Fut a b -> Fut b c -> 0 <= b_fsco b -> Fut a c.
Proof.
  intros [A1 [A2 [A3 A4]]] [B1 [B2 [B3 B4]]] Hb. unfold Fut.
  split; [lia|]. split; [|split].
  - intros H. rewrite B2 by lia. apply A2. exact H.
  - intros H. rewrite B3 by (rewrite A3; lia). apply A3. exact H.
  - intros H. destruct (A4 H) as [E|E].
    + destruct (B4 E) as [F|F]; [left; exact F|right; lia].
    + destruct (Z.eq_dec (b_fsco b) 0) as [Z0|NZ].
      * destruct (B4 Z0) as [F|F]; [left; exact F|right; lia].
      * right. rewrite B3 by lia. exact E.
Qed.

Lemma x2_append_hdr a hdr st t v b a' hdr' :
  HdrInv a hdr -> x2_append a hdr st t v = Some (b, a', hdr') ->
  HdrInv a' hdr' /\ Fut a a' /\ b_num a' = b_num a + 1.
Proof.
  intros [Hh [Hf [Hf0 [Hf1 [Hk0 Hn0]]]]] Happ. unfold x2_append in Happ.
  destruct (Z.eqb_spec (b_num a) 0) as [E0|N0].
  { assert (Hfs : b_fsco a = 0) by lia. specialize (Hk0 E0).
    injection Happ as Hb Ha Hhd. subst b a' hdr'. unfold HdrInv, Fut, hdr_of in *. cbn.
    rewrite Hk0, Hfs in *. destruct (st =? 0); cbn; repeat split; try lia; auto. }
  destruct (Z.eqb_spec (b_num a) 1) as [E1|N1].
  { assert (Hfs : b_fsco a = 0) by lia.
    destruct (x2_write_vdelta (b_v a) v (b_lead a) (b_trail a)) as [[vb l] tr].
    destruct (st =? b_st a).
    - injection Happ as Hb Ha Hhd. subst b a' hdr'. unfold HdrInv, Fut, hdr_of in *. cbn.
      rewrite Hfs in *. repeat split; try lia; auto.
    - injection Happ as Hb Ha Hhd. subst b a' hdr'. unfold HdrInv, Fut, hdr_of, set_fsco_hdr in *. cbn.
      rewrite Hfs in *. subst hdr. destruct (b_fsk a); cbn; repeat split; try lia; auto. }
  destruct (Z.eqb_spec (b_num a) 65535) as [E2|N2]; [discriminate|].
  destruct (x2_encode_joint (W64 (U64 (t - b_t a) - b_tDelta a)) (b_v a) v (b_lead a) (b_trail a)) as [[jb l] tr].
  destruct ((b_fsco a =? 0) && (st =? b_st a) && negb (b_num a =? 127)) eqn:HA.
  { apply andb_true_iff in HA. destruct HA as [HA1 HA3]. apply andb_true_iff in HA1. destruct HA1 as [HA1 HA2].
    apply Z.eqb_eq in HA1. apply negb_true_iff, Z.eqb_neq in HA3.
    injection Happ as Hb Ha Hhd. subst b a' hdr'. unfold HdrInv, Fut, hdr_of in *. cbn.
    repeat split; try lia; auto. }
  destruct (Z.ltb_spec 0 (b_fsco a)) as [HB|HC].
  { injection Happ as Hb Ha Hhd. subst b a' hdr'. unfold HdrInv, Fut, hdr_of in *. cbn.
    repeat split; try lia; auto. }
  assert (Hfs : b_fsco a = 0) by lia. specialize (Hf0 Hfs).
  injection Happ as Hb Ha Hhd. subst b a' hdr'. unfold HdrInv, Fut, hdr_of, set_fsco_hdr in *. cbn.
  replace (b_num a <=? 127) with true by (symmetry; apply Z.leb_le; lia).
  rewrite Hfs in *. subst hdr. destruct (b_fsk a); cbn [Z.add].
  - rewrite lor128 by lia. repeat split; try lia; auto.
  - rewrite Z.lor_0_l. repeat split; try lia; auto.
Qed.

(* ---- one Append against one Next (XOR2) ---------------------------------------------------------- *)

Lemma st_rt t st : int64 t -> int64 st -> W64 (t - W64 (t - st)) = st.
Proof.
  rewrite !int64_unfold. intros H1 H2. rewrite !W64_eq. unfold wrap64, two64. Z.div_mod_to_equations. lia.
Qed.

Lemma stdiff_rt sd0 nsd : int64 sd0 -> int64 nsd -> W64 (sd0 + W64 (nsd - sd0)) = nsd.
Proof.
  rewrite !int64_unfold. intros H1 H2. rewrite !W64_eq. unfold wrap64, two64. Z.div_mod_to_equations. lia.
Qed.

Definition wf_sample2 (s : sample) : Prop := int64 (s_st s) /\ int64 (s_t s) /\ is_u64 (s_v s).

Definition wf_it2 (it : x2it) : Prop :=
  int64 (j_st it) /\ int64 (j_t it) /\ is_u64 (j_base it) /\ is_u64 (j_tDelta it) /\ int64 (j_stDiff it) /\
  wf_window (j_lead it) (j_trail it).

(* simulation relation: appender [a] on a chunk with b_num a samples, iterator [it] that has read
   exactly those samples but was created over the FINAL chunk, i.e. knows the final header
   (the header of the final appender state aF) *)
Definition Inv2 (aF a : x2app) (it : x2it) : Prop :=
  j_num it = b_num a /\ b_st a = j_st it /\ (1 <= b_num a -> b_t a = j_t it) /\ b_v a = j_base it /\
  b_tDelta a = j_tDelta it /\ b_stDiff a = j_stDiff it /\
  win_rel (b_lead a) (b_trail a) (j_lead it) (j_trail it) /\ wf_it2 it /\
  j_fsk it = b_fsk aF /\ j_fsco it = b_fsco aF /\
  (b_num a = 0 -> j_tDelta it = 0 /\ j_st it = 0) /\ (b_num a <= 1 -> j_stDiff it = 0) /\
  (b_lead a = 255 -> j_lead it = 0 /\ j_trail it = 0).

Lemma newbase_u64 base v : is_u64 base -> is_u64 v -> is_u64 (newbase base v).
Proof. intros. unfold newbase. destruct (is_stale v); assumption. Qed.

Lemma put_uvarint_nonempty x : put_uvarint x <> [].
Proof. unfold put_uvarint. cbn [uvarint_bytes]. destruct (x <? 128); discriminate. Qed.

Lemma bytes_bits_nonempty l r : l <> [] -> bytes_bits l ++ r <> [].
Proof.
  destruct l as [|b l]; [congruence|]. intros _. rewrite bytes_bits_cons.
  Transparent put_bits. cbn [put_bits app]. discriminate.
Qed.

Opaque put_bits get_bits.

Ltac fin2 :=
  first [ assumption | reflexivity | lia | apply U64_range | apply W64_range
        | (apply newbase_u64; assumption)
        | (unfold is_u64, int64, minInt64, maxInt64 in *; lia)
        | (left; reflexivity) | (intros; reflexivity) ].

Lemma x2_step aF a hdr it st t v b a' hdr' :
  Inv2 aF a it -> HdrInv a hdr -> int64 st -> int64 t -> is_u64 v ->
  x2_append a hdr st t v = Some (b, a', hdr') -> Fut a' aF ->
  exists it', (forall r, x2_next it (b ++ r) = Some (it', r)) /\ Inv2 aF a' it' /\
              j_st it' = st /\ j_t it' = t /\ j_v it' = v /\ b <> [].
Proof.
  intros [Hnum [Hst [Ht [Hv [Htd [Hsd [Hwin [[Wst [Wt [Wb [Wtd [Wsd Www]]]]] [Hfk [Hfc [Hz0 [Hz1 Hwin0]]]]]]]]]]]]
         HH Hst64 Ht64 Hv64 Happ HF.
  pose proof (x2_append_hdr _ _ _ _ _ _ _ _ HH Happ) as [HH' [HFa Hn']].
  destruct HH as [Hh [Hf [Hf0 [Hf1 [Hk0 Hn0]]]]].
  destruct HF as [F1 [F2 [F3 F4]]].
  unfold x2_append in Happ.
  destruct (Z.eqb_spec (b_num a) 0) as [E0|N0].
  { (* sample 0 *)
    destruct (Hz0 E0) as [Htd0 Hst0].
    destruct (Z.eqb_spec st 0) as [S0|SN].
    - cbv beta zeta iota in Happ. injection Happ as Hb Ha Hhd. subst b a' hdr'. cbn in F1, F2, F3, F4, Hn'.
      exists (mkI2 1 (j_fsk it) (j_fsco it) (j_lead it) (j_trail it) (j_st it) t v (j_tDelta it) (j_stDiff it)
                   (newbase (j_base it) v)). split.
      { intros r. unfold x2_next. rewrite Hnum, E0. cbn [Z.eqb]. rewrite app_nil_r, <- app_assoc.
        rewrite varint_rt by exact Ht64. rewrite get_put_nat. change (2 ^ Z.of_nat 64) with 18446744073709551616.
        rewrite Z.mod_small by exact Hv64. rewrite Hfk, (F2 ltac:(lia)), (Hk0 E0). reflexivity. }
      split; [|split; [cbn; lia|split; [reflexivity|split; [reflexivity|]]]].
      + destruct Www as [Hw1 [Hw2 Hw3]]. unfold Inv2, wf_it2, wf_window, newbase. cbn. rewrite <- Hv.
        rewrite Htd0, (Hz1 ltac:(lia)).
        rewrite <- Hv in Wb. repeat split; try fin2. all: destruct (is_stale v); fin2.
      + rewrite app_nil_r. apply bytes_bits_nonempty. unfold put_varint. apply put_uvarint_nonempty.
    - cbv beta zeta iota in Happ. injection Happ as Hb Ha Hhd. subst b a' hdr'. cbn in F1, F2, F3, F4, Hn'.
      exists (mkI2 1 (j_fsk it) (j_fsco it) (j_lead it) (j_trail it) st t v (j_tDelta it) (j_stDiff it)
                   (newbase (j_base it) v)). split.
      { intros r. unfold x2_next. rewrite Hnum, E0. cbn [Z.eqb]. rewrite <- !app_assoc.
        rewrite varint_rt by exact Ht64. rewrite get_put_nat. change (2 ^ Z.of_nat 64) with 18446744073709551616.
        rewrite Z.mod_small by exact Hv64. rewrite Hfk, (F2 ltac:(lia)).
        rewrite varint_rt by apply W64_range. rewrite st_rt by assumption. reflexivity. }
      split; [|split; [reflexivity|split; [reflexivity|split; [reflexivity|]]]].
      + destruct Www as [Hw1 [Hw2 Hw3]]. unfold Inv2, wf_it2, wf_window, newbase. cbn. rewrite <- Hv.
        rewrite Htd0, (Hz1 ltac:(lia)).
        rewrite <- Hv in Wb. repeat split; try fin2. all: destruct (is_stale v); fin2.
      + apply bytes_bits_nonempty. unfold put_varint. apply put_uvarint_nonempty. }
  assert (Ht' := Ht ltac:(lia)). clear Ht. rename Ht' into Ht.
  destruct (Z.eqb_spec (b_num a) 1) as [E1|N1].
  { (* sample 1 *)
    assert (Hfs : b_fsco a = 0) by lia.
    destruct (x2_vdelta_rt it (b_v a) v (b_lead a) (b_trail a) ltac:(rewrite Hv; exact Wb) Hv64 (eq_sym Hv) Hwin Www)
      as [l' [t' [Hrd [Hrel' [Hwf' Hdet]]]]].
    destruct (x2_write_vdelta (b_v a) v (b_lead a) (b_trail a)) as [[vb l] tr]. cbn [fst snd] in *.
    destruct (Z.eqb_spec st (b_st a)) as [SE|SN].
    - cbv beta zeta iota in Happ. injection Happ as Hb Ha Hhd. subst b a' hdr'. cbn in F1, F2, F3, F4, Hn'.
      exists (mkI2 2 (j_fsk it) (j_fsco it) l' t' (j_st it) t v (U64 (t - b_t a)) (j_stDiff it) (newbase (b_v a) v)). split.
      { intros r. unfold x2_next. rewrite Hnum, E1. cbn [Z.eqb]. rewrite <- !app_assoc.
        rewrite uvarint_rt by apply U64_range. rewrite Hrd.
        replace (j_fsco it =? 1) with false by (symmetry; apply Z.eqb_neq; rewrite Hfc; destruct (F4 Hfs); lia).
        rewrite <- Ht. rewrite ts_delta_rt by (try assumption; rewrite Ht; assumption). reflexivity. }
      split; [|split; [cbn; lia|split; [reflexivity|split; [reflexivity|]]]].
      + destruct Hwf' as [Hw1 [Hw2 Hw3]]. unfold Inv2, wf_it2, wf_window. cbn.
        rewrite (Hz1 ltac:(lia)). rewrite Hv in *.
        repeat split; try fin2; try (intros Hc; destruct (Hdet Hc) as [A [B C]]; destruct (Hwin0 A) as [D E]; lia).
      + apply bytes_bits_nonempty. apply put_uvarint_nonempty.
    - cbv beta zeta iota in Happ. injection Happ as Hb Ha Hhd. subst b a' hdr'. cbn in F1, F2, F3, F4, Hn'.
      exists (mkI2 2 (j_fsk it) (j_fsco it) l' t' st t v (U64 (t - b_t a)) (W64 (b_t a - st)) (newbase (b_v a) v)). split.
      { intros r. unfold x2_next. rewrite Hnum, E1. cbn [Z.eqb]. rewrite <- !app_assoc.
        rewrite uvarint_rt by apply U64_range. rewrite Hrd.
        replace (j_fsco it =? 1) with true by (symmetry; apply Z.eqb_eq; rewrite Hfc; apply F3; lia).
        rewrite varbit_rt by apply W64_range.
        rewrite <- Ht. rewrite st_rt by (try assumption; rewrite Ht; assumption).
        rewrite ts_delta_rt by (try assumption; rewrite Ht; assumption). reflexivity. }
      split; [|split; [reflexivity|split; [reflexivity|split; [reflexivity|]]]].
      + destruct Hwf' as [Hw1 [Hw2 Hw3]]. unfold Inv2, wf_it2, wf_window. cbn. rewrite Hv in *.
        repeat split; try fin2; try (intros Hc; destruct (Hdet Hc) as [A [B C]]; destruct (Hwin0 A) as [D E]; lia).
      + apply bytes_bits_nonempty. apply put_uvarint_nonempty. }
  destruct (Z.eqb_spec (b_num a) 65535) as [E2|N2]; [discriminate|].
  (* samples >= 2 *)
  destruct (x2_joint_rt it (b_v a) v (b_lead a) (b_trail a) t Wt Ht64 Wtd ltac:(rewrite Hv; exact Wb) Hv64
              (eq_sym Hv) Hwin Www (U64 (t - b_t a)) (W64 (U64 (t - b_t a) - b_tDelta a))
              ltac:(rewrite Ht; reflexivity) ltac:(rewrite Htd; reflexivity))
    as [l' [t' [Hrd [Hrel' [Hwf' Hdet]]]]].
  destruct (x2_encode_joint (W64 (U64 (t - b_t a) - b_tDelta a)) (b_v a) v (b_lead a) (b_trail a)) as [[jb l] tr].
  cbn [fst snd] in *.
  assert (Hjne : jb <> []).
  { intros Hc. subst jb. specialize (Hrd []). cbn [app] in Hrd. unfold x2_read_joint in Hrd. cbn in Hrd. discriminate. }
  destruct Hwf' as [Hw1 [Hw2 Hw3]].
  destruct ((b_fsco a =? 0) && (st =? b_st a) && negb (b_num a =? 127)) eqn:HA.
  { apply andb_true_iff in HA. destruct HA as [HA1 HA3]. apply andb_true_iff in HA1. destruct HA1 as [HA1 HA2].
    apply Z.eqb_eq in HA1, HA2. apply negb_true_iff, Z.eqb_neq in HA3.
    injection Happ as Hb Ha Hhd. subst b a' hdr'. cbn in F1, F2, F3, F4, Hn'.
    exists (mkI2 (j_num it + 1) (j_fsk it) (j_fsco it) l' t' (j_st it) t v (U64 (t - b_t a)) (j_stDiff it) (newbase (b_v a) v)).
    split.
    { intros r. unfold x2_next. rewrite Hnum.
      replace (b_num a =? 0) with false by (symmetry; apply Z.eqb_neq; exact N0).
      replace (b_num a =? 1) with false by (symmetry; apply Z.eqb_neq; exact N1).
      rewrite Hrd. unfold x2_read_st. rewrite Hnum, Hfc.
      replace ((0 <? b_fsco aF) && (b_fsco aF <=? b_num a)) with false; [reflexivity|].
      symmetry. destruct (F4 HA1) as [G|G]; [rewrite G; reflexivity|].
      apply andb_false_iff. right. apply Z.leb_gt. lia. }
    split; [|split; [cbn; lia|split; [reflexivity|split; [reflexivity|exact Hjne]]]].
    unfold Inv2, wf_it2, wf_window. cbn. rewrite Hv in *.
    repeat split; try fin2; try (intros Hc; destruct (Hdet Hc) as [A [B C]]; destruct (Hwin0 A) as [D E]; lia). }
  destruct (Z.ltb_spec 0 (b_fsco a)) as [HB|HC].
  { injection Happ as Hb Ha Hhd. subst b a' hdr'. cbn in F1, F2, F3, F4, Hn'.
    exists (mkI2 (j_num it + 1) (j_fsk it) (j_fsco it) l' t' st t v (U64 (t - b_t a)) (W64 (b_t a - st)) (newbase (b_v a) v)).
    split.
    { intros r. unfold x2_next. rewrite Hnum.
      replace (b_num a =? 0) with false by (symmetry; apply Z.eqb_neq; exact N0).
      replace (b_num a =? 1) with false by (symmetry; apply Z.eqb_neq; exact N1).
      rewrite <- app_assoc, Hrd. unfold x2_read_st. rewrite Hnum, Hfc, (F3 HB).
      replace ((0 <? b_fsco a) && (b_fsco a <=? b_num a)) with true
        by (symmetry; apply andb_true_iff; split; [apply Z.ltb_lt|apply Z.leb_le]; lia).
      rewrite varbit_rt by apply W64_range.
      replace (b_num a =? b_fsco a) with false by (symmetry; apply Z.eqb_neq; specialize (Hf1 HB); lia).
      rewrite <- Hsd. rewrite stdiff_rt by (try apply W64_range; rewrite Hsd; exact Wsd).
      rewrite <- Ht. rewrite st_rt by (try assumption; rewrite Ht; assumption). reflexivity. }
    split; [|split; [reflexivity|split; [reflexivity|split; [reflexivity|]]]].
    - unfold Inv2, wf_it2, wf_window. cbn. rewrite Hv in *.
      repeat split; try fin2; try (intros Hc; destruct (Hdet Hc) as [A [B C]]; destruct (Hwin0 A) as [D E]; lia).
    - intros Hc. apply app_eq_nil in Hc. destruct Hc as [Hc _]. exact (Hjne Hc). }
  assert (Hfs : b_fsco a = 0) by lia.
  injection Happ as Hb Ha Hhd. subst b a' hdr'. cbn in F1, F2, F3, F4, Hn'.
  exists (mkI2 (j_num it + 1) (j_fsk it) (j_fsco it) l' t' st t v (U64 (t - b_t a)) (W64 (b_t a - st)) (newbase (b_v a) v)).
  split.
  { intros r. unfold x2_next. rewrite Hnum.
    replace (b_num a =? 0) with false by (symmetry; apply Z.eqb_neq; exact N0).
    replace (b_num a =? 1) with false by (symmetry; apply Z.eqb_neq; exact N1).
    rewrite <- app_assoc, Hrd. unfold x2_read_st. rewrite Hnum, Hfc, (F3 ltac:(lia)).
    replace ((0 <? b_num a) && (b_num a <=? b_num a)) with true
      by (symmetry; apply andb_true_iff; split; [apply Z.ltb_lt|apply Z.leb_le]; lia).
    rewrite varbit_rt by apply W64_range. rewrite Z.eqb_refl.
    rewrite <- Ht. rewrite st_rt by (try assumption; rewrite Ht; assumption). reflexivity. }
  split; [|split; [reflexivity|split; [reflexivity|split; [reflexivity|]]]].
  - unfold Inv2, wf_it2, wf_window. cbn. rewrite Hv in *.
    repeat split; try fin2; try (intros Hc; destruct (Hdet Hc) as [A [B C]]; destruct (Hwin0 A) as [D E]; lia).
  - intros Hc. apply app_eq_nil in Hc. destruct Hc as [Hc _]. exact (Hjne Hc).
Qed.

(* ---- runs of appends against runs of Next (XOR2) ------------------------------------------------- *)

Lemma x2_append_all_hdr : forall ss a hdr bs aF hdrF,
  HdrInv a hdr -> x2_append_all a hdr ss = Some (bs, aF, hdrF) ->
  HdrInv aF hdrF /\ Fut a aF /\ b_num aF = b_num a + Z.of_nat (length ss).
Proof.
  induction ss as [|s ss IH]; intros a hdr bs aF hdrF HH Hall.
  - cbn in Hall. injection Hall as E1 E2 E3. subst. split; [exact HH|]. split; [apply Fut_refl|]. cbn. lia.
  - cbn [x2_append_all] in Hall.
    destruct (x2_append a hdr (s_st s) (s_t s) (s_v s)) as [[[b a'] hdr']|] eqn:Happ; [|discriminate].
    destruct (x2_append_all a' hdr' ss) as [[[b2 a2] hdr2]|] eqn:Hrest; [|discriminate].
    injection Hall as E1 E2 E3. subst.
    destruct (x2_append_hdr _ _ _ _ _ _ _ _ HH Happ) as [HH' [HF1 Hn1]].
    destruct (IH _ _ _ _ _ HH' Hrest) as [HH2 [HF2 Hn2]].
    split; [exact HH2|]. split.
    + eapply Fut_trans; [exact HF1|exact HF2|]. destruct HH' as [_ [Hf _]]. lia.
    + cbn [length]. rewrite Nat2Z.inj_succ. lia.
Qed.

Lemma sample_eta s : mkS (s_st s) (s_t s) (s_v s) = s.
Proof. destruct s. reflexivity. Qed.

Lemma x2_run_rt : forall ss a hdr it bs aF hdrF aEnd,
  Inv2 aEnd a it -> HdrInv a hdr -> Forall wf_sample2 ss ->
  x2_append_all a hdr ss = Some (bs, aF, hdrF) -> Fut aF aEnd ->
  exists it2, (forall r, x2_iter (length ss) it (bs ++ r) = (ss, Some (it2, r))) /\ Inv2 aEnd aF it2 /\
              (ss <> [] -> bs <> []).
Proof.
  induction ss as [|s ss IH]; intros a hdr it bs aF hdrF aEnd HI HH Hwf Hall HFut.
  - cbn in Hall. injection Hall as E1 E2 E3. subst. exists it. split; [intros r; reflexivity|]. split; [exact HI|auto].
  - cbn [x2_append_all] in Hall.
    destruct (x2_append a hdr (s_st s) (s_t s) (s_v s)) as [[[b a'] hdr']|] eqn:Happ; [|discriminate].
    destruct (x2_append_all a' hdr' ss) as [[[b2 a2] hdr2]|] eqn:Hrest; [|discriminate].
    injection Hall as E1 E2 E3. subst.
    inversion Hwf as [|? ? [Hs1 [Hs2 Hs3]] Hwf']; subst.
    destruct (x2_append_hdr _ _ _ _ _ _ _ _ HH Happ) as [HH' [HF1 Hn1]].
    destruct (x2_append_all_hdr _ _ _ _ _ _ HH' Hrest) as [HH2 [HF2 Hn2]].
    assert (HFut' : Fut a' aEnd).
    { eapply Fut_trans; [exact HF2|exact HFut|]. destruct HH2 as [_ [Hf _]]. lia. }
    destruct (x2_step aEnd a hdr it (s_st s) (s_t s) (s_v s) b a' hdr' HI HH Hs1 Hs2 Hs3 Happ HFut')
      as [it' [Hnx [HI' [E1 [E2 [E3 Hne]]]]]].
    destruct (IH a' hdr' it' b2 aF hdrF aEnd HI' HH' Hwf' Hrest HFut) as [it2 [Hit [HI2 _]]].
    exists it2. split; [|split; [exact HI2|]].
    + intros r. cbn [length x2_iter]. rewrite <- app_assoc, Hnx, Hit, E1, E2, E3, sample_eta. reflexivity.
    + intros _ Hc. apply app_eq_nil in Hc. destruct Hc as [Hc _]. exact (Hne Hc).
Qed.

Lemma x2_append_total a hdr st t v : 0 <= b_num a < 65535 -> x2_append a hdr st t v <> None.
Proof.
  intros H. unfold x2_append.
  destruct (b_num a =? 0); [discriminate|]. destruct (b_num a =? 1).
  { destruct (x2_write_vdelta (b_v a) v (b_lead a) (b_trail a)) as [[? ?] ?]. destruct (st =? b_st a); discriminate. }
  destruct (Z.eqb_spec (b_num a) 65535); [lia|].
  destruct (x2_encode_joint _ _ _ _ _) as [[? ?] ?].
  destruct ((b_fsco a =? 0) && (st =? b_st a) && negb (b_num a =? 127)); [discriminate|].
  destruct (0 <? b_fsco a); discriminate.
Qed.

Lemma x2_append_all_total : forall ss a hdr, HdrInv a hdr ->
  b_num a + Z.of_nat (length ss) <= 65535 -> x2_append_all a hdr ss <> None.
Proof.
  induction ss as [|s ss IH]; intros a hdr HH Hcap; [discriminate|].
  cbn [x2_append_all]. cbn [length] in Hcap. rewrite Nat2Z.inj_succ in Hcap.
  assert (H0 : 0 <= b_num a) by (destruct HH as [_ [_ [_ [_ [_ H]]]]]; exact H).
  destruct (x2_append a hdr (s_st s) (s_t s) (s_v s)) as [[[b a'] hdr']|] eqn:Happ.
  - destruct (x2_append_hdr _ _ _ _ _ _ _ _ HH Happ) as [HH' [_ Hn1]].
    specialize (IH a' hdr' HH' ltac:(lia)).
    destruct (x2_append_all a' hdr' ss) as [[[? ?] ?]|]; [discriminate|contradiction].
  - exfalso. eapply x2_append_total; [|exact Happ]. lia.
Qed.

(* ---- a fresh XOR2 chunk -------------------------------------------------------------------------- *)

Lemma HdrInv_init : HdrInv x2app_init 0.
Proof. unfold HdrInv, hdr_of, x2app_init. cbn. repeat split; try lia. Qed.

Lemma x2it_init_hdr aF : 0 <= b_fsco aF <= 127 ->
  j_fsk (x2it_init (hdr_of aF)) = b_fsk aF /\ j_fsco (x2it_init (hdr_of aF)) = b_fsco aF.
Proof.
  intros H. unfold x2it_init, hdr_of. cbn [j_fsk j_fsco]. destruct (b_fsk aF).
  - split; [apply Z.leb_le; lia|]. Z.div_mod_to_equations. lia.
  - split; [apply Z.leb_gt; lia|]. Z.div_mod_to_equations. lia.
Qed.

Lemma Inv2_init aF : 0 <= b_fsco aF <= 127 -> Inv2 aF x2app_init (x2it_init (hdr_of aF)).
Proof.
  intros H. destruct (x2it_init_hdr aF H) as [E1 E2].
  unfold Inv2. rewrite E1, E2. unfold x2it_init, x2app_init, wf_it2, wf_window, win_rel, is_u64, int64, minInt64, maxInt64.
  cbn. repeat split; try lia.
Qed.

Lemma xor2_decode_bytes num hdr bs :
  0 <= num <= 65535 ->
  xor2_decode (chunk_bytes num [hdr] bs) =
  let '(l, r) := x2_iter (Z.to_nat num) (x2it_init hdr) (unpack_bytes (pack_bits bs)) in
  DOk l (match r with None => true | Some _ => false end).
Proof.
  intros H. unfold chunk_bytes, xor2_decode. cbn [app].
  replace (num / 256 * 256 + num mod 256) with num by (Z.div_mod_to_equations; lia). reflexivity.
Qed.

(* any sample sequence (start timestamps included) appended to a fresh XOR2 chunk is returned
   exactly by iterating the chunk's bytes *)
Lemma xor2_roundtrip k ss :
  Forall wf_sample2 ss -> Z.of_nat (length ss) <= 65535 ->
  exists num hdr bs, xor2_encode [(k, ss)] = EOk num [hdr] bs /\
                     xor2_decode (chunk_bytes num [hdr] bs) = DOk ss false.
Proof.
  intros Hwf Hcap. unfold xor2_encode. cbn [x2_run x2_resume].
  pose proof (x2_append_all_total ss x2app_init 0 HdrInv_init ltac:(cbn; lia)) as Htot.
  destruct (x2_append_all x2app_init 0 ss) as [[[b aF] hdrF]|] eqn:Hall; [|contradiction].
  destruct (x2_append_all_hdr _ _ _ _ _ _ HdrInv_init Hall) as [HHF [HF Hn]].
  assert (Hfs : 0 <= b_fsco aF <= 127) by (destruct HHF as [_ [Hf _]]; exact Hf).
  assert (HhF : hdrF = hdr_of aF) by (destruct HHF as [Hh _]; exact Hh).
  destruct (x2_run_rt ss x2app_init 0 (x2it_init (hdr_of aF)) b aF hdrF aF (Inv2_init aF Hfs) HdrInv_init Hwf Hall (Fut_refl aF))
    as [it2 [Hit _]].
  exists (0 + Z.of_nat (length ss)), hdrF, ([] ++ b). split; [reflexivity|].
  rewrite xor2_decode_bytes by lia. cbn [app Z.add].
  destruct (unpack_pack b) as [pad [Hp _]]. rewrite Hp, HhF.
  replace (Z.to_nat (0 + Z.of_nat (length ss))) with (length ss) by lia.
  rewrite Nat2Z.id, Hit. reflexivity.
Qed.

Lemma x2_capacity a hdr st t v : b_num a = 65535 -> x2_append a hdr st t v = None.
Proof. intros H. unfold x2_append. rewrite H. reflexivity. Qed.

(* ---- XOR2 chunk histories: appender re-obtained from the object or from the bytes ------------------ *)

Lemma x2_iter_app : forall n m it bs,
  x2_iter (n + m) it bs =
  match x2_iter n it bs with
  | (l1, Some (it', bs')) => let '(l2, r2) := x2_iter m it' bs' in (l1 ++ l2, r2)
  | (l1, None) => (l1, None)
  end.
Proof.
  induction n as [|n IH]; intros m it bs.
  - cbn. destruct (x2_iter m it bs). reflexivity.
  - cbn [Nat.add x2_iter]. destruct (x2_next it bs) as [[it' bs']|]; [|reflexivity].
    rewrite IH. destruct (x2_iter n it' bs') as [l1 [[it'' bs'']|]].
    + destruct (x2_iter m it'' bs''). reflexivity.
    + reflexivity.
Qed.

(* the chunk (hdr, bs) holds exactly xs; [a] is an appender state for it.  Whatever the header
   becomes later (aEnd), an iterator created with that later header reads xs from bs and ends in
   a state related to [a]. *)
Definition chunk_ok2 (a : x2app) (hdr : Z) (bs : bits) (xs : list sample) : Prop :=
  HdrInv a hdr /\ b_num a = Z.of_nat (length xs) /\ (bs = [] -> xs = [] /\ a = x2app_init) /\
  forall aEnd, Fut a aEnd -> 0 <= b_fsco aEnd <= 127 ->
    exists it, Inv2 aEnd a it /\
      forall r, x2_iter (length xs) (x2it_init (hdr_of aEnd)) (bs ++ r) = (xs, Some (it, r)).

Lemma chunk_ok2_empty : chunk_ok2 x2app_init 0 [] [].
Proof.
  split; [exact HdrInv_init|]. split; [reflexivity|]. split; [auto|].
  intros aEnd _ Hf. exists (x2it_init (hdr_of aEnd)). split; [apply Inv2_init; exact Hf|]. intros r. reflexivity.
Qed.

Lemma resume_ok2 a hdr bs xs : chunk_ok2 a hdr bs xs ->
  exists a', x2_resume (Z.of_nat (length xs)) hdr bs = Some a' /\ chunk_ok2 a' hdr bs xs.
Proof.
  intros Hok. destruct Hok as [HH [Hn [Hemp Hall]]].
  destruct bs as [|b0 bs].
  { destruct (Hemp eq_refl) as [Hx Ha]. subst xs a. exists x2app_init. split; [reflexivity|].
    split; [exact HH|]. split; [exact Hn|]. split; [auto|exact Hall]. }
  assert (Hf : 0 <= b_fsco a <= 127) by (destruct HH as [_ [Hf _]]; exact Hf).
  assert (Hh : hdr = hdr_of a) by (destruct HH as [Hh _]; exact Hh).
  destruct (Hall a (Fut_refl a) Hf) as [it0 [HI0 Hit0]].
  unfold x2_resume. rewrite Nat2Z.id, Hh.
  specialize (Hit0 []) as Hit00. rewrite app_nil_r in Hit00. rewrite Hit00. cbn [snd].
  eexists. split; [reflexivity|].
  destruct HI0 as [I1 [I2 [I3 [I4 [I5 [I6 [I7 [[W1 [W2 [W3 [W4 [W5 [W6 [W7 W8]]]]]]] [I9 [I10 [I11 [I12 I13]]]]]]]]]]]].
  split; [|split; [|split; [intros Hc; discriminate|]]].
  - (* HdrInv only looks at num / fsk / fsco *)
    destruct HH as [H1 [H2 [H3 [H4 [H5 H6]]]]]. unfold HdrInv, hdr_of in *. cbn. rewrite I9, I10, <- Hn. repeat split; try assumption; try lia.
  - cbn. reflexivity.
  - intros aEnd HF HfE.
    assert (HF' : Fut a aEnd).
    { destruct HF as [F1 [F2 [F3 F4]]]. cbn in F1, F2, F3, F4. rewrite I9, I10, <- Hn in *. unfold Fut. repeat split; assumption. }
    destruct (Hall aEnd HF' HfE) as [it [HI Hit]]. exists it. split; [|exact Hit].
    destruct HI as [J1 [J2 [J3 [J4 [J5 [J6 [J7 [JW [J9 [J10 [J11 [J12 J13]]]]]]]]]]]].
    unfold Inv2. cbn. rewrite <- Hn.
    split; [exact J1|]. split; [congruence|]. split; [intros Hge; rewrite <- (I3 Hge); apply J3; exact Hge|].
    split; [congruence|]. split; [congruence|]. split; [congruence|].
    split.
    { (* both iterators hold the window determined by the appender *)
      right. destruct (Z.eq_dec (b_lead a) 255) as [E|NE].
      - destruct (I13 E) as [A B]. destruct (J13 E) as [C D]. lia.
      - destruct I7 as [X|[X Y]]; [contradiction|]. destruct J7 as [X'|[X' Y']]; [contradiction|]. lia. }
    split; [exact JW|]. split; [exact J9|]. split; [exact J10|]. split; [exact J11|]. split; [exact J12|].
    intros Hc. lia.
Qed.

Lemma x2_run_ok : forall segs a hdr bs xs,
  chunk_ok2 a hdr bs xs -> Forall wf_sample2 (flat_map snd segs) ->
  Z.of_nat (length xs) + Z.of_nat (length (flat_map snd segs)) <= 65535 ->
  exists a' hdr' bs', x2_run segs (Z.of_nat (length xs)) hdr bs
                        = EOk (Z.of_nat (length (xs ++ flat_map snd segs))) [hdr'] bs' /\
                      chunk_ok2 a' hdr' bs' (xs ++ flat_map snd segs).
Proof.
  induction segs as [|[k ss] segs IH]; intros a hdr bs xs Hok Hwf Hcap.
  - exists a, hdr, bs. cbn. rewrite app_nil_r. split; [reflexivity|exact Hok].
  - cbn [flat_map snd] in Hwf, Hcap. apply Forall_app in Hwf. destruct Hwf as [Hwf1 Hwf2].
    rewrite app_length, Nat2Z.inj_add in Hcap.
    cbn [x2_run].
    destruct (resume_ok2 a hdr bs xs Hok) as [ar [Hres Hokr]]. rewrite Hres.
    destruct Hokr as [HH [Hn [Hemp Hall]]].
    pose proof (x2_append_all_total ss ar hdr HH ltac:(lia)) as Htot.
    destruct (x2_append_all ar hdr ss) as [[[b aF] hdrF]|] eqn:Happ; [|contradiction].
    destruct (x2_append_all_hdr _ _ _ _ _ _ HH Happ) as [HHF [HF HnF]].
    assert (Hok2 : chunk_ok2 aF hdrF (bs ++ b) (xs ++ ss)).
    { split; [exact HHF|]. split; [rewrite app_length, Nat2Z.inj_add; lia|]. split.
      - intros Hc. apply app_eq_nil in Hc. destruct Hc as [Hc1 Hc2].
        destruct (Hemp Hc1) as [Hx Ha]. subst xs ar.
        destruct ss as [|s ss'].
        + cbn in Happ. injection Happ as E1 E2 E3. subst. auto.
        + exfalso. assert (HfF : 0 <= b_fsco aF <= 127) by (destruct HHF as [_ [Hf _]]; exact Hf).
          destruct (x2_run_rt (s :: ss') x2app_init hdr (x2it_init (hdr_of aF)) b aF hdrF aF
                      (Inv2_init aF HfF) HH Hwf1 Happ (Fut_refl aF)) as [_ [_ [_ Hne]]].
          apply Hne; [discriminate|exact Hc2].
      - intros aEnd HFE HfE.
        assert (HFr : Fut ar aEnd).
        { eapply Fut_trans; [exact HF|exact HFE|]. destruct HHF as [_ [Hf _]]. lia. }
        destruct (Hall aEnd HFr HfE) as [it [HI Hit]].
        destruct (x2_run_rt ss ar hdr it b aF hdrF aEnd HI HH Hwf1 Happ HFE) as [it2 [Hit2 [HI2 _]]].
        exists it2. split; [exact HI2|].
        intros r. rewrite app_length, x2_iter_app, <- app_assoc, Hit, Hit2. reflexivity. }
    destruct (IH aF hdrF (bs ++ b) (xs ++ ss) Hok2 Hwf2 ltac:(rewrite app_length, Nat2Z.inj_add; lia))
      as [a' [hdr' [bs' [Hrun Hok']]]].
    exists a', hdr', bs'. cbn [flat_map snd]. rewrite app_assoc.
    rewrite app_length, Nat2Z.inj_add in Hrun. split; [exact Hrun|exact Hok'].
Qed.

Lemma xor2_decode_ok a hdr bs xs : chunk_ok2 a hdr bs xs -> Z.of_nat (length xs) <= 65535 ->
  xor2_decode (chunk_bytes (Z.of_nat (length xs)) [hdr] bs) = DOk xs false.
Proof.
  intros [HH [Hn [_ Hall]]] Hcap.
  assert (Hf : 0 <= b_fsco a <= 127) by (destruct HH as [_ [Hf _]]; exact Hf).
  assert (Hh : hdr = hdr_of a) by (destruct HH as [Hh _]; exact Hh).
  destruct (Hall a (Fut_refl a) Hf) as [it [_ Hit]].
  rewrite xor2_decode_bytes by lia. destruct (unpack_pack bs) as [pad [Hp _]].
  rewrite Hp, Nat2Z.id, Hh, Hit. reflexivity.
Qed.

(* XOR2 histories with the appender re-obtained any number of times, from the same object or
   from the chunk's bytes (both restore the write position): every (st, t, v) comes back exactly *)
Lemma xor2_history_roundtrip segs :
  Forall wf_sample2 (flat_map snd segs) -> Z.of_nat (length (flat_map snd segs)) <= 65535 ->
  exists num hdr bs, xor2_encode segs = EOk num [hdr] bs /\
                     xor2_decode (chunk_bytes num [hdr] bs) = DOk (flat_map snd segs) false.
Proof.
  intros Hwf Hcap. unfold xor2_encode.
  destruct (x2_run_ok segs x2app_init 0 [] [] chunk_ok2_empty Hwf ltac:(cbn; lia)) as [a' [hdr' [bs' [Hrun Hok]]]].
  cbn [app length Z.of_nat] in Hrun, Hok.
  eexists. exists hdr', bs'. split; [exact Hrun|].
  apply (xor2_decode_ok a' hdr' bs' _ Hok Hcap).
Qed.

(* non-vacuity witness: stale NaN first, start timestamps appearing late, a reload from bytes *)
Definition example2_segs : list (reopen * list sample) :=
  [(ReObj, [mkS 0 1000 9218868437227405314; mkS 0 2000 4609434218613702656; mkS 990 3000 4609434218613702656]);
   (ReBytes, [mkS 990 4007 9218868437227405314; mkS (-5) (-9223372036854775808) 18446744073709551615;
              mkS 9223372036854775807 5 0])].

Lemma example2_ok :
  Forall wf_sample2 (flat_map snd example2_segs) /\
  Z.of_nat (length (flat_map snd example2_segs)) <= 65535 /\
  match xor2_encode example2_segs with
  | EOk num [hdr] bs => num = 6 /\ hdr = 2 /\
                        xor2_decode (chunk_bytes num [hdr] bs) = DOk (flat_map snd example2_segs) false
  | _ => False
  end.
Proof.
  split.
  - repeat constructor; cbn; unfold int64, minInt64, maxInt64, is_u64; lia.
  - split; [cbn; lia|]. vm_compute. repeat split.
Qed.

(* ---- Next / Seek scripts against the cursor specification (XOR2) --------------------------------- *)

Lemma x2_next_num it bs it' bs' : x2_next it bs = Some (it', bs') -> j_num it' = j_num it + 1.
Proof.
  unfold x2_next. intros H.
  destruct (Z.eqb_spec (j_num it) 0) as [E0|N0].
  { destruct (get_varint false bs) as [[t r]|]; [|discriminate]. destruct (get_bits 64 r) as [[v r2]|]; [|discriminate].
    destruct (j_fsk it).
    - destruct (get_varint false r2) as [[sd r3]|]; [|discriminate]. injection H as H1 H2. subst it'. cbn. lia.
    - injection H as H1 H2. subst it'. cbn. lia. }
  destruct (Z.eqb_spec (j_num it) 1) as [E1|N1].
  { destruct (get_uvarint false bs) as [[tD r]|]; [|discriminate].
    destruct (x2_decode_value it r) as [[[[[v base] l] tr] r2]|]; [|discriminate].
    destruct (j_fsco it =? 1).
    - destruct (get_varbit r2) as [[sdod r3]|]; [|discriminate]. injection H as H1 H2. subst it'. cbn. lia.
    - injection H as H1 H2. subst it'. cbn. lia. }
  destruct (x2_read_joint it bs) as [[[[[[[tD t] v] base] l] tr] r2]|]; [|discriminate].
  destruct (x2_read_st it (j_t it) r2) as [[[st sd] r3]|]; [|discriminate].
  injection H as H1 H2. subst it'. cbn. lia.
Qed.

Definition cur_of2 (it : x2it) : option sample :=
  if j_num it =? 0 then None else Some (mkS (j_st it) (j_t it) (j_v it)).

(* the cursor stands where the abstract cursor (cur, rest) stands: [rest] is what the remaining
   bits decode to *)
Definition CurInv2 (total : Z) (c : x2cur) (rest : list sample) : Prop :=
  cv_err c = false /\ 0 <= j_num (cv_it c) /\ j_num (cv_it c) + Z.of_nat (length rest) = total /\
  exists fin, x2_iter (length rest) (cv_it c) (cv_bits c) = (rest, Some fin).

Lemma CurInv22_next total c x rest : CurInv2 total c (x :: rest) ->
  exists c', x2cur_next total c = (c', true) /\ CurInv2 total c' rest /\ cur_of2 (cv_it c') = Some x.
Proof.
  intros [He [H0 [Hn [fin Hit]]]]. cbn [length x2_iter] in Hit.
  destruct (x2_next (cv_it c) (cv_bits c)) as [[it' bs']|] eqn:Hnx; [|discriminate].
  destruct (x2_iter (length rest) it' bs') as [l r] eqn:Hrest. injection Hit as E1 E2 E3. subst l r x.
  pose proof (x2_next_num _ _ _ _ Hnx) as Hnum.
  exists (mkC2 it' bs' false). unfold x2cur_next. rewrite He. cbn [orb].
  replace (j_num (cv_it c) =? total) with false
    by (symmetry; apply Z.eqb_neq; cbn [length] in Hn; rewrite Nat2Z.inj_succ in Hn; lia).
  rewrite Hnx. split; [reflexivity|]. split.
  - unfold CurInv2. cbn. split; [reflexivity|]. split; [lia|]. split.
    + cbn [length] in Hn. rewrite Nat2Z.inj_succ in Hn. lia.
    + exists fin. exact Hrest.
  - unfold cur_of2. cbn. replace (j_num it' =? 0) with false by (symmetry; apply Z.eqb_neq; lia). reflexivity.
Qed.

Lemma CurInv22_end total c : CurInv2 total c [] -> x2cur_next total c = (c, false).
Proof.
  intros [He [H0 [Hn _]]]. unfold x2cur_next. rewrite He. cbn [orb length] in *.
  replace (j_num (cv_it c) =? total) with true by (symmetry; apply Z.eqb_eq; lia). reflexivity.
Qed.

Lemma seek_loop_spec2 total t : forall rest fuel c,
  CurInv2 total c rest -> (length rest < fuel)%nat ->
  cur_of2 (cv_it c) = None \/ (exists s, cur_of2 (cv_it c) = Some s /\ s_t s < t) ->
  exists c' rest',
    x2cur_seek_loop fuel total t c = Some (c', snd (seek_rest t (cur_of2 (cv_it c)) rest)) /\
    seek_rest t (cur_of2 (cv_it c)) rest = (cur_of2 (cv_it c'), rest', snd (seek_rest t (cur_of2 (cv_it c)) rest)) /\
    CurInv2 total c' rest'.
Proof.
  induction rest as [|x rest IH]; intros fuel c HI Hf Hcond.
  - destruct fuel as [|fuel]; [cbn in Hf; lia|]. cbn [x2cur_seek_loop seek_rest snd].
    assert (Hc : (j_t (cv_it c) <? t) || (j_num (cv_it c) =? 0) = true).
    { unfold cur_of2 in Hcond. destruct (Z.eqb_spec (j_num (cv_it c)) 0); [apply orb_true_r|].
      destruct Hcond as [Hc|[s [Hc Hlt]]]; [discriminate|]. injection Hc as Hc. subst s. cbn in Hlt.
      apply orb_true_iff. left. apply Z.ltb_lt. exact Hlt. }
    rewrite Hc, (CurInv22_end _ _ HI). exists c, []. split; [reflexivity|]. split; [reflexivity|exact HI].
  - destruct fuel as [|fuel]; [cbn in Hf; lia|]. cbn [x2cur_seek_loop].
    assert (Hc : (j_t (cv_it c) <? t) || (j_num (cv_it c) =? 0) = true).
    { unfold cur_of2 in Hcond. destruct (Z.eqb_spec (j_num (cv_it c)) 0); [apply orb_true_r|].
      destruct Hcond as [Hc|[s [Hc Hlt]]]; [discriminate|]. injection Hc as Hc. subst s. cbn in Hlt.
      apply orb_true_iff. left. apply Z.ltb_lt. exact Hlt. }
    rewrite Hc. destruct (CurInv22_next _ _ _ _ HI) as [c1 [Hnx [HI1 Hcur1]]]. rewrite Hnx.
    cbn [seek_rest]. destruct (Z.leb_spec t (s_t x)) as [Hle|Hgt].
    + (* the loop stops at x *)
      cbn [snd]. exists c1, rest. split.
      * destruct fuel as [|fuel']; cbn [x2cur_seek_loop].
        -- assert (Hstop : (j_t (cv_it c1) <? t) || (j_num (cv_it c1) =? 0) = false).
           { unfold cur_of2 in Hcur1. destruct (Z.eqb_spec (j_num (cv_it c1)) 0); [discriminate|].
             injection Hcur1 as Hx. subst x. cbn in Hle. rewrite orb_false_r. apply Z.ltb_ge. exact Hle. }
           rewrite Hstop. reflexivity.
        -- assert (Hstop : (j_t (cv_it c1) <? t) || (j_num (cv_it c1) =? 0) = false).
           { unfold cur_of2 in Hcur1. destruct (Z.eqb_spec (j_num (cv_it c1)) 0); [discriminate|].
             injection Hcur1 as Hx. subst x. cbn in Hle. rewrite orb_false_r. apply Z.ltb_ge. exact Hle. }
           rewrite Hstop. reflexivity.
      * rewrite Hcur1. split; [reflexivity|exact HI1].
    + destruct (IH fuel c1 HI1 ltac:(cbn [length] in Hf; lia)) as [c' [rest' [Hl [Hs HI']]]].
      { right. exists x. split; [exact Hcur1|exact Hgt]. }
      rewrite Hcur1 in Hl, Hs. exists c', rest'. split; [exact Hl|]. split; [exact Hs|exact HI'].
Qed.

Lemma x2_script_spec total : forall acts c rest,
  CurInv2 total c rest -> (Z.of_nat (length rest) <= total) ->
  x2_script total c acts = Some (spec_script (cur_of2 (cv_it c)) rest acts).
Proof.
  induction acts as [|a acts IH]; intros c rest HI Hlen; [reflexivity|].
  assert (Hfuel : (length rest < S (Z.to_nat total))%nat) by lia.
  destruct a as [|t].
  - (* Next *)
    cbn [x2_script spec_script]. destruct rest as [|x rest].
    + rewrite (CurInv22_end _ _ HI). rewrite (IH c [] HI Hlen). reflexivity.
    + destruct (CurInv22_next _ _ _ _ HI) as [c1 [Hnx [HI1 Hcur1]]]. rewrite Hnx.
      rewrite (IH c1 rest HI1 ltac:(cbn [length] in Hlen; lia)). rewrite Hcur1.
      unfold cur_of2 in Hcur1. destruct (j_num (cv_it c1) =? 0); [discriminate|]. injection Hcur1 as Hx. rewrite Hx. reflexivity.
  - (* Seek t *)
    cbn [x2_script spec_script]. unfold x2cur_seek.
    assert (He : cv_err c = false) by (destruct HI as [He _]; exact He). rewrite He.
    destruct (cur_of2 (cv_it c)) as [c0|] eqn:Hcur.
    + destruct (Z.leb_spec t (s_t c0)) as [Hle|Hgt].
      * (* already there *)
        cbn [x2cur_seek_loop].
        assert (Hstop : (j_t (cv_it c) <? t) || (j_num (cv_it c) =? 0) = false).
        { unfold cur_of2 in Hcur. destruct (Z.eqb_spec (j_num (cv_it c)) 0); [discriminate|].
          injection Hcur as Hx. subst c0. cbn in Hle. rewrite orb_false_r. apply Z.ltb_ge. exact Hle. }
        rewrite Hstop. rewrite (IH c rest HI Hlen), Hcur.
        unfold cur_of2 in Hcur. destruct (j_num (cv_it c) =? 0); [discriminate|]. injection Hcur as Hx. rewrite Hx. reflexivity.
      * destruct (seek_loop_spec2 total t rest (S (Z.to_nat total)) c HI Hfuel) as [c' [rest' [Hl [Hs HI']]]].
        { right. exists c0. split; [exact Hcur|exact Hgt]. }
        rewrite Hcur in Hl, Hs. rewrite Hl.
        assert (Hlen' : Z.of_nat (length rest') <= total) by (destruct HI' as [_ [G0 [Gn _]]]; lia).
        rewrite (IH c' rest' HI' Hlen'). rewrite Hs.
        destruct (snd (seek_rest t (Some c0) rest)) eqn:Hok; [|reflexivity].
        unfold cur_of2. destruct (j_num (cv_it c') =? 0) eqn:Hz; [|reflexivity].
        (* ok = true means the cursor stands on a sample *)
        exfalso. apply (seek_rest_ok_some _ _ _ _ _ Hs). unfold cur_of2. rewrite Hz. reflexivity.
    + destruct (seek_loop_spec2 total t rest (S (Z.to_nat total)) c HI Hfuel) as [c' [rest' [Hl [Hs HI']]]].
      { left. exact Hcur. }
      rewrite Hcur in Hl, Hs. rewrite Hl.
      assert (Hlen' : Z.of_nat (length rest') <= total) by (destruct HI' as [_ [G0 [Gn _]]]; lia).
      rewrite (IH c' rest' HI' Hlen'). rewrite Hs.
      destruct (snd (seek_rest t None rest)) eqn:Hok; [|reflexivity].
      unfold cur_of2. destruct (j_num (cv_it c') =? 0) eqn:Hz; [|reflexivity].
      exfalso. apply (seek_rest_ok_some _ _ _ _ _ Hs). unfold cur_of2. rewrite Hz. reflexivity.
Qed.


Lemma xor2_seek_script segs acts :
  Forall wf_sample2 (flat_map snd segs) -> Z.of_nat (length (flat_map snd segs)) <= 65535 ->
  exists num hdr bs, xor2_encode segs = EOk num [hdr] bs /\
    xor2_run_script (chunk_bytes num [hdr] bs) acts = Some (spec_script None (flat_map snd segs) acts).
Proof.
  intros Hwf Hcap. unfold xor2_encode.
  destruct (x2_run_ok segs x2app_init 0 [] [] chunk_ok2_empty Hwf ltac:(cbn; lia)) as [a' [hdr' [bs' [Hrun Hok]]]].
  cbn [app length Z.of_nat] in Hrun, Hok.
  eexists. exists hdr', bs'. split; [exact Hrun|].
  destruct Hok as [HH [Hn [_ Hall]]].
  assert (Hf : 0 <= b_fsco a' <= 127) by (destruct HH as [_ [Hf _]]; exact Hf).
  assert (Hh : hdr' = hdr_of a') by (destruct HH as [Hh _]; exact Hh).
  destruct (Hall a' (Fut_refl a') Hf) as [it [_ Hit]].
  unfold chunk_bytes, xor2_run_script. cbn [app].
  set (n := Z.of_nat (length (flat_map snd segs))) in *.
  assert (H0 : 0 <= n <= 65535) by lia.
  replace (n / 256 * 256 + n mod 256) with n by (Z.div_mod_to_equations; lia).
  destruct (unpack_pack bs') as [pad [Hp _]]. rewrite Hp.
  change None with (cur_of2 (cv_it (mkC2 (x2it_init hdr') (bs' ++ pad) false))).
  apply x2_script_spec.
  - unfold CurInv2. cbn [cv_err cv_it cv_bits]. split; [reflexivity|]. split; [cbn; lia|].
    split; [cbn; lia|]. exists (it, pad). rewrite Hh. apply Hit.
  - lia.
Qed.

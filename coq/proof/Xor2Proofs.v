(* proof/Xor2Proofs.v — lemmas and proofs about the XOR2 part of model/Xor.v (C10). *)
From Coq Require Import List ZArith Lia Bool.
From Verif Require Import lib.Int64 lib.Bits model.Xor proof.XorProofs.
Import ListNotations.
Open Scope Z_scope.

(* ---- varbit ------------------------------------------------------------------------------------ *)

Lemma W64_U64 d : int64 d -> W64 (U64 d) = d.
Proof.
  rewrite int64_unfold. intros H. rewrite W64_eq, U64_eq. unfold wrap64, u64, two64.
  Z.div_mod_to_equations. lia.
Qed.

Lemma unsign_gt_mod sz d : 1 <= sz <= 63 -> - (2 ^ (sz - 1) - 1) <= d <= 2 ^ (sz - 1) ->
  unsign_gt sz (d mod 2 ^ sz) = d.
Proof.
  intros Hsz Hd. unfold unsign_gt.
  assert (Hp : 2 ^ sz = 2 * 2 ^ (sz - 1)).
  { replace sz with (1 + (sz - 1)) at 1 by lia. rewrite Z.pow_add_r by lia. reflexivity. }
  assert (Hpos : 0 < 2 ^ (sz - 1)) by (apply Z.pow_pos_nonneg; lia).
  assert (Hle : 2 ^ (sz - 1) <= 2 ^ 62) by (apply Z.pow_le_mono_r; lia).
  change (2 ^ 62) with 4611686018427387904 in Hle.
  set (p := 2 ^ (sz - 1)) in *. rewrite Hp.
  destruct (Z_lt_le_dec d 0) as [Hneg|Hnn].
  - assert (Hm : d mod (2 * p) = d + 2 * p).
    { rewrite <- (Z_mod_plus_full d 1 (2 * p)). replace (d + 1 * (2 * p)) with (d + 2 * p) by lia. apply Z.mod_small. lia. }
    rewrite Hm. replace (p <? d + 2 * p) with true by (symmetry; apply Z.ltb_lt; lia).
    replace (d + 2 * p - 2 * p) with d by lia. apply W64_U64. rewrite int64_unfold. lia.
  - rewrite Z.mod_small by lia. replace (p <? d) with false by (symmetry; apply Z.ltb_ge; lia). reflexivity.
Qed.

Transparent put_bits get_bits.

Lemma read_ones_false n r : read_ones (S n) (false :: r) = Some (0, r).
Proof. reflexivity. Qed.

Lemma varbit_rt x r : int64 x -> get_varbit (put_varbit x ++ r) = Some (x, r).
Proof.
  intros Hx. unfold put_varbit.
  destruct (Z.eqb_spec x 0) as [->|Hnz]; [reflexivity|].
  destruct (bitRange x 3) eqn:H3.
  { apply bitRange_spec in H3. unfold get_varbit. cbn [app read_ones Z.eqb Z.add Pos.add].
    cbn [Z.to_nat Pos.to_nat Pos.iter_op Nat.add]. rewrite get_put_nat.
    change (Z.of_nat 3) with 3. rewrite unsign_gt_mod by (try exact H3; lia). reflexivity. }
  destruct (bitRange x 6) eqn:H6.
  { apply bitRange_spec in H6. unfold get_varbit. cbn [app read_ones Z.eqb Z.add Pos.add Pos.succ].
    cbn [Z.to_nat Pos.to_nat Pos.iter_op Nat.add]. rewrite get_put_nat.
    change (Z.of_nat 6) with 6. rewrite unsign_gt_mod by (try exact H6; lia). reflexivity. }
  destruct (bitRange x 9) eqn:H9.
  { apply bitRange_spec in H9. unfold get_varbit. cbn [app read_ones Z.eqb Z.add Pos.add Pos.succ].
    cbn [Z.to_nat Pos.to_nat Pos.iter_op Nat.add]. rewrite get_put_nat.
    change (Z.of_nat 9) with 9. rewrite unsign_gt_mod by (try exact H9; lia). reflexivity. }
  destruct (bitRange x 12) eqn:H12.
  { apply bitRange_spec in H12. unfold get_varbit. cbn [app read_ones Z.eqb Z.add Pos.add Pos.succ].
    cbn [Z.to_nat Pos.to_nat Pos.iter_op Nat.add]. rewrite get_put_nat.
    change (Z.of_nat 12) with 12. rewrite unsign_gt_mod by (try exact H12; lia). reflexivity. }
  destruct (bitRange x 18) eqn:H18.
  { apply bitRange_spec in H18. unfold get_varbit. cbn [app read_ones Z.eqb Z.add Pos.add Pos.succ].
    cbn [Z.to_nat Pos.to_nat Pos.iter_op Nat.add]. rewrite get_put_nat.
    change (Z.of_nat 18) with 18. rewrite unsign_gt_mod by (try exact H18; lia). reflexivity. }
  destruct (bitRange x 25) eqn:H25.
  { apply bitRange_spec in H25. unfold get_varbit. cbn [app read_ones Z.eqb Z.add Pos.add Pos.succ].
    cbn [Z.to_nat Pos.to_nat Pos.iter_op Nat.add]. rewrite get_put_nat.
    change (Z.of_nat 25) with 25. rewrite unsign_gt_mod by (try exact H25; lia). reflexivity. }
  destruct (bitRange x 56) eqn:H56.
  { apply bitRange_spec in H56. unfold get_varbit. cbn [app read_ones Z.eqb Z.add Pos.add Pos.succ].
    cbn [Z.to_nat Pos.to_nat Pos.iter_op Nat.add]. rewrite get_put_nat.
    change (Z.of_nat 56) with 56. rewrite unsign_gt_mod by (try exact H56; lia). reflexivity. }
  unfold get_varbit. cbn [app read_ones Z.eqb Z.add Pos.add Pos.succ].
  rewrite get_put_nat. change (Z.of_nat 64) with 64. rewrite W64_mod64 by exact Hx. reflexivity.
Qed.

(* ---- values ------------------------------------------------------------------------------------- *)

Lemma read_reuse_rt base delta l t r :
  0 < delta < 2 ^ 64 -> wf_window l t -> l <= lz64 delta -> t <= tz64 delta ->
  read_reuse_window base l t (put_bits (Z.to_nat (64 - l - t)) (Z.shiftr delta t) ++ r)
  = Some (Z.lxor base delta, r).
Proof.
  intros Hd [Hw1 [Hw2 Hw3]] Hl Ht. unfold read_reuse_window.
  replace ((64 - l - t) mod 256) with (64 - l - t) by (symmetry; apply Z.mod_small; lia).
  rewrite get_put_nat, pow2_to_nat by lia.
  pose proof (shiftr_fits delta l t Hd ltac:(lia) ltac:(lia)) as Hfit.
  rewrite Z.mod_small by exact Hfit.
  rewrite shiftr_shiftl_tz by lia. rewrite U64_id by (unfold is_u64; change 18446744073709551616 with (2 ^ 64); lia).
  reflexivity.
Qed.

Lemma read_new_rt base delta l t r :
  0 < delta < 2 ^ 64 -> wf_window l t -> l <= lz64 delta -> t <= tz64 delta ->
  read_new_window base (put_bits 5 l ++ put_bits 6 (64 - l - t) ++
                        put_bits (Z.to_nat (64 - l - t)) (Z.shiftr delta t) ++ r)
  = Some (Z.lxor base delta, l, t, r).
Proof.
  intros Hd [Hw1 [Hw2 Hw3]] Hl Ht. unfold read_new_window.
  rewrite get_put_nat. change (2 ^ Z.of_nat 5) with 32. rewrite (Z.mod_small l 32) by lia.
  rewrite get_put_nat. change (2 ^ Z.of_nat 6) with 64.
  assert (Hsig : 1 <= 64 - l - t <= 64) by lia.
  assert (Hmb : (if (64 - l - t) mod 64 =? 0 then 64 else (64 - l - t) mod 64) = 64 - l - t).
  { destruct (Z.eq_dec (64 - l - t) 64) as [He|Hne].
    - rewrite He. reflexivity.
    - rewrite Z.mod_small by lia. destruct (Z.eqb_spec (64 - l - t) 0); lia. }
  rewrite Hmb.
  replace ((64 - l - (64 - l - t)) mod 256) with t by (rewrite Z.mod_small; lia).
  rewrite get_put_nat, pow2_to_nat by lia.
  pose proof (shiftr_fits delta l t Hd ltac:(lia) ltac:(lia)) as Hfit.
  rewrite Z.mod_small by exact Hfit.
  rewrite shiftr_shiftl_tz by lia. rewrite U64_id by (unfold is_u64; change 18446744073709551616 with (2 ^ 64); lia).
  reflexivity.
Qed.

Lemma x2_window_spec delta lead trail il it_ :
  0 < delta < 2 ^ 64 -> win_rel lead trail il it_ -> wf_window il it_ ->
  wf_window (snd (fst (x2_window delta lead trail))) (snd (x2_window delta lead trail)) /\
  snd (fst (x2_window delta lead trail)) <= lz64 delta /\
  snd (x2_window delta lead trail) <= tz64 delta /\
  (fst (fst (x2_window delta lead trail)) = true ->
     snd (fst (x2_window delta lead trail)) = il /\ snd (x2_window delta lead trail) = it_).
Proof.
  intros Hd Hrel Hwf. unfold x2_window.
  destruct (clamp_lead_bound delta Hd) as [Hcl Hcl2].
  destruct (tz64_bound delta Hd) as [Htz Hsum].
  destruct (lz64_bound delta Hd) as [Hlz _].
  destruct (negb (lead =? 255) && (lead <=? clamp_lead (lz64 delta)) && (trail <=? tz64 delta)) eqn:Hreuse.
  - apply andb_true_iff in Hreuse. destruct Hreuse as [Hr1 Hr3]. apply andb_true_iff in Hr1. destruct Hr1 as [Hr1 Hr2].
    apply negb_true_iff, Z.eqb_neq in Hr1. apply Z.leb_le in Hr2, Hr3.
    destruct Hrel as [Hff|[Hl Ht]]; [contradiction|]. subst lead trail. cbn [fst snd].
    destruct Hwf as [Hw1 [Hw2 Hw3]]. repeat split; lia.
  - cbn [fst snd]. repeat split; try lia.
Qed.

Definition newbase (base v : Z) : Z := if is_stale v then base else v.

(* what a value decoder returns: value, baseline, window *)
Definition x2it_with (it : x2it) (base l t : Z) : Prop := j_base it = base /\ j_lead it = l /\ j_trail it = t.

Lemma lxor_base base v : Z.lxor base (Z.lxor v base) = v.
Proof. apply lxor_cancel. Qed.

(* writeVDeltaKnownNonZero / decodeValueKnownNonZero *)
Lemma x2_vdelta_nz_rt it base v lead trail :
  is_u64 base -> is_u64 v -> v <> base -> j_base it = base ->
  win_rel lead trail (j_lead it) (j_trail it) -> wf_window (j_lead it) (j_trail it) ->
  exists l' t',
    (forall r, x2_decode_value_nz it (fst (fst (x2_write_vdelta_nz (Z.lxor v base) lead trail)) ++ r)
               = Some (v, v, l', t', r)) /\
    win_rel (snd (fst (x2_write_vdelta_nz (Z.lxor v base) lead trail)))
            (snd (x2_write_vdelta_nz (Z.lxor v base) lead trail)) l' t' /\
    wf_window l' t'.
Proof.
  intros Hb Hv Hne Hbase Hrel Hwf.
  pose proof (lxor_u64 v base Hv Hb) as Hd.
  assert (Hd' : 0 < Z.lxor v base < 2 ^ 64).
  { unfold is_u64 in Hd. change (2 ^ 64) with 18446744073709551616.
    assert (Z.lxor v base <> 0) by (intros Hc; apply Z.lxor_eq in Hc; contradiction). lia. }
  set (delta := Z.lxor v base) in *.
  destruct (x2_window_spec delta lead trail _ _ Hd' Hrel Hwf) as [Hw [Hl [Ht Hre]]].
  unfold x2_write_vdelta_nz.
  destruct (x2_window delta lead trail) as [[reuse l] t] eqn:Hwin. cbn [fst snd] in *.
  exists l, t. split; [|split; [right; split; reflexivity|exact Hw]].
  intros r. unfold x2_decode_value_nz, x2_window_bits. destruct reuse.
  - destruct (Hre eq_refl) as [El Et]. cbn [app get_bit]. unfold x2_read_reuse.
    rewrite <- El, <- Et, Hbase. rewrite read_reuse_rt by assumption.
    unfold delta. rewrite lxor_base. reflexivity.
  - cbn [app get_bit]. unfold x2_read_new. rewrite Hbase. rewrite <- !app_assoc.
    rewrite read_new_rt by assumption. unfold delta. rewrite lxor_base. reflexivity.
Qed.

Lemma is_stale_true v : is_stale v = true -> v = staleNaN.
Proof. unfold is_stale. apply Z.eqb_eq. Qed.

(* writeVDelta / decodeValue *)
Lemma x2_vdelta_rt it base v lead trail :
  is_u64 base -> is_u64 v -> j_base it = base ->
  win_rel lead trail (j_lead it) (j_trail it) -> wf_window (j_lead it) (j_trail it) ->
  exists l' t',
    (forall r, x2_decode_value it (fst (fst (x2_write_vdelta base v lead trail)) ++ r)
               = Some (v, newbase base v, l', t', r)) /\
    win_rel (snd (fst (x2_write_vdelta base v lead trail))) (snd (x2_write_vdelta base v lead trail)) l' t' /\
    wf_window l' t'.
Proof.
  intros Hb Hv Hbase Hrel Hwf. unfold x2_write_vdelta, newbase.
  destruct (is_stale v) eqn:Hst.
  { apply is_stale_true in Hst. subst v. exists (j_lead it), (j_trail it). cbn [fst snd].
    split; [|split; assumption]. intros r. unfold x2_decode_value. cbn [app get_bit]. rewrite Hbase. reflexivity. }
  destruct (Z.eqb_spec (Z.lxor v base) 0) as [Hz|Hnz].
  { apply Z.lxor_eq in Hz. subst v. exists (j_lead it), (j_trail it). cbn [fst snd].
    split; [|split; assumption]. intros r. unfold x2_decode_value. cbn [app get_bit]. rewrite Hbase. reflexivity. }
  pose proof (lxor_u64 v base Hv Hb) as Hd.
  assert (Hd' : 0 < Z.lxor v base < 2 ^ 64).
  { unfold is_u64 in Hd. change (2 ^ 64) with 18446744073709551616. lia. }
  set (delta := Z.lxor v base) in *.
  destruct (x2_window_spec delta lead trail _ _ Hd' Hrel Hwf) as [Hw [Hl [Ht Hre]]].
  destruct (x2_window delta lead trail) as [[reuse l] t] eqn:Hwin. cbn [fst snd] in *.
  exists l, t. split; [|split; [right; split; reflexivity|exact Hw]].
  intros r. unfold x2_decode_value, x2_window_bits. destruct reuse.
  - destruct (Hre eq_refl) as [El Et]. cbn [app get_bit]. unfold x2_read_reuse.
    rewrite <- El, <- Et, Hbase. rewrite read_reuse_rt by assumption.
    unfold delta. rewrite lxor_base. reflexivity.
  - cbn [app get_bit]. unfold x2_read_new. rewrite Hbase. rewrite <- !app_assoc.
    rewrite read_new_rt by assumption. unfold delta. rewrite lxor_base. reflexivity.
Qed.

(* ---- the joint timestamp/value encoding of samples >= 2 ----------------------------------------- *)

Lemma U64_W64 x : is_u64 x -> U64 (W64 x) = x.
Proof.
  unfold is_u64. intros H. rewrite W64_eq, U64_eq. unfold wrap64, u64, two64. Z.div_mod_to_equations. lia.
Qed.

Lemma sign13 d : -4096 <= d <= 4095 ->
  W64 (if (13 <? 64) && (2 ^ (13 - 1) <=? d mod 2 ^ 13) then U64 (d mod 2 ^ 13 - 2 ^ 13) else d mod 2 ^ 13) = d.
Proof.
  intros H. change (13 <? 64) with true. change (2 ^ (13 - 1)) with 4096. change (2 ^ 13) with 8192. cbn [andb].
  destruct (Z.leb_spec 4096 (d mod 8192)).
  - rewrite U64_eq, W64_eq. unfold wrap64, u64, two64. Z.div_mod_to_equations. lia.
  - rewrite W64_eq. unfold wrap64, two64. Z.div_mod_to_equations. lia.
Qed.

Lemma sign20 d : -524288 <= d <= 524287 ->
  W64 (if (20 <? 64) && (2 ^ (20 - 1) <=? d mod 2 ^ 20) then U64 (d mod 2 ^ 20 - 2 ^ 20) else d mod 2 ^ 20) = d.
Proof.
  intros H. change (20 <? 64) with true. change (2 ^ (20 - 1)) with 524288. change (2 ^ 20) with 1048576. cbn [andb].
  destruct (Z.leb_spec 524288 (d mod 1048576)).
  - rewrite U64_eq, W64_eq. unfold wrap64, u64, two64. Z.div_mod_to_equations. lia.
  - rewrite W64_eq. unfold wrap64, two64. Z.div_mod_to_equations. lia.
Qed.

Lemma x2_joint_rt it base v lead trail t :
  int64 (j_t it) -> int64 t -> is_u64 (j_tDelta it) -> is_u64 base -> is_u64 v -> j_base it = base ->
  win_rel lead trail (j_lead it) (j_trail it) -> wf_window (j_lead it) (j_trail it) ->
  forall tD dod, tD = U64 (t - j_t it) -> dod = W64 (tD - j_tDelta it) ->
  exists l' t',
    (forall r, x2_read_joint it (fst (fst (x2_encode_joint dod base v lead trail)) ++ r)
               = Some (tD, t, v, newbase base v, l', t', r)) /\
    win_rel (snd (fst (x2_encode_joint dod base v lead trail))) (snd (x2_encode_joint dod base v lead trail)) l' t' /\
    wf_window l' t'.
Proof.
  intros Ht0 Ht Htd Hb Hv Hbase Hrel Hwf tD dod EtD Edod.
  assert (HtD : is_u64 tD) by (rewrite EtD; apply U64_range).
  assert (Hrt : U64 (W64 (j_tDelta it) + dod) = tD) by (rewrite Edod; apply dod_rt; assumption).
  assert (Htt : W64 (j_t it + W64 tD) = t) by (rewrite EtD; apply ts_delta_rt; assumption).
  assert (Hdod : int64 dod) by (rewrite Edod; apply W64_range).
  clear EtD Edod.
  unfold x2_encode_joint.
  destruct (Z.eqb_spec dod 0) as [H0|Hn0].
  { (* dod = 0 *)
    assert (HtD0 : tD = j_tDelta it).
    { rewrite H0, Z.add_0_r in Hrt. rewrite U64_W64 in Hrt by exact Htd. congruence. }
    destruct (is_stale v) eqn:Hst.
    { apply is_stale_true in Hst. exists (j_lead it), (j_trail it). cbn [fst snd].
      split; [|split; assumption]. intros r. unfold x2_read_joint. cbn [app read_ones Z.eqb Z.add Pos.add Pos.succ].
      rewrite <- HtD0, Htt. unfold newbase. subst v. cbn. rewrite Hbase. reflexivity. }
    destruct (Z.eqb_spec (Z.lxor v base) 0) as [Hz|Hnz].
    { apply Z.lxor_eq in Hz. exists (j_lead it), (j_trail it). cbn [fst snd].
      split; [|split; assumption]. intros r. unfold x2_read_joint. cbn [app read_ones Z.eqb].
      rewrite <- HtD0, Htt. unfold newbase. rewrite Hst, Hbase, Hz. reflexivity. }
    assert (Hne : v <> base) by (intros Hc; apply Hnz; rewrite Hc; apply Z.lxor_nilpotent).
    destruct (x2_vdelta_nz_rt it base v lead trail Hb Hv Hne Hbase Hrel Hwf) as [l' [t' [Hrd [Hrel' Hwf']]]].
    destruct (x2_write_vdelta_nz (Z.lxor v base) lead trail) as [[b l] tr] eqn:Hw. cbn [fst snd] in *.
    exists l', t'. split; [|split; assumption]. intros r. unfold x2_read_joint.
    cbn [app read_ones Z.eqb Z.add Pos.add Pos.succ]. rewrite Hrd.
    rewrite <- HtD0, Htt. unfold newbase. rewrite Hst. reflexivity. }
  (* dod <> 0 *)
  assert (Hvalue : exists l' t' vb lw tw,
    (if v =? base then ([false], lead, trail) else x2_write_vdelta base v lead trail) = (vb, lw, tw) /\
    (forall r, x2_decode_value it (vb ++ r) = Some (v, newbase base v, l', t', r)) /\
    win_rel lw tw l' t' /\ wf_window l' t').
  { destruct (Z.eqb_spec v base) as [He|Hne].
    - exists (j_lead it), (j_trail it), [false], lead, trail. split; [reflexivity|]. split; [|split; assumption].
      intros r. unfold x2_decode_value. cbn [app get_bit]. rewrite Hbase. unfold newbase. rewrite He.
      destruct (is_stale base); reflexivity.
    - destruct (x2_vdelta_rt it base v lead trail Hb Hv Hbase Hrel Hwf) as [l' [t' [Hrd [Hrel' Hwf']]]].
      destruct (x2_write_vdelta base v lead trail) as [[vb lw] tw]. cbn [fst snd] in *.
      exists l', t', vb, lw, tw. split; [reflexivity|]. split; [exact Hrd|]. split; assumption. }
  destruct Hvalue as [l' [t' [vb [lw [tw [Hveq [Hvrd [Hvrel Hvwf]]]]]]]].
  assert (Hshape : forall tb, 
     (if v =? base then (tb ++ [false], lead, trail)
      else let '(b, l, t0) := x2_write_vdelta base v lead trail in (tb ++ b, l, t0)) = (tb ++ vb, lw, tw)).
  { intros tb. destruct (v =? base).
    - injection Hveq as E1 E2 E3. subst. reflexivity.
    - rewrite Hveq. reflexivity. }
  rewrite Hshape. cbn [fst snd].
  exists l', t'. split; [|split; assumption]. intros r. unfold x2_read_joint.
  destruct ((-4096 <=? dod) && (dod <=? 4095)) eqn:H13.
  { apply andb_true_iff in H13. destruct H13 as [Ha Hb']. apply Z.leb_le in Ha, Hb'.
    cbn [app read_ones Z.eqb Z.add Pos.add Pos.succ]. unfold x2_read_dod.
    rewrite <- !app_assoc. change (Z.to_nat 13) with 13%nat. rewrite get_put_nat. change (Z.of_nat 13) with 13.
    rewrite sign13 by lia. rewrite Hrt, Htt, Hvrd. reflexivity. }
  destruct ((-524288 <=? dod) && (dod <=? 524287)) eqn:H20.
  { apply andb_true_iff in H20. destruct H20 as [Ha Hb']. apply Z.leb_le in Ha, Hb'.
    cbn [app read_ones Z.eqb Z.add Pos.add Pos.succ]. unfold x2_read_dod.
    rewrite <- !app_assoc. change (Z.to_nat 20) with 20%nat. rewrite get_put_nat. change (Z.of_nat 20) with 20.
    rewrite sign20 by lia. rewrite Hrt, Htt, Hvrd. reflexivity. }
  cbn [app read_ones Z.eqb Z.add Pos.add Pos.succ]. unfold x2_read_dod.
  rewrite <- !app_assoc. change (Z.to_nat 64) with 64%nat. rewrite get_put_nat. change (Z.of_nat 64) with 64.
  change (64 <? 64) with false. rewrite andb_false_l. cbv iota. rewrite W64_mod64 by exact Hdod.
  rewrite Hrt, Htt, Hvrd. reflexivity.
Qed.

(* ---- the ST header: appender-side invariants ---------------------------------------------------- *)

Lemma lor128 n : 0 <= n < 128 -> Z.lor 128 n = 128 + n.
Proof.
  intros H.
  assert (Hall : forallb (fun k => Z.lor 128 (Z.of_nat k) =? 128 + Z.of_nat k) (seq 0 128) = true) by (vm_compute; reflexivity).
  rewrite forallb_forall in Hall. specialize (Hall (Z.to_nat n)).
  rewrite Z2Nat.id in Hall by lia. apply Z.eqb_eq, Hall. apply in_seq. lia.
Qed.

Definition hdr_of (a : x2app) : Z := (if b_fsk a then 128 else 0) + b_fsco a.

Definition HdrInv (a : x2app) (hdr : Z) : Prop :=
  hdr = hdr_of a /\ 0 <= b_fsco a <= 127 /\ (b_fsco a = 0 -> b_num a <= 127) /\
  (0 < b_fsco a -> b_fsco a < b_num a) /\ (b_num a = 0 -> b_fsk a = false) /\ 0 <= b_num a.

(* what the final header can still become, seen from an intermediate appender state *)
Definition Fut (a aF : x2app) : Prop :=
  b_num a <= b_num aF /\ (1 <= b_num a -> b_fsk aF = b_fsk a) /\
  (0 < b_fsco a -> b_fsco aF = b_fsco a) /\
  (b_fsco a = 0 -> b_fsco aF = 0 \/ b_num a <= b_fsco aF).

Lemma Fut_refl a : Fut a a.
Proof. unfold Fut. repeat split; try lia; auto. Qed.

Lemma Fut_trans a b c : Fut a b -> Fut b c -> 0 <= b_fsco b -> Fut a c.
Proof.
  intros [A1 [A2 [A3 A4]]] [B1 [B2 [B3 B4]]] Hb. unfold Fut.
  split; [lia|]. split; [|split].
  - intros H. rewrite B2 by lia. apply A2. exact H.
  - intros H. rewrite B3 by (rewrite A3; lia). apply A3. exact H.
  - intros H. destruct (A4 H) as [E|E].
    + destruct (B4 E) as [F|F]; [left; exact F|right; lia].
    + destruct (Z.eq_dec (b_fsco b) 0) as [Z0|NZ].
      * destruct (B4 Z0) as [F|F]; [left; exact F|right; lia].
      * right. rewrite B3 by lia. exact E.
Qed.

Lemma x2_append_hdr a hdr st t v b a' hdr' :
  HdrInv a hdr -> x2_append a hdr st t v = Some (b, a', hdr') ->
  HdrInv a' hdr' /\ Fut a a' /\ b_num a' = b_num a + 1.
Proof.
  intros [Hh [Hf [Hf0 [Hf1 [Hk0 Hn0]]]]] Happ. unfold x2_append in Happ.
  destruct (Z.eqb_spec (b_num a) 0) as [E0|N0].
  { assert (Hfs : b_fsco a = 0) by lia. specialize (Hk0 E0).
    injection Happ as Hb Ha Hhd. subst b a' hdr'. unfold HdrInv, Fut, hdr_of in *. cbn.
    rewrite Hk0, Hfs in *. destruct (st =? 0); cbn; repeat split; try lia; auto. }
  destruct (Z.eqb_spec (b_num a) 1) as [E1|N1].
  { assert (Hfs : b_fsco a = 0) by lia.
    destruct (x2_write_vdelta (b_v a) v (b_lead a) (b_trail a)) as [[vb l] tr].
    destruct (st =? b_st a).
    - injection Happ as Hb Ha Hhd. subst b a' hdr'. unfold HdrInv, Fut, hdr_of in *. cbn.
      rewrite Hfs in *. repeat split; try lia; auto.
    - injection Happ as Hb Ha Hhd. subst b a' hdr'. unfold HdrInv, Fut, hdr_of, set_fsco_hdr in *. cbn.
      rewrite Hfs in *. subst hdr. destruct (b_fsk a); cbn; repeat split; try lia; auto. }
  destruct (Z.eqb_spec (b_num a) 65535) as [E2|N2]; [discriminate|].
  destruct (x2_encode_joint (W64 (U64 (t - b_t a) - b_tDelta a)) (b_v a) v (b_lead a) (b_trail a)) as [[jb l] tr].
  destruct ((b_fsco a =? 0) && (st =? b_st a) && negb (b_num a =? 127)) eqn:HA.
  { apply andb_true_iff in HA. destruct HA as [HA1 HA3]. apply andb_true_iff in HA1. destruct HA1 as [HA1 HA2].
    apply Z.eqb_eq in HA1. apply negb_true_iff, Z.eqb_neq in HA3.
    injection Happ as Hb Ha Hhd. subst b a' hdr'. unfold HdrInv, Fut, hdr_of in *. cbn.
    repeat split; try lia; auto. }
  destruct (Z.ltb_spec 0 (b_fsco a)) as [HB|HC].
  { injection Happ as Hb Ha Hhd. subst b a' hdr'. unfold HdrInv, Fut, hdr_of in *. cbn.
    repeat split; try lia; auto. }
  assert (Hfs : b_fsco a = 0) by lia. specialize (Hf0 Hfs).
  injection Happ as Hb Ha Hhd. subst b a' hdr'. unfold HdrInv, Fut, hdr_of, set_fsco_hdr in *. cbn.
  replace (b_num a <=? 127) with true by (symmetry; apply Z.leb_le; lia).
  rewrite Hfs in *. subst hdr. destruct (b_fsk a); cbn [Z.add].
  - rewrite lor128 by lia. repeat split; try lia; auto.
  - rewrite Z.lor_0_l. repeat split; try lia; auto.
Qed.

(* proof/DiscoveryProofs.v — proofs about model/Discovery.v (property C47). *)
From Coq Require Import List ZArith Bool Lia Arith PeanoNat.
From Verif Require Import model.Discovery.
Import ListNotations.
Open Scope Z_scope.

(* ================= part 1: the fold specification of updateGroup ================= *)

Lemma iget_iset_same : forall k g m, iget k (iset k g m) = Some g.
Proof.
  induction m as [|[k' g'] r IH]; cbn.
  - now rewrite Z.eqb_refl.
  - destruct (k =? k') eqn:E; cbn; rewrite ?Z.eqb_refl, ?E; auto.
Qed.

Lemma iget_iset_other : forall k k' g m, k <> k' -> iget k (iset k' g m) = iget k m.
Proof.
  induction m as [|[k2 g2] r IH]; intros Hne; cbn.
  - destruct (k =? k') eqn:E; auto. apply Z.eqb_eq in E. contradiction.
  - destruct (k' =? k2) eqn:E; cbn.
    + apply Z.eqb_eq in E. subst k2. cbn.
      destruct (k =? k') eqn:E2; auto. apply Z.eqb_eq in E2. contradiction.
    + cbn. destruct (k =? k2); auto.
Qed.

Lemma iget_idel_same : forall k m, iget k (idel k m) = None.
Proof.
  induction m as [|[k' g'] r IH]; cbn; auto.
  destruct (k' =? k) eqn:E; cbn; auto.
  rewrite Z.eqb_sym, E. auto.
Qed.

Lemma iget_idel_other : forall k k' m, k <> k' -> iget k (idel k' m) = iget k m.
Proof.
  induction m as [|[k2 g2] r IH]; intros Hne; cbn; auto.
  destruct (k2 =? k') eqn:E; cbn.
  - apply Z.eqb_eq in E. subst k2.
    destruct (k =? k') eqn:E2; auto. apply Z.eqb_eq in E2. contradiction.
  - destruct (k =? k2); auto.
Qed.

(* the last group with source k in a list of groups *)
Fixpoint last_of (k : Z) (l : list group) : option group :=
  match l with
  | [] => None
  | g :: r => match last_of k r with
              | Some x => Some x
              | None => if gsrc g =? k then Some g else None
              end
  end.

Definition somes (b : batch) : list group :=
  flat_map (fun og => match og with Some g => [g] | None => [] end) b.

Definition nonempty_or_none (o : option group) : option group :=
  match o with Some g => if 0 <? gnt g then Some g else None | None => None end.

Lemma iget_apply_group : forall k m og,
  iget k (apply_group m og) =
  match og with
  | Some g => if gsrc g =? k then nonempty_or_none (Some g) else iget k m
  | None => iget k m
  end.
Proof.
  intros k m [g|]; cbn; auto.
  destruct (gsrc g =? k) eqn:E.
  - apply Z.eqb_eq in E. subst k. destruct (0 <? gnt g).
    + apply iget_iset_same.
    + apply iget_idel_same.
  - assert (k <> gsrc g) by (intro; subst; rewrite Z.eqb_refl in E; discriminate).
    destruct (0 <? gnt g).
    + now apply iget_iset_other.
    + now apply iget_idel_other.
Qed.

Lemma iget_fold_groups : forall k b m,
  iget k (fold_left apply_group b m) =
  match last_of k (somes b) with
  | Some g => nonempty_or_none (Some g)
  | None => iget k m
  end.
Proof.
  induction b as [|og r IH]; intros m; cbn [fold_left]; auto.
  rewrite IH, iget_apply_group.
  destruct og as [g|]; cbn [somes flat_map app last_of].
  - fold (somes r). destruct (last_of k (somes r)); auto. destruct (gsrc g =? k); auto.
  - fold (somes r). reflexivity.
Qed.

Lemma fold_batches_concat : forall h m,
  fold_left apply_batch h m = fold_left apply_group (concat h) m.
Proof.
  induction h as [|b r IH]; intros m; cbn; auto.
  rewrite IH. unfold apply_batch. now rewrite fold_left_app.
Qed.

Lemma flat_somes_concat : forall h, flat h = somes (concat h).
Proof.
  induction h as [|b r IH]; cbn; auto.
  unfold flat in *. cbn. rewrite IH. unfold somes. now rewrite flat_map_app.
Qed.

(* latest group per source wins; a source whose latest group is empty is absent *)
Lemma fold_lookup : forall h k,
  iget k (fold_batches h) = nonempty_or_none (last_of k (flat h)).
Proof.
  intros. unfold fold_batches. rewrite fold_batches_concat, iget_fold_groups, flat_somes_concat.
  destruct (last_of k (somes (concat h))); auto.
Qed.

(* keys of the folded map are distinct, and every entry is stored under its own source *)
Definition wf_imap (m : imap) : Prop :=
  NoDup (map fst m) /\ forall k g, In (k, g) m -> k = gsrc g.

Lemma in_iset : forall k g m x, In x (iset k g m) -> x = (k, g) \/ In x m.
Proof.
  induction m as [|[k' g'] r IH]; cbn; intros x H.
  - destruct H; auto.
  - destruct (k =? k'); cbn in H.
    + destruct H; auto.
    + destruct H; auto. apply IH in H. tauto.
Qed.

Lemma keys_iset : forall k g m x, In x (map fst (iset k g m)) -> x = k \/ In x (map fst m).
Proof.
  intros. apply in_map_iff in H. destruct H as [[k' g'] [<- Hin]]. apply in_iset in Hin.
  destruct Hin as [E|Hin]; [inversion E; auto|]. right. apply in_map_iff. now exists (k', g').
Qed.

Lemma nodup_iset : forall k g m, NoDup (map fst m) -> NoDup (map fst (iset k g m)).
Proof.
  induction m as [|[k' g'] r IH]; cbn; intros H.
  - constructor; auto; constructor.
  - inversion H; subst. destruct (k =? k') eqn:E; cbn.
    + apply Z.eqb_eq in E. subst. now constructor.
    + constructor; auto. intro Hin. apply keys_iset in Hin. destruct Hin; auto.
      subst. now rewrite Z.eqb_refl in E.
Qed.

Lemma nodup_filter_keys : forall (f : Z * group -> bool) m, NoDup (map fst m) -> NoDup (map fst (filter f m)).
Proof.
  induction m as [|x r IH]; cbn; intros H; auto.
  inversion H; subst. destruct (f x); cbn; auto.
  constructor; auto. intro Hin. apply H2.
  apply in_map_iff in Hin. destruct Hin as [y [E Hy]]. apply filter_In in Hy.
  apply in_map_iff. exists y. tauto.
Qed.

Lemma wf_apply_group : forall m og, wf_imap m -> wf_imap (apply_group m og).
Proof.
  intros m [g|] [Hnd Hk]; cbn; [|split; auto].
  destruct (0 <? gnt g); split.
  - now apply nodup_iset.
  - intros k g' Hin. apply in_iset in Hin. destruct Hin as [E|Hin]; [inversion E; auto|eauto].
  - now apply nodup_filter_keys.
  - intros k g' Hin. apply filter_In in Hin. destruct Hin. eauto.
Qed.

Lemma wf_fold_batches : forall h, wf_imap (fold_batches h).
Proof.
  intros. unfold fold_batches. rewrite fold_batches_concat.
  assert (G : forall l m, wf_imap m -> wf_imap (fold_left apply_group l m)).
  { induction l; cbn; auto using wf_apply_group. }
  apply G. split; [constructor|intros ? ? []].
Qed.

Lemma iget_in : forall m k g, NoDup (map fst m) -> (In (k, g) m <-> iget k m = Some g).
Proof.
  induction m as [|[k' g'] r IH]; cbn; intros k g Hnd.
  - split; [tauto|discriminate].
  - inversion Hnd; subst. destruct (k =? k') eqn:E.
    + apply Z.eqb_eq in E. subst k'. split.
      * intros [H|H]; [now inversion H|]. exfalso. apply H1. apply in_map_iff. now exists (k, g).
      * intros H. inversion H. auto.
    + split.
      * intros [H|H]; [inversion H; subst; now rewrite Z.eqb_refl in E|]. now apply IH.
      * intros H. right. now apply IH.
Qed.

(* `latest` (what the harness-side specification uses) is the same set of groups *)
Lemma last_of_app : forall k l1 l2,
  last_of k (l1 ++ l2) = match last_of k l2 with Some x => Some x | None => last_of k l1 end.
Proof.
  induction l1 as [|g r IH]; intros l2; cbn.
  - destruct (last_of k l2); auto.
  - rewrite IH. destruct (last_of k l2); auto.
Qed.

Lemma last_of_rev_find : forall k l, last_of k l = find (fun g => gsrc g =? k) (rev l).
Proof.
  intros k l. rewrite <- (rev_involutive l) at 1. generalize (rev l) as l'. clear l.
  induction l' as [|g r IH]; cbn; auto.
  rewrite last_of_app, IH. cbn. destruct (gsrc g =? k); auto.
Qed.

Lemma zmem_true : forall x l, zmem x l = true <-> In x l.
Proof.
  intros. unfold zmem. rewrite existsb_exists. split.
  - intros [y [H E]]. apply Z.eqb_eq in E. now subst.
  - intros H. exists x. split; auto. apply Z.eqb_refl.
Qed.

Lemma in_latest_rev : forall l seen g,
  In g (latest_rev seen l) <->
  find (fun x => gsrc x =? gsrc g) l = Some g /\ 0 < gnt g /\ ~ In (gsrc g) seen.
Proof.
  induction l as [|x r IH]; intros seen g; cbn.
  - split; [tauto|intros [H _]; discriminate].
  - destruct (zmem (gsrc x) seen) eqn:M.
    + rewrite IH. apply zmem_true in M. destruct (gsrc x =? gsrc g) eqn:E.
      * apply Z.eqb_eq in E. split.
        -- intros [_ [_ H]]. rewrite <- E in H. contradiction.
        -- intros [H1 [_ H]]. inversion H1; subst. contradiction.
      * tauto.
    + assert (Hns : ~ In (gsrc x) seen) by (intro H; apply zmem_true in H; congruence).
      rewrite in_app_iff, IH. cbn [In]. destruct (gsrc x =? gsrc g) eqn:E.
      * apply Z.eqb_eq in E. split.
        -- intros [H|[_ [_ H]]].
           ++ destruct (0 <? gnt x) eqn:P; [|destruct H]. destruct H as [H|[]]. subst x.
              apply Z.ltb_lt in P. auto.
           ++ exfalso. apply H. now left.
        -- intros [H1 [H2 H3]]. inversion H1; subst x. left.
           apply Z.ltb_lt in H2. rewrite H2. now left.
      * split.
        -- intros [H|[H1 [H2 H3]]].
           ++ destruct (0 <? gnt x); [|destruct H]. destruct H as [H|[]]. subst x.
              now rewrite Z.eqb_refl in E.
           ++ tauto.
        -- intros [H1 [H2 H3]]. right. split; auto. split; auto.
           intros [H|H]; auto. rewrite H in E. now rewrite Z.eqb_refl in E.
Qed.

Lemma find_src : forall k l g, find (fun x => gsrc x =? k) l = Some g -> gsrc g = k.
Proof.
  intros. apply find_some in H. destruct H. now apply Z.eqb_eq.
Qed.

Theorem fold_is_latest : forall h g,
  In g (map snd (fold_batches h)) <-> In g (latest h).
Proof.
  intros h g. destruct (wf_fold_batches h) as [Hnd Hk].
  unfold latest. rewrite in_latest_rev, <- last_of_rev_find.
  split.
  - intros Hin. apply in_map_iff in Hin. destruct Hin as [[k g'] [E Hin]]. cbn in E. subst g'.
    pose proof (Hk _ _ Hin) as ->. apply iget_in in Hin; auto. rewrite fold_lookup in Hin.
    destruct (last_of (gsrc g) (flat h)) as [x|]; cbn in Hin; [|discriminate].
    destruct (0 <? gnt x) eqn:P; [|discriminate]. inversion Hin; subst x.
    apply Z.ltb_lt in P. auto.
  - intros [H1 [H2 _]]. apply in_map_iff. exists (gsrc g, g). split; auto.
    apply iget_in; auto. rewrite fold_lookup, H1. cbn. apply Z.ltb_lt in H2. now rewrite H2.
Qed.

(* ================= part 2: safety — no lost update ================= *)

Definition uidle (p : prov) : bool := match pu p with UIdle => true | _ => false end.

(* nothing is in flight on the producer side: trigger not armed, every updater idle *)
Definition quiescent (s : state) : Prop :=
  trigger s = false /\ forallb uidle (providers s) = true.

(* what the sender holds (or has handed over) is the current state *)
Definition sender_ok (s : state) : Prop :=
  match sender s with
  | SIdle => delivered s = allGroups (providers s) (targets s)
  | SSnap k acc => acc = fold_left (ag_prov (targets s)) (firstn k (providers s)) []
  | SHave acc => acc = allGroups (providers s) (targets s)
  | SRearm => True      (* the pending put-back of the trigger is the propagation in flight *)
  end.

Definition Inv (s : state) : Prop := quiescent s -> sender_ok s.

Definition reachable (s : state) : Prop := exists tr, run init tr = Some s.

Lemma replace_first_not_idle : forall pn p' P p,
  find (hasname pn) P = Some p -> uidle p' = false -> forallb uidle (replace_first pn p' P) = false.
Proof.
  induction P as [|q r IH]; cbn; intros p Hf Hn; [discriminate|].
  destruct (hasname pn q); cbn.
  - now rewrite Hn.
  - rewrite (IH p); auto. apply andb_false_r.
Qed.

Lemma replace_first_length : forall pn p' P, length (replace_first pn p' P) = length P.
Proof. induction P as [|q r IH]; cbn; auto. destruct (hasname pn q); cbn; auto. Qed.

Lemma firstn_S_nth : forall (A : Type) (l : list A) k x,
  nth_error l k = Some x -> firstn (S k) l = firstn k l ++ [x].
Proof.
  induction l as [|a r IH]; intros k x H.
  - destruct k; discriminate.
  - destruct k; cbn in *.
    + now inversion H.
    + f_equal. now apply IH.
Qed.

Lemma add_cfg_length : forall s st c, (length (fst (fst st)) <= length (fst (fst (add_cfg s st c))))%nat.
Proof.
  intros s [[P last] added] c. unfold add_cfg.
  assert (L : forall c s P, length (add_newsub c s P) = length P).
  { clear. induction P as [|p r IH]; cbn; auto. destruct (pcfg p =? c); cbn; auto. }
  destruct (existsb _ P); cbn; [rewrite L; lia|].
  destruct (snd c); cbn; [rewrite app_length; lia|lia].
Qed.

Lemma fold_add_cfg_length : forall s cs st,
  (length (fst (fst st)) <= length (fst (fst (fold_left (add_cfg s) cs st))))%nat.
Proof.
  induction cs as [|c r IH]; intros st; cbn; auto.
  etransitivity; [apply (add_cfg_length s st c)|apply IH].
Qed.

Lemma register_job_length : forall st jc, (length (fst st) <= length (fst (register_job st jc)))%nat.
Proof.
  intros [P last] jc. unfold register_job.
  pose proof (fold_add_cfg_length (fst jc) (snd jc) (P, last, false)) as H.
  destruct (fold_left (add_cfg (fst jc)) (snd jc) (P, last, false)) as [[P1 last1] added] eqn:E.
  cbn in H. destruct added; [cbn; auto|].
  pose proof (add_cfg_length (fst jc) (P1, last1, false) (STATIC_EMPTY, true)) as H2.
  destruct (add_cfg (fst jc) (P1, last1, false) (STATIC_EMPTY, true)) as [[P2 last2] a2].
  cbn in *. lia.
Qed.

Lemma register_length : forall c P last, (length P <= length (fst (register c P last)))%nat.
Proof.
  unfold register. intros c. induction c as [|jc r IH]; intros P last; [cbn; auto|].
  cbn [fold_left].
  pose proof (register_job_length (P, last) jc) as H.
  destruct (register_job (P, last) jc) as [P1 last1]. cbn [fst] in H.
  etransitivity; [apply H|apply IH].
Qed.

Lemma step_inv : forall s l s', Inv s -> step s l = Some s' -> Inv s'.
Proof.
  intros s l s' HI Hs. unfold Inv in *.
  destruct l; cbn in Hs.
  - (* EUpdate *)
    destruct (find (hasname pn) (providers s)) as [p|] eqn:F; [|discriminate].
    destruct (pu p); try discriminate. destruct (pstarted p); [|discriminate].
    inversion Hs; subst s'. intros [_ Q]. cbn in Q.
    rewrite (replace_first_not_idle _ _ _ _ F) in Q; [discriminate|reflexivity].
  - (* ELock *)
    destruct (find (hasname pn) (providers s)) as [p|] eqn:F; [|discriminate].
    destruct (pu p); try discriminate.
    inversion Hs; subst s'. intros [_ Q]. cbn in Q.
    rewrite (replace_first_not_idle _ _ _ _ F) in Q; [discriminate|reflexivity].
  - (* ESub *)
    destruct (find (hasname pn) (providers s)) as [p|] eqn:F; [|discriminate].
    destruct (pu p) as [| |b [|j rem]|]; try discriminate.
    inversion Hs; subst s'. intros [_ Q]. cbn in Q.
    rewrite (replace_first_not_idle _ _ _ _ F) in Q; [discriminate|reflexivity].
  - (* EUnlock *)
    destruct (find (hasname pn) (providers s)) as [p|] eqn:F; [|discriminate].
    destruct (pu p) as [| |b [|j rem]|]; try discriminate.
    inversion Hs; subst s'. intros [_ Q]. cbn in Q.
    rewrite (replace_first_not_idle _ _ _ _ F) in Q; [discriminate|reflexivity].
  - (* ETrig *)
    destruct (find (hasname pn) (providers s)) as [p|] eqn:F; [|discriminate].
    destruct (pu p); try discriminate.
    inversion Hs; subst s'. intros [Q _]. cbn in Q. discriminate.
  - (* ETake *)
    destruct (sender s) eqn:S; try discriminate. destruct (trigger s); [|discriminate].
    inversion Hs; subst s'. intros _. unfold sender_ok. cbn. reflexivity.
  - (* ESnapProv *)
    destruct (sender s) as [|k acc| |] eqn:S; try discriminate.
    destruct (nth_error (providers s) k) as [p|] eqn:N; [|discriminate].
    inversion Hs; subst s'. intros Q. unfold quiescent in Q. cbn in Q.
    specialize (HI Q). unfold sender_ok in *. rewrite S in HI. cbn [sender providers targets].
    rewrite (firstn_S_nth _ _ _ _ N), fold_left_app. cbn. now rewrite <- HI.
  - (* ESnapDone *)
    destruct (sender s) as [|k acc| |] eqn:S; try discriminate.
    destruct (Nat.leb (length (providers s)) k) eqn:L; [|discriminate].
    inversion Hs; subst s'. intros Q. unfold quiescent in Q. cbn in Q.
    specialize (HI Q). unfold sender_ok in *. rewrite S in HI. cbn.
    apply Nat.leb_le in L. rewrite firstn_all2 in HI; auto.
  - (* ESend *)
    destruct (sender s) as [| |acc|] eqn:S; try discriminate.
    destruct (cwait s).
    + inversion Hs; subst s'. intros Q. unfold quiescent in Q. cbn in Q.
      specialize (HI Q). unfold sender_ok in *. rewrite S in HI. cbn. auto.
    + inversion Hs; subst s'. intros _. exact I.
  - (* ERearm *)
    destruct (sender s) eqn:S; try discriminate.
    inversion Hs; subst s'. intros [Q _]. cbn in Q. discriminate.
  - (* EWait *)
    destruct (cwait s); [discriminate|]. inversion Hs; subst s'.
    intros Q. unfold quiescent in Q. cbn in Q. specialize (HI Q).
    unfold sender_ok in *. cbn. auto.
  - (* EUnwait *)
    destruct (cwait s); [|discriminate]. inversion Hs; subst s'.
    intros Q. unfold quiescent in Q. cbn in Q. specialize (HI Q).
    unfold sender_ok in *. cbn. auto.
  - (* EReload *)
    unfold reload in Hs.
    pose proof (register_length c (providers s) (lastp s)) as RL.
    destruct (register c (providers s) (lastp s)) as [P1 last1]. cbn in RL.
    destruct (sender_allows_reload (sender s) && forallb _ P1); [|discriminate].
    destruct (fold_left reload_prov P1 ([], targets s)) as [NP T] eqn:R.
    inversion Hs; subst s'. intros [Q1 Q2]. cbn in Q1, Q2.
    apply orb_false_iff in Q1. destruct Q1 as [Q1 Q3].
    assert (P1 = []) by (destruct P1; cbn in Q1; auto; discriminate). subst P1.
    cbn in R. inversion R; subst NP T.
    assert (providers s = []) as EP by (destruct (providers s); cbn in RL; auto; lia).
    assert (quiescent s) as Q by (split; auto; rewrite EP; reflexivity).
    specialize (HI Q). unfold sender_ok in *. cbn. rewrite EP in HI. auto.
  - (* ESpurious *)
    inversion Hs; subst s'. intros [Q _]. cbn in Q. discriminate.
Qed.

Lemma run_inv : forall tr s s', Inv s -> run s tr = Some s' -> Inv s'.
Proof.
  induction tr as [|l r IH]; cbn; intros s s' HI H.
  - inversion H; subst; auto.
  - destruct (step s l) as [s1|] eqn:E; [|discriminate]. eauto using step_inv.
Qed.

Lemma inv_init : Inv init.
Proof. intros _. reflexivity. Qed.

(* Safety, for every interleaving of the atomic steps of providers, sender, consumer and
   reloads: in every reachable state, either an update is still being propagated (trigger armed
   or an updater mid-flight), or what the sender holds / the consumer last received is exactly
   allGroups of the current state. *)
Theorem no_lost_update : forall tr s,
  run init tr = Some s ->
  trigger s = true \/
  (exists p, In p (providers s) /\ uidle p = false) \/
  match sender s with
  | SIdle => delivered s = allGroups (providers s) (targets s)
  | SSnap k acc => acc = fold_left (ag_prov (targets s)) (firstn k (providers s)) []
  | SHave acc => acc = allGroups (providers s) (targets s)
  | SRearm => True
  end.
Proof.
  intros tr s H. pose proof (run_inv _ _ _ inv_init H) as HI.
  destruct (trigger s) eqn:T; auto. right.
  destruct (forallb uidle (providers s)) eqn:F.
  - right. apply HI. split; auto.
  - left. assert (G : forall P, forallb uidle P = false -> exists p, In p P /\ uidle p = false).
    { induction P as [|q r IH]; cbn; [discriminate|]. destruct (uidle q) eqn:U; cbn.
      - intros H1. destruct (IH H1) as [p [? ?]]. exists p. auto.
      - intros _. exists q. auto. }
    now apply G.
Qed.

(* ================= part 3: provider names are unique ================= *)

Definition names_ok (P : list prov) (last : Z) : Prop :=
  NoDup (map pname P) /\ Forall (fun p => pname p < last) P.

Lemma names_replace_first : forall pn p' P, pname p' = pn ->
  map pname (replace_first pn p' P) = map pname P.
Proof.
  induction P as [|q r IH]; cbn; intros E; auto.
  unfold hasname. destruct (pname q =? pn) eqn:H; cbn.
  - apply Z.eqb_eq in H. congruence.
  - now rewrite IH.
Qed.

Lemma find_hasname : forall pn P p, find (hasname pn) P = Some p -> pname p = pn /\ In p P.
Proof.
  intros. apply find_some in H. destruct H as [H1 H2]. unfold hasname in H2.
  apply Z.eqb_eq in H2. auto.
Qed.

Lemma forall_names : forall (P Q : list prov) last,
  map pname Q = map pname P -> Forall (fun p => pname p < last) P -> Forall (fun p => pname p < last) Q.
Proof.
  intros P Q last E H. rewrite Forall_forall in *. intros q Hq.
  assert (In (pname q) (map pname P)) as Hin by (rewrite <- E; now apply in_map).
  apply in_map_iff in Hin. destruct Hin as [p [Ep Hp]]. rewrite <- Ep. auto.
Qed.

Lemma names_ok_same : forall P Q last, map pname Q = map pname P -> names_ok P last -> names_ok Q last.
Proof.
  intros P Q last E [H1 H2]. split; [now rewrite E|eauto using forall_names].
Qed.

Lemma names_add_newsub : forall c s P, map pname (add_newsub c s P) = map pname P.
Proof.
  induction P as [|p r IH]; cbn; auto. destruct (pcfg p =? c); cbn; auto. now rewrite IH.
Qed.

Lemma names_ok_weaken : forall P last, names_ok P last -> names_ok P (last + 1).
Proof.
  intros P last [H1 H2]. split; auto. eapply Forall_impl; [|apply H2]. cbn. intros. lia.
Qed.

Lemma NoDup_snoc : forall (A : Type) (l : list A) x, NoDup l -> ~ In x l -> NoDup (l ++ [x]).
Proof.
  induction l as [|a r IH]; cbn; intros x H Hn.
  - constructor; auto; constructor.
  - inversion H; subst. constructor.
    + rewrite in_app_iff. cbn. intros [H4|[H4|[]]]; auto.
    + apply IH; auto.
Qed.

Lemma names_add_cfg : forall s st c,
  names_ok (fst (fst st)) (snd (fst st)) ->
  names_ok (fst (fst (add_cfg s st c))) (snd (fst (add_cfg s st c))).
Proof.
  intros s [[P last] added] c H. cbn in H. unfold add_cfg.
  destruct (existsb _ P); cbn.
  - eapply names_ok_same; [apply names_add_newsub|auto].
  - destruct (snd c); cbn; auto.
    destruct H as [H1 H2]. split.
    + rewrite map_app. cbn. apply NoDup_snoc; auto.
      intro Hin. apply in_map_iff in Hin. destruct Hin as [p [E Hp]].
      rewrite Forall_forall in H2. specialize (H2 _ Hp). lia.
    + apply Forall_app. split.
      * eapply Forall_impl; [|apply H2]. cbn. intros. lia.
      * constructor; [cbn; lia|constructor].
Qed.

Lemma names_fold_add_cfg : forall s cs st,
  names_ok (fst (fst st)) (snd (fst st)) ->
  names_ok (fst (fst (fold_left (add_cfg s) cs st))) (snd (fst (fold_left (add_cfg s) cs st))).
Proof. induction cs as [|c r IH]; intros st H; cbn [fold_left]; auto using names_add_cfg. Qed.

Lemma names_register_job : forall st jc,
  names_ok (fst st) (snd st) -> names_ok (fst (register_job st jc)) (snd (register_job st jc)).
Proof.
  intros [P last] jc H. unfold register_job.
  pose proof (names_fold_add_cfg (fst jc) (snd jc) (P, last, false) H) as H1.
  destruct (fold_left (add_cfg (fst jc)) (snd jc) (P, last, false)) as [[P1 last1] added].
  cbn [fst snd] in H1. destruct added; [cbn; auto|].
  pose proof (names_add_cfg (fst jc) (P1, last1, false) (STATIC_EMPTY, true) H1) as H2.
  destruct (add_cfg (fst jc) (P1, last1, false) (STATIC_EMPTY, true)) as [[P2 last2] a2].
  cbn in *. auto.
Qed.

Lemma names_register : forall c P last,
  names_ok P last -> names_ok (fst (register c P last)) (snd (register c P last)).
Proof.
  unfold register. induction c as [|jc r IH]; intros P last H; [cbn; auto|].
  cbn [fold_left]. pose proof (names_register_job (P, last) jc H) as H1.
  destruct (register_job (P, last) jc) as [P1 last1]. cbn [fst snd] in H1. auto.
Qed.

Definition kept (p : prov) : prov := mkP (pname p) (pcfg p) (pnew p) [] true (pu p) (papplied p).

Lemma reload_prov_fst : forall NP T p,
  fst (reload_prov (NP, T) p) = if cancelled p then NP else NP ++ [kept p].
Proof.
  intros. unfold reload_prov. destruct (cancelled p); cbn; auto.
  match goal with |- context [fold_left ?f (psubs p) ([], T)] => destruct (fold_left f (psubs p) ([], T)) end.
  reflexivity.
Qed.

Lemma reload_fold_fst : forall P1 NP T,
  fst (fold_left reload_prov P1 (NP, T)) = NP ++ map kept (filter (fun p => negb (cancelled p)) P1).
Proof.
  induction P1 as [|p r IH]; intros NP T; cbn [fold_left filter map].
  - now rewrite app_nil_r.
  - pose proof (reload_prov_fst NP T p) as H.
    destruct (reload_prov (NP, T) p) as [NP1 T1]. cbn [fst] in H. rewrite IH, H.
    destruct (cancelled p); cbn; auto. now rewrite <- app_assoc.
Qed.

Lemma names_ok_filter_kept : forall f P last,
  names_ok P last -> names_ok (map kept (filter f P)) last.
Proof.
  intros f P last [H1 H2]. split.
  - induction P as [|p r IH]; cbn; [constructor|].
    cbn in H1. inversion H1; subst. inversion H2; subst.
    destruct (f p); cbn; auto. constructor; auto.
    intro Hin. apply H3. rewrite map_map in Hin. apply in_map_iff in Hin.
    destruct Hin as [q [E Hq]]. cbn in E. apply filter_In in Hq. apply in_map_iff. exists q. tauto.
  - rewrite Forall_forall in *. intros q Hq. apply in_map_iff in Hq.
    destruct Hq as [p [<- Hp]]. apply filter_In in Hp. cbn. apply H2. tauto.
Qed.

Lemma step_names : forall s l s',
  names_ok (providers s) (lastp s) -> step s l = Some s' -> names_ok (providers s') (lastp s').
Proof.
  intros s l s' H Hs.
  destruct l; cbn in Hs;
    try (destruct (find (hasname pn) (providers s)) as [p|] eqn:F; [|discriminate];
         destruct (find_hasname _ _ _ F) as [Hn _]).
  - destruct (pu p); try discriminate. destruct (pstarted p); [|discriminate].
    inversion Hs; subst s'. cbn. eapply names_ok_same; [apply names_replace_first|]; auto.
  - destruct (pu p); try discriminate.
    inversion Hs; subst s'. cbn. eapply names_ok_same; [apply names_replace_first|]; auto.
  - destruct (pu p) as [| |b [|j rem]|]; try discriminate.
    inversion Hs; subst s'. cbn. eapply names_ok_same; [apply names_replace_first|]; auto.
  - destruct (pu p) as [| |b [|j rem]|]; try discriminate.
    inversion Hs; subst s'. cbn. eapply names_ok_same; [apply names_replace_first|]; auto.
  - destruct (pu p); try discriminate.
    inversion Hs; subst s'. cbn. eapply names_ok_same; [apply names_replace_first|]; auto.
  - destruct (sender s); try discriminate. destruct (trigger s); [|discriminate].
    inversion Hs; subst s'. auto.
  - destruct (sender s); try discriminate. destruct (nth_error (providers s) k); [|discriminate].
    inversion Hs; subst s'. auto.
  - destruct (sender s); try discriminate. destruct (Nat.leb _ _); [|discriminate].
    inversion Hs; subst s'. auto.
  - destruct (sender s); try discriminate. destruct (cwait s); inversion Hs; subst s'; auto.
  - destruct (sender s); try discriminate. inversion Hs; subst s'. auto.
  - destruct (cwait s); [discriminate|]. inversion Hs; subst s'. auto.
  - destruct (cwait s); [|discriminate]. inversion Hs; subst s'. auto.
  - unfold reload in Hs.
    pose proof (names_register c _ _ H) as H1.
    destruct (register c (providers s) (lastp s)) as [P1 last1]. cbn [fst snd] in H1.
    destruct (sender_allows_reload (sender s) && forallb _ P1); [|discriminate].
    pose proof (reload_fold_fst P1 [] (targets s)) as R.
    destruct (fold_left reload_prov P1 ([], targets s)) as [NP T].
    inversion Hs; subst s'. cbn in *. subst NP. now apply names_ok_filter_kept.
  - inversion Hs; subst s'. auto.
Qed.

Lemma run_names : forall tr s s',
  names_ok (providers s) (lastp s) -> run s tr = Some s' -> names_ok (providers s') (lastp s').
Proof.
  induction tr as [|l r IH]; cbn; intros s s' HI H.
  - inversion H; subst; auto.
  - destruct (step s l) as [s1|] eqn:E; [|discriminate]. eauto using step_names.
Qed.

Lemma reachable_names : forall tr s, run init tr = Some s -> NoDup (map pname (providers s)).
Proof.
  intros tr s H. apply (run_names tr init s); auto. split; constructor.
Qed.

Lemma find_self : forall P p, NoDup (map pname P) -> In p P -> find (hasname (pname p)) P = Some p.
Proof.
  induction P as [|q r IH]; cbn; intros p Hnd Hin; [destruct Hin|].
  inversion Hnd; subst. unfold hasname at 1. destruct Hin as [->|Hin].
  - now rewrite Z.eqb_refl.
  - destruct (pname q =? pname p) eqn:E.
    + apply Z.eqb_eq in E. exfalso. apply H1. rewrite E. now apply in_map.
    + now apply IH.
Qed.

(* ================= part 4: convergence under a fair continuation ================= *)

Close Scope Z_scope.
Open Scope nat_scope.

(* steps of the system itself, i.e. no new update from a Discoverer, no reload, no spurious
   trigger, the consumer does not walk away *)
Definition internal (l : label) : bool :=
  match l with
  | ELock _ | ESub _ | EUnlock _ | ETrig _ | ETake | ESnapProv | ESnapDone | ESend | ERearm | EWait => true
  | _ => false
  end.

(* fairness towards the consumer: the sender's send attempt finds the consumer receiving *)
Definition fair (s : state) (l : label) : Prop := l = ESend -> cwait s = true.

Fixpoint fair_run (s : state) (tr : list label) : Prop :=
  match tr with
  | [] => True
  | l :: r => internal l = true /\ fair s l /\ match step s l with Some s' => fair_run s' r | None => False end
  end.

Definition W (s : state) : nat := length (providers s) + 5.
Definition urank (w : nat) (p : prov) : nat :=
  match pu p with
  | UIdle => 0
  | URecv _ => length (psubs p) + 3 + w
  | UBusy _ rem => length rem + 2 + w
  | UTrig => 1 + w
  end.
Definition srank (n : nat) (st : sstate) : nat :=
  match st with SIdle => 0 | SSnap k _ => (n - k) + 3 | SHave _ => 2 | SRearm => n + 6 end.
Definition rank (s : state) : nat :=
  (if trigger s then W s else 0) + list_sum (map (urank (W s)) (providers s))
  + srank (length (providers s)) (sender s) + (if cwait s then 0 else 1).

Lemma sum_replace_first : forall (f : prov -> nat) pn p' P p,
  find (hasname pn) P = Some p ->
  list_sum (map f (replace_first pn p' P)) + f p = list_sum (map f P) + f p'.
Proof.
  induction P as [|q r IH]; cbn; intros p F; [discriminate|].
  destruct (hasname pn q); cbn.
  - inversion F; subst. lia.
  - specialize (IH p F). unfold list_sum in IH. lia.
Qed.

Ltac fin_u U E :=
  match type of E with
  | _ + ?a = _ + ?b =>
      let x := fresh "x" in let y := fresh "y" in
      let A1 := fresh "A" in let A2 := fresh "A" in
      remember a as x eqn:A1; remember b as y eqn:A2;
      unfold urank in A1, A2; cbn in A2; rewrite U in A1; cbn in A1;
      unfold list_sum in *; lia
  end.

Theorem rank_decreases : forall s l s',
  internal l = true -> fair s l -> step s l = Some s' -> rank s' < rank s.
Proof.
  intros s l s' Hi Hf Hs.
  destruct l; try discriminate; cbn in Hs;
    try (destruct (find (hasname pn) (providers s)) as [p|] eqn:F; [|discriminate]).
  - destruct (pu p) eqn:U; try discriminate. inversion Hs; subst s'.
    unfold rank, W. cbn. rewrite replace_first_length.
    pose proof (sum_replace_first (urank (length (providers s) + 5)) pn
                  (set_pu (UBusy b (psubs p)) p) _ _ F) as E.
    fin_u U E.
  - destruct (pu p) as [| |b [|j rem]|] eqn:U; try discriminate. inversion Hs; subst s'.
    unfold rank, W. cbn. rewrite replace_first_length.
    pose proof (sum_replace_first (urank (length (providers s) + 5)) pn
                  (set_pu (UBusy b rem) p) _ _ F) as E.
    fin_u U E.
  - destruct (pu p) as [| |b [|j rem]|] eqn:U; try discriminate. inversion Hs; subst s'.
    unfold rank, W. cbn. rewrite replace_first_length.
    pose proof (sum_replace_first (urank (length (providers s) + 5)) pn
                  (set_applied (papplied p ++ [b]) (set_pu UTrig p)) _ _ F) as E.
    fin_u U E.
  - destruct (pu p) eqn:U; try discriminate. inversion Hs; subst s'.
    unfold rank, W. cbn. rewrite replace_first_length.
    pose proof (sum_replace_first (urank (length (providers s) + 5)) pn
                  (set_pu UIdle p) _ _ F) as E.
    destruct (trigger s); fin_u U E.
  - destruct (sender s) eqn:S; try discriminate. destruct (trigger s) eqn:T; [|discriminate].
    inversion Hs; subst s'. unfold rank, W. cbn [providers trigger sender cwait]. rewrite S, T.
    cbn [srank]. unfold list_sum. lia.
  - destruct (sender s) as [|k acc| |] eqn:S; try discriminate.
    destruct (nth_error (providers s) k) eqn:N; [|discriminate].
    inversion Hs; subst s'. unfold rank, W. cbn [providers trigger sender cwait]. rewrite S.
    assert (k < length (providers s)) by (apply nth_error_Some; congruence).
    cbn [srank]. lia.
  - destruct (sender s) as [|k acc| |] eqn:S; try discriminate.
    destruct (Nat.leb (length (providers s)) k) eqn:L; [|discriminate].
    inversion Hs; subst s'. unfold rank, W. cbn [providers trigger sender cwait]. rewrite S.
    cbn [srank]. lia.
  - destruct (sender s) as [| |acc|] eqn:S; try discriminate.
    rewrite (Hf eq_refl) in Hs. inversion Hs; subst s'.
    unfold rank, W. cbn [providers trigger sender cwait]. rewrite S, (Hf eq_refl). cbn [srank]. lia.
  - destruct (sender s) eqn:S; try discriminate. inversion Hs; subst s'.
    unfold rank, W. cbn [providers trigger sender cwait]. rewrite S. cbn [srank].
    destruct (trigger s); lia.
  - destruct (cwait s) eqn:C; [discriminate|]. inversion Hs; subst s'.
    unfold rank, W. cbn [providers trigger sender cwait]. rewrite C. lia.
Qed.

Theorem fair_run_bounded : forall tr s s',
  fair_run s tr -> run s tr = Some s' -> length tr + rank s' <= rank s.
Proof.
  induction tr as [|l r IH]; cbn; intros s s' Hf Hr.
  - inversion Hr; subst. lia.
  - destruct Hf as [Hi [Hfl Hrest]]. destruct (step s l) as [s1|] eqn:E; [|discriminate].
    pose proof (rank_decreases _ _ _ Hi Hfl E). specialize (IH _ _ Hrest Hr). lia.
Qed.

Definition converged (s : state) : Prop :=
  sender s = SIdle /\ quiescent s /\ delivered s = allGroups (providers s) (targets s).

Lemma exists_nonidle : forall P, forallb uidle P = false -> exists p, In p P /\ uidle p = false.
Proof.
  induction P as [|q r IH]; cbn; [discriminate|]. destruct (uidle q) eqn:U; cbn.
  - intros H1. destruct (IH H1) as [p [? ?]]. exists p. auto.
  - intros _. exists q. auto.
Qed.

(* in every state that is not yet converged some fair internal step is enabled *)
Theorem progress : forall s,
  Inv s -> NoDup (map pname (providers s)) ->
  converged s \/ exists l s', internal l = true /\ fair s l /\ step s l = Some s'.
Proof.
  intros s HI Hnd. destruct (sender s) as [|k acc|acc|] eqn:S.
  - destruct (trigger s) eqn:T.
    + right. exists ETake. eexists. split; [reflexivity|]. split; [intro; discriminate|].
      cbn. rewrite S, T. reflexivity.
    + destruct (forallb uidle (providers s)) eqn:F.
      * left. assert (Q : quiescent s) by (split; auto). split; auto. split; auto.
        specialize (HI Q). unfold sender_ok in HI. now rewrite S in HI.
      * right. destruct (exists_nonidle _ F) as [p [Hin Hu]].
        pose proof (find_self _ _ Hnd Hin) as Fp. unfold uidle in Hu.
        destruct (pu p) as [|b|b [|j rem]|] eqn:U; try discriminate.
        -- exists (ELock (pname p)). eexists. split; [reflexivity|]. split; [intro; discriminate|].
           cbn. rewrite Fp, U. reflexivity.
        -- exists (EUnlock (pname p)). eexists. split; [reflexivity|]. split; [intro; discriminate|].
           cbn. rewrite Fp, U. reflexivity.
        -- exists (ESub (pname p)). eexists. split; [reflexivity|]. split; [intro; discriminate|].
           cbn. rewrite Fp, U. reflexivity.
        -- exists (ETrig (pname p)). eexists. split; [reflexivity|]. split; [intro; discriminate|].
           cbn. rewrite Fp, U. reflexivity.
  - right. destruct (nth_error (providers s) k) as [p|] eqn:N.
    + exists ESnapProv. eexists. split; [reflexivity|]. split; [intro; discriminate|].
      cbn. rewrite S, N. reflexivity.
    + exists ESnapDone. eexists. split; [reflexivity|]. split; [intro; discriminate|].
      cbn. rewrite S. apply nth_error_None in N. apply Nat.leb_le in N. rewrite N. reflexivity.
  - right. destruct (cwait s) eqn:C.
    + exists ESend. eexists. split; [reflexivity|]. split; [intro; auto|].
      cbn. rewrite S, C. reflexivity.
    + exists EWait. eexists. split; [reflexivity|]. split; [intro; discriminate|].
      cbn. rewrite C. reflexivity.
  - (* the put-back is enabled whether or not the trigger has been armed meanwhile *)
    right. exists ERearm. eexists. split; [reflexivity|]. split; [intro; discriminate|].
    cbn. rewrite S. reflexivity.
Qed.

(* internal steps never touch the configuration, and a converged state has nothing left to do *)
Lemma converged_stuck : forall s l s',
  converged s -> internal l = true -> step s l = Some s' -> l = EWait.
Proof.
  intros s l s' [S [[T F] _]] Hi Hs.
  assert (G : forall pn p, find (hasname pn) (providers s) = Some p -> pu p = UIdle).
  { intros pn p Fp. apply find_some in Fp. destruct Fp as [Hin _].
    rewrite forallb_forall in F. specialize (F _ Hin). unfold uidle in F.
    destruct (pu p); auto; discriminate. }
  destruct l; try discriminate; auto; cbn in Hs; exfalso;
    try (destruct (find (hasname pn) (providers s)) as [p|] eqn:Fp; [|discriminate];
         rewrite (G _ _ Fp) in Hs; discriminate).
  - rewrite S, T in Hs. discriminate.
  - rewrite S in Hs. discriminate.
  - rewrite S in Hs. discriminate.
  - rewrite S in Hs. discriminate.
  - rewrite S in Hs. discriminate.
Qed.

Lemma run_app : forall tr1 tr2 s, run s (tr1 ++ tr2) = match run s tr1 with Some s1 => run s1 tr2 | None => None end.
Proof.
  induction tr1 as [|l r IH]; intros tr2 s; cbn; auto. destruct (step s l); auto.
Qed.

Theorem convergence : forall tr0 s tr s',
  run init tr0 = Some s -> fair_run s tr -> run s tr = Some s' ->
  length tr + rank s' <= rank s /\
  (converged s' \/ exists l s'', internal l = true /\ fair s' l /\ step s' l = Some s'').
Proof.
  intros tr0 s tr s' H0 Hf Hr. split; [eauto using fair_run_bounded|].
  assert (H1 : run init (tr0 ++ tr) = Some s') by (rewrite run_app, H0; auto).
  apply progress; [eapply run_inv; [apply inv_init|eauto]|eapply reachable_names; eauto].
Qed.

(* a worked history used for the non-vacuity examples *)
Definition ex_g1 : group := mkG 7 1 2.
Definition ex_g2 : group := mkG 7 2 0.
Definition ex_g3 : group := mkG 8 3 1.
Definition ex_cfg : cfg := [(1%Z, [(1%Z, true)]); (2%Z, [(1%Z, true); (2%Z, true)]); (3%Z, [])].
Definition ex_prefix : list label :=
  [EReload ex_cfg; EUpdate 0 [Some ex_g1; Some ex_g3]; ELock 0; ESub 0; ETake; ESnapProv; ESub 0;
   EUpdate 1 [Some ex_g3]; EUnlock 0; ESnapProv; ESnapProv; ESnapDone; ESend; ETrig 0; ERearm;
   EUpdate 0 [Some ex_g2; None]].
Definition ex_cont : list label :=
  [ELock 0; ELock 1; ESub 0; ESub 1; EWait; ETake; ESub 0; EUnlock 0; EUnlock 1; ETrig 1;
   ESnapProv; ESnapProv; ESnapProv; ESnapDone; ESend; ETrig 0; EWait; ETake;
   ESnapProv; ESnapProv; ESnapProv; ESnapDone; ESend].

Fixpoint fair_runb (s : state) (tr : list label) : bool :=
  match tr with
  | [] => true
  | l :: r => internal l &&
              (match l with ESend => cwait s | _ => true end) &&
              match step s l with Some s' => fair_runb s' r | None => false end
  end.

Lemma fair_runb_ok : forall tr s, fair_runb s tr = true -> fair_run s tr.
Proof.
  induction tr as [|l r IH]; cbn; intros s H; auto.
  apply andb_true_iff in H. destruct H as [H H3]. apply andb_true_iff in H. destruct H as [H1 H2].
  split; auto. split.
  - intros ->. auto.
  - destruct (step s l); [auto|discriminate].
Qed.

Definition ex_state : state :=
  match run init ex_prefix with Some s => s | None => init end.
Definition ex_final : state :=
  match run ex_state ex_cont with Some s => s | None => init end.

Lemma ex_nonvacuous :
  run init ex_prefix = Some ex_state /\
  trigger ex_state = true /\ sender ex_state = SIdle /\ delivered ex_state = [] /\
  fair_run ex_state ex_cont /\ run ex_state ex_cont = Some ex_final /\
  converged ex_final /\
  delivered ex_final = [(1%Z, [ex_g3]); (2%Z, [ex_g3; ex_g3]); (3%Z, [])].
Proof.
  split; [vm_compute; reflexivity|]. split; [vm_compute; reflexivity|].
  split; [vm_compute; reflexivity|]. split; [vm_compute; reflexivity|].
  split; [apply fair_runb_ok; vm_compute; reflexivity|].
  split; [vm_compute; reflexivity|].
  split; [|vm_compute; reflexivity].
  split; [vm_compute; reflexivity|]. split; [split; vm_compute; reflexivity|vm_compute; reflexivity].
Qed.

Close Scope nat_scope.
Open Scope Z_scope.

(* ================= part 5: m.targets is the fold of what each provider sent ================= *)

Lemma keyb_true : forall a b, keyb a b = true <-> a = b.
Proof.
  intros [a1 a2] [b1 b2]. unfold keyb. cbn. rewrite andb_true_iff, !Z.eqb_eq. split.
  - intros [-> ->]. reflexivity.
  - intros H. inversion H. auto.
Qed.
Lemma keyb_refl : forall a, keyb a a = true.
Proof. intros. now apply keyb_true. Qed.
Lemma keyb_false : forall a b, a <> b -> keyb a b = false.
Proof. intros a b H. destruct (keyb a b) eqn:E; auto. apply keyb_true in E. contradiction. Qed.

Lemma tget_tset_same : forall k m T, tget k (tset k m T) = Some m.
Proof.
  induction T as [|[k' m'] r IH]; cbn.
  - now rewrite keyb_refl.
  - destruct (keyb k k') eqn:E; cbn; rewrite ?keyb_refl, ?E; auto.
Qed.

Lemma tget_tset_other : forall k k' m T, k <> k' -> tget k (tset k' m T) = tget k T.
Proof.
  induction T as [|[k2 m2] r IH]; intros Hne; cbn.
  - now rewrite keyb_false.
  - destruct (keyb k' k2) eqn:E; cbn.
    + apply keyb_true in E. subst k2. now rewrite keyb_false.
    + destruct (keyb k k2); auto.
Qed.

Lemma tget_tdel_same : forall k T, tget k (tdel k T) = None.
Proof.
  induction T as [|[k' m'] r IH]; cbn; auto.
  destruct (keyb k k') eqn:E; cbn; rewrite ?E; auto.
Qed.

Lemma tget_tdel_other : forall k k' T, k <> k' -> tget k (tdel k' T) = tget k T.
Proof.
  induction T as [|[k2 m2] r IH]; intros Hne; cbn; auto.
  destruct (keyb k' k2) eqn:E; cbn.
  - apply keyb_true in E. subst k2. rewrite keyb_false; auto.
  - destruct (keyb k k2); auto.
Qed.

Lemma inner_tset_same : forall k m T, inner k (tset k m T) = m.
Proof. intros. unfold inner. now rewrite tget_tset_same. Qed.
Lemma inner_tset_other : forall k k' m T, k <> k' -> inner k (tset k' m T) = inner k T.
Proof. intros. unfold inner. now rewrite tget_tset_other. Qed.
Lemma inner_tdel_same : forall k T, inner k (tdel k T) = [].
Proof. intros. unfold inner. now rewrite tget_tdel_same. Qed.
Lemma inner_tdel_other : forall k k' T, k <> k' -> inner k (tdel k' T) = inner k T.
Proof. intros. unfold inner. now rewrite tget_tdel_other. Qed.

(* what m.targets[poolKey{j, p.name}] must be, given the batches p's updater has applied *)
Definition expected (p : prov) (j : Z) : imap :=
  match pu p with
  | UBusy b rem => if zmem j rem then fold_batches (papplied p)
                   else apply_batch (fold_batches (papplied p)) b
  | _ => fold_batches (papplied p)
  end.

Definition tcond (T : tmap) (p : prov) : Prop :=
  forall j, inner (j, pname p) T = if zmem j (psubs p) then expected p j else [].

Definition scond (p : prov) : Prop :=
  NoDup (psubs p) /\
  match pu p with UBusy _ rem => NoDup rem /\ incl rem (psubs p) | _ => True end.


Definition extra (p : prov) : Prop := pnew p = [] /\ pstarted p = true /\ psubs p <> [].
Definition Qf (T : tmap) (p : prov) : Prop := scond p /\ tcond T p /\ extra p.
(* provider names are never reused: nothing is stored under a name not yet handed out *)
Definition freshc (T : tmap) (last : Z) : Prop := forall j n, last <= n -> inner (j, n) T = [].

Definition hist_inv (s : state) : Prop :=
  names_ok (providers s) (lastp s) /\ Forall (Qf (targets s)) (providers s) /\
  freshc (targets s) (lastp s).

Lemma forall_replace_first : forall (Q Q' : prov -> Prop) pn p' P p,
  find (hasname pn) P = Some p -> NoDup (map pname P) ->
  (forall q, In q P -> pname q <> pn -> Q q -> Q' q) -> Q' p' ->
  Forall Q P -> Forall Q' (replace_first pn p' P).
Proof.
  induction P as [|q r IH]; cbn; intros p F Hnd Hq Hp HF; [constructor|].
  inversion HF; subst. inversion Hnd; subst.
  unfold hasname in *. destruct (pname q =? pn) eqn:E.
  - apply Z.eqb_eq in E. constructor; auto.
    rewrite Forall_forall in *. intros x Hx. apply Hq; auto.
    intro Hn. apply H3. rewrite E, <- Hn. now apply in_map.
  - constructor.
    + apply Hq; auto. intro Hn. rewrite Hn, Z.eqb_refl in E. discriminate.
    + eapply IH; eauto.
Qed.

Lemma fold_batches_snoc : forall h b, fold_batches (h ++ [b]) = apply_batch (fold_batches h) b.
Proof. intros. unfold fold_batches. now rewrite fold_left_app. Qed.

Lemma zmem_false : forall x l, zmem x l = false <-> ~ In x l.
Proof.
  intros. split.
  - intros H Hin. apply zmem_true in Hin. congruence.
  - intros H. destruct (zmem x l) eqn:E; auto. apply zmem_true in E. contradiction.
Qed.

(* an updater step that does not touch m.targets *)
Lemma hist_pure_step : forall s pn p p' ,
  hist_inv s -> find (hasname pn) (providers s) = Some p ->
  pname p' = pname p -> psubs p' = psubs p -> pnew p' = pnew p -> pstarted p' = pstarted p ->
  scond p' -> (forall j, In j (psubs p) -> expected p' j = expected p j) ->
  forall tr cw dl sd, hist_inv (mkS (replace_first pn p' (providers s)) (targets s) tr (lastp s) sd cw dl).
Proof.
  intros s pn p p' [HN [HF HC]] F En Es Enw Est Hs He tr cw dl sd.
  destruct (find_hasname _ _ _ F) as [Hpn Hin].
  split; [|split]; cbn; auto.
  - eapply names_ok_same; [apply names_replace_first; congruence|auto].
  - eapply forall_replace_first with (Q := Qf (targets s)); eauto.
    + apply HN.
    + rewrite Forall_forall in HF. destruct (HF _ Hin) as [_ [Ht [X1 [X2 X3]]]].
      split; auto. split.
      * intros j. rewrite En, Es, Ht. destruct (zmem j (psubs p)) eqn:M; auto.
        symmetry. apply He. now apply zmem_true.
      * unfold extra. rewrite Enw, Est, Es. auto.
Qed.

Theorem hist_step_noreload : forall s l s',
  (forall c, l <> EReload c) -> hist_inv s -> step s l = Some s' -> hist_inv s'.
Proof.
  intros s l s' Hnr HI Hs.
  destruct l; cbn in Hs;
    try (destruct (find (hasname pn) (providers s)) as [p|] eqn:F; [|discriminate];
         destruct (find_hasname _ _ _ F) as [Hpn Hin];
         pose proof HI as [HN [HF HC]]; rewrite Forall_forall in HF;
         destruct (HF _ Hin) as [[Hs1 Hs2] [Ht Hx]]).
  - (* EUpdate *)
    destruct (pu p) eqn:U; try discriminate. destruct (pstarted p); [|discriminate].
    inversion Hs; subst s'. apply hist_pure_step with (p := p); auto.
    + split; cbn; auto.
    + intros j _. unfold expected. cbn. now rewrite U.
  - (* ELock *)
    destruct (pu p) eqn:U; try discriminate.
    inversion Hs; subst s'. apply hist_pure_step with (p := p); auto.
    + split; cbn; auto. split; auto. apply incl_refl.
    + intros j Hj. unfold expected. cbn. rewrite U. apply zmem_true in Hj. now rewrite Hj.
  - (* ESub *)
    destruct (pu p) as [| |b [|j rem]|] eqn:U; try discriminate.
    inversion Hs; subst s'. clear Hs. destruct Hs2 as [Hnd Hincl].
    split; [|split]; cbn.
    + eapply names_ok_same; [apply names_replace_first; auto|auto].
    + eapply forall_replace_first with (Q := Qf (targets s)); eauto.
      * apply HN.
      * intros q Hq Hne [Hsq [Htq Hxq]]. split; auto. split; auto. intros j2. unfold updateGroup.
        rewrite inner_tset_other; [apply Htq|]. intro E. inversion E. congruence.
      * inversion Hnd; subst. split; [|split].
        -- split; auto. cbn. split; auto. intros x Hx'. apply Hincl. now right.
        -- intros j2. cbn [pname psubs set_pu]. unfold updateGroup.
           destruct (Z.eq_dec j2 j) as [->|Hne].
           ++ rewrite inner_tset_same, Ht.
              assert (In j (psubs p)) as Hj by (apply Hincl; now left).
              apply zmem_true in Hj. rewrite Hj. unfold expected. rewrite U. cbn [pu set_pu papplied].
              assert (zmem j (j :: rem) = true) as -> by (apply zmem_true; now left).
              apply zmem_false in H1. now rewrite H1.
           ++ rewrite inner_tset_other by (intro E; inversion E; congruence).
              rewrite Ht. destruct (zmem j2 (psubs p)); auto.
              unfold expected. rewrite U. cbn [pu set_pu papplied].
              unfold zmem at 1. cbn [existsb]. fold (zmem j2 rem).
              assert ((j2 =? j) = false) as -> by (apply Z.eqb_neq; auto). reflexivity.
        -- exact Hx.
      * apply Forall_forall; auto.
    + intros j2 n Hn. unfold updateGroup. rewrite inner_tset_other; [now apply HC|].
      intro E. inversion E; subst. destruct HN as [_ HN]. rewrite Forall_forall in HN.
      specialize (HN _ Hin). lia.
  - (* EUnlock *)
    destruct (pu p) as [| |b [|j rem]|] eqn:U; try discriminate.
    inversion Hs; subst s'. apply hist_pure_step with (p := p); auto.
    + split; cbn; auto.
    + intros j _. unfold expected. cbn. rewrite U. cbn. apply fold_batches_snoc.
  - (* ETrig *)
    destruct (pu p) eqn:U; try discriminate.
    inversion Hs; subst s'. apply hist_pure_step with (p := p); auto.
    + split; cbn; auto.
    + intros j _. unfold expected. cbn. now rewrite U.
  - destruct (sender s); try discriminate. destruct (trigger s); [|discriminate].
    inversion Hs; subst s'. exact HI.
  - destruct (sender s); try discriminate. destruct (nth_error (providers s) k); [|discriminate].
    inversion Hs; subst s'. exact HI.
  - destruct (sender s); try discriminate. destruct (Nat.leb _ _); [|discriminate].
    inversion Hs; subst s'. exact HI.
  - destruct (sender s); try discriminate. destruct (cwait s); inversion Hs; subst s'; exact HI.
  - destruct (sender s); try discriminate. inversion Hs; subst s'. exact HI.
  - destruct (cwait s); [discriminate|]. inversion Hs; subst s'. exact HI.
  - destruct (cwait s); [|discriminate]. inversion Hs; subst s'. exact HI.
  - exfalso. eapply Hnr. reflexivity.
  - inversion Hs; subst s'. exact HI.
Qed.

(* ---------- ApplyConfig ---------- *)

Definition RQ (T : tmap) (p : prov) : Prop :=
  scond p /\ tcond T p /\ NoDup (pnew p) /\
  ((pstarted p = true /\ psubs p <> []) \/
   (pstarted p = false /\ psubs p = [] /\ pnew p <> [] /\ papplied p = [] /\ pu p = UIdle)).

Lemma RQ_add_newsub : forall T c s P, Forall (RQ T) P -> Forall (RQ T) (add_newsub c s P).
Proof.
  induction P as [|p r IH]; cbn; intros H; auto. inversion H; subst.
  destruct (pcfg p =? c); [|constructor; auto].
  constructor; auto. destruct H2 as [A [B [C D]]]. split; [exact A|]. split; [exact B|]. cbn. split.
  - destruct (zmem s (pnew p)) eqn:M; auto. apply NoDup_snoc; auto. now apply zmem_false.
  - destruct D as [D|[D1 [D2 [D3 D4]]]]; [left; exact D|right].
    split; auto. split; auto. split; auto.
    destruct (zmem s (pnew p)); auto. intro E. apply app_eq_nil in E. destruct E. discriminate.
Qed.

Lemma RQ_add_cfg : forall T s st c,
  Forall (RQ T) (fst (fst st)) -> freshc T (snd (fst st)) ->
  Forall (RQ T) (fst (fst (add_cfg s st c))) /\ freshc T (snd (fst (add_cfg s st c))).
Proof.
  intros T s [[P last] added] c H HC. cbn in H, HC. unfold add_cfg.
  destruct (existsb _ P); cbn; [split; auto using RQ_add_newsub|].
  destruct (snd c); cbn; [|auto]. split.
  - apply Forall_app. split; auto. constructor; [|constructor].
    split; [split; cbn; auto; constructor|]. split.
    + intros j. cbn. apply HC. lia.
    + cbn. split; [constructor; auto; constructor|]. right. repeat split; auto. discriminate.
  - intros j n Hn. apply HC. lia.
Qed.

Lemma RQ_fold_add_cfg : forall T s cs st,
  Forall (RQ T) (fst (fst st)) -> freshc T (snd (fst st)) ->
  Forall (RQ T) (fst (fst (fold_left (add_cfg s) cs st))) /\
  freshc T (snd (fst (fold_left (add_cfg s) cs st))).
Proof.
  induction cs as [|c r IH]; intros st H HC; cbn [fold_left]; auto.
  destruct (RQ_add_cfg T s st c H HC). auto.
Qed.

Lemma RQ_register_job : forall T st jc,
  Forall (RQ T) (fst st) -> freshc T (snd st) ->
  Forall (RQ T) (fst (register_job st jc)) /\ freshc T (snd (register_job st jc)).
Proof.
  intros T [P last] jc H HC. unfold register_job.
  pose proof (RQ_fold_add_cfg T (fst jc) (snd jc) (P, last, false) H HC) as H1.
  destruct (fold_left (add_cfg (fst jc)) (snd jc) (P, last, false)) as [[P1 last1] added].
  cbn [fst snd] in H1. destruct added; [cbn; auto|]. destruct H1 as [H1 H1'].
  pose proof (RQ_add_cfg T (fst jc) (P1, last1, false) (STATIC_EMPTY, true) H1 H1') as H2.
  destruct (add_cfg (fst jc) (P1, last1, false) (STATIC_EMPTY, true)) as [[P2 last2] a2].
  cbn in *. auto.
Qed.

Lemma RQ_register : forall T c P last,
  Forall (RQ T) P -> freshc T last ->
  Forall (RQ T) (fst (register c P last)) /\ freshc T (snd (register c P last)).
Proof.
  unfold register. induction c as [|jc r IH]; intros P last H HC; [cbn; auto|].
  cbn [fold_left]. pose proof (RQ_register_job T (P, last) jc H HC) as H1.
  destruct (register_job (P, last) jc) as [P1 last1]. cbn [fst snd] in H1. destruct H1. auto.
Qed.

Lemma inner_tdel : forall j n s pn T,
  inner (j, n) (tdel (s, pn) T) = if (n =? pn) && (j =? s) then [] else inner (j, n) T.
Proof.
  intros. destruct ((n =? pn) && (j =? s)) eqn:E.
  - apply andb_true_iff in E. destruct E as [E1 E2]. apply Z.eqb_eq in E1, E2. subst.
    apply inner_tdel_same.
  - apply inner_tdel_other. intro H. inversion H; subst. now rewrite !Z.eqb_refl in E.
Qed.

Lemma inner_tset : forall j n s pn m T,
  inner (j, n) (tset (s, pn) m T) = if (n =? pn) && (j =? s) then m else inner (j, n) T.
Proof.
  intros. destruct ((n =? pn) && (j =? s)) eqn:E.
  - apply andb_true_iff in E. destruct E as [E1 E2]. apply Z.eqb_eq in E1, E2. subst.
    apply inner_tset_same.
  - apply inner_tset_other. intro H. inversion H; subst. now rewrite !Z.eqb_refl in E.
Qed.

Definition f1 (pn : Z) (keep : list Z) (a : imap * tmap) (s : Z) : imap * tmap :=
  let '(_, T) := a in (inner (s, pn) T, if zmem s keep then T else tdel (s, pn) T).
Definition f2 (pn : Z) (ref : imap) (T : tmap) (s : Z) : tmap :=
  if Nat.ltb 0 (length ref) then tset (s, pn) ref T else T.

Lemma zmem_cons : forall x a l, zmem x (a :: l) = (x =? a) || zmem x l.
Proof. reflexivity. Qed.

Lemma f1_spec : forall pn keep subs r0 T0, NoDup subs ->
  (forall j n, inner (j, n) (snd (fold_left (f1 pn keep) subs (r0, T0))) =
               if (n =? pn) && zmem j subs && negb (zmem j keep) then [] else inner (j, n) T0) /\
  (forall E, (forall s, In s subs -> inner (s, pn) T0 = E) ->
             fst (fold_left (f1 pn keep) subs (r0, T0)) = match subs with [] => r0 | _ => E end).
Proof.
  induction subs as [|s r IH]; intros r0 T0 Hnd.
  - cbn. split; auto. intros. now rewrite andb_false_r.
  - inversion Hnd; subst. cbn [fold_left f1].
    destruct (IH (inner (s, pn) T0) (if zmem s keep then T0 else tdel (s, pn) T0) H2) as [A B].
    split.
    + intros j n. rewrite A, zmem_cons.
      destruct (zmem s keep) eqn:K.
      * destruct (n =? pn) eqn:E1; cbn; auto. destruct (j =? s) eqn:E2; cbn; auto.
        apply Z.eqb_eq in E2. subst j. rewrite K. cbn. now rewrite andb_false_r.
      * rewrite inner_tdel. destruct (n =? pn) eqn:E1; cbn; auto.
        destruct (j =? s) eqn:E2; cbn.
        -- apply Z.eqb_eq in E2. subst j. rewrite K. cbn. destruct (zmem s r); auto.
        -- reflexivity.
    + intros E HE. rewrite (B E).
      * rewrite (HE s) by now left. destruct r; auto.
      * intros s2 Hs2. destruct (zmem s keep); [apply HE; now right|].
        rewrite inner_tdel. assert (s2 <> s) by (intro; subst; contradiction).
        assert ((s2 =? s) = false) as -> by now apply Z.eqb_neq.
        rewrite andb_false_r. apply HE. now right.
Qed.

Lemma f2_spec : forall pn ref news T1 j n,
  inner (j, n) (fold_left (f2 pn ref) news T1) =
  if (n =? pn) && zmem j news && Nat.ltb 0 (length ref) then ref else inner (j, n) T1.
Proof.
  induction news as [|s r IH]; intros T1 j n.
  - cbn. now rewrite andb_false_r.
  - cbn [fold_left]. rewrite IH, zmem_cons. unfold f2.
    destruct (Nat.ltb 0 (length ref)) eqn:L.
    + rewrite inner_tset. destruct (n =? pn); cbn; auto. destruct (j =? s); cbn; auto.
      destruct (zmem j r); auto.
    + now rewrite !andb_false_r.
Qed.

Lemma reload_prov_eq : forall NP T p,
  reload_prov (NP, T) p =
  if cancelled p then (NP, fold_left (fun T s => tdel (s, pname p) T) (psubs p) T)
  else let a := fold_left (f1 (pname p) (pnew p)) (psubs p) ([], T) in
       (NP ++ [kept p], fold_left (f2 (pname p) (fst a)) (pnew p) (snd a)).
Proof.
  intros. unfold reload_prov. destruct (cancelled p); auto.
  change (fun (a : imap * tmap) (s : Z) =>
            let '(_, T0) := a in
            (inner (s, pname p) T0, if zmem s (pnew p) then T0 else tdel (s, pname p) T0))
    with (f1 (pname p) (pnew p)).
  destruct (fold_left (f1 (pname p) (pnew p)) (psubs p) ([], T)) as [ref T1]. reflexivity.
Qed.

Lemma tdel_fold_frame : forall pn subs T j n, n <> pn ->
  inner (j, n) (fold_left (fun T s => tdel (s, pn) T) subs T) = inner (j, n) T.
Proof.
  induction subs as [|s r IH]; intros T j n Hne; cbn; auto.
  rewrite IH; auto. rewrite inner_tdel. apply Z.eqb_neq in Hne. now rewrite Hne.
Qed.

(* processing one provider only touches keys carrying its own name *)
Lemma reload_prov_frame : forall NP T p j n, n <> pname p -> NoDup (psubs p) ->
  inner (j, n) (snd (reload_prov (NP, T) p)) = inner (j, n) T.
Proof.
  intros NP T p j n Hne Hnd. rewrite reload_prov_eq. destruct (cancelled p); cbn [snd].
  - now apply tdel_fold_frame.
  - cbn zeta. rewrite f2_spec. apply Z.eqb_neq in Hne. rewrite Hne. cbn.
    destruct (f1_spec (pname p) (pnew p) (psubs p) [] T Hnd) as [A _]. rewrite A, Hne. reflexivity.
Qed.

Lemma length_pos_nonnil : forall (A : Type) (l : list A), Nat.ltb 0 (length l) = false -> l = [].
Proof. intros A [|a l]; cbn; auto. discriminate. Qed.

Lemma reload_prov_kept : forall NP T p,
  RQ T p -> cancelled p = false -> is_busy p = false ->
  Qf (snd (reload_prov (NP, T) p)) (kept p).
Proof.
  intros NP T p [[Hnd Hu] [Ht [Hnn D]]] Hc Hb.
  rewrite reload_prov_eq, Hc. cbn zeta. cbn [snd].
  assert (Eexp : forall j, expected p j = fold_batches (papplied p)).
  { intros j. unfold expected. unfold is_busy in Hb. destruct (pu p); auto. discriminate. }
  destruct (f1_spec (pname p) (pnew p) (psubs p) [] T Hnd) as [A B].
  assert (Href : fst (fold_left (f1 (pname p) (pnew p)) (psubs p) ([], T)) =
                 match psubs p with [] => [] | _ => fold_batches (papplied p) end).
  { apply B. intros s Hs. rewrite Ht. apply zmem_true in Hs. now rewrite Hs, Eexp. }
  split; [|split].
  - split; cbn; auto. unfold is_busy in Hb. destruct (pu p); auto. discriminate.
  - intros j. cbn [pname psubs kept]. rewrite f2_spec, A, Z.eqb_refl. cbn [andb].
    assert (Ek : expected (kept p) j = fold_batches (papplied p)).
    { unfold expected. cbn. unfold is_busy in Hb. destruct (pu p); auto. discriminate. }
    rewrite Ek, Href. rewrite Ht, Eexp.
    destruct (zmem j (pnew p)) eqn:Mn; cbn [andb negb].
    + destruct (psubs p) as [|s0 r0] eqn:Ps.
      * cbn. destruct D as [[_ D]|[_ [_ [_ [D _]]]]]; [congruence|]. rewrite D. reflexivity.
      * destruct (Nat.ltb 0 (length (fold_batches (papplied p)))) eqn:L; auto.
        rewrite andb_false_r. apply length_pos_nonnil in L. rewrite L.
        destruct (zmem j (s0 :: r0)); auto.
    + destruct (zmem j (psubs p)); auto.
  - unfold extra. cbn. split; auto. split; auto.
    unfold cancelled in Hc. destruct D as [[D _]|[_ [_ [D _]]]]; auto.
    rewrite D, andb_true_r in Hc. destruct (pnew p); [discriminate|]. discriminate.
Qed.

Lemma tcond_frame : forall T T' q,
  (forall j, inner (j, pname q) T' = inner (j, pname q) T) -> tcond T q -> tcond T' q.
Proof. intros T T' q H Ht j. rewrite H. apply Ht. Qed.

Lemma reload_fold_hist : forall P1 NP T,
  NoDup (map pname NP ++ map pname P1) ->
  Forall (Qf T) NP -> Forall (RQ T) P1 ->
  forallb (fun p => negb (is_busy p) || cancelled p) P1 = true ->
  Forall (Qf (snd (fold_left reload_prov P1 (NP, T)))) (fst (fold_left reload_prov P1 (NP, T))) /\
  (forall j n, ~ In n (map pname P1) ->
               inner (j, n) (snd (fold_left reload_prov P1 (NP, T))) = inner (j, n) T).
Proof.
  induction P1 as [|p r IH]; intros NP T Hnd HQ HR Hg.
  - cbn. auto.
  - cbn [fold_left]. inversion HR as [|? ? HRp HRr]; subst.
    cbn [forallb] in Hg. apply andb_true_iff in Hg. destruct Hg as [Hgp Hgr].
    pose proof HRp as [[Hsubs _] _].
    pose proof (reload_prov_fst NP T p) as Ef.
    pose proof (fun j n H => reload_prov_frame NP T p j n H Hsubs) as Fr.
    pose proof (reload_prov_kept NP T p HRp) as Hk.
    destruct (reload_prov (NP, T) p) as [NP1 T1]. cbn [fst snd] in *.
    assert (Hnp : ~ In (pname p) (map pname NP) /\ ~ In (pname p) (map pname r)).
    { apply NoDup_remove_2 in Hnd. rewrite in_app_iff in Hnd. tauto. }
    assert (HQ1 : Forall (Qf T1) NP).
    { rewrite Forall_forall in *. intros q Hq. destruct (HQ _ Hq) as [A [B C]].
      split; auto. split; auto. eapply tcond_frame; [|exact B]. intros j. apply Fr.
      intro E. apply (proj1 Hnp). rewrite <- E. now apply in_map. }
    assert (HR1 : Forall (RQ T1) r).
    { rewrite Forall_forall in *. intros q Hq. destruct (HRr _ Hq) as [A [B C]].
      split; auto. split; auto. eapply tcond_frame; [|exact B]. intros j. apply Fr.
      intro E. apply (proj2 Hnp). rewrite <- E. now apply in_map. }
    destruct (cancelled p) eqn:Hc.
    + subst NP1. destruct (IH NP T1) as [A B]; auto.
      { cbn in Hnd. now apply NoDup_remove_1 in Hnd. }
      split; auto. intros j n Hn. rewrite B.
      * apply Fr. intro E. apply Hn. left. auto.
      * intro Hin. apply Hn. now right.
    + subst NP1. rewrite orb_false_r in Hgp. apply negb_true_iff in Hgp.
      destruct (IH (NP ++ [kept p]) T1) as [A B]; auto.
      { rewrite map_app. cbn. rewrite <- app_assoc. exact Hnd. }
      { apply Forall_app. split; auto. }
      split; auto. intros j n Hn. rewrite B.
      * apply Fr. intro E. apply Hn. left. auto.
      * intro Hin. apply Hn. now right.
Qed.

Lemma Qf_RQ : forall T p, Qf T p -> RQ T p.
Proof.
  intros T p [A [B [C1 [C2 C3]]]]. split; auto. split; auto. split.
  - rewrite C1. constructor.
  - left. auto.
Qed.

Theorem hist_step : forall s l s', hist_inv s -> step s l = Some s' -> hist_inv s'.
Proof.
  intros s l s' HI Hs.
  destruct l; try (eapply hist_step_noreload; [|exact HI|exact Hs]; intros c0 E; discriminate).
  pose proof HI as [HN [HF HC]].
  pose proof (step_names _ _ _ HN Hs) as HN'.
  cbn in Hs. unfold reload in Hs.
  pose proof (names_register c _ _ HN) as [N1 N2].
  assert (HR : Forall (RQ (targets s)) (providers s)).
  { eapply Forall_impl; [|exact HF]. apply Qf_RQ. }
  pose proof (RQ_register (targets s) c _ _ HR HC) as [R1 R2].
  destruct (register c (providers s) (lastp s)) as [P1 last1]. cbn [fst snd] in *.
  destruct (sender_allows_reload (sender s)); [|discriminate]. cbn [andb] in Hs.
  destruct (forallb (fun p => negb (is_busy p) || cancelled p) P1) eqn:G; [|discriminate].
  pose proof (reload_fold_hist P1 [] (targets s)) as H. cbn [map app] in H.
  specialize (H N1 (Forall_nil _) R1 G).
  destruct (fold_left reload_prov P1 ([], targets s)) as [NP T]. cbn [fst snd] in H.
  inversion Hs; subst s'. cbn in *. destruct H as [A B].
  split; auto. split; auto.
  intros j n Hn. rewrite B; [now apply R2|].
  intro Hin. apply in_map_iff in Hin. destruct Hin as [q [E Hq]].
  rewrite Forall_forall in N2. specialize (N2 _ Hq). cbn in Hn. lia.
Qed.

Lemma hist_init : hist_inv init.
Proof. split; [split; constructor|]. split; [constructor|]. intros j n _. reflexivity. Qed.

Lemma run_hist : forall tr s s', hist_inv s -> run s tr = Some s' -> hist_inv s'.
Proof.
  induction tr as [|l r IH]; cbn; intros s s' HI H.
  - inversion H; subst; auto.
  - destruct (step s l) as [s1|] eqn:E; [|discriminate]. eauto using hist_step.
Qed.

(* For every interleaving (including reloads): what is stored for (job j, provider p) is the
   fold of the batches p's updater has applied — plus the batch being applied right now if j
   was already visited — when j is one of p's subs, and nothing otherwise. *)
Theorem targets_are_fold : forall tr s p j,
  run init tr = Some s -> In p (providers s) ->
  inner (j, pname p) (targets s) =
  if zmem j (psubs p) then
    match pu p with
    | UBusy b rem => if zmem j rem then fold_batches (papplied p)
                     else apply_batch (fold_batches (papplied p)) b
    | _ => fold_batches (papplied p)
    end
  else [].
Proof.
  intros tr s p j H Hin. pose proof (run_hist _ _ _ hist_init H) as [_ [HF _]].
  rewrite Forall_forall in HF. destruct (HF _ Hin) as [_ [Ht _]]. apply Ht.
Qed.

(* ================= part 6: what allGroups returns ================= *)

Fixpoint slook (j : Z) (a : snap) : option (list group) :=
  match a with [] => None | (s, l) :: r => if j =? s then Some l else slook j r end.

Lemma smem_slook : forall s a, smem s a = false <-> slook s a = None.
Proof.
  induction a as [|[s' l] r IH]; cbn; [tauto|].
  destruct (s =? s'); cbn; [split; discriminate|exact IH].
Qed.

Lemma slook_snoc : forall j s a,
  smem s a = false ->
  slook j (a ++ [(s, [])]) = if j =? s then Some [] else slook j a.
Proof.
  induction a as [|[s' l] r IH]; cbn; intros H.
  - destruct (j =? s); auto.
  - apply orb_false_iff in H. destruct H as [H1 H2].
    destruct (j =? s') eqn:E.
    + apply Z.eqb_eq in E. subst s'. destruct (j =? s) eqn:E2; auto.
      apply Z.eqb_eq in E2. subst. rewrite Z.eqb_refl in H1. discriminate.
    + now apply IH.
Qed.

Lemma slook_sappend : forall j s gs a,
  slook j (sappend s gs a) =
  if j =? s then match slook j a with Some l => Some (l ++ gs) | None => None end else slook j a.
Proof.
  induction a as [|[s' l] r IH]; cbn.
  - destruct (j =? s); auto.
  - destruct (s =? s') eqn:E; cbn.
    + apply Z.eqb_eq in E. subst s'. destruct (j =? s); auto.
    + destruct (j =? s') eqn:E2.
      * apply Z.eqb_eq in E2. subst s'. rewrite Z.eqb_sym in E. now rewrite E.
      * exact IH.
Qed.

Definition vals (T : tmap) (j pn : Z) : list group := map snd (inner (j, pn) T).

Lemma slook_ag_sub : forall T pn acc s j,
  slook j (ag_sub T pn acc s) =
  if j =? s then Some (match slook j acc with Some l => l | None => [] end ++ vals T j pn)
  else slook j acc.
Proof.
  intros. unfold ag_sub, vals, inner.
  assert (A : slook j (if smem s acc then acc else acc ++ [(s, [])]) =
              if j =? s then Some (match slook j acc with Some l => l | None => [] end)
              else slook j acc).
  { destruct (smem s acc) eqn:M.
    - destruct (j =? s) eqn:E; auto. apply Z.eqb_eq in E. subst.
      destruct (slook s acc) eqn:L; auto. apply smem_slook in L. congruence.
    - rewrite slook_snoc; auto. destruct (j =? s) eqn:E; auto. apply Z.eqb_eq in E. subst.
      apply smem_slook in M. now rewrite M. }
  destruct (tget (s, pn) T) as [m|] eqn:G.
  - rewrite slook_sappend, A. destruct (j =? s) eqn:E; auto.
    apply Z.eqb_eq in E. subst. now rewrite G.
  - rewrite A. destruct (j =? s) eqn:E; auto. apply Z.eqb_eq in E. subst. rewrite G. cbn.
    now rewrite app_nil_r.
Qed.

Lemma slook_ag_prov_gen : forall T pn subs acc j, NoDup subs ->
  slook j (fold_left (ag_sub T pn) subs acc) =
  if zmem j subs then Some (match slook j acc with Some l => l | None => [] end ++ vals T j pn)
  else slook j acc.
Proof.
  induction subs as [|s r IH]; intros acc j Hnd; cbn [fold_left]; auto.
  inversion Hnd; subst. rewrite IH; auto. rewrite slook_ag_sub.
  unfold zmem at 2. cbn [existsb]. fold (zmem j r).
  destruct (j =? s) eqn:E; cbn [orb]; auto.
  apply Z.eqb_eq in E. subst s. apply zmem_false in H1. now rewrite H1.
Qed.

Definition serves (j : Z) (p : prov) : bool := zmem j (psubs p).

Lemma flat_none : forall T j r,
  existsb (serves j) r = false ->
  flat_map (fun p => if serves j p then vals T j (pname p) else []) r = [].
Proof.
  induction r as [|p r IH]; cbn; auto. intros H. apply orb_false_iff in H. destruct H as [H1 H2].
  rewrite H1. cbn. auto.
Qed.

(* the entry of job j: present iff some provider has j among its subs (possibly empty: jobs
   without targets are delivered as empty lists); it lists, provider after provider, the groups
   stored for (j, provider) *)
Lemma allGroups_lookup_gen : forall T P acc j,
  Forall (fun p => NoDup (psubs p)) P ->
  slook j (fold_left (ag_prov T) P acc) =
  if existsb (serves j) P
  then Some (match slook j acc with Some l => l | None => [] end
             ++ flat_map (fun p => if serves j p then vals T j (pname p) else []) P)
  else slook j acc.
Proof.
  induction P as [|p r IH]; intros acc j HF; cbn [fold_left existsb flat_map]; auto.
  inversion HF; subst. rewrite IH; auto.
  assert (A : slook j (ag_prov T acc p) =
              if serves j p
              then Some (match slook j acc with Some l => l | None => [] end ++ vals T j (pname p))
              else slook j acc) by (unfold ag_prov, serves; now apply slook_ag_prov_gen).
  rewrite A. destruct (serves j p); cbn [orb].
  - destruct (existsb (serves j) r) eqn:X.
    + now rewrite app_assoc.
    + rewrite flat_none; auto. now rewrite app_nil_r.
  - destruct (existsb (serves j) r); auto.
Qed.

Theorem allGroups_lookup : forall T P j,
  Forall (fun p => NoDup (psubs p)) P ->
  slook j (allGroups P T) =
  if existsb (serves j) P
  then Some (flat_map (fun p => if serves j p then vals T j (pname p) else []) P)
  else None.
Proof. intros. unfold allGroups. rewrite allGroups_lookup_gen; auto. Qed.

Lemma flat_map_ext_in' : forall (A B : Type) (f g : A -> list B) l,
  (forall x, In x l -> f x = g x) -> flat_map f l = flat_map g l.
Proof.
  induction l as [|a r IH]; cbn; intros H; auto. rewrite H by now left. f_equal. apply IH.
  intros. apply H. now right.
Qed.

(* End to end: in a converged state reached by any interleaving, the map last received by the
   consumer has an entry exactly for the jobs of the current configuration, and the entry of a
   job lists, for every provider serving it, the latest non-empty group of every source that
   provider has reported (fold_batches of everything its updater received since it was started;
   see fold_lookup / fold_is_latest). *)
Theorem converged_delivers_fold : forall tr s j,
  run init tr = Some s -> converged s ->
  slook j (delivered s) =
  if existsb (serves j) (providers s)
  then Some (flat_map (fun p => if serves j p then map snd (fold_batches (papplied p)) else [])
                      (providers s))
  else None.
Proof.
  intros tr s j H [_ [[_ Hq] Hd]].
  pose proof (run_hist _ _ _ hist_init H) as [_ [HF _]].
  rewrite Hd, allGroups_lookup.
  - destruct (existsb (serves j) (providers s)); auto. f_equal.
    apply flat_map_ext_in'. intros p Hp. destruct (serves j p) eqn:S; auto.
    unfold vals. rewrite (targets_are_fold _ _ _ _ H Hp). unfold serves in S. rewrite S.
    rewrite forallb_forall in Hq. specialize (Hq _ Hp). unfold uidle in Hq.
    destruct (pu p); auto; discriminate.
  - eapply Forall_impl; [|exact HF]. intros p [[A _] _]. exact A.
Qed.

(* proof/ApiJsonProofs.v — lemmas and proofs about model/ApiJson.v (property C51). *)
From Coq Require Import List ZArith NArith Bool Lia String.
From Verif Require Import lib.Int64 model.ApiJson.
Import ListNotations.
Open Scope Z_scope.

(* ================================================================ decimal digits *)
Lemma digit_is_digit d : 0 <= d <= 9 -> is_digit (digit d) = true.
Proof.
  intros H. unfold is_digit, digit.
  apply andb_true_iff; split; apply N.leb_le; lia.
Qed.

Lemma digit_val d : 0 <= d <= 9 -> Z.of_N (digit d) - 48 = d.
Proof. intros H. unfold digit. lia. Qed.

Lemma digit_not0 d : 1 <= d <= 9 -> (digit d =? 48)%N = false.
Proof. intros H. unfold digit. apply N.eqb_neq. lia. Qed.

Lemma is_digit_not c k : is_digit c = true -> (k < 48)%N -> (c =? k)%N = false.
Proof.
  unfold is_digit. intros H Hk. apply andb_true_iff in H as [H1 _].
  apply N.leb_le in H1. apply N.eqb_neq. lia.
Qed.

Lemma digits_val_app a b acc : digits_val acc (a ++ b) = digits_val (digits_val acc a) b.
Proof. revert acc. induction a as [|c a IH]; intros acc; simpl; auto. Qed.

Lemma pdigits_unfold k n :
  pdigits (S k) n = if n <? 10 then [digit n] else pdigits k (n / 10) ++ [digit (n mod 10)].
Proof. reflexivity. Qed.

Definition all_digits (l : bytes) : Prop := Forall (fun c => is_digit c = true) l.

Lemma pd_digits fuel : forall n, 0 <= n -> all_digits (pdigits fuel n).
Proof.
  induction fuel as [|f IH]; intros n Hn; simpl.
  - constructor.
  - destruct (n <? 10) eqn:E.
    + apply Z.ltb_lt in E. repeat constructor. apply digit_is_digit. lia.
    + apply Z.ltb_ge in E. apply Forall_app. split.
      * apply IH. apply Z.div_pos; lia.
      * repeat constructor. apply digit_is_digit.
        pose proof (Z.mod_pos_bound n 10 ltac:(lia)). lia.
Qed.

Lemma pd_val fuel : forall n acc, 0 <= n < 10 ^ Z.of_nat fuel ->
  digits_val acc (pdigits fuel n) = acc * 10 ^ Z.of_nat (List.length (pdigits fuel n)) + n.
Proof.
  induction fuel as [|f IH]; intros n acc Hn.
  - change (10 ^ Z.of_nat 0) with 1 in Hn. cbn [pdigits digits_val List.length]. change (10 ^ Z.of_nat 0) with 1. lia.
  - cbn [pdigits]. destruct (n <? 10) eqn:E.
    + apply Z.ltb_lt in E. cbn [digits_val List.length]. rewrite digit_val by lia.
      change (Z.of_nat 1) with 1. change (10 ^ 1) with 10. lia.
    + apply Z.ltb_ge in E.
      rewrite digits_val_app, app_length. cbn [digits_val List.length].
      rewrite Nat2Z.inj_succ in Hn. rewrite Z.pow_succ_r in Hn by lia.
      rewrite IH.
      2:{ split. apply Z.div_pos; lia. apply Z.div_lt_upper_bound; lia. }
      pose proof (Z.mod_pos_bound n 10 ltac:(lia)) as Hm.
      rewrite digit_val by lia.
      rewrite Nat2Z.inj_add. change (Z.of_nat 1) with 1.
      rewrite Z.pow_add_r by lia. change (10 ^ 1) with 10.
      pose proof (Z.div_mod n 10 ltac:(lia)) as Hd.
      set (L := 10 ^ Z.of_nat (List.length (pdigits f (n / 10)))) in *.
      nia.
Qed.

(* the printed integer starts with a digit; with a non-zero digit when it has several *)
Lemma pd_head fuel : forall n, 0 < n < 10 ^ Z.of_nat fuel ->
  exists c r, pdigits fuel n = c :: r /\ is_digit c = true /\ (c =? 48)%N = false.
Proof.
  induction fuel as [|f IH]; intros n Hn.
  - simpl in Hn. lia.
  - cbn [pdigits]. destruct (n <? 10) eqn:E.
    + apply Z.ltb_lt in E. exists (digit n), []. repeat split.
      apply digit_is_digit; lia. apply digit_not0; lia.
    + apply Z.ltb_ge in E.
      rewrite Nat2Z.inj_succ in Hn. rewrite Z.pow_succ_r in Hn by lia.
      destruct (IH (n / 10)) as (c & r & Hp & Hc & H0).
      { split. apply Z.div_str_pos; lia. apply Z.div_lt_upper_bound; lia. }
      rewrite Hp. exists c, (r ++ [digit (n mod 10)]). auto.
Qed.

Lemma pd_int_ok n : 0 <= n < 10 ^ 20 -> int_ok (pdigits 20 n) = true.
Proof.
  intros Hn. rewrite (pdigits_unfold 19).
  destruct (n <? 10) eqn:E; [reflexivity|].
  apply Z.ltb_ge in E.
  destruct (pd_head 19 (n / 10)) as (c & r & Hp & Hc & H0).
  { change (10 ^ Z.of_nat 19) with (10 ^ 19). change (10 ^ 20) with (10 * 10 ^ 19) in Hn.
    split. apply Z.div_str_pos; lia. apply Z.div_lt_upper_bound; lia. }
  rewrite Hp. simpl. destruct (r ++ [digit (n mod 10)]) eqn:Er.
  - destruct r; discriminate.
  - rewrite H0. reflexivity.
Qed.

Lemma pd_nonempty n : 0 <= n -> exists c r, pdigits 20 n = c :: r /\ is_digit c = true.
Proof.
  intros Hn. pose proof (pd_digits 20 n Hn) as Hd.
  destruct (pdigits 20 n) as [|c r] eqn:E.
  - exfalso. rewrite (pdigits_unfold 19) in E. destruct (n <? 10); [discriminate|].
    destruct (pdigits 19 (n / 10)); discriminate.
  - exists c, r. split; auto. inversion Hd; auto.
Qed.

Lemma take_digits_app ds r :
  all_digits ds -> (r = [] \/ exists c r', r = c :: r' /\ is_digit c = false) ->
  take_digits (ds ++ r) = (ds, r).
Proof.
  intros Hd Hr. induction Hd as [|c ds Hc Hd IH]; simpl.
  - destruct Hr as [->|(c & r' & -> & Hc)]; simpl; auto. rewrite Hc. reflexivity.
  - rewrite Hc, IH. reflexivity.
Qed.

(* ================================================================ MarshalTimestamp *)
(* the fraction part written after the integer seconds, for 0 <= fr < 1000 *)
Definition frac_part (fraction : Z) : bytes :=
  if fraction =? 0 then []
  else [46%N] ++ (if fraction <? 100 then [48%N] else [])
              ++ (if fraction <? 10 then [48%N] else [])
              ++ write_int64 fraction.

Lemma frac_part_digits fr : 0 < fr < 1000 ->
  frac_part fr = 46%N :: [digit (fr / 100); digit (fr / 10 mod 10); digit (fr mod 10)].
Proof.
  intros H. unfold frac_part, write_int64.
  replace (fr =? 0) with false by (symmetry; apply Z.eqb_neq; lia).
  replace (fr <? 0) with false by (symmetry; apply Z.ltb_ge; lia).
  rewrite (pdigits_unfold 19), (pdigits_unfold 18), (pdigits_unfold 17).
  destruct (fr <? 10) eqn:E1.
  - apply Z.ltb_lt in E1.
    replace (fr <? 100) with true by (symmetry; apply Z.ltb_lt; lia).
    rewrite (Z.div_small fr 100), (Z.div_small fr 10), (Z.mod_small fr 10) by lia.
    reflexivity.
  - apply Z.ltb_ge in E1.
    assert (Hq : 0 < fr / 10 < 100).
    { split. apply Z.div_str_pos; lia. apply Z.div_lt_upper_bound; lia. }
    destruct (fr / 10 <? 10) eqn:E2.
    + apply Z.ltb_lt in E2.
      assert (fr < 100) by (pose proof (Z.div_mod fr 10 ltac:(lia)); pose proof (Z.mod_pos_bound fr 10 ltac:(lia)); lia).
      replace (fr <? 100) with true by (symmetry; apply Z.ltb_lt; lia).
      rewrite (Z.div_small fr 100) by lia. rewrite (Z.mod_small (fr / 10) 10) by lia.
      reflexivity.
    + apply Z.ltb_ge in E2.
      assert (100 <= fr) by (pose proof (Z.div_mod fr 10 ltac:(lia)); pose proof (Z.mod_pos_bound fr 10 ltac:(lia)); lia).
      replace (fr <? 100) with false by (symmetry; apply Z.ltb_ge; lia).
      assert (Hqq : 0 < fr / 10 / 10 < 10).
      { split. apply Z.div_str_pos; lia. apply Z.div_lt_upper_bound; lia. }
      replace (fr / 10 / 10 <? 10) with true by (symmetry; apply Z.ltb_lt; lia).
      rewrite Z.div_div by lia. change (10 * 10) with 100.
      reflexivity.
Qed.

Lemma parse_unsigned_ts sg a : 0 <= a <= maxInt64 ->
  exists m k, parse_unsigned sg (pdigits 20 (a / 1000) ++ frac_part (a mod 1000)) = Some (m, k)
              /\ m * 1000 = sg * a * 10 ^ k /\ (k = 0 \/ k = 3).
Proof.
  intros Ha. unfold maxInt64 in Ha.
  assert (Hq : 0 <= a / 1000 < 10 ^ 20).
  { split. apply Z.div_pos; lia. apply Z.div_lt_upper_bound; lia. }
  pose proof (Z.mod_pos_bound a 1000 ltac:(lia)) as Hf.
  pose proof (Z.div_mod a 1000 ltac:(lia)) as Hdm.
  pose proof (pd_digits 20 (a / 1000) ltac:(lia)) as Hdig.
  pose proof (pd_int_ok (a / 1000) Hq) as Hok.
  pose proof (pd_val 20 (a / 1000) 0 Hq) as Hval. rewrite Z.mul_0_l, Z.add_0_l in Hval.
  unfold parse_unsigned.
  destruct (a mod 1000 =? 0) eqn:E0.
  - apply Z.eqb_eq in E0.
    unfold frac_part. rewrite E0. change (0 =? 0) with true. cbn iota.
    rewrite (take_digits_app _ []) by auto. rewrite Hok, Hval.
    exists (sg * (a / 1000)), 0. split; [reflexivity|]. split; [|auto]. lia.
  - apply Z.eqb_neq in E0.
    rewrite frac_part_digits by lia.
    set (d1 := a mod 1000 / 100). set (d2 := a mod 1000 / 10 mod 10). set (d3 := a mod 1000 mod 10).
    assert (H1 : 0 <= d1 <= 9).
    { unfold d1. split. apply Z.div_pos; lia. apply Z.lt_succ_r. apply Z.div_lt_upper_bound; lia. }
    assert (H2 : 0 <= d2 <= 9) by (unfold d2; pose proof (Z.mod_pos_bound (a mod 1000 / 10) 10 ltac:(lia)); lia).
    assert (H3 : 0 <= d3 <= 9) by (unfold d3; pose proof (Z.mod_pos_bound (a mod 1000) 10 ltac:(lia)); lia).
    rewrite take_digits_app; auto.
    2:{ right. eexists _, _. split; [reflexivity|reflexivity]. }
    rewrite Hok. change ((46 =? 46)%N) with true. cbn iota.
    assert (Htd : take_digits [digit d1; digit d2; digit d3] = ([digit d1; digit d2; digit d3], [])).
    { rewrite <- (app_nil_r [digit d1; digit d2; digit d3]) at 1. apply take_digits_app; auto.
      repeat constructor; apply digit_is_digit; auto. }
    rewrite Htd.
    rewrite Hval. cbn [digits_val List.length]. rewrite !digit_val by auto.
    eexists _, 3. split; [reflexivity|]. split; [|auto].
    assert (Hrec : a mod 1000 = d1 * 100 + d2 * 10 + d3).
    { unfold d1, d2, d3.
      pose proof (Z.div_mod (a mod 1000) 10 ltac:(lia)).
      pose proof (Z.div_mod (a mod 1000 / 10) 10 ltac:(lia)).
      rewrite Z.div_div in H0 by lia. change (10 * 10) with 100 in H0. lia. }
    change (10 ^ 3) with 1000. lia.
Qed.

Lemma marshal_timestamp_nonneg t : 0 <= t ->
  marshal_timestamp t = pdigits 20 (t / 1000) ++ frac_part (t mod 1000).
Proof.
  intros Ht. unfold marshal_timestamp, godiv, gorem.
  replace (t <? 0) with false by (symmetry; apply Z.ltb_ge; lia).
  rewrite Z.quot_div_nonneg, Z.rem_mod_nonneg by lia.
  unfold write_int64 at 1.
  replace (t / 1000 <? 0) with false.
  2:{ symmetry. apply Z.ltb_ge. apply Z.div_pos; lia. }
  reflexivity.
Qed.

Lemma marshal_timestamp_neg t : minInt64 < t < 0 ->
  marshal_timestamp t = 45%N :: pdigits 20 ((- t) / 1000) ++ frac_part ((- t) mod 1000).
Proof.
  intros Ht. unfold marshal_timestamp, godiv, gorem.
  replace (t <? 0) with true by (symmetry; apply Z.ltb_lt; lia).
  unfold neg64. rewrite wrap64_id by (unfold int64, minInt64, maxInt64 in *; lia).
  rewrite Z.quot_div_nonneg, Z.rem_mod_nonneg by lia.
  unfold write_int64 at 1.
  replace (- t / 1000 <? 0) with false.
  2:{ symmetry. apply Z.ltb_ge. apply Z.div_pos; lia. }
  reflexivity.
Qed.

(* C51, timestamps: for every int64 t except MinInt64 the bytes written by MarshalTimestamp are a
   JSON number whose exact value m/10^k is t/1000. *)
Theorem timestamp_roundtrip t : minInt64 < t <= maxInt64 ->
  exists m k, parse_number (marshal_timestamp t) = Some (m, k) /\ m * 1000 = t * 10 ^ k /\ (k = 0 \/ k = 3).
Proof.
  intros Ht. destruct (Z.ltb_spec t 0) as [Hneg|Hpos].
  - rewrite marshal_timestamp_neg by lia. unfold parse_number. change ((45 =? 45)%N) with true. cbn iota.
    destruct (parse_unsigned_ts (-1) (- t)) as (m & k & Hp & Hm & Hk).
    { unfold minInt64, maxInt64 in *. lia. }
    exists m, k. split; [exact Hp|]. split; [lia|exact Hk].
  - rewrite marshal_timestamp_nonneg by lia.
    destruct (pd_nonempty (t / 1000)) as (c & r & Hc & Hd). { apply Z.div_pos; lia. }
    destruct (parse_unsigned_ts 1 t) as (m & k & Hp & Hm & Hk). { lia. }
    unfold parse_number. rewrite Hc in *. cbn [app].
    rewrite (is_digit_not c 45) by (auto; reflexivity).
    exists m, k. split; [exact Hp|]. split; [lia|exact Hk].
Qed.

(* MinInt64: t = -t wraps, the output is not a number at all (outside the API's time range). *)
Lemma timestamp_minint64_garbage :
  marshal_timestamp minInt64 = s2b "--9223372036854775.00-808" /\ parse_number (marshal_timestamp minInt64) = None.
Proof. split; vm_compute; reflexivity. Qed.

Lemma api_min_val : api_min_ms = -9223309901257974000.
Proof. vm_compute. reflexivity. Qed.
Lemma api_max_val : api_max_ms = 9223309901257974999.
Proof. vm_compute. reflexivity. Qed.

Lemma api_range_in_domain t : in_api_range t = true -> minInt64 < t <= maxInt64.
Proof.
  unfold in_api_range. rewrite api_min_val, api_max_val. intros H. apply andb_true_iff in H as [H1 H2].
  apply Z.leb_le in H1, H2. unfold minInt64, maxInt64. lia.
Qed.

(* ================================================================ MarshalFloat *)
Section FloatRoundTrip.
Variable fmt : Z -> fmtk -> bytes.
Variable parse : bytes -> option Z.               (* strconv.ParseFloat *)
Hypothesis fmt_plain : forall f k, forallb plain_char (fmt f k) = true.
Hypothesis fmt_rt : forall f k, exists f', parse (fmt f k) = Some f' /\ fsame f f' = true.

Lemma unquote_quote body : forallb plain_char body = true -> unquote ([34%N] ++ body ++ [34%N]) = Some body.
Proof.
  intros H. unfold unquote. cbn [app]. change ((34 =? 34)%N) with true. cbn iota.
  rewrite rev_app_distr. cbn [rev app]. change ((34 =? 34)%N) with true. cbn iota.
  rewrite rev_involutive, H. reflexivity.
Qed.

Theorem float_roundtrip f :
  exists s f', unquote (marshal_float fmt f) = Some s /\ parse s = Some f' /\ fsame f f' = true.
Proof.
  unfold marshal_float. destruct (fmt_rt f (choose_fmt f)) as (f' & Hp & Hs).
  exists (fmt f (choose_fmt f)), f'. split; [|auto]. apply unquote_quote, fmt_plain.
Qed.
End FloatRoundTrip.

(* the format choice, spelled out *)
Lemma choose_fmt_spec f :
  choose_fmt f = if fnan f then FmtF
                 else if fabs f =? 0 then FmtF
                 else if (fabs f <? c_1em6) || (c_1e21 <=? fabs f) then FmtE else FmtF.
Proof.
  unfold choose_fmt, fne, flt, fge, fnan, fzero, fkey, fsign.
  assert (Ha : 0 <= fabs f < two63) by (unfold fabs; apply Z.mod_pos_bound; reflexivity).
  assert (Haa : fabs (fabs f) = fabs f) by (unfold fabs in *; rewrite Z.mod_small; auto).
  rewrite Haa.
  replace (two63 <=? fabs f) with false by (symmetry; apply Z.leb_gt; lia).
  change (two63 <=? c_1em6) with false. change (two63 <=? c_1e21) with false. change (two63 <=? 0) with false.
  change (fabs 0) with 0. change (inf_bits <? 0) with false.
  change (inf_bits <? fabs c_1em6) with false. change (inf_bits <? fabs c_1e21) with false.
  destruct (inf_bits <? fabs f) eqn:En; cbn.
  - reflexivity.
  - destruct (fabs f =? 0); reflexivity.
Qed.

(* ================================================================ Scalar timestamps *)
(* Two different timestamps inside the API's time range get the same float64(T)/1000 and hence
   the same bytes, whatever the float formatting does: the scalar encoding is not injective. *)
Lemma scalar_ts_collision :
  in_api_range 9007199254741020 = true /\ in_api_range 9007199254741021 = true /\
  scalar_ts_bits 9007199254741020 = scalar_ts_bits 9007199254741021.
Proof. repeat split; vm_compute; reflexivity. Qed.

Lemma scalar_not_injective :
  exists t1 t2, in_api_range t1 = true /\ in_api_range t2 = true /\ t1 <> t2 /\
    forall fmt v, marshal_scalar fmt t1 v = marshal_scalar fmt t2 v.
Proof.
  exists 9007199254741020, 9007199254741021.
  destruct scalar_ts_collision as (H1 & H2 & H3).
  split; [exact H1|]. split; [exact H2|]. split; [lia|].
  intros fmt v. unfold marshal_scalar. rewrite H3. reflexivity.
Qed.

(* proof/ShardingProofs.v — lemmas about model/Sharding.v (C18). *)
From Coq Require Import List NArith ZArith Bool Lia Permutation.
From Verif Require Import lib.Bytes model.Sharding.
Import ListNotations.
Open Scope Z_scope.

(* ------------------------------------------------------------------ serialisation *)
Lemma concat_writes_of v : concat (writes_of v) = entry v.
Proof. unfold writes_of, entry. cbn [concat]. rewrite app_nil_r. reflexivity. Qed.

Lemma concat_flat_map_writes ls : concat (flat_map writes_of ls) = stable_bytes ls.
Proof.
  induction ls as [|v ls IH]; [reflexivity|].
  cbn [flat_map]. rewrite concat_app, concat_writes_of, IH. reflexivity.
Qed.

Lemma feed_slice_bytes ls : forall b, feed_bytes (feed_slice b ls) = b ++ stable_bytes ls.
Proof.
  induction ls as [|v ls IH]; intros b.
  - cbn. now rewrite app_nil_r.
  - cbn [feed_slice]. destruct (overflows b v).
    + cbn [feed_bytes concat]. now rewrite concat_flat_map_writes.
    + rewrite IH. cbn [stable_bytes flat_map]. now rewrite app_assoc.
Qed.

Lemma feed_string_bytes ls : forall b h,
  feed_bytes (feed_string b h ls) =
  match h with Some ws => concat ws ++ stable_bytes ls | None => b ++ stable_bytes ls end.
Proof.
  induction ls as [|v ls IH]; intros b h.
  - cbn. destruct h; cbn; now rewrite app_nil_r.
  - cbn [feed_string]. destruct h as [ws|].
    + rewrite IH. rewrite concat_app, concat_writes_of. cbn [stable_bytes flat_map].
      now rewrite app_assoc.
    + destruct (overflows b v).
      * rewrite IH. cbn [app]. cbn [concat]. rewrite concat_writes_of.
        cbn [stable_bytes flat_map]. now rewrite app_assoc.
      * rewrite IH. cbn [stable_bytes flat_map]. now rewrite app_assoc.
Qed.

Lemma dedupe_inner_bytes ls : forall ws, concat (dedupe_inner ws ls) = concat ws ++ stable_bytes ls.
Proof.
  induction ls as [|v ls IH]; intros ws.
  - cbn. now rewrite app_nil_r.
  - cbn [dedupe_inner]. rewrite IH, concat_app, concat_writes_of.
    cbn [stable_bytes flat_map]. now rewrite app_assoc.
Qed.

Lemma feed_dedupe_bytes ls : forall b, feed_bytes (feed_dedupe b ls) = b ++ stable_bytes ls.
Proof.
  induction ls as [|v ls IH]; intros b.
  - cbn. now rewrite app_nil_r.
  - cbn [feed_dedupe]. destruct (overflows b v).
    + cbn [feed_bytes]. rewrite dedupe_inner_bytes. cbn [concat]. now rewrite app_nil_r.
    + rewrite IH. cbn [stable_bytes flat_map]. now rewrite app_assoc.
Qed.

(* every variant feeds exactly the reference serialisation to xxhash *)
Lemma feed_of_bytes v ls : feed_bytes (feed_of v ls) = stable_bytes ls.
Proof.
  destruct v; unfold feed_of.
  - now rewrite feed_string_bytes.
  - now rewrite feed_slice_bytes.
  - now rewrite feed_dedupe_bytes.
Qed.

(* ... and switches to the streaming API in exactly the same situations: when the whole
   serialisation is at least 1024 bytes long *)
Definition is_stream (f : feed) : bool := match f with FStream _ => true | FSum _ => false end.

Lemma len_app a b : len (a ++ b) = len a + len b.
Proof. unfold len. rewrite app_length. lia. Qed.

Lemma len_entry v : len (entry v) = len (l_name v) + len (l_value v) + 2.
Proof. unfold entry. rewrite !len_app. unfold len. cbn [length]. lia. Qed.

Lemma len_nonneg b : 0 <= len b.
Proof. unfold len. lia. Qed.

Lemma len_stable_cons v ls : len (stable_bytes (v :: ls)) = len (entry v) + len (stable_bytes ls).
Proof. cbn [stable_bytes flat_map]. now rewrite len_app. Qed.

(* the buffer stays strictly below its capacity, which is what makes the "fits" test exact *)
Lemma feed_slice_stream ls : forall b, len b < cap_b ->
  is_stream (feed_slice b ls) = (cap_b <=? len b + len (stable_bytes ls)).
Proof.
  induction ls as [|v ls IH]; intros b Hb.
  - cbn [feed_slice is_stream stable_bytes flat_map]. unfold len at 2. cbn [length].
    symmetry. apply Z.leb_gt. lia.
  - cbn [feed_slice]. unfold overflows. rewrite len_stable_cons, len_entry.
    pose proof (len_nonneg (stable_bytes ls)).
    destruct (cap_b <=? len b + len (l_name v) + len (l_value v) + 2) eqn:E.
    + cbn [is_stream]. symmetry. apply Z.leb_le. apply Z.leb_le in E. lia.
    + apply Z.leb_gt in E. rewrite IH by (rewrite len_app, len_entry; lia).
      rewrite len_app, len_entry. f_equal. lia.
Qed.

Lemma feed_dedupe_stream ls : forall b, len b < cap_b ->
  is_stream (feed_dedupe b ls) = (cap_b <=? len b + len (stable_bytes ls)).
Proof.
  induction ls as [|v ls IH]; intros b Hb.
  - cbn [feed_dedupe is_stream stable_bytes flat_map]. unfold len at 2. cbn [length].
    symmetry. apply Z.leb_gt. lia.
  - cbn [feed_dedupe]. unfold overflows. rewrite len_stable_cons, len_entry.
    pose proof (len_nonneg (stable_bytes ls)).
    destruct (cap_b <=? len b + len (l_name v) + len (l_value v) + 2) eqn:E.
    + cbn [is_stream]. symmetry. apply Z.leb_le. apply Z.leb_le in E. lia.
    + apply Z.leb_gt in E. rewrite IH by (rewrite len_app, len_entry; lia).
      rewrite len_app, len_entry. f_equal. lia.
Qed.

Lemma feed_string_stream_some ls : forall b ws, is_stream (feed_string b (Some ws) ls) = true.
Proof. induction ls as [|v ls IH]; intros; cbn [feed_string]; [reflexivity|apply IH]. Qed.

Lemma feed_string_stream ls : forall b, len b < cap_b ->
  is_stream (feed_string b None ls) = (cap_b <=? len b + len (stable_bytes ls)).
Proof.
  induction ls as [|v ls IH]; intros b Hb.
  - cbn [feed_string is_stream stable_bytes flat_map]. unfold len at 2. cbn [length].
    symmetry. apply Z.leb_gt. lia.
  - cbn [feed_string]. unfold overflows. rewrite len_stable_cons, len_entry.
    pose proof (len_nonneg (stable_bytes ls)).
    destruct (cap_b <=? len b + len (l_name v) + len (l_value v) + 2) eqn:E.
    + rewrite feed_string_stream_some. symmetry. apply Z.leb_le. apply Z.leb_le in E. lia.
    + apply Z.leb_gt in E. rewrite IH by (rewrite len_app, len_entry; lia).
      rewrite len_app, len_entry. f_equal. lia.
Qed.

Lemma feed_of_stream v ls : is_stream (feed_of v ls) = (cap_b <=? len (stable_bytes ls)).
Proof.
  assert (H0 : len [] < cap_b) by (unfold len, cap_b; cbn; lia).
  destruct v; unfold feed_of.
  - now rewrite feed_string_stream.
  - now rewrite feed_slice_stream.
  - now rewrite feed_dedupe_stream.
Qed.

(* ------------------------------------------------------------------ generic partition *)
Section Partition.
  Context {A : Type} (f : A -> Z).

  Definition part (l : list A) (i : Z) : list A := filter (fun x => f x =? i) l.

  Definition below (k : Z) (l : list A) : list A := filter (fun x => (0 <=? f x) && (f x <? k)) l.

  Lemma below_step k l : 0 <= k -> Permutation (below k l ++ part l k) (below (k + 1) l).
  Proof.
    intros Hk. induction l as [|x l IH]; [constructor|].
    unfold below, part in *. cbn [filter].
    destruct (f x =? k) eqn:E.
    - apply Z.eqb_eq in E.
      replace ((0 <=? f x) && (f x <? k)) with false by (symmetry; apply andb_false_iff; right; apply Z.ltb_ge; lia).
      replace ((0 <=? f x) && (f x <? k + 1)) with true
        by (symmetry; apply andb_true_iff; split; [apply Z.leb_le|apply Z.ltb_lt]; lia).
      apply Permutation_sym, Permutation_cons_app, Permutation_sym, IH.
    - apply Z.eqb_neq in E.
      replace ((0 <=? f x) && (f x <? k + 1)) with ((0 <=? f x) && (f x <? k)).
      2:{ f_equal. destruct (f x <? k) eqn:E1; symmetry.
          - apply Z.ltb_lt in E1. apply Z.ltb_lt. lia.
          - apply Z.ltb_ge in E1. apply Z.ltb_ge. lia. }
      destruct ((0 <=? f x) && (f x <? k)); cbn [app]; [constructor|]; apply IH.
  Qed.

  (* the shard indexes 0, 1, ..., k-1 *)
  Definition range (k : nat) : list Z := map Z.of_nat (seq 0 k).

  Lemma range_S k : range (S k) = range k ++ [Z.of_nat k].
  Proof. unfold range. rewrite seq_S, map_app. reflexivity. Qed.

  Lemma parts_below k l : Permutation (concat (map (part l) (range k))) (below (Z.of_nat k) l).
  Proof.
    induction k as [|k IH].
    - cbn. unfold below. induction l as [|x l IHl]; [constructor|]. cbn [filter].
      replace ((0 <=? f x) && (f x <? 0)) with false; [exact IHl|].
      symmetry. apply andb_false_iff. destruct (0 <=? f x) eqn:E; [right|now left].
      apply Z.leb_le in E. apply Z.ltb_ge. lia.
    - rewrite range_S, map_app, concat_app. cbn [map concat]. rewrite app_nil_r.
      rewrite Nat2Z.inj_succ. unfold Z.succ.
      eapply Permutation_trans; [|apply below_step; lia].
      apply Permutation_app_tail, IH.
  Qed.

  Lemma below_all n l : (forall x, In x l -> 0 <= f x < n) -> below n l = l.
  Proof.
    intros H. unfold below. induction l as [|x l IH]; [reflexivity|].
    cbn [filter]. destruct (H x (or_introl eq_refl)) as [H0 H1].
    replace ((0 <=? f x) && (f x <? n)) with true
      by (symmetry; apply andb_true_iff; split; [apply Z.leb_le|apply Z.ltb_lt]; lia).
    f_equal. apply IH. intros y Hy. apply H. now right.
  Qed.

  (* the n parts, concatenated, are a rearrangement of the whole list: nothing lost, nothing
     duplicated, nothing invented *)
  Lemma parts_permutation n l :
    (forall x, In x l -> 0 <= f x < Z.of_nat n) ->
    Permutation (concat (map (part l) (range n))) l.
  Proof. intros H. rewrite <- (below_all (Z.of_nat n) l H) at 2. apply parts_below. Qed.

  Lemma part_in l i x : In x (part l i) <-> In x l /\ f x = i.
  Proof. unfold part. rewrite filter_In, Z.eqb_eq. reflexivity. Qed.

  Lemma parts_disjoint l i j x : i <> j -> In x (part l i) -> ~ In x (part l j).
  Proof. rewrite !part_in. intros Hij [_ Hi] [_ Hj]. congruence. Qed.

  Lemma parts_union n l x :
    (forall x, In x l -> 0 <= f x < n) ->
    In x l <-> exists i, 0 <= i < n /\ In x (part l i).
  Proof.
    intros H. split.
    - intros Hx. exists (f x). split; [now apply H|]. apply part_in. now split.
    - intros [i [_ Hi]]. now apply part_in in Hi.
  Qed.

  Lemma part_out_of_range n l i :
    (forall x, In x l -> 0 <= f x < n) -> ~ (0 <= i < n) -> part l i = [].
  Proof.
    intros H Hi. unfold part. induction l as [|x l IH]; [reflexivity|].
    cbn [filter]. destruct (f x =? i) eqn:E.
    - apply Z.eqb_eq in E. specialize (H x (or_introl eq_refl)). lia.
    - apply IH. intros y Hy. apply H. now right.
  Qed.

  Lemma part_nodup l i : NoDup l -> NoDup (part l i).
  Proof. apply NoDup_filter. Qed.
End Partition.

(* ------------------------------------------------------------------ head and block *)
Section WithHash.
  Variable xxh_sum : bytes -> Z.
  Variable xxh_stream : list bytes -> Z.
  (* the assumed behaviour of the oracle: a streaming digest equals the one-shot sum of the
     concatenated writes *)
  Hypothesis stream_oneshot : forall ws, xxh_stream ws = xxh_sum (concat ws).

  Lemma stable_hash_v_eq v ls : stable_hash_v xxh_sum xxh_stream v ls = stable_hash xxh_sum ls.
  Proof.
    unfold stable_hash_v, stable_hash. rewrite <- (feed_of_bytes v ls).
    destruct (feed_of v ls); cbn [hash_feed feed_bytes]; [reflexivity|apply stream_oneshot].
  Qed.

  Notation stable_hash' := (stable_hash xxh_sum).
  Notation shard' := (shard xxh_sum).

  (* invariant of every head: the cached shardHash is the StableHash of the series' labels
     when sharding is enabled (and 0 otherwise) *)
  Definition head_inv (h : head) : Prop :=
    forall s, In s (h_series h) ->
      ms_shardHash s = if h_sharding h then stable_hash' (ms_lset s) else 0.

  Lemma empty_head_inv en : head_inv (empty_head en).
  Proof. intros s []. Qed.

  Lemma head_step_sharding h o : h_sharding (head_step xxh_sum h o) = h_sharding h.
  Proof.
    destruct o; cbn [head_step]; try reflexivity;
      unfold get_or_create; destruct (get_by_labels h ls); cbn;
      try destruct (_ =? 0); reflexivity.
  Qed.

  Lemma get_or_create_inv h id ls : head_inv h -> head_inv (fst (get_or_create xxh_sum h id ls)).
  Proof.
    intros Hinv. unfold get_or_create. destruct (get_by_labels h ls).
    - cbn [fst]. destruct (id =? 0); [|exact Hinv]. intros s Hs. exact (Hinv s Hs).
    - cbn [fst]. intros s Hs. cbn [h_series h_sharding] in *.
      apply in_app_or in Hs. destruct Hs as [Hs|[<-|[]]]; [exact (Hinv s Hs)|reflexivity].
  Qed.

  Lemma head_step_inv h o : head_inv h -> head_inv (head_step xxh_sum h o).
  Proof.
    intros Hinv. destruct o; cbn [head_step]; try apply get_or_create_inv; try assumption.
    intros s Hs. cbn [h_series h_sharding] in *. apply filter_In in Hs. exact (Hinv s (proj1 Hs)).
  Qed.

  Lemma fold_head_inv ops : forall h, head_inv h ->
    head_inv (fold_left (head_step xxh_sum) ops h) /\
    h_sharding (fold_left (head_step xxh_sum) ops h) = h_sharding h.
  Proof.
    induction ops as [|o ops IH]; intros h Hinv; [split; [assumption|reflexivity]|].
    cbn [fold_left]. destruct (IH _ (head_step_inv h o Hinv)) as [H1 H2].
    split; [exact H1|]. now rewrite H2, head_step_sharding.
  Qed.

  (* every reachable head satisfies the invariant, whatever its history of series creations,
     WAL replays and garbage collections *)
  Lemma run_head_inv en ops : head_inv (run_head xxh_sum en ops) /\ h_sharding (run_head xxh_sum en ops) = en.
  Proof. unfold run_head. apply (fold_head_inv ops (empty_head en)), empty_head_inv. Qed.

  Lemma get_by_id_some h r s : get_by_id h r = Some s -> In s (h_series h) /\ ms_ref s = r.
  Proof.
    unfold get_by_id. intros H. apply find_some in H. destruct H as [H1 H2].
    split; [assumption|]. now apply Z.eqb_eq.
  Qed.

  (* --- what makes a source well formed for the theorem *)
  Definition src_ok (s : source) (p : list Z) : Prop :=
    match s with
    | SrcHead h => h_sharding h = true /\ head_inv h
    | SrcBlock b => forall r, In r p -> block_series b r <> None   (* every posting resolves *)
    end.

  Definition shard_pred (idx cnt : Z) (rl : Z * labels) : bool := shard' (snd rl) cnt =? idx.

  Definition one (s : source) (vis : Z -> bool) (r : Z) : list (Z * labels) :=
    match src_series s r with
    | Some ls => if vis r then [(r, ls)] else []
    | None => []
    end.

  Lemma series_set_flat s vis p : series_set s vis p = flat_map (one s vis) p.
  Proof. reflexivity. Qed.

  Lemma filter_flat_map {X Y} (g : Y -> bool) (k : X -> list Y) l :
    filter g (flat_map k l) = flat_map (fun x => filter g (k x)) l.
  Proof.
    induction l as [|x l IH]; [reflexivity|]. cbn [flat_map]. now rewrite filter_app, IH.
  Qed.

  Lemma head_sharded_spec h idx cnt : cnt <> 0 -> forall p,
    head_sharded_loop h p idx cnt =
    SOk (flat_map (fun r => match get_by_id h r with
                            | Some s => if shard_of_hash (ms_shardHash s) cnt =? idx then [ms_ref s] else []
                            | None => []
                            end) p).
  Proof.
    intros Hc. induction p as [|r p IH]; [reflexivity|].
    cbn [head_sharded_loop flat_map]. destruct (get_by_id h r) as [s|]; [|exact IH].
    destruct (cnt =? 0) eqn:E; [apply Z.eqb_eq in E; contradiction|].
    rewrite IH. destruct (shard_of_hash (ms_shardHash s) cnt =? idx); reflexivity.
  Qed.

  Lemma block_sharded_spec b idx cnt : cnt <> 0 -> forall p,
    (forall r, In r p -> block_series b r <> None) ->
    block_sharded_postings xxh_sum b p idx cnt =
    SOk (flat_map (fun r => match block_series b r with
                            | Some ls => if shard' ls cnt =? idx then [r] else []
                            | None => []
                            end) p).
  Proof.
    intros Hc. induction p as [|r p IH]; intros Hp; [reflexivity|].
    cbn [block_sharded_postings flat_map].
    destruct (block_series b r) as [ls|] eqn:Er.
    2:{ exfalso. apply (Hp r (or_introl eq_refl)). exact Er. }
    destruct (cnt =? 0) eqn:E; [apply Z.eqb_eq in E; contradiction|].
    rewrite IH by (intros r' Hr'; apply Hp; now right).
    destruct (shard' ls cnt =? idx); reflexivity.
  Qed.

  (* Select with shard hints = Select without, filtered by "stable hash of the labels mod n" *)
  Lemma select_sharded s vis p idx cnt :
    1 <= cnt -> src_ok s p ->
    select xxh_sum s vis p (mkHints idx cnt) =
    SOk (filter (shard_pred idx cnt) (series_set s vis p)).
  Proof.
    intros Hn Hok. assert (Hc : cnt <> 0) by lia.
    unfold select. cbn [sh_count sh_index].
    replace (0 <? cnt) with true by (symmetry; apply Z.ltb_lt; lia).
    destruct s as [h|b]; cbn [src_sharded src_ok] in *.
    - destruct Hok as [Hen Hinv]. unfold head_sharded_postings. rewrite Hen. cbn [negb].
      rewrite head_sharded_spec by assumption. f_equal.
      rewrite !series_set_flat, filter_flat_map.
      induction p as [|r p IH]; [reflexivity|].
      cbn [flat_map]. rewrite flat_map_app, IH. f_equal.
      unfold one at 2. cbn [src_series].
      destruct (get_by_id h r) as [ms|] eqn:Eg; [|reflexivity].
      destruct (get_by_id_some _ _ _ Eg) as [Hin Href].
      pose proof (Hinv ms Hin) as Hsh. rewrite Hen in Hsh.
      cbn [option_map]. rewrite Hsh, Href.
      unfold shard_pred, shard. cbn [filter snd flat_map].
      destruct (shard_of_hash (stable_hash' (ms_lset ms)) cnt =? idx) eqn:E.
      + cbn [flat_map]. rewrite app_nil_r. unfold one. cbn [src_series]. rewrite Eg. cbn [option_map].
        destruct (vis r); [|reflexivity]. cbn [filter snd]. now rewrite E.
      + cbn [flat_map]. destruct (vis r); [|reflexivity]. cbn [filter snd]. now rewrite E.
    - rewrite block_sharded_spec by assumption. f_equal.
      rewrite !series_set_flat, filter_flat_map.
      induction p as [|r p IH]; [reflexivity|].
      cbn [flat_map]. rewrite flat_map_app, IH by (intros r' Hr'; apply Hok; now right). f_equal.
      unfold one at 2. cbn [src_series].
      destruct (block_series b r) as [ls|] eqn:Eb; [|reflexivity].
      unfold shard_pred. cbn [snd]. destruct (shard' ls cnt =? idx) eqn:E.
      + cbn [flat_map]. rewrite app_nil_r. unfold one. cbn [src_series]. rewrite Eb.
        destruct (vis r); [|reflexivity]. cbn [filter snd]. now rewrite E.
      + cbn [flat_map]. destruct (vis r); [|reflexivity]. cbn [filter snd]. now rewrite E.
  Qed.

  Lemma select_unsharded s vis p : select xxh_sum s vis p no_shard = SOk (series_set s vis p).
  Proof. reflexivity. Qed.

  Lemma shard_range ls n : 1 <= n -> 0 <= shard' ls n < n.
  Proof. intros Hn. unfold shard, shard_of_hash. apply Z.mod_pos_bound. lia. Qed.

  Lemma shard_pred_part idx cnt l :
    filter (shard_pred idx cnt) l = part (fun rl => shard' (snd rl) cnt) l idx.
  Proof. reflexivity. Qed.

  Lemma select_disabled h vis p idx cnt :
    1 <= cnt -> h_sharding h = false ->
    select xxh_sum (SrcHead h) vis p (mkHints idx cnt) = SErrDisabled.
  Proof.
    intros Hn Hd. unfold select. cbn [sh_count sh_index].
    replace (0 <? cnt) with true by (symmetry; apply Z.ltb_lt; lia).
    cbn [src_sharded]. unfold head_sharded_postings. now rewrite Hd.
  Qed.
End WithHash.

(* ------------------------------------------------------------------ the property statements *)
Lemma variants_equal ls v :
  feed_bytes (feed_of v ls) = stable_bytes ls /\
  is_stream (feed_of v ls) = (1024 <=? len (stable_bytes ls)).
Proof. split; [apply feed_of_bytes|apply feed_of_stream]. Qed.

Lemma variants_hash_equal xxh_sum xxh_stream :
  (forall ws, xxh_stream ws = xxh_sum (concat ws)) ->
  forall ls v1 v2,
    stable_hash_v xxh_sum xxh_stream v1 ls = stable_hash_v xxh_sum xxh_stream v2 ls /\
    stable_hash_v xxh_sum xxh_stream v1 ls = stable_hash xxh_sum ls.
Proof. intros H ls v1 v2. now rewrite !(stable_hash_v_eq _ _ H). Qed.

Lemma reachable_head_ok xxh_sum ops p : src_ok xxh_sum (SrcHead (run_head xxh_sum true ops)) p.
Proof. destruct (run_head_inv xxh_sum true ops) as [H1 H2]. split; assumption. Qed.

Lemma head_caches_stable_hash xxh_sum en ops s :
  In s (h_series (run_head xxh_sum en ops)) ->
  ms_shardHash s = if en then stable_hash xxh_sum (ms_lset s) else 0.
Proof.
  intros Hs. destruct (run_head_inv xxh_sum en ops) as [H1 H2].
  specialize (H1 s Hs). now rewrite H2 in H1.
Qed.

Lemma disabled_head_errors xxh_sum ops vis p idx n : 1 <= n ->
  select xxh_sum (SrcHead (run_head xxh_sum false ops)) vis p (mkHints idx n) = SErrDisabled.
Proof.
  intros Hn. apply select_disabled; [assumption|]. apply (run_head_inv xxh_sum false ops).
Qed.

Definition partition_statement' (xxh_sum : bytes -> Z) (s : source) (vis : Z -> bool) (p : list Z) (n : nat) : Prop :=
  let U := series_set s vis p in
  let S := fun i => filter (shard_pred xxh_sum i (Z.of_nat n)) U in
  select xxh_sum s vis p no_shard = SOk U /\
  (forall i, select xxh_sum s vis p (mkHints i (Z.of_nat n)) = SOk (S i)) /\
  Permutation (concat (map S (range n))) U /\
  (forall i j x, i <> j -> In x (S i) -> ~ In x (S j)) /\
  (forall x, In x U <-> exists i, 0 <= i < Z.of_nat n /\ In x (S i)) /\
  (forall i, ~ (0 <= i < Z.of_nat n) -> S i = []) /\
  (NoDup U -> forall i, NoDup (S i)).

Lemma partition_any xxh_sum s vis p n : (1 <= n)%nat -> src_ok xxh_sum s p ->
  partition_statement' xxh_sum s vis p n.
Proof.
  intros Hn Hok. unfold partition_statement'.
  set (U := series_set s vis p).
  set (f := fun rl : Z * labels => shard xxh_sum (snd rl) (Z.of_nat n)).
  assert (Hr : forall x, In x U -> 0 <= f x < Z.of_nat n) by (intros x _; apply shard_range; lia).
  split; [reflexivity|].
  split; [intros i; apply select_sharded; [lia|assumption]|].
  split; [apply (parts_permutation f n U Hr)|].
  split; [intros i j x; apply (parts_disjoint f U i j x)|].
  split; [intros x; apply (parts_union f (Z.of_nat n) U x Hr)|].
  split; [intros i; apply (part_out_of_range f (Z.of_nat n) U i Hr)|].
  intros Hnd i. apply (part_nodup f U i Hnd).
Qed.

Lemma partition_head xxh_sum ops vis p n : (1 <= n)%nat ->
  partition_statement' xxh_sum (SrcHead (run_head xxh_sum true ops)) vis p n.
Proof. intros Hn. apply partition_any; [assumption|apply reachable_head_ok]. Qed.

Lemma partition_block xxh_sum (b : block) vis p n : (1 <= n)%nat ->
  (forall r, In r p -> block_series b r <> None) ->
  partition_statement' xxh_sum (SrcBlock b) vis p n.
Proof. intros Hn Hp. apply partition_any; assumption. Qed.

Lemma depends_only_on_labels xxh_sum s1 s2 vis1 vis2 p1 p2 n i j r1 r2 ls l1 l2 :
  1 <= n -> src_ok xxh_sum s1 p1 -> src_ok xxh_sum s2 p2 ->
  select xxh_sum s1 vis1 p1 (mkHints i n) = SOk l1 ->
  select xxh_sum s2 vis2 p2 (mkHints j n) = SOk l2 ->
  In (r1, ls) l1 -> In (r2, ls) l2 ->
  i = shard xxh_sum ls n /\ j = shard xxh_sum ls n.
Proof.
  intros Hn H1 H2 E1 E2 I1 I2.
  rewrite select_sharded in E1, E2 by assumption.
  injection E1 as <-. injection E2 as <-.
  apply filter_In in I1, I2. destruct I1 as [_ I1], I2 as [_ I2].
  unfold shard_pred in *. cbn [snd] in *. apply Z.eqb_eq in I1, I2. now split.
Qed.

(* ------------------------------------------------------------------ stringlabels encoding *)
Lemma decode_size_encode n r : 0 <= n < 16777216 -> decode_size (encode_size n ++ r) = Some (n, r).
Proof.
  intros Hn. unfold encode_size. destruct (n <? 255) eqn:E.
  - apply Z.ltb_lt in E. cbn [app decode_size].
    replace (Z.to_N n <? 255)%N with true by (symmetry; apply N.ltb_lt; lia).
    now rewrite Z2N.id by lia.
  - apply Z.ltb_ge in E. cbn [app decode_size].
    replace (255 <? 255)%N with false by reflexivity.
    rewrite !Z2N.id by (try apply Z.mod_pos_bound; lia).
    f_equal. f_equal.
    pose proof (Z.div_mod n 256 ltac:(lia)).
    pose proof (Z.div_mod (n / 256) 256 ltac:(lia)).
    pose proof (Z.mod_pos_bound n 256 ltac:(lia)).
    pose proof (Z.mod_pos_bound (n / 256) 256 ltac:(lia)).
    assert (n / 65536 = n / 256 / 256) by (rewrite Z.div_div by lia; reflexivity).
    assert (0 <= n / 65536 < 256) by (split; [apply Z.div_pos; lia|apply Z.div_lt_upper_bound; lia]).
    rewrite (Z.mod_small (n / 65536) 256) by assumption. lia.
Qed.

Lemma decode_string_encode s r : len s < 16777216 -> decode_string (encode_string s ++ r) = Some (s, r).
Proof.
  intros Hs. unfold encode_string, decode_string. rewrite <- app_assoc.
  rewrite decode_size_encode by (pose proof (len_nonneg s); lia).
  replace (Z.of_nat (length (s ++ r)) <? len s) with false
    by (symmetry; apply Z.ltb_ge; unfold len; rewrite app_length; lia).
  unfold len. rewrite Nat2Z.id.
  rewrite firstn_app, Nat.sub_diag, firstn_all, firstn_O, app_nil_r.
  rewrite skipn_app, Nat.sub_diag, skipn_all. reflexivity.
Qed.

Definition sizes_ok (ls : labels) : Prop :=
  Forall (fun v => len (l_name v) < 16777216 /\ len (l_value v) < 16777216) ls.

Lemma encode_string_nonempty s : exists x t, encode_string s = x :: t.
Proof.
  unfold encode_string, encode_size. destruct (len s <? 255); cbn [app]; eauto.
Qed.

Lemma sl_decode_encode ls : forall fuel, sizes_ok ls -> (length ls <= fuel)%nat ->
  sl_decode fuel (sl_encode ls) = Some ls.
Proof.
  induction ls as [|v ls IH]; intros fuel Hok Hf.
  - destruct fuel; reflexivity.
  - inversion Hok as [|v' ls' [Hn Hv] Hok']; subst.
    cbn [sl_encode flat_map]. fold (sl_encode ls).
    destruct (encode_string_nonempty (l_name v)) as [x [t Ex]].
    destruct fuel as [|k]; [cbn in Hf; lia|].
    remember ((encode_string (l_name v) ++ encode_string (l_value v)) ++ sl_encode ls) as d eqn:Ed.
    assert (Hd : exists y d', d = y :: d') by (rewrite Ed, Ex; cbn [app]; eauto).
    destruct Hd as [y [d' Hd]]. rewrite Hd. cbn [sl_decode]. rewrite <- Hd, Ed.
    rewrite <- !app_assoc. rewrite decode_string_encode by assumption.
    rewrite decode_string_encode by assumption.
    rewrite IH by (try assumption; cbn in Hf; lia).
    destruct v; reflexivity.
Qed.

Lemma sl_encode_length ls : (length ls <= length (sl_encode ls))%nat.
Proof.
  induction ls as [|v ls IH]; [cbn; lia|].
  cbn [sl_encode flat_map]. fold (sl_encode ls). rewrite !app_length. cbn [length].
  destruct (encode_string_nonempty (l_name v)) as [x [t ->]]. cbn [length]. lia.
Qed.

(* the stringlabels StableHash, which walks the size-prefixed encoding, sees exactly the
   label sequence that was encoded *)
Lemma feed_string_data_encode ls : sizes_ok ls ->
  feed_string_data (sl_encode ls) = Some (feed_string [] None ls).
Proof.
  intros Hok. unfold feed_string_data.
  now rewrite sl_decode_encode by (try assumption; apply sl_encode_length).
Qed.

(* proof/TombFileProofs.v — proofs about model/TombFile.v (tombstone file codec, C20 third
   sentence).  (1) write_file/read_file round trip to the canonical form; (2) the canonical form
   is Intervals.Add folded per ref, total on well-formed input; (3) exactness on what a
   MemTombstones can hold; (4) the decode loop never runs out of fuel. *)
From Coq Require Import List NArith ZArith Bool Lia.
From Verif Require Import lib.Int64 lib.Bytes lib.Varint model.Intervals proof.IntervalsProofs model.TombFile.
Import ListNotations.
Open Scope N_scope.

(* ------------------------------------------------------------------ *)
(* 0. generic list helpers                                             *)

Lemma firstn_length_app {A} (l r : list A) : firstn (length l) (l ++ r) = l.
Proof. induction l as [|a l IH]; cbn [length firstn app]; [destruct r; reflexivity|]. rewrite IH. reflexivity. Qed.

Lemma skipn_length_app {A} (l r : list A) : skipn (length l) (l ++ r) = r.
Proof. induction l as [|a l IH]; cbn [length skipn app]; [reflexivity|exact IH]. Qed.

(* ------------------------------------------------------------------ *)
(* 1. round trip of the encoding                                       *)

Definition wf_triple (t : triple) : Prop :=
  u64_ok (fst (fst t)) /\ int64 (snd (fst t)) /\ int64 (snd t).

Lemma flatten_wf stones : wf_stones stones -> Forall wf_triple (flatten stones).
Proof.
  unfold wf_stones, flatten. induction 1 as [|s l Hs Hl IH]; cbn [flat_map]; [constructor|].
  apply Forall_app. split; [|exact IH].
  destruct Hs as [Hu Hiv]. apply Forall_forall. intros t Ht. apply in_map_iff in Ht.
  destruct Ht as (iv & <- & Hin). rewrite Forall_forall in Hiv. specialize (Hiv _ Hin).
  destruct Hiv as (H1 & H2 & _). unfold wf_triple. cbn [fst snd]. auto.
Qed.

Lemma enc_triple_nonempty t : enc_triple t <> [].
Proof.
  destruct t as [[r mi] ma]. unfold enc_triple. pose proof (put_uvarint_nonempty r) as H.
  destruct (put_uvarint r); [congruence|discriminate].
Qed.

Lemma enc_triples_length ts : (length ts <= length (flat_map enc_triple ts))%nat.
Proof.
  induction ts as [|t ts IH]; cbn [flat_map length]; [lia|]. rewrite app_length.
  pose proof (enc_triple_nonempty t) as H. destruct (enc_triple t); [congruence|]. cbn [length]. lia.
Qed.

(* one round of the decode loop on an encoded entry *)
Lemma decode_loop_step f r mi ma rest m : u64_ok r -> int64 mi -> int64 ma ->
  decode_loop (S f) (enc_triple (r, mi, ma) ++ rest) m =
  match add_interval m r (mkI mi ma) with ROk m' => decode_loop f rest m' | RErr e => RErr e end.
Proof.
  intros Hr Hmi Hma. unfold enc_triple. rewrite <- !app_assoc.
  pose proof (put_uvarint_nonempty r) as Hne.
  pose proof (d_uvarint64_put r (put_varint mi ++ put_varint ma ++ rest) Hr) as Hd.
  destruct (put_uvarint r ++ put_varint mi ++ put_varint ma ++ rest) as [|b bs] eqn:E.
  - destruct (put_uvarint r); [congruence|discriminate].
  - cbn [decode_loop]. rewrite Hd.
    rewrite d_varint64_put by exact Hmi. rewrite d_varint64_put by exact Hma. reflexivity.
Qed.

Lemma decode_loop_enc : forall ts fuel m, (length ts <= fuel)%nat -> Forall wf_triple ts ->
  decode_loop fuel (flat_map enc_triple ts) m = add_all m ts.
Proof.
  induction ts as [|[[r mi] ma] ts IH]; intros fuel m Hf Hwf.
  - destruct fuel; reflexivity.
  - inversion Hwf as [|? ? Ht Hts]; subst. destruct Ht as (Hu & Hmi & Hma). cbn [fst snd] in Hu, Hmi, Hma.
    destruct fuel as [|f]; [cbn [length] in Hf; lia|].
    cbn [flat_map add_all]. rewrite decode_loop_step by assumption.
    destruct (add_interval m r (mkI mi ma)) as [m'|e]; [|reflexivity].
    apply IH; [cbn [length] in Hf; lia|exact Hts].
Qed.

Section RoundTrip.
Variable crc : list N -> N.

Lemma read_write_triples ts : Forall wf_triple ts -> read_file crc (write_triples crc ts) = add_all [] ts.
Proof.
  intros Hwf. unfold write_triples, encode_triples. cbn [tl].
  set (body := flat_map enc_triple ts).
  assert (Hbt : be_take 4 0 (put_be32 (sum32 crc body)) = Some (sum32 crc body, [])).
  { unfold put_be32. rewrite <- (app_nil_r (be_enc 4 (sum32 crc body))). rewrite be_take_enc.
    f_equal. f_equal. change (256 ^ N.of_nat 4) with 4294967296.
    unfold sum32. rewrite N.mod_mod by discriminate. rewrite N.mul_0_l. apply N.add_0_l. }
  set (S4 := put_be32 (sum32 crc body)) in *.
  assert (HS4 : length S4 = 4%nat) by apply be_enc_length.
  assert (Hm : length (put_be32 magic) = 4%nat) by apply be_enc_length.
  rewrite app_assoc.
  assert (HP : (5 <= length (put_be32 magic ++ format_v1 :: body))%nat)
    by (rewrite app_length, Hm; cbn [length]; lia).
  set (P := put_be32 magic ++ format_v1 :: body) in *.
  unfold read_file. cbv zeta.
  assert (Hlen : length (P ++ S4) = (length P + 4)%nat) by (rewrite app_length, HS4; reflexivity).
  rewrite Hlen. replace (length P + 4 - 4)%nat with (length P) by lia.
  destruct (Nat.ltb_spec (length P + 4) 5) as [Hlt|_]; [lia|].
  rewrite firstn_length_app, skipn_length_app.
  unfold P. rewrite d_be32_put by (vm_compute; reflexivity).
  rewrite N.eqb_refl. cbn [negb]. rewrite Hbt. rewrite N.eqb_refl. cbn [negb].
  unfold decode. rewrite N.eqb_refl.
  apply decode_loop_enc; [apply enc_triples_length|exact Hwf].
Qed.
End RoundTrip.

Lemma tombstone_file_roundtrip : forall (crc : list N -> N) (stones : list stone),
  wf_stones stones -> read_file crc (write_file crc stones) = canon stones.
Proof.
  intros crc stones Hwf. unfold write_file, canon. apply read_write_triples. apply flatten_wf. exact Hwf.
Qed.

(* ------------------------------------------------------------------ *)
(* 2. the canonical form                                               *)

(* lower bound on the first ref of a map *)
Definition lb (x : N) (m : smap) : Prop :=
  match m with [] => True | (r, _) :: _ => x < r end.

(* invariant of a MemTombstones: sorted refs, groups non-empty and canonical *)
Definition ginv (m : smap) : Prop :=
  refs_incr m /\ Forall (fun s => snd s <> [] /\ canonical (snd s)) m.

Lemma refs_incr_inv r ivs t : refs_incr ((r, ivs) :: t) -> lb r t /\ refs_incr t.
Proof. intros H; exact H. Qed.

Lemma refs_incr_cons r ivs t : lb r t -> refs_incr t -> refs_incr ((r, ivs) :: t).
Proof. intros H1 H2; exact (conj H1 H2). Qed.

Lemma get_below : forall m x, refs_incr m -> lb x m -> forall y, y <= x -> get m y = [].
Proof.
  induction m as [|[r ivs] t IH]; intros x Hi Hl y Hy; [reflexivity|].
  apply refs_incr_inv in Hi. destruct Hi as [Hrt Hit]. unfold lb in Hl.
  cbn [get]. destruct (N.eqb_spec y r) as [->|Hne]; [lia|].
  apply (IH r Hit Hrt). lia.
Qed.

Lemma add_nil iv : Intervals.add [] iv = Intervals.Ok [iv].
Proof. reflexivity. Qed.

Lemma add_nonempty ivs iv g : canonical ivs -> wf_iv iv -> Intervals.add ivs iv = Intervals.Ok g ->
  g <> [] /\ canonical g.
Proof.
  intros Hc Hw Ha. destruct (add_canonical ivs iv g Hc Hw Ha) as [Hcg Hcov]. split; [|exact Hcg].
  intros ->. assert (H : covered [] (imin iv)).
  { apply Hcov. right. destruct Hw as (_ & _ & Hle). lia. }
  unfold covered in H. inversion H.
Qed.

Lemma add_interval_spec : forall m ref iv, ginv m -> wf_iv iv ->
  exists m', add_interval m ref iv = ROk m' /\
             Intervals.add (get m ref) iv = Intervals.Ok (get m' ref) /\
             (forall o, o <> ref -> get m' o = get m o) /\
             ginv m' /\
             (forall x, x < ref -> lb x m -> lb x m').
Proof.
  induction m as [|[r ivs] t IH]; intros ref iv [Hi Hf] Hw.
  - exists [(ref, [iv])]. cbn [add_interval get]. rewrite add_nil, N.eqb_refl.
    split; [reflexivity|]. split; [reflexivity|].
    split. { intros o Ho. destruct (N.eqb_spec o ref); [contradiction|reflexivity]. }
    split.
    { split; [cbn [refs_incr]; split; exact I|]. constructor; [|constructor]. cbn [snd].
      split; [discriminate|]. cbn [canonical]. auto. }
    intros x Hx _. exact Hx.
  - apply refs_incr_inv in Hi. destruct Hi as [Hrt Hit].
    inversion Hf as [|? ? [Hne Hc] Hft]; subst. cbn [snd] in Hne, Hc.
    cbn [add_interval].
    destruct (N.ltb_spec ref r) as [Hlt|Hge].
    + (* new group in front *)
      rewrite add_nil. exists ((ref, [iv]) :: (r, ivs) :: t).
      split; [reflexivity|].
      split.
      { rewrite (get_below ((r, ivs) :: t) ref);
          [| apply refs_incr_cons; assumption | exact Hlt | lia].
        cbn [get]. rewrite N.eqb_refl. apply add_nil. }
      split. { intros o Ho. cbn [get]. destruct (N.eqb_spec o ref); [contradiction|reflexivity]. }
      split.
      { split.
        - apply refs_incr_cons; [exact Hlt|]. apply refs_incr_cons; assumption.
        - constructor; [|exact Hf]. cbn [snd]. split; [discriminate|]. cbn [canonical]. auto. }
      intros x Hx _. exact Hx.
    + destruct (N.eqb_spec ref r) as [->|Hne'].
      * (* extend the group of r *)
        destruct (add_total ivs iv Hc Hw) as [g Hg]. rewrite Hg.
        destruct (add_nonempty ivs iv g Hc Hw Hg) as [Hgne Hgc].
        exists ((r, g) :: t). split; [reflexivity|].
        cbn [get]. rewrite N.eqb_refl. split; [exact Hg|].
        split. { intros o Ho. destruct (N.eqb_spec o r); [contradiction|reflexivity]. }
        split.
        { split; [apply refs_incr_cons; assumption|]. constructor; [|exact Hft].
          cbn [snd]. split; assumption. }
        intros x Hx Hl. exact Hl.
      * (* further down *)
        assert (Hrr : r < ref) by lia.
        destruct (IH ref iv (conj Hit Hft) Hw) as (t' & Ht' & Hadd & Hoth & [Hit' Hft'] & Hlb).
        rewrite Ht'. exists ((r, ivs) :: t'). split; [reflexivity|].
        cbn [get]. destruct (N.eqb_spec ref r) as [E|_]; [contradiction|].
        split; [exact Hadd|].
        split. { intros o Ho. destruct (N.eqb_spec o r); [reflexivity|apply Hoth; exact Ho]. }
        split.
        { split; [apply refs_incr_cons; [apply Hlb; assumption|exact Hit']|].
          constructor; [|exact Hft']. cbn [snd]. split; assumption. }
        intros x Hx Hl. exact Hl.
Qed.

Definition wf_t (t : triple) : Prop := wf_iv (mkI (snd (fst t)) (snd t)).

Lemma flatten_wf_t stones : wf_stones stones -> Forall wf_t (flatten stones).
Proof.
  unfold wf_stones, flatten. induction 1 as [|s l Hs Hl IH]; cbn [flat_map]; [constructor|].
  apply Forall_app. split; [|exact IH].
  destruct Hs as [Hu Hiv]. apply Forall_forall. intros t Ht. apply in_map_iff in Ht.
  destruct Ht as (iv & <- & Hin). rewrite Forall_forall in Hiv. specialize (Hiv _ Hin).
  unfold wf_t. cbn [fst snd]. destruct iv as [a b]. exact Hiv.
Qed.

Lemma ivs_of_cons r mi ma ts ref :
  ivs_of ref ((r, mi, ma) :: ts) = if r =? ref then mkI mi ma :: ivs_of ref ts else ivs_of ref ts.
Proof. unfold ivs_of. cbn [filter fst snd]. destruct (r =? ref); reflexivity. Qed.

Lemma ivs_of_wf ref ts : Forall wf_t ts -> Forall wf_iv (ivs_of ref ts).
Proof.
  induction 1 as [|[[r mi] ma] ts Ht Hts IH]; [constructor|].
  rewrite ivs_of_cons. destruct (r =? ref); [constructor; [exact Ht|exact IH]|exact IH].
Qed.

Lemma add_all_spec : forall ts m, ginv m -> Forall wf_t ts ->
  exists m', add_all m ts = ROk m' /\ ginv m' /\
             forall ref, fold_add (get m ref) (ivs_of ref ts) = Intervals.Ok (get m' ref).
Proof.
  induction ts as [|[[r mi] ma] ts IH]; intros m Hg Hwf.
  - exists m. split; [reflexivity|]. split; [exact Hg|]. intros ref. reflexivity.
  - inversion Hwf as [|? ? Ht Hts]; subst. unfold wf_t in Ht. cbn [fst snd] in Ht.
    destruct (add_interval_spec m r (mkI mi ma) Hg Ht) as (m1 & Hm1 & Hadd & Hoth & Hg1 & _).
    destruct (IH m1 Hg1 Hts) as (m' & Hm' & Hg' & Hfold).
    exists m'. cbn [add_all]. rewrite Hm1. split; [exact Hm'|]. split; [exact Hg'|].
    intros ref. rewrite ivs_of_cons. destruct (N.eqb_spec r ref) as [<-|Hne].
    + cbn [fold_add]. rewrite Hadd. apply Hfold.
    + rewrite <- (Hoth ref) by (intros E; apply Hne; symmetry; exact E). apply Hfold.
Qed.

Lemma canon_spec : forall stones, wf_stones stones ->
  exists m, canon stones = ROk m /\ refs_incr m /\ Forall (fun s => snd s <> []) m /\
    forall ref, exists r, fold_add [] (ivs_of ref (flatten stones)) = Intervals.Ok r /\ get m ref = r /\
                          canonical r /\
                          forall t, Intervals.covered r t <-> Exists (fun n => (imin n <= t <= imax n)%Z) (ivs_of ref (flatten stones)).
Proof.
  intros stones Hwf. pose proof (flatten_wf_t stones Hwf) as Hts.
  assert (Hg0 : ginv []) by (split; [exact I|constructor]).
  destruct (add_all_spec (flatten stones) [] Hg0 Hts) as (m & Hm & [Hinc Hgr] & Hfold).
  exists m. split; [exact Hm|]. split; [exact Hinc|]. split.
  { eapply Forall_impl; [|exact Hgr]. intros s [H _]. exact H. }
  intros ref. exists (get m ref). specialize (Hfold ref). cbn [get] in Hfold.
  split; [exact Hfold|]. split; [reflexivity|].
  destruct (adds_reachable (ivs_of ref (flatten stones)) (ivs_of_wf ref _ Hts)) as (r0 & Hr0 & Hc0 & Hcov0).
  rewrite Hfold in Hr0. injection Hr0 as <-. split; assumption.
Qed.

(* ------------------------------------------------------------------ *)
(* 3. exactness on canonical input                                     *)

Definition stones_canonical (stones : list stone) : Prop :=
  refs_incr stones /\ Forall (fun s => u64_ok (fst s) /\ snd s <> [] /\ canonical (snd s)) stones.

Lemma canonical_wf l : canonical l -> Forall wf_iv l.
Proof.
  induction l as [|a t IH]; intros H; [constructor|]. cbn [canonical] in H.
  destruct H as (Hw & _ & Ht). constructor; [exact Hw|apply IH; exact Ht].
Qed.

(* Add of an interval lying strictly after the last one (with a gap) appends it *)
Lemma add_append l n : canonical (l ++ [n]) -> l <> [] -> Intervals.add l n = Intervals.Ok (l ++ [n]).
Proof.
  intros Hc Hne. apply canonical_canonS in Hc. apply canonS_app in Hc. destruct Hc as (Hcl & Hcn & Hlt).
  assert (Hall : forall a, In a l -> (imax a + 1 < imin n)%Z).
  { intros a Ha. apply (Hlt a n Ha). left. reflexivity. }
  assert (Hwf : forall a, In a l -> wf_iv a) by (apply canonS_wf; exact Hcl).
  assert (Hs : search (length l) (fun i => (imax (at_ l i) >=? imin n - 1)%Z) = length l).
  { apply search_char; [lia| |intros x Hx; exfalso; lia].
    intros x Hx. assert (Hin : In (at_ l x) l) by (apply nth_In; exact Hx).
    specialize (Hall _ Hin). rewrite Z.geb_leb. apply Z.leb_gt. lia. }
  assert (Hmin : (imin n =? minInt64)%Z = false).
  { destruct l as [|a l']; [congruence|]. pose proof (Hall a (or_introl eq_refl)) as H1.
    pose proof (Hwf a (or_introl eq_refl)) as H2. unfold wf_iv, int64, minInt64, maxInt64 in H2.
    apply Z.eqb_neq. unfold minInt64. lia. }
  unfold Intervals.add, add_gen. cbv beta iota zeta.
  destruct (Nat.eqb_spec (length l) 0) as [E0|_].
  { destruct l; [congruence|discriminate E0]. }
  rewrite Hmin. cbv beta iota. rewrite Hs, Nat.eqb_refl. reflexivity.
Qed.

Lemma add_interval_new : forall m ref iv, Forall (fun s => fst s < ref) m ->
  add_interval m ref iv = ROk (m ++ [(ref, [iv])]).
Proof.
  induction m as [|[r ivs] t IH]; intros ref iv Hlt.
  - reflexivity.
  - inversion Hlt as [|? ? Hr Ht]; subst. cbn [fst] in Hr. cbn [app add_interval].
    destruct (N.ltb_spec ref r); [lia|]. destruct (N.eqb_spec ref r); [lia|].
    rewrite (IH ref iv Ht). reflexivity.
Qed.

Lemma add_interval_last : forall m ref g iv g', Forall (fun s => fst s < ref) m ->
  Intervals.add g iv = Intervals.Ok g' ->
  add_interval (m ++ [(ref, g)]) ref iv = ROk (m ++ [(ref, g')]).
Proof.
  induction m as [|[r ivs] t IH]; intros ref g iv g' Hlt Ha.
  - cbn [app add_interval]. rewrite N.ltb_irrefl, N.eqb_refl, Ha. reflexivity.
  - inversion Hlt as [|? ? Hr Ht]; subst. cbn [fst] in Hr. cbn [app add_interval].
    destruct (N.ltb_spec ref r); [lia|]. destruct (N.eqb_spec ref r); [lia|].
    rewrite (IH ref g iv g' Ht Ha). reflexivity.
Qed.

Lemma add_all_group_tail : forall post m ref pre, Forall (fun s => fst s < ref) m -> pre <> [] ->
  canonical (pre ++ post) ->
  add_all (m ++ [(ref, pre)]) (map (fun iv => (ref, imin iv, imax iv)) post) = ROk (m ++ [(ref, pre ++ post)]).
Proof.
  induction post as [|n post IH]; intros m ref pre Hlt Hne Hc.
  - cbn [map add_all]. rewrite app_nil_r. reflexivity.
  - cbn [map add_all].
    assert (Hn : mkI (imin n) (imax n) = n) by (destruct n; reflexivity). rewrite Hn.
    assert (Hc' : canonical ((pre ++ [n]) ++ post)) by (rewrite <- app_assoc; exact Hc).
    assert (Hc1 : canonical (pre ++ [n])).
    { apply canonical_canonS. apply canonical_canonS in Hc'. apply canonS_app in Hc'. tauto. }
    rewrite (add_interval_last m ref pre n (pre ++ [n]) Hlt (add_append pre n Hc1 Hne)).
    rewrite (IH m ref (pre ++ [n]) Hlt); [rewrite <- app_assoc; reflexivity| |exact Hc'].
    intros E. apply app_eq_nil in E. destruct E as [_ E]. discriminate E.
Qed.

Lemma add_all_group m ref ivs : Forall (fun s => fst s < ref) m -> ivs <> [] -> canonical ivs ->
  add_all m (map (fun iv => (ref, imin iv, imax iv)) ivs) = ROk (m ++ [(ref, ivs)]).
Proof.
  intros Hlt Hne Hc. destruct ivs as [|n post]; [congruence|].
  cbn [map add_all]. assert (Hn : mkI (imin n) (imax n) = n) by (destruct n; reflexivity). rewrite Hn.
  rewrite (add_interval_new m ref n Hlt).
  apply (add_all_group_tail post m ref [n] Hlt); [discriminate|exact Hc].
Qed.

Lemma add_all_app : forall a b m,
  add_all m (a ++ b) = match add_all m a with ROk m' => add_all m' b | RErr e => RErr e end.
Proof.
  induction a as [|[[r mi] ma] a IH]; intros b m; [reflexivity|]. cbn [app add_all].
  destruct (add_interval m r (mkI mi ma)); [apply IH|reflexivity].
Qed.

Lemma lb_trans x y m : x < y -> lb y m -> lb x m.
Proof. unfold lb. destruct m as [|[r ?] ?]; intros; [exact I|lia]. Qed.

Lemma add_all_exact : forall rest m, refs_incr rest ->
  (forall x, In x m -> lb (fst x) rest) ->
  Forall (fun s => snd s <> [] /\ canonical (snd s)) rest ->
  add_all m (flatten rest) = ROk (m ++ rest).
Proof.
  induction rest as [|[ref ivs] rest IH]; intros m Hi Hm Hf.
  - unfold flatten. cbn [flat_map add_all]. rewrite app_nil_r. reflexivity.
  - apply refs_incr_inv in Hi. destruct Hi as [Hl Hi].
    inversion Hf as [|? ? [Hne Hc] Hfr]; subst. cbn [snd] in Hne, Hc.
    assert (Hlt : Forall (fun s => fst s < ref) m).
    { apply Forall_forall. intros x Hx. pose proof (Hm x Hx) as H. unfold lb in H. exact H. }
    change (flatten ((ref, ivs) :: rest))
      with (map (fun iv => (ref, imin iv, imax iv)) ivs ++ flatten rest).
    rewrite add_all_app. rewrite (add_all_group m ref ivs Hlt Hne Hc). cbv beta iota.
    rewrite (IH (m ++ [(ref, ivs)]) Hi); [rewrite <- app_assoc; reflexivity| |exact Hfr].
    intros x Hx. apply in_app_or in Hx. destruct Hx as [Hx|[<-|[]]].
    + rewrite Forall_forall in Hlt. apply (lb_trans _ ref); [exact (Hlt x Hx)|exact Hl].
    + exact Hl.
Qed.

Lemma stones_canonical_wf stones : stones_canonical stones -> wf_stones stones.
Proof.
  intros [_ Hf]. unfold wf_stones. eapply Forall_impl; [|exact Hf].
  intros s (Hu & _ & Hc). split; [exact Hu|apply canonical_wf; exact Hc].
Qed.

Lemma tombstone_file_roundtrip_exact : forall crc stones,
  stones_canonical stones -> read_file crc (write_file crc stones) = ROk stones.
Proof.
  intros crc stones Hs. rewrite tombstone_file_roundtrip by (apply stones_canonical_wf; exact Hs).
  destruct Hs as [Hi Hf]. unfold canon.
  apply (add_all_exact stones [] Hi).
  - intros x [].
  - eapply Forall_impl; [|exact Hf]. intros s (_ & Hne & Hc). split; assumption.
Qed.

(* ------------------------------------------------------------------ *)
(* 4. the fuel of the decode loop is never exhausted                   *)

Lemma uv_dec_aux_shrinks : forall n s acc bs x r,
  uv_dec_aux n s acc bs = Some (x, r) -> (length r < length bs)%nat.
Proof.
  induction n as [|n IH]; intros s acc bs x r H; [discriminate H|].
  destruct bs as [|b bs']; [discriminate H|]. rewrite uv_dec_aux_cons in H.
  destruct (b <? 128).
  - destruct (Nat.eqb n 0 && (1 <? b)); [discriminate H|]. injection H as _ <-. cbn [length]. lia.
  - apply IH in H. cbn [length]. lia.
Qed.

Lemma d_uvarint64_shrinks bs x r : d_uvarint64 bs = Bytes.Ok (x, r) -> (length r < length bs)%nat.
Proof.
  unfold d_uvarint64, get_uvarint. destruct (uv_dec_aux 10 0 0 bs) as [[x' r']|] eqn:E; intros H; [|discriminate H].
  injection H as _ <-. eapply uv_dec_aux_shrinks. exact E.
Qed.

Lemma d_varint64_shrinks bs x r : d_varint64 bs = Bytes.Ok (x, r) -> (length r < length bs)%nat.
Proof.
  unfold d_varint64, dmap, dbind, dret. destruct (d_uvarint64 bs) as [[u r']|e] eqn:E; intros H; [|discriminate H].
  injection H as _ <-. eapply d_uvarint64_shrinks. exact E.
Qed.

Lemma add_interval_err : forall m k iv e, add_interval m k iv = RErr e -> e = RPanic.
Proof.
  induction m as [|[r ivs] t IH]; intros k iv e H; cbn [add_interval] in H.
  - destruct (Intervals.add [] iv); [discriminate H|]. injection H as <-. reflexivity.
  - destruct (k <? r).
    + destruct (Intervals.add [] iv); [discriminate H|]. injection H as <-. reflexivity.
    + destruct (k =? r).
      * destruct (Intervals.add ivs iv); [discriminate H|]. injection H as <-. reflexivity.
      * destruct (add_interval t k iv) as [t'|e'] eqn:E; [discriminate H|].
        injection H as <-. eapply IH. exact E.
Qed.

Lemma decode_loop_fuel_enough : forall fuel bs m, (length bs <= fuel)%nat -> decode_loop fuel bs m <> RErr RFuel.
Proof.
  induction fuel as [|f IH]; intros bs m Hl.
  - destruct bs; [cbn [decode_loop]; discriminate|cbn [length] in Hl; lia].
  - destruct bs as [|b bs']; [cbn [decode_loop]; discriminate|].
    cbn [decode_loop].
    destruct (d_uvarint64 (b :: bs')) as [[k r1]|e1] eqn:E1; [|discriminate].
    destruct (d_varint64 r1) as [[mi r2]|e2] eqn:E2; [|discriminate].
    destruct (d_varint64 r2) as [[ma r3]|e3] eqn:E3; [|discriminate].
    apply d_uvarint64_shrinks in E1. apply d_varint64_shrinks in E2. apply d_varint64_shrinks in E3.
    destruct (add_interval m k (mkI mi ma)) as [m'|e] eqn:Ea.
    + apply IH. cbn [length] in *. lia.
    + apply add_interval_err in Ea. subst e. discriminate.
Qed.

(* ------------------------------------------------------------------ *)
(* 5. non-vacuity: a concrete MemTombstones content (two refs, int64 extremes, negative times)
      meets the hypotheses; with the bitwise CRC-32C the file is 49 bytes and reads back *)
Definition ex_stones : list stone :=
  [ (3, [mkI minInt64 (-5); mkI (-3) 7; mkI 100 maxInt64]); (18446744073709551615, [mkI 0 0]) ].

Lemma ex_stones_ok (crc : list N -> N) :
  stones_canonical ex_stones /\ wf_stones ex_stones /\
  read_file crc (write_file crc ex_stones) = ROk ex_stones /\ length (write_file crc ex_stones) = 49%nat.
Proof.
  assert (Hc : stones_canonical ex_stones).
  { unfold stones_canonical, ex_stones. split; [cbn; lia|].
    repeat constructor; cbn; unfold u64_ok, two64N, wf_iv, int64, minInt64, maxInt64; try lia; try discriminate. }
  split; [exact Hc|]. split; [apply stones_canonical_wf; exact Hc|].
  split; [apply tombstone_file_roundtrip_exact; exact Hc|].
  unfold write_file, write_triples, put_be32. rewrite !app_length, !be_enc_length. vm_compute. reflexivity.
Qed.

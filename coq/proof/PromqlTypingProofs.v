(* proof/PromqlTypingProofs.v — proofs for model/PromqlTyping.v (C33). *)
From Coq Require Import List ZArith Bool String Lia.
From Verif Require Import model.PromqlTyping.
Import ListNotations.
Local Open Scope string_scope.

(* ------------------------------------------------------------------ function tables *)
Lemma ftab_wf_ok : ftab_wf ftab = true.
Proof. vm_compute. reflexivity. Qed.

Lemma flookup_forall : forall (t : ftab_t) f sg,
  ftab_wf t = true -> flookup f t = Some sg -> sig_wf f sg = true.
Proof.
  induction t as [|[g s] t IH]; intros f sg Hwf Hl; simpl in *; [discriminate|].
  apply andb_prop in Hwf. destruct Hwf as [H1 H2].
  destruct (String.eqb f g) eqn:E.
  - apply String.eqb_eq in E. subst. inversion Hl; subst. exact H1.
  - eauto.
Qed.

Lemma flookup_wf : forall f sg, flookup f ftab = Some sg -> sig_wf f sg = true.
Proof. intros. eapply flookup_forall; eauto using ftab_wf_ok. Qed.

Lemma ctx_fn_sig : forall f, ctx_fn f = true ->
  exists sg, flookup f ftab = Some sg /\ fs_ret sg = TScalar.
Proof.
  intros f H. unfold ctx_fn, in_names in H. simpl in H.
  repeat (apply orb_prop in H; destruct H as [H|H]; [apply String.eqb_eq in H; subst; vm_compute; eauto|]).
  discriminate.
Qed.

Lemma ts_fn_sig : forall f, ts_fn f = true ->
  exists sg, flookup f ftab = Some sg /\ fs_args sg = [TVector] /\ fs_var sg = 0%Z /\ fs_ret sg = TVector.
Proof.
  intros f H. unfold ts_fn, in_names in H. simpl in H.
  repeat (apply orb_prop in H; destruct H as [H|H]; [apply String.eqb_eq in H; subst; vm_compute; eauto 10|]).
  discriminate.
Qed.

Global Opaque ftab.

(* ------------------------------------------------------------------ induction principle *)
Section ExprInd.
  Variable P : expr -> Prop.
  Hypothesis HNum : P ENum.
  Hypothesis HStr : P EStr.
  Hypothesis HVec : forall id vs, P (EVec id vs).
  Hypothesis HMat : forall id vs, P (EMat id vs).
  Hypothesis HSub : forall id a e, P e -> P (ESub id a e).
  Hypothesis HParen : forall e, P e -> P (EParen e).
  Hypothesis HUn : forall id e, P e -> P (EUn id e).
  Hypothesis HBin : forall id op rb vm l r, P l -> P r -> P (EBin id op rb vm l r).
  Definition optP (p : option expr) : Prop := match p with Some q => P q | None => True end.
  Hypothesis HAgg : forall id op p e, optP p -> P e -> P (EAgg id op p e).
  Hypothesis HCall : forall id f args, Forall P args -> P (ECall id f args).
  Hypothesis HStepInv : forall e, P e -> P (EStepInv e).

  Fixpoint expr_ind' (e : expr) : P e :=
    match e with
    | ENum => HNum
    | EStr => HStr
    | EVec id vs => HVec id vs
    | EMat id vs => HMat id vs
    | ESub id a e1 => HSub id a e1 (expr_ind' e1)
    | EParen e1 => HParen e1 (expr_ind' e1)
    | EUn id e1 => HUn id e1 (expr_ind' e1)
    | EBin id op rb vm l r => HBin id op rb vm l r (expr_ind' l) (expr_ind' r)
    | EAgg id op p e1 =>
        HAgg id op p e1
          (match p as p0 return optP p0 with
           | Some q0 => expr_ind' q0
           | None => I
           end)
          (expr_ind' e1)
    | ECall id f args =>
        HCall id f args
          ((fix go (l : list expr) : Forall P l :=
              match l with
              | [] => Forall_nil P
              | a :: t => Forall_cons a (expr_ind' a) (go t)
              end) args)
    | EStepInv e1 => HStepInv e1 (expr_ind' e1)
    end.
End ExprInd.

(* ------------------------------------------------------------------ small facts *)
Lemma vtype_eqb_eq : forall a b, vtype_eqb a b = true <-> a = b.
Proof. destruct a, b; simpl; split; intros; try reflexivity; try discriminate. Qed.

Lemma vtype_eqb_refl : forall a, vtype_eqb a a = true.
Proof. destruct a; reflexivity. Qed.

Definition sound (n : nat) (t : vtype) (o : outcome) : Prop :=
  match o with Val v => has_type n v t = true | User => True | Internal _ => False end.

Fixpoint direct_mat (e : expr) : bool :=
  match e with EMat _ _ => true | EParen e1 => direct_mat e1 | _ => false end.

Lemma direct_mat_type : forall e, direct_mat e = true -> type_of e = TMatrix.
Proof. induction e; simpl; intros; try discriminate; auto. Qed.

(* the evaluator context in which a node is evaluated: an empty step range only for expressions
   that are not strings; a bare range selector only in a single-step evaluator *)
Definition ctx_ok (n : nat) (e : expr) : Prop :=
  (n = 0%nat -> type_of e <> TString) /\ (2 <= n -> direct_mat e = false)%nat.

Lemma collect_length : forall l r, collect l = Some r -> List.length r = List.length l.
Proof.
  induction l as [|[v|] l IH]; simpl; intros r H.
  - inversion H; reflexivity.
  - destruct (collect l) eqn:E; [|discriminate]. inversion H; subst. simpl. f_equal. auto.
  - discriminate.
Qed.

Lemma out_steps_sound : forall w id n, sound n TVector (out_steps w id n).
Proof.
  intros. unfold out_steps. destruct (collect _) eqn:E; simpl; auto.
  apply collect_length in E. rewrite map_length, seq_length in E. rewrite E. apply Nat.eqb_refl.
Qed.

Lemma forallb_repeat : forall A (f : A -> bool) x n, f x = true -> forallb f (repeat x n) = true.
Proof. induction n; simpl; intros; auto. rewrite H. auto. Qed.

Lemma scalar_steps_sound : forall n, sound n TScalar (scalar_steps n).
Proof.
  intros. simpl. rewrite repeat_length, Nat.eqb_refl. simpl. apply forallb_repeat. reflexivity.
Qed.

Lemma scalar_all_nonempty : forall n v, has_type n v TScalar = true -> all_nonempty n v = true.
Proof.
  intros n v H. destruct v; simpl in *; try discriminate.
  apply andb_prop in H. destruct H as [Hl Hk]. apply Nat.eqb_eq in Hl.
  apply forallb_forall. intros s Hs. apply in_seq in Hs.
  rewrite forallb_forall in Hk.
  assert (In (nth s l []) l) by (apply nth_In; lia).
  apply Hk in H. destruct (nth s l []) as [|[] [|]]; simpl in *; try discriminate; reflexivity.
Qed.

Lemma sound_sv_shape : forall n t o, is_sv t = true -> sound n t o ->
  o = User \/ exists l, o = Val (VSteps l).
Proof.
  intros n t o Ht H. destruct o as [v| |f]; simpl in H; auto; [|contradiction].
  right. destruct t; try discriminate; destruct v; simpl in H; try discriminate; eauto.
Qed.

Lemma sound_matrix_shape : forall n o, sound n TMatrix o ->
  o = User \/ (exists v, o = Val v /\ v <> VStr).
Proof.
  intros n o H. destruct o as [v| |f]; simpl in H; auto; [|contradiction].
  right. exists v. split; auto. destruct v; simpl in H; congruence.
Qed.

Lemma sound_scalar_ne : forall n o, sound n TScalar o -> o = User \/ ne_of n o = true.
Proof.
  intros n o H. destruct o as [v| |f]; simpl in *; auto; [|contradiction].
  right. apply scalar_all_nonempty; auto.
Qed.

Definition benign (o : outcome) : Prop := o = User \/ exists v, o = Val v.

Lemma first_bad_benign : forall l, (forall o, In o l -> benign o) ->
  first_bad l = None \/ first_bad l = Some User.
Proof.
  induction l as [|o l IH]; simpl; intros H; auto.
  destruct (H o (or_introl eq_refl)) as [->|[v ->]]; auto.
Qed.

Lemma first_bad_none : forall l, first_bad l = None -> forall o, In o l -> exists v, o = Val v.
Proof.
  induction l as [|o l IH]; simpl; intros H x Hx; [contradiction|].
  destruct o; try discriminate. destruct Hx as [<-|Hx]; eauto.
Qed.

Lemma has_type_zero : forall t, t <> TString -> t <> TNone -> has_type 0 (VSteps []) t = true.
Proof. destruct t; simpl; intros; congruence. Qed.

(* ------------------------------------------------------------------ named versions of the inner loops *)
Definition wtp_args (sg : fsig) :=
  fix go (l : list expr) (i : nat) : bool :=
    match l with
    | [] => true
    | a :: t =>
        wtp a &&
        match arg_type sg i with
        | Some ty => vtype_eqb (type_of a) ty && canon_arg ty a
        | None => false
        end && go t (S i)
    end.

Lemma wtp_call : forall id f args,
  wtp (ECall id f args) =
  match flookup f ftab with
  | None => false
  | Some sg =>
      arity_ok sg (List.length args) && (fs_impl sg || special_fn f) &&
      (if String.eqb f "info" then match nth_error args 1 with Some (EVec _ _) | None => true | _ => false end else true) &&
      wtp_args sg args 0
  end.
Proof. intros. simpl. destruct (flookup f ftab); reflexivity. Qed.

Lemma wtp_args_nth : forall sg l i, wtp_args sg l i = true ->
  forall j a, nth_error l j = Some a ->
  wtp a = true /\ exists ty, arg_type sg (i + j) = Some ty /\ type_of a = ty /\ canon_arg ty a = true.
Proof.
  induction l as [|x l IH]; intros i H j a Hn; [destruct j; discriminate|].
  simpl in H. apply andb_prop in H. destruct H as [H H3]. apply andb_prop in H. destruct H as [H1 H2].
  destruct j; simpl in Hn.
  - inversion Hn; subst. split; auto. rewrite Nat.add_0_r.
    destruct (arg_type sg i) as [ty|]; [|discriminate]. apply andb_prop in H2. destruct H2 as [Ha Hb].
    apply vtype_eqb_eq in Ha. eauto.
  - replace (i + S j)%nat with (S i + j)%nat by lia. eauto.
Qed.

Definition arg_res (w : world) (n : nat) (a : expr) : argres :=
  match a with
  | EMat id' _ => RMat (w_err w id')
  | ESub _ _ _ => RSub (eval w n a)
  | _ => if vtype_eqb (type_of a) TString then RStr (is_strlit a) else RVal (eval w n a)
  end.

Lemma eval_call : forall w n id f args,
  eval w (S n) (ECall id f args) =
  match flookup f ftab with
  | None => Internal FNilImpl
  | Some sg => call_eval w (S n) id f sg args (map (arg_res w (S n)) args)
  end.
Proof.
  intros. simpl. destruct (flookup f ftab); [|reflexivity]. f_equal.
  induction args as [|a t IH]; [reflexivity|]. rewrite IH. simpl. f_equal. destruct a; reflexivity.
Qed.

(* proof/PromqlTypingProofs.v — proofs for model/PromqlTyping.v (C33). *)
From Coq Require Import List ZArith Bool String Lia.
From Verif Require Import model.PromqlTyping.
Import ListNotations.
Local Open Scope string_scope.

(* ------------------------------------------------------------------ function tables *)
Lemma ftab_wf_ok : ftab_wf ftab = true.
Proof. vm_compute. reflexivity. Qed.

Lemma flookup_forall : forall (t : ftab_t) f sg,
  ftab_wf t = true -> flookup f t = Some sg -> sig_wf f sg = true.
Proof.
  induction t as [|[g s] t IH]; intros f sg Hwf Hl; simpl in *; [discriminate|].
  apply andb_prop in Hwf. destruct Hwf as [H1 H2].
  destruct (String.eqb f g) eqn:E.
  - apply String.eqb_eq in E. subst. inversion Hl; subst. exact H1.
  - eauto.
Qed.

Lemma flookup_wf : forall f sg, flookup f ftab = Some sg -> sig_wf f sg = true.
Proof. intros. eapply flookup_forall; eauto using ftab_wf_ok. Qed.

Lemma ctx_fn_sig : forall f, ctx_fn f = true ->
  exists sg, flookup f ftab = Some sg /\ fs_ret sg = TScalar.
Proof.
  intros f H. unfold ctx_fn, in_names in H. simpl in H.
  repeat (apply orb_prop in H; destruct H as [H|H]; [apply String.eqb_eq in H; subst; vm_compute; eauto|]).
  discriminate.
Qed.

Lemma ts_fn_sig : forall f, ts_fn f = true ->
  exists sg, flookup f ftab = Some sg /\ fs_args sg = [TVector] /\ fs_var sg = 0%Z /\ fs_ret sg = TVector.
Proof.
  intros f H. unfold ts_fn, in_names in H. simpl in H.
  repeat (apply orb_prop in H; destruct H as [H|H]; [apply String.eqb_eq in H; subst; vm_compute; eauto 10|]).
  discriminate.
Qed.

Global Opaque ftab.

(* ------------------------------------------------------------------ induction principle *)
Section ExprInd.
  Variable P : expr -> Prop.
  Hypothesis HNum : P ENum.
  Hypothesis HStr : P EStr.
  Hypothesis HVec : forall id vs, P (EVec id vs).
  Hypothesis HMat : forall id vs, P (EMat id vs).
  Hypothesis HSub : forall id a e, P e -> P (ESub id a e).
  Hypothesis HParen : forall e, P e -> P (EParen e).
  Hypothesis HUn : forall id e, P e -> P (EUn id e).
  Hypothesis HBin : forall id op rb vm l r, P l -> P r -> P (EBin id op rb vm l r).
  Definition optP (p : option expr) : Prop := match p with Some q => P q | None => True end.
  Hypothesis HAgg : forall id op p e, optP p -> P e -> P (EAgg id op p e).
  Hypothesis HCall : forall id f args, Forall P args -> P (ECall id f args).
  Hypothesis HStepInv : forall e, P e -> P (EStepInv e).

  Fixpoint expr_ind' (e : expr) : P e :=
    match e with
    | ENum => HNum
    | EStr => HStr
    | EVec id vs => HVec id vs
    | EMat id vs => HMat id vs
    | ESub id a e1 => HSub id a e1 (expr_ind' e1)
    | EParen e1 => HParen e1 (expr_ind' e1)
    | EUn id e1 => HUn id e1 (expr_ind' e1)
    | EBin id op rb vm l r => HBin id op rb vm l r (expr_ind' l) (expr_ind' r)
    | EAgg id op p e1 =>
        HAgg id op p e1
          (match p as p0 return optP p0 with
           | Some q0 => expr_ind' q0
           | None => I
           end)
          (expr_ind' e1)
    | ECall id f args =>
        HCall id f args
          ((fix go (l : list expr) : Forall P l :=
              match l with
              | [] => Forall_nil P
              | a :: t => Forall_cons a (expr_ind' a) (go t)
              end) args)
    | EStepInv e1 => HStepInv e1 (expr_ind' e1)
    end.
End ExprInd.

(* ------------------------------------------------------------------ small facts *)
Lemma vtype_eqb_eq : forall a b, vtype_eqb a b = true <-> a = b.
Proof. destruct a, b; simpl; split; intros; try reflexivity; try discriminate. Qed.

Lemma vtype_eqb_refl : forall a, vtype_eqb a a = true.
Proof. destruct a; reflexivity. Qed.

Definition sound (n : nat) (t : vtype) (o : outcome) : Prop :=
  match o with Val v => has_type n v t = true | User => True | Internal _ => False end.

Fixpoint direct_mat (e : expr) : bool :=
  match e with EMat _ _ => true | EParen e1 => direct_mat e1 | _ => false end.

Lemma direct_mat_type : forall e, direct_mat e = true -> type_of e = TMatrix.
Proof. induction e; simpl; intros; try discriminate; auto. Qed.

(* the evaluator context in which a node is evaluated: an empty step range only for expressions
   that are not strings; a bare range selector only in a single-step evaluator *)
Definition ctx_ok (n : nat) (e : expr) : Prop :=
  (n = 0%nat -> type_of e <> TString) /\ (2 <= n -> direct_mat e = false)%nat.

Lemma collect_length : forall l r, collect l = Some r -> List.length r = List.length l.
Proof.
  induction l as [|[v|] l IH]; simpl; intros r H.
  - inversion H; reflexivity.
  - destruct (collect l) eqn:E; [|discriminate]. inversion H; subst. simpl. f_equal. auto.
  - discriminate.
Qed.

Lemma out_steps_sound : forall w id n, sound n TVector (out_steps w id n).
Proof.
  intros. unfold out_steps. destruct (collect _) eqn:E; simpl; auto.
  apply collect_length in E. rewrite map_length, seq_length in E. rewrite E. apply Nat.eqb_refl.
Qed.

Lemma forallb_repeat : forall A (f : A -> bool) x n, f x = true -> forallb f (repeat x n) = true.
Proof. induction n; simpl; intros; auto. rewrite H. auto. Qed.

Lemma scalar_steps_sound : forall n, sound n TScalar (scalar_steps n).
Proof.
  intros. simpl. rewrite repeat_length, Nat.eqb_refl. simpl. apply forallb_repeat. reflexivity.
Qed.

Lemma scalar_all_nonempty : forall n v, has_type n v TScalar = true -> all_nonempty n v = true.
Proof.
  intros n v H. destruct v; simpl in *; try discriminate.
  apply andb_prop in H. destruct H as [Hl Hk]. apply Nat.eqb_eq in Hl.
  apply forallb_forall. intros s Hs. apply in_seq in Hs.
  rewrite forallb_forall in Hk.
  assert (In (nth s l []) l) by (apply nth_In; lia).
  apply Hk in H. destruct (nth s l []) as [|[] [|]]; simpl in *; try discriminate; reflexivity.
Qed.

Lemma sound_sv_shape : forall n t o, is_sv t = true -> sound n t o ->
  o = User \/ exists l, o = Val (VSteps l).
Proof.
  intros n t o Ht H. destruct o as [v| |f]; simpl in H; [|auto|contradiction].
  right. destruct t; try discriminate; destruct v; simpl in H; try discriminate; eauto.
Qed.

Lemma sound_matrix_shape : forall n o, sound n TMatrix o ->
  o = User \/ (exists v, o = Val v /\ v <> VStr).
Proof.
  intros n o H. destruct o as [v| |f]; simpl in H; [|auto|contradiction].
  right. exists v. split; auto. destruct v; simpl in H; congruence.
Qed.

Lemma sound_scalar_ne : forall n o, sound n TScalar o -> o = User \/ ne_of n o = true.
Proof.
  intros n o H. destruct o as [v| |f]; simpl in *; [|auto|contradiction].
  right. apply scalar_all_nonempty; auto.
Qed.

Definition benign (o : outcome) : Prop := o = User \/ exists v, o = Val v.

Lemma first_bad_benign : forall l, (forall o, In o l -> benign o) ->
  first_bad l = None \/ first_bad l = Some User.
Proof.
  induction l as [|o l IH]; simpl; intros H; auto.
  destruct (H o (or_introl eq_refl)) as [->|[v ->]]; auto.
Qed.

Lemma first_bad_none : forall l, first_bad l = None -> forall o, In o l -> exists v, o = Val v.
Proof.
  induction l as [|o l IH]; simpl; intros H x Hx; [contradiction|].
  destruct o; try discriminate. destruct Hx as [<-|Hx]; eauto.
Qed.

Lemma has_type_zero : forall t, t <> TString -> t <> TNone -> has_type 0 (VSteps []) t = true.
Proof. destruct t; simpl; intros; congruence. Qed.

(* ------------------------------------------------------------------ named versions of the inner loops *)
Definition wtp_args (sg : fsig) :=
  fix go (l : list expr) (i : nat) : bool :=
    match l with
    | [] => true
    | a :: t =>
        wtp a &&
        match arg_type sg i with
        | Some ty => vtype_eqb (type_of a) ty && canon_arg ty a
        | None => false
        end && go t (S i)
    end.

Lemma wtp_call : forall id f args,
  wtp (ECall id f args) =
  match flookup f ftab with
  | None => false
  | Some sg =>
      arity_ok sg (List.length args) && (fs_impl sg || special_fn f) &&
      (if String.eqb f "info" then match nth_error args 1 with Some (EVec _ _) | None => true | _ => false end else true) &&
      wtp_args sg args 0
  end.
Proof. intros. simpl. destruct (flookup f ftab); reflexivity. Qed.

Lemma wtp_args_nth : forall sg l i, wtp_args sg l i = true ->
  forall j a, nth_error l j = Some a ->
  wtp a = true /\ exists ty, arg_type sg (i + j) = Some ty /\ type_of a = ty /\ canon_arg ty a = true.
Proof.
  induction l as [|x l IH]; intros i H j a Hn; [destruct j; discriminate|].
  simpl in H. apply andb_prop in H. destruct H as [H H3]. apply andb_prop in H. destruct H as [H1 H2].
  destruct j; simpl in Hn.
  - inversion Hn; subst. split; auto. rewrite Nat.add_0_r.
    destruct (arg_type sg i) as [ty|]; [|discriminate]. apply andb_prop in H2. destruct H2 as [Ha Hb].
    apply vtype_eqb_eq in Ha. eauto.
  - replace (i + S j)%nat with (S i + j)%nat by lia. eauto.
Qed.

Definition arg_res (w : world) (n : nat) (a : expr) : argres :=
  match a with
  | EMat id' _ => RMat (w_err w id')
  | ESub _ _ _ => RSub (eval w n a)
  | _ => if vtype_eqb (type_of a) TString then RStr (is_strlit a) else RVal (eval w n a)
  end.

Lemma eval_call : forall w n id f args,
  eval w (S n) (ECall id f args) =
  match flookup f ftab with
  | None => Internal FNilImpl
  | Some sg => call_eval w (S n) id f sg args (map (arg_res w (S n)) args)
  end.
Proof.
  intros. simpl. destruct (flookup f ftab); [|reflexivity]. f_equal.
Qed.

(* ------------------------------------------------------------------ the Call case *)
Definition good_res (n : nat) (ty : vtype) (a : expr) (r : argres) : Prop :=
  match ty with
  | TString => a = EStr /\ r = RStr true
  | TMatrix => is_matrixish a = true /\
               ((exists err, r = RMat err) \/ (exists o, r = RSub o /\ sound n TMatrix o))
  | TScalar | TVector => is_matrixish a = false /\ exists o, r = RVal o /\ sound n ty o
  | TNone => False
  end.

Definition good_args (sg : fsig) (n : nat) (args : list expr) (rs : list argres) : Prop :=
  List.length rs = List.length args /\
  forall j a r, nth_error args j = Some a -> nth_error rs j = Some r ->
    exists ty, arg_type sg j = Some ty /\ good_res n ty a r.

Lemma nth_error_mapi : forall A B (f : nat -> A -> B) l i j,
  nth_error (mapi f i l) j = option_map (f (i + j)%nat) (nth_error l j).
Proof.
  induction l as [|x l IH]; intros i j; simpl.
  - destruct j; reflexivity.
  - destruct j; simpl.
    + rewrite Nat.add_0_r. reflexivity.
    + rewrite IH. replace (S i + j)%nat with (i + S j)%nat by lia. reflexivity.
Qed.

Lemma mapi_length : forall A B (f : nat -> A -> B) l i, List.length (mapi f i l) = List.length l.
Proof. induction l; simpl; intros; auto. Qed.

Lemma first_matrix_none : forall l i, first_matrix l i = None ->
  forall j a, nth_error l j = Some a -> is_matrixish a = false.
Proof.
  induction l as [|x l IH]; intros i H j a Hn; [destruct j; discriminate|].
  simpl in H. destruct (is_matrixish x) eqn:E; [discriminate|].
  destruct j; simpl in Hn; [inversion Hn; subst; auto|eauto].
Qed.

Lemma first_matrix_some : forall l i k, first_matrix l i = Some k ->
  exists j a, k = (i + j)%nat /\ nth_error l j = Some a /\ is_matrixish a = true.
Proof.
  induction l as [|x l IH]; intros i k H; [discriminate|].
  simpl in H. destruct (is_matrixish x) eqn:E.
  - inversion H; subst. exists 0%nat, x. rewrite Nat.add_0_r. auto.
  - apply IH in H. destruct H as (j & a & -> & Hn & Hm). exists (S j), a. split; [lia|auto].
Qed.

Lemma fp_args_ok : forall sg hm l i,
  (forall j a ne, nth_error l j = Some (a, ne) ->
     match arg_type sg (i + j) with
     | Some TScalar => ne = true
     | Some TString => is_strlit a = true
     | Some TMatrix => hm = true
     | _ => True
     end) ->
  fp_args sg hm i l = None.
Proof.
  induction l as [|[a ne] l IH]; intros i H; [reflexivity|].
  simpl. pose proof (H 0%nat a ne eq_refl) as H0. rewrite Nat.add_0_r in H0.
  assert (Ht : fp_args sg hm (S i) l = None).
  { apply IH. intros j a' ne' Hn. specialize (H (S j) a' ne' Hn).
    replace (S i + j)%nat with (i + S j)%nat by lia. exact H. }
  destruct (arg_type sg i) as [[]|]; auto; try (rewrite H0; auto); subst hm; auto.
Qed.

Lemma nth_error_combine : forall A B (l : list A) (l' : list B) j,
  nth_error (combine l l') j =
  match nth_error l j, nth_error l' j with Some a, Some b => Some (a, b) | _, _ => None end.
Proof.
  induction l as [|x l IH]; intros l' j; simpl.
  - destruct j; reflexivity.
  - destruct l' as [|y l']; simpl.
    + destruct j; simpl; [reflexivity|]. destruct (nth_error l j); reflexivity.
    + destruct j; simpl; [reflexivity|]. apply IH.
Qed.

Lemma count_matrix_unique : forall l i j,
  count_matrix l = 1%nat -> nth_error l i = Some TMatrix -> nth_error l j = Some TMatrix -> i = j.
Proof.
  unfold count_matrix.
  induction l as [|x l IH]; intros i j Hc Hi Hj; [destruct i; discriminate|].
  simpl in Hc. destruct (vtype_eqb x TMatrix) eqn:E.
  - simpl in Hc. assert (Hz : List.length (filter (fun t => vtype_eqb t TMatrix) l) = 0%nat) by lia.
    assert (Hno : forall k, nth_error l k <> Some TMatrix).
    { intros k Hk. apply nth_error_In in Hk.
      assert (In TMatrix (filter (fun t => vtype_eqb t TMatrix) l)) by (apply filter_In; auto).
      destruct (filter _ l); [contradiction|discriminate]. }
    destruct i, j; simpl in *; auto; exfalso; eapply Hno; eauto.
  - destruct i; simpl in Hi; [inversion Hi; subst; discriminate|].
    destruct j; simpl in Hj; [inversion Hj; subst; discriminate|].
    f_equal. eauto.
Qed.

Lemma count_matrix_pos : forall l i, nth_error l i = Some TMatrix -> (1 <= count_matrix l)%nat.
Proof.
  unfold count_matrix. intros l i H. apply nth_error_In in H.
  assert (In TMatrix (filter (fun t => vtype_eqb t TMatrix) l)) by (apply filter_In; auto).
  destruct (filter _ l); [contradiction|simpl; lia].
Qed.

Lemma arg_type_in : forall sg i ty, arg_type sg i = Some ty -> In ty (fs_args sg).
Proof.
  unfold arg_type. intros sg i ty H.
  destruct (i <? _)%nat; [eapply nth_error_In; eauto|].
  destruct (fs_var sg =? 0)%Z; [discriminate|eapply nth_error_In; eauto].
Qed.

Lemma arity_required : forall sg k, arity_ok sg k = true -> (required_args sg <= k)%nat.
Proof.
  unfold arity_ok, required_args. intros sg k H.
  destruct (fs_var sg =? 0)%Z.
  - apply Z.eqb_eq in H. lia.
  - apply andb_prop in H. destruct H as [H _]. apply Z.leb_le in H. lia.
Qed.

Lemma as_matrix_benign : forall n t o, t <> TString -> t <> TNone -> sound n t o ->
  as_matrix o = o /\ benign o.
Proof.
  intros n t o H1 H2 H. destruct o as [v| |f]; simpl in *; [|split; [auto|left; auto]|contradiction].
  destruct v; simpl; (split; [|right; eauto]); auto.
  destruct t; simpl in H; congruence.
Qed.

Lemma as_matrix_M : forall n o, sound n TMatrix o -> as_matrix o = o /\ benign o.
Proof. intros. eapply as_matrix_benign; eauto; discriminate. Qed.
Lemma as_matrix_S : forall n o, sound n TScalar o -> as_matrix o = o /\ benign o.
Proof. intros. eapply as_matrix_benign; eauto; discriminate. Qed.
Lemma as_matrix_V : forall n o, sound n TVector o -> as_matrix o = o /\ benign o.
Proof. intros. eapply as_matrix_benign; eauto; discriminate. Qed.

Lemma call_eval_sound : forall w n id f sg args rs,
  flookup f ftab = Some sg ->
  arity_ok sg (List.length args) = true ->
  (fs_impl sg || special_fn f) = true ->
  (if String.eqb f "info" then match nth_error args 1 with Some (EVec _ _) | None => true | _ => false end else true) = true ->
  good_args sg n args rs ->
  sound n (fs_ret sg) (call_eval w n id f sg args rs).
Proof.
  intros w n id f sg args rs Hl Har Himpl Hinfo [Hlen Hgood].
  pose proof (flookup_wf _ _ Hl) as Hwf. unfold sig_wf in Hwf.
  repeat (apply andb_prop in Hwf; let H := fresh "Hw" in destruct Hwf as [Hwf H]).
  rename Hwf into Hret.
  assert (Hres : sound n (fs_ret sg) (if vtype_eqb (fs_ret sg) TScalar then scalar_steps n else out_steps w id n)).
  { destruct (fs_ret sg); try discriminate; simpl vtype_eqb; cbv iota.
    - apply scalar_steps_sound. - apply out_steps_sound. }
  (* types of the declared parameters are never TNone *)
  assert (Hnn : forall j ty, arg_type sg j = Some ty -> ty <> TNone).
  { intros j ty Hj ->. apply arg_type_in in Hj.
    apply negb_true_iff in Hw. rewrite <- not_true_iff_false in Hw. apply Hw.
    apply existsb_exists. exists TNone. auto. }
  assert (Hgen : sound n (fs_ret sg)
    (let m := first_matrix args 0 in
     match (match m with
           | Some i => match nth_error rs i with Some (RSub o) => first_bad [as_matrix o] | _ => None end
           | None => None end) with
    | Some bad => bad
    | None =>
      if negb (fs_impl sg) && negb (special_fn f) then Internal FNilImpl
      else if w_err w id then User
      else
        match m with
        | None =>
            let os := map (fun r => match r with RStr _ => Val (VSteps []) | _ => as_matrix (res_outcome n r) end) rs in
            match first_bad os with
            | Some bad => bad
            | None =>
                match footprint f sg false (combine args (map (ne_of n) os)) with
                | Some ft => Internal ft
                | None => if vtype_eqb (fs_ret sg) TScalar then scalar_steps n else out_steps w id n
                end
            end
        | Some i =>
            let os := mapi (fun j r => if (j =? i)%nat then Val VRange else as_matrix (res_outcome n r)) 0 rs in
            match first_bad os with
            | Some bad => bad
            | None =>
                if match nth_error rs i with Some (RMat true) => true | _ => false end then User
                else if negb (forallb (fun b => b) (mapi (fun j o => (j =? i)%nat || ne_of n o) 0 os))
                then Internal FIndex
                else match footprint f sg true (combine args (map (fun _ => true) os)) with
                     | Some ft => Internal ft
                     | None => if vtype_eqb (fs_ret sg) TScalar then scalar_steps n else out_steps w id n
                     end
            end
        end
    end)).
  { cbv zeta.
    destruct (first_matrix args 0) as [i|] eqn:Hm.
    - (* a matrix argument at position i *)
      apply first_matrix_some in Hm. destruct Hm as (j0 & ai & Hi & Hai & Hmi). simpl in Hi. subst j0.
      assert (Hri : exists ri, nth_error rs i = Some ri).
      { destruct (nth_error rs i) eqn:E; eauto. apply nth_error_None in E.
        assert (i < List.length args)%nat by (apply nth_error_Some; congruence). lia. }
      destruct Hri as [ri Hri].
      destruct (Hgood _ _ _ Hai Hri) as (tyi & Htyi & Hgi).
      assert (tyi = TMatrix).
      { destruct tyi; simpl in Hgi; auto.
        - destruct Hgi as [Hx _]; congruence.
        - destruct Hgi as [Hx _]; congruence.
        - destruct Hgi as [-> _]; discriminate.
        - contradiction. }
      subst tyi. simpl in Hgi. destruct Hgi as [_ Hgi].
      (* the signature has exactly this one matrix parameter, the others are scalars *)
      assert (Hin : In TMatrix (fs_args sg)) by (eapply arg_type_in; eauto).
      destruct (In_nth_error _ _ Hin) as [k Hk].
      pose proof (count_matrix_pos _ _ Hk) as Hpos.
      destruct (count_matrix (fs_args sg)) as [|[|c]] eqn:Hc; [lia| |discriminate].
      apply andb_prop in Hw1. destruct Hw1 as [Hv0 Hall].
      assert (Hty : forall j ty, arg_type sg j = Some ty -> j <> i -> ty = TScalar).
      { intros j ty Hj Hne. unfold arg_type in Hj, Htyi. rewrite Hv0 in Hj, Htyi.
        destruct (j <? _)%nat; [|discriminate]. destruct (i <? _)%nat; [|discriminate].
        rewrite forallb_forall in Hall. pose proof (Hall _ (nth_error_In _ _ Hj)) as Ht.
        apply orb_prop in Ht. destruct Ht as [Ht|Ht]; apply vtype_eqb_eq in Ht; auto.
        subst ty. exfalso. apply Hne. eapply count_matrix_unique; eauto. }
      (* the first check: a subquery argument *)
      assert (Hfirst : match nth_error rs i with Some (RSub o) => first_bad [as_matrix o] | _ => None end = None \/
                       match nth_error rs i with Some (RSub o) => first_bad [as_matrix o] | _ => None end = Some User).
      { rewrite Hri. destruct Hgi as [[err ->]|[o [-> Ho]]]; auto.
        destruct (as_matrix_M _ _ Ho) as [-> Hb].
        apply first_bad_benign. intros x [<-|[]]. exact Hb. }
      destruct Hfirst as [->| ->]; [|exact I].
      assert (Hni : (negb (fs_impl sg) && negb (special_fn f)) = false).
      { destruct (fs_impl sg), (special_fn f); simpl in *; auto; discriminate. }
      rewrite Hni. destruct (w_err w id); [exact I|].
      set (os := mapi (fun j r => if (j =? i)%nat then Val VRange else as_matrix (res_outcome n r)) 0 rs).
      (* every other argument is a scalar: a value or a user error *)
      assert (Hos : forall j o, nth_error os j = Some o ->
                (j = i /\ o = Val VRange) \/
                (j <> i /\ benign o /\ (forall v, o = Val v -> ne_of n o = true))).
      { intros j o Hj. unfold os in Hj. rewrite nth_error_mapi in Hj. simpl in Hj.
        destruct (nth_error rs j) as [r|] eqn:Hr; [|discriminate]. simpl in Hj. inversion Hj; subst o; clear Hj.
        destruct (j =? i)%nat eqn:E; [apply Nat.eqb_eq in E; auto|]. apply Nat.eqb_neq in E. right. split; auto.
        assert (Ha : exists a, nth_error args j = Some a).
        { destruct (nth_error args j) eqn:E2; eauto. apply nth_error_None in E2.
          assert (j < List.length rs)%nat by (apply nth_error_Some; congruence). lia. }
        destruct Ha as [a Ha]. destruct (Hgood _ _ _ Ha Hr) as (ty & Hty1 & Hg).
        rewrite (Hty _ _ Hty1 E) in Hg. simpl in Hg. destruct Hg as [_ [o [-> Ho]]]. simpl res_outcome.
        destruct (as_matrix_S _ _ Ho) as [-> Hb].
        split; auto. intros v ->. destruct (sound_scalar_ne _ _ Ho); [discriminate|auto]. }
      destruct (first_bad_benign os) as [Hfb|Hfb].
      { intros o Ho. apply In_nth_error in Ho. destruct Ho as [j Hj].
        destruct (Hos _ _ Hj) as [[_ ->]|[_ [Hb _]]]; [right; eauto|auto]. }
      2:{ rewrite Hfb. exact I. }
      rewrite Hfb.
      destruct (match nth_error rs i with Some (RMat true) => true | _ => false end); [exact I|].
      assert (Hne : forallb (fun b => b) (mapi (fun j o => (j =? i)%nat || ne_of n o) 0 os) = true).
      { apply forallb_forall. intros x Hx. apply In_nth_error in Hx. destruct Hx as [j Hj].
        rewrite nth_error_mapi in Hj. simpl in Hj. destruct (nth_error os j) as [o|] eqn:Ho; [|discriminate].
        simpl in Hj. inversion Hj; subst x.
        destruct (Hos _ _ Ho) as [[-> _]|[Hji [_ Hv]]]; [rewrite Nat.eqb_refl; auto|].
        destruct (first_bad_none _ Hfb o (nth_error_In _ _ Ho)) as [v Hv']. rewrite (Hv _ Hv'). apply orb_true_r. }
      rewrite Hne. simpl negb. cbv iota.
      assert (Hfp : footprint f sg true (combine args (map (fun _ => true) os)) = None).
      { unfold footprint.
        assert (Hlc : List.length (combine args (map (fun _ : outcome => true) os)) = List.length args).
        { rewrite combine_length, map_length. unfold os. rewrite mapi_length. lia. }
        rewrite Hlc. pose proof (arity_required _ _ Har) as Hreq.
        replace (List.length args <? required_args sg)%nat with false by (symmetry; apply Nat.ltb_ge; lia).
        replace (String.eqb f "info" && _) with false.
        2:{ symmetry. destruct (String.eqb f "info") eqn:Ei; [try rewrite Ei in Hinfo|reflexivity]. cbn [andb].
            rewrite nth_error_combine. destruct (nth_error args 1) as [[]|]; try discriminate; auto.
            destruct (nth_error (map _ os) 1); reflexivity. }
        apply fp_args_ok. intros j a ne Hj. simpl.
        rewrite nth_error_combine in Hj. destruct (nth_error args j) as [a'|] eqn:Ha; [|discriminate].
        destruct (nth_error (map _ os) j) as [b|] eqn:Hb; [|discriminate]. inversion Hj; subst a' b. clear Hj.
        rewrite nth_error_map in Hb. destruct (nth_error os j) eqn:Ho; [|discriminate]. inversion Hb; subst ne.
        assert (Hr : exists r, nth_error rs j = Some r).
        { destruct (nth_error rs j) eqn:E2; eauto. apply nth_error_None in E2.
          assert (j < List.length args)%nat by (apply nth_error_Some; congruence). lia. }
        destruct Hr as [r Hr]. destruct (Hgood _ _ _ Ha Hr) as (ty & Hty1 & Hg). rewrite Hty1.
        destruct ty; auto. simpl in Hg. destruct Hg as [-> _]. reflexivity. }
      rewrite Hfp. exact Hres.
    - (* no matrix argument: rangeEval over all arguments *)
      assert (Hni : (negb (fs_impl sg) && negb (special_fn f)) = false).
      { destruct (fs_impl sg), (special_fn f); simpl in *; auto; discriminate. }
      rewrite Hni. destruct (w_err w id); [exact I|].
      set (g := fun r => match r with RStr _ => Val (VSteps []) | _ => as_matrix (res_outcome n r) end).
      set (os := map g rs).
      assert (Hos : forall j a r, nth_error args j = Some a -> nth_error rs j = Some r ->
                exists ty, arg_type sg j = Some ty /\ ty <> TMatrix /\ benign (g r) /\
                  (ty = TString -> a = EStr) /\
                  (ty = TScalar -> forall v, g r = Val v -> ne_of n (g r) = true)).
      { intros j a r Ha Hr. destruct (Hgood _ _ _ Ha Hr) as (ty & Hty1 & Hg). exists ty. split; auto.
        pose proof (first_matrix_none _ _ Hm _ _ Ha) as Hnm.
        destruct ty; simpl in Hg.
        - destruct Hg as [_ [o [-> Ho]]]. unfold g. simpl res_outcome.
          destruct (as_matrix_S _ _ Ho) as [-> Hb].
          repeat split; auto; try discriminate. intros _ v ->. destruct (sound_scalar_ne _ _ Ho); [discriminate|auto].
        - destruct Hg as [_ [o [-> Ho]]]. unfold g. simpl res_outcome.
          destruct (as_matrix_V _ _ Ho) as [-> Hb].
          repeat split; auto; discriminate.
        - destruct Hg as [Hx _]. congruence.
        - destruct Hg as [-> ->]. unfold g. repeat split; auto; try discriminate. right; eauto.
        - contradiction. }
      destruct (first_bad_benign os) as [Hfb|Hfb].
      { intros o Ho. unfold os in Ho. apply in_map_iff in Ho. destruct Ho as [r [<- Hr]].
        apply In_nth_error in Hr. destruct Hr as [j Hj].
        assert (Ha : exists a, nth_error args j = Some a).
        { destruct (nth_error args j) eqn:E2; eauto. apply nth_error_None in E2.
          assert (j < List.length rs)%nat by (apply nth_error_Some; congruence). lia. }
        destruct Ha as [a Ha]. destruct (Hos _ _ _ Ha Hj) as (ty & _ & _ & Hb & _). exact Hb. }
      2:{ rewrite Hfb. exact I. }
      rewrite Hfb.
      assert (Hfp : footprint f sg false (combine args (map (ne_of n) os)) = None).
      { unfold footprint.
        assert (Hlc : List.length (combine args (map (ne_of n) os)) = List.length args).
        { rewrite combine_length, map_length. unfold os. rewrite map_length. lia. }
        rewrite Hlc. pose proof (arity_required _ _ Har) as Hreq.
        replace (List.length args <? required_args sg)%nat with false by (symmetry; apply Nat.ltb_ge; lia).
        replace (String.eqb f "info" && _) with false.
        2:{ symmetry. destruct (String.eqb f "info") eqn:Ei; [try rewrite Ei in Hinfo|reflexivity]. cbn [andb].
            rewrite nth_error_combine. destruct (nth_error args 1) as [[]|]; try discriminate; auto.
            destruct (nth_error (map _ os) 1); reflexivity. }
        apply fp_args_ok. intros j a ne Hj. simpl.
        rewrite nth_error_combine in Hj. destruct (nth_error args j) as [a'|] eqn:Ha; [|discriminate].
        destruct (nth_error (map _ os) j) as [b|] eqn:Hb; [|discriminate]. inversion Hj; subst a' b. clear Hj.
        rewrite nth_error_map in Hb. destruct (nth_error os j) as [o|] eqn:Ho; [|discriminate]. inversion Hb; subst ne.
        unfold os in Ho. rewrite nth_error_map in Ho. destruct (nth_error rs j) as [r|] eqn:Hr; [|discriminate].
        inversion Ho; subst o.
        destruct (Hos _ _ _ Ha Hr) as (ty & Hty1 & Hnm & _ & Hstr & Hsc). rewrite Hty1.
        destruct ty; auto; try (exfalso; apply Hnm; reflexivity).
        + assert (Hin : In (g r) os) by (unfold os; apply in_map; eapply nth_error_In; eauto).
          destruct (first_bad_none _ Hfb _ Hin) as [v Hv]. eapply Hsc; eauto.
        + rewrite Hstr; auto. }
      rewrite Hfp. exact Hres. }
  unfold call_eval. fold (first_matrix args 0).
  destruct (ts_fn f) eqn:Hts; [|exact Hgen].
  destruct (ts_fn_sig _ Hts) as (sg' & Hl' & Ha' & Hv' & Hr'). rewrite Hl in Hl'. inversion Hl'; subst sg'.
  destruct args as [|a args]; [unfold arity_ok in Har; rewrite Ha', Hv' in Har; discriminate|].
  destruct a; try exact Hgen.
  rewrite Hr'. destruct (w_err w id0); [exact I|apply out_steps_sound].
Qed.

(* ------------------------------------------------------------------ soundness of the evaluator on well-typed preprocessed trees *)
Lemma wtp_type : forall e, wtp e = true -> type_of e <> TNone.
Proof.
  induction e using expr_ind'; intros Hw; simpl; try discriminate.
  - simpl in Hw. auto.
  - simpl in Hw. apply andb_prop in Hw. destruct Hw as [_ Hw]. destruct (type_of e); discriminate.
  - destruct (vtype_eqb (type_of e1) TScalar && vtype_eqb (type_of e2) TScalar); discriminate.
  - rewrite wtp_call in Hw. destruct (flookup f ftab) as [sg|] eqn:E; [|discriminate].
    pose proof (flookup_wf _ _ E) as Hwf. unfold sig_wf in Hwf.
    repeat (apply andb_prop in Hwf; destruct Hwf as [Hwf _]). destruct (fs_ret sg); discriminate.
  - simpl in Hw. apply andb_prop in Hw. destruct Hw as [_ Hw]. destruct (type_of e); discriminate.
Qed.

Lemma sound_zero : forall e, wtp e = true -> type_of e <> TString -> sound 0 (type_of e) (Val (VSteps [])).
Proof. intros. simpl. apply has_type_zero; auto using wtp_type. Qed.

Lemma ctx_ok_sv : forall n e, is_sv (type_of e) = true -> ctx_ok n e.
Proof.
  intros n e H. split.
  - intros _ Hs. rewrite Hs in H. discriminate.
  - intros _. destruct (direct_mat e) eqn:E; auto. apply direct_mat_type in E. rewrite E in H. discriminate.
Qed.

Lemma eval_zero : forall w e, eval w 0 e = Val (VSteps []).
Proof. destruct e; reflexivity. Qed.

Lemma arg_res_val : forall w n a, is_matrixish a = false -> type_of a <> TString ->
  arg_res w n a = RVal (eval w n a).
Proof.
  intros w n a Hm Ht.
  destruct a; try discriminate; unfold arg_res;
    (match goal with |- context[vtype_eqb ?t TString] => destruct (vtype_eqb t TString) eqn:E end;
     [apply vtype_eqb_eq in E; contradiction|reflexivity]).
Qed.

Lemma eval_sound : forall w e, wtp e = true -> forall n, ctx_ok n e -> sound n (type_of e) (eval w n e).
Proof.
  intros w. induction e using expr_ind'; intros Hw n Hctx;
    (destruct n as [|n]; [rewrite eval_zero; apply sound_zero; [exact Hw|apply Hctx; reflexivity]|]).
  - (* ENum *) apply scalar_steps_sound.
  - (* EStr *) reflexivity.
  - (* EVec *) simpl. destruct (w_err w id); [exact I|apply out_steps_sound].
  - (* EMat *) destruct Hctx as [_ Hc]. simpl.
    destruct n as [|n]; [|specialize (Hc ltac:(lia)); discriminate].
    simpl. destruct (w_err w id); reflexivity.
  - (* ESub *) simpl in *. apply andb_prop in Hw. destruct Hw as [Hw Ht]. apply vtype_eqb_eq in Ht.
    assert (Hs : sound (w_n w id) TVector (eval w (w_n w id) e)).
    { rewrite <- Ht. apply IHe; auto. apply ctx_ok_sv. rewrite Ht. reflexivity. }
    destruct (eval w (w_n w id) e) as [v| |ft]; simpl in *; auto. destruct v; try discriminate; reflexivity.
  - (* EParen *) simpl in *. apply IHe; auto.
  - (* EUn *) simpl in *. apply andb_prop in Hw. destruct Hw as [Hw Ht].
    assert (Hs : sound (S n) (type_of e) (eval w (S n) e)) by (apply IHe; auto; apply ctx_ok_sv; auto).
    destruct (sound_sv_shape _ _ _ Ht Hs) as [->|[l Hl]]; [exact I|].
    rewrite Hl in *. simpl. destruct (w_err w id); [exact I|exact Hs].
  - (* EBin *) simpl in Hw. repeat (apply andb_prop in Hw; let H := fresh "Ht" in destruct Hw as [Hw H]).
    assert (Hs1 : sound (S n) (type_of e1) (eval w (S n) e1)) by (apply IHe1; auto; apply ctx_ok_sv; auto).
    assert (Hs2 : sound (S n) (type_of e2) (eval w (S n) e2)) by (apply IHe2; auto; apply ctx_ok_sv; auto).
    change (eval w (S n) (EBin id op rb vm e1 e2))
      with (bin_eval w (S n) id (type_of e1) (type_of e2) (eval w (S n) e1) (eval w (S n) e2)).
    simpl type_of.
    destruct (sound_sv_shape _ _ _ Ht0 Hs1) as [E1|[l1 E1]]; destruct (sound_sv_shape _ _ _ Ht Hs2) as [E2|[l2 E2]];
      rewrite E1, E2 in *;
      destruct (type_of e1) eqn:T1; try discriminate; destruct (type_of e2) eqn:T2; try discriminate;
      unfold bin_eval; simpl first_bad; cbv iota; try exact I; simpl vtype_eqb; cbn [andb orb negb];
      try apply out_steps_sound.
    + pose proof (scalar_all_nonempty _ _ Hs1) as N1. pose proof (scalar_all_nonempty _ _ Hs2) as N2.
      unfold ne_of. rewrite N1, N2. simpl. apply scalar_steps_sound.
    + pose proof (scalar_all_nonempty _ _ Hs1) as N1. unfold ne_of. rewrite N1. simpl. apply out_steps_sound.
    + pose proof (scalar_all_nonempty _ _ Hs2) as N2. unfold ne_of. rewrite N2. simpl. apply out_steps_sound.
  - (* EAgg *) simpl in Hw. apply andb_prop in Hw. destruct Hw as [Hw Hp]. apply andb_prop in Hw. destruct Hw as [Hw Ht].
    apply vtype_eqb_eq in Ht.
    assert (Hs : sound (S n) (type_of e) (eval w (S n) e)) by (apply IHe; auto; apply ctx_ok_sv; rewrite Ht; reflexivity).
    rewrite Ht in Hs.
    destruct (as_matrix_V _ _ Hs) as [Ham Hb].
    assert (Hbody : sound (S n) TVector
              (match as_matrix (eval w (S n) e) with
               | Val _ => if w_err w id then User else out_steps w id (S n)
               | o => o end)).
    { rewrite Ham. destruct Hb as [->|[v ->]]; [exact I|]. destruct (w_err w id); [exact I|apply out_steps_sound]. }
    destruct op; simpl.
    + destruct p; [discriminate|]. exact Hbody.
    + destruct p as [q|]; [|discriminate]. apply andb_prop in Hp. destruct Hp as [Hq Htq].
      apply vtype_eqb_eq in Htq. unfold optP in H.
      assert (Hsq : sound (S n) (type_of q) (eval w (S n) q)) by (apply H; auto; apply ctx_ok_sv; rewrite Htq; reflexivity).
      destruct (eval w (S n) q) as [v| |ft]; simpl in *; [exact Hbody|exact I|contradiction].
    + destruct p as [[]|]; try discriminate.
      destruct (w_err w id); [exact I|]. rewrite Ham.
      destruct Hb as [->|[v ->]]; [exact I|apply out_steps_sound].
  - (* ECall *) rewrite eval_call. rewrite wtp_call in Hw. simpl type_of.
    destruct (flookup f ftab) as [sg|] eqn:El; [|discriminate].
    repeat (apply andb_prop in Hw; let Hx := fresh "Hc" in destruct Hw as [Hw Hx]).
    apply call_eval_sound; auto.
    split; [apply map_length|].
    intros j a r Ha Hr. rewrite nth_error_map, Ha in Hr. simpl in Hr. inversion Hr; subst r; clear Hr.
    destruct (wtp_args_nth _ _ _ Hc _ _ Ha) as (Hwa & ty & Hty & Hta & Hcan). simpl in Hty.
    exists ty. split; auto.
    rewrite Forall_forall in H. pose proof (H _ (nth_error_In _ _ Ha) Hwa) as IHa.
    destruct ty; simpl in *.
    + assert (is_matrixish a = false) by (destruct a; auto; discriminate).
      split; auto. exists (eval w (S n) a). split.
      * apply arg_res_val; auto. rewrite Hta. discriminate.
      * rewrite <- Hta. apply IHa. apply ctx_ok_sv. rewrite Hta. reflexivity.
    + assert (is_matrixish a = false) by (destruct a; auto; discriminate).
      split; auto. exists (eval w (S n) a). split.
      * apply arg_res_val; auto. rewrite Hta. discriminate.
      * rewrite <- Hta. apply IHa. apply ctx_ok_sv. rewrite Hta. reflexivity.
    + split; auto. destruct a; simpl in Hcan; try discriminate.
      * left. eexists. reflexivity.
      * right. eexists. split; [reflexivity|]. rewrite <- Hta. apply IHa. split; [discriminate|reflexivity].
    + destruct a; simpl in Hcan; try discriminate. auto.
    + exfalso. eapply wtp_type; eauto.
  - (* EStepInv *) simpl in Hw. apply andb_prop in Hw. destruct Hw as [Hw Ht].
    assert (Hs : sound 1 (type_of e) (eval w 1 e)) by (apply IHe; auto; apply ctx_ok_sv; auto).
    assert (Hm : is_matrixish e = false) by (destruct e; simpl in *; auto; discriminate).
    simpl eval. simpl type_of. change (eval w 1 e) with (eval w 1 e).
    destruct (sound_sv_shape _ _ _ Ht Hs) as [E|[l E]].
    + replace (match e with ENum => _ | _ => _ end) with (eval w 1 e) by (destruct e; reflexivity).
      rewrite E. exact I.
    + replace (match e with ENum => _ | _ => _ end) with (eval w 1 e) by (destruct e; reflexivity).
      rewrite E in *. rewrite Hm. simpl.
      destruct (type_of e); try discriminate; simpl in *.
      * apply andb_prop in Hs. destruct Hs as [Hl Hk]. apply Nat.eqb_eq in Hl.
        rewrite repeat_length, Nat.eqb_refl. simpl.
        apply (forallb_repeat _ is_kf _ (S n)).
        destruct l as [|x [|]]; simpl in *; try discriminate. apply andb_prop in Hk. apply Hk.
      * rewrite repeat_length. rewrite Nat.eqb_refl. reflexivity.
Qed.

(* ------------------------------------------------------------------ checkAST + PreprocessExpr establish wtp *)
Definition check_args (f : string) (sg : fsig) :=
  fix go (l : list expr) (i : nat) : bool :=
    match l with
    | [] => true
    | a :: t => (if is_info_sel f i a then true else check a) && arg_type_ok sg i a && go t (S i)
    end.

Lemma check_call : forall id f args,
  check (ECall id f args) =
  match flookup f ftab with
  | None => false
  | Some sg => arity_ok sg (List.length args) && info_ok f args && check_args f sg args 0
  end.
Proof. intros. simpl. destruct (flookup f ftab); reflexivity. Qed.

Lemma check_args_nth : forall f sg l i, check_args f sg l i = true ->
  forall j a, nth_error l j = Some a ->
  (is_info_sel f (i + j) a = true \/ check a = true) /\ arg_type_ok sg (i + j) a = true.
Proof.
  induction l as [|x l IH]; intros i H j a Hn; [destruct j; discriminate|].
  simpl in H. apply andb_prop in H. destruct H as [H H3]. apply andb_prop in H. destruct H as [H1 H2].
  destruct j; simpl in Hn.
  - inversion Hn; subst. rewrite Nat.add_0_r. split; auto.
    destruct (is_info_sel f i a); auto.
  - replace (i + S j)%nat with (S i + j)%nat by lia. eauto.
Qed.

Lemma wtp_args_intro : forall sg l i,
  (forall j a, nth_error l j = Some a ->
     wtp a = true /\ exists ty, arg_type sg (i + j) = Some ty /\ type_of a = ty /\ canon_arg ty a = true) ->
  wtp_args sg l i = true.
Proof.
  induction l as [|x l IH]; intros i H; [reflexivity|].
  simpl. destruct (H 0%nat x eq_refl) as (Hw & ty & Hty & Ht & Hc). rewrite Nat.add_0_r in Hty.
  rewrite Hw, Hty, <- Ht, vtype_eqb_refl, Ht, Hc. simpl.
  apply IH. intros j a Hn. specialize (H (S j) a Hn). replace (S i + j)%nat with (i + S j)%nat by lia. exact H.
Qed.

Lemma arity_arg_type : forall f sg k j, sig_wf f sg = true -> arity_ok sg k = true -> (j < k)%nat ->
  exists ty, arg_type sg j = Some ty.
Proof.
  intros f sg k j Hwf Har Hj. unfold sig_wf in Hwf.
  repeat (apply andb_prop in Hwf; let H := fresh "Hw" in destruct Hwf as [Hwf H]).
  unfold arity_ok in Har. unfold arg_type.
  destruct (j <? List.length (fs_args sg))%nat eqn:E.
  - apply Nat.ltb_lt in E. destruct (nth_error (fs_args sg) j) eqn:E2; eauto.
    apply nth_error_None in E2. lia.
  - apply Nat.ltb_ge in E. destruct (fs_var sg =? 0)%Z.
    + apply Z.eqb_eq in Har. lia.
    + apply negb_true_iff, Nat.eqb_neq in Hw2.
      destruct (nth_error (fs_args sg) (List.length (fs_args sg) - 1)) eqn:E2; eauto.
      apply nth_error_None in E2. lia.
Qed.

Lemma canon_sv : forall t a, is_sv t = true -> canon_arg t a = true.
Proof. destruct t; simpl; intros; auto; discriminate. Qed.

Lemma info_plain_call : forall id f args,
  info_plain (ECall id f args) =
  (if String.eqb f "info" then match nth_error args 1 with Some (EVec _ vs) => negb (vs_at vs) | _ => true end else true) &&
  forallb info_plain args.
Proof. reflexivity. Qed.

Definition pre_good (e : expr) (strip : bool) : Prop :=
  let r := pre strip e in
  wtp (fst r) = true /\ type_of (fst r) = type_of e /\
  (snd (snd r) = true -> is_sv (type_of e) = true) /\
  (strip = true -> canon_arg (type_of e) (fst r) = true).

Lemma wrap_good : forall e strip, pre_good e strip ->
  let r := pre strip e in
  wtp (wrap_if (snd (snd r)) (fst r)) = true /\ type_of (wrap_if (snd (snd r)) (fst r)) = type_of e /\
  (strip = true -> canon_arg (type_of e) (wrap_if (snd (snd r)) (fst r)) = true).
Proof.
  intros e strip (Hw & Ht & Hs & Hc). cbv zeta.
  destruct (snd (snd (pre strip e))) eqn:E; simpl.
  - rewrite Hw, Ht, (Hs eq_refl). repeat split; auto. intros _. apply canon_sv. auto.
  - auto.
Qed.

Lemma pre_ok : forall e, check e = true -> info_plain e = true -> forall strip, pre_good e strip.
Proof.
  induction e using expr_ind'; intros Hc Hi strip; unfold pre_good; cbv zeta.
  - simpl. auto.
  - simpl. auto.
  - simpl. repeat split; auto.
  - simpl. repeat split; auto; discriminate.
  - (* ESub *) simpl in Hc, Hi. apply andb_prop in Hc. destruct Hc as [Hc Ht].
    destruct (wrap_good e false (IHe Hc Hi false)) as (Hw & Hty & _). cbv zeta in Hw, Hty.
    destruct (IHe Hc Hi false) as (Hw' & Hty' & _ & _).
    simpl. repeat split; auto; try discriminate.
    destruct (fst (snd (pre false e))); simpl; rewrite Hw', Hty'; rewrite Ht; auto.
    apply vtype_eqb_eq in Ht. rewrite Ht. reflexivity.
  - (* EParen *) simpl in Hc, Hi. destruct strip; simpl.
    + apply (IHe Hc Hi true).
    + destruct (IHe Hc Hi false) as (Hw & Ht & Hs & _). simpl. repeat split; auto. discriminate.
  - (* EUn *) simpl in Hc, Hi. apply andb_prop in Hc. destruct Hc as [Hc Ht].
    destruct (IHe Hc Hi false) as (Hw & Hty & Hs & _). simpl. rewrite Hw, Hty, Ht. repeat split; auto.
    intros _. apply canon_sv; auto.
  - (* EBin *) simpl in Hc, Hi. apply andb_prop in Hi. destruct Hi as [Hi1 Hi2].
    apply andb_prop in Hc. destruct Hc as [Hc Hb]. apply andb_prop in Hc. destruct Hc as [Hc1 Hc2].
    assert (Hsv : is_sv (type_of e1) = true /\ is_sv (type_of e2) = true).
    { unfold check_bin in Hb. repeat (apply andb_prop in Hb; let H := fresh "Hb" in destruct Hb as [Hb H]). auto. }
    destruct Hsv as [Hsv1 Hsv2].
    destruct (IHe1 Hc1 Hi1 false) as (Hw1 & Ht1 & _ & _). destruct (IHe2 Hc2 Hi2 false) as (Hw2 & Ht2 & _ & _).
    destruct (wrap_good e1 false (IHe1 Hc1 Hi1 false)) as (Hww1 & Htw1 & _).
    destruct (wrap_good e2 false (IHe2 Hc2 Hi2 false)) as (Hww2 & Htw2 & _). cbv zeta in *.
    assert (Hres : is_sv (type_of (EBin id op rb vm e1 e2)) = true).
    { simpl. destruct (vtype_eqb (type_of e1) TScalar && vtype_eqb (type_of e2) TScalar); reflexivity. }
    simpl pre.
    destruct (fst (snd (pre false e1)) && fst (snd (pre false e2))); simpl fst; simpl snd.
    + simpl wtp. simpl type_of. rewrite Hw1, Hw2, Ht1, Ht2, Hsv1, Hsv2. repeat split; auto.
      intros _. apply canon_sv. exact Hres.
    + simpl wtp. simpl type_of. rewrite Hww1, Hww2, Htw1, Htw2, Hsv1, Hsv2. repeat split; auto; try discriminate.
      intros _. apply canon_sv. exact Hres.
  - (* EAgg *) simpl in Hc, Hi. apply andb_prop in Hi. destruct Hi as [Hip Hie].
    apply andb_prop in Hc. destruct Hc as [Hc Hp]. apply andb_prop in Hc. destruct Hc as [Hce Hte].
    destruct (IHe Hce Hie true) as (Hw & Ht & _ & _).
    destruct (wrap_good e true (IHe Hce Hie true)) as (Hww & Htw & _). cbv zeta in *.
    simpl pre. destruct p as [q|].
    + unfold optP in H.
      assert (Hq : check q = true /\ (type_of q = TScalar /\ op = AParam \/ type_of q = TString /\ op = ACountValues)).
      { destruct op; try discriminate; apply andb_prop in Hp; destruct Hp as [Hq Htq]; apply vtype_eqb_eq in Htq; auto. }
      destruct Hq as [Hcq Hq].
      destruct (H Hcq Hip true) as (Hwq & Htq & Hsq & Hcanq). specialize (Hcanq eq_refl).
      destruct (wrap_good q true (H Hcq Hip true)) as (Hwwq & Htwq & Hcwq). cbv zeta in *. specialize (Hcwq eq_refl).
      destruct (fst (snd (pre true e)) && fst (snd (pre true q))); simpl fst; simpl snd.
      * simpl wtp. rewrite Hw, Ht, Hte. simpl type_of. repeat split; auto.
        destruct Hq as [[Hq1 ->]|[Hq1 ->]]; simpl.
        -- rewrite Hwq, Htq, Hq1. reflexivity.
        -- rewrite Hq1 in Hcanq. simpl in Hcanq. destruct (fst (pre true q)); try discriminate. reflexivity.
      * simpl wtp. rewrite Hww, Htw, Hte. simpl type_of. repeat split; auto; try discriminate.
        destruct Hq as [[Hq1 ->]|[Hq1 ->]]; simpl.
        -- rewrite Hwwq, Htwq, Hq1. reflexivity.
        -- rewrite Hq1 in Hcwq. simpl in Hcwq.
           destruct (wrap_if (snd (snd (pre true q))) (fst (pre true q))); try discriminate. reflexivity.
    + simpl fst; simpl snd. simpl wtp. rewrite Hw, Ht, Hte. simpl type_of.
      destruct op; try discriminate. repeat split; auto.
  - (* ECall *) rewrite check_call in Hc. destruct (flookup f ftab) as [sg|] eqn:El; [|discriminate].
    apply andb_prop in Hc. destruct Hc as [Hc Hca]. apply andb_prop in Hc. destruct Hc as [Har Hinfo].
    pose proof (flookup_wf _ _ El) as Hwf.
    assert (Hret : is_sv (fs_ret sg) = true).
    { unfold sig_wf in Hwf. repeat (apply andb_prop in Hwf; destruct Hwf as [Hwf _]). exact Hwf. }
    simpl pre. destruct (ctx_fn f) eqn:Ectx.
    { destruct (ctx_fn_sig _ Ectx) as (sg' & El' & Hr'). rewrite El in El'. inversion El'; subst sg'.
      simpl. rewrite El, Hr'. auto. }
    rewrite info_plain_call in Hi. apply andb_prop in Hi. destruct Hi as [Hii Hia].
    rewrite forallb_forall in Hia. rewrite Forall_forall in H.
    (* facts about every preprocessed argument *)
    assert (Hargs : forall j a, nth_error args j = Some a ->
              let r := pre true a in
              exists ty, arg_type sg j = Some ty /\ type_of a = ty /\
                wtp (fst r) = true /\ type_of (fst r) = ty /\ canon_arg ty (fst r) = true /\
                wtp (wrap_if (snd (snd r)) (fst r)) = true /\ type_of (wrap_if (snd (snd r)) (fst r)) = ty /\
                canon_arg ty (wrap_if (snd (snd r)) (fst r)) = true /\
                (is_info_sel f j a = true -> wrap_if (snd (snd r)) (fst r) = a)).
    { intros j a Ha. cbv zeta.
      destruct (check_args_nth _ _ _ _ Hca _ _ Ha) as [Hck Hto]. simpl in Hck, Hto.
      assert (Hjl : (j < List.length args)%nat) by (apply nth_error_Some; congruence).
      destruct (arity_arg_type _ _ _ _ Hwf Har Hjl) as [ty Hty].
      unfold arg_type_ok in Hto. rewrite Hty in Hto. apply vtype_eqb_eq in Hto.
      exists ty. split; auto. split; auto.
      destruct Hck as [Hsel|Hck].
      - (* the label-selector argument of info(): exempt from the check, never carries @ *)
        unfold is_info_sel in Hsel. apply andb_prop in Hsel. destruct Hsel as [Hsel Hv].
        apply andb_prop in Hsel. destruct Hsel as [Hf Hj1]. apply Nat.eqb_eq in Hj1. subst j.
        destruct a; try discriminate. rewrite Hf, Ha in Hii. simpl in Hto. subst ty.
        apply negb_true_iff in Hii. simpl. rewrite Hii. simpl. repeat split; auto.
      - pose proof (H _ (nth_error_In _ _ Ha) Hck (Hia _ (nth_error_In _ _ Ha)) true) as Hg.
        destruct Hg as (Hw & Ht & Hs & Hcan). specialize (Hcan eq_refl).
        destruct (wrap_good a true (H _ (nth_error_In _ _ Ha) Hck (Hia _ (nth_error_In _ _ Ha)) true)) as (Hww & Htw & Hcw).
        cbv zeta in *. specialize (Hcw eq_refl). rewrite Hto in *. repeat split; auto.
        intros Hsel. unfold is_info_sel in Hsel. apply andb_prop in Hsel. destruct Hsel as [Hsel Hv].
        apply andb_prop in Hsel. destruct Hsel as [Hf Hj1]. apply Nat.eqb_eq in Hj1. subst j.
        destruct a; try discriminate. rewrite Hf, Ha in Hii. apply negb_true_iff in Hii. simpl. rewrite Hii. reflexivity. }
    assert (Himpl : (fs_impl sg || special_fn f) = true).
    { unfold sig_wf in Hwf. repeat (apply andb_prop in Hwf; let Hx := fresh "Hw" in destruct Hwf as [Hwf Hx]).
      rewrite Ectx in Hw0. rewrite orb_false_r in Hw0. exact Hw0. }
    (* both shapes of the rewritten argument list are well typed *)
    assert (Hboth : forall h : expr * (bool * bool) -> expr,
              (forall a, h (pre true a) = fst (pre true a) \/ h (pre true a) = wrap_if (snd (snd (pre true a))) (fst (pre true a))) ->
              (forall a, nth_error args 1 = Some a -> is_info_sel f 1 a = true -> is_vec (h (pre true a)) = true) ->
              wtp (ECall id f (map h (map (pre true) args))) = true).
    { intros h Hh Hsel. rewrite wtp_call, El. rewrite !map_length, Har, Himpl. rewrite !andb_true_l.
      replace (if String.eqb f "info" then _ else true) with true.
      2:{ symmetry. destruct (String.eqb f "info") eqn:Ef; [|reflexivity].
          rewrite !nth_error_map. destruct (nth_error args 1) as [a1|] eqn:E1; [|reflexivity]. simpl.
          unfold info_ok in Hinfo. rewrite Ef in Hinfo.
          assert (Hl1 : (1 <? List.length args)%nat = true).
          { apply Nat.ltb_lt. apply nth_error_Some. congruence. }
          rewrite Hl1, E1 in Hinfo. simpl in Hinfo.
          assert (Hs1 : is_info_sel f 1 a1 = true).
          { unfold is_info_sel. rewrite Ef. simpl. destruct a1; try discriminate. exact Hinfo. }
          specialize (Hsel _ eq_refl Hs1). destruct (h (pre true a1)); try discriminate. reflexivity. }
      apply wtp_args_intro. intros j a' Hn. simpl.
      rewrite !nth_error_map in Hn. destruct (nth_error args j) as [a|] eqn:Ha; [|discriminate].
      simpl in Hn. inversion Hn; subst a'; clear Hn.
      destruct (Hargs _ _ Ha) as (ty & Hty & Hta & Hw & Ht & Hcan & Hww & Htw & Hcw & _).
      destruct (Hh a) as [->| ->]; eauto 10. }
    destruct (negb (at_unsafe f) && forallb (fun r => fst (snd r)) (map (pre true) args)
              || String.eqb f "timestamp" && forallb (fun r => fst (snd r) && is_vec (fst r)) (map (pre true) args)).
    + simpl fst; simpl snd.
      split; [|simpl; rewrite El; repeat split; auto; intros _; apply canon_sv; auto].
      apply (Hboth fst); [auto|].
      intros a _ Hsel. unfold is_info_sel in Hsel. apply andb_prop in Hsel. destruct Hsel as [_ Hv].
      destruct a; try discriminate. reflexivity.
    + simpl fst; simpl snd.
      split; [|simpl; rewrite El; repeat split; auto; try discriminate; intros _; apply canon_sv; auto].
      apply (Hboth (fun r => wrap_if (snd (snd r)) (fst r))); [auto|].
      intros a E1 Hsel.
      destruct (Hargs _ _ E1) as (ty & _ & _ & _ & _ & _ & _ & _ & _ & Hself). rewrite (Hself Hsel).
      unfold is_info_sel in Hsel. apply andb_prop in Hsel. destruct Hsel as [_ Hv].
      destruct a; try discriminate. reflexivity.
  - (* EStepInv *) discriminate.
Qed.

(* ------------------------------------------------------------------ whole queries *)
Lemma check_no_stepinv : forall e, check e = true -> has_stepinv e = false.
Proof.
  induction e using expr_ind'; intros Hc; simpl; auto.
  - simpl in Hc. apply andb_prop in Hc. destruct Hc. auto.
  - simpl in Hc. apply andb_prop in Hc. destruct Hc. auto.
  - simpl in Hc. apply andb_prop in Hc. destruct Hc as [Hc _]. apply andb_prop in Hc. destruct Hc as [H1 H2].
    rewrite IHe1, IHe2; auto.
  - simpl in Hc. apply andb_prop in Hc. destruct Hc as [Hc Hp]. apply andb_prop in Hc. destruct Hc as [Hc _].
    rewrite IHe; auto. rewrite orb_false_r. destruct p as [q|]; auto. unfold optP in H.
    destruct op; try discriminate; apply andb_prop in Hp; destruct Hp; auto.
  - rewrite check_call in Hc. destruct (flookup f ftab) as [sg|]; [|discriminate].
    apply andb_prop in Hc. destruct Hc as [_ Hca].
    destruct (existsb has_stepinv args) eqn:E; auto.
    apply existsb_exists in E. destruct E as [a [Hin Ha]].
    destruct (In_nth_error _ _ Hin) as [j Hj].
    destruct (check_args_nth _ _ _ _ Hca _ _ Hj) as [[Hsel|Hck] _].
    + unfold is_info_sel in Hsel. apply andb_prop in Hsel. destruct Hsel as [_ Hv].
      destruct a; try discriminate.
    + rewrite Forall_forall in H. rewrite (H _ Hin Hck) in Ha. discriminate.
Qed.

Definition expected (k : qkind) (t : vtype) : vtype :=
  match k with QInstant => t | QRange _ => TMatrix end.

(* the statement of the soundness theorem, for one query *)
Definition sound_query (w : world) (k : qkind) (e : expr) (t : vtype) : Prop :=
  match run_query w k e with
  | QInternal _ => False                                   (* never an internal failure *)
  | QRejected => match k with QRange _ => is_sv t = false | QInstant => False end
                                                           (* only the documented refusal of range queries *)
  | QUser => True                                          (* a user-facing error *)
  | QValue t' => t' = expected k t                         (* a value of the checked type *)
  end.

Lemma preprocess_wtp : forall e, check e = true -> info_plain e = true ->
  exists pe, preprocess e = Some pe /\ wtp pe = true /\ type_of pe = type_of e.
Proof.
  intros e Hc Hi. unfold preprocess. rewrite (check_no_stepinv _ Hc).
  destruct (wrap_good e false (pre_ok e Hc Hi false)) as (Hw & Ht & _). cbv zeta in *. eauto.
Qed.

Lemma type_soundness : forall e t, check_ast e = TyOk t -> info_plain e = true ->
  forall w k, match k with QRange n => (1 <= n)%nat | QInstant => True end ->
  sound_query w k e t.
Proof.
  intros e t Hca Hi w k Hk. unfold check_ast in Hca. destruct (check e) eqn:Hc; [|discriminate].
  inversion Hca; subst t; clear Hca.
  destruct (preprocess_wtp e Hc Hi) as (pe & Hp & Hw & Ht).
  unfold sound_query, run_query. rewrite Hc, Hp. simpl negb. cbv iota.
  destruct k as [|n].
  - (* instant query *)
    assert (Hs : sound 1 (type_of pe) (eval w 1 pe)).
    { apply eval_sound; auto. split; [discriminate|lia]. }
    rewrite Ht in *.
    destruct (eval w 1 pe) as [v| |ft]; simpl in Hs; [|exact I|contradiction].
    destruct v; simpl.
    + destruct (type_of e); simpl in *; try discriminate; auto.
      apply andb_prop in Hs. destruct Hs as [Hl Hk']. destruct l as [|x [|]]; try discriminate.
      simpl in Hk'. destruct x as [|[] [|]]; try discriminate. reflexivity.
    + destruct (type_of e); simpl in *; try discriminate; auto.
    + destruct (type_of e); simpl in *; try discriminate; auto.
  - (* range query *)
    destruct (is_sv (type_of e)) eqn:Hsv; simpl negb; cbv iota; [|reflexivity].
    assert (Hs : sound n (type_of pe) (eval w n pe)).
    { apply eval_sound; auto. apply ctx_ok_sv. rewrite Ht. exact Hsv. }
    rewrite Ht in *.
    destruct (eval w n pe) as [v| |ft]; simpl in Hs; [|exact I|contradiction].
    destruct v; simpl; auto.
    destruct (type_of e); simpl in *; discriminate.
Qed.

Lemma untyped_rejected : forall e, check_ast e = TyErr -> forall w k, run_query w k e = QRejected.
Proof.
  intros e H w k. unfold check_ast in H. unfold run_query. destruct (check e); [discriminate|reflexivity].
Qed.

(* the unrestricted statement is false of the faithful model: info(foo, {version="v1"} @ 100) *)
Definition info_witness : expr :=
  ECall 1 "info" [EVec 2 (mkVS true false true false); EVec 3 (mkVS false false true true)].

Lemma type_soundness_refuted :
  exists e t w, check_ast e = TyOk t /\
    run_query w QInstant e = QInternal FAssertNode /\ run_query w (QRange 3) e = QInternal FAssertNode.
Proof. exists info_witness, TVector, canon_world. vm_compute. auto. Qed.

(* non-vacuity: well-typed queries satisfying the side condition, evaluating to values *)
(* topk(scalar(label_replace(foo, ("a"), "b", "c", "d")), foo)  — the repaired finding *)
Definition ex_topk : expr :=
  EAgg 1 AParam
    (Some (ECall 2 "scalar" [ECall 3 "label_replace" [EVec 4 (mkVS true false true false); EParen EStr; EStr; EStr; EStr]]))
    (EVec 5 (mkVS true false true false)).
(* rate((foo[1m] @ 100)) + on(job) clamp(bar, 0, scalar(foo)) *)
Definition ex_rate : expr :=
  EBin 1 OArith false (mkVM true false false false)
    (ECall 2 "rate" [EParen (EMat 3 (mkVS true false true true))])
    (ECall 4 "clamp" [EVec 5 (mkVS true false true false); ENum; ECall 6 "scalar" [EVec 7 (mkVS true false true false)]]).

Lemma ex_topk_ok :
  check_ast ex_topk = TyOk TVector /\ info_plain ex_topk = true /\
  run_query canon_world QInstant ex_topk = QValue TVector /\ run_query canon_world (QRange 3) ex_topk = QValue TMatrix.
Proof. vm_compute. auto. Qed.

Lemma ex_rate_ok :
  check_ast ex_rate = TyOk TVector /\ info_plain ex_rate = true /\
  run_query canon_world QInstant ex_rate = QValue TVector /\ run_query canon_world (QRange 3) ex_rate = QValue TMatrix.
Proof. vm_compute. auto. Qed.

Lemma ex_illtyped : check_ast (EUn 1 EStr) = TyErr /\ check_ast (ECall 1 "rate" [EVec 2 (mkVS true false true false)]) = TyErr.
Proof. vm_compute. auto. Qed.

(* proof/HeadStatsProofs.v — the counters of model/HeadStats.v equal the recount over the model
   head after every history whose oracles are well formed; counterexamples when they are not. *)
From Coq Require Import List ZArith Bool Lia.
From Verif Require Import model.HeadStats.
Import ListNotations.
Open Scope Z_scope.

Local Arguments Z.eqb : simpl never.
Local Arguments Z.leb : simpl never.
Local Arguments Z.ltb : simpl never.
Local Arguments Z.add : simpl never.
Local Arguments Z.sub : simpl never.
Local Arguments Z.opp : simpl never.
Local Arguments Z.of_nat : simpl never.

(* ------------------------------------------------------------------ the invariant *)
Definition f_stale (s : mser) : Z := b2z (lv_stale (s_last s)).
Definition f_hist (s : mser) : Z := b2z (lv_hist (s_last s)).
Definition f_nb (s : mser) : Z := lv_nb (s_last s).

Definition ok (s : mser) : Prop := ooo_ok s = true.

Record Inv (st : state) : Prop := mkInv {
  i_series : c_series (st_c st) = zlen (st_series st);
  i_stale : c_stale (st_c st) = sumf f_stale (st_series st);
  i_hist : c_hist (st_c st) = sumf f_hist (st_series st);
  i_nb : c_buckets (st_c st) = sumf f_nb (st_series st);
  i_chunks : c_chunks (st_c st) = sumf ser_chunks (st_series st);
  i_active : c_active (st_c st) = zlen (st_open st);
  i_ok : Forall ok (st_series st)
}.

Lemma inv_recount : forall st, Inv st -> st_c st = recount st.
Proof.
  intros st [H1 H2 H3 H4 H5 H6 _]. unfold recount. destruct (st_c st); simpl in *.
  unfold f_stale, f_hist, f_nb in *. congruence.
Qed.

Lemma inv0 : Inv state0.
Proof. constructor; simpl; auto. Qed.

(* ------------------------------------------------------------------ list lemmas *)
Lemma zlen_app : forall A (a b : list A), zlen (a ++ b) = zlen a + zlen b.
Proof. intros. unfold zlen. rewrite app_length. lia. Qed.
Lemma zlen_cons : forall A (x : A) l, zlen (x :: l) = 1 + zlen l.
Proof. intros. unfold zlen. simpl length. lia. Qed.
Lemma zlen_nil : forall A, zlen (@nil A) = 0.
Proof. reflexivity. Qed.
Lemma zlen_nonneg : forall A (l : list A), 0 <= zlen l.
Proof. intros. unfold zlen. lia. Qed.
Lemma zlen_rev : forall A (l : list A), zlen (rev l) = zlen l.
Proof. intros. unfold zlen. rewrite rev_length. reflexivity. Qed.

Lemma sumf_app : forall f a b, sumf f (a ++ b) = sumf f a + sumf f b.
Proof. induction a; simpl; intros; [lia | rewrite IHa; lia]. Qed.

Lemma sumf_ext : forall f g l, (forall s, f (g s) = f s) -> sumf f (map g l) = sumf f l.
Proof. induction l; simpl; intros; [reflexivity | rewrite H, IHl by assumption; reflexivity]. Qed.

Lemma find_upd_sum : forall f r g l s,
  find_ser r l = Some s -> sumf f (upd_ser r g l) = sumf f l - f s + f (g s).
Proof.
  induction l as [|a l IH]; simpl; intros s H; [discriminate|].
  destruct (s_ref a =? r).
  - inversion H; subst. simpl. lia.
  - simpl. rewrite (IH _ H). lia.
Qed.

Lemma find_none_upd : forall r g l, find_ser r l = None -> upd_ser r g l = l.
Proof.
  induction l as [|a l IH]; simpl; intros H; [reflexivity|].
  destruct (s_ref a =? r); [discriminate | rewrite IH by assumption; reflexivity].
Qed.

Lemma upd_len : forall r g l, zlen (upd_ser r g l) = zlen l.
Proof.
  induction l as [|a l IH]; simpl; [reflexivity|].
  destruct (s_ref a =? r); rewrite !zlen_cons; [reflexivity | rewrite IH; reflexivity].
Qed.

Lemma upd_sum_same : forall f r g l, (forall s, f (g s) = f s) -> sumf f (upd_ser r g l) = sumf f l.
Proof.
  induction l as [|a l IH]; simpl; intros H; [reflexivity|].
  destruct (s_ref a =? r); simpl; [rewrite H; reflexivity | rewrite IH by assumption; reflexivity].
Qed.

Lemma upd_forall : forall (P : mser -> Prop) r g l, (forall s, P s -> P (g s)) -> Forall P l -> Forall P (upd_ser r g l).
Proof.
  induction l as [|a l IH]; simpl; intros Hg H; [constructor|].
  inversion H; subst. destruct (s_ref a =? r); constructor; auto.
Qed.

Lemma find_in : forall r l s, find_ser r l = Some s -> In s l /\ s_ref s = r.
Proof.
  induction l as [|a l IH]; simpl; intros s H; [discriminate|].
  destruct (s_ref a =? r) eqn:E.
  - inversion H; subst. split; [left; reflexivity | apply Z.eqb_eq; assumption].
  - destruct (IH _ H). split; [right; assumption | assumption].
Qed.

Lemma find_upd_some : forall r r' g l, (forall s, s_ref (g s) = s_ref s) ->
  is_some (find_ser r' (upd_ser r g l)) = is_some (find_ser r' l).
Proof.
  induction l as [|a l IH]; simpl; intros Hg; [reflexivity|].
  destruct (s_ref a =? r) eqn:E; simpl.
  - rewrite Hg. destruct (s_ref a =? r'); reflexivity.
  - destruct (s_ref a =? r'); [reflexivity | apply IH; assumption].
Qed.

(* clear_pend / set_pend do not touch anything that is counted *)
Lemma clear_pend_len : forall rs l, zlen (clear_pend rs l) = zlen l.
Proof. induction rs; simpl; intros; [reflexivity | rewrite IHrs, upd_len; reflexivity]. Qed.
Lemma clear_pend_sum : forall f, (forall p s, f (set_pend p s) = f s) ->
  forall rs l, sumf f (clear_pend rs l) = sumf f l.
Proof. intros f H. induction rs; simpl; intros; [reflexivity | rewrite IHrs, upd_sum_same by (intros; apply H); reflexivity]. Qed.
Lemma clear_pend_ok : forall rs l, Forall ok l -> Forall ok (clear_pend rs l).
Proof. induction rs; simpl; intros; [assumption | apply IHrs, upd_forall; [intros s Hs; exact Hs | assumption]]. Qed.

Lemma pend_stale : forall p s, f_stale (set_pend p s) = f_stale s. Proof. reflexivity. Qed.
Lemma pend_hist : forall p s, f_hist (set_pend p s) = f_hist s. Proof. reflexivity. Qed.
Lemma pend_nb : forall p s, f_nb (set_pend p s) = f_nb s. Proof. reflexivity. Qed.
Lemma pend_chunks : forall p s, ser_chunks (set_pend p s) = ser_chunks s. Proof. reflexivity. Qed.

(* ------------------------------------------------------------------ commit *)
Lemma ok_iff : forall s, ok s <-> 0 <= s_omm s /\ (s_ostruct s = true \/ (s_omm s = 0 /\ s_ohead s = None)).
Proof.
  intros s. unfold ok, ooo_ok. rewrite andb_true_iff, orb_true_iff, andb_true_iff, Z.leb_le, Z.eqb_eq.
  destruct (s_ohead s); simpl; intuition congruence.
Qed.

Lemma commit_ser_delta : forall cap c0 s x s' c l,
  wf_landed l x = true -> ok s ->
  commit_ser cap c0 s x = (s', c) ->
  c_series c = c_series c0 /\ c_active c = c_active c0 /\
  c_stale c = c_stale c0 - f_stale s + f_stale s' /\
  c_hist c = c_hist c0 - f_hist s + f_hist s' /\
  c_buckets c = c_buckets c0 - f_nb s + f_nb s' /\
  c_chunks c = c_chunks c0 - ser_chunks s + ser_chunks s' /\
  ok s' /\ s_ref s' = s_ref s.
Proof.
  intros cap c0 s x s' c l Hwf Hok H.
  unfold wf_landed in Hwf. apply andb_true_iff in Hwf. destruct Hwf as [_ Hwf].
  apply ok_iff in Hok. rewrite ok_iff.
  destruct s as [r mm hc omm oh os last pend snap]. simpl in Hok.
  destruct x as [r0 t hist stale nbi nba cut | r0 k dup]; simpl in H.
  - (* in-order *)
    assert (Hnb : hist = true -> nbi = nba) by (intros ->; apply Z.eqb_eq; assumption).
    inversion H; subst s' c; clear H.
    unfold f_stale, f_hist, f_nb, ser_chunks, upd_stale, upd_hist, push_or_bump; simpl.
    destruct hist; [specialize (Hnb eq_refl); subst nba|];
      destruct last as [ws | ws wn]; destruct ws; destruct stale; destruct cut; destruct hc as [|h0 hc'];
      simpl;
      repeat match goal with |- context [?a =? ?b] => destruct (Z.eqb_spec a b) end;
      simpl; rewrite ?zlen_cons, ?zlen_nil; repeat split; auto; try lia; try tauto.
  - (* out of order *)
    apply Z.eqb_eq in Hwf. subst k.
    unfold f_stale, f_hist, f_nb, ser_chunks; simpl.
    destruct oh as [n|]; simpl in H; [destruct (n =? cap)|]; inversion H; subst s' c; clear H; simpl;
      repeat split; auto; try lia; try tauto.
Qed.

Lemma forall_in : forall (P : mser -> Prop) l s, Forall P l -> In s l -> P s.
Proof. intros P l s H. rewrite Forall_forall in H. auto. Qed.

Lemma commit1_inv : forall cap st x,
  wf_landed (st_series st) x = true -> Inv st -> Inv (commit1 cap st x) /\ st_open (commit1 cap st x) = st_open st.
Proof.
  intros cap st x Hwf HI.
  assert (Hf : is_some (find_ser (landed_ref x) (st_series st)) = true).
  { unfold wf_landed in Hwf. apply andb_true_iff in Hwf. tauto. }
  unfold commit1. destruct (find_ser (landed_ref x) (st_series st)) as [s|] eqn:E; [|discriminate].
  destruct (commit_ser cap (st_c st) s x) as [s' c] eqn:EC.
  destruct (find_in _ _ _ E) as [Hin Href].
  destruct HI as [H1 H2 H3 H4 H5 H6 H7].
  pose proof (forall_in _ _ _ H7 Hin) as Hoks.
  destruct (commit_ser_delta _ _ _ _ _ _ _ Hwf Hoks EC) as (D1 & D2 & D3 & D4 & D5 & D6 & D7 & D8).
  split; [|reflexivity].
  constructor; simpl.
  - rewrite upd_len. congruence.
  - rewrite (find_upd_sum f_stale _ _ _ _ E). lia.
  - rewrite (find_upd_sum f_hist _ _ _ _ E). lia.
  - rewrite (find_upd_sum f_nb _ _ _ _ E). lia.
  - rewrite (find_upd_sum ser_chunks _ _ _ _ E). lia.
  - congruence.
  - clear - H7 D7 E. revert E. induction (st_series st) as [|a l IH]; simpl; intros E; [constructor|].
    inversion H7; subst. destruct (s_ref a =? landed_ref x).
    + constructor; assumption.
    + constructor; auto.
Qed.

Lemma commit1_find : forall cap st x r,
  is_some (find_ser r (st_series (commit1 cap st x))) = is_some (find_ser r (st_series st)).
Proof.
  intros. unfold commit1.
  destruct (find_ser (landed_ref x) (st_series st)) as [s|] eqn:E.
  - destruct (commit_ser cap (st_c st) s x) as [s' c] eqn:EC. simpl.
    destruct (find_in _ _ _ E) as [_ Href].
    assert (Hr : s_ref s' = s_ref s).
    { destruct x; simpl in EC.
      - inversion EC; reflexivity.
      - destruct (match s_ohead s with Some n => n =? cap | None => true end); inversion EC; reflexivity. }
    clear EC. revert E. induction (st_series st) as [|a l IH]; simpl; intros E; [reflexivity|].
    destruct (s_ref a =? landed_ref x) eqn:E1; simpl.
    + inversion E; subst a. rewrite Hr. destruct (s_ref s =? r); reflexivity.
    + destruct (s_ref a =? r); [reflexivity | apply IH; assumption].
  - destruct (find_ser (landed_ref x) (st_orph st)) as [s|]; [|reflexivity].
    destruct (commit_ser cap (st_c st) s x). reflexivity.
Qed.

Lemma wf_landed_commit1 : forall cap st y x,
  wf_landed (st_series (commit1 cap st y)) x = wf_landed (st_series st) x.
Proof. intros. unfold wf_landed. rewrite commit1_find. reflexivity. Qed.

Lemma commit_fold_inv : forall cap l st,
  forallb (wf_landed (st_series st)) l = true -> Inv st ->
  Inv (fold_left (commit1 cap) l st) /\ st_open (fold_left (commit1 cap) l st) = st_open st.
Proof.
  induction l as [|x l IH]; simpl; intros st Hwf HI; [split; [assumption | reflexivity]|].
  apply andb_true_iff in Hwf. destruct Hwf as [Hx Hl].
  destruct (commit1_inv cap st x Hx HI) as [HI' Ho'].
  assert (Hl' : forallb (wf_landed (st_series (commit1 cap st x))) l = true).
  { rewrite forallb_forall in *. intros y Hy. rewrite wf_landed_commit1. auto. }
  destruct (IH _ Hl' HI') as [HI'' Ho'']. split; [assumption | congruence].
Qed.

(* ------------------------------------------------------------------ open appenders *)
Lemma remove1_len : forall a l, mem a l = true -> zlen (remove1 a l) = zlen l - 1.
Proof.
  unfold mem. induction l as [|x l IH]; simpl; intros H; [discriminate|].
  destruct (Z.eqb_spec x a) as [->|Hne].
  - rewrite zlen_cons. lia.
  - destruct (Z.eqb_spec a x) as [->|_]; [congruence|]. simpl in H.
    rewrite !zlen_cons, IH by assumption. lia.
Qed.

(* ------------------------------------------------------------------ m-mapping and flushing *)
Lemma mmap1_chunks : forall s, ser_chunks (mmap1 s) = ser_chunks s.
Proof.
  intros s. unfold mmap1. destruct (s_hc s) as [|n [|o r]] eqn:E; try reflexivity.
  unfold ser_chunks; simpl. rewrite E, !zlen_app, zlen_rev, !zlen_cons, zlen_nil. lia.
Qed.
Lemma mmap1_other : forall s, s_last (mmap1 s) = s_last s /\ ooo_ok (mmap1 s) = ooo_ok s.
Proof. intros s. unfold mmap1. destruct (s_hc s) as [|n [|o r]]; split; reflexivity. Qed.

Lemma flush1_props : forall s, ok s ->
  ser_chunks (flush1 1 s) = ser_chunks s /\ s_last (flush1 1 s) = s_last s /\ ok (flush1 1 s).
Proof.
  intros s H. unfold flush1. destruct (s_ohead s) eqn:E; [|auto].
  destruct (s_ostruct s) eqn:E2; [|auto].
  apply ok_iff in H. rewrite ok_iff. unfold ser_chunks; simpl. rewrite E. simpl. repeat split; try lia; auto.
Qed.

Lemma flush_list_inv : forall fl l,
  forallb (fun p : Z * Z => snd p =? 1) fl = true -> Forall ok l ->
  zlen (flush_list fl l) = zlen l /\ sumf f_stale (flush_list fl l) = sumf f_stale l /\
  sumf f_hist (flush_list fl l) = sumf f_hist l /\ sumf f_nb (flush_list fl l) = sumf f_nb l /\
  sumf ser_chunks (flush_list fl l) = sumf ser_chunks l /\ Forall ok (flush_list fl l).
Proof.
  induction fl as [|[r k] fl IH]; simpl; intros l Hwf Hok; [repeat split; auto|].
  apply andb_true_iff in Hwf. destruct Hwf as [Hk Hfl]. simpl in Hk. apply Z.eqb_eq in Hk. subst k.
  assert (Hok' : Forall ok (upd_ser r (flush1 1) l)).
  { apply upd_forall; [intros s Hs; apply flush1_props; assumption | assumption]. }
  destruct (IH _ Hfl Hok') as (A & B & C & D & E & F).
  assert (G : forall f, (forall s, ok s -> f (flush1 1 s) = f s) -> sumf f (upd_ser r (flush1 1) l) = sumf f l).
  { intros f Hf. clear - Hok Hf. induction l as [|a l IHl]; simpl; [reflexivity|].
    inversion Hok; subst. destruct (s_ref a =? r); simpl; [rewrite Hf by assumption; reflexivity | rewrite IHl by assumption; reflexivity]. }
  rewrite A, B, C, D, E, upd_len.
  repeat split; auto; apply G; intros s Hs; destruct (flush1_props s Hs) as (P1 & P2 & P3);
    unfold f_stale, f_hist, f_nb; try rewrite P2; auto.
Qed.

(* ------------------------------------------------------------------ truncateChunksBefore / gc *)
Lemma first_below_bound : forall mint hc i j, first_below mint hc i = Some j -> (i <= j < i + length hc)%nat.
Proof.
  induction hc as [|c r IH]; simpl; intros i j H; [discriminate|].
  destruct (c <? mint); [inversion H; lia|]. apply IH in H. lia.
Qed.

Lemma count_prefix_bound : forall mint mm, (count_prefix_below mint mm <= length mm)%nat.
Proof. induction mm as [|c r IH]; simpl; [lia | destruct (c <? mint); simpl; lia]. Qed.

Lemma truncate_props : forall mint ooorm s s' r, ok s -> truncate_chunks mint ooorm s = (s', r) ->
  ser_chunks s' = ser_chunks s - r /\ s_last s' = s_last s /\ ok s'.
Proof.
  intros mint ooorm s s' r Hok H. unfold truncate_chunks in H.
  apply ok_iff in Hok. rewrite ok_iff.
  destruct s as [ref mm hc omm oh os last pend snap]; simpl in *.
  destruct (first_below mint hc 0) as [i|] eqn:E.
  - apply first_below_bound in E. simpl in E.
    inversion H; subst s' r; clear H. unfold ser_chunks; simpl.
    assert (L : zlen (firstn i hc) = Z.of_nat i) by (unfold zlen; rewrite firstn_length; lia).
    rewrite L, zlen_nil. unfold zlen.
    destruct os; destruct (0 <? omm) eqn:E0; simpl;
      repeat match goal with |- context [?a =? ?b] => destruct (Z.eqb_spec a b) end;
      destruct oh; simpl; try apply Z.ltb_lt in E0; try apply Z.ltb_ge in E0;
      repeat split; try lia; try tauto; auto;
      try (destruct Hok as [? [?|[? ?]]]; try discriminate; try lia; try (left; reflexivity); try (right; split; [lia | reflexivity]); auto).
  - pose proof (count_prefix_bound mint mm) as B.
    inversion H; subst s' r; clear H. unfold ser_chunks; simpl.
    assert (L : zlen (skipn (count_prefix_below mint mm) mm) = zlen mm - Z.of_nat (count_prefix_below mint mm))
      by (unfold zlen; rewrite skipn_length; lia).
    rewrite L.
    destruct os; destruct (0 <? omm) eqn:E0; simpl;
      repeat match goal with |- context [?a =? ?b] => destruct (Z.eqb_spec a b) end;
      destruct oh; simpl; try apply Z.ltb_lt in E0; try apply Z.ltb_ge in E0;
      repeat split; try lia; try tauto; auto;
      try (destruct Hok as [? [?|[? ?]]]; try discriminate; try lia; try (left; reflexivity); try (right; split; [lia | reflexivity]); auto).
Qed.

Lemma keeps_false_chunks : forall s, ok s -> keeps s = false -> ser_chunks s = 0.
Proof.
  intros s Hok H. apply ok_iff in Hok. unfold keeps in H.
  destruct s as [ref mm hc omm oh os last pend snap]; simpl in *. unfold ser_chunks; simpl.
  destruct mm; [|discriminate]. destruct hc; [|discriminate]. simpl in H.
  destruct pend; [discriminate|]. simpl in H.
  destruct os; simpl in H.
  - apply orb_false_iff in H. destruct H as [H1 H2]. apply Z.ltb_ge in H1. destruct oh; [discriminate|]. simpl. rewrite zlen_nil. lia.
  - destruct Hok as [_ [Hc | [Ho Hh]]]; [discriminate|]. subst. simpl. rewrite zlen_nil. lia.
Qed.

Lemma gc_list_inv : forall mint ooorm l l2 d rm del st hi bu,
  Forall ok l -> gc_list mint ooorm l = (l2, d, (rm, del, st, hi, bu)) ->
  zlen l2 = zlen l - del /\ sumf f_stale l2 = sumf f_stale l - st /\ sumf f_hist l2 = sumf f_hist l - hi /\
  sumf f_nb l2 = sumf f_nb l - bu /\ sumf ser_chunks l2 = sumf ser_chunks l - rm /\ Forall ok l2.
Proof.
  induction l as [|s t IH]; simpl; intros l2 d rm del st hi bu Hok H.
  - inversion H; subst. repeat split; auto.
  - inversion Hok as [|? ? Hs Ht]; subst.
    destruct (gc_list mint ooorm t) as [[t' d'] [[[[rm' del'] st'] hi'] bu']] eqn:E.
    destruct (IH _ _ _ _ _ _ _ Ht eq_refl) as (A & B & C & D & F & G).
    destruct (truncate_chunks mint (lookupz (s_ref s) ooorm) s) as [s' r] eqn:ET.
    destruct (truncate_props _ _ _ _ _ Hs ET) as (P1 & P2 & P3).
    destruct (keeps s') eqn:EK; inversion H; subst; clear H.
    + simpl. rewrite !zlen_cons, A, B, C, D, F. unfold f_stale, f_hist, f_nb in *. rewrite P1, P2.
      repeat split; try lia. constructor; assumption.
    + pose proof (keeps_false_chunks _ P3 EK) as Z0.
      rewrite !zlen_cons, A, B, C, D, F. unfold f_stale, f_hist, f_nb in *. rewrite <- P2.
      repeat split; try lia. assumption.
Qed.

(* ------------------------------------------------------------------ gcSeries *)
Lemma evict_list_inv : forall so refs maxt l l2 d rm del st hi bu,
  Forall ok l -> evict_list so refs maxt l = (l2, d, (rm, del, st, hi, bu)) ->
  zlen l2 = zlen l - del /\ sumf f_stale l2 = sumf f_stale l - st /\ sumf f_hist l2 = sumf f_hist l - hi /\
  sumf f_nb l2 = sumf f_nb l - bu /\ sumf ser_chunks l2 = sumf ser_chunks l - rm /\ Forall ok l2.
Proof.
  induction l as [|s t IH]; simpl; intros l2 d rm del st hi bu Hok H.
  - inversion H; subst. repeat split; auto.
  - inversion Hok as [|? ? Hs Ht]; subst.
    destruct (evict_list so refs maxt t) as [[t' d'] [[[[rm' del'] st'] hi'] bu']] eqn:E.
    destruct (IH _ _ _ _ _ _ _ Ht eq_refl) as (A & B & C & D & F & G).
    destruct (evictable so refs maxt s) eqn:EV; inversion H; subst; clear H.
    + assert (Z0 : ser_chunks s = zlen (s_hc s) + zlen (s_mm s)).
      { unfold evictable in EV. apply andb_true_iff in EV. destruct EV as [EV _].
        apply andb_true_iff in EV. destruct EV as [_ EV]. apply negb_true_iff in EV.
        apply ok_iff in Hs. destruct Hs as [_ [Hc | [Ho Hh]]]; [congruence|].
        unfold ser_chunks. rewrite Ho, Hh. simpl. lia. }
      rewrite !zlen_cons, A, B, C, D, F. unfold f_stale, f_hist, f_nb in *.
      repeat split; try lia. assumption.
    + simpl. rewrite !zlen_cons, A, B, C, D, F. repeat split; try lia. constructor; assumption.
Qed.

(* ------------------------------------------------------------------ restart *)
Lemma replay_fold : forall l c, Forall (fun s => wf_ser s = true) l ->
  let c' := fold_left replay_ser l c in
  c_series c' = c_series c + zlen l /\ c_stale c' = c_stale c + sumf f_stale l /\
  c_hist c' = c_hist c + sumf f_hist l /\ c_buckets c' = c_buckets c + sumf f_nb l /\
  c_chunks c' = c_chunks c + sumf ser_chunks l /\ c_active c' = c_active c.
Proof.
  induction l as [|s t IH]; intros c Hwf; simpl.
  - rewrite zlen_nil. repeat split; lia.
  - inversion Hwf as [|? ? Hs Ht]; subst.
    destruct (IH (replay_ser c s) Ht) as (A & B & C & D & E & F). cbv zeta in *.
    rewrite A, B, C, D, E, F. clear A B C D E F IH.
    unfold wf_ser in Hs. apply andb_true_iff in Hs. destruct Hs as [Hsn _]. apply Z.eqb_eq in Hsn.
    rewrite zlen_cons. unfold replay_ser, f_stale, f_hist, f_nb, upd_stale, upd_hist.
    destruct (s_last s) as [b | b n]; destruct b; simpl;
      repeat match goal with |- context [?a =? ?b] => destruct (Z.eqb_spec a b) end;
      simpl; repeat split; lia.
Qed.

Lemma wf_sers_ok : forall l, forallb wf_ser l = true -> Forall (fun s => wf_ser s = true) l /\ Forall ok l.
Proof.
  intros l H. rewrite forallb_forall in H. split; apply Forall_forall; intros s Hs; specialize (H s Hs); [assumption|].
  unfold wf_ser in H. apply andb_true_iff in H. unfold ok. tauto.
Qed.

(* ------------------------------------------------------------------ one step *)
Lemma new_ser_ok : forall r, ok (new_ser r).
Proof. intros. reflexivity. Qed.

Theorem step_inv : forall cap st o, wf_op st o = true -> Inv st -> Inv (step cap st o).
Proof.
  intros cap st o Hwf HI. destruct o as [a | a created okr | a touched l | a touched | | ran mint flush ooorm | so refs maxt | | post extra bextra]; simpl in *.
  - (* OOpen *) destruct HI. constructor; simpl; auto. rewrite zlen_cons. lia.
  - (* OAppend *)
    assert (H1 : Inv (match created with
                      | None => st
                      | Some r => match find_ser r (st_series st) with
                                  | Some _ => st
                                  | None => mkSt (st_series st ++ [new_ser r]) (st_orph st) (st_open st) (add_series 1 (st_c st))
                                  end
                      end)).
    { destruct created as [r|]; [|assumption]. destruct (find_ser r (st_series st)); [assumption|].
      destruct HI. constructor; simpl; rewrite ?zlen_app, ?sumf_app; simpl; auto;
        try (change (zlen [new_ser r]) with 1; lia);
        try (change (f_stale (new_ser r)) with 0; lia); try (change (f_hist (new_ser r)) with 0; lia);
        try (change (f_nb (new_ser r)) with 0; lia); try (change (ser_chunks (new_ser r)) with 0; lia).
      apply Forall_app; split; [assumption | constructor; [apply new_ser_ok | constructor]]. }
    destruct okr as [r|]; [|assumption].
    set (st1 := match created with None => st | Some r0 => _ end) in *.
    destruct H1. constructor; simpl; rewrite ?upd_len, ?upd_sum_same by reflexivity; auto.
    apply upd_forall; [intros s Hs; exact Hs | assumption].
  - (* OCommit *)
    destruct (mem a (st_open st)) eqn:EM; [|assumption].
    destruct (commit_fold_inv cap l st Hwf HI) as [HI' Ho].
    destruct HI'. constructor; simpl;
      rewrite ?clear_pend_len, ?(clear_pend_sum f_stale pend_stale), ?(clear_pend_sum f_hist pend_hist),
              ?(clear_pend_sum f_nb pend_nb), ?(clear_pend_sum ser_chunks pend_chunks); auto.
    + rewrite Ho, remove1_len by assumption. rewrite Ho in i_active0. lia.
    + apply clear_pend_ok. assumption.
  - (* ORollback *)
    destruct (mem a (st_open st)) eqn:EM; [|assumption].
    destruct HI. constructor; simpl;
      rewrite ?clear_pend_len, ?(clear_pend_sum f_stale pend_stale), ?(clear_pend_sum f_hist pend_hist),
              ?(clear_pend_sum f_nb pend_nb), ?(clear_pend_sum ser_chunks pend_chunks); auto.
    + rewrite remove1_len by assumption. lia.
    + apply clear_pend_ok. assumption.
  - (* OMmap *)
    destruct HI. constructor; simpl; auto.
    + unfold zlen. rewrite map_length. assumption.
    + rewrite sumf_ext; [assumption | intros s; unfold f_stale; destruct (mmap1_other s) as [-> _]; reflexivity].
    + rewrite sumf_ext; [assumption | intros s; unfold f_hist; destruct (mmap1_other s) as [-> _]; reflexivity].
    + rewrite sumf_ext; [assumption | intros s; unfold f_nb; destruct (mmap1_other s) as [-> _]; reflexivity].
    + rewrite sumf_ext; [assumption | apply mmap1_chunks].
    + rewrite Forall_forall in *. intros s Hs. apply in_map_iff in Hs. destruct Hs as [s0 [<- Hs0]].
      unfold ok. destruct (mmap1_other s0) as [_ ->]. apply i_ok0. assumption.
  - (* OTrunc *)
    destruct HI.
    destruct (flush_list_inv flush (st_series st) Hwf i_ok0) as (A & B & C & D & E & F).
    destruct ran.
    + destruct (gc_list mint ooorm (flush_list flush (st_series st))) as [[l2 d] [[[[rm del] sst] hi] bu]] eqn:EG.
      destruct (gc_list_inv _ _ _ _ _ _ _ _ _ _ F EG) as (A' & B' & C' & D' & E' & F').
      constructor; simpl; auto; lia.
    + constructor; simpl; auto; lia.
  - (* OEvict *)
    destruct HI.
    destruct (evict_list so refs maxt (st_series st)) as [[l2 d] [[[[rm del] sst] hi] bu]] eqn:EG.
    destruct (evict_list_inv _ _ _ _ _ _ _ _ _ _ _ i_ok0 EG) as (A' & B' & C' & D' & E' & F').
    constructor; simpl; auto; lia.
  - (* ONop *) assumption.
  - (* ORestart *)
    apply andb_true_iff in Hwf. destruct Hwf as [Hwf Hb]. apply Z.eqb_eq in Hb. subst bextra.
    apply andb_true_iff in Hwf. destruct Hwf as [Hp He]. apply Z.eqb_eq in He. subst extra.
    destruct (wf_sers_ok _ Hp) as [Hw Hok].
    destruct (replay_fold post ctrs0 Hw) as (A & B & C & D & E & F). cbv zeta in *.
    change (c_series ctrs0) with 0 in A. change (c_stale ctrs0) with 0 in B. change (c_hist ctrs0) with 0 in C.
    change (c_buckets ctrs0) with 0 in D. change (c_chunks ctrs0) with 0 in E. change (c_active ctrs0) with 0 in F.
    constructor; simpl; auto; rewrite ?zlen_nil; try lia.
Qed.

(* ------------------------------------------------------------------ all histories *)
Theorem run_inv : forall cap ops st, wf_run cap st ops = true -> Inv st -> Inv (fold_left (step cap) ops st).
Proof.
  induction ops as [|o r IH]; simpl; intros st Hwf HI; [assumption|].
  apply andb_true_iff in Hwf. destruct Hwf as [Ho Hr].
  apply IH; [assumption | apply step_inv; assumption].
Qed.

(* every state along the history *)
Theorem trace_inv : forall cap ops st, wf_run cap st ops = true -> Inv st -> Forall Inv (trace cap st ops).
Proof.
  induction ops as [|o r IH]; simpl; intros st Hwf HI; [constructor|].
  apply andb_true_iff in Hwf. destruct Hwf as [Ho Hr].
  pose proof (step_inv cap st o Ho HI) as H1. constructor; [assumption | apply IH; assumption].
Qed.

(* the active-appender gauge needs no assumption on the oracles *)
Lemma commit1_open : forall cap st x, st_open (commit1 cap st x) = st_open st /\ c_active (st_c (commit1 cap st x)) = c_active (st_c st).
Proof.
  intros. unfold commit1.
  assert (H : forall s s' c, commit_ser cap (st_c st) s x = (s', c) -> c_active c = c_active (st_c st)).
  { intros s s' c H. destruct x; simpl in H.
    - inversion H; subst. unfold upd_stale, upd_hist.
      repeat match goal with |- context [if ?b then _ else _] => destruct b end; reflexivity.
    - destruct (match s_ohead s with Some n => n =? cap | None => true end); inversion H; reflexivity. }
  destruct (find_ser (landed_ref x) (st_series st)) as [s|].
  - destruct (commit_ser cap (st_c st) s x) as [s' c] eqn:E. simpl. split; [reflexivity | eapply H; eassumption].
  - destruct (find_ser (landed_ref x) (st_orph st)) as [s|]; [|auto].
    destruct (commit_ser cap (st_c st) s x) as [s' c] eqn:E. simpl. split; [reflexivity | eapply H; eassumption].
Qed.

Lemma commit_fold_open : forall cap l st,
  st_open (fold_left (commit1 cap) l st) = st_open st /\ c_active (st_c (fold_left (commit1 cap) l st)) = c_active (st_c st).
Proof.
  induction l as [|x l IH]; simpl; intros st; [auto|].
  destruct (IH (commit1 cap st x)) as [A B]. destruct (commit1_open cap st x) as [C D]. split; congruence.
Qed.

Lemma sub_removed_active : forall c x, c_active (sub_removed c x) = c_active c.
Proof. intros c [[[[rm del] st] hi] bu]. reflexivity. Qed.

Lemma replay_active : forall l c, c_active (fold_left replay_ser l c) = c_active c.
Proof.
  induction l as [|s t IH]; simpl; intros c; [reflexivity|]. rewrite IH.
  unfold replay_ser, upd_stale, upd_hist.
  repeat match goal with |- context [if ?b then _ else _] => destruct b end; reflexivity.
Qed.

Theorem step_active : forall cap st o,
  c_active (st_c st) = zlen (st_open st) -> c_active (st_c (step cap st o)) = zlen (st_open (step cap st o)).
Proof.
  intros cap st o H. destruct o as [a | a created okr | a touched l | a touched | | ran mint flush ooorm | so refs maxt | | post extra bextra]; simpl.
  - rewrite zlen_cons. lia.
  - destruct created as [r|]; [destruct (find_ser r (st_series st))|]; destruct okr; simpl; assumption.
  - destruct (mem a (st_open st)) eqn:EM; [|assumption]. simpl.
    destruct (commit_fold_open cap l st) as [A B]. rewrite A, B, remove1_len by assumption. lia.
  - destruct (mem a (st_open st)) eqn:EM; [|assumption]. simpl. rewrite remove1_len by assumption. lia.
  - assumption.
  - destruct ran; [|assumption].
    destruct (gc_list mint ooorm (flush_list flush (st_series st))) as [[l2 d] x]. simpl. rewrite sub_removed_active. assumption.
  - destruct (evict_list so refs maxt (st_series st)) as [[l2 d] x]. simpl. rewrite sub_removed_active. assumption.
  - assumption.
  - rewrite replay_active. reflexivity.
Qed.

Theorem run_active : forall cap ops st,
  c_active (st_c st) = zlen (st_open st) ->
  c_active (st_c (fold_left (step cap) ops st)) = zlen (st_open (fold_left (step cap) ops st)).
Proof. induction ops as [|o r IH]; simpl; intros st H; [assumption | apply IH, step_active; assumption]. Qed.

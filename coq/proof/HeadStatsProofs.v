From Coq Require Import List ZArith Bool Lia.
From Verif Require Import model.HeadStats.

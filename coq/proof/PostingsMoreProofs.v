(* proof/PostingsMoreProofs.v — C16: ordering of Select results, label-value / label-name
   queries, merging with limits (model/Postings.v). *)
From Coq Require Import List ZArith NArith Bool Lia Sorted.
From Verif Require Import model.Postings proof.PostingsProofs.
Import ListNotations.
Open Scope Z_scope.

(* ---------- lexicographic comparison, generically ---------- *)
Section Lex.
Variable A : Type.
Variable cmp : A -> A -> comparison.
Hypothesis cmp_eq : forall a b, cmp a b = Eq <-> a = b.
Hypothesis cmp_antisym : forall a b, cmp b a = CompOpp (cmp a b).
Hypothesis cmp_trans : forall a b c, cmp a b = Lt -> cmp b c = Lt -> cmp a c = Lt.

Fixpoint lex (a b : list A) : comparison :=
  match a, b with
  | [], [] => Eq
  | [], _ :: _ => Lt
  | _ :: _, [] => Gt
  | x :: a', y :: b' => match cmp x y with Eq => lex a' b' | c => c end
  end.

Lemma lex_eq : forall a b, lex a b = Eq <-> a = b.
Proof.
  induction a as [|x a IH]; destruct b as [|y b]; simpl; split; intro H; try discriminate; auto.
  - destruct (cmp x y) eqn:E; try discriminate. apply cmp_eq in E. apply IH in H. subst. reflexivity.
  - inversion H; subst. assert (E : cmp y y = Eq) by (apply cmp_eq; reflexivity). rewrite E. apply IH. reflexivity.
Qed.

Lemma lex_antisym : forall a b, lex b a = CompOpp (lex a b).
Proof.
  induction a as [|x a IH]; destruct b as [|y b]; simpl; auto.
  rewrite (cmp_antisym x y). destruct (cmp x y); simpl; auto.
Qed.

Lemma lex_trans : forall a b c, lex a b = Lt -> lex b c = Lt -> lex a c = Lt.
Proof.
  induction a as [|x a IH]; destruct b as [|y b]; destruct c as [|z c]; simpl; intros H1 H2;
    try discriminate; auto.
  destruct (cmp x y) eqn:E1; destruct (cmp y z) eqn:E2; try discriminate.
  - apply cmp_eq in E1. apply cmp_eq in E2. subst.
    assert (E : cmp z z = Eq) by (apply cmp_eq; reflexivity). rewrite E. eapply IH; eauto.
  - apply cmp_eq in E1. subst. rewrite E2. reflexivity.
  - apply cmp_eq in E2. subst. rewrite E1. reflexivity.
  - rewrite (cmp_trans x y z E1 E2). reflexivity.
Qed.

Lemma lex_le_trans : forall a b c, lex a b <> Gt -> lex b c <> Gt -> lex a c <> Gt.
Proof.
  intros a b c H1 H2.
  destruct (lex a b) eqn:E1; [|destruct (lex b c) eqn:E2|congruence].
  - apply lex_eq in E1. subst. assumption.
  - apply lex_eq in E2. subst. rewrite E1. discriminate.
  - rewrite (lex_trans a b c E1 E2). discriminate.
  - congruence.
Qed.
End Lex.

Lemma N_cmp_trans : forall a b c : N, (a ?= b)%N = Lt -> (b ?= c)%N = Lt -> (a ?= c)%N = Lt.
Proof. intros a b c. rewrite !N.compare_lt_iff. apply N.lt_trans. Qed.

Lemma str_cmp_lex : forall a b, str_cmp a b = lex N N.compare a b.
Proof. induction a as [|x a IH]; destruct b as [|y b]; simpl; auto; try (rewrite IH; reflexivity). Qed.

Lemma str_cmp_antisym : forall a b, str_cmp b a = CompOpp (str_cmp a b).
Proof. intros. rewrite !str_cmp_lex. apply lex_antisym. intros. apply N.compare_antisym. Qed.

Lemma str_cmp_trans : forall a b c, str_cmp a b = Lt -> str_cmp b c = Lt -> str_cmp a c = Lt.
Proof.
  intros a b c. rewrite !str_cmp_lex. apply lex_trans.
  - apply N.compare_eq_iff.
  - apply N_cmp_trans.
Qed.

Lemma seq_cmp_lex : forall a b, seq_cmp a b = lex str str_cmp a b.
Proof. induction a as [|x a IH]; destruct b as [|y b]; simpl; auto; try (rewrite IH; reflexivity). Qed.

(* labels.Compare is a total preorder whose Eq is equality of the flattened label list *)
Definition labels_le (a b : labels) : Prop := labels_cmp a b <> Gt.

Lemma labels_le_trans : forall a b c, labels_le a b -> labels_le b c -> labels_le a c.
Proof.
  unfold labels_le, labels_cmp. intros a b c. rewrite !seq_cmp_lex.
  apply lex_le_trans.
  - apply str_cmp_eq.
  - apply str_cmp_trans.
Qed.

Lemma labels_lt_le : forall a b, labels_ltb a b = true -> labels_le a b.
Proof. unfold labels_ltb, labels_le. intros a b H. destruct (labels_cmp a b); congruence. Qed.

Lemma labels_nlt_ge : forall a b, labels_ltb a b = false -> labels_le b a.
Proof.
  unfold labels_ltb, labels_le, labels_cmp. intros a b H. rewrite !seq_cmp_lex in *.
  rewrite (lex_antisym str str_cmp str_cmp_antisym (flat a) (flat b)).
  destruct (lex str str_cmp (flat a) (flat b)); simpl; congruence.
Qed.

(* ---------- sort_series sorts ---------- *)
Definition series_le (s t : series) : Prop := labels_le (s_labels s) (s_labels t).

Lemma ins_series_sorted : forall x l, StronglySorted series_le l -> StronglySorted series_le (ins_series x l).
Proof.
  induction l as [|y r IH]; simpl; intros H.
  - repeat constructor.
  - inversion H as [|? ? Hr Hy]; subst.
    destruct (labels_ltb (s_labels x) (s_labels y)) eqn:E.
    + constructor; [assumption|]. constructor; [apply labels_lt_le; assumption|].
      rewrite Forall_forall in *. intros z Hz. eapply labels_le_trans; [apply labels_lt_le; eassumption|].
      apply Hy. assumption.
    + constructor; [apply IH; assumption|].
      rewrite Forall_forall in *. intros z Hz. apply ins_series_In in Hz. destruct Hz as [Hz|Hz].
      * subst. apply labels_nlt_ge. assumption.
      * apply Hy. assumption.
Qed.

Lemma sort_series_sorted : forall l, StronglySorted series_le (sort_series l).
Proof. induction l as [|x l IH]; simpl; [constructor|]. apply ins_series_sorted. assumption. Qed.

Lemma SS_filter : forall (A : Type) (R : A -> A -> Prop) (f : A -> bool) l,
  StronglySorted R l -> StronglySorted R (filter f l).
Proof.
  induction l as [|x l IH]; simpl; intros H; [constructor|].
  inversion H as [|? ? Hl Hx]; subst. destruct (f x); [|auto].
  constructor; [auto|]. rewrite Forall_forall in *. intros z Hz. apply filter_In in Hz. apply Hx. tauto.
Qed.

Lemma SS_map : forall (A B : Type) (R : B -> B -> Prop) (g : A -> B) l,
  StronglySorted (fun a b => R (g a) (g b)) l -> StronglySorted R (map g l).
Proof.
  induction l as [|x l IH]; simpl; intros H; [constructor|].
  inversion H as [|? ? Hl Hx]; subst. constructor; [auto|].
  rewrite Forall_forall in *. intros z Hz. apply in_map_iff in Hz. destruct Hz as [y [E Hy]]. subst. auto.
Qed.

(* Select with sorting requested returns the series sorted by labels.Compare *)
Theorem select_sorted : forall st mint maxt ms l,
  select_store st mint maxt true ms = Ok l -> StronglySorted labels_le l.
Proof.
  intros st mint maxt ms l H. unfold select_store in H.
  destruct (postings_for_matchers st ms); [|discriminate]. inversion H; subst.
  apply SS_map. apply SS_filter. apply sort_series_sorted.
Qed.

(* ---------- label values / label names with matchers ---------- *)
Lemma first_common_sound : forall a b r, first_common a b = Some r -> In r a /\ In r b.
Proof.
  induction a as [|u a IHa]; intros b r.
  - destruct b; simpl; discriminate.
  - induction b as [|v b IHb].
    + simpl. discriminate.
    + simpl. destruct (u ?= v) eqn:E.
      * apply Z.compare_eq in E. subst. intros H. inversion H; subst. simpl. auto.
      * intros H. apply IHa in H. simpl in *. tauto.
      * intros H. apply IHb in H. simpl in *. tauto.
Qed.

Lemma first_common_complete : forall a b, StronglySorted Z.lt a -> StronglySorted Z.lt b ->
  forall x, In x a -> In x b -> exists r, first_common a b = Some r.
Proof.
  induction a as [|u a IHa]; intros b Ha Hb x Hxa Hxb; [destruct Hxa|].
  induction b as [|v b IHb]; [destruct Hxb|].
  apply SS_inv in Ha as Ha'. destruct Ha' as [Ha1 Ha2].
  apply SS_inv in Hb as Hb'. destruct Hb' as [Hb1 Hb2].
  rewrite Forall_forall in Ha2, Hb2.
  simpl. destruct (u ?= v) eqn:E.
  - eauto.
  - rewrite Z.compare_lt_iff in E. apply (IHa (v :: b) Ha1 Hb x); auto.
    destruct Hxa as [Hxa|Hxa]; auto. subst. exfalso.
    destruct Hxb as [Hxb|Hxb]; [lia|]. apply Hb2 in Hxb. lia.
  - rewrite Z.compare_gt_iff in E. apply IHb; auto.
    destruct Hxb as [Hxb|Hxb]; auto. subst. exfalso.
    destruct Hxa as [Hxa|Hxa]; [lia|]. apply Ha2 in Hxa. lia.
Qed.

Lemma ins_key_In : forall x y l, In x (ins_key y l) <-> x = y \/ In x l.
Proof.
  induction l as [|z l IH]; simpl; [intuition|].
  destruct (fst y <? fst z); simpl; [intuition|]. rewrite IH. intuition.
Qed.

Lemma sort_key_In : forall x l, In x (fold_right ins_key [] l) <-> In x l.
Proof.
  induction l as [|y l IH]; simpl; [tauto|]. rewrite ins_key_In, IH. intuition.
Qed.

Lemma find_intersecting_In : forall p cands v,
  In v (find_intersecting p cands) <->
  exists c, In c cands /\ fst c = v /\ exists r, first_common p (snd c) = Some r.
Proof.
  intros p cands v. unfold find_intersecting. rewrite in_map_iff. split.
  - intros [[r v'] [E H]]. simpl in E. subst v'. rewrite sort_key_In in H.
    apply in_flat_map in H. destruct H as [c [Hc H]].
    destruct (first_common p (snd c)) eqn:F; [|destruct H].
    destruct H as [H|[]]. inversion H; subst. exists c. eauto.
  - intros [c [Hc [E [r F]]]]. exists (r, v). split; [reflexivity|].
    rewrite sort_key_In. apply in_flat_map. exists c. split; auto. rewrite F. subst. left. reflexivity.
Qed.

Lemma filtered_In : forall name ms l v,
  In v (fold_left (fun vs m => if str_eqb (m_name m) name then filter (matches m) vs else vs) ms l) <->
  In v l /\ forall m, In m ms -> m_name m = name -> matches m v = true.
Proof.
  intros name. induction ms as [|m ms IH]; intros l v; simpl.
  - intuition.
  - rewrite IH. destruct (str_eqb (m_name m) name) eqn:E.
    + apply str_eqb_eq in E. rewrite filter_In. split.
      * intros [[H1 H2] H3]. split; auto. intros m' [Hm|Hm] Hn; subst; auto.
      * intros [H1 H2]. repeat split; auto.
    + split.
      * intros [H1 H2]. split; auto. intros m' [Hm|Hm] Hn; subst; auto.
        rewrite str_eqb_refl in E. discriminate.
      * intros [H1 H2]. split; auto.
Qed.

Lemma lvs_find_In : forall n t v, In v (lvs_find n t) -> exists vs, In (n, vs) t /\ In v vs.
Proof.
  induction t as [|[k vs] t IH]; simpl; intros v H; [destruct H|].
  destruct (str_eqb k n) eqn:E.
  - apply str_eqb_eq in E. subst. eauto.
  - destruct (IH v H) as [vs' [H1 H2]]. eauto.
Qed.

Lemma lvs_values_exist : forall st, store_wfb st = true -> forall n v,
  In v (label_values_raw st n) -> exists s, In s (st_series st) /\ ix_val s n = Some v.
Proof.
  intros st WF n v H. unfold label_values_raw in H. apply lvs_find_In in H.
  destruct H as [vs [H1 H2]].
  unfold store_wfb in WF.
  apply andb_prop in WF. destruct WF as [W123 _].
  apply andb_prop in W123. destruct W123 as [_ W3].
  rewrite forallb_forall in W3. specialize (W3 _ H1). simpl in W3.
  apply andb_prop in W3. destruct W3 as [_ W3].
  rewrite forallb_forall in W3. specialize (W3 _ H2).
  apply existsb_exists in W3. destruct W3 as [s [Hs W3]].
  exists s. split; auto. destruct (ix_val s n); [|discriminate].
  apply str_eqb_eq in W3. subst. reflexivity.
Qed.

Lemma truncate_0 : forall (A : Type) (l : list A), truncate 0 l = l.
Proof. intros. unfold truncate. reflexivity. Qed.

Lemma truncate_sub : forall (A : Type) n (l : list A) x, In x (truncate n l) -> In x l.
Proof.
  intros A n l x. unfold truncate. destruct ((0 <? n) && (n <? Z.of_nat (length l))); auto.
  intros H. rewrite <- (firstn_skipn (Z.to_nat n) l). apply in_or_app. auto.
Qed.

Section LabelQueries.
Variable st : store.
Hypothesis WF : store_wfb st = true.
Variable ms : list matcher.
Hypothesis Hnn : ms <> [].
Hypothesis Hne : forall m, In m ms -> m_name m <> [].
Hypothesis Hoc : forall m, In m ms -> oracle_consistent st m.
Variable name : str.
Hypothesis Hname : name <> [].

(* the specification: values of [name] on stored series satisfying every matcher *)
Definition value_of_matching (v : str) : Prop :=
  exists s, In s (st_series st) /\ lfind name (s_labels s) = Some v /\ series_matches ms s.

Let F := fold_left (fun vs m => if str_eqb (m_name m) name then filter (matches m) vs else vs)
                   ms (label_values_raw st name).

Lemma spec_in_F : forall v, value_of_matching v -> In v F.
Proof.
  intros v [s [Hs [Hv Hm]]]. unfold F. apply filtered_In. split.
  - eapply val_in_lvs; eauto. rewrite ix_val_ne by assumption. assumption.
  - intros m Hm' Hn. specialize (Hm m Hm'). rewrite Hn in Hm. unfold lget in Hm. rewrite Hv in Hm. assumption.
Qed.

(* labelValuesWithMatchers without a limit returns exactly the values of matching series;
   with a limit it returns some of them *)
Theorem lvwm_exact : forall limit,
  exists vs, label_values_with_matchers st name limit ms = Ok vs /\
    (forall v, In v vs -> value_of_matching v) /\
    (limit = 0 -> forall v, value_of_matching v -> In v vs).
Proof.
  intros limit. unfold label_values_with_matchers. fold F.
  destruct (is_nil F) eqn:EF.
  { exists []. split; [reflexivity|]. split; [intros v []|].
    intros _ v Hv. apply spec_in_F in Hv. destruct F; [assumption|discriminate]. }
  destruct (existsb (fun m => negb (str_eqb (m_name m) name)) ms) eqn:EO; simpl.
  - (* matchers on other labels: intersect with PostingsForMatchers *)
    destruct (pfm_exact st ms WF Hnn Hne Hoc) as [p [E [PS [_ PM]]]]. rewrite E.
    set (cands := map (fun v => (v, ix_postings st name [v])) F).
    assert (SPEC : forall v, In v (find_intersecting p cands) <-> value_of_matching v).
    { intros v. rewrite find_intersecting_In. split.
      - intros [c [Hc [Ec [r Hr]]]]. unfold cands in Hc. apply in_map_iff in Hc.
        destruct Hc as [v' [Ev Hv']]. subst c. simpl in *. subst v'.
        apply first_common_sound in Hr. destruct Hr as [R1 R2].
        pose proof (sem_ix_postings st WF name [v]) as [_ [S2 S3]].
        destruct (S2 r R2) as [s [Hs Er]]. subst r.
        exists s. split; auto. split; [|apply PM; auto].
        apply S3 in R2; auto. unfold has_val in R2. rewrite ix_val_ne in R2 by assumption.
        destruct (lfind name (s_labels s)); [|discriminate].
        simpl in R2. rewrite orb_false_r in R2. apply str_eqb_eq in R2. subst. reflexivity.
      - intros Hv. pose proof (spec_in_F v Hv) as HF. destruct Hv as [s [Hs [Hv Hm]]].
        exists (v, ix_postings st name [v]). split; [unfold cands; apply in_map_iff; eauto|].
        split; [reflexivity|]. simpl.
        pose proof (sem_ix_postings st WF name [v]) as [S1 [_ S3]].
        apply (first_common_complete p _ PS S1 (s_ref s)).
        + apply PM; auto.
        + apply S3; auto. unfold has_val. rewrite ix_val_ne by assumption. rewrite Hv.
          simpl. rewrite str_eqb_refl. reflexivity. }
    eexists. split; [reflexivity|]. split.
    + intros v Hv. apply SPEC. destruct (0 <? limit); auto.
      rewrite <- (firstn_skipn (Z.to_nat limit) (find_intersecting p cands)). apply in_or_app. auto.
    + intros El v Hv. subst limit. simpl. apply SPEC. assumption.
  - (* only matchers on [name]: the filtered value table *)
    assert (ALL : forall m, In m ms -> m_name m = name).
    { intros m Hm. destruct (str_eqb (m_name m) name) eqn:E; [apply str_eqb_eq; assumption|].
      assert (existsb (fun m0 => negb (str_eqb (m_name m0) name)) ms = true).
      { apply existsb_exists. exists m. rewrite E. auto. }
      congruence. }
    assert (SPEC : forall v, In v F -> value_of_matching v).
    { intros v Hv. unfold F in Hv. apply filtered_In in Hv. destruct Hv as [H1 H2].
      destruct (lvs_values_exist st WF name v H1) as [s [Hs Hv]].
      rewrite ix_val_ne in Hv by assumption.
      exists s. split; auto. split; auto.
      intros m Hm. rewrite (ALL m Hm). unfold lget. rewrite Hv. apply H2; auto. }
    eexists. split; [reflexivity|]. split.
    + intros v Hv. apply SPEC. eapply truncate_sub; eauto.
    + intros El v Hv. subst limit. rewrite truncate_0. apply spec_in_F. assumption.
Qed.

(* labelNamesWithMatchers: exactly the label names of matching series *)
Lemma ins_str_u_In : forall x y l, In x (ins_str_u y l) <-> x = y \/ In x l.
Proof.
  induction l as [|z l IH]; simpl; [intuition|].
  destruct (str_cmp z y) eqn:E; simpl.
  - apply str_cmp_eq in E. subst. intuition.
  - rewrite IH. intuition.
  - intuition.
Qed.

Lemma sort_dedup_In : forall x l, In x (sort_dedup_str l) <-> In x l.
Proof.
  induction l as [|y l IH]; simpl; [tauto|]. rewrite ins_str_u_In, IH. intuition.
Qed.

Theorem lnwm_exact :
  exists p, postings_for_matchers st ms = Ok p /\
    forall n, In n (names_of (lookup_all st p)) <->
      exists s, In s (st_series st) /\ series_matches ms s /\ In n (map fst (s_labels s)).
Proof.
  destruct (pfm_exact st ms WF Hnn Hne Hoc) as [p [E [_ [_ PM]]]].
  exists p. split; [assumption|]. intros n. unfold names_of. rewrite sort_dedup_In, in_flat_map.
  split.
  - intros [s [Hs Hn]]. apply (lookup_all_In st WF) in Hs. destruct Hs as [H1 H2].
    exists s. repeat split; auto. apply PM; auto.
  - intros [s [H1 [H2 H3]]]. exists s. split; auto. apply (lookup_all_In st WF). split; auto. apply PM; auto.
Qed.

End LabelQueries.

(* ---------- merging the per-store answers (mergeResults / mergeStrings / truncateToLimit) ---------- *)
Lemma merge_str_In : forall a b x, In x (merge_str a b) <-> In x a \/ In x b.
Proof.
  induction a as [|u a IHa]; intros b x.
  - destruct b; simpl; tauto.
  - induction b as [|v b IHb].
    + simpl. tauto.
    + simpl. destruct (str_cmp u v) eqn:E.
      * apply str_cmp_eq in E. subst. simpl. rewrite IHa. tauto.
      * simpl. rewrite IHa. simpl. tauto.
      * simpl. simpl in IHb. rewrite IHb. tauto.
Qed.

Lemma truncate_len : forall (A : Type) n (l : list A), 0 < n -> Z.of_nat (length (truncate n l)) <= n.
Proof.
  intros A n l Hn. unfold truncate.
  destruct ((0 <? n) && (n <? Z.of_nat (length l))) eqn:E.
  - rewrite firstn_length. lia.
  - apply andb_false_iff in E. destruct E as [E|E].
    + apply Z.ltb_ge in E. lia.
    + apply Z.ltb_ge in E. lia.
Qed.

Lemma truncate_nonpos : forall (A : Type) n (l : list A), n <= 0 -> truncate n l = l.
Proof.
  intros A n l Hn. unfold truncate. assert (0 <? n = false) as -> by (apply Z.ltb_ge; lia). reflexivity.
Qed.

Lemma half_lt : forall n, (2 <= n)%nat -> (Nat.div n 2 < n)%nat /\ (0 < Nat.div n 2)%nat.
Proof.
  intros n H. split.
  - apply Nat.div_lt; lia.
  - apply Nat.div_str_pos. lia.
Qed.

Lemma merge_results_props : forall fuel limit rs, (length rs < fuel)%nat ->
  exists r, merge_results fuel limit rs = Some r /\
    (forall x, In x r -> exists l, In l rs /\ In x l) /\
    (limit <= 0 -> forall l x, In l rs -> In x l -> In x r) /\
    (0 < limit -> (forall l, In l rs -> Z.of_nat (length l) <= limit) -> Z.of_nat (length r) <= limit).
Proof.
  induction fuel as [|f IH]; intros limit rs Hf; [lia|].
  destruct rs as [|r1 [|r2 rest]].
  - simpl. exists []. split; [reflexivity|]. split; [intros x []|]. split; [intros _ l x []|]. simpl. lia.
  - simpl. exists r1. split; [reflexivity|]. split; [intros x Hx; exists r1; simpl; auto|].
    split; [intros _ l x [H|[]] Hx; subst; assumption|]. intros _ H. apply H. left. reflexivity.
  - set (rs := r1 :: r2 :: rest) in *.
    assert (L2 : (2 <= length rs)%nat) by (simpl; lia).
    destruct (half_lt (length rs) L2) as [D1 D2].
    set (i := Nat.div (length rs) 2) in *.
    assert (La : (length (firstn i rs) < f)%nat) by (rewrite firstn_length; lia).
    assert (Lb : (length (skipn i rs) < f)%nat) by (rewrite skipn_length; lia).
    destruct (IH limit (firstn i rs) La) as [s1 [E1 [A1 [B1 C1]]]].
    destruct (IH limit (skipn i rs) Lb) as [s2 [E2 [A2 [B2 C2]]]].
    change (merge_results (S f) limit rs) with
      (match merge_results f limit (firstn i rs), merge_results f limit (skipn i rs) with
       | Some s1, Some s2 => Some (truncate limit (merge_str (truncate limit s1) (truncate limit s2)))
       | _, _ => None end).
    rewrite E1, E2. eexists. split; [reflexivity|].
    assert (SPLIT : forall l, In l rs <-> In l (firstn i rs) \/ In l (skipn i rs)).
    { intros l. rewrite <- (firstn_skipn i rs) at 1. apply in_app_iff. }
    split; [|split].
    + intros x Hx. apply truncate_sub in Hx. apply merge_str_In in Hx.
      destruct Hx as [Hx|Hx]; apply truncate_sub in Hx.
      * destruct (A1 x Hx) as [l [Hl Hxl]]. exists l. split; auto. apply SPLIT. auto.
      * destruct (A2 x Hx) as [l [Hl Hxl]]. exists l. split; auto. apply SPLIT. auto.
    + intros Hl l x Hin Hx. rewrite !truncate_nonpos by assumption. apply merge_str_In.
      apply SPLIT in Hin. destruct Hin as [Hin|Hin]; [left; eapply B1|right; eapply B2]; eauto.
    + intros Hl _. apply truncate_len. assumption.
Qed.

(* ---------- FINDING: matchers on the empty label name ---------- *)
(* The index keeps the pseudo pair ""="" (allPostingsKey) on every series.  A matcher whose
   label name is "" therefore sees the value "" as *present*: {""=~".+"} takes the
   PostingsForAllLabelValues("") shortcut and selects every series, although the absent label
   "" has the value "" which ".+" does not match; {""!=""} takes the all-postings shortcut
   (which looks only at name and value, not at the type) and selects every series, although
   "" != "" is false.  Both selectors are accepted by the PromQL parser. *)
Definition bad_m_plus : matcher := mkM MRe [] dot_plus [([], false)] [].
Definition bad_m_ne : matcher := mkM MNe [] [] [] [].

Lemma empty_name_refuted :
  exists st ms p s,
    store_wfb st = true /\ ms <> [] /\
    (forall m, In m ms -> oracle_consistent st m) /\
    postings_for_matchers st ms = Ok p /\
    In s (st_series st) /\ In (s_ref s) p /\ ~ series_matches ms s.
Proof.
  exists ex_st, [bad_m_plus], [1; 2; 3], (mkS 1 [(ex_a, ex_x); (ex_b, ex_1)] [(10, 20)]).
  split; [reflexivity|]. split; [discriminate|]. split.
  { intros m [H|[]]; subst. constructor; simpl; try discriminate; try congruence.
    intros _ _ w [H|H]; [subst; reflexivity|]. simpl in H. destruct H as [H|[]]. subst. reflexivity. }
  split; [reflexivity|]. split; [simpl; auto|]. split; [simpl; auto|].
  intros H. specialize (H bad_m_plus (or_introl eq_refl)). discriminate.
Qed.

Lemma empty_name_ne_refuted :
  exists st ms p s,
    store_wfb st = true /\ ms <> [] /\
    (forall m, In m ms -> oracle_consistent st m) /\
    postings_for_matchers st ms = Ok p /\
    In s (st_series st) /\ In (s_ref s) p /\ ~ series_matches ms s.
Proof.
  exists ex_st, [bad_m_ne], [1; 2; 3], (mkS 1 [(ex_a, ex_x); (ex_b, ex_1)] [(10, 20)]).
  split; [reflexivity|]. split; [discriminate|]. split.
  { intros m [H|[]]; subst. constructor; simpl; discriminate. }
  split; [reflexivity|]. split; [simpl; auto|]. split; [simpl; auto|].
  intros H. specialize (H bad_m_ne (or_introl eq_refl)). discriminate.
Qed.

(* {""="", a="x"}: the all-postings key inside a longer list is an error, not a selection *)
Lemma all_key_in_list_refuted :
  exists st ms, store_wfb st = true /\ (forall m, In m ms -> oracle_consistent st m) /\
    postings_for_matchers st ms = Err /\
    exists s, In s (st_series st) /\ series_matches ms s.
Proof.
  exists ex_st, [mkM MEq [] [] [] []; mkM MEq ex_a ex_x [] []].
  split; [reflexivity|]. split.
  { intros m [H|[H|[]]]; subst; constructor; simpl; discriminate. }
  split; [reflexivity|].
  exists (mkS 1 [(ex_a, ex_x); (ex_b, ex_1)] [(10, 20)]). split; [simpl; auto|].
  intros m [H|[H|[]]]; subst; reflexivity.
Qed.

(* proof/TsdbProofs.v — proofs about model/TsdbSpec.v and model/Tsdb.v (property C01). *)
From Coq Require Import List ZArith Bool Lia Permutation.
From Verif Require Import lib.Int64 model.TsdbSpec model.Tsdb.
Import ListNotations.
Open Scope Z_scope.

(* ------------------------------------------------------------------ *)
(** * Small tactics and generic lemmas *)

Ltac b2p :=
  repeat match goal with
  | H : _ && _ = true |- _ => apply andb_true_iff in H; destruct H
  | H : _ || _ = false |- _ => apply orb_false_iff in H; destruct H
  | H : negb _ = true |- _ => apply negb_true_iff in H
  | H : negb _ = false |- _ => apply negb_false_iff in H
  | H : (_ <=? _) = true |- _ => apply Z.leb_le in H
  | H : (_ <=? _) = false |- _ => apply Z.leb_gt in H
  | H : (_ <? _) = true |- _ => apply Z.ltb_lt in H
  | H : (_ <? _) = false |- _ => apply Z.ltb_ge in H
  | H : (_ =? _) = true |- _ => apply Z.eqb_eq in H
  | H : (_ =? _) = false |- _ => apply Z.eqb_neq in H
  | H : (_ >=? _) = true |- _ => rewrite Z.geb_leb in H; apply Z.leb_le in H
  | H : (_ >=? _) = false |- _ => rewrite Z.geb_leb in H; apply Z.leb_gt in H
  | H : (_ >? _) = true |- _ => rewrite Z.gtb_ltb in H; apply Z.ltb_lt in H
  | H : (_ >? _) = false |- _ => rewrite Z.gtb_ltb in H; apply Z.ltb_ge in H
  end.

Lemma in_rng_iff mint maxt t : in_rng mint maxt t = true <-> mint <= t <= maxt.
Proof. unfold in_rng. rewrite andb_true_iff, !Z.leb_le. tauto. Qed.

Lemma memZ_iff x l : memZ x l = true <-> In x l.
Proof.
  unfold memZ. rewrite existsb_exists. split.
  - intros [y [Hy He]]. apply Z.eqb_eq in He. subst. exact Hy.
  - intros H. exists x. split; [exact H | apply Z.eqb_refl].
Qed.

Lemma covered_iff ivs t :
  covered ivs t = true <-> exists iv, In iv ivs /\ fst iv <= t <= snd iv.
Proof.
  unfold covered. rewrite existsb_exists. split; intros [iv [Hi Hc]]; exists iv; split; auto.
  - apply andb_true_iff in Hc. destruct Hc as [A B]. apply Z.leb_le in A, B. lia.
  - apply andb_true_iff. rewrite !Z.leb_le. lia.
Qed.

Lemma covered_false_iff ivs t :
  covered ivs t = false <-> forall iv, In iv ivs -> ~ (fst iv <= t <= snd iv).
Proof.
  split.
  - intros H iv Hi Hc. assert (covered ivs t = true) by (apply covered_iff; eauto). congruence.
  - intros H. destruct (covered ivs t) eqn:E; auto. apply covered_iff in E.
    destruct E as [iv [Hi Hc]]. exfalso. eapply H; eauto.
Qed.

Lemma covered_app a b t : covered (a ++ b) t = covered a t || covered b t.
Proof. unfold covered. apply existsb_app. Qed.

Lemma filter_filter {A} (f g : A -> bool) l :
  filter f (filter g l) = filter (fun x => g x && f x) l.
Proof.
  induction l as [|a l IH]; simpl; auto.
  destruct (g a) eqn:G; simpl; [destruct (f a); simpl; congruence | auto].
Qed.

Lemma filter_flat_map {A B} (f : B -> bool) (g : A -> list B) l :
  filter f (flat_map g l) = flat_map (fun a => filter f (g a)) l.
Proof. induction l as [|a l IH]; simpl; auto. rewrite filter_app, IH. reflexivity. Qed.

Lemma filter_nil_iff {A} (f : A -> bool) l : filter f l = [] <-> forall x, In x l -> f x = false.
Proof.
  induction l as [|a l IH]; simpl; [tauto|].
  destruct (f a) eqn:E.
  - split; [discriminate | intros H; specialize (H a (or_introl eq_refl)); congruence].
  - rewrite IH. split; intros H x; [intros [<-|Hx]; auto | intros Hx; apply H; auto].
Qed.

Lemma flat_map_ext_in {A B} (f g : A -> list B) l :
  (forall a, In a l -> f a = g a) -> flat_map f l = flat_map g l.
Proof.
  induction l as [|a l IH]; simpl; intros H; auto.
  rewrite H by auto. rewrite IH; auto.
Qed.

(* ------------------------------------------------------------------ *)
(** * The flat specification *)

Definition sequiv (a b : sstate) : Prop := forall i x, In x (a i) <-> In x (b i).

Lemma sequiv_refl a : sequiv a a.
Proof. intros i x; tauto. Qed.
Lemma sequiv_trans a b c : sequiv a b -> sequiv b c -> sequiv a c.
Proof. intros H1 H2 i x. rewrite (H1 i x). apply H2. Qed.
Lemma sequiv_sym a b : sequiv a b -> sequiv b a.
Proof. intros H i x. symmetry. apply H. Qed.

Lemma in_ack sp l i x :
  In x (fold_left ack1 l sp i) <-> In x (sp i) \/ In (i, x) l.
Proof.
  revert sp. induction l as [|[j y] l IH]; intros sp; simpl; [tauto|].
  rewrite IH. unfold ack1; simpl.
  destruct (i =? j) eqn:E.
  - apply Z.eqb_eq in E. subst. rewrite in_app_iff. simpl. split.
    + intros [[H|[H|[]]]|H]; auto. subst. auto.
    + intros [H|[H|H]]; auto. inversion H; subst. left; right; left; reflexivity.
  - apply Z.eqb_neq in E. split.
    + intros [H|H]; auto.
    + intros [H|[H|H]]; auto. inversion H; subst. congruence.
Qed.

Lemma in_sdelete sp mint maxt sel i x :
  In x (spec_step sp (SDelete mint maxt sel) i) <->
  In x (sp i) /\ ~ (In i sel /\ mint <= st x <= maxt).
Proof.
  simpl. destruct (memZ i sel) eqn:E.
  - apply memZ_iff in E. rewrite filter_In, negb_true_iff.
    split; intros [H1 H2]; split; auto.
    + intros [_ H3]. apply in_rng_iff in H3. congruence.
    + destruct (in_rng mint maxt (st x)) eqn:R; auto. apply in_rng_iff in R. tauto.
  - split; [intros H; split; auto; intros [H1 _]; apply memZ_iff in H1; congruence | tauto].
Qed.

Lemma spec_step_equiv a b o : sequiv a b -> sequiv (spec_step a o) (spec_step b o).
Proof.
  intros H i x. destruct o as [l|mint maxt sel|].
  - simpl. rewrite !in_ack, (H i x). tauto.
  - rewrite !in_sdelete, (H i x). tauto.
  - apply H.
Qed.

(** sort_uniq: strictly increasing, same elements; two strictly increasing lists with the same
    elements are equal *)
Inductive sincr : list Z -> Prop :=
| sincr_nil : sincr []
| sincr_one t : sincr [t]
| sincr_cons t u r : t < u -> sincr (u :: r) -> sincr (t :: u :: r).

Lemma in_ins t u l : In u (ins t l) <-> u = t \/ In u l.
Proof.
  induction l as [|a l IH]; simpl; [intuition|].
  destruct (t <? a) eqn:E1; simpl; [intuition|].
  destruct (t =? a) eqn:E2; simpl.
  - apply Z.eqb_eq in E2. subst. intuition.
  - rewrite IH. intuition.
Qed.

Lemma sincr_lb t l : sincr (t :: l) -> forall u, In u l -> t < u.
Proof.
  revert t. induction l as [|a l IH]; intros t H u Hu; [inversion Hu|].
  inversion H; subst. destruct Hu as [<-|Hu]; auto.
  specialize (IH a H4 u Hu). lia.
Qed.

Lemma sincr_ins t l : sincr l -> sincr (ins t l).
Proof.
  induction 1 as [|a|a b r Hab Hr IH]; simpl.
  - constructor.
  - destruct (t <? a) eqn:E1; [b2p; constructor; [lia|constructor]|].
    destruct (t =? a) eqn:E2; [constructor|]. b2p. constructor; [lia|constructor].
  - destruct (t <? a) eqn:E1; [b2p; constructor; [lia|constructor; auto]|].
    destruct (t =? a) eqn:E2; [constructor; auto|].
    simpl in IH. b2p.
    destruct (t <? b) eqn:E3; [b2p; constructor; [lia|constructor; [lia|auto]]|].
    destruct (t =? b) eqn:E4; [constructor; auto|].
    constructor; auto.
Qed.

Lemma sincr_sort_uniq l : sincr (sort_uniq l).
Proof. induction l; simpl; [constructor | apply sincr_ins; auto]. Qed.

Lemma in_sort_uniq t l : In t (sort_uniq l) <-> In t l.
Proof. induction l as [|a l IH]; simpl; [tauto|]. rewrite in_ins, IH. intuition. Qed.

Lemma sincr_tail t l : sincr (t :: l) -> sincr l.
Proof. inversion 1; subst; auto; constructor. Qed.

Lemma sincr_unique l1 : forall l2, sincr l1 -> sincr l2 -> (forall t, In t l1 <-> In t l2) -> l1 = l2.
Proof.
  induction l1 as [|a l1 IH]; intros l2 H1 H2 He.
  - destruct l2 as [|b l2]; auto. exfalso. apply (He b). left; auto.
  - destruct l2 as [|b l2]; [exfalso; apply (He a); left; auto|].
    assert (a = b).
    { pose proof (sincr_lb _ _ H1) as L1. pose proof (sincr_lb _ _ H2) as L2.
      destruct (proj1 (He a) (or_introl eq_refl)) as [E|E]; auto.
      destruct (proj2 (He b) (or_introl eq_refl)) as [E'|E']; auto.
      specialize (L1 _ E'). specialize (L2 _ E). lia. }
    subst b. f_equal. apply IH; eauto using sincr_tail.
    intros t. pose proof (sincr_lb _ _ H1) as L1. pose proof (sincr_lb _ _ H2) as L2.
    split; intros Ht.
    + destruct (proj1 (He t) (or_intror Ht)) as [E|E]; auto. subst. specialize (L1 _ Ht). lia.
    + destruct (proj2 (He t) (or_intror Ht)) as [E|E]; auto. subst. specialize (L2 _ Ht). lia.
Qed.

Lemma sort_uniq_ext l1 l2 : (forall t, In t l1 <-> In t l2) -> sort_uniq l1 = sort_uniq l2.
Proof.
  intros H. apply sincr_unique; auto using sincr_sort_uniq.
  intros t. rewrite !in_sort_uniq. apply H.
Qed.

(** equivalence of answers: same series, same timestamps, the same SET of candidate values *)
Definition pts_equiv (a b : list (Z * list Z)) : Prop :=
  Forall2 (fun p q => fst p = fst q /\ forall v, In v (snd p) <-> In v (snd q)) a b.
Definition answer_equiv (a b : answer) : Prop :=
  Forall2 (fun p q => fst p = fst q /\ pts_equiv (snd p) (snd q)) a b.

Lemma in_vals_at l t v : In v (vals_at l t) <-> In (mkS t v) l.
Proof.
  unfold vals_at. rewrite in_map_iff. split.
  - intros [[t' v'] [E H]]. simpl in E. subst. apply filter_In in H. destruct H as [H1 H2].
    simpl in H2. b2p. subst. exact H1.
  - intros H. exists (mkS t v). split; auto. apply filter_In. split; auto. simpl. apply Z.eqb_refl.
Qed.

Lemma series_answer_equiv l1 l2 :
  (forall x, In x l1 <-> In x l2) -> pts_equiv (series_answer l1) (series_answer l2).
Proof.
  intros H. unfold series_answer.
  assert (E : sort_uniq (map st l1) = sort_uniq (map st l2)).
  { apply sort_uniq_ext. intros t. rewrite !in_map_iff.
    split; intros [x [Hx Hi]]; exists x; split; auto; apply H; auto. }
  rewrite E. clear E. unfold pts_equiv. generalize (sort_uniq (map st l2)) as ts.
  induction ts as [|t r IH]; simpl; constructor.
  - simpl. split; [reflexivity|]. intros v. rewrite !in_vals_at. apply H.
  - exact IH.
Qed.

Lemma query_of_equiv (a b : sid -> list sample) mint maxt sel :
  (forall i x, In x (a i) <-> In x (b i)) ->
  answer_equiv (query_of a mint maxt sel) (query_of b mint maxt sel).
Proof.
  intros H. unfold query_of, answer_equiv. induction sel as [|i sel IH]; simpl; [constructor|].
  assert (E : forall x, In x (filter (fun x => in_rng mint maxt (st x)) (a i)) <->
                        In x (filter (fun x => in_rng mint maxt (st x)) (b i))).
  { intros x. rewrite !filter_In, (H i x). tauto. }
  destruct (filter (fun x => in_rng mint maxt (st x)) (a i)) as [|x1 l1] eqn:E1;
  destruct (filter (fun x => in_rng mint maxt (st x)) (b i)) as [|x2 l2] eqn:E2; simpl; auto.
  - exfalso. apply (E x2). left; auto.
  - exfalso. apply (E x1). left; auto.
  - constructor; auto. simpl. split; auto. apply series_answer_equiv. exact E.
Qed.

(** what the specification's answer means *)
Lemma spec_query_exact sp mint maxt sel i pts :
  In (i, pts) (spec_query sp mint maxt sel) ->
  In i sel /\ sincr (map fst pts) /\ pts <> [] /\
  (forall t vs, In (t, vs) pts -> mint <= t <= maxt /\ vs <> [] /\ forall v, In v vs <-> In (mkS t v) (sp i)) /\
  (forall x, In x (sp i) -> mint <= st x <= maxt -> exists vs, In (st x, vs) pts).
Proof.
  unfold spec_query, query_of. rewrite in_flat_map. intros [j [Hj Hin]].
  set (l := filter (fun x => in_rng mint maxt (st x)) (sp j)) in *.
  destruct l as [|x0 l0] eqn:El; [inversion Hin|].
  destruct Hin as [Hin|[]]. inversion Hin; subst i pts. clear Hin.
  assert (Hl : forall x, In x (x0 :: l0) <-> In x (sp j) /\ mint <= st x <= maxt).
  { intros x. rewrite <- El. unfold l. rewrite filter_In, in_rng_iff. tauto. }
  clear El.
  split; auto. unfold series_answer. rewrite map_map. cbn [fst]. rewrite map_id.
  remember (x0 :: l0) as L eqn:EL.
  split; [apply sincr_sort_uniq|]. split.
  { intros E. apply map_eq_nil in E. assert (HI : In (st x0) (sort_uniq (map st L))).
    { apply in_sort_uniq, in_map. subst L. left; auto. } rewrite E in HI. inversion HI. }
  split.
  - intros t vs Hp. apply in_map_iff in Hp. destruct Hp as [t' [E Ht]]. inversion E; subst t' vs.
    apply in_sort_uniq, in_map_iff in Ht. destruct Ht as [x [Hx Hi]]. subst t.
    pose proof (proj1 (Hl x) Hi) as [Hs Hr]. split; auto. split.
    + intros E'. assert (HI : In (sv x) (vals_at L (st x))).
      { apply in_vals_at. destruct x; exact Hi. } rewrite E' in HI. inversion HI.
    + intros v. rewrite in_vals_at, Hl. simpl. tauto.
  - intros x Hx Hr. exists (vals_at L (st x)). apply in_map_iff. exists (st x). split; auto.
    apply in_sort_uniq, in_map_iff. exists x. split; auto. apply Hl. auto.
Qed.

(** an observed answer accepted against one answer is accepted against an equivalent one *)
Lemma pts_ok_equiv obs a b : pts_equiv a b -> pts_ok obs a = true -> pts_ok obs b = true.
Proof.
  intros H. revert obs. induction H as [|p q a b [Hf Hv] Hr IH]; intros obs; destruct obs as [|[t v] o]; simpl; auto.
  destruct p as [t1 vs1], q as [t2 vs2]. simpl in *. subst t2.
  intros Hok. b2p. apply andb_true_iff; split; [apply andb_true_iff; split|].
  - apply Z.eqb_eq; auto.
  - apply memZ_iff, Hv, memZ_iff; auto.
  - apply IH; auto.
Qed.

Lemma answer_ok_equiv obs a b : answer_equiv a b -> answer_ok obs a = true -> answer_ok obs b = true.
Proof.
  intros H. revert obs. induction H as [|p q a b [Hf Hv] Hr IH]; intros obs; destruct obs as [|[i o] obs]; simpl; auto.
  destruct p as [i1 p1], q as [i2 p2]. simpl in *. subst i2.
  intros Hok. b2p. apply andb_true_iff; split; [apply andb_true_iff; split|].
  - apply Z.eqb_eq; auto.
  - eapply pts_ok_equiv; eauto.
  - apply IH; auto.
Qed.

(* ------------------------------------------------------------------ *)
(** * The structured model: visibility, invariant *)

Definition in_chunks (cs : list chunk) (y : sample) : Prop := exists c, In c cs /\ In y (c_samples c).

Lemma in_io m y : In y (io_samples m) <-> in_chunks (ms_chunks m) y.
Proof.
  unfold io_samples, in_chunks. rewrite in_flat_map. split; intros [c [H1 H2]]; exists c; split; auto.
  - apply in_rev; auto.
  - apply in_rev in H1; auto.
Qed.

Definition vis_io (h : head) (i : sid) (y : sample) : Prop :=
  in_chunks (ms_chunks (h_series h i)) y /\ h_minT h <= st y /\ covered (h_tomb h i) (st y) = false.
Definition vis_ooo (h : head) (i : sid) (y : sample) : Prop :=
  In y (ms_ooo (h_series h i)) /\ covered (h_tomb h i) (st y) = false.
Definition vis_blk (b : block) (i : sid) (y : sample) : Prop :=
  In y (b_data b i) /\ covered (b_tomb b i) (st y) = false.
Definition vis_blocks (bs : list block) (i : sid) (y : sample) : Prop :=
  exists b, In b bs /\ vis_blk b i y.

Lemma in_block_cands b i y : In y (block_cands b i) <-> vis_blk b i y.
Proof. unfold block_cands, vis_blk. rewrite filter_In, negb_true_iff. tauto. Qed.

Lemma in_head_cands h i y :
  In y (head_cands h (h_minT h) i) <-> vis_io h i y \/ vis_ooo h i y.
Proof.
  unfold head_cands, vis_io, vis_ooo. rewrite in_app_iff, !filter_In, in_io.
  rewrite Z.max_id. rewrite andb_true_iff, Z.leb_le, !negb_true_iff. tauto.
Qed.

Lemma in_abs s i y :
  In y (abs s i) <-> vis_io (s_head s) i y \/ vis_ooo (s_head s) i y \/ vis_blocks (s_blocks s) i y.
Proof.
  unfold abs. rewrite in_app_iff, in_head_cands, in_flat_map. unfold vis_blocks.
  split.
  - intros [[H|H]|[b [Hb Hy]]]; auto. right; right. exists b. split; auto. apply in_block_cands; auto.
  - intros [H|[H|[b [Hb Hy]]]]; auto. right. exists b. split; auto. apply in_block_cands; auto.
Qed.

(** chunks of one series, newest first *)
Fixpoint chunks_ok (cs : list chunk) : Prop :=
  match cs with
  | [] => True
  | c :: r => minInt64 < c_min c /\ c_min c <= c_max c /\ c_max c < maxInt64 /\
              (forall y, In y (c_samples c) -> c_min c <= st y <= c_max c) /\
              match r with [] => True | c' :: _ => c_max c' < c_min c end /\
              chunks_ok r
  end.

Lemma chunks_ok_span cs : chunks_ok cs -> cs <> [] ->
  minInt64 < oldest_min cs /\ oldest_min cs <= newest_max cs.
Proof.
  induction cs as [|c r IH]; intros Hok Hne; [congruence|].
  destruct Hok as (Hm & Hle & Hmx & Hs & Hord & Hr).
  destruct r as [|c' r']; [simpl; lia|].
  change (oldest_min (c :: c' :: r')) with (oldest_min (c' :: r')).
  destruct (IH Hr ltac:(discriminate)) as [A B]. cbn [newest_max] in *. lia.
Qed.

Lemma chunks_ok_bounds cs : chunks_ok cs -> forall y, in_chunks cs y ->
  oldest_min cs <= st y <= newest_max cs /\ minInt64 < oldest_min cs.
Proof.
  induction cs as [|c r IH]; intros Hok y [c0 [Hc Hy]]; [inversion Hc|].
  pose proof (chunks_ok_span _ Hok ltac:(discriminate)) as [S1 S2]. split; auto.
  destruct Hok as (Hm & Hle & Hmx & Hs & Hord & Hr).
  destruct r as [|c' r'].
  - destruct Hc as [<-|[]]. simpl. specialize (Hs y Hy). lia.
  - change (oldest_min (c :: c' :: r')) with (oldest_min (c' :: r')) in *. cbn [newest_max] in *.
    pose proof (chunks_ok_span _ Hr ltac:(discriminate)) as [T1 T2]. cbn [newest_max] in T2.
    destruct Hc as [<-|Hc].
    + specialize (Hs y Hy). lia.
    + assert (Hz : in_chunks (c' :: r') y) by (exists c0; auto).
      destruct (IH Hr y Hz) as [[B1 B2] _]. cbn [newest_max] in B2. lia.
Qed.

Lemma chunks_ok_lt_max cs : chunks_ok cs -> forall y, in_chunks cs y -> st y < maxInt64.
Proof.
  induction cs as [|c r IH]; intros Hok y [c0 [Hc Hy]]; [inversion Hc|].
  destruct Hok as (Hm & Hle & Hmx & Hs & Hord & Hr).
  destruct Hc as [<-|Hc]; [specialize (Hs y Hy); lia | apply IH; auto; exists c0; auto].
Qed.

Record head_inv (c : cfg) (h : head) : Prop := mkHI {
  hi_dead : forall i y, in_chunks (ms_chunks (h_series h i)) y -> st y < h_minT h -> st y < h_minValid h;
  hi_ooo : forall i y, In y (ms_ooo (h_series h i)) -> covered (h_tomb h i) (st y) = false;
  hi_chunks : forall i, chunks_ok (ms_chunks (h_series h i));
  hi_univ : forall i, ~ In i (universe c) -> ms_chunks (h_series h i) = [] /\ ms_ooo (h_series h i) = [];
  hi_max : forall i y, in_chunks (ms_chunks (h_series h i)) y -> st y <= h_maxT h
}.
Record blocks_inv (c : cfg) (bs : list block) : Prop := mkBI {
  bi_range : forall b i y, In b bs -> In y (b_data b i) -> b_mint b <= st y < b_maxt b;
  bi_univ : forall b i, In b bs -> ~ In i (universe c) -> b_data b i = []
}.
Definition inv (c : cfg) (s : state) : Prop := head_inv c (s_head s) /\ blocks_inv c (s_blocks s).

Definition hvis (h : head) (i : sid) (y : sample) : Prop := vis_io h i y \/ vis_ooo h i y.

(** ** keep_new (memSeries.truncateChunksBefore) *)
Lemma keep_new_sub cs R c : In c (keep_new cs R) -> In c cs.
Proof.
  induction cs as [|a r IH]; simpl; auto. destruct (c_max a <? R); simpl; [tauto|].
  intros [H|H]; auto.
Qed.

Lemma keep_new_head cs R : match keep_new cs R with [] => True | c :: _ => exists r, cs = c :: r end.
Proof. destruct cs as [|a r]; simpl; auto. destruct (c_max a <? R); simpl; eauto. Qed.

Lemma keep_new_ok cs R : chunks_ok cs -> chunks_ok (keep_new cs R).
Proof.
  induction cs as [|a r IH]; simpl; auto. intros (Hm & Hle & Hmx & Hs & Hord & Hr).
  destruct (c_max a <? R); [exact I|].
  pose proof (keep_new_head r R) as Hh. cbn [chunks_ok].
  split; [exact Hm|]. split; [exact Hle|]. split; [exact Hmx|]. split; [exact Hs|].
  split; [|apply IH; exact Hr].
  destruct (keep_new r R) as [|c' k]; auto. destruct Hh as [r' Hr']. subst r. exact Hord.
Qed.

Lemma keep_new_in cs R y : chunks_ok cs -> in_chunks cs y -> R <= st y -> in_chunks (keep_new cs R) y.
Proof.
  induction cs as [|a r IH]; intros Hok [c0 [Hc Hy]] HR; [inversion Hc|].
  pose proof Hok as (Hm & Hle & Hmx & Hs & Hord & Hr). simpl.
  assert (HA : R <= c_max a).
  { destruct Hc as [<-|Hc]; [specialize (Hs y Hy); lia|].
    destruct r as [|c' r']; [inversion Hc|].
    assert (Hz : in_chunks (c' :: r') y) by (exists c0; auto).
    destruct (chunks_ok_bounds _ Hr y Hz) as [[_ B] _]. cbn [newest_max] in B. lia. }
  destruct (c_max a <? R) eqn:E; [b2p; lia|].
  destruct Hc as [<-|Hc]; [exists a; split; [left|]; auto|].
  destruct (IH Hr ltac:(exists c0; auto) HR) as [c1 [H1 H2]]. exists c1. split; [right|]; auto.
Qed.

Lemma keep_new_in_rev cs R y : in_chunks (keep_new cs R) y -> in_chunks cs y.
Proof. intros [c [H1 H2]]. exists c. split; auto. eapply keep_new_sub; eauto. Qed.

(** ** Head.gc and the min-time adjustment *)
Section GC.
Variable c : cfg.

(* what the gc lemmas need of the head *)
Definition gc_pre (h : head) : Prop :=
  (forall i y, In y (ms_ooo (h_series h i)) -> covered (h_tomb h i) (st y) = false) /\
  (forall i, chunks_ok (ms_chunks (h_series h i))) /\
  (forall i, ~ In i (universe c) -> ms_chunks (h_series h i) = [] /\ ms_ooo (h_series h i) = []) /\
  (forall i y, in_chunks (ms_chunks (h_series h i)) y -> st y < h_minT h -> st y < h_minValid h).

Lemma gc_only_tomb_sub h i iv : In iv (h_tomb (gc_only h) i) -> In iv (h_tomb h i).
Proof.
  unfold gc_only; simpl. destruct (has_data _); [|intros []]. intros H. apply filter_In in H. tauto.
Qed.

Lemma covered_sub a b t : (forall iv, In iv a -> In iv b) -> covered b t = false -> covered a t = false.
Proof. intros H Hb. apply covered_false_iff. intros iv Hi. eapply covered_false_iff in Hb; eauto. Qed.

Lemma gc_only_vis_io h i y : gc_pre h -> vis_io (gc_only h) i y <-> vis_io h i y.
Proof.
  intros (Hooo & Hck & Hun & Hdd). unfold vis_io. split.
  - intros (Hin & Hm & Hc). cbn [gc_only h_series h_minT gc_series ms_chunks] in *.
    split; [eapply keep_new_in_rev; eauto|]. split; auto.
    destruct (covered (h_tomb h i) (st y)) eqn:E; auto. apply covered_iff in E. destruct E as [iv [Hi Hr]].
    assert (covered (h_tomb (gc_only h) i) (st y) = true); [|congruence].
    apply covered_iff. exists iv. split; auto. unfold gc_only; cbn [h_tomb h_series].
    replace (has_data (gc_series (h_minT h) (h_series h i))) with true.
    + apply filter_In. split; auto. apply Z.leb_le. lia.
    + unfold has_data, gc_series; cbn [ms_chunks]. destruct Hin as [c0 [Hc0 _]].
      destruct (keep_new (ms_chunks (h_series h i)) (h_minT h)); [inversion Hc0|reflexivity].
  - intros (Hin & Hm & Hc). cbn [gc_only h_series h_minT gc_series ms_chunks].
    split; [apply keep_new_in; auto|]. split; auto.
    eapply covered_sub; [|exact Hc]. apply gc_only_tomb_sub.
Qed.

Lemma gc_only_vis_ooo h i y : gc_pre h -> vis_ooo (gc_only h) i y <-> vis_ooo h i y.
Proof.
  intros (Hooo & Hck & Hun & Hdd). unfold vis_ooo. cbn [gc_only h_series gc_series ms_ooo]. split.
  - intros [Hin _]. split; auto.
  - intros [Hin Hc]. split; auto. eapply covered_sub; [|exact Hc]. apply gc_only_tomb_sub.
Qed.

Lemma gc_only_pre h : gc_pre h -> gc_pre (gc_only h).
Proof.
  intros (Hooo & Hck & Hun & Hdd). split; [|split; [|split]].
  - intros i y Hy. cbn [gc_only h_series gc_series ms_ooo] in Hy.
    eapply covered_sub; [|apply Hooo; exact Hy]. apply gc_only_tomb_sub.
  - intros i. cbn [gc_only h_series gc_series ms_chunks]. apply keep_new_ok; auto.
  - intros i Hi. destruct (Hun i Hi) as [A B]. cbn [gc_only h_series gc_series ms_chunks ms_ooo].
    rewrite A, B. auto.
  - intros i y Hin Hlt. cbn [gc_only h_series gc_series ms_chunks h_minT h_minValid] in *.
    apply keep_new_in_rev in Hin. eauto.
Qed.

Lemma actual_mint_le h : actual_mint (universe c) h >? h_minT h = true ->
  forall i, In i (universe c) -> has_data (h_series h i) = true ->
  actual_mint (universe c) h <= oldest_min (ms_chunks (h_series h i)).
Proof.
  unfold actual_mint.
  set (f := fun i a => let m := h_series h i in if has_data m then Z.min (oldest_min (ms_chunks m)) a else a).
  assert (L : forall u i, In i u -> has_data (h_series h i) = true ->
              fold_right f maxInt64 u <= oldest_min (ms_chunks (h_series h i))).
  { induction u as [|j u IH]; intros i Hi Hd; [inversion Hi|]. simpl. unfold f at 1. cbv zeta.
    destruct Hi as [<-|Hi]; [rewrite Hd; lia|].
    specialize (IH i Hi Hd). destruct (has_data (h_series h j)); lia. }
  intros Hgt i Hi Hd. specialize (L (universe c) i Hi Hd).
  fold f in Hgt |- *. destruct (fold_right f maxInt64 (universe c) =? maxInt64) eqn:E; [b2p; lia | exact L].
Qed.

Lemma gc_adjust_vis h i y : gc_pre h -> hvis (gc_adjust c h) i y <-> hvis h i y.
Proof.
  intros Hp. pose proof (gc_only_pre h Hp) as Hp1. unfold gc_adjust.
  assert (H1 : hvis (gc_only h) i y <-> hvis h i y).
  { unfold hvis. rewrite (gc_only_vis_io h i y Hp), (gc_only_vis_ooo h i y Hp). tauto. }
  set (h1 := gc_only h) in *. set (am := actual_mint (universe c) h1).
  destruct (am >? h_minT h1) eqn:E; [|exact H1].
  rewrite <- H1. set (n := if am <? _ then am else _).
  assert (Hn : n <= am) by (unfold n; destruct (am <? _) eqn:E2; b2p; lia).
  unfold hvis, vis_io, vis_ooo. cbn [h_series h_tomb h_minT].
  destruct Hp1 as (Hooo1 & Hck1 & Hun1 & Hdd1).
  split; (intros [(Hin & Hm & Hc)|Ho]; [left|right; exact Ho]); split; auto; split; auto.
  { (* new -> old *)
    destruct (Z_lt_le_dec (st y) (h_minT h1)) as [Hlt|]; auto.
    specialize (Hdd1 i y Hin Hlt). revert Hm. unfold n. b2p.
    destruct (am <? _) eqn:E2; b2p; [lia|]. intros Hm. apply Z.max_lub_iff in Hm. lia. }
  destruct (in_dec Z.eq_dec i (universe c)) as [Hi|Hi].
  - assert (Hd : has_data (h_series h1 i) = true).
    { unfold has_data. destruct Hin as [c0 [Hc0 _]]. destruct (ms_chunks (h_series h1 i)); [inversion Hc0|reflexivity]. }
    pose proof (actual_mint_le h1 E i Hi Hd) as Ha. fold am in Ha.
    destruct (chunks_ok_bounds _ (Hck1 i) y Hin) as [[B _] _]. lia.
  - destruct (Hun1 i Hi) as [A _]. destruct Hin as [c0 [Hc0 _]]. rewrite A in Hc0. inversion Hc0.
Qed.

Lemma gc_adjust_series h i : h_series (gc_adjust c h) i = gc_series (h_minT h) (h_series h i).
Proof. unfold gc_adjust. destruct (_ >? _); reflexivity. Qed.

Lemma gc_adjust_tomb_sub h i iv : In iv (h_tomb (gc_adjust c h) i) -> In iv (h_tomb h i).
Proof. unfold gc_adjust. destruct (_ >? _); cbn [h_tomb]; apply gc_only_tomb_sub. Qed.

Lemma gc_adjust_maxT h : h_maxT (gc_adjust c h) = h_maxT h.
Proof. unfold gc_adjust. destruct (_ >? _); reflexivity. Qed.

(* the head invariant survives gc_adjust when either minTime = minValidTime beforehand or the
   dead-sample clause already held *)
Lemma gc_adjust_inv h :
  head_inv c h -> head_inv c (gc_adjust c h).
Proof.
  intros [Hd Ho Hc Hu Hm].
  assert (Hp : gc_pre h) by (split; [|split; [|split]]; auto).
  constructor.
  - intros i y Hin Hlt. rewrite gc_adjust_series in Hin. cbn [gc_series ms_chunks] in Hin.
    apply keep_new_in_rev in Hin. revert Hlt. unfold gc_adjust.
    destruct (_ >? _) eqn:E; cbn [h_minT h_minValid gc_only]; [lia|]. intros Hlt. eapply Hd; eauto.
  - intros i y Hy. rewrite gc_adjust_series in Hy. cbn [gc_series ms_ooo] in Hy.
    eapply covered_sub; [|apply Ho; exact Hy]. apply gc_adjust_tomb_sub.
  - intros i. rewrite gc_adjust_series. cbn [gc_series ms_chunks]. apply keep_new_ok; auto.
  - intros i Hi. rewrite gc_adjust_series. destruct (Hu i Hi) as [A B].
    cbn [gc_series ms_chunks ms_ooo]. rewrite A, B. auto.
  - intros i y Hin. rewrite gc_adjust_series in Hin. cbn [gc_series ms_chunks] in Hin.
    apply keep_new_in_rev in Hin. rewrite gc_adjust_maxT. eauto.
Qed.
End GC.

(* ------------------------------------------------------------------ *)
(** * Commit *)

(* the admission facts the implementation guarantees for an accepted sample, relative to the
   head it is applied to (admission itself is property C02) *)
Definition wf_acc (c : cfg) (h : head) (a : acc) : Prop :=
  let '(i, x, ooo) := a in
  In i (universe c) /\ minInt64 < st x < maxInt64 /\
  covered (h_tomb h i) (st x) = false /\
  (ooo = false ->
     h_minValid h <= st x /\
     match ms_chunks (h_series h i) with [] => True | c0 :: _ => c_max c0 < st x end).

Fixpoint wf_accs (c : cfg) (h : head) (l : list acc) : Prop :=
  match l with
  | [] => True
  | a :: r => wf_acc c h a /\ wf_accs c (commit1 (chunkRange c) h a) r
  end.

Lemma append_io_chunks cr m x y :
  in_chunks (ms_chunks (append_io cr m x)) y <-> in_chunks (ms_chunks m) y \/ y = x.
Proof.
  unfold append_io.
  assert (Cut : in_chunks (mkC (st x) (st x) [x] O :: ms_chunks m) y <-> in_chunks (ms_chunks m) y \/ y = x).
  { unfold in_chunks. split.
    - intros [c0 [[<-|Hc] Hy]]; [simpl in Hy; destruct Hy as [->|[]]; auto | left; eauto].
    - intros [[c0 [Hc Hy]]| ->]; [exists c0; split; [right|]; auto | eexists; split; [left; reflexivity|simpl; auto]]. }
  destruct (ms_chunks m) as [|c0 r] eqn:E; [exact Cut|].
  destruct (negb (ms_open m)); [exact Cut|]. destruct (st x >=? ms_nextAt m); [exact Cut|].
  cbn [ms_chunks]. unfold in_chunks. split.
  - intros [c1 [[<-|Hc] Hy]].
    + cbn [c_samples] in Hy. apply in_app_iff in Hy. destruct Hy as [Hy|[->|[]]]; auto.
      left. exists c0. split; [left|]; auto.
    + left. exists c1. split; [right|]; auto.
  - intros [[c1 [[<-|Hc] Hy]]| ->].
    + eexists. split; [left; reflexivity|]. cbn [c_samples]. apply in_app_iff; auto.
    + exists c1. split; [right|]; auto.
    + eexists. split; [left; reflexivity|]. cbn [c_samples]. apply in_app_iff; right; left; auto.
Qed.

Lemma append_io_ok cr m x :
  chunks_ok (ms_chunks m) -> minInt64 < st x < maxInt64 ->
  match ms_chunks m with [] => True | c0 :: _ => c_max c0 < st x end ->
  chunks_ok (ms_chunks (append_io cr m x)).
Proof.
  intros Hok Hx Hgt. unfold append_io.
  assert (Cut : chunks_ok (mkC (st x) (st x) [x] O :: ms_chunks m)).
  { cbn [chunks_ok c_min c_max c_samples]. repeat (split; [lia|]).
    split; [intros y [<-|[]]; lia|]. split; auto. }
  destruct (ms_chunks m) as [|c0 r] eqn:E; [exact Cut|].
  destruct (negb (ms_open m)); [exact Cut|]. destruct (st x >=? ms_nextAt m); [exact Cut|].
  cbn [ms_chunks]. destruct Hok as (Hm & Hle & Hmx & Hs & Hord & Hr).
  cbn [chunks_ok c_min c_max c_samples]. split; [lia|]. split; [lia|]. split; [lia|].
  split; [|split; auto].
  intros y Hy. apply in_app_iff in Hy. destruct Hy as [Hy|[<-|[]]]; [specialize (Hs y Hy); lia | lia].
Qed.

Lemma upd_same {A} (f : sid -> A) k v : upd f k v k = v.
Proof. unfold upd. rewrite Z.eqb_refl. reflexivity. Qed.
Lemma upd_other {A} (f : sid -> A) k v i : i <> k -> upd f k v i = f i.
Proof. unfold upd. intros H. apply Z.eqb_neq in H. rewrite H. reflexivity. Qed.

Lemma commit1_step c h a :
  head_inv c h -> wf_acc c h a ->
  head_inv c (commit1 (chunkRange c) h a) /\
  (forall i y, hvis (commit1 (chunkRange c) h a) i y <-> hvis h i y \/ (i = fst (fst a) /\ y = snd (fst a))) /\
  (forall i, h_tomb (commit1 (chunkRange c) h a) i = h_tomb h i).
Proof.
  intros [Hd Ho Hc Hu Hm] Hwf. destruct a as [[j x] ooo]. cbn [fst snd].
  destruct Hwf as (Hj & Hx & Hcov & Hio). unfold commit1.
  destruct ooo.
  - (* out-of-order *)
    split; [|split; [|reflexivity]].
    + constructor; cbn [h_series h_tomb h_minT h_maxT h_minValid].
      * intros i y. destruct (Z.eq_dec i j) as [->|Hn]; [rewrite upd_same|rewrite upd_other by auto]; cbn [ms_chunks]; eauto.
      * intros i y. destruct (Z.eq_dec i j) as [->|Hn]; [rewrite upd_same|rewrite upd_other by auto]; cbn [ms_ooo]; auto.
        intros Hy. apply in_app_iff in Hy. destruct Hy as [Hy|[<-|[]]]; auto.
      * intros i. destruct (Z.eq_dec i j) as [->|Hn]; [rewrite upd_same|rewrite upd_other by auto]; cbn [ms_chunks]; auto.
      * intros i Hi. destruct (Z.eq_dec i j) as [->|Hn]; [tauto|rewrite upd_other by auto]; auto.
      * intros i y. destruct (Z.eq_dec i j) as [->|Hn]; [rewrite upd_same|rewrite upd_other by auto]; cbn [ms_chunks]; eauto.
    + intros i y. unfold hvis, vis_io, vis_ooo. cbn [h_series h_tomb h_minT].
      destruct (Z.eq_dec i j) as [->|Hn]; [rewrite upd_same|rewrite upd_other by auto]; cbn [ms_chunks ms_ooo].
      * rewrite in_app_iff. simpl. intuition (subst; auto).
      * intuition congruence.
  - (* in-order *)
    destruct (Hio eq_refl) as [Hmv Hgt].
    assert (Hok' : chunks_ok (ms_chunks (append_io (chunkRange c) (h_series h j) x))).
    { apply append_io_ok; auto. }
    assert (Hooo' : ms_ooo (append_io (chunkRange c) (h_series h j) x) = ms_ooo (h_series h j)).
    { unfold append_io. destruct (ms_chunks (h_series h j)); auto.
      destruct (negb _); auto. destruct (_ >=? _); auto. }
    split; [|split; [|reflexivity]].
    + constructor; cbn [h_series h_tomb h_minT h_maxT h_minValid].
      * intros i y. destruct (Z.eq_dec i j) as [->|Hn]; [rewrite upd_same|rewrite upd_other by auto].
        -- rewrite append_io_chunks. intros [Hy| ->] Hlt; [apply (Hd j y Hy); lia | lia].
        -- intros Hy Hlt. apply (Hd i y Hy). lia.
      * intros i y. destruct (Z.eq_dec i j) as [->|Hn]; [rewrite upd_same, Hooo'|rewrite upd_other by auto]; auto.
      * intros i. destruct (Z.eq_dec i j) as [->|Hn]; [rewrite upd_same|rewrite upd_other by auto]; auto.
      * intros i Hi. destruct (Z.eq_dec i j) as [->|Hn]; [tauto|rewrite upd_other by auto]; auto.
      * intros i y. destruct (Z.eq_dec i j) as [->|Hn]; [rewrite upd_same|rewrite upd_other by auto].
        -- rewrite append_io_chunks. intros [Hy| ->]; [specialize (Hm j y Hy)|]; lia.
        -- intros Hy. specialize (Hm i y Hy). lia.
    + intros i y. unfold hvis, vis_io, vis_ooo. cbn [h_series h_tomb h_minT].
      destruct (Z.eq_dec i j) as [->|Hn]; [rewrite upd_same, Hooo', append_io_chunks|rewrite upd_other by auto].
      * split.
        -- intros [([Hy| ->] & Hmin & Hcv)|H]; auto. left. left. split; auto. split; auto.
           destruct (Z_lt_le_dec (st y) (h_minT h)) as [Hlt|]; auto.
           specialize (Hd j y Hy Hlt). lia.
        -- intros [[(Hy & Hmin & Hcv)|H]|[_ ->]]; auto.
           ++ left. split; auto. split; auto. lia.
           ++ left. split; auto. split; auto. lia.
      * split.
        -- intros [(Hy & Hmin & Hcv)|H]; auto. left. left. split; auto. split; auto.
           destruct (Z_lt_le_dec (st y) (h_minT h)) as [Hlt|]; auto.
           specialize (Hd i y Hy Hlt). lia.
        -- intros [[(Hy & Hmin & Hcv)|H]|[E _]]; auto; [|congruence]. left. split; auto. split; auto. lia.
Qed.

Lemma commit_fold c l : forall h,
  head_inv c h -> wf_accs c h l ->
  head_inv c (fold_left (commit1 (chunkRange c)) l h) /\
  (forall i y, hvis (fold_left (commit1 (chunkRange c)) l h) i y <->
               hvis h i y \/ In (i, y) (map (fun a => (fst (fst a), snd (fst a))) l)).
Proof.
  induction l as [|a l IH]; intros h Hi Hwf; simpl.
  - split; auto. intros; tauto.
  - destruct Hwf as [Ha Hr]. destruct (commit1_step c h a Hi Ha) as (Hi' & Hv & _).
    destruct (IH _ Hi' Hr) as [Hi'' Hv'']. split; auto.
    intros i y. rewrite Hv'', Hv. split.
    + intros [[H|[E1 E2]]|H]; auto. right. left. subst. reflexivity.
    + intros [H|[H|H]]; auto. inversion H; subst. left. right. auto.
Qed.

Lemma init_time_inv c h f : head_inv c h -> head_inv c (init_time h f) /\ forall i y, hvis (init_time h f) i y <-> hvis h i y.
Proof.
  intros Hi. unfold init_time. destruct f as [t|]; [|split; auto; intros; tauto].
  destruct ((h_minT h =? maxInt64) && (h_maxT h =? minInt64)) eqn:E; [|split; auto; intros; tauto].
  b2p. destruct Hi as [Hd Ho Hc Hu Hm].
  assert (Hno : forall i y, ~ in_chunks (ms_chunks (h_series h i)) y).
  { intros i y Hy. specialize (Hm i y Hy). destruct (chunks_ok_bounds _ (Hc i) y Hy) as [[B _] B2]. lia. }
  split.
  - constructor; cbn [h_series h_tomb h_minT h_maxT h_minValid]; auto.
    + intros i y Hy. exfalso. eapply Hno; eauto.
    + intros i y Hy. exfalso. eapply Hno; eauto.
  - intros i y. unfold hvis, vis_io, vis_ooo. cbn [h_series h_tomb h_minT].
    split; (intros [(Hy & _)|Hz]; [exfalso; eapply Hno; eauto | auto]).
Qed.

(* ------------------------------------------------------------------ *)
(** * Delete *)

(* Head.Delete only looks at the in-order chunks: a Delete whose range contains an out-of-order
   sample still in the head of a selected series is outside the theorem (see the refuted lemmas) *)
Definition wf_delete (h : head) (mint maxt : Z) (sel : list sid) : Prop :=
  forall i y, In i sel -> In y (ms_ooo (h_series h i)) -> ~ (mint <= st y <= maxt).

Lemma in_stones_of l i iv : In iv (stones_of l i) <-> In (i, iv) l.
Proof.
  unfold stones_of. rewrite in_map_iff. split.
  - intros [[j iv'] [E H]]. simpl in E. subst iv'. apply filter_In in H. destruct H as [H1 H2].
    simpl in H2. b2p. subst. exact H1.
  - intros H. exists (i, iv). split; auto. apply filter_In. split; auto. simpl. apply Z.eqb_refl.
Qed.

Lemma head_stones_in h mint maxt sel i iv :
  In (i, iv) (head_stones mint maxt sel h) -> In i sel /\ mint <= fst iv /\ snd iv <= maxt.
Proof.
  unfold head_stones. destruct ((h_minT h <=? maxt) && (mint <=? h_maxT h)); [|intros []].
  unfold clamp. rewrite in_flat_map. intros [j [Hj H]].
  destruct ((oldest_min _ =? minInt64) || (newest_max _ =? minInt64)); [inversion H|].
  destruct (_ >? _); [inversion H|]. destruct H as [H|[]]. inversion H; subst. simpl. split; auto. lia.
Qed.

Lemma head_stones_cover c h mint maxt sel i y :
  head_inv c h -> In i sel -> in_chunks (ms_chunks (h_series h i)) y -> h_minT h <= st y ->
  mint <= st y <= maxt -> covered (stones_of (head_stones mint maxt sel h) i) (st y) = true.
Proof.
  intros [Hd Ho Hc Hu Hm] Hi Hy Hmin Hr. specialize (Hm i y Hy).
  destruct (chunks_ok_bounds _ (Hc i) y Hy) as [[B1 B2] B3].
  assert (B4 : minInt64 < newest_max (ms_chunks (h_series h i))) by lia.
  apply covered_iff.
  exists (Z.max (Z.max mint (h_minT h)) (oldest_min (ms_chunks (h_series h i))),
          Z.min (Z.min maxt (h_maxT h)) (newest_max (ms_chunks (h_series h i)))).
  split; [|simpl; lia]. apply in_stones_of. unfold head_stones.
  replace ((h_minT h <=? maxt) && (mint <=? h_maxT h)) with true
    by (symmetry; apply andb_true_iff; rewrite !Z.leb_le; lia).
  unfold clamp. apply in_flat_map. exists i. split; auto.
  replace ((oldest_min _ =? minInt64) || (newest_max _ =? minInt64)) with false.
  2:{ symmetry. apply orb_false_iff. rewrite !Z.eqb_neq. lia. }
  match goal with |- In _ (if ?a >? ?b then _ else _) => replace (a >? b) with false end.
  - left; reflexivity.
  - symmetry. rewrite Z.gtb_ltb. apply Z.ltb_ge. lia.
Qed.

Lemma head_delete_step c h mint maxt sel :
  head_inv c h -> wf_delete h mint maxt sel ->
  head_inv c (head_delete mint maxt sel h) /\
  forall i y, hvis (head_delete mint maxt sel h) i y <-> hvis h i y /\ ~ (In i sel /\ mint <= st y <= maxt).
Proof.
  intros Hi Hwf. pose proof Hi as [Hd Ho Hc Hu Hm].
  assert (Hst : forall i t, covered (stones_of (head_stones mint maxt sel h) i) t = true ->
                            In i sel /\ mint <= t <= maxt).
  { intros i t Hcv. apply covered_iff in Hcv. destruct Hcv as [iv [Hin Hr]].
    apply in_stones_of, head_stones_in in Hin. destruct Hin as (A & B & C). split; auto. lia. }
  split.
  - constructor; unfold head_delete; cbn [h_series h_tomb h_minT h_maxT h_minValid]; auto.
    intros i y Hy. rewrite covered_app, (Ho i y Hy), orb_false_r.
    destruct (covered (stones_of _ i) (st y)) eqn:E; auto.
    destruct (Hst _ _ E) as [A B]. exfalso. eapply Hwf; eauto.
  - intros i y. unfold hvis, vis_io, vis_ooo, head_delete. cbn [h_series h_tomb h_minT].
    rewrite covered_app. split.
    + intros [(Hy & Hmin & Hcv)|(Hy & Hcv)]; apply orb_false_iff in Hcv; destruct Hcv as [C1 C2].
      * split; [left; auto|]. intros [A B].
        rewrite (head_stones_cover c h mint maxt sel i y Hi A Hy Hmin B) in C1. discriminate.
      * split; [right; auto|]. intros [A B]. eapply Hwf; eauto.
    + intros [[(Hy & Hmin & Hcv)|(Hy & Hcv)] Hn].
      * left. split; auto. split; auto. rewrite Hcv, orb_false_r.
        destruct (covered (stones_of _ i) (st y)) eqn:E; auto. apply Hst in E. tauto.
      * right. split; auto. rewrite Hcv, orb_false_r.
        destruct (covered (stones_of _ i) (st y)) eqn:E; auto. apply Hst in E. tauto.
Qed.

Lemma lmin_le l y : In y l -> lmin l <= st y.
Proof. induction l as [|a l IH]; simpl; [tauto|]. intros [<-|H]; [|specialize (IH H)]; lia. Qed.
Lemma lmax_ge l y : In y l -> st y <= lmax l.
Proof. induction l as [|a l IH]; simpl; [tauto|]. intros [<-|H]; [|specialize (IH H)]; lia. Qed.

Lemma block_delete_vis c bs b mint maxt sel i y :
  blocks_inv c bs -> In b bs ->
  vis_blk (block_delete mint maxt sel b) i y <-> vis_blk b i y /\ ~ (In i sel /\ mint <= st y <= maxt).
Proof.
  intros [Hr Hu] Hb. unfold block_delete, b_overlaps.
  destruct ((b_mint b <=? maxt) && (mint <? b_maxt b)) eqn:E.
  - unfold vis_blk. cbn [b_data b_tomb].
    destruct (memZ i sel && existsb (fun x => in_rng mint maxt (st x)) (b_data b i)) eqn:E2.
    + apply andb_true_iff in E2. destruct E2 as [Hsel Hex]. apply memZ_iff in Hsel. unfold clamp. split.
      * intros [Hy Hcv]. cbn [covered existsb fst snd] in Hcv. apply orb_false_iff in Hcv.
        destruct Hcv as [C1 C2]. split; [split; auto|]. intros [_ B].
        pose proof (lmin_le _ _ Hy). pose proof (lmax_ge _ _ Hy).
        apply andb_false_iff in C1. rewrite !Z.leb_gt in C1. lia.
      * intros [[Hy Hcv] Hn]. split; auto. cbn [covered existsb fst snd]. fold (covered (b_tomb b i) (st y)).
        rewrite Hcv, orb_false_r. apply andb_false_iff. rewrite !Z.leb_gt.
        destruct (Z_lt_le_dec (st y) mint); [left; lia|]. destruct (Z_lt_le_dec maxt (st y)); [right; lia|].
        exfalso. apply Hn. split; [auto|lia].
    + split; [|tauto]. intros [Hy Hcv]. split; [split; auto|]. intros [A B].
      apply andb_false_iff in E2. destruct E2 as [E2|E2].
      * apply memZ_iff in A. congruence.
      * assert (existsb (fun x => in_rng mint maxt (st x)) (b_data b i) = true); [|congruence].
        apply existsb_exists. exists y. split; auto. apply in_rng_iff; auto.
  - split; [|tauto]. intros [Hy Hcv]. split; [split; auto|]. intros [A B].
    specialize (Hr b i y Hb Hy). apply andb_false_iff in E. rewrite Z.leb_gt, Z.ltb_ge in E. lia.
Qed.

Lemma block_delete_inv c bs mint maxt sel :
  blocks_inv c bs -> blocks_inv c (map (block_delete mint maxt sel) bs).
Proof.
  intros [Hr Hu]. constructor.
  - intros b i y Hb Hy. apply in_map_iff in Hb. destruct Hb as [b0 [<- Hb0]].
    unfold block_delete in *. destruct (b_overlaps b0 mint maxt); cbn [b_data b_mint b_maxt] in *; eauto.
  - intros b i Hb Hi. apply in_map_iff in Hb. destruct Hb as [b0 [<- Hb0]].
    unfold block_delete. destruct (b_overlaps b0 mint maxt); cbn [b_data]; eauto.
Qed.

(* ------------------------------------------------------------------ *)
(** * Blocks written by compactions *)

Lemma sort_uniq_nil l : sort_uniq l = [] -> l = [].
Proof.
  destruct l as [|a l]; auto. intros H. assert (In a (sort_uniq (a :: l))) by (apply in_sort_uniq; left; auto).
  rewrite H in H0. inversion H0.
Qed.

Lemma num_samples_nonneg u b : 0 <= num_samples u b.
Proof. unfold num_samples. induction u as [|i u IH]; simpl; lia. Qed.

Lemma num_samples_zero u b : (0 <? num_samples u b) = false -> forall i, In i u -> b_data b i = [].
Proof.
  intros H. apply Z.ltb_ge in H. induction u as [|j u IH]; intros i Hi; [inversion Hi|].
  unfold num_samples in H. simpl in H. fold (num_samples u b) in H. pose proof (num_samples_nonneg u b).
  destruct Hi as [<-|Hi]; [|apply IH; auto; lia].
  destruct (sort_uniq (map st (b_data b j))) as [|t r] eqn:E.
  - apply sort_uniq_nil in E. apply map_eq_nil in E. exact E.
  - simpl length in H. lia.
Qed.

Lemma vis_blocks_add c b bs i y :
  (forall j, ~ In j (universe c) -> b_data b j = []) ->
  vis_blocks (add_block (universe c) b bs) i y <-> vis_blocks bs i y \/ vis_blk b i y.
Proof.
  intros Hu. unfold add_block, vis_blocks. destruct (0 <? num_samples (universe c) b) eqn:E.
  - split.
    + intros [b0 [Hb Hv]]. apply in_app_iff in Hb. destruct Hb as [Hb|[<-|[]]]; eauto.
    + intros [[b0 [Hb Hv]]|Hv]; [exists b0|exists b]; split; auto; apply in_app_iff; simpl; auto.
  - split; auto. intros [H|[Hy _]]; auto. exfalso.
    destruct (in_dec Z.eq_dec i (universe c)) as [Hi|Hi].
    + rewrite (num_samples_zero _ _ E i Hi) in Hy. inversion Hy.
    + rewrite (Hu i Hi) in Hy. inversion Hy.
Qed.

Lemma blocks_inv_add c b bs :
  blocks_inv c bs ->
  (forall i y, In y (b_data b i) -> b_mint b <= st y < b_maxt b) ->
  (forall j, ~ In j (universe c) -> b_data b j = []) ->
  blocks_inv c (add_block (universe c) b bs).
Proof.
  intros [Hr Hu] H1 H2. unfold add_block. destruct (0 <? _); [|constructor; auto].
  constructor.
  - intros b0 i y Hb. apply in_app_iff in Hb. destruct Hb as [Hb|[<-|[]]]; eauto.
  - intros b0 i Hb. apply in_app_iff in Hb. destruct Hb as [Hb|[<-|[]]]; eauto.
Qed.

(* ------------------------------------------------------------------ *)
(** * Head compaction *)

Definition wf_cfg (c : cfg) : Prop := 0 < chunkRange c.

Lemma rangeFor_gt t w : 0 < w -> t < rangeFor t w.
Proof.
  intros Hw. unfold rangeFor, godiv. pose proof (Z.quot_rem' t w) as E.
  pose proof (Z.rem_bound_abs t w ltac:(lia)) as B. rewrite (Z.abs_eq w) in B by lia.
  destruct (Z.abs_spec (Z.rem t w)) as [[_ A]|[_ A]]; rewrite A in B; nia.
Qed.

Lemma rangeStart_le t w : 0 < w -> rangeStart t w <= t.
Proof.
  intros Hw. unfold rangeStart, godiv. destruct (t >=? 0) eqn:E; b2p.
  - pose proof (Z.quot_rem' t w) as Q. pose proof (Z.rem_nonneg t w ltac:(lia) ltac:(lia)). lia.
  - pose proof (Z.quot_rem' (t - w + 1) w) as Q.
    pose proof (Z.rem_bound_abs (t - w + 1) w ltac:(lia)) as B. rewrite (Z.abs_eq w) in B by lia.
    destruct (Z.abs_spec (Z.rem (t - w + 1) w)) as [[_ A]|[_ A]]; rewrite A in B; lia.
Qed.

Lemma truncate_memory_step c h R :
  head_inv c h -> h_minT h < R ->
  head_inv c (truncate_memory c h R) /\
  forall i y, hvis (truncate_memory c h R) i y <-> (vis_io h i y /\ R <= st y) \/ vis_ooo h i y.
Proof.
  intros [Hd Ho Hc Hu Hm] Hlt. unfold truncate_memory.
  replace (h_minT h >=? R) with false by (symmetry; rewrite Z.geb_leb; apply Z.leb_gt; lia).
  cbn [andb].
  set (h0 := mkHead R (Z.max (h_maxT h) R) R (h_series h) (h_tomb h)).
  assert (Hi0 : head_inv c h0).
  { constructor; unfold h0; cbn [h_series h_tomb h_minT h_maxT h_minValid]; auto.
    intros i y Hy. specialize (Hm i y Hy). lia. }
  split; [apply gc_adjust_inv; auto|].
  intros i y. rewrite gc_adjust_vis by (destruct Hi0; split; [|split; [|split]]; auto).
  unfold hvis, vis_io, vis_ooo, h0. cbn [h_series h_tomb h_minT]. split.
  - intros [(A & B & C)|H]; auto. left. split; auto. split; auto. split; auto. lia.
  - intros [((A & B & C) & D)|H]; auto.
Qed.

Lemma head_block_vis h mint R i y :
  vis_blk (head_block h mint R) i y <->
  in_chunks (ms_chunks (h_series h i)) y /\ mint <= st y <= R - 1 /\ covered (h_tomb h i) (st y) = false.
Proof.
  unfold vis_blk, head_block. cbn [b_data b_tomb]. rewrite filter_In, in_io, andb_true_iff, in_rng_iff, negb_true_iff.
  cbn [covered existsb]. tauto.
Qed.

Lemma compact_head_once_step c s :
  wf_cfg c -> inv c s ->
  inv c (compact_head_once c s) /\ sequiv (abs (compact_head_once c s)) (abs s).
Proof.
  intros Hw [Hh Hb]. unfold compact_head_once.
  set (h := s_head s) in *. set (R := rangeFor (h_minT h) (chunkRange c)).
  assert (HR : h_minT h < R) by (apply rangeFor_gt; auto).
  destruct (truncate_memory_step c h R Hh HR) as [Hh' Hv].
  assert (Hnu : forall j, ~ In j (universe c) -> b_data (head_block h (h_minT h) R) j = []).
  { intros j Hj. unfold head_block. cbn [b_data]. unfold io_samples.
    destruct (hi_univ _ _ Hh j Hj) as [A _]. rewrite A. reflexivity. }
  split.
  - split; cbn [s_head s_blocks]; auto. apply blocks_inv_add; auto.
    intros i y Hy. unfold head_block in *. cbn [b_data b_mint b_maxt] in *.
    apply filter_In in Hy. destruct Hy as [_ Hy]. apply andb_true_iff in Hy. destruct Hy as [Hy _].
    apply in_rng_iff in Hy. lia.
  - intros i y. rewrite !in_abs. cbn [s_head s_blocks].
    rewrite vis_blocks_add by auto. rewrite head_block_vis.
    pose proof (Hv i y) as Hv'. unfold hvis in Hv'. fold h.
    assert (E : vis_io (truncate_memory c h R) i y \/ vis_ooo (truncate_memory c h R) i y \/
                (vis_blocks (s_blocks s) i y \/ in_chunks (ms_chunks (h_series h i)) y /\ h_minT h <= st y <= R - 1 /\ covered (h_tomb h i) (st y) = false)
                <-> ((vis_io h i y /\ R <= st y) \/ vis_ooo h i y) \/ vis_blocks (s_blocks s) i y \/ (vis_io h i y /\ st y <= R - 1)).
    { unfold vis_io at 3. tauto. }
    rewrite E. clear E Hv'. unfold vis_io. split.
    + intros [[[A B]|A]|[A|[A B]]]; auto.
    + intros [(A & B & C)|[A|A]]; auto.
      destruct (Z_lt_le_dec (st y) R); [right; right; split; [split|]; auto; lia | left; left; split; [split|]; auto].
Qed.

Lemma compact_loop_step c fuel : forall s did,
  wf_cfg c -> inv c s ->
  inv c (fst (compact_loop c fuel s did)) /\ sequiv (abs (fst (compact_loop c fuel s did))) (abs s).
Proof.
  induction fuel as [|f IH]; intros s did Hw Hi; simpl.
  - split; [exact Hi | apply sequiv_refl].
  - destruct (compactable c (s_head s)); [|split; [exact Hi|apply sequiv_refl]].
    destruct (compact_head_once_step c s Hw Hi) as [Hi' He].
    destruct (IH (compact_head_once c s) true Hw Hi') as [Hi'' He'']. split; auto.
    eapply sequiv_trans; eauto.
Qed.

(* ------------------------------------------------------------------ *)
(** * Out-of-order head compaction *)

Lemma ranges_cover w hi x : 0 < w -> forall fuel lo,
  lo <= x <= hi -> (hi - lo) / w + 1 <= Z.of_nat fuel ->
  exists t, In t (ranges lo hi w fuel) /\ t <= x < t + w.
Proof.
  intros Hw. induction fuel as [|f IH]; intros lo Hx Hf.
  - exfalso. assert (0 <= (hi - lo) / w) by (apply Z.div_pos; lia). lia.
  - simpl. replace (lo <=? hi) with true by (symmetry; apply Z.leb_le; lia).
    destruct (Z_lt_le_dec x (lo + w)) as [Hl|Hl].
    + exists lo. split; [left; auto | lia].
    + destruct (IH (lo + w)) as [t [Ht Hr]]; [lia| |exists t; split; [right|]; auto].
      replace (hi - (lo + w)) with ((hi - lo) + (-1) * w) by lia.
      rewrite Z.div_add by lia. lia.
Qed.

Lemma vis_blocks_fold c h w starts : forall bs i y,
  (forall j, ~ In j (universe c) -> ms_ooo (h_series h j) = []) ->
  vis_blocks (fold_left (fun acc t => add_block (universe c) (ooo_block h t w) acc) starts bs) i y <->
  vis_blocks bs i y \/ exists t, In t starts /\ vis_blk (ooo_block h t w) i y.
Proof.
  induction starts as [|t r IH]; intros bs i y Hu; simpl.
  - split; auto. intros [H|[t [[] _]]]; auto.
  - rewrite IH by auto. rewrite vis_blocks_add.
    + split.
      * intros [[H|H]|[t' [Ht Hv]]]; eauto.
      * intros [H|[t' [[<-|Ht] Hv]]]; eauto.
    + intros j Hj. unfold ooo_block. cbn [b_data]. rewrite (Hu j Hj). reflexivity.
Qed.

Lemma blocks_inv_fold c h w starts : forall bs,
  0 < w -> (forall j, ~ In j (universe c) -> ms_ooo (h_series h j) = []) ->
  blocks_inv c bs ->
  blocks_inv c (fold_left (fun acc t => add_block (universe c) (ooo_block h t w) acc) starts bs).
Proof.
  induction starts as [|t r IH]; intros bs Hw Hu Hb; simpl; auto.
  apply IH; auto. apply blocks_inv_add; auto.
  - intros i y Hy. unfold ooo_block in *. cbn [b_data b_mint b_maxt] in *.
    apply filter_In in Hy. destruct Hy as [_ Hy]. apply in_rng_iff in Hy. lia.
  - intros j Hj. unfold ooo_block. cbn [b_data]. rewrite (Hu j Hj). reflexivity.
Qed.

Lemma ooo_block_vis h t w i y :
  vis_blk (ooo_block h t w) i y <-> In y (ms_ooo (h_series h i)) /\ t <= st y <= t + w - 1.
Proof.
  unfold vis_blk, ooo_block. cbn [b_data b_tomb covered existsb]. rewrite filter_In, in_rng_iff. tauto.
Qed.

Lemma compact_ooo_step c s :
  wf_cfg c -> inv c s ->
  inv c (compact_ooo c s) /\ sequiv (abs (compact_ooo c s)) (abs s).
Proof.
  intros Hw [Hh Hb]. unfold compact_ooo.
  destruct (oooWindow c >? 0); [|split; [split; auto|apply sequiv_refl]].
  set (h := s_head s) in *. set (all := all_ooo (universe c) h).
  destruct all as [|a0 al] eqn:Eall; [split; [split; auto|apply sequiv_refl]|].
  rewrite <- Eall. clear Eall a0 al.
  set (w := chunkRange c). set (lo := rangeStart (lmin all) w). set (hi := lmax all).
  set (starts := ranges lo hi w (Z.to_nat ((hi - lo) / w + 1))).
  pose proof Hh as [Hd Ho Hc Hu Hm].
  assert (Hu' : forall j, ~ In j (universe c) -> ms_ooo (h_series h j) = []) by (intros j Hj; apply Hu; auto).
  assert (Hi0 : head_inv c (clear_ooo h)).
  { constructor; unfold clear_ooo; cbn [h_series h_tomb h_minT h_maxT h_minValid ms_chunks ms_ooo]; auto.
    - intros i y [].
    - intros i Hi. destruct (Hu i Hi). auto. }
  split.
  - split; cbn [s_head s_blocks]; [apply gc_adjust_inv; auto | apply blocks_inv_fold; auto].
  - intros i y. rewrite !in_abs. cbn [s_head s_blocks]. fold h.
    rewrite vis_blocks_fold by auto.
    pose proof (gc_adjust_vis c (clear_ooo h) i y ltac:(destruct Hi0; split; [|split; [|split]]; auto)) as Hv.
    unfold hvis in Hv.
    assert (E1 : vis_io (clear_ooo h) i y <-> vis_io h i y) by (unfold vis_io, clear_ooo; cbn [h_series h_tomb h_minT ms_chunks]; tauto).
    assert (E2 : ~ vis_ooo (clear_ooo h) i y) by (unfold vis_ooo, clear_ooo; cbn [h_series ms_ooo]; intros [[] _]).
    assert (E3 : vis_ooo h i y <-> In y (ms_ooo (h_series h i))) by (unfold vis_ooo; split; [tauto|intros H; split; auto]).
    assert (E4 : (exists t, In t starts /\ vis_blk (ooo_block h t w) i y) <-> In y (ms_ooo (h_series h i))).
    { split.
      - intros [t [_ Hv']]. apply ooo_block_vis in Hv'. tauto.
      - intros Hy.
        assert (Hi : In i (universe c)).
        { destruct (in_dec Z.eq_dec i (universe c)); auto. rewrite (Hu' i n) in Hy. inversion Hy. }
        assert (Hall : In y all) by (unfold all, all_ooo; apply in_flat_map; eauto).
        pose proof (lmin_le _ _ Hall) as L1. pose proof (lmax_ge _ _ Hall) as L2.
        assert (L3 : lo <= lmin all) by (apply rangeStart_le; exact Hw).
        assert (L4 : lo <= st y <= hi) by (split; [apply Z.le_trans with (lmin all); assumption | exact L2]).
        destruct (ranges_cover w hi (st y) Hw (Z.to_nat ((hi - lo) / w + 1)) lo) as [t [Ht Hr]]; [exact L4| |].
        + assert (Hw' : 0 < w) by exact Hw.
          assert (0 <= (hi - lo) / w) by (apply Z.div_pos; lia). rewrite Z2Nat.id; lia.
        + exists t. split; auto. apply ooo_block_vis. split; auto. lia. }
    rewrite E4, E3. tauto.
Qed.

Lemma compact_step c s :
  wf_cfg c -> inv c s -> inv c (compact c s) /\ sequiv (abs (compact c s)) (abs s).
Proof.
  intros Hw Hi. unfold compact.
  set (fuel := if initialized (s_head s) then _ else _).
  pose proof (compact_loop_step c fuel s false Hw Hi) as [Hi1 He1].
  destruct (compact_loop c fuel s false) as [s1 did]. cbn [fst] in *.
  destruct did; [|split; auto].
  destruct (compact_ooo_step c s1 Hw Hi1) as [Hi2 He2]. split; auto. eapply sequiv_trans; eauto.
Qed.

(* ------------------------------------------------------------------ *)
(** * CleanTombstones *)

Lemma clean_step c s : inv c s -> inv c (clean_tombstones c s) /\ sequiv (abs (clean_tombstones c s)) (abs s).
Proof.
  intros [Hh [Hr Hu]]. unfold clean_tombstones.
  set (cb := fun b => mkBlock (b_mint b) (b_maxt b) (b_ooo b)
                (fun i => filter (fun x => negb (covered (b_tomb b i) (st x))) (b_data b i)) (fun _ : sid => @nil ivl)).
  assert (Hcb : forall b i y, vis_blk (cb b) i y <-> vis_blk b i y).
  { intros b i y. unfold vis_blk, cb. cbn [b_data b_tomb covered existsb]. rewrite filter_In, negb_true_iff. tauto. }
  assert (Hin : forall b0, In b0 (flat_map (clean_block (universe c)) (s_blocks s)) ->
                exists b, In b (s_blocks s) /\ (b0 = b \/ b0 = cb b)).
  { intros b0 H. apply in_flat_map in H. destruct H as [b [Hb H]]. exists b. split; auto.
    unfold clean_block in H. fold (cb b) in H. destruct (has_tomb _ b); [|destruct H as [<-|[]]; auto].
    destruct (0 <? _); [destruct H as [<-|[]]; auto | inversion H]. }
  split.
  - split; cbn [s_head s_blocks]; auto. constructor.
    + intros b0 i y H Hy. destruct (Hin b0 H) as [b [Hb [->| ->]]]; [eauto|].
      unfold cb in *. cbn [b_data b_mint b_maxt] in *. apply filter_In in Hy. destruct Hy. eauto.
    + intros b0 i H Hi. destruct (Hin b0 H) as [b [Hb [->| ->]]]; [eauto|].
      unfold cb. cbn [b_data]. rewrite (Hu b i Hb Hi). reflexivity.
  - intros i y. rewrite !in_abs. cbn [s_head s_blocks].
    assert (E : vis_blocks (flat_map (clean_block (universe c)) (s_blocks s)) i y <-> vis_blocks (s_blocks s) i y).
    { unfold vis_blocks. split.
      - intros [b0 [H Hv]]. destruct (Hin b0 H) as [b [Hb [->| ->]]]; [eauto|]. exists b. split; auto. apply Hcb; auto.
      - intros [b [Hb Hv]]. unfold clean_block. fold (cb b).
        destruct (has_tomb (universe c) b) eqn:Et.
        + exists (cb b). split; [|apply Hcb; auto]. apply in_flat_map. exists b. split; auto.
          unfold clean_block. fold (cb b). rewrite Et.
          destruct (0 <? num_samples (universe c) (cb b)) eqn:En; [left; auto|]. exfalso.
          apply Hcb in Hv. destruct Hv as [Hy _].
          destruct (in_dec Z.eq_dec i (universe c)) as [Hi|Hi].
          * rewrite (num_samples_zero _ _ En i Hi) in Hy. inversion Hy.
          * unfold cb in Hy. cbn [b_data] in Hy. rewrite (Hu b i Hb Hi) in Hy. inversion Hy.
        + exists b. split; auto. apply in_flat_map. exists b. split; auto. unfold clean_block. rewrite Et. left; auto. }
    rewrite E. tauto.
Qed.

(* ------------------------------------------------------------------ *)
(** * One step, runs *)

(* Well-formedness of an operation relative to the state it is applied to.
   - Commit: the admission facts of the accepted samples (wf_acc);
   - Delete: no out-of-order head sample of a selected series inside the range (wf_delete);
   - CompactPending (a head compaction while an appender is open): NOT proved, assumed like Restart;
   - Restart: NOT proved here — the step is assumed to re-establish the invariant and to
     preserve the set of visible samples (this is what C01_refinement_partial leaves open). *)
Definition wf_op (c : cfg) (s : state) (o : op) : Prop :=
  match o with
  | Commit l _ f => wf_accs c (init_time (s_head s) f) l
  | Delete mint maxt sel => wf_delete (s_head s) mint maxt sel
  | Restart rl => inv c (step c s o) /\ sequiv (abs (step c s o)) (abs s)
  | CompactPending pend => inv c (step c s o) /\ sequiv (abs (step c s o)) (abs s)
  | _ => True
  end.

Fixpoint wf_ops (c : cfg) (s : state) (ops : list op) : Prop :=
  match ops with
  | [] => True
  | o :: r => wf_op c s o /\ wf_ops c (step c s o) r
  end.

Lemma abs_hvis s i y : In y (abs s i) <-> hvis (s_head s) i y \/ vis_blocks (s_blocks s) i y.
Proof. rewrite in_abs. unfold hvis. tauto. Qed.

Theorem step_refines c s o :
  wf_cfg c -> inv c s -> wf_op c s o ->
  inv c (step c s o) /\ sequiv (abs (step c s o)) (spec_step (abs s) (spec_of_op o)).
Proof.
  intros Hw Hi Hwf. destruct o as [l lg f|mint maxt sel| | | |rl|pend]; cbn [step spec_of_op].
  - (* Commit *)
    destruct Hi as [Hh Hb]. cbn [wf_op] in Hwf.
    destruct (init_time_inv c (s_head s) f Hh) as [Hh0 Hv0].
    destruct (commit_fold c l _ Hh0 Hwf) as [Hh1 Hv1].
    split; [split; auto|]. intros i y. cbn [spec_step]. rewrite in_ack, !abs_hvis.
    unfold commit. cbn [s_head s_blocks]. rewrite Hv1, Hv0. tauto.
  - (* Delete *)
    destruct Hi as [Hh Hb]. cbn [wf_op] in Hwf.
    destruct (head_delete_step c (s_head s) mint maxt sel Hh Hwf) as [Hh1 Hv1].
    split; [split; cbn [delete s_head s_blocks]; auto; apply block_delete_inv; auto|].
    intros i y. rewrite in_sdelete, !abs_hvis. unfold delete. cbn [s_head s_blocks]. rewrite Hv1.
    assert (E : vis_blocks (map (block_delete mint maxt sel) (s_blocks s)) i y <->
                vis_blocks (s_blocks s) i y /\ ~ (In i sel /\ mint <= st y <= maxt)).
    { unfold vis_blocks. split.
      - intros [b [Hin Hv]]. apply in_map_iff in Hin. destruct Hin as [b0 [<- Hb0]].
        apply (block_delete_vis c (s_blocks s) b0 mint maxt sel i y Hb Hb0) in Hv. destruct Hv. eauto.
      - intros [[b [Hin Hv]] Hn]. exists (block_delete mint maxt sel b). split; [apply in_map; auto|].
        apply (block_delete_vis c (s_blocks s) b mint maxt sel i y Hb Hin). auto. }
    rewrite E. tauto.
  - apply compact_step; auto.
  - apply compact_ooo_step; auto.
  - apply clean_step; auto.
  - exact Hwf.
  - exact Hwf.
Qed.

Lemma inv_state0 c : inv c state0.
Proof.
  split; constructor; cbn; auto; try (intros; contradiction); intros i y [c0 [[] _]].
Qed.

Lemma run_refines c : wf_cfg c -> forall ops s sp,
  inv c s -> sequiv (abs s) sp -> wf_ops c s ops ->
  inv c (fold_left (step c) ops s) /\
  sequiv (abs (fold_left (step c) ops s)) (fold_left spec_step (map spec_of_op ops) sp).
Proof.
  intros Hw. induction ops as [|o r IH]; intros s sp Hi He Hwf; simpl; auto.
  destruct Hwf as [Ho Hr]. destruct (step_refines c s o Hw Hi Ho) as [Hi' He'].
  apply IH; auto. eapply sequiv_trans; [exact He'|]. apply spec_step_equiv; auto.
Qed.

(** the answer of the structured model is the specification's answer on its abstraction,
    provided every in-order head sample below Head.MinTime() that the head querier can still
    see (straddling chunk) is also visible in a block *)
Definition dead_covered (s : state) : Prop :=
  forall i y, in_chunks (ms_chunks (h_series (s_head s) i)) y -> st y < h_minT (s_head s) ->
              covered (h_tomb (s_head s) i) (st y) = false -> vis_blocks (s_blocks s) i y.

Lemma query_abs c s mint maxt sel :
  blocks_inv c (s_blocks s) -> dead_covered s ->
  answer_equiv (query s mint maxt sel) (spec_query (abs s) mint maxt sel).
Proof.
  intros [Hr Hu] Hdc. unfold query, spec_query.
  assert (E : forall i x, mint <= st x <= maxt -> (In x (cands s mint maxt i) <-> In x (abs s i))).
  { intros i x Hx. rewrite in_abs. unfold cands. rewrite in_app_iff, in_flat_map.
    assert (EB : (exists b, In b (s_blocks s) /\ In x (if b_overlaps b mint maxt then block_cands b i else []))
                 <-> vis_blocks (s_blocks s) i x).
    { unfold vis_blocks. split.
      - intros [b [Hb Hin]]. destruct (b_overlaps b mint maxt); [|inversion Hin].
        exists b. split; auto. apply in_block_cands; auto.
      - intros [b [Hb Hv]]. exists b. split; auto.
        replace (b_overlaps b mint maxt) with true; [apply in_block_cands; auto|].
        symmetry. destruct Hv as [Hd _]. specialize (Hr b i x Hb Hd). unfold b_overlaps.
        apply andb_true_iff. rewrite Z.leb_le, Z.ltb_lt. lia. }
    rewrite EB. unfold head_cands_q, head_gate.
    destruct ((h_minT (s_head s) <=? maxt) || negb (is_nil (ms_ooo (h_series (s_head s) i)))) eqn:G.
    - rewrite in_app_iff, !filter_In, in_io, !negb_true_iff. unfold vis_io, vis_ooo. split.
      + intros [[[Hin Hc]|[Hin Hc]]|Hb]; auto.
        destruct (Z_lt_le_dec (st x) (h_minT (s_head s))) as [Hlt|Hge]; auto.
      + intros [(Hin & Hm & Hc)|[[Hin Hc]|Hb]]; auto.
    - apply orb_false_iff in G. destruct G as [G1 G2]. apply Z.leb_gt in G1.
      apply negb_false_iff in G2. unfold vis_io, vis_ooo. split.
      + intros [[]|Hb]; auto.
      + intros [(Hin & Hm & Hc)|[[Hin Hc]|Hb]]; auto; [lia|].
        destruct (ms_ooo (h_series (s_head s) i)); [inversion Hin|discriminate]. }
  unfold query_of, answer_equiv. induction sel as [|i sel IH]; simpl; [constructor|].
  assert (E' : forall x, In x (filter (fun x => in_rng mint maxt (st x)) (cands s mint maxt i)) <->
                         In x (filter (fun x => in_rng mint maxt (st x)) (abs s i))).
  { intros x. rewrite !filter_In, in_rng_iff. split; intros [A B]; split; auto; apply (E i x B); auto. }
  destruct (filter (fun x => in_rng mint maxt (st x)) (cands s mint maxt i)) as [|x1 l1] eqn:E1;
  destruct (filter (fun x => in_rng mint maxt (st x)) (abs s i)) as [|x2 l2] eqn:E2; simpl; auto.
  - exfalso. apply (E' x2). left; auto.
  - exfalso. apply (E' x1). left; auto.
  - constructor; auto. simpl. split; auto. apply series_answer_equiv. exact E'.
Qed.

Lemma answer_equiv_trans a b c0 : answer_equiv a b -> answer_equiv b c0 -> answer_equiv a c0.
Proof.
  unfold answer_equiv. intros H. revert c0. induction H as [|p q a b [Hf Hp] Hr IH]; intros c0 H2; inversion H2; subst; constructor.
  - destruct H1 as [Hf' Hp']. split; [congruence|].
    clear -Hp Hp'. unfold pts_equiv in *. revert Hp'. generalize (snd y). induction Hp as [|u v l1 l2 [E1 E2] _ IH]; intros l3 H; inversion H; subst; constructor.
    + destruct H2 as [E3 E4]. split; [congruence|]. intros w. rewrite E2. apply E4.
    + apply IH; auto.
  - apply IH; auto.
Qed.

Theorem refinement_partial c ops :
  wf_cfg c -> wf_ops c state0 ops -> dead_covered (run c ops) ->
  forall mint maxt sel,
    answer_equiv (query (run c ops) mint maxt sel)
                 (spec_query (spec_run (map spec_of_op ops)) mint maxt sel).
Proof.
  intros Hw Hwf Hdc mint maxt sel.
  destruct (run_refines c Hw ops state0 sempty (inv_state0 c)) as [[Hh Hb] He]; auto.
  { intros i x. cbn. tauto. }
  eapply answer_equiv_trans; [apply (query_abs c _ mint maxt sel Hb Hdc)|].
  unfold spec_query, spec_run. apply query_of_equiv. exact He.
Qed.

Theorem abs_run c ops :
  wf_cfg c -> wf_ops c state0 ops ->
  inv c (run c ops) /\ sequiv (abs (run c ops)) (spec_run (map spec_of_op ops)).
Proof.
  intros Hw Hwf. apply (run_refines c Hw ops state0 sempty (inv_state0 c)); auto.
  intros i x. cbn. tauto.
Qed.

(** shape of equivalent answers (used to refute equivalence on concrete answers) *)
Definition shape (a : answer) : list (sid * list Z) := map (fun p => (fst p, map fst (snd p))) a.

Lemma answer_equiv_shape a b : answer_equiv a b -> shape a = shape b.
Proof.
  unfold shape. induction 1 as [|p q a b [Hf Hp] Hr IH]; simpl; auto.
  rewrite IH, Hf. f_equal. f_equal. clear -Hp. induction Hp as [|x y l1 l2 [E _] _ IH]; simpl; congruence.
Qed.

(** a decidable sufficient condition for dead_covered: no in-order head sample below minTime *)
Definition dead_free (c : cfg) (s : state) : bool :=
  forallb (fun i => forallb (fun y => h_minT (s_head s) <=? st y) (io_samples (h_series (s_head s) i))) (universe c).

Lemma dead_free_covered c s : inv c s -> dead_free c s = true -> dead_covered s.
Proof.
  intros [Hh _] Hdf i y Hin Hlt _. exfalso.
  destruct (in_dec Z.eq_dec i (universe c)) as [Hi|Hi].
  - unfold dead_free in Hdf. rewrite forallb_forall in Hdf. specialize (Hdf i Hi).
    rewrite forallb_forall in Hdf. specialize (Hdf y (proj2 (in_io _ _) Hin)). apply Z.leb_le in Hdf. lia.
  - destruct (hi_univ _ _ Hh i Hi) as [A _]. destruct Hin as [c0 [Hc0 _]]. rewrite A in Hc0. inversion Hc0.
Qed.

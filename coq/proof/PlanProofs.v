(* proof/PlanProofs.v — proofs about model/Plan.v (C08). *)
From Coq Require Import List ZArith Bool Lia Permutation.
From Verif Require Import lib.Int64 model.Plan.
Import ListNotations.
Open Scope Z_scope.

(* ------------------------------------------------------------------ generic list facts *)

Fixpoint ordpairs {A} (R : A -> A -> Prop) (l : list A) : Prop :=
  match l with [] => True | x :: tl => Forall (R x) tl /\ ordpairs R tl end.

Lemma ordpairs_app {A} (R : A -> A -> Prop) l1 l2 :
  ordpairs R (l1 ++ l2) <-> ordpairs R l1 /\ ordpairs R l2 /\ (forall x y, In x l1 -> In y l2 -> R x y).
Proof.
  induction l1 as [|a l1 IH]; simpl.
  - split; [intros H; repeat split; auto; intros ? ? [] | intros (_ & H & _); exact H].
  - rewrite IH, Forall_app. rewrite !Forall_forall. split.
    + intros ((Ha1 & Ha2) & H1 & H2 & H3). repeat split; auto.
      intros x y [<-|Hx] Hy; auto.
    + intros ((Ha1 & H1) & H2 & H3). repeat split; auto.
Qed.

Lemma ordpairs_infix {A} (R : A -> A -> Prop) l1 l2 l3 : ordpairs R (l1 ++ l2 ++ l3) -> ordpairs R l2.
Proof. intros H. apply ordpairs_app in H as (_ & H & _). apply ordpairs_app in H as (H & _). exact H. Qed.

Lemma NoDup_app_both {A} (l1 l2 : list A) : NoDup (l1 ++ l2) -> NoDup l1 /\ NoDup l2.
Proof.
  induction l1 as [|a l1 IH]; simpl; intros H; [split; [constructor | exact H]|].
  inversion H as [|? ? Hn Hd]; subst. destruct (IH Hd) as [H1 H2]. split; auto.
  constructor; auto. intros Hin. apply Hn, in_or_app. auto.
Qed.

Lemma NoDup_infix {A} (l1 l2 l3 : list A) : NoDup (l1 ++ l2 ++ l3) -> NoDup l2.
Proof. intros H. apply NoDup_app_both in H as [_ H]. apply NoDup_app_both in H as [H _]. exact H. Qed.

Lemma nodupb_spec l : nodupb l = true <-> NoDup l.
Proof.
  induction l as [|x l IH]; simpl.
  - split; [constructor | reflexivity].
  - rewrite andb_true_iff, negb_true_iff, IH. split.
    + intros [H1 H2]. constructor; auto. intros Hin.
      assert (existsb (Z.eqb x) l = true) by (apply existsb_exists; exists x; split; [auto | apply Z.eqb_refl]).
      congruence.
    + intros H. inversion H as [|? ? Hn Hd]; subst. split; auto.
      destruct (existsb (Z.eqb x) l) eqn:E; auto.
      apply existsb_exists in E as (y & Hy & Hxy). apply Z.eqb_eq in Hxy. subst. contradiction.
Qed.

Lemma memb_spec x l : memb x l = true <-> In x l.
Proof.
  unfold memb. rewrite existsb_exists. split.
  - intros (y & Hy & E). apply Z.eqb_eq in E. subst. exact Hy.
  - intros H. exists x. split; [exact H | apply Z.eqb_refl].
Qed.

Lemma NoDup_map_inj_in {A B} (f : A -> B) l x y :
  NoDup (map f l) -> In x l -> In y l -> f x = f y -> x = y.
Proof.
  induction l as [|a l IH]; simpl; [tauto|]. intros Hnd Hx Hy E.
  inversion Hnd as [|? ? Hn Hd]; subst.
  destruct Hx as [<-|Hx], Hy as [<-|Hy]; auto.
  - exfalso. apply Hn. rewrite E. apply in_map. exact Hy.
  - exfalso. apply Hn. rewrite <- E. apply in_map. exact Hx.
Qed.

Lemma filter_all {A} (f : A -> bool) l : (forall x, In x l -> f x = true) -> filter f l = l.
Proof.
  induction l as [|a l IH]; simpl; auto. intros H. rewrite (H a) by auto. f_equal. apply IH. auto.
Qed.

Lemma filter_nil {A} (f : A -> bool) l : filter f l = [] -> forall x, In x l -> f x = false.
Proof.
  induction l as [|a l IH]; simpl; [tauto|]. destruct (f a) eqn:E; [discriminate|].
  intros H x [<-|Hx]; auto.
Qed.

(* ------------------------------------------------------------------ Prop readings of the spec *)

Definition Smin (x y : meta) : Prop := m_min x <= m_min y.
Definition Dis (x y : meta) : Prop := m_max x <= m_min y.

Lemma sorted_min_spec l : sorted_min l = true <-> ordpairs Smin l.
Proof.
  induction l as [|x l IH]; simpl; [tauto|].
  rewrite andb_true_iff, IH, forallb_forall, Forall_forall. unfold Smin.
  split; intros [H1 H2]; split; auto; intros y Hy; specialize (H1 y Hy); lia.
Qed.

Lemma disjoint_ordered_spec l : disjoint_ordered l = true <-> ordpairs Dis l.
Proof.
  induction l as [|x l IH]; simpl; [tauto|].
  rewrite andb_true_iff, IH, forallb_forall, Forall_forall. unfold Dis.
  split; intros [H1 H2]; split; auto; intros y Hy; specialize (H1 y Hy); lia.
Qed.

Definition saneP (m : meta) : Prop :=
  - two61 <= m_min m /\ m_min m <= m_max m /\ m_max m <= two61 /\
  0 <= m_tomb m < two64' /\ 0 <= m_series m < two64'.

Lemma sane_meta_spec m : sane_meta m = true <-> saneP m.
Proof. unfold sane_meta, saneP. rewrite !andb_true_iff, !Z.leb_le, !Z.ltb_lt. tauto. Qed.

Definition sane_cfgP (c : cfg) : Prop :=
  c_ranges c <> [] /\ Forall (fun r => 0 < r <= two61) (c_ranges c).

Lemma sane_cfg_spec c : sane_cfg c = true <-> sane_cfgP c.
Proof.
  unfold sane_cfg, sane_cfgP. rewrite andb_true_iff, forallb_forall, Forall_forall.
  split; intros [H1 H2]; split.
  - destruct (c_ranges c); [discriminate | congruence].
  - intros r Hr. specialize (H2 r Hr). rewrite andb_true_iff, Z.ltb_lt, Z.leb_le in H2. exact H2.
  - destruct (c_ranges c); [congruence | reflexivity].
  - intros r Hr. specialize (H2 r Hr). rewrite andb_true_iff, Z.ltb_lt, Z.leb_le. exact H2.
Qed.

Definition wfP (c : cfg) (ms : list meta) : Prop := sane_cfgP c /\ Forall saneP ms /\ NoDup (ids ms).

Lemma wf_input_spec c ms : wf_input c ms = true <-> wfP c ms.
Proof.
  unfold wf_input, wfP. rewrite !andb_true_iff, sane_cfg_spec, nodupb_spec, forallb_forall, Forall_forall.
  split.
  - intros ((H1 & H2) & H3). split; [exact H1 | split; [ | exact H3]]. intros m Hm. apply sane_meta_spec; auto.
  - intros (H1 & H2 & H3). split; [split; [exact H1|] | exact H3]. intros m Hm. apply sane_meta_spec; auto.
Qed.

(* ------------------------------------------------------------------ sort_min *)

Lemma ins_perm x l : Permutation (ins x l) (x :: l).
Proof.
  induction l as [|y l IH]; simpl; auto.
  destruct (m_min x <? m_min y); auto.
  rewrite IH. apply perm_swap.
Qed.

Lemma ins_sorted x l : ordpairs Smin l -> ordpairs Smin (ins x l).
Proof.
  induction l as [|y l IH]; simpl; [intros _; split; [constructor | exact I]|].
  intros [Hy Hl]. destruct (m_min x <? m_min y) eqn:E.
  - apply Z.ltb_lt in E. simpl. repeat split; auto.
    constructor; [unfold Smin; lia|]. rewrite Forall_forall in *. intros z Hz. specialize (Hy z Hz). unfold Smin in *. lia.
  - apply Z.ltb_ge in E. simpl. split; [|apply IH; exact Hl].
    rewrite Forall_forall in *. intros z Hz.
    apply (Permutation_in _ (ins_perm x l)) in Hz. destruct Hz as [<-|Hz]; [unfold Smin; lia | auto].
Qed.

Lemma sort_fold_perm l acc : Permutation (fold_left (fun a x => ins x a) l acc) (l ++ acc).
Proof.
  revert acc. induction l as [|x l IH]; intros acc; simpl; auto.
  rewrite IH. rewrite ins_perm. symmetry. apply Permutation_middle.
Qed.

Lemma sort_fold_sorted l acc : ordpairs Smin acc -> ordpairs Smin (fold_left (fun a x => ins x a) l acc).
Proof. revert acc. induction l as [|x l IH]; intros acc H; simpl; auto. apply IH, ins_sorted, H. Qed.

Lemma sort_min_perm l : Permutation (sort_min l) l.
Proof. unfold sort_min. rewrite sort_fold_perm, app_nil_r. reflexivity. Qed.

Lemma sort_min_sorted l : ordpairs Smin (sort_min l).
Proof. apply sort_fold_sorted. exact I. Qed.

(* ------------------------------------------------------------------ selectOverlappingDirs *)

Definition gm_of (g : Z) (l : list meta) : Z := fold_left (fun g d => Z.max g (m_max d)) l g.

Lemma gm_of_app g l d : gm_of g (l ++ [d]) = Z.max (gm_of g l) (m_max d).
Proof. unfold gm_of. rewrite fold_left_app. reflexivity. Qed.

Lemma chained_app g l d : chained g (l ++ [d]) = chained g l && (m_min d <? gm_of g l).
Proof.
  revert g. induction l as [|x l IH]; intros g; simpl.
  - rewrite andb_true_r. reflexivity.
  - rewrite IH, andb_assoc. reflexivity.
Qed.

Lemma gmax_step d gmax : (if m_max d >? gmax then m_max d else gmax) = Z.max gmax (m_max d).
Proof. destruct (Z.gtb_spec (m_max d) gmax); lia. Qed.

Lemma overlap_loop_phase2 ds : forall prev gmax a0 rest,
  rest <> [] -> chained (m_max a0) rest = true -> gmax = gm_of (m_max a0) rest ->
  exists pre suf, overlap_loop prev gmax (a0 :: rest) ds = (a0 :: rest) ++ pre /\ ds = pre ++ suf /\
                  chained (m_max a0) (rest ++ pre) = true.
Proof.
  induction ds as [|d tl IH]; intros prev gmax a0 rest Hne Hch Hg.
  - exists [], []. simpl. rewrite !app_nil_r. auto.
  - cbn [overlap_loop]. rewrite gmax_step. destruct (m_min d <? gmax) eqn:E.
    + destruct (IH d (Z.max gmax (m_max d)) a0 (rest ++ [d])) as (pre & suf & H1 & H2 & H3).
      * destruct rest; discriminate.
      * rewrite chained_app, Hch, <- Hg, E. reflexivity.
      * rewrite gm_of_app, Hg. reflexivity.
      * exists (d :: pre), suf. repeat split.
        -- change ((a0 :: rest) ++ [d]) with (a0 :: (rest ++ [d])). rewrite H1. simpl. rewrite <- app_assoc. reflexivity.
        -- simpl. rewrite H2. reflexivity.
        -- rewrite <- app_assoc in H3. exact H3.
    + exists [], (d :: tl). rewrite !app_nil_r. auto.
Qed.

Definition wfm (d : meta) : Prop := m_min d <= m_max d.

Lemma overlap_loop_phase1 ds : forall prev, Forall wfm ds ->
  (overlap_loop prev (m_max prev) [] ds = [] /\ ordpairs Dis (prev :: ds)) \/
  (exists a0 rest l1 l3, overlap_loop prev (m_max prev) [] ds = a0 :: rest /\ rest <> [] /\
       chained (m_max a0) rest = true /\ prev :: ds = l1 ++ (a0 :: rest) ++ l3).
Proof.
  induction ds as [|d tl IH]; intros prev Hwf.
  - left. simpl. repeat split; constructor.
  - inversion Hwf as [|? ? Hd Htl]; subst. unfold wfm in Hd.
    cbn [overlap_loop]. rewrite gmax_step. destruct (m_min d <? m_max prev) eqn:E.
    + right.
      destruct (overlap_loop_phase2 tl d (Z.max (m_max prev) (m_max d)) prev [d]) as (pre & suf & H1 & H2 & H3).
      * discriminate.
      * simpl. rewrite E. reflexivity.
      * reflexivity.
      * exists prev, (d :: pre), [], suf. repeat split.
        -- exact H1.
        -- discriminate.
        -- exact H3.
        -- simpl. rewrite H2. reflexivity.
    + apply Z.ltb_ge in E. replace (Z.max (m_max prev) (m_max d)) with (m_max d) by lia.
      destruct (IH d Htl) as [[Hr Ho] | (a0 & rest & l1 & l3 & Hr & Hne & Hch & Heq)].
      * left. split; [exact Hr|]. simpl. split; [|exact Ho].
        constructor; [unfold Dis; lia|]. destruct Ho as [Ho _]. rewrite Forall_forall in *.
        intros y Hy. specialize (Ho y Hy). unfold Dis in *. lia.
      * right. exists a0, rest, (prev :: l1), l3. repeat split; auto. simpl. rewrite Heq. reflexivity.
Qed.

Lemma select_overlapping_spec c s : Forall wfm s ->
  (select_overlapping c s = [] /\ (c_overlap c = true -> ordpairs Dis s)) \/
  (c_overlap c = true /\ exists a0 rest l1 l3, select_overlapping c s = a0 :: rest /\ rest <> [] /\
       chained (m_max a0) rest = true /\ s = l1 ++ (a0 :: rest) ++ l3).
Proof.
  intros Hwf. unfold select_overlapping. destruct (c_overlap c) eqn:Eo; simpl.
  2:{ left. split; [reflexivity | discriminate]. }
  destruct s as [|d0 [|d1 tl]].
  - left. split; [reflexivity | intros _; exact I].
  - left. split; [reflexivity | intros _; simpl; repeat split; constructor].
  - inversion Hwf as [|? ? _ Htl]; subst.
    destruct (overlap_loop_phase1 (d1 :: tl) d0 Htl) as [[Hr Ho] | H].
    + left. split; auto.
    + right. split; auto.
Qed.

(* ------------------------------------------------------------------ splitByRange *)

Definition split_inv (tr : Z) (cur : option (Z * list meta)) (g0 : list meta) : Prop :=
  match cur with
  | None => g0 = []
  | Some (lim, g) => g0 = g /\ exists f g', g = f :: g' /\ lim = lim_of tr f /\ Forall (fun x => m_max x <= lim) g
  end.

Definition group_spec (tr : Z) (p : list meta) : Prop :=
  exists f p', p = f :: p' /\ Forall (fun x => m_max x <= lim_of tr f) p.

Definition fresh_of (tr : Z) (d : meta) : option (Z * list meta) :=
  if m_max d >? lim_of tr d then None else Some (lim_of tr d, [d]).
Definition fresh_g0 (tr : Z) (d : meta) : list meta :=
  if m_max d >? lim_of tr d then [] else [d].

Lemma fresh_inv tr d : split_inv tr (fresh_of tr d) (fresh_g0 tr d).
Proof.
  unfold fresh_of, fresh_g0. destruct (Z.gtb_spec (m_max d) (lim_of tr d)); simpl; auto.
  split; auto. exists d, []. repeat split. constructor; [lia | constructor].
Qed.

Lemma fresh_infix tr d tl pre p l1 l3 :
  fresh_g0 tr d ++ tl = l1 ++ p ++ l3 -> exists l1', pre ++ d :: tl = l1' ++ p ++ l3.
Proof.
  unfold fresh_g0. destruct (m_max d >? lim_of tr d); simpl; intros H.
  - exists (pre ++ d :: l1). rewrite H, <- app_assoc. reflexivity.
  - exists (pre ++ l1). rewrite <- app_assoc, <- H. reflexivity.
Qed.

Lemma split_go_spec tr ds : forall cur g0, split_inv tr cur g0 ->
  forall p, In p (split_go tr cur ds) -> group_spec tr p /\ exists l1 l3, g0 ++ ds = l1 ++ p ++ l3.
Proof.
  induction ds as [|d tl IH]; intros cur g0 Hinv p Hp.
  - simpl in Hp. destruct cur as [[lim g]|]; [|contradiction].
    destruct Hp as [<-|[]]. destruct Hinv as (-> & f & g' & Hg & Hlim & Hall). split.
    + exists f, g'. subst lim. auto.
    + exists [], []. rewrite !app_nil_r. reflexivity.
  - cbn [split_go] in Hp. fold (fresh_of tr d) in Hp. destruct cur as [[lim g]|].
    + destruct Hinv as (-> & f & g' & Hg & Hlim & Hall).
      destruct (Z.gtb_spec (m_max d) lim) as [Hgt|Hle].
      * destruct Hp as [<-|Hp].
        -- split; [exists f, g'; subst lim; auto|]. exists [], (d :: tl). reflexivity.
        -- destruct (IH _ _ (fresh_inv tr d) p Hp) as (Hs & l1 & l3 & Heq). split; auto.
           destruct (fresh_infix tr d tl g p l1 l3 Heq) as (l1' & H'). exists l1', l3. exact H'.
      * assert (Hinv' : split_inv tr (Some (lim, g ++ [d])) (g ++ [d])).
        { split; auto. exists f, (g' ++ [d]). subst g. repeat split; auto.
          apply Forall_app. split; auto. }
        destruct (IH _ _ Hinv' p Hp) as (Hs & l1 & l3 & Heq). split; auto.
        exists l1, l3. rewrite <- Heq, <- app_assoc. reflexivity.
    + simpl in Hinv. subst g0.
      destruct (IH _ _ (fresh_inv tr d) p Hp) as (Hs & l1 & l3 & Heq). split; auto.
      destruct (fresh_infix tr d tl [] p l1 l3 Heq) as (l1' & H'). exists l1', l3. exact H'.
Qed.

Lemma split_by_range_spec tr ds p : In p (split_by_range ds tr) ->
  group_spec tr p /\ exists l1 l3, ds = l1 ++ p ++ l3.
Proof. intros H. apply (split_go_spec tr ds None [] eq_refl p H). Qed.

(* ------------------------------------------------------------------ arithmetic without wrap-around *)

Lemma wrap_small z : - (4 * two61) <= z < 4 * two61 -> wrap64 z = z.
Proof. intros H. apply wrap64_id. unfold int64, minInt64, maxInt64, two61 in *. lia. Qed.

Lemma t0_of_floor iv mint : 0 < iv <= two61 -> - two61 <= mint <= two61 ->
  t0_of iv mint = iv * (mint / iv) /\ iv * (mint / iv) <= mint < iv * (mint / iv) + iv.
Proof.
  intros Hiv Hm.
  pose proof (Z.div_mod mint iv ltac:(lia)) as Hdm.
  pose proof (Z.mod_pos_bound mint iv ltac:(lia)) as Hmod.
  set (q := mint / iv) in *. set (r := mint mod iv) in *.
  split; [|lia].
  unfold t0_of, mul64, div64, godiv, add64, sub64.
  destruct (Z.leb_spec 0 mint) as [Hp|Hn].
  - rewrite Z.quot_div_nonneg by lia. fold q.
    assert (0 <= q) by (apply Z.div_pos; lia).
    assert (q <= mint) by nia.
    rewrite (wrap_small q) by (unfold two61 in *; lia).
    apply wrap_small. unfold two61 in *. nia.
  - rewrite (wrap_small (mint - iv)) by (unfold two61 in *; lia).
    rewrite (wrap_small (mint - iv + 1)) by (unfold two61 in *; lia).
    assert (Hq : Z.quot (mint - iv + 1) iv = q).
    { replace (mint - iv + 1) with (- (iv - 1 - mint)) by lia.
      rewrite Z.quot_opp_l by lia. rewrite Z.quot_div_nonneg by lia.
      assert (Hd : (iv - 1 - mint) / iv = - q).
      { symmetry. apply Z.div_unique with (iv - 1 - r); lia. }
      rewrite Hd. lia. }
    rewrite Hq.
    assert (q < 0) by nia.
    assert (iv * q <= q) by nia.
    rewrite (wrap_small q) by (unfold two61 in *; lia).
    apply wrap_small. unfold two61 in *. lia.
Qed.

Lemma lim_of_floor iv d : 0 < iv <= two61 -> saneP d ->
  lim_of iv d = iv * (m_min d / iv) + iv /\ iv * (m_min d / iv) <= m_min d.
Proof.
  intros Hiv (H1 & H2 & H3 & _). unfold lim_of.
  destruct (t0_of_floor iv (m_min d) Hiv ltac:(lia)) as (-> & Hb). split; [|lia].
  unfold add64. apply wrap_small. unfold two61 in *. lia.
Qed.

(* ------------------------------------------------------------------ selectDirs, tombstone scan *)

Lemma select_ranges_spec ds high rs r : select_ranges ds high rs = Ok r -> r <> [] ->
  exists iv, In iv rs /\ In r (split_by_range ds iv) /\ group_ok iv high r = true.
Proof.
  induction rs as [|iv rs IH]; simpl; intros H Hne.
  - inversion H. congruence.
  - destruct (iv =? 0); [discriminate|].
    destruct (find (group_ok iv high) (split_by_range ds iv)) eqn:Ef.
    + inversion H; subst. apply find_some in Ef as [Hin Hok]. exists iv. auto.
    + destruct (IH H Hne) as (iv' & Hin & Hr). exists iv'. auto.
Qed.

Definition tomb_cond (mid : Z) (b : meta) : bool :=
  if sub64 (m_max b) (m_min b) <? mid then tomb_all_deleted b else tomb_ratio_big b.

Lemma tomb_scan_spec mid l :
  tomb_scan mid l = [] \/ exists b, tomb_scan mid l = [b] /\ In b l /\ tomb_cond mid b = true.
Proof.
  induction l as [|v tl IH]; simpl; [left; reflexivity|].
  destruct (sub64 (m_max v) (m_min v) <? mid) eqn:E1.
  - destruct (tomb_all_deleted v) eqn:E2; [right | left; reflexivity].
    exists v. unfold tomb_cond. rewrite E1. auto.
  - destruct (tomb_ratio_big v) eqn:E2.
    + right. exists v. unfold tomb_cond. rewrite E1. auto.
    + destruct IH as [IH | (b & Hb & Hin & Hc)]; [left; exact IH | right]. exists b. auto.
Qed.

Lemma tomb_cond_rule c mid b : saneP b -> mid_range c = Some mid -> tomb_cond mid b = true ->
  tomb_rule c b = true /\ (0 <? m_tomb b) = true.
Proof.
  intros (H1 & H2 & H3 & H4 & H5) Hmid Hc. unfold tomb_rule, tomb_cond in *. rewrite Hmid.
  unfold sub64 in Hc. rewrite wrap_small in Hc by (unfold two61 in *; lia).
  split; [exact Hc|].
  destruct (m_max b - m_min b <? mid).
  - unfold tomb_all_deleted in Hc. apply andb_true_iff in Hc as [Hc _]. exact Hc.
  - unfold tomb_ratio_big, u64 in Hc. apply Z.gtb_lt in Hc. apply Z.ltb_lt.
    pose proof (Z.mod_pos_bound (m_series b + 1) two64 ltac:(unfold two64; lia)). lia.
Qed.

(* ------------------------------------------------------------------ excluding the newest block *)

Lemma excludes_newest_intro kl s s' n ps :
  s = s' ++ [n] -> Permutation s kl -> NoDup (ids s) -> ordpairs Smin s -> incl ps s' ->
  excludes_newest kl ps = true.
Proof.
  intros Hs Hperm Hnd Hsort Hincl. unfold excludes_newest. apply existsb_exists. exists n. split.
  - apply (Permutation_in _ Hperm). subst s. apply in_or_app. right. left. reflexivity.
  - apply andb_true_iff. split.
    + apply negb_true_iff. destruct (memb (m_id n) (ids ps)) eqn:E; [|reflexivity]. exfalso.
      apply memb_spec in E. unfold ids in E. apply in_map_iff in E as (x & Hx & Hin).
      apply Hincl in Hin. subst s. unfold ids in Hnd. rewrite map_app in Hnd. simpl in Hnd.
      apply NoDup_remove_2 in Hnd. apply Hnd. rewrite app_nil_r. rewrite <- Hx. apply in_map. exact Hin.
    + apply forallb_forall. intros x Hx. apply Z.leb_le. apply Hincl in Hx. subst s.
      apply ordpairs_app in Hsort as (_ & _ & H). apply (H x n Hx). left. reflexivity.
Qed.

(* ------------------------------------------------------------------ planClass *)

Lemma infix_incl {A} (l l1 p l3 : list A) : l = l1 ++ p ++ l3 -> incl p l.
Proof. intros -> x Hx. apply in_or_app. right. apply in_or_app. left. exact Hx. Qed.

Lemma infix_nodup_ids l l1 p l3 : l = l1 ++ p ++ l3 -> NoDup (ids l) -> NoDup (ids p).
Proof. intros -> H. unfold ids in *. rewrite !map_app in H. apply NoDup_infix in H. exact H. Qed.

Lemma sane_wfm l : Forall saneP l -> Forall wfm l.
Proof. apply Forall_impl. intros a (H1 & H2 & _). exact H2. Qed.

Definition shape3 (c : cfg) (kl ps : list meta) : Prop :=
  (c_overlap c = true /\ overlap_group ps = true) \/ range_group c kl ps = true \/ tomb_single c kl ps = true.

Lemma plan_class_shape c kl ps : sane_cfgP c -> Forall saneP kl -> NoDup (ids kl) ->
  plan_class c kl = Ok ps -> ps <> [] ->
  incl ps kl /\ NoDup (ids ps) /\ shape3 c kl ps.
Proof.
  intros (Hcne & Hrs) Hsane Hnd Hplan Hne.
  unfold plan_class in Hplan. destruct kl as [|k0 kl'] eqn:Ekl; [inversion Hplan; congruence|].
  assert (Hklne : k0 :: kl' <> []) by discriminate.
  rewrite <- Ekl in *. clear kl' Ekl.
  pose proof (sort_min_perm kl) as Hperm. pose proof (sort_min_sorted kl) as Hsort.
  set (s := sort_min kl) in *.
  assert (Hs_sane : Forall saneP s).
  { rewrite Forall_forall in *. intros x Hx. apply Hsane. apply (Permutation_in _ Hperm). exact Hx. }
  assert (Hs_nd : NoDup (ids s)).
  { unfold ids. apply (Permutation_NoDup (l := map m_id kl)); [|exact Hnd].
    apply Permutation_map. symmetry. exact Hperm. }
  assert (Hs_incl : incl s kl) by (intros x Hx; apply (Permutation_in _ Hperm); exact Hx).
  destruct (select_overlapping_spec c s (sane_wfm s Hs_sane))
    as [[Hr Ho] | (Eo & a0 & rest & l1 & l3 & Hr & Hrne & Hch & Heq)]; rewrite Hr in Hplan.
  2:{ (* overlap group *)
    inversion Hplan; subst ps. split; [|split].
    - intros x Hx. apply Hs_incl. apply (infix_incl _ _ _ _ Heq). exact Hx.
    - apply (infix_nodup_ids _ _ _ _ Heq Hs_nd).
    - left. split; [exact Eo|]. unfold overlap_group. destruct rest as [|r1 rest']; [congruence|].
      apply andb_true_iff. split; [|exact Hch].
      apply sorted_min_spec. rewrite Heq in Hsort. apply ordpairs_infix in Hsort. exact Hsort. }
  (* no overlap group: the newest block is dropped *)
  assert (Hsne : s <> []).
  { intros E. rewrite E in Hperm. apply Permutation_nil in Hperm. congruence. }
  destruct (exists_last Hsne) as (s' & n & Hsn).
  assert (Hrl : removelast s = s') by (rewrite Hsn; apply removelast_last).
  rewrite Hrl in Hplan.
  assert (Hs'_incl : incl s' s) by (intros x Hx; rewrite Hsn; apply in_or_app; left; exact Hx).
  assert (Hexcl : forall ps, incl ps s' -> excludes_newest kl ps = true).
  { intros ps0 Hi. eapply excludes_newest_intro; eauto. }
  assert (Hs'_sort : ordpairs Smin s').
  { rewrite Hsn in Hsort. apply ordpairs_app in Hsort as (H & _). exact H. }
  assert (Hs'_nd : NoDup (ids s')).
  { rewrite Hsn in Hs_nd. unfold ids in *. rewrite map_app in Hs_nd. apply NoDup_app_both in Hs_nd as [H _]. exact H. }
  destruct (select_dirs c s') as [r|] eqn:Esd; [|discriminate].
  destruct r as [|x r'].
  - (* tombstone rule *)
    destruct s' as [|y s''] eqn:Es'; [inversion Hplan; congruence|]. rewrite <- Es' in *.
    destruct (mid_range c) as [mid|] eqn:Emid; [|discriminate].
    inversion Hplan as [Hps]. clear Hplan.
    destruct (tomb_scan_spec mid (rev s')) as [Hnil | (b & Hb & Hin & Hc)]; [congruence|].
    rewrite Hb in *. apply in_rev in Hin.
    assert (Hbs : saneP b).
    { rewrite Forall_forall in Hs_sane. apply Hs_sane, Hs'_incl, Hin. }
    destruct (tomb_cond_rule c mid b Hbs Emid Hc) as [Hrule Hpos].
    split; [|split].
    + intros z Hz; simpl in Hz; destruct Hz as [<-|[]]. apply Hs_incl, Hs'_incl, Hin.
    + simpl. constructor; [intros [] | constructor].
    + right. right. unfold tomb_single. rewrite Hrule, Hpos. simpl.
      apply Hexcl. intros z Hz; simpl in Hz; destruct Hz as [<-|[]]. exact Hin.
  - (* range group *)
    inversion Hplan; subst ps. clear Hplan.
    unfold select_dirs in Esd. destruct (c_ranges c) as [|r0 [|r1 rs]] eqn:Er; try discriminate.
    destruct s' as [|y s''] eqn:Es'; [discriminate|]. rewrite <- Es' in *.
    destruct (select_ranges_spec _ _ _ _ Esd ltac:(discriminate)) as (iv & Hiv & Hing & Hok).
    destruct (split_by_range_spec _ _ _ Hing) as ((f & p' & Hf & Hall) & l1 & l3 & Heq).
    assert (Hfx : f = x /\ p' = r') by (inversion Hf; auto). destruct Hfx as [-> ->]. clear Hf.
    assert (Hinc : incl (x :: r') s') by (apply (infix_incl _ _ _ _ Heq)).
    assert (Hsorted : ordpairs Smin (x :: r')).
    { rewrite Heq in Hs'_sort. apply ordpairs_infix in Hs'_sort. exact Hs'_sort. }
    assert (Hiv_ok : 0 < iv <= two61).
    { rewrite Forall_forall in Hrs. apply Hrs. right. exact Hiv. }
    assert (Hxs : saneP x).
    { rewrite Forall_forall in Hs_sane. apply Hs_sane, Hs'_incl, Hinc. left. reflexivity. }
    destruct (lim_of_floor iv x Hiv_ok Hxs) as [Hlim Hlow].
    unfold group_ok in Hok. apply andb_true_iff in Hok as [Hnf Hok].
    apply andb_true_iff in Hok as [_ Hlen].
    split; [|split].
    + intros z Hz. apply Hs_incl, Hs'_incl, Hinc, Hz.
    + apply (infix_nodup_ids _ _ _ _ Heq Hs'_nd).
    + right. left. unfold range_group. rewrite Hnf. rewrite (Hexcl _ Hinc).
      assert (Hso : sorted_min (x :: r') = true) by (apply sorted_min_spec; exact Hsorted).
      rewrite Hso.
      assert (Hl2 : (2 <=? Z.of_nat (length (x :: r'))) = true).
      { apply Z.ltb_lt in Hlen. apply Z.leb_le. lia. }
      rewrite Hl2.
      assert (Hwin : existsb (fun iv0 => within_range iv0 (x :: r')) (tl (c_ranges c)) = true).
      { apply existsb_exists. exists iv. split; [rewrite Er; exact Hiv|].
        unfold within_range. apply existsb_exists. exists x. split; [left; reflexivity|].
        apply forallb_forall. intros z Hz. unfold in_window. apply andb_true_iff.
        rewrite Forall_forall in Hall. specialize (Hall z Hz). rewrite Hlim in Hall.
        split; [apply Z.leb_le | apply Z.leb_le; exact Hall].
        destruct Hz as [<-|Hz]; [exact Hlow|].
        destruct Hsorted as [Hx _]. rewrite Forall_forall in Hx. specialize (Hx z Hz). unfold Smin in Hx. lia. }
      rewrite Hwin.
      assert (Hdis : (if c_overlap c then disjoint_ordered (x :: r') else true) = true).
      { destruct (c_overlap c) eqn:Eo; [|reflexivity]. apply disjoint_ordered_spec.
        specialize (Ho eq_refl). rewrite Hsn in Ho. apply ordpairs_app in Ho as (Ho & _).
        rewrite Heq in Ho. apply ordpairs_infix in Ho. exact Ho. }
      rewrite Hdis. reflexivity.
Qed.

(* ------------------------------------------------------------------ plan *)

Lemma cls_eqb_eq a b : cls_eqb a b = true <-> a = b.
Proof. destruct a, b; simpl; split; intros H; try reflexivity; try discriminate. Qed.

Lemma of_class_in k ms x : In x (of_class k ms) <-> In x ms /\ class_of x = k.
Proof. unfold of_class. rewrite filter_In, cls_eqb_eq. tauto. Qed.

Lemma of_class_sane k ms : Forall saneP ms -> Forall saneP (of_class k ms).
Proof. rewrite !Forall_forall. intros H x Hx. apply of_class_in in Hx as [Hx _]. auto. Qed.

Lemma filter_nodup_ids f ms : NoDup (ids ms) -> NoDup (ids (filter f ms)).
Proof.
  induction ms as [|m ms IH]; simpl; intros H; [constructor|].
  inversion H as [|? ? Hn Hd]; subst. destruct (f m); simpl; auto.
  constructor; auto. intros Hin. apply Hn. unfold ids in *. apply in_map_iff in Hin as (x & Hx & Hin).
  apply filter_In in Hin as [Hin _]. rewrite <- Hx. apply in_map. exact Hin.
Qed.

Lemma nonempty_of_class ms x : In x ms -> nonempty (of_class (class_of x) ms) = true.
Proof.
  intros H. assert (Hin : In x (of_class (class_of x) ms)) by (apply of_class_in; auto).
  destruct (of_class (class_of x) ms); [contradiction | reflexivity].
Qed.

Definition n_classes (ms : list meta) : Z :=
  (if nonempty (of_class Stale ms) then 1 else 0) + (if nonempty (of_class Selected ms) then 1 else 0)
  + (if nonempty (of_class Regular ms) then 1 else 0).

Lemma single_class ms m0 : In m0 ms -> (1 <? n_classes ms) = false -> of_class (class_of m0) ms = ms.
Proof.
  intros H0 Hc. apply Z.ltb_ge in Hc. unfold of_class. apply filter_all. intros x Hx.
  apply cls_eqb_eq.
  pose proof (nonempty_of_class ms x Hx) as Nx. pose proof (nonempty_of_class ms m0 H0) as N0.
  unfold n_classes in Hc.
  destruct (class_of x), (class_of m0); try reflexivity; exfalso;
    rewrite Nx, N0 in Hc;
    destruct (nonempty (of_class Stale ms)), (nonempty (of_class Selected ms)), (nonempty (of_class Regular ms)); lia.
Qed.

Lemma shape_to_bool c ms k ps : ps <> [] -> incl ps (of_class k ms) -> NoDup (ids ps) ->
  shape3 c (of_class k ms) ps -> plan_shape c ms ps = true.
Proof.
  intros Hne Hincl Hnd Hsh. destruct ps as [|b ps']; [congruence|].
  assert (Hk : class_of b = k) by (apply (of_class_in k ms b), Hincl; left; reflexivity).
  unfold plan_shape. rewrite Hk.
  assert (H1 : same_class k (b :: ps') = true).
  { apply forallb_forall. intros x Hx. apply cls_eqb_eq. apply (of_class_in k ms x), Hincl, Hx. }
  assert (H2 : nodupb (ids (b :: ps')) = true) by (apply nodupb_spec; exact Hnd).
  assert (H3 : forallb (fun x => memb (m_id x) (ids ms)) (b :: ps') = true).
  { apply forallb_forall. intros x Hx. apply memb_spec. apply in_map.
    apply (of_class_in k ms x), Hincl, Hx. }
  rewrite H1, H2, H3. cbn [andb].
  destruct Hsh as [[Ho Hg] | [Hg | Hg]]; rewrite ?Ho, Hg; cbn [andb orb]; rewrite ?orb_true_r; reflexivity.
Qed.

Lemma plan_class_of_class c ms k ps : wfP c ms -> plan_class c (of_class k ms) = Ok ps -> ps <> [] ->
  plan_shape c ms ps = true /\ incl ps ms /\ NoDup (ids ps).
Proof.
  intros (Hc & Hs & Hn) Hp Hne.
  destruct (plan_class_shape c (of_class k ms) ps Hc (of_class_sane k ms Hs) (filter_nodup_ids _ ms Hn) Hp Hne)
    as (Hi & Hd & Hsh).
  split; [eapply shape_to_bool; eauto | split; [|exact Hd]].
  intros x Hx. apply Hi in Hx. apply of_class_in in Hx as [Hx _]. exact Hx.
Qed.

Lemma plan_metas_shape_incl c ms ps : wfP c ms -> plan_metas c ms = Ok ps ->
  plan_shape c ms ps = true /\ incl ps ms /\ NoDup (ids ps).
Proof.
  intros Hwf Hp. destruct ps as [|b ps'] eqn:Eps.
  { split; [reflexivity | split; [intros x [] | constructor]]. }
  rewrite <- Eps in *.
  assert (Hne : ps <> []) by (rewrite Eps; discriminate).
  unfold plan_metas in Hp. destruct ms as [|m0 ms'] eqn:Ems; [inversion Hp; congruence|].
  rewrite <- Ems in *. fold (n_classes ms) in Hp.
  destruct (1 <? n_classes ms) eqn:Ec.
  - destruct (plan_class c (of_class Regular ms)) as [[|x1 r1]|] eqn:E1; [| |discriminate].
    + destruct (plan_class c (of_class Stale ms)) as [[|x2 r2]|] eqn:E2; [| |discriminate].
      * exact (plan_class_of_class c ms Selected ps Hwf Hp Hne).
      * inversion Hp as [Hp']. rewrite Hp' in E2 |- *. exact (plan_class_of_class c ms Stale ps Hwf E2 Hne).
    + inversion Hp as [Hp']. rewrite Hp' in E1 |- *. exact (plan_class_of_class c ms Regular ps Hwf E1 Hne).
  - assert (H0 : In m0 ms) by (rewrite Ems; left; reflexivity).
    rewrite <- (single_class ms m0 H0 Ec) in Hp. exact (plan_class_of_class c ms _ ps Hwf Hp Hne).
Qed.

Lemma plan_metas_shape c ms ps : wfP c ms -> plan_metas c ms = Ok ps -> plan_shape c ms ps = true.
Proof. intros H1 H2. apply (plan_metas_shape_incl c ms ps H1 H2). Qed.

(* the theorem on what LeveledCompactor.plan returns (directory names) *)
Lemma plan_shape_thm c ms p : wf_input c ms = true -> plan c ms = Ok p ->
  exists ps, p = ids ps /\ plan_shape c ms ps = true.
Proof.
  intros Hwf Hp. apply wf_input_spec in Hwf. unfold plan in Hp.
  destruct (plan_metas c ms) as [ps|] eqn:E; [|discriminate]. inversion Hp; subst p.
  exists ps. split; [reflexivity|]. apply plan_metas_shape; assumption.
Qed.

(* no panic on sane input *)
Lemma select_ranges_no_panic ds high rs :
  Forall (fun r => 0 < r <= two61) rs -> select_ranges ds high rs <> Panic.
Proof.
  induction 1 as [|iv rs' Hiv Hall IH]; simpl; [discriminate|].
  destruct (Z.eqb_spec iv 0); [lia|].
  destruct (find (group_ok iv high) (split_by_range ds iv)); [discriminate | exact IH].
Qed.

Lemma plan_class_no_panic c kl : sane_cfgP c -> plan_class c kl <> Panic.
Proof.
  intros (Hne & Hrs). unfold plan_class. destruct kl as [|k0 kl']; [discriminate|].
  destruct (select_overlapping c (sort_min (k0 :: kl'))); [|discriminate].
  assert (Hsd : select_dirs c (removelast (sort_min (k0 :: kl'))) <> Panic).
  { unfold select_dirs. destruct (c_ranges c) as [|r0 [|r1 rs]] eqn:Er; try discriminate.
    destruct (removelast (sort_min (k0 :: kl'))); [discriminate|].
    assert (Hall : Forall (fun r => 0 < r <= two61) (r1 :: rs)) by (inversion Hrs; assumption).
    apply select_ranges_no_panic. exact Hall. }
  destruct (select_dirs c (removelast (sort_min (k0 :: kl')))) as [[|x r]|]; try discriminate; [|congruence].
  destruct (removelast (sort_min (k0 :: kl'))); [discriminate|].
  assert (Hmid : mid_range c <> None).
  { unfold mid_range. intros E. apply nth_error_None in E.
    destruct (c_ranges c) as [|r0 rs]; [congruence|].
    pose proof (Nat.div_lt (length (r0 :: rs)) 2 ltac:(simpl; lia) ltac:(lia)). lia. }
  destruct (mid_range c); [discriminate | congruence].
Qed.

Lemma plan_no_panic c ms : wf_input c ms = true -> exists p, plan c ms = Ok p.
Proof.
  intros Hwf. apply wf_input_spec in Hwf as (Hc & _).
  assert (H : plan_metas c ms <> Panic).
  { unfold plan_metas. destruct ms as [|m0 ms']; [discriminate|].
    pose proof (plan_class_no_panic c (of_class Regular (m0 :: ms')) Hc).
    pose proof (plan_class_no_panic c (of_class Stale (m0 :: ms')) Hc).
    pose proof (plan_class_no_panic c (of_class Selected (m0 :: ms')) Hc).
    pose proof (plan_class_no_panic c (m0 :: ms') Hc).
    destruct (1 <? _); [|assumption].
    destruct (plan_class c (of_class Regular (m0 :: ms'))) as [[|? ?]|]; try discriminate; try congruence.
    destruct (plan_class c (of_class Stale (m0 :: ms'))) as [[|? ?]|]; try discriminate; try congruence. }
  unfold plan. destruct (plan_metas c ms) as [ps|]; [eexists; reflexivity | congruence].
Qed.

(* class segregation, read off plan_shape *)
Lemma plan_shape_same_class c ms ps : plan_shape c ms ps = true ->
  forall x y, In x ps -> In y ps -> class_of x = class_of y.
Proof.
  destruct ps as [|b ps']; [intros _ x y []|]. unfold plan_shape.
  rewrite !andb_true_iff. intros (((Hs & _) & _) & _) x y Hx Hy.
  unfold same_class in Hs. rewrite forallb_forall in Hs.
  pose proof (Hs x Hx) as H1. pose proof (Hs y Hy) as H2. apply cls_eqb_eq in H1, H2. congruence.
Qed.

(* ------------------------------------------------------------------ CompactBlockMetas: hints *)

Lemma existsb_false_in {A} (f : A -> bool) l x : existsb f l = false -> In x l -> f x = false.
Proof.
  intros E Hx. destruct (f x) eqn:Ef; [|reflexivity].
  assert (existsb f l = true) by (apply existsb_exists; eauto). congruence.
Qed.

(* the out-of-order hint is set iff every input has it; a partial-view hint iff some input has it *)
Lemma cbm_hint_values uid bs r : compact_block_metas uid bs = Ok r ->
  m_ooo r = forallb m_ooo bs /\ m_stale r = existsb m_stale bs /\ m_sel r = existsb m_sel bs.
Proof.
  unfold compact_block_metas. destruct bs as [|b bs']; [discriminate|]. intros H. inversion H; subst r.
  cbn [m_ooo m_stale m_sel]. auto.
Qed.

Lemma class_of_merge l b : In b l -> same_class (class_of b) l = true ->
  (if existsb m_stale l then Stale else if existsb m_sel l then Selected else Regular) = class_of b.
Proof.
  intros Hb Es. unfold same_class in Es. rewrite forallb_forall in Es.
  destruct (existsb m_stale l) eqn:E1.
  - apply existsb_exists in E1 as (x & Hx & Hsx). specialize (Es x Hx). apply cls_eqb_eq in Es.
    unfold class_of in Es at 1. rewrite Hsx in Es. exact Es.
  - destruct (existsb m_sel l) eqn:E2.
    + apply existsb_exists in E2 as (x & Hx & Hsx). specialize (Es x Hx). apply cls_eqb_eq in Es.
      unfold class_of in Es at 1. rewrite (existsb_false_in _ _ x E1 Hx), Hsx in Es. exact Es.
    + unfold class_of. rewrite (existsb_false_in _ _ b E1 Hb), (existsb_false_in _ _ b E2 Hb). reflexivity.
Qed.

Lemma cbm_hints uid bs r : compact_block_metas uid bs = Ok r -> hints_ok bs r = true.
Proof.
  intros H. destruct (cbm_hint_values uid bs r H) as (Ho & Hs & Hse).
  unfold hints_ok. rewrite Ho, Hs, Hse, !eqb_reflx. cbn [andb].
  destruct bs as [|b bs']; [reflexivity|].
  destruct (same_class (class_of b) (b :: bs')) eqn:Es; [|reflexivity].
  apply cls_eqb_eq. unfold class_of at 1. rewrite Hs, Hse.
  apply class_of_merge; [left; reflexivity | exact Es].
Qed.

Lemma cbm_total uid bs : bs <> [] -> exists r, compact_block_metas uid bs = Ok r.
Proof. destruct bs; [congruence|]. intros _. eexists. reflexivity. Qed.

(* merging a plan keeps the class of its blocks *)
Lemma plan_merge_class c ms ps uid r : wf_input c ms = true -> plan_metas c ms = Ok ps ->
  compact_block_metas uid ps = Ok r ->
  (forall x, In x ps -> class_of r = class_of x) /\ (m_ooo r = true <-> forall x, In x ps -> m_ooo x = true).
Proof.
  intros Hwf Hp Hc. apply wf_input_spec in Hwf.
  pose proof (plan_metas_shape c ms ps Hwf Hp) as Hsh.
  pose proof (plan_shape_same_class c ms ps Hsh) as Hsame.
  pose proof (cbm_hints uid ps r Hc) as Hh. pose proof (cbm_hint_values uid ps r Hc) as (Ho & _).
  split.
  - destruct ps as [|b ps']; [intros x []|]. intros x Hx.
    unfold hints_ok in Hh. rewrite !andb_true_iff in Hh. destruct Hh as (_ & Hk).
    assert (Hsc : same_class (class_of b) (b :: ps') = true).
    { apply forallb_forall. intros y Hy. apply cls_eqb_eq. apply Hsame; [exact Hy | left; reflexivity]. }
    rewrite Hsc in Hk. apply cls_eqb_eq in Hk. rewrite Hk. apply Hsame; [left; reflexivity | exact Hx].
  - rewrite Ho, forallb_forall. tauto.
Qed.

(* ------------------------------------------------------------------ the plan/compact loop *)

Definition wgt (m : meta) : Z := 1 + (if 0 <? m_tomb m then 1 else 0).
Fixpoint sumw (l : list meta) : Z := match l with [] => 0 | m :: tl => wgt m + sumw tl end.

Lemma mu_sumw ms : mu ms = sumw ms.
Proof.
  unfold mu. induction ms as [|m ms IH]; [reflexivity|].
  cbn [sumw filter length]. unfold wgt. destruct (0 <? m_tomb m); cbn [length]; lia.
Qed.

Lemma sumw_app l1 l2 : sumw (l1 ++ l2) = sumw l1 + sumw l2.
Proof. induction l1 as [|a l1 IH]; simpl; lia. Qed.

Lemma sumw_split f l : sumw l = sumw (filter f l) + sumw (filter (fun x => negb (f x)) l).
Proof. induction l as [|a l IH]; simpl; [reflexivity|]. destruct (f a); simpl; lia. Qed.

Lemma sumw_perm l l' : Permutation l l' -> sumw l = sumw l'.
Proof. induction 1; simpl; lia. Qed.

Lemma sumw_len l : Z.of_nat (length l) <= sumw l.
Proof. induction l as [|a l IH]; simpl length; simpl sumw; unfold wgt; [lia|]. destruct (0 <? m_tomb a); lia. Qed.

Lemma plan_shape_weight c ms ps : plan_shape c ms ps = true -> ps <> [] -> 2 <= sumw ps.
Proof.
  destruct ps as [|b ps']; [congruence|]. intros H _. unfold plan_shape in H.
  apply andb_true_iff in H as [_ H]. apply orb_true_iff in H as [H|H]; [apply orb_true_iff in H as [H|H]|].
  - apply andb_true_iff in H as [_ H]. unfold overlap_group in H. destruct ps' as [|b1 ps'']; [discriminate|].
    pose proof (sumw_len ps''). simpl. unfold wgt. destruct (0 <? m_tomb b), (0 <? m_tomb b1); lia.
  - unfold range_group in H. rewrite !andb_true_iff in H. destruct H as (((((H & _) & _) & _) & _) & _).
    apply Z.leb_le in H. pose proof (sumw_len (b :: ps')). lia.
  - unfold tomb_single in H. destruct ps' as [|? ?]; [|discriminate].
    rewrite !andb_true_iff in H. destruct H as ((_ & H) & _). simpl. unfold wgt. rewrite H. lia.
Qed.

Definition selected (p : list Z) (m : meta) : bool := existsb (Z.eqb (m_id m)) p.

Lemma remove_ids_filter p ms : remove_ids p ms = filter (fun m => negb (selected p m)) ms.
Proof. reflexivity. Qed.

Lemma selected_perm ms ps : NoDup (ids ms) -> NoDup (ids ps) -> incl ps ms ->
  Permutation (filter (selected (ids ps)) ms) ps.
Proof.
  intros Hn Hp Hi. apply NoDup_Permutation.
  - apply NoDup_filter. apply (NoDup_map_inv m_id). exact Hn.
  - apply (NoDup_map_inv m_id). exact Hp.
  - intros x. rewrite filter_In. unfold selected. fold (memb (m_id x) (ids ps)). rewrite memb_spec. split.
    + intros [Hx Hin]. unfold ids in Hin. apply in_map_iff in Hin as (y & Hy & Hin).
      assert (x = y).
      { apply (NoDup_map_inj_in m_id ms); auto. }
      subst. exact Hin.
    + intros Hx. split; [apply Hi; exact Hx | apply in_map; exact Hx].
Qed.

Lemma min_list_spec x l : min_list x l <= x /\ (forall y, In y l -> min_list x l <= y) /\
  (min_list x l = x \/ In (min_list x l) l).
Proof.
  unfold min_list. revert x. induction l as [|a l IH]; intros x; simpl.
  - repeat split; [lia | tauto | auto].
  - destruct (IH (if a <? x then a else x)) as (H1 & H2 & H3).
    destruct (Z.ltb_spec a x); repeat split; try lia.
    + intros y [<-|Hy]; [lia | auto].
    + destruct H3 as [H3|H3]; [right; left; lia | right; right; exact H3].
    + intros y [<-|Hy]; [lia | auto].
    + destruct H3 as [H3|H3]; [left; exact H3 | right; right; exact H3].
Qed.

Lemma max_list_spec x l : x <= max_list x l /\ (forall y, In y l -> y <= max_list x l) /\
  (max_list x l = x \/ In (max_list x l) l).
Proof.
  unfold max_list. revert x. induction l as [|a l IH]; intros x; simpl.
  - repeat split; [lia | tauto | auto].
  - destruct (IH (if a >? x then a else x)) as (H1 & H2 & H3).
    destruct (Z.gtb_spec a x); repeat split; try lia.
    + intros y [<-|Hy]; [lia | auto].
    + destruct H3 as [H3|H3]; [right; left; lia | right; right; exact H3].
    + intros y [<-|Hy]; [lia | auto].
    + destruct H3 as [H3|H3]; [left; exact H3 | right; right; exact H3].
Qed.

Lemma cbm_sane uid bs r series : Forall saneP bs -> 0 <= series < two64' ->
  compact_block_metas uid bs = Ok r ->
  saneP (with_series r series) /\ m_id (with_series r series) = uid /\ m_tomb (with_series r series) = 0.
Proof.
  intros Hs Hser H. unfold compact_block_metas in H. destruct bs as [|b bs']; [discriminate|].
  cbv beta iota in H. remember (b :: bs') as l eqn:El.
  assert (Hbl : In b l) by (rewrite El; left; reflexivity).
  injection H as <-. unfold with_series, saneP. cbn [m_id m_min m_max m_failed m_tomb m_series m_stale m_sel m_ooo m_level m_sources].
  split; [|split; reflexivity].
  destruct (min_list_spec (m_min b) (map m_min l)) as (A1 & A2 & A3).
  destruct (max_list_spec (m_max b) (map m_max l)) as (B1 & B2 & B3).
  rewrite Forall_forall in Hs.
  assert (Hb : saneP b) by (apply Hs; exact Hbl).
  assert (Hlo : - two61 <= min_list (m_min b) (map m_min l)).
  { destruct A3 as [->|A3]; [apply Hb|]. apply in_map_iff in A3 as (y & <- & Hy). apply (Hs y Hy). }
  assert (Hhi : max_list (m_max b) (map m_max l) <= two61).
  { destruct B3 as [->|B3]; [apply Hb|]. apply in_map_iff in B3 as (y & <- & Hy). apply (Hs y Hy). }
  destruct Hb as (_ & Hb & _).
  unfold two64' in *. lia.
Qed.

Lemma NoDup_snoc {A} (l : list A) a : NoDup l -> ~ In a l -> NoDup (l ++ [a]).
Proof.
  intros H1 H2. apply (Permutation_NoDup (l := a :: l)); [apply Permutation_cons_append | constructor; auto].
Qed.

(* one iteration: well-formedness is kept and the measure mu strictly decreases *)
Lemma compact_step_decreases c uid written series ms ms' :
  wfP c ms -> ~ In uid (ids ms) -> 0 <= series < two64' ->
  compact_step c uid written series ms = Ok (Some ms') ->
  wfP c ms' /\ mu ms' < mu ms.
Proof.
  intros Hwf Hfresh Hser Hstep. pose proof Hwf as (Hc & Hs & Hn).
  unfold compact_step in Hstep.
  destruct (plan_metas c ms) as [ps|] eqn:Ep; [|discriminate].
  destruct (plan_metas_shape_incl c ms ps Hwf Ep) as (Hsh & Hi & Hd).
  destruct ps as [|b ps'] eqn:Eps; [discriminate|]. rewrite <- Eps in *.
  assert (Hne : ps <> []) by (rewrite Eps; discriminate).
  destruct (compact_block_metas uid ps) as [nm|] eqn:Ecb; [|discriminate].
  inversion Hstep; subst ms'. clear Hstep.
  assert (Hps_sane : Forall saneP ps).
  { rewrite Forall_forall in *. intros x Hx. apply Hs, Hi, Hx. }
  destruct (cbm_sane uid ps nm series Hps_sane Hser Ecb) as (Hnm & Hid & Htomb).
  pose proof (plan_shape_weight c ms ps Hsh Hne) as Hw.
  pose proof (sumw_split (selected (ids ps)) ms) as Hsplit.
  rewrite (sumw_perm _ _ (selected_perm ms ps Hn Hd Hi)) in Hsplit.
  rewrite <- remove_ids_filter in Hsplit.
  split.
  - split; [exact Hc | split].
    + apply Forall_app. split.
      * rewrite Forall_forall in *. intros x Hx. unfold remove_ids in Hx. apply filter_In in Hx as [Hx _]. auto.
      * destruct written; constructor; [exact Hnm | constructor].
    + unfold ids. rewrite map_app. fold (ids (remove_ids (ids ps) ms)).
      destruct written; cbn [map]; [|rewrite app_nil_r; apply filter_nodup_ids; exact Hn].
      rewrite Hid. apply NoDup_snoc; [apply filter_nodup_ids; exact Hn|].
      intros Hin. apply Hfresh. unfold ids in *. apply in_map_iff in Hin as (x & Hx & Hin).
      unfold remove_ids in Hin. apply filter_In in Hin as [Hin _]. rewrite <- Hx. apply in_map. exact Hin.
  - rewrite !mu_sumw, sumw_app.
    assert (sumw (if written then [with_series nm series] else []) <= 1).
    { destruct written; simpl; [|lia]. unfold wgt. rewrite Htomb. simpl. lia. }
    lia.
Qed.

Inductive step (c : cfg) : list meta -> list meta -> Prop :=
| step_intro ms uid written series ms' :
    ~ In uid (ids ms) -> 0 <= series < two64' ->
    compact_step c uid written series ms = Ok (Some ms') -> step c ms ms'.

Lemma mu_nonneg ms : 0 <= mu ms.
Proof. unfold mu. lia. Qed.

(* no infinite sequence of compactions: the inverse step relation is well founded from every
   well-formed block set, whatever ids / written / series the rewrites produce *)
Lemma step_terminates c ms : wfP c ms -> Acc (fun a b => step c b a) ms.
Proof.
  intros Hwf.
  assert (H : forall n : nat, forall ms, wfP c ms -> mu ms < Z.of_nat n -> Acc (fun a b => step c b a) ms).
  { induction n as [|n IH]; intros ms0 Hw Hlt.
    - pose proof (mu_nonneg ms0). lia.
    - constructor. intros ms1 Hst. inversion Hst as [? uid written series ? Hf Hse Hcs]; subst.
      destruct (compact_step_decreases c uid written series ms0 ms1 Hw Hf Hse Hcs) as [Hw1 Hlt1].
      apply IH; [exact Hw1 | lia]. }
  apply (H (S (Z.to_nat (mu ms)))); [exact Hwf|]. pose proof (mu_nonneg ms). lia.
Qed.

(* every run of n compactions from ms has n <= mu ms *)
Inductive run (c : cfg) : list meta -> nat -> list meta -> Prop :=
| run_nil ms : run c ms 0 ms
| run_step ms ms1 n ms2 : step c ms ms1 -> run c ms1 n ms2 -> run c ms (S n) ms2.

Lemma run_bound c ms n ms' : wfP c ms -> run c ms n ms' -> Z.of_nat n + mu ms' <= mu ms /\ wfP c ms'.
Proof.
  intros Hwf Hr. induction Hr as [ms | ms ms1 n ms2 Hst Hr IH].
  - split; [lia | exact Hwf].
  - inversion Hst as [? uid written series ? Hf Hse Hcs]; subst.
    destruct (compact_step_decreases c uid written series ms ms1 Hwf Hf Hse Hcs) as [Hw1 Hlt1].
    destruct (IH Hw1) as [IH1 IH2]. split; [lia | exact IH2].
Qed.

(* a step is possible exactly when the plan is not empty *)
Lemma step_possible c ms uid written series : wfP c ms ->
  (exists ms', compact_step c uid written series ms = Ok (Some ms')) \/
  (compact_step c uid written series ms = Ok None /\ plan c ms = Ok []).
Proof.
  intros Hwf. unfold compact_step, plan.
  destruct (plan_no_panic c ms (proj2 (wf_input_spec c ms) Hwf)) as (p & Hp). unfold plan in Hp.
  destruct (plan_metas c ms) as [ps|]; [|discriminate].
  destruct ps as [|b ps'].
  - right. auto.
  - left. destruct (cbm_total uid (b :: ps') ltac:(discriminate)) as (r & Hr). rewrite Hr. eexists. reflexivity.
Qed.

(* ------------------------------------------------------------------ the executable loop *)

Lemma cbm_id uid bs r : compact_block_metas uid bs = Ok r -> m_id r = uid.
Proof. unfold compact_block_metas. destruct bs; [discriminate|]. intros H. injection H as <-. reflexivity. Qed.

Lemma compact_step_ids c uid written series ms ms' :
  compact_step c uid written series ms = Ok (Some ms') ->
  forall i, In i (ids ms') -> In i (ids ms) \/ i = uid.
Proof.
  unfold compact_step. destruct (plan_metas c ms) as [ps|]; [|discriminate].
  destruct ps as [|b ps']; [discriminate|].
  destruct (compact_block_metas uid (b :: ps')) as [nm|] eqn:E; [|discriminate].
  intros H. injection H as <-. intros i Hi. unfold ids in Hi. rewrite map_app in Hi.
  apply in_app_or in Hi as [Hi|Hi].
  - left. apply in_map_iff in Hi as (x & <- & Hx). unfold remove_ids in Hx. apply filter_In in Hx as [Hx _].
    apply in_map. exact Hx.
  - right. destruct written; [|contradiction]. destruct Hi as [<-|[]].
    unfold with_series. cbn [m_id]. apply (cbm_id _ _ _ E).
Qed.

Lemma compact_loop_terminates fuel : forall c next ms, wfP c ms -> (forall i, In i (ids ms) -> i < next) ->
  mu ms < Z.of_nat fuel -> exists n, compact_loop fuel c next ms = Ok (Some n) /\ 0 <= n <= mu ms.
Proof.
  induction fuel as [|f IH]; intros c next ms Hwf Hlt Hmu.
  - pose proof (mu_nonneg ms). lia.
  - cbn [compact_loop].
    destruct (step_possible c ms next true 0 Hwf) as [(ms' & Hst) | (Hst & _)]; rewrite Hst.
    + assert (Hfresh : ~ In next (ids ms)) by (intros Hin; specialize (Hlt next Hin); lia).
      destruct (compact_step_decreases c next true 0 ms ms' Hwf Hfresh ltac:(unfold two64'; lia) Hst) as [Hwf' Hmu'].
      destruct (IH c (next + 1) ms' Hwf') as (n & Hn & Hb).
      * intros i Hi. destruct (compact_step_ids _ _ _ _ _ _ Hst i Hi) as [Hi'|Hi']; [specialize (Hlt i Hi')|]; lia.
      * lia.
      * rewrite Hn. exists (n + 1). split; [reflexivity | lia].
    + exists 0. split; [reflexivity|]. pose proof (mu_nonneg ms). lia.
Qed.

(* ------------------------------------------------------------------ plan_shape read as a proposition *)

(* every block after the first starts before the largest MaxTime of the blocks before it *)
Fixpoint chainedP (gmax : Z) (l : list meta) : Prop :=
  match l with [] => True | d :: tl => m_min d < gmax /\ chainedP (Z.max gmax (m_max d)) tl end.

Lemma chained_spec g l : chained g l = true <-> chainedP g l.
Proof.
  revert g. induction l as [|d l IH]; intros g; simpl; [tauto|].
  rewrite andb_true_iff, Z.ltb_lt, IH. tauto.
Qed.

Definition newest_excluded (kl ps : list meta) : Prop :=
  exists n, In n kl /\ ~ In (m_id n) (ids ps) /\ forall x, In x ps -> m_min x <= m_min n.

Lemma excludes_newest_spec kl ps : excludes_newest kl ps = true <-> newest_excluded kl ps.
Proof.
  unfold excludes_newest, newest_excluded. rewrite existsb_exists. split.
  - intros (n & Hn & H). apply andb_true_iff in H as [H1 H2]. exists n. split; [exact Hn|]. split.
    + intros Hin. apply memb_spec in Hin. rewrite Hin in H1. discriminate.
    + rewrite forallb_forall in H2. intros x Hx. apply Z.leb_le. auto.
  - intros (n & Hn & H1 & H2). exists n. split; [exact Hn|]. apply andb_true_iff. split.
    + apply negb_true_iff. destruct (memb (m_id n) (ids ps)) eqn:E; [|reflexivity].
      apply memb_spec in E. contradiction.
    + apply forallb_forall. intros x Hx. apply Z.leb_le. auto.
Qed.

Definition overlap_groupP (ps : list meta) : Prop :=
  exists d0 d1 tl, ps = d0 :: d1 :: tl /\ ordpairs Smin ps /\ chainedP (m_max d0) (d1 :: tl).

Definition range_groupP (c : cfg) (kl ps : list meta) : Prop :=
  (2 <= length ps)%nat /\ (forall x, In x ps -> m_failed x = false) /\
  (exists iv k, In iv (tl (c_ranges c)) /\ forall x, In x ps -> iv * k <= m_min x /\ m_max x <= iv * k + iv) /\
  (c_overlap c = true -> ordpairs Dis ps) /\ ordpairs Smin ps /\ newest_excluded kl ps.

Definition tomb_singleP (c : cfg) (kl ps : list meta) : Prop :=
  exists b mid, ps = [b] /\ mid_range c = Some mid /\ 0 < m_tomb b /\
    (if m_max b - m_min b <? mid then m_series b <= m_tomb b else 20 * m_tomb b > u64 (m_series b + 1)) /\
    newest_excluded kl ps.

Lemma plan_shape_reading c ms ps : plan_shape c ms ps = true ->
  ps = [] \/
  exists k, (forall x, In x ps -> class_of x = k /\ In (m_id x) (ids ms)) /\ NoDup (ids ps) /\
    ((c_overlap c = true /\ overlap_groupP ps) \/ range_groupP c (of_class k ms) ps \/ tomb_singleP c (of_class k ms) ps).
Proof.
  destruct ps as [|b ps']; [left; reflexivity|]. intros H. right. unfold plan_shape in H.
  set (ps := b :: ps') in *. set (k := class_of b) in *.
  rewrite !andb_true_iff in H. destruct H as (((Hs & Hn) & Hm) & Hsh).
  exists k. split; [|split].
  - intros x Hx. unfold same_class in Hs. rewrite forallb_forall in Hs, Hm. split.
    + apply cls_eqb_eq. auto.
    + apply memb_spec. auto.
  - apply nodupb_spec. exact Hn.
  - rewrite !orb_true_iff in Hsh. destruct Hsh as [[Hsh|Hsh]|Hsh].
    + left. apply andb_true_iff in Hsh as [Ho Hg]. split; [exact Ho|].
      unfold overlap_group in Hg. subst ps. destruct ps' as [|d1 tl]; [discriminate|].
      apply andb_true_iff in Hg as [Hg1 Hg2]. exists b, d1, tl. split; [reflexivity|]. split.
      * apply sorted_min_spec. exact Hg1.
      * apply chained_spec. exact Hg2.
    + right. left. unfold range_group in Hsh. rewrite !andb_true_iff in Hsh.
      destruct Hsh as (((((H1 & H2) & H3) & H4) & H5) & H6).
      unfold range_groupP. split; [|split; [|split; [|split; [|split]]]].
      * apply Z.leb_le in H1. lia.
      * intros x Hx. apply negb_true_iff in H2. apply (existsb_false_in _ _ x H2 Hx).
      * apply existsb_exists in H3 as (iv & Hiv & Hw). unfold within_range in Hw.
        apply existsb_exists in Hw as (f & _ & Hw). rewrite forallb_forall in Hw.
        exists iv, (m_min f / iv). split; [exact Hiv|]. intros x Hx. specialize (Hw x Hx).
        unfold in_window in Hw. apply andb_true_iff in Hw as [Ha Hb]. apply Z.leb_le in Ha, Hb. lia.
      * intros Eo. rewrite Eo in H4. apply disjoint_ordered_spec. exact H4.
      * apply sorted_min_spec. exact H5.
      * apply excludes_newest_spec. exact H6.
    + right. right. unfold tomb_single in Hsh. subst ps. destruct ps' as [|? ?]; [|discriminate].
      rewrite !andb_true_iff in Hsh. destruct Hsh as ((H1 & H2) & H3).
      unfold tomb_rule in H1. destruct (mid_range c) as [mid|] eqn:Em; [|discriminate].
      exists b, mid. split; [reflexivity|]. split; [exact Em|]. split; [apply Z.ltb_lt; exact H2|].
      split; [|apply excludes_newest_spec; exact H3].
      destruct (m_max b - m_min b <? mid).
      * unfold tomb_all_deleted in H1. apply andb_true_iff in H1 as [_ H1]. apply Z.leb_le. exact H1.
      * unfold tomb_ratio_big in H1. apply Z.gtb_lt in H1. lia.
Qed.

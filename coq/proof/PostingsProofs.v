(* proof/PostingsProofs.v — lemmas and proofs for C16 (model/Postings.v). *)
From Coq Require Import List ZArith NArith Bool Lia Sorted.
From Verif Require Import model.Postings.
Import ListNotations.
Open Scope Z_scope.

Lemma pfm_nil : forall st, postings_for_matchers st [] = Ok [].
Proof. intros. reflexivity. Qed.

(* ---------- strings ---------- *)
Lemma str_cmp_eq : forall a b, str_cmp a b = Eq <-> a = b.
Proof.
  induction a as [|x a IH]; destruct b as [|y b]; simpl; split; intro H; try discriminate; auto.
  - destruct (N.compare x y) eqn:E; try discriminate.
    apply N.compare_eq in E. apply IH in H. subst. reflexivity.
  - inversion H; subst. rewrite N.compare_refl. apply IH. reflexivity.
Qed.

Lemma str_eqb_eq : forall a b, str_eqb a b = true <-> a = b.
Proof.
  intros. unfold str_eqb. rewrite <- str_cmp_eq. destruct (str_cmp a b); split; intro; congruence.
Qed.

Lemma str_eqb_refl : forall a, str_eqb a a = true.
Proof. intros. apply str_eqb_eq. reflexivity. Qed.

Lemma mem_str_In : forall s l, mem_str s l = true <-> In s l.
Proof.
  intros. unfold mem_str. rewrite existsb_exists. split.
  - intros [x [Hin He]]. apply str_eqb_eq in He. subst. assumption.
  - intros H. exists s. split; auto. apply str_eqb_refl.
Qed.

(* ---------- postings combinators ---------- *)
Definition SS := StronglySorted Z.lt.

Lemma SS_inv : forall x l, SS (x :: l) -> SS l /\ Forall (Z.lt x) l.
Proof. intros. inversion H; subst. auto. Qed.

Lemma merge2_In : forall a b x, In x (merge2 a b) <-> In x a \/ In x b.
Proof.
  induction a as [|u a IHa]; intros b x.
  - destruct b; simpl; tauto.
  - induction b as [|v b IHb].
    + simpl. tauto.
    + simpl. destruct (u ?= v) eqn:E.
      * apply Z.compare_eq in E. subst. simpl. rewrite IHa. tauto.
      * simpl. rewrite IHa. simpl. tauto.
      * simpl. simpl in IHb. rewrite IHb. tauto.
Qed.

Lemma merge2_SS : forall a b, SS a -> SS b -> SS (merge2 a b).
Proof.
  induction a as [|u a IHa]; intros b Ha Hb.
  - destruct b; simpl; assumption.
  - induction b as [|v b IHb].
    + simpl. assumption.
    + apply SS_inv in Ha as Ha'. destruct Ha' as [Ha1 Ha2].
      apply SS_inv in Hb as Hb'. destruct Hb' as [Hb1 Hb2].
      rewrite Forall_forall in Ha2, Hb2.
      simpl. destruct (u ?= v) eqn:E.
      * apply Z.compare_eq in E. subst. constructor. { apply IHa; assumption. }
        apply Forall_forall. intros z Hz. apply merge2_In in Hz. destruct Hz; auto.
      * rewrite Z.compare_lt_iff in E. constructor. { apply IHa; assumption. }
        apply Forall_forall. intros z Hz. apply merge2_In in Hz. destruct Hz as [Hz|Hz]; auto.
        destruct Hz as [Hz|Hz]; [subst; assumption|]. apply Hb2 in Hz. lia.
      * rewrite Z.compare_gt_iff in E. constructor. { apply IHb; assumption. }
        apply Forall_forall. intros z Hz.
        change (In z (merge2 (u :: a) b)) in Hz. apply merge2_In in Hz. destruct Hz as [Hz|Hz]; auto.
        destruct Hz as [Hz|Hz]; [subst; assumption|]. apply Ha2 in Hz. lia.
Qed.

Lemma isect_In : forall a b, SS a -> SS b -> forall x, In x (isect a b) <-> In x a /\ In x b.
Proof.
  induction a as [|u a IHa]; intros b Ha Hb x.
  - destruct b; simpl; tauto.
  - induction b as [|v b IHb].
    + simpl. tauto.
    + apply SS_inv in Ha as Ha'. destruct Ha' as [Ha1 Ha2].
      apply SS_inv in Hb as Hb'. destruct Hb' as [Hb1 Hb2].
      rewrite Forall_forall in Ha2, Hb2.
      simpl. destruct (u ?= v) eqn:E.
      * apply Z.compare_eq in E. subst. simpl. rewrite IHa by assumption.
        split.
        -- intros [H|[H1 H2]]; auto.
        -- intros [[H|H] [H'|H']]; auto; subst; exfalso;
           first [apply Ha2 in H'; lia | apply Hb2 in H; lia | apply Ha2 in H; lia | apply Hb2 in H'; lia].
      * rewrite Z.compare_lt_iff in E. rewrite IHa by assumption. simpl.
        split.
        -- intros [H1 H2]. auto.
        -- intros [[H|H] H']; auto. subst. destruct H' as [H'|H']; [lia|]. apply Hb2 in H'. lia.
      * rewrite Z.compare_gt_iff in E.
        change (In x (isect (u :: a) b) <-> In x (u :: a) /\ In x (v :: b)).
        rewrite IHb by assumption. simpl.
        split.
        -- intros [H1 H2]. auto.
        -- intros [H [H'|H']]; auto. subst. destruct H as [H|H]; [lia|]. apply Ha2 in H. lia.
Qed.

Lemma isect_sub : forall a b x, In x (isect a b) -> In x a.
Proof.
  induction a as [|u a IHa]; intros b x.
  - destruct b; simpl; tauto.
  - induction b as [|v b IHb].
    + simpl. tauto.
    + simpl. destruct (u ?= v) eqn:E.
      * simpl. intros [H|H]; auto. right. eapply IHa; eauto.
      * intros H. right. eapply IHa; eauto.
      * intros H. apply IHb in H. assumption.
Qed.

Lemma isect_SS : forall a b, SS a -> SS (isect a b).
Proof.
  induction a as [|u a IHa]; intros b Ha.
  - destruct b; simpl; constructor.
  - induction b as [|v b IHb].
    + simpl. constructor.
    + apply SS_inv in Ha as Ha'. destruct Ha' as [Ha1 Ha2]. rewrite Forall_forall in Ha2.
      simpl. destruct (u ?= v) eqn:E.
      * constructor. { apply IHa. assumption. }
        apply Forall_forall. intros z Hz. apply isect_sub in Hz. auto.
      * apply IHa. assumption.
      * apply IHb.
Qed.

Lemma without_In : forall a b, SS a -> SS b -> forall x, In x (without a b) <-> In x a /\ ~ In x b.
Proof.
  induction a as [|u a IHa]; intros b Ha Hb x.
  - destruct b; simpl; tauto.
  - induction b as [|v b IHb].
    + simpl. tauto.
    + apply SS_inv in Ha as Ha'. destruct Ha' as [Ha1 Ha2].
      apply SS_inv in Hb as Hb'. destruct Hb' as [Hb1 Hb2].
      rewrite Forall_forall in Ha2, Hb2.
      simpl. destruct (u ?= v) eqn:E.
      * apply Z.compare_eq in E. subst. rewrite IHa by assumption.
        split.
        -- intros [H1 H2]. split; auto. intros [H|H]; auto. subst. apply Ha2 in H1. lia.
        -- intros [[H|H] H']; [subst; tauto|]. split; auto.
      * rewrite Z.compare_lt_iff in E. simpl. rewrite IHa by assumption. simpl.
        split.
        -- intros [H|[H1 H2]]; auto. subst. split; auto. intros [H|H]; [lia|]. apply Hb2 in H. lia.
        -- intros [[H|H] H']; auto.
      * rewrite Z.compare_gt_iff in E.
        change (In x (without (u :: a) b) <-> In x (u :: a) /\ ~ In x (v :: b)).
        rewrite IHb by assumption. simpl.
        split.
        -- intros [H1 H2]. split; auto. intros [H|H]; auto. subst. destruct H1 as [H1|H1]; [lia|]. apply Ha2 in H1. lia.
        -- intros [H H']. split; auto.
Qed.

Lemma without_sub : forall a b x, In x (without a b) -> In x a.
Proof.
  induction a as [|u a IHa]; intros b x.
  - destruct b; simpl; tauto.
  - induction b as [|v b IHb].
    + simpl. tauto.
    + simpl. destruct (u ?= v) eqn:E.
      * intros H. right. eapply IHa; eauto.
      * simpl. intros [H|H]; auto. right. eapply IHa; eauto.
      * intros H. apply IHb in H. assumption.
Qed.

Lemma without_SS : forall a b, SS a -> SS (without a b).
Proof.
  induction a as [|u a IHa]; intros b Ha.
  - destruct b; simpl; constructor.
  - induction b as [|v b IHb].
    + simpl. assumption.
    + apply SS_inv in Ha as Ha'. destruct Ha' as [Ha1 Ha2]. rewrite Forall_forall in Ha2.
      simpl. destruct (u ?= v) eqn:E.
      * apply IHa. assumption.
      * constructor. { apply IHa. assumption. }
        apply Forall_forall. intros z Hz. apply without_sub in Hz. auto.
      * apply IHb.
Qed.

(* ---------- semantic characterisation of postings lists over a well-formed store ---------- *)
Lemma strictly_incr_SS : forall l, strictly_incr l = true -> SS l.
Proof.
  induction l as [|x l IH]; intros H; [constructor|].
  destruct l as [|y r]; [repeat constructor|].
  simpl in H. apply andb_prop in H. destruct H as [Hxy Hr]. apply Z.ltb_lt in Hxy.
  specialize (IH Hr). apply SS_inv in IH as IH'. destruct IH' as [_ Hf].
  constructor; [assumption|]. constructor; [assumption|].
  eapply Forall_impl; [|exact Hf]. intros; lia.
Qed.

Lemma SS_map_inj : forall (A : Type) (f : A -> Z) l a b,
  SS (map f l) -> In a l -> In b l -> f a = f b -> a = b.
Proof.
  induction l as [|x l IH]; intros a b Hs Ha Hb Hf; [destruct Ha|].
  simpl in Hs. apply SS_inv in Hs. destruct Hs as [Hs Hall]. rewrite Forall_forall in Hall.
  destruct Ha as [Ha|Ha]; destruct Hb as [Hb|Hb]; subst; auto.
  - exfalso. assert (f a < f b) by (apply Hall; apply in_map; assumption). lia.
  - exfalso. assert (f b < f a) by (apply Hall; apply in_map; assumption). lia.
Qed.

Lemma lfind_In : forall n ls w, lfind n ls = Some w -> In (n, w) ls.
Proof.
  induction ls as [|[k v] r IH]; simpl; intros w H; [discriminate|].
  destruct (str_eqb k n) eqn:E.
  - apply str_eqb_eq in E. inversion H; subst. auto.
  - right. auto.
Qed.

Lemma existsb_false : forall (A : Type) (l : list A), existsb (fun _ => false) l = false.
Proof. induction l; simpl; auto. Qed.

Section Sem.
Variable st : store.
Hypothesis WF : store_wfb st = true.

Definition sem (l : list Z) (P : series -> bool) : Prop :=
  SS l /\
  (forall r, In r l -> exists s, In s (st_series st) /\ s_ref s = r) /\
  (forall s, In s (st_series st) -> (In (s_ref s) l <-> P s = true)).

Lemma wf_parts :
  strictly_incr (map s_ref (st_series st)) = true /\
  (forall s, In s (st_series st) ->
     mem_str [] (label_values_raw st []) = true /\
     forall p, In p (s_labels s) -> fst p <> [] /\ snd p <> [] /\
                                     mem_str (snd p) (label_values_raw st (fst p)) = true).
Proof.
  unfold store_wfb in WF.
  apply andb_prop in WF. destruct WF as [H123 H4].
  apply andb_prop in H123. destruct H123 as [H12 H3].
  apply andb_prop in H12. destruct H12 as [H1 H2].
  split; [assumption|].
  intros s Hs. rewrite forallb_forall in H4. specialize (H4 s Hs).
  apply andb_prop in H4. destruct H4 as [H4 _].
  apply andb_prop in H4. destruct H4 as [Hp Hl].
  split; [assumption|].
  intros p Hp'. rewrite forallb_forall in Hl. specialize (Hl p Hp').
  apply andb_prop in Hl. destruct Hl as [Hl Hm].
  apply andb_prop in Hl. destruct Hl as [Hn Hv].
  split; [|split]; [| |assumption].
  - intro Hc. destruct p as [pa pb]; simpl in *. subst. discriminate.
  - intro Hc. destruct p as [pa pb]; simpl in *. subst. discriminate.
Qed.

Lemma wf_SS : SS (map s_ref (st_series st)).
Proof. apply strictly_incr_SS. apply wf_parts. Qed.

Lemma wf_inj : forall a b, In a (st_series st) -> In b (st_series st) -> s_ref a = s_ref b -> a = b.
Proof. intros. eapply SS_map_inj; eauto. apply wf_SS. Qed.

Lemma val_in_lvs : forall s name w, In s (st_series st) -> ix_val s name = Some w ->
  In w (label_values_raw st name).
Proof.
  intros s name w Hs Hv. destruct wf_parts as [_ Hw]. destruct (Hw s Hs) as [Hp Hl].
  unfold ix_val in Hv. destruct name as [|c name]; simpl in Hv.
  - inversion Hv; subst. apply mem_str_In. assumption.
  - apply lfind_In in Hv. apply Hl in Hv. simpl in Hv. apply mem_str_In. tauto.
Qed.

Lemma val_nonempty : forall s name w, In s (st_series st) -> name <> [] ->
  lfind name (s_labels s) = Some w -> w <> [].
Proof.
  intros s name w Hs Hn Hv. destruct wf_parts as [_ Hw]. destruct (Hw s Hs) as [_ Hl].
  apply lfind_In in Hv. apply Hl in Hv. simpl in Hv. tauto.
Qed.

Lemma SS_map_filter : forall (P : series -> bool) l, SS (map s_ref l) -> SS (map s_ref (filter P l)).
Proof.
  induction l as [|x l IH]; simpl; intros H; [constructor|].
  apply SS_inv in H. destruct H as [H1 H2].
  destruct (P x); simpl; auto.
  constructor; [apply IH; assumption|]. rewrite Forall_forall in H2. apply Forall_forall. intros z Hz.
  apply in_map_iff in Hz. destruct Hz as [y [Hy1 Hy2]]. apply filter_In in Hy2.
  apply H2. apply in_map_iff. exists y. tauto.
Qed.

Lemma sem_filter : forall P, sem (map s_ref (filter P (st_series st))) P.
Proof.
  intros P. split; [|split].
  - apply SS_map_filter. apply wf_SS.
  - intros r Hr. apply in_map_iff in Hr. destruct Hr as [s [H1 H2]]. apply filter_In in H2.
    exists s. tauto.
  - intros s Hs. split.
    + intros H. apply in_map_iff in H. destruct H as [s' [H1 H2]]. apply filter_In in H2.
      destruct H2 as [H2 H3]. assert (s' = s) by (apply wf_inj; auto). subst. assumption.
    + intros H. apply in_map_iff. exists s. split; auto. apply filter_In. auto.
Qed.

Lemma sem_ext : forall l P Q, sem l P -> (forall s, In s (st_series st) -> P s = Q s) -> sem l Q.
Proof.
  intros l P Q [H1 [H2 H3]] He. split; [|split]; auto.
  intros s Hs. rewrite <- He by assumption. auto.
Qed.

Lemma sem_nil : sem [] (fun _ => false).
Proof.
  split; [constructor|split].
  - intros r [].
  - intros s Hs. simpl. split; [tauto|discriminate].
Qed.

Lemma sem_nil_false : forall P, sem [] P -> forall s, In s (st_series st) -> P s = false.
Proof.
  intros P [_ [_ H]] s Hs. destruct (P s) eqn:E; auto. apply H in E; auto. destruct E.
Qed.

Lemma sem_merge2 : forall a b P Q, sem a P -> sem b Q -> sem (merge2 a b) (fun s => P s || Q s).
Proof.
  intros a b P Q [A1 [A2 A3]] [B1 [B2 B3]]. split; [|split].
  - apply merge2_SS; assumption.
  - intros r Hr. apply merge2_In in Hr. destruct Hr; auto.
  - intros s Hs. rewrite merge2_In, orb_true_iff, A3, B3 by assumption. tauto.
Qed.

Lemma sem_isect : forall a b P Q, sem a P -> sem b Q -> sem (isect a b) (fun s => P s && Q s).
Proof.
  intros a b P Q [A1 [A2 A3]] [B1 [B2 B3]]. split; [|split].
  - apply isect_SS; assumption.
  - intros r Hr. apply isect_sub in Hr. auto.
  - intros s Hs. rewrite isect_In, andb_true_iff, A3, B3 by assumption. tauto.
Qed.

Lemma sem_without : forall a b P Q, sem a P -> sem b Q -> sem (without a b) (fun s => P s && negb (Q s)).
Proof.
  intros a b P Q [A1 [A2 A3]] [B1 [B2 B3]]. split; [|split].
  - apply without_SS; assumption.
  - intros r Hr. apply without_sub in Hr. auto.
  - intros s Hs. rewrite without_In, andb_true_iff, negb_true_iff, A3, B3 by assumption.
    destruct (Q s); intuition congruence.
Qed.

Lemma sem_merge_all : forall (F : str -> list Z) (G : str -> series -> bool) vs,
  (forall v, sem (F v) (G v)) -> sem (merge_all (map F vs)) (fun s => existsb (fun v => G v s) vs).
Proof.
  intros F G vs H. induction vs as [|v vs IH]; simpl.
  - apply sem_nil.
  - apply sem_merge2; auto.
Qed.

Definition has_val (s : series) (name : str) (f : str -> bool) : bool :=
  match ix_val s name with Some w => f w | None => false end.

Lemma sem_postings_val : forall name v,
  sem (postings_val st name v) (fun s => has_val s name (fun w => str_eqb w v)).
Proof. intros. unfold postings_val. apply sem_filter. Qed.

Lemma sem_ix_postings : forall name vs,
  sem (ix_postings st name vs) (fun s => has_val s name (fun w => mem_str w vs)).
Proof.
  intros. unfold ix_postings. eapply sem_ext.
  - apply sem_merge_all with (G := fun v s => has_val s name (fun w => str_eqb w v)).
    intros v. apply sem_postings_val.
  - intros s Hs. unfold has_val. destruct (ix_val s name); [reflexivity|apply existsb_false].
Qed.

Lemma mem_str_filter : forall f w l, In w l -> mem_str w (filter f l) = f w.
Proof.
  intros f w l Hin. destruct (f w) eqn:E.
  - apply mem_str_In. apply filter_In. auto.
  - destruct (mem_str w (filter f l)) eqn:E2; auto.
    apply mem_str_In in E2. apply filter_In in E2. destruct E2; congruence.
Qed.

Lemma sem_ix_matching : forall name f,
  sem (ix_postings_matching st name f) (fun s => has_val s name f).
Proof.
  intros. unfold ix_postings_matching. eapply sem_ext; [apply sem_ix_postings|].
  intros s Hs. unfold has_val. destruct (ix_val s name) eqn:E; auto.
  apply mem_str_filter. eapply val_in_lvs; eauto.
Qed.

Lemma sem_all_values : forall name,
  sem (ix_postings_all_values st name) (fun s => has_val s name (fun _ => true)).
Proof.
  intros. unfold ix_postings_all_values. eapply sem_ext; [apply sem_ix_postings|].
  intros s Hs. unfold has_val. destruct (ix_val s name) eqn:E; auto.
  apply mem_str_In. eapply val_in_lvs; eauto.
Qed.

Lemma sem_all_postings : sem (all_postings st) (fun _ => true).
Proof.
  unfold all_postings. eapply sem_ext; [apply sem_ix_postings|].
  intros s Hs. unfold has_val. simpl. reflexivity.
Qed.

End Sem.

(* ---------- matchers over a well-formed store ---------- *)
Definition is_regex (m : matcher) : bool := match m_type m with MRe | MNre => true | _ => false end.

Section Main.
Variable st : store.
Hypothesis WF : store_wfb st = true.

(* the strings a matcher on [name] is ever applied to: "" and the values stored for [name] *)
Definition relevant (name w : str) : Prop := w = [] \/ In w (label_values_raw st name).

(* what the code assumes about the compiled regex when it decides by value string or uses
   SetMatches (true of Go regexp; checked per case on the tabulated domain by oracle_ok) *)
Record oracle_consistent (m : matcher) : Prop := {
  oc_star : is_regex m = true -> m_value m = dot_star ->
            forall w, relevant (m_name m) w -> re_match m w = true;
  oc_plus : is_regex m = true -> m_value m = dot_plus ->
            forall w, relevant (m_name m) w -> re_match m w = negb (is_nil w);
  oc_set : is_regex m = true -> m_set m <> [] ->
           forall w, relevant (m_name m) w -> re_match m w = mem_str w (m_set m);
  oc_empty : is_regex m = true -> m_value m = [] ->
             forall w, relevant (m_name m) w -> re_match m w = is_nil w
}.

Lemma oc_inverse : forall m, oracle_consistent m -> oracle_consistent (inverse m).
Proof.
  intros m [A B C D].
  assert (R : is_regex (inverse m) = is_regex m) by (unfold is_regex, inverse; simpl; destruct (m_type m); reflexivity).
  constructor; rewrite R; unfold re_match; simpl; auto.
Qed.

Lemma matches_inverse : forall m w, matches (inverse m) w = negb (matches m w).
Proof.
  intros. unfold matches, inverse, re_match; simpl.
  destruct (m_type m); simpl; rewrite ?negb_involutive; reflexivity.
Qed.

Lemma ix_val_ne : forall s name, name <> [] -> ix_val s name = lfind name (s_labels s).
Proof. intros. unfold ix_val. destruct name; [congruence|reflexivity]. Qed.

Lemma has_val_relevant_ext : forall s name f g, In s (st_series st) ->
  (forall w, relevant name w -> f w = g w) -> has_val s name f = has_val s name g.
Proof.
  intros s name f g Hs H. unfold has_val. destruct (ix_val s name) eqn:E; auto.
  apply H. right. eapply val_in_lvs; eauto.
Qed.

Lemma sem_pfm1 : forall m, oracle_consistent m ->
  sem st (postings_for_matcher st m) (fun s => has_val s (m_name m) (matches m)).
Proof.
  intros m OC. unfold postings_for_matcher. destruct (m_type m) eqn:T.
  - eapply sem_ext; [apply sem_ix_postings; assumption|].
    intros s Hs. unfold has_val. destruct (ix_val s (m_name m)); auto.
    unfold matches. rewrite T. simpl. apply orb_false_r.
  - simpl. apply sem_ix_matching; assumption.
  - simpl. destruct (is_nil (set_matches m)) eqn:S; simpl.
    + apply sem_ix_matching; assumption.
    + eapply sem_ext; [apply sem_ix_postings; assumption|].
      intros s Hs. apply has_val_relevant_ext; auto. intros w Hw.
      unfold set_matches in *. rewrite T in *. unfold matches. rewrite T.
      symmetry. apply (oc_set m OC); auto.
      * unfold is_regex. rewrite T. reflexivity.
      * intro Hc. rewrite Hc in S. discriminate.
  - simpl. apply sem_ix_matching; assumption.
Qed.

Lemma str_eqb_nil_r : forall w, w <> [] -> str_eqb w [] = false.
Proof. intros [|c w] H; [congruence|reflexivity]. Qed.

Lemma sem_inv : forall m, oracle_consistent m -> m_name m <> [] ->
  sem st (inverse_postings_for_matcher st m)
      (fun s => has_val s (m_name m) (fun w => negb (matches m w))).
Proof.
  intros m OC Hn. unfold inverse_postings_for_matcher.
  assert (NE : forall s w, In s (st_series st) -> ix_val s (m_name m) = Some w -> w <> []).
  { intros s w Hs Hv. rewrite ix_val_ne in Hv by assumption. eapply val_nonempty; eauto. }
  destruct (m_type m) eqn:T; simpl.
  - (* MEq *)
    destruct (is_nil (m_value m)) eqn:V; simpl.
    + eapply sem_ext; [apply sem_all_values; assumption|].
      intros s Hs. unfold has_val. destruct (ix_val s (m_name m)) eqn:E; auto.
      unfold matches. rewrite T. destruct (m_value m); [|discriminate].
      rewrite str_eqb_nil_r; [reflexivity|]. eapply NE; eauto.
    + apply sem_ix_matching; assumption.
  - (* MNe *)
    eapply sem_ext; [apply sem_ix_postings; assumption|].
    intros s Hs. unfold has_val. destruct (ix_val s (m_name m)); auto.
    unfold matches. rewrite T. simpl. rewrite orb_false_r, negb_involutive. reflexivity.
  - (* MRe *)
    destruct (is_nil (m_value m)) eqn:V; simpl.
    + eapply sem_ext; [apply sem_all_values; assumption|].
      intros s Hs. unfold has_val. destruct (ix_val s (m_name m)) eqn:E; auto.
      unfold matches. rewrite T.
      rewrite (oc_empty m OC).
      * assert (s0 <> []) by (eapply NE; eauto). destruct s0; [congruence|reflexivity].
      * unfold is_regex. rewrite T. reflexivity.
      * destruct (m_value m); [reflexivity|discriminate].
      * right. eapply val_in_lvs; eauto.
    + apply sem_ix_matching; assumption.
  - (* MNre *)
    destruct (is_nil (set_matches m)) eqn:S; simpl.
    + rewrite andb_false_r. apply sem_ix_matching; assumption.
    + eapply sem_ext; [apply sem_ix_postings; assumption|].
      intros s Hs. apply has_val_relevant_ext; auto. intros w Hw.
      unfold set_matches in *. rewrite T in *. unfold matches. rewrite T, negb_involutive.
      symmetry. apply (oc_set m OC); auto.
      * unfold is_regex. rewrite T. reflexivity.
      * intro Hc. rewrite Hc in S. discriminate.
Qed.

End Main.

(* ---------- the main loop of PostingsForMatchers ---------- *)
Lemma is_re_type : forall m, is_re m = true -> m_type m = MRe.
Proof. unfold is_re. intros m. destruct (m_type m); intros; congruence. Qed.
Lemma is_nre_type : forall m, is_nre m = true -> m_type m = MNre.
Proof. unfold is_nre. intros m. destruct (m_type m); intros; congruence. Qed.

Lemma intersect_all_snoc : forall its x, its <> [] -> intersect_all (its ++ [x]) = isect (intersect_all its) x.
Proof.
  intros [|a r] x H; [congruence|]. simpl. rewrite fold_left_app. reflexivity.
Qed.

Section Loop.
Variable st : store.
Hypothesis WF : store_wfb st = true.
Variable all : list matcher.
Hypothesis Hne : forall m, In m all -> m_name m <> [].
Hypothesis Hoc : forall m, In m all -> oracle_consistent st m.

Let ser := st_series st.
Definition vof (s : series) (m : matcher) : str := lget (m_name m) (s_labels s).
Definition all_match (s : series) : Prop := forall m, In m all -> matches m (vof s m) = true.

Lemma vof_cases : forall s m, In s ser -> m_name m <> [] ->
  (ix_val s (m_name m) = None /\ vof s m = []) \/
  (exists w, ix_val s (m_name m) = Some w /\ vof s m = w /\ w <> []).
Proof.
  intros s m Hs Hn. rewrite ix_val_ne by assumption. unfold vof, lget.
  destruct (lfind (m_name m) (s_labels s)) eqn:E; [right|left; auto].
  exists s0. repeat split; auto. eapply val_nonempty; eauto.
Qed.

Lemma relevant_vof : forall s m, In s ser -> m_name m <> [] -> relevant st (m_name m) (vof s m).
Proof.
  intros s m Hs Hn. destruct (vof_cases s m Hs Hn) as [[_ E]|[w [E1 [E2 _]]]].
  - left. assumption.
  - right. rewrite E2. eapply val_in_lvs; eauto.
Qed.

(* contribution lemmas: what each branch of the loop adds, per series *)
Lemma c_star : forall m w, In m all -> is_re m = true -> m_value m = dot_star ->
  relevant st (m_name m) w -> matches m w = true.
Proof.
  intros m w Hm T V R. unfold matches. rewrite (is_re_type m T).
  apply (oc_star st m (Hoc m Hm)); auto. unfold is_regex. rewrite (is_re_type m T). reflexivity.
Qed.

Lemma c_nstar : forall m w, In m all -> is_nre m = true -> m_value m = dot_star ->
  relevant st (m_name m) w -> matches m w = false.
Proof.
  intros m w Hm T V R. unfold matches. rewrite (is_nre_type m T).
  rewrite (oc_star st m (Hoc m Hm)); auto. unfold is_regex. rewrite (is_nre_type m T). reflexivity.
Qed.

Lemma c_plus : forall m s, In m all -> In s ser -> is_re m = true -> m_value m = dot_plus ->
  matches m (vof s m) = has_val s (m_name m) (fun _ => true).
Proof.
  intros m s Hm Hs T V. unfold matches. rewrite (is_re_type m T).
  rewrite (oc_plus st m (Hoc m Hm)); auto.
  - unfold has_val. destruct (vof_cases s m Hs (Hne m Hm)) as [[E1 E2]|[w [E1 [E2 E3]]]]; rewrite E1, E2.
    + reflexivity.
    + destruct w; [congruence|reflexivity].
  - unfold is_regex. rewrite (is_re_type m T). reflexivity.
  - apply relevant_vof; auto.
Qed.

Lemma c_nplus : forall m s, In m all -> In s ser -> is_nre m = true -> m_value m = dot_plus ->
  matches m (vof s m) = negb (has_val s (m_name m) (fun _ => true)).
Proof.
  intros m s Hm Hs T V. unfold matches. rewrite (is_nre_type m T).
  rewrite (oc_plus st m (Hoc m Hm)); auto.
  - unfold has_val. destruct (vof_cases s m Hs (Hne m Hm)) as [[E1 E2]|[w [E1 [E2 E3]]]]; rewrite E1, E2.
    + reflexivity.
    + destruct w; [congruence|reflexivity].
  - unfold is_regex. rewrite (is_nre_type m T). reflexivity.
  - apply relevant_vof; auto.
Qed.

Lemma c_sub : forall m s, In m all -> In s ser -> matches m [] = true ->
  matches m (vof s m) = negb (has_val s (m_name m) (fun w => negb (matches m w))).
Proof.
  intros m s Hm Hs E. unfold has_val.
  destruct (vof_cases s m Hs (Hne m Hm)) as [[E1 E2]|[w [E1 [E2 E3]]]]; rewrite E1, E2.
  - assumption.
  - rewrite negb_involutive. reflexivity.
Qed.

Lemma c_int : forall m s, In m all -> In s ser -> matches m [] = false ->
  matches m (vof s m) = has_val s (m_name m) (matches m).
Proof.
  intros m s Hm Hs E. unfold has_val.
  destruct (vof_cases s m Hs (Hne m Hm)) as [[E1 E2]|[w [E1 [E2 E3]]]]; rewrite E1, E2; auto.
Qed.

Lemma c_must_A : forall m s, In m all -> In s ser -> label_must_be_set all (m_name m) = true ->
  all_match s -> has_val s (m_name m) (matches m) = true.
Proof.
  intros m s Hm Hs L HA. unfold has_val.
  destruct (vof_cases s m Hs (Hne m Hm)) as [[E1 E2]|[w [E1 [E2 E3]]]]; rewrite E1.
  - exfalso. unfold label_must_be_set in L. apply existsb_exists in L.
    destruct L as [m' [Hm' L]]. apply andb_prop in L. destruct L as [L1 L2].
    apply str_eqb_eq in L1. apply negb_true_iff in L2.
    specialize (HA m' Hm'). unfold vof in HA, E2. rewrite L1, E2 in HA. congruence.
  - specialize (HA m Hm). rewrite E2 in HA. assumption.
Qed.

Lemma c_must_B : forall m s, In m all -> In s ser ->
  has_val s (m_name m) (matches m) = true -> matches m (vof s m) = true.
Proof.
  intros m s Hm Hs H. unfold has_val in H.
  destruct (vof_cases s m Hs (Hne m Hm)) as [[E1 E2]|[w [E1 [E2 E3]]]]; rewrite E1 in H.
  - discriminate.
  - rewrite E2. assumption.
Qed.

Lemma not_must_matches_empty : forall m, In m all -> label_must_be_set all (m_name m) = false ->
  matches m [] = true.
Proof.
  intros m Hm L. unfold label_must_be_set in L.
  destruct (matches m []) eqn:E; auto.
  assert (existsb (fun m0 => str_eqb (m_name m0) (m_name m) && negb (matches m0 [])) all = true).
  { apply existsb_exists. exists m. split; auto. rewrite str_eqb_refl, E. reflexivity. }
  congruence.
Qed.

(* aggregated invariants *)
Definition semI (its : list (list Z)) (Pi : series -> bool) : Prop :=
  (its = [] /\ forall s, In s ser -> Pi s = true) \/
  (its <> [] /\ sem st (intersect_all its) Pi).
Definition semN (notIts : list (list Z)) (Qn : series -> bool) : Prop :=
  forall base Pb, sem st base Pb ->
    sem st (fold_left without notIts base) (fun s => Pb s && negb (Qn s)).

Lemma semI_snoc : forall its Pi it P, semI its Pi -> sem st it P ->
  semI (its ++ [it]) (fun s => Pi s && P s).
Proof.
  intros its Pi it P [[E H]|[E H]] HP; right.
  - subst. simpl. split; [discriminate|].
    eapply sem_ext; [exact HP|]. intros s Hs. fold ser in Hs. rewrite (H s Hs). reflexivity.
  - split; [destruct its; [congruence|discriminate]|].
    rewrite intersect_all_snoc by assumption. apply sem_isect; assumption.
Qed.

Lemma semN_snoc : forall n Qn x Q, semN n Qn -> sem st x Q -> semN (n ++ [x]) (fun s => Qn s || Q s).
Proof.
  intros n Qn x Q H HQ base Pb Hb. rewrite fold_left_app. simpl.
  eapply sem_ext; [apply sem_without; [apply (H base Pb Hb)|exact HQ]; assumption|].
  intros s Hs. simpl. rewrite negb_orb, andb_assoc. reflexivity.
Qed.

Lemma snoc_ne : forall (A : Type) (l : list A) x, l ++ [x] <> [].
Proof. intros A [|a l] x; discriminate. Qed.

Lemma loop_ok : forall rem its notIts Pi Qn done,
  (forall m, In m rem -> In m all) ->
  semI its Pi -> semN notIts Qn ->
  (forall s, In s ser -> all_match s -> Pi s = true /\ Qn s = false) ->
  (forall s, In s ser -> Pi s = true -> Qn s = false ->
             forall m, In m done -> matches m (vof s m) = true) ->
  (its <> [] \/ forall m, In m done -> matches m [] = true) ->
  match pfm_loop st all rem its notIts with
  | LErr => False
  | LEmpty => forall s, In s ser -> ~ all_match s
  | LGo its' notIts' =>
      exists Pi' Qn', semI its' Pi' /\ semN notIts' Qn' /\
        (forall s, In s ser -> all_match s -> Pi' s = true /\ Qn' s = false) /\
        (forall s, In s ser -> Pi' s = true -> Qn' s = false ->
                   forall m, In m (done ++ rem) -> matches m (vof s m) = true) /\
        (its' <> [] \/ forall m, In m (done ++ rem) -> matches m [] = true)
  end.
Proof.
  induction rem as [|m r IH]; intros its notIts Pi Qn done Hsub HI HN HA HB HE.
  - simpl. exists Pi, Qn. rewrite app_nil_r. auto.
  - assert (Hm : In m all) by (apply Hsub; left; reflexivity).
    assert (Hr : forall m', In m' r -> In m' all) by (intros; apply Hsub; right; assumption).
    pose proof (Hne m Hm) as Hn.
    assert (R0 : relevant st (m_name m) []) by (left; reflexivity).
    (* generic continuation steps *)
    assert (STEP_I : forall it P, sem st it P ->
              (forall s, In s ser -> all_match s -> P s = true) ->
              (forall s, In s ser -> P s = true -> matches m (vof s m) = true) ->
              match pfm_loop st all r (its ++ [it]) notIts with
              | LErr => False
              | LEmpty => forall s, In s ser -> ~ all_match s
              | LGo its' notIts' =>
                  exists Pi' Qn', semI its' Pi' /\ semN notIts' Qn' /\
                    (forall s, In s ser -> all_match s -> Pi' s = true /\ Qn' s = false) /\
                    (forall s, In s ser -> Pi' s = true -> Qn' s = false ->
                               forall m0, In m0 (done ++ m :: r) -> matches m0 (vof s m0) = true) /\
                    (its' <> [] \/ forall m0, In m0 (done ++ m :: r) -> matches m0 [] = true)
              end).
    { intros it P HP PA PB.
      specialize (IH (its ++ [it]) notIts (fun s => Pi s && P s) Qn (done ++ [m]) Hr
                     (semI_snoc _ _ _ _ HI HP) HN).
      rewrite <- app_assoc in IH. simpl in IH. apply IH.
      - intros s Hs Ha. destruct (HA s Hs Ha) as [H1 H2]. rewrite H1, (PA s Hs Ha). auto.
      - intros s Hs H1 H2 m0 Hm0. apply andb_prop in H1. destruct H1 as [H1 H1'].
        apply in_app_or in Hm0. destruct Hm0 as [Hm0|[Hm0|[]]]; [eapply HB; eauto|].
        subst m0. apply PB; assumption.
      - left. apply snoc_ne. }
    assert (STEP_N : forall x Q, sem st x Q -> matches m [] = true ->
              (forall s, In s ser -> matches m (vof s m) = negb (Q s)) ->
              match pfm_loop st all r its (notIts ++ [x]) with
              | LErr => False
              | LEmpty => forall s, In s ser -> ~ all_match s
              | LGo its' notIts' =>
                  exists Pi' Qn', semI its' Pi' /\ semN notIts' Qn' /\
                    (forall s, In s ser -> all_match s -> Pi' s = true /\ Qn' s = false) /\
                    (forall s, In s ser -> Pi' s = true -> Qn' s = false ->
                               forall m0, In m0 (done ++ m :: r) -> matches m0 (vof s m0) = true) /\
                    (its' <> [] \/ forall m0, In m0 (done ++ m :: r) -> matches m0 [] = true)
              end).
    { intros x Q HQ ME QE.
      specialize (IH its (notIts ++ [x]) Pi (fun s => Qn s || Q s) (done ++ [m]) Hr HI
                     (semN_snoc _ _ _ _ HN HQ)).
      rewrite <- app_assoc in IH. simpl in IH. apply IH.
      - intros s Hs Ha. destruct (HA s Hs Ha) as [H1 H2]. rewrite H1, H2. split; auto.
        specialize (Ha m Hm). rewrite (QE s Hs) in Ha. apply negb_true_iff in Ha. rewrite Ha. reflexivity.
      - intros s Hs H1 H2 m0 Hm0. apply orb_false_elim in H2. destruct H2 as [H2 H2'].
        apply in_app_or in Hm0. destruct Hm0 as [Hm0|[Hm0|[]]]; [eapply HB; eauto|].
        subst m0. rewrite (QE s Hs), H2'. reflexivity.
      - destruct HE as [HE|HE]; [left; assumption|right].
        intros m0 Hm0. apply in_app_or in Hm0. destruct Hm0 as [Hm0|[Hm0|[]]]; [auto|]. subst m0. assumption. }
    assert (EMPTY : forall P, sem st [] P -> (forall s, In s ser -> all_match s -> P s = true) ->
              forall s, In s ser -> ~ all_match s).
    { intros P HP PA s Hs Ha. pose proof (sem_nil_false st P HP s Hs) as F.
      rewrite (PA s Hs Ha) in F. discriminate. }
    simpl.
    destruct (is_all_key m) eqn:Ek.
    { unfold is_all_key in Ek. apply andb_prop in Ek. destruct Ek as [Ek _].
      destruct (m_name m); [congruence|discriminate]. }
    destruct (is_re m && str_eqb (m_value m) dot_star) eqn:E1.
    { apply andb_prop in E1. destruct E1 as [T V]. apply str_eqb_eq in V.
      specialize (IH its notIts Pi Qn (done ++ [m]) Hr HI HN HA).
      rewrite <- app_assoc in IH. simpl in IH. apply IH.
      - intros s Hs H1 H2 m0 Hm0.
        apply in_app_or in Hm0. destruct Hm0 as [Hm0|[Hm0|[]]]; [eapply HB; eauto|].
        subst m0. apply c_star; auto. apply relevant_vof; auto.
      - destruct HE as [HE|HE]; [left; assumption|right].
        intros m0 Hm0. apply in_app_or in Hm0. destruct Hm0 as [Hm0|[Hm0|[]]]; [auto|]. subst m0.
        apply c_star; auto. }
    destruct (is_nre m && str_eqb (m_value m) dot_star) eqn:E2.
    { apply andb_prop in E2. destruct E2 as [T V]. apply str_eqb_eq in V.
      intros s Hs Ha. specialize (Ha m Hm).
      rewrite (c_nstar m (vof s m) Hm T V) in Ha; [discriminate|]. apply relevant_vof; auto. }
    destruct (is_re m && str_eqb (m_value m) dot_plus) eqn:E3.
    { apply andb_prop in E3. destruct E3 as [T V]. apply str_eqb_eq in V.
      pose proof (sem_all_values st WF (m_name m)) as HS.
      assert (PA : forall s, In s ser -> all_match s -> has_val s (m_name m) (fun _ => true) = true).
      { intros s Hs Ha. rewrite <- (c_plus m s Hm Hs T V). apply Ha. assumption. }
      destruct (is_nil (ix_postings_all_values st (m_name m))) eqn:EN.
      - destruct (ix_postings_all_values st (m_name m)); [|discriminate]. eapply EMPTY; eauto.
      - apply (STEP_I _ _ HS PA). intros s Hs H. rewrite (c_plus m s Hm Hs T V). assumption. }
    destruct (is_nre m && str_eqb (m_value m) dot_plus) eqn:E4.
    { apply andb_prop in E4. destruct E4 as [T V]. apply str_eqb_eq in V.
      apply (STEP_N _ _ (sem_all_values st WF (m_name m))).
      - unfold matches. rewrite (is_nre_type m T).
        rewrite (oc_plus st m (Hoc m Hm)); auto. unfold is_regex. rewrite (is_nre_type m T). reflexivity.
      - intros s Hs. apply c_nplus; auto. }
    destruct (label_must_be_set all (m_name m)) eqn:EL.
    { destruct (is_not m && matches m []) eqn:E5.
      { apply andb_prop in E5. destruct E5 as [T ME].
        pose proof (sem_pfm1 st WF (inverse m) (oc_inverse st m (Hoc m Hm))) as HS.
        simpl in HS.
        apply (STEP_N _ _ HS ME).
        intros s Hs. rewrite (c_sub m s Hm Hs ME). f_equal.
        unfold has_val. destruct (ix_val s (m_name m)); auto. symmetry. apply matches_inverse. }
      destruct (is_not m) eqn:T.
      { simpl in E5.
        pose proof (sem_inv st WF (inverse m) (oc_inverse st m (Hoc m Hm)) Hn) as HS.
        simpl in HS.
        assert (HS' : sem st (inverse_postings_for_matcher st (inverse m))
                          (fun s => has_val s (m_name m) (matches m))).
        { eapply sem_ext; [exact HS|]. intros s Hs. unfold has_val.
          destruct (ix_val s (m_name m)); auto. rewrite matches_inverse, negb_involutive. reflexivity. }
        assert (PA : forall s, In s ser -> all_match s -> has_val s (m_name m) (matches m) = true).
        { intros s Hs Ha. rewrite <- (c_int m s Hm Hs E5). apply Ha. assumption. }
        destruct (is_nil (inverse_postings_for_matcher st (inverse m))) eqn:EN.
        - destruct (inverse_postings_for_matcher st (inverse m)); [|discriminate]. eapply EMPTY; eauto.
        - apply (STEP_I _ _ HS' PA). intros s Hs H. rewrite (c_int m s Hm Hs E5). assumption. }
      { pose proof (sem_pfm1 st WF m (Hoc m Hm)) as HS.
        assert (PA : forall s, In s ser -> all_match s -> has_val s (m_name m) (matches m) = true).
        { intros s Hs Ha. apply c_must_A; auto. }
        destruct (is_nil (postings_for_matcher st m)) eqn:EN.
        - destruct (postings_for_matcher st m); [|discriminate]. eapply EMPTY; eauto.
        - apply (STEP_I _ _ HS PA). intros s Hs H. apply c_must_B; auto. } }
    { pose proof (not_must_matches_empty m Hm EL) as ME.
      apply (STEP_N _ _ (sem_inv st WF m (Hoc m Hm) Hn) ME).
      intros s Hs. apply c_sub; auto. }
Qed.

End Loop.

(* its only grows *)
Lemma pfm_loop_its_mono : forall st all rem its notIts its' notIts',
  pfm_loop st all rem its notIts = LGo its' notIts' -> its <> [] -> its' <> [].
Proof.
  induction rem as [|m r IH]; simpl; intros its notIts its' notIts' H Hne.
  - inversion H; subst; assumption.
  - repeat (match type of H with context [if ?c then _ else _] => destruct c end);
      try discriminate; eapply IH; eauto using snoc_ne.
Qed.

(* ---------- PostingsForMatchers selects exactly the series satisfying every matcher ---------- *)
Definition series_matches (ms : list matcher) (s : series) : Prop :=
  forall m, In m ms -> matches m (lget (m_name m) (s_labels s)) = true.

Theorem pfm_exact : forall st ms,
  store_wfb st = true -> ms <> [] ->
  (forall m, In m ms -> m_name m <> []) ->
  (forall m, In m ms -> oracle_consistent st m) ->
  exists p, postings_for_matchers st ms = Ok p /\
    StronglySorted Z.lt p /\
    (forall r, In r p -> exists s, In s (st_series st) /\ s_ref s = r) /\
    (forall s, In s (st_series st) -> (In (s_ref s) p <-> series_matches ms s)).
Proof.
  intros st ms WF Hnn Hne Hoc.
  assert (EQ : postings_for_matchers st ms = pfm_general st ms).
  { unfold postings_for_matchers. destruct ms as [|m [|m' r]]; auto.
    destruct (is_all_key m) eqn:E; auto. unfold is_all_key in E.
    apply andb_prop in E. destruct E as [E _]. specialize (Hne m (or_introl eq_refl)).
    destruct (m_name m); [congruence|discriminate]. }
  rewrite EQ. unfold pfm_general.
  set (sorted := filter (fun m => negb (is_subtracting ms m)) ms ++ filter (is_subtracting ms) ms).
  set (its0 := if existsb (is_subtracting ms) ms && negb (existsb (fun m => negb (is_subtracting ms m)) ms)
               then [all_postings st] else []).
  assert (Hsub : forall m, In m sorted -> In m ms).
  { intros m H. apply in_app_or in H. destruct H as [H|H]; apply filter_In in H; tauto. }
  assert (Hsup : forall m, In m ms -> In m sorted).
  { intros m H. apply in_or_app. destruct (is_subtracting ms m) eqn:E.
    - right. apply filter_In. auto.
    - left. apply filter_In. rewrite E. auto. }
  assert (HI : semI st its0 (fun _ => true)).
  { unfold its0. destruct (existsb (is_subtracting ms) ms && negb (existsb (fun m => negb (is_subtracting ms m)) ms)).
    - right. split; [discriminate|]. simpl. apply sem_all_postings. assumption.
    - left. auto. }
  assert (HN : semN st [] (fun _ => false)).
  { intros base Pb Hb. simpl. eapply sem_ext; [exact Hb|]. intros. rewrite andb_true_r. reflexivity. }
  pose proof (loop_ok st WF ms Hne Hoc sorted its0 [] (fun _ => true) (fun _ => false) [] Hsub HI HN) as L.
  simpl in L.
  assert (L' := L).
  specialize (L' (fun _ _ _ => conj eq_refl eq_refl)).
  assert (B0 : forall s : series, In s (st_series st) -> true = true -> false = false ->
               forall m : matcher, In m [] -> matches m (vof s m) = true) by (intros ? ? ? ? ? []).
  specialize (L' B0).
  assert (E0 : its0 <> [] \/ (forall m : matcher, In m [] -> matches m [] = true)) by (right; intros ? []).
  specialize (L' E0).
  clear L.
  destruct (pfm_loop st ms sorted its0 []) as [| |its' notIts'] eqn:EL.
  - destruct L'.
  - exists []. split; [reflexivity|]. split; [constructor|]. split; [intros r []|].
    intros s Hs. split; [intros []|]. intros H. exfalso. apply (L' s Hs). exact H.
  - destruct L' as [Pi' [Qn' [HI' [HN' [HA' [HB' HE']]]]]].
    assert (NE : its' <> []).
    { destruct HE' as [HE'|HE']; [assumption|].
      eapply pfm_loop_its_mono; [exact EL|].
      assert (AS : forall m, In m ms -> is_subtracting ms m = true).
      { intros m Hm. unfold is_subtracting.
        assert (label_must_be_set ms (m_name m) = false) as ->; [|reflexivity].
        unfold label_must_be_set.
        destruct (existsb (fun m0 => str_eqb (m_name m0) (m_name m) && negb (matches m0 [])) ms) eqn:EX; auto.
        apply existsb_exists in EX. destruct EX as [m' [Hm' EX]].
        apply andb_prop in EX. destruct EX as [_ EX]. rewrite (HE' m' (Hsup m' Hm')) in EX. discriminate. }
      unfold its0.
      assert (existsb (is_subtracting ms) ms = true) as ->.
      { destruct ms as [|m r]; [congruence|]. apply existsb_exists. exists m. split; [left; reflexivity|].
        apply AS. left. reflexivity. }
      assert (existsb (fun m => negb (is_subtracting ms m)) ms = false) as ->.
      { destruct (existsb (fun m => negb (is_subtracting ms m)) ms) eqn:EX; auto.
        apply existsb_exists in EX. destruct EX as [m' [Hm' EX]]. rewrite (AS m' Hm') in EX. discriminate. }
      simpl. discriminate. }
    destruct HI' as [[E _]|[_ HS]]; [congruence|].
    specialize (HN' _ _ HS). destruct HN' as [S1 [S2 S3]].
    eexists. split; [reflexivity|]. split; [exact S1|]. split; [exact S2|].
    intros s Hs. rewrite (S3 s Hs). split.
    + intros H. apply andb_prop in H. destruct H as [H1 H2]. apply negb_true_iff in H2.
      intros m Hm. apply (HB' s Hs H1 H2 m). simpl. apply Hsup. assumption.
    + intros H. destruct (HA' s Hs H) as [H1 H2]. rewrite H1, H2. reflexivity.
Qed.

(* ---------- Select on one store ---------- *)
Lemma ins_series_In : forall x y l, In x (ins_series y l) <-> x = y \/ In x l.
Proof.
  induction l as [|z l IH]; simpl; [intuition|].
  destruct (labels_ltb (s_labels y) (s_labels z)); simpl; [intuition|].
  rewrite IH. intuition.
Qed.

Lemma sort_series_In : forall x l, In x (sort_series l) <-> In x l.
Proof.
  induction l as [|y l IH]; simpl; [tauto|].
  rewrite ins_series_In, IH. intuition.
Qed.

Lemma lookup_all_In : forall st, store_wfb st = true -> forall p s,
  In s (lookup_all st p) <-> In s (st_series st) /\ In (s_ref s) p.
Proof.
  intros st WF. induction p as [|r p IH]; intros s; simpl; [tauto|].
  unfold find_series. destruct (find (fun s0 => s_ref s0 =? r) (st_series st)) eqn:F.
  - apply find_some in F. destruct F as [F1 F2]. apply Z.eqb_eq in F2.
    simpl. rewrite IH. split.
    + intros [H|H]; [subst; auto|tauto].
    + intros [H1 [H2|H2]]; [|tauto]. left. apply (wf_inj st WF); auto. congruence.
  - rewrite IH. split; [tauto|]. intros [H1 [H2|H2]]; [|tauto].
    exfalso. pose proof (find_none _ _ F s H1) as N. simpl in N. rewrite H2, Z.eqb_refl in N. discriminate.
Qed.

Theorem select_exact : forall st mint maxt sorted ms,
  store_wfb st = true -> ms <> [] ->
  (forall m, In m ms -> m_name m <> []) ->
  (forall m, In m ms -> oracle_consistent st m) ->
  exists l, select_store st mint maxt sorted ms = Ok l /\
    forall ls, In ls l <->
      exists s, In s (st_series st) /\ s_labels s = ls /\ series_matches ms s /\
                existsb (chunk_overlaps mint maxt) (s_chunks s) = true.
Proof.
  intros st mint maxt sorted ms WF Hnn Hne Hoc.
  destruct (pfm_exact st ms WF Hnn Hne Hoc) as [p [E [_ [_ HP]]]].
  unfold select_store. rewrite E. eexists. split; [reflexivity|].
  intros ls. rewrite in_map_iff. split.
  - intros [s [H1 H2]]. apply filter_In in H2. destruct H2 as [H2 H3].
    assert (H4 : In s (lookup_all st p)) by (destruct sorted; [apply sort_series_In|]; assumption).
    apply (lookup_all_In st WF) in H4. destruct H4 as [H4 H5].
    exists s. repeat split; auto. apply HP; assumption.
  - intros [s [H1 [H2 [H3 H4]]]]. exists s. split; auto. apply filter_In. split; auto.
    assert (H5 : In s (lookup_all st p)) by (apply (lookup_all_In st WF); split; auto; apply HP; auto).
    destruct sorted; [apply sort_series_In|]; assumption.
Qed.

(* ---------- postings algebra, packaged ---------- *)
Theorem postings_algebra : forall a b, StronglySorted Z.lt a -> StronglySorted Z.lt b ->
  (StronglySorted Z.lt (isect a b) /\ forall x, In x (isect a b) <-> In x a /\ In x b) /\
  (StronglySorted Z.lt (merge2 a b) /\ forall x, In x (merge2 a b) <-> In x a \/ In x b) /\
  (StronglySorted Z.lt (without a b) /\ forall x, In x (without a b) <-> In x a /\ ~ In x b).
Proof.
  intros a b Ha Hb. split; [|split]; split.
  - apply isect_SS; assumption.
  - apply isect_In; assumption.
  - apply merge2_SS; assumption.
  - apply merge2_In.
  - apply without_SS; assumption.
  - apply without_In; assumption.
Qed.

(* ---------- a concrete non-trivial instance of the hypotheses ---------- *)
Definition ex_a : str := [97]%N.
Definition ex_b : str := [98]%N.
Definition ex_x : str := [120]%N.
Definition ex_y : str := [121]%N.
Definition ex_1 : str := [49]%N.
Definition ex_2 : str := [50]%N.
Definition ex_st : store :=
  mkSt Block 0 1000
       [mkS 1 [(ex_a, ex_x); (ex_b, ex_1)] [(10, 20)];
        mkS 2 [(ex_a, ex_y)] [(30, 40)];
        mkS 3 [(ex_b, ex_2)] [(5, 6)]]
       [([], [[]]); (ex_a, [ex_x; ex_y]); (ex_b, [ex_1; ex_2])].
(* {a=~".+", b!="1"} *)
Definition ex_m1 : matcher := mkM MRe ex_a dot_plus [([], false); (ex_x, true); (ex_y, true)] [].
Definition ex_m2 : matcher := mkM MNe ex_b ex_1 [] [].
Definition ex_ms : list matcher := [ex_m1; ex_m2].

Lemma ex_nonvacuous :
  store_wfb ex_st = true /\ ex_ms <> [] /\
  (forall m, In m ex_ms -> m_name m <> []) /\
  (forall m, In m ex_ms -> oracle_consistent ex_st m) /\
  postings_for_matchers ex_st ex_ms = Ok [2] /\
  select_store ex_st 0 35 true ex_ms = Ok [[(ex_a, ex_y)]] /\
  select_store ex_st 0 29 true ex_ms = Ok [].
Proof.
  split; [reflexivity|]. split; [discriminate|]. split.
  { intros m [H|[H|[]]]; subst; discriminate. }
  split; [|repeat split; reflexivity].
  intros m [H|[H|[]]]; subst; constructor; simpl; try discriminate; try congruence.
  intros _ _ w [H|H]; [subst; reflexivity|].
  simpl in H. destruct H as [H|[H|[]]]; subst; reflexivity.
Qed.

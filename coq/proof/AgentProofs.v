(* proof/AgentProofs.v — proofs about model/Agent.v (property C48). *)
From Coq Require Import List ZArith Bool Lia.
From Verif Require Import lib.Int64 model.Checkpoint model.Agent.
Import ListNotations.
Open Scope Z_scope.

(* ------------------------------------------------------------------ small facts *)
Lemma memz_iff x l : memz x l = true <-> In x l.
Proof.
  unfold memz. rewrite existsb_exists. split.
  - intros [y [Hy E]]. apply Z.eqb_eq in E. subst; auto.
  - intros H. exists x. split; auto. apply Z.eqb_refl.
Qed.

Lemma lookup_upsert_eq {A} k (v : A) m : lookup k (upsert k v m) = Some v.
Proof.
  induction m as [|[k' v'] m IH]; simpl.
  - rewrite Z.eqb_refl. auto.
  - destruct (k =? k') eqn:E; simpl; rewrite ?Z.eqb_refl, ?E; auto.
Qed.

Lemma lookup_upsert_neq {A} k k' (v : A) m : k <> k' -> lookup k (upsert k' v m) = lookup k m.
Proof.
  intros N. induction m as [|[k2 v2] m IH]; simpl.
  - destruct (k =? k') eqn:E; auto. apply Z.eqb_eq in E. contradiction.
  - destruct (k' =? k2) eqn:E; simpl.
    + apply Z.eqb_eq in E. subst. destruct (k =? k2) eqn:E2; auto. apply Z.eqb_eq in E2. contradiction.
    + destruct (k =? k2); auto.
Qed.

Lemma lookup_remove_key {A} k k' (m : list (Z * A)) :
  lookup k (remove_key k' m) = if k =? k' then None else lookup k m.
Proof.
  unfold remove_key. induction m as [|[k2 v2] m IH]; simpl.
  - destruct (k =? k'); auto.
  - destruct (k2 =? k') eqn:E; simpl.
    + apply Z.eqb_eq in E. subst. rewrite IH. destruct (k =? k') eqn:E2; auto.
    + rewrite IH. destruct (k =? k2) eqn:E2; auto.
      apply Z.eqb_eq in E2. subst. rewrite E. auto.
Qed.

Lemma series_refs_app a b : series_refs (a ++ b) = series_refs a ++ series_refs b.
Proof. unfold series_refs. apply flat_map_app. Qed.

Lemma series_refs_nonempty l : series_refs (nonempty RSeries l) = map fst l.
Proof. destruct l; simpl; auto. unfold series_refs. simpl. rewrite app_nil_r. auto. Qed.

Lemma series_refs_nonempty_samples k (l : list sample) : series_refs (nonempty (RSamples k) l) = [].
Proof. destruct l; reflexivity. Qed.

Lemma series_refs_nonempty_ex (l : list sample) : series_refs (nonempty RExemplars l) = [].
Proof. destruct l; reflexivity. Qed.

Lemma in_nonempty {A} (mk : list A -> record) l x : In x l -> nonempty mk l = [mk l].
Proof. destruct l; simpl; intros H; [contradiction|auto]. Qed.

(* ------------------------------------------------------------------ `logged`: what the boolean means *)
Definition holds_item (k : Z) (x : sample) (r : record) : Prop :=
  match r with
  | RSamples k' l => k' = k /\ In x l
  | RExemplars l => k = -1 /\ In x l
  | _ => False
  end.

Lemma existsb_sample (x : sample) l :
  existsb (fun y : sample => (fst (fst y) =? fst (fst x)) && (snd (fst y) =? snd (fst x)) && (snd y =? snd x)) l = true
  <-> In x l.
Proof.
  rewrite existsb_exists. split.
  - intros [[[a b] c] [Hy E]]. destruct x as [[a' b'] c']. simpl in E.
    apply andb_true_iff in E. destruct E as [E E3]. apply andb_true_iff in E. destruct E as [E1 E2].
    apply Z.eqb_eq in E1, E2, E3. subst. auto.
  - intros H. exists x. split; auto. rewrite !Z.eqb_refl. auto.
Qed.

Lemma logged_from_intro k x : forall l1 seen R l2,
  holds_item k x R ->
  (In (fst (fst x)) seen \/ In (fst (fst x)) (series_refs l1)) ->
  logged_from seen k x (l1 ++ R :: l2) = true.
Proof.
  induction l1 as [|r l1 IH]; intros seen R l2 HR HS; simpl.
  - apply orb_true_iff. left.
    assert (M : memz (fst (fst x)) seen = true).
    { apply memz_iff. destruct HS as [|[]]; auto. }
    destruct R; simpl in HR; try contradiction; destruct HR as [E HI]; subst.
    + rewrite Z.eqb_refl, M. simpl. apply existsb_sample; auto.
    + rewrite M. simpl. apply existsb_sample; auto.
  - apply orb_true_iff. right. apply IH; auto.
    rewrite in_app_iff. unfold series_refs in HS. simpl in HS. rewrite in_app_iff in HS.
    destruct HS as [H|[H|H]]; auto.
Qed.

Lemma logged_from_elim k x : forall recs seen,
  logged_from seen k x recs = true ->
  exists l1 R l2, recs = l1 ++ R :: l2 /\ holds_item k x R /\
                  (In (fst (fst x)) seen \/ In (fst (fst x)) (series_refs l1)).
Proof.
  induction recs as [|r recs IH]; intros seen H; simpl in H; [discriminate|].
  apply orb_true_iff in H. destruct H as [H|H].
  - exists [], r, recs. split; auto.
    destruct r; try discriminate.
    + apply andb_true_iff in H. destruct H as [H H3]. apply andb_true_iff in H. destruct H as [H1 H2].
      apply Z.eqb_eq in H1. apply memz_iff in H2. apply existsb_sample in H3. simpl. auto.
    + apply andb_true_iff in H. destruct H as [H H3]. apply andb_true_iff in H. destruct H as [H1 H2].
      apply Z.eqb_eq in H1. apply memz_iff in H2. apply existsb_sample in H3. simpl. auto.
  - destruct (IH _ H) as [l1 [R [l2 [E [HR HS]]]]].
    exists (r :: l1), R, l2. split; [subst; auto|]. split; auto.
    unfold series_refs. simpl. rewrite in_app_iff in *. destruct HS as [[HS|HS]|HS]; auto.
Qed.

(* logged k x recs: recs = l1 ++ R :: l2 where R is a record of kind k holding x and l1 has a series
   record of x's ref *)
Theorem logged_iff k x recs :
  logged k x recs = true <->
  exists l1 R l2, recs = l1 ++ R :: l2 /\ holds_item k x R /\ In (fst (fst x)) (series_refs l1).
Proof.
  unfold logged. split.
  - intros H. destruct (logged_from_elim _ _ _ _ H) as [l1 [R [l2 [E [HR [[]|HS]]]]]]. eauto 8.
  - intros [l1 [R [l2 [E [HR HS]]]]]. subst. apply logged_from_intro; auto.
Qed.

(* ------------------------------------------------------------------ the WAL *)
Lemma attach_ge : forall recs cur rolls sr, In sr (attach cur rolls recs) -> cur <= fst sr.
Proof.
  induction recs as [|r recs IH]; intros cur rolls sr H; simpl in H; [contradiction|].
  destruct rolls as [|k q]; simpl in H.
  - destruct H as [H|H]; [subst; simpl; lia|]. apply IH in H. lia.
  - destruct H as [H|H]; [subst; simpl; lia|]. apply IH in H. lia.
Qed.

Lemma attach_snd : forall recs cur rolls, map snd (attach cur rolls recs) = recs.
Proof.
  induction recs as [|r recs IH]; intros; simpl; auto.
  destruct rolls; simpl; rewrite IH; auto.
Qed.

Lemma fold_max_ge (l : list (Z * record)) : forall c, c <= fold_left (fun c sr => Z.max c (fst sr)) l c.
Proof. induction l; intros; simpl; [lia|]. etransitivity; [|apply IHl]. lia. Qed.

Lemma filter_all {A} (f : A -> bool) l : (forall x, In x l -> f x = true) -> filter f l = l.
Proof.
  induction l; simpl; intros H; auto. rewrite H by auto. f_equal. apply IHl. auto.
Qed.

Lemma wal_records_write w rolls recs :
  w_cpidx w < w_cur w ->
  wal_records (wal_write w rolls recs) = wal_records w ++ recs.
Proof.
  intros H. unfold wal_write, wal_log, wal_records. simpl.
  rewrite filter_app, map_app, app_assoc. f_equal.
  rewrite filter_all.
  - apply attach_snd.
  - intros sr Hs. apply attach_ge in Hs. apply Z.ltb_lt. lia.
Qed.

Lemma wal_write_cur w rolls recs : w_cur w <= w_cur (wal_write w rolls recs).
Proof. unfold wal_write, wal_log. simpl. apply fold_max_ge. Qed.

Lemma wal_write_cpidx w rolls recs : w_cpidx (wal_write w rolls recs) = w_cpidx w.
Proof. reflexivity. Qed.

Lemma wal_records_next w : wal_records (wal_next_segment w) = wal_records w.
Proof. reflexivity. Qed.

Lemma plan_last_lt first cur last : plan_last first cur = Some last -> last < cur.
Proof.
  unfold plan_last. destruct (cur - 1 <? 0) eqn:E; [discriminate|].
  destruct (first + (cur - 1 - first) * 2 ÷ 3 <=? first) eqn:E2; [discriminate|].
  intros H. inversion H; subst. clear H. apply Z.leb_gt in E2.
  assert (0 < (cur - 1 - first) * 2 ÷ 3) by lia.
  assert (0 <= cur - 1 - first).
  { destruct (Z_lt_le_dec (cur - 1 - first) 0); auto.
    assert ((cur - 1 - first) * 2 ÷ 3 <= 0); [|lia].
    rewrite <- (Z.quot_0_l 3) by lia. apply Z.quot_le_mono; lia. }
  assert ((cur - 1 - first) * 2 ÷ 3 <= cur - 1 - first); [|lia].
  apply Z.quot_le_upper_bound; lia.
Qed.

(* ------------------------------------------------------------------ wlog.Checkpoint: what is kept *)
Lemma cp_body_samples keep mint recs k l x :
  In (RSamples k l) recs -> In x l -> mint <= snd (fst x) ->
  exists l', In (RSamples k l') (cp_body keep mint recs) /\ In x l'.
Proof.
  intros HR Hx Ht. unfold cp_body. exists (cp_samples mint l). split.
  - apply in_flat_map. exists (RSamples k l). split; auto. simpl.
    assert (In x (cp_samples mint l)).
    { unfold cp_samples. apply filter_In. split; auto. apply Z.leb_le. auto. }
    destruct (cp_samples mint l); [contradiction|]. left; auto.
  - unfold cp_samples. apply filter_In. split; auto. apply Z.leb_le. auto.
Qed.

Lemma cp_body_exemplars keep mint recs l x :
  In (RExemplars l) recs -> In x l -> mint <= snd (fst x) ->
  exists l', In (RExemplars l') (cp_body keep mint recs) /\ In x l'.
Proof.
  intros HR Hx Ht. unfold cp_body. exists (cp_samples mint l). split.
  - apply in_flat_map. exists (RExemplars l). split; auto. simpl.
    assert (In x (cp_samples mint l)).
    { unfold cp_samples. apply filter_In. split; auto. apply Z.leb_le. auto. }
    destruct (cp_samples mint l); [contradiction|]. left; auto.
  - unfold cp_samples. apply filter_In. split; auto. apply Z.leb_le. auto.
Qed.

Lemma cp_body_series keep mint recs r :
  In r (series_refs recs) -> keep r = true -> In r (series_refs (cp_body keep mint recs)).
Proof.
  intros H K. unfold series_refs in *. apply in_flat_map in H. destruct H as [R [HR Hr]].
  destruct R; simpl in Hr; try contradiction.
  apply in_map_iff in Hr. destruct Hr as [[r' b] [E Hl]]. simpl in E. subst r'.
  apply in_flat_map. exists (RSeries (cp_series keep l)). split.
  - unfold cp_body. apply in_flat_map. exists (RSeries l). split; auto. simpl.
    assert (In (r, b) (cp_series keep l)) by (unfold cp_series; apply filter_In; auto).
    destruct (cp_series keep l); [contradiction|]. left; auto.
  - simpl. apply in_map_iff. exists (r, b). split; auto. unfold cp_series. apply filter_In. auto.
Qed.

(* membership in the WAL before / after DB.truncate: a record of the old WAL is either input of the
   checkpoint or in a segment above it *)
Lemma wal_records_split w last R :
  In R (wal_records w) ->
  In R (cp_input (wal_next_segment w) last) \/
  In R (map snd (filter (fun sr => last <? fst sr) (filter (fun sr => last <? fst sr) (w_segs w)))).
Proof.
  unfold wal_records, cp_input. simpl. rewrite !in_app_iff. intros [H|H]; auto.
  apply in_map_iff in H. destruct H as [[s r] [E H]]. simpl in E. subst r.
  apply filter_In in H. destruct H as [H C]. simpl in C.
  destruct (s <=? last) eqn:E.
  - left. right. apply in_map_iff. exists (s, R). split; auto. apply filter_In. split; auto. simpl.
    rewrite C, E. auto.
  - right. apply in_map_iff. exists (s, R). split; auto.
    assert ((last <? s) = true) by (apply Z.ltb_lt; apply Z.leb_gt in E; lia).
    apply filter_In. split; [apply filter_In; split; auto|]; simpl; auto.
Qed.

Lemma agent_truncate_wal a mint gone :
  let w := a_wal a in
  a_wal (agent_truncate a mint gone) =
  match plan_last (w_first w) (w_cur w) with
  | None => wal_next_segment w
  | Some last =>
      wal_checkpointed (wal_next_segment w) last
        (checkpoint (agent_keep (filter (fun r => negb (memz r gone)) (a_series a))
                                (set_all gone (w_cur w) (a_deleted a)) last) mint
                    (cp_input (wal_next_segment w) last))
  end.
Proof. unfold agent_truncate. simpl. destruct (plan_last _ _); reflexivity. Qed.

Lemma wal_records_checkpointed w last cp :
  wal_records (wal_checkpointed w last cp) =
  cp ++ map snd (filter (fun sr => last <? fst sr) (filter (fun sr => last <? fst sr) (w_segs w))).
Proof. reflexivity. Qed.

(* ------------------------------------------------------------------ DB.truncate: what stays in the WAL *)
Lemma truncate_wal o d mint zv :
  o_inmem o = false ->
  d_wal (truncate o d mint zv) =
  a_wal (agent_truncate (mkAgent (map s_ref (d_series d)) (d_deleted d) (d_wal d)) mint (gc_gone mint (d_series d))).
Proof. intros H. unfold truncate. rewrite H. reflexivity. Qed.

Lemma truncate_series o d mint zv :
  d_series (truncate o d mint zv) =
  filter (fun s => negb (memz (s_ref s) (gc_gone mint (d_series d)))) (d_series d).
Proof.
  unfold truncate. destruct (o_inmem o); [|reflexivity].
  destruct (plan_last (w_first (d_wal d)) (w_cur (d_wal d))); reflexivity.
Qed.

Theorem truncate_keeps_samples o d mint zv k l x :
  o_inmem o = false ->
  In (RSamples k l) (wal_records (d_wal d)) -> In x l -> mint <= snd (fst x) ->
  exists l', In (RSamples k l') (wal_records (d_wal (truncate o d mint zv))) /\ In x l'.
Proof.
  intros HO HR Hx Ht. rewrite (truncate_wal _ _ _ _ HO), agent_truncate_wal. simpl.
  destruct (plan_last (w_first (d_wal d)) (w_cur (d_wal d))) as [last|].
  - rewrite wal_records_checkpointed.
    destruct (wal_records_split (d_wal d) last _ HR) as [A|B].
    + destruct (cp_body_samples
                  (agent_keep (filter (fun r => negb (memz r (gc_gone mint (d_series d)))) (map s_ref (d_series d)))
                              (set_all (gc_gone mint (d_series d)) (w_cur (d_wal d)) (d_deleted d)) last)
                  mint _ k l x A Hx Ht) as [l' [H1 H2]].
      exists l'. split; auto. apply in_app_iff. left. unfold checkpoint. apply in_app_iff. left. exact H1.
    + exists l. split; auto. apply in_app_iff. right. exact B.
  - exists l. split; auto.
Qed.

Theorem truncate_keeps_exemplars o d mint zv l x :
  o_inmem o = false ->
  In (RExemplars l) (wal_records (d_wal d)) -> In x l -> mint <= snd (fst x) ->
  exists l', In (RExemplars l') (wal_records (d_wal (truncate o d mint zv))) /\ In x l'.
Proof.
  intros HO HR Hx Ht. rewrite (truncate_wal _ _ _ _ HO), agent_truncate_wal. simpl.
  destruct (plan_last (w_first (d_wal d)) (w_cur (d_wal d))) as [last|].
  - rewrite wal_records_checkpointed.
    destruct (wal_records_split (d_wal d) last _ HR) as [A|B].
    + destruct (cp_body_exemplars
                  (agent_keep (filter (fun r => negb (memz r (gc_gone mint (d_series d)))) (map s_ref (d_series d)))
                              (set_all (gc_gone mint (d_series d)) (w_cur (d_wal d)) (d_deleted d)) last)
                  mint _ l x A Hx Ht) as [l' [H1 H2]].
      exists l'. split; auto. apply in_app_iff. left. unfold checkpoint. apply in_app_iff. left. exact H1.
    + exists l. split; auto. apply in_app_iff. right. exact B.
  - exists l. split; auto.
Qed.

Lemma series_refs_in r recs : In r (series_refs recs) <-> exists R, In R recs /\ In r (series_refs [R]).
Proof.
  unfold series_refs. rewrite in_flat_map. split; intros [R [H1 H2]]; exists R; split; auto.
  - simpl. rewrite app_nil_r. auto.
  - simpl in H2. rewrite app_nil_r in H2. auto.
Qed.

(* the series record of a series that survives the garbage collection stays in the WAL (both checkpoint
   implementations) *)
Lemma inmem_checkpoint_series ser del dlab last zv r :
  In r (map s_ref ser) -> In r (series_refs (inmem_checkpoint ser del dlab last zv)).
Proof.
  intros H. unfold inmem_checkpoint. destruct ser as [|s0 ser]; [contradiction|].
  rewrite series_refs_app. apply in_app_iff. left. unfold series_refs. simpl. rewrite app_nil_r.
  rewrite map_map. simpl in *. exact H.
Qed.

Theorem truncate_keeps_series o d mint zv r :
  In r (map s_ref (d_series (truncate o d mint zv))) ->
  In r (series_refs (wal_records (d_wal d))) ->
  In r (series_refs (wal_records (d_wal (truncate o d mint zv)))).
Proof.
  intros HL HR. rewrite truncate_series in HL. destruct (o_inmem o) eqn:HO.
  - unfold truncate. rewrite HO.
    destruct (plan_last (w_first (d_wal d)) (w_cur (d_wal d))) as [last|]; simpl; auto.
    rewrite wal_records_checkpointed, series_refs_app. apply in_app_iff. left.
    apply inmem_checkpoint_series. exact HL.
  - rewrite (truncate_wal _ _ _ _ HO), agent_truncate_wal. simpl.
    destruct (plan_last (w_first (d_wal d)) (w_cur (d_wal d))) as [last|]; auto.
    rewrite wal_records_checkpointed, series_refs_app.
    apply series_refs_in in HR. destruct HR as [R [HR Hr]].
    apply in_app_iff.
    destruct (wal_records_split (d_wal d) last _ HR) as [A|B].
    + left. unfold checkpoint. rewrite series_refs_app. apply in_app_iff. left.
      apply cp_body_series.
      * apply series_refs_in. eauto.
      * unfold agent_keep. apply orb_true_iff. left. apply memz_iff.
        apply in_map_iff in HL. destruct HL as [s [E Hs]]. apply filter_In in Hs.
        destruct Hs as [Hs Hg]. apply filter_In. subst r. split.
        -- apply in_map. auto.
        -- exact Hg.
    + right. apply series_refs_in. eauto.
Qed.

(* stripeSeries.GC: a surviving series has a write at or after mint; a collected one has none *)
Theorem truncate_gc_spec o d mint zv s :
  In s (d_series d) ->
  (In s (d_series (truncate o d mint zv)) -> mint <= s_last s) /\
  (~ In s (d_series (truncate o d mint zv)) -> exists s', In s' (d_series d) /\ s_ref s' = s_ref s /\ s_last s' < mint).
Proof.
  intros Hs. rewrite truncate_series. split.
  - intros H. apply filter_In in H. destruct H as [_ H].
    destruct (Z_lt_le_dec (s_last s) mint) as [L|L]; auto.
    assert (M : memz (s_ref s) (gc_gone mint (d_series d)) = true).
    { apply memz_iff. unfold gc_gone. apply in_map. apply filter_In. split; auto. apply Z.ltb_lt. auto. }
    rewrite M in H. discriminate.
  - intros H. destruct (memz (s_ref s) (gc_gone mint (d_series d))) eqn:M.
    + apply memz_iff in M. unfold gc_gone in M. apply in_map_iff in M. destruct M as [s' [E Hs']].
      apply filter_In in Hs'. destruct Hs' as [H1 H2]. apply Z.ltb_lt in H2. eauto.
    + exfalso. apply H. apply filter_In. split; auto. rewrite M. auto.
Qed.

Theorem restart_keeps_wal o d : wal_records (d_wal (restart o d)) = wal_records (d_wal d).
Proof. reflexivity. Qed.

(* ------------------------------------------------------------------ appends only extend *)
Definition item_ref (it : Z * sample) : ref := fst (fst (snd it)).

Definition series_ids (d : db) : list ref := map s_ref (d_series d).

Record ext (d : db) (p : app) (d' : db) (p' : app) : Prop := mkExt {
  ext_wal : d_wal d' = d_wal d;
  ext_ps : incl (map fst (p_series p)) (map fst (p_series p'));
  ext_ids : incl (series_ids d) (series_ids d');
  ext_new : forall r, In r (series_ids d') -> In r (series_ids d) \/ In r (map fst (p_series p'));
  ext_items : forall it, In it (pending_items p') -> In it (pending_items p) \/ In (item_ref it) (series_ids d')
}.

Lemma ext_refl d p : ext d p d p.
Proof. constructor; auto using incl_refl. Qed.

Lemma ext_trans d p d1 p1 d2 p2 : ext d p d1 p1 -> ext d1 p1 d2 p2 -> ext d p d2 p2.
Proof.
  intros [A1 A2 A3 A4 A5] [B1 B2 B3 B4 B5]. constructor.
  - congruence.
  - eapply incl_tran; eauto.
  - eapply incl_tran; eauto.
  - intros r H. destruct (B4 r H) as [H1|H1]; auto. destruct (A4 r H1); auto.
  - intros it H. destruct (B5 it H) as [H1|H1]; auto. destruct (A5 it H1); auto.
Qed.

Lemma find_id_in r l s : find_id r l = Some s -> In s l /\ s_ref s = r.
Proof.
  induction l as [|a l IH]; simpl; [discriminate|]. destruct (s_ref a =? r) eqn:E.
  - intros H. inversion H; subst. apply Z.eqb_eq in E. auto.
  - intros H. destruct (IH H). auto.
Qed.

Lemma find_lab_in b l s : find_lab b l = Some s -> In s l /\ s_lab s = b.
Proof.
  induction l as [|a l IH]; simpl; [discriminate|]. destruct (s_lab a =? b) eqn:E.
  - intros H. inversion H; subst. apply Z.eqb_eq in E. auto.
  - intros H. destruct (IH H). auto.
Qed.

Lemma goc_ext d p r b d1 p1 s :
  get_or_create d p r b = inl (d1, p1, s) ->
  ext d p d1 p1 /\ In (s_ref s) (series_ids d1) /\ pending_items p1 = pending_items p.
Proof.
  unfold get_or_create.
  destruct (if r =? 0 then None else find_id r (d_series d)) as [s0|] eqn:E1.
  - intros H. inversion H; subst. split; [apply ext_refl|]. split; auto.
    destruct (r =? 0); [discriminate|]. apply find_id_in in E1. destruct E1. unfold series_ids. apply in_map. auto.
  - destruct (b <=? 0); [discriminate|].
    destruct (find_lab b (d_series d)) as [s0|] eqn:E2.
    + intros H. inversion H; subst. split; [apply ext_refl|]. split; auto.
      apply find_lab_in in E2. destruct E2. unfold series_ids. apply in_map. auto.
    + intros H. inversion H; subst. clear H. split; [|split].
      * constructor; simpl; auto.
        -- rewrite map_app. apply incl_appl, incl_refl.
        -- unfold series_ids. simpl. rewrite map_app. apply incl_appl, incl_refl.
        -- unfold series_ids. simpl. intros r0 H. rewrite map_app in *. apply in_app_iff in H.
           destruct H as [H|H]; auto. right. apply in_app_iff. right. exact H.
      * unfold series_ids. simpl. rewrite map_app. apply in_app_iff. right. simpl. auto.
      * reflexivity.
Qed.

Lemma pending_push p k x it :
  In it (pending_items (push p k x)) -> In it (pending_items p) \/ snd it = x.
Proof.
  unfold push, pending_items.
  destruct (k =? 0); [|destruct ((k =? 1) || (k =? 3))]; simpl;
    rewrite ?map_app, ?in_app_iff; simpl; intros H; intuition (subst; auto).
Qed.

Lemma pending_push_ex p x it :
  In it (pending_items (push_ex p x)) -> In it (pending_items p) \/ snd it = x.
Proof.
  unfold push_ex, pending_items. simpl. rewrite ?map_app, ?in_app_iff. simpl.
  intros H; intuition (subst; auto).
Qed.

Lemma push_series p k x : p_series (push p k x) = p_series p.
Proof. unfold push. destruct (k =? 0); [|destruct ((k =? 1) || (k =? 3))]; reflexivity. Qed.

Lemma ext_push d p k r t v : In r (series_ids d) -> ext d p d (push p k (r, t, v)).
Proof.
  intros H. constructor; auto using incl_refl.
  - rewrite push_series. apply incl_refl.
  - intros it Hi. apply pending_push in Hi. destruct Hi as [Hi|Hi]; auto.
    right. unfold item_ref. rewrite Hi. simpl. auto.
Qed.

Lemma ext_push_ex d p r t v : In r (series_ids d) -> ext d p d (push_ex p (r, t, v)).
Proof.
  intros H. constructor; auto using incl_refl.
  intros it Hi. apply pending_push_ex in Hi. destruct Hi as [Hi|Hi]; auto.
    right. unfold item_ref. rewrite Hi. simpl. auto.
Qed.

Lemma set_lastex_same d r e :
  d_wal (set_lastex d r e) = d_wal d /\ d_series (set_lastex d r e) = d_series d.
Proof. unfold set_lastex. destruct (find_id r (d_series d)); auto. Qed.

Lemma ext_set_lastex d p r e : ext d p (set_lastex d r e) p.
Proof.
  destruct (set_lastex_same d r e) as [A B].
  constructor; unfold series_ids; rewrite ?B; auto using incl_refl.
Qed.

Lemma ex_fold_ext : forall es d p r errs d' p' errs',
  In r (series_ids d) -> ex_fold d p r es errs = (d', p', errs') -> ext d p d' p'.
Proof.
  induction es as [|e es IH]; intros d p r errs d' p' errs' Hr H; simpl in H.
  - inversion H; subst. apply ext_refl.
  - destruct (ex_check d r e =? -1); [eapply IH; eauto|].
    destruct (negb (ex_check d r e =? 0)); [eapply IH; eauto|].
    eapply ext_trans; [|eapply IH; [|exact H]].
    + eapply ext_trans; [apply ext_set_lastex|]. apply ext_push_ex.
      unfold series_ids. rewrite (proj2 (set_lastex_same d r (fst (fst e)))). exact Hr.
    + unfold series_ids. rewrite (proj2 (set_lastex_same d r (fst (fst e)))). exact Hr.
Qed.

Lemma append_v1_ext o d p r b t v kind hbad d' p' res :
  append_v1 o d p r b t v kind hbad = (d', p', res) -> ext d p d' p'.
Proof.
  unfold append_v1. destruct (negb (kind =? 0) && hbad).
  - intros H; inversion H; subst. apply ext_refl.
  - destruct (get_or_create d p r b) as [[[d1 p1] s]|e] eqn:G.
    + destruct (goc_ext _ _ _ _ _ _ _ G) as [X [Hs _]].
      destruct (t <=? min_valid (o_oow o) (s_last s)); intros H; inversion H; subst; auto.
      eapply ext_trans; [exact X|]. apply ext_push. auto.
    + intros H; inversion H; subst. apply ext_refl.
Qed.

Lemma exemplar_v1_ext d p r e d' p' res :
  exemplar_v1 d p r e = (d', p', res) -> ext d p d' p'.
Proof.
  unfold exemplar_v1. destruct (find_id r (d_series d)) as [s|] eqn:F.
  - destruct (ex_check d (s_ref s) e =? -1); [intros H; inversion H; subst; apply ext_refl|].
    destruct (negb (ex_check d (s_ref s) e =? 0)); intros H; inversion H; subst; [apply ext_refl|].
    apply find_id_in in F. destruct F as [F1 F2].
    eapply ext_trans; [apply ext_set_lastex|]. apply ext_push_ex.
    unfold series_ids. rewrite (proj2 (set_lastex_same d (s_ref s) (fst (fst e)))). apply in_map. auto.
  - intros H; inversion H; subst. apply ext_refl.
Qed.

Lemma best_effort_ext d p s lastTS st t zv kind :
  In (s_ref s) (series_ids d) -> ext d p d (best_effort p s lastTS st t zv kind).
Proof.
  intros H. unfold best_effort. destruct (t <=? st); [apply ext_refl|].
  destruct (st <=? lastTS); [apply ext_refl|]. apply ext_push. auto.
Qed.

Lemma append_v2_ext o d p r b st t v zv kind hbad stale exs d' p' res :
  append_v2 o d p r b st t v zv kind hbad stale exs = (d', p', res) -> ext d p d' p'.
Proof.
  unfold append_v2. destruct (negb (kind =? 0) && hbad).
  - intros H; inversion H; subst. apply ext_refl.
  - destruct (get_or_create d p r b) as [[[d1 p1] s]|e] eqn:G.
    + destruct (goc_ext _ _ _ _ _ _ _ G) as [X [Hs _]].
      set (p2 := if o_stz o && negb (st =? 0) then best_effort p1 s (s_last s) st t zv kind else p1).
      assert (X2 : ext d p d1 p2).
      { eapply ext_trans; [exact X|]. unfold p2. destruct (o_stz o && negb (st =? 0)); [|apply ext_refl].
        apply best_effort_ext. auto. }
      destruct (t <=? min_valid (o_oow o) (s_last s)); [intros H; inversion H; subst; auto|].
      assert (X3 : ext d p d1 (push p2 kind (s_ref s, t, v))).
      { eapply ext_trans; [exact X2|]. apply ext_push. auto. }
      destruct stale; [intros H; inversion H; subst; auto|].
      destruct exs as [|e0 exs]; [intros H; inversion H; subst; auto|].
      destruct (ex_fold d1 (push p2 kind (s_ref s, t, v)) (s_ref s) (e0 :: exs) []) as [[d4 p4] errs] eqn:F.
      assert (X4 : ext d p d4 p4).
      { eapply ext_trans; [exact X3|]. eapply ex_fold_ext; [|exact F]. auto. }
      destruct errs; intros H; inversion H; subst; auto.
    + intros H; inversion H; subst. apply ext_refl.
Qed.

(* ------------------------------------------------------------------ the invariant of sequential histories *)
Definition pend (st : state) (open : option Z) : app :=
  match open with Some a => get_app st a | None => app_empty end.

Definition covered (st : state) (open : option Z) (r : ref) : Prop :=
  In r (series_refs (wal_records (d_wal (st_db st)))) \/ In r (map fst (p_series (pend st open))).

Record Inv (st : state) (open : option Z) : Prop := mkInv {
  inv_wal : w_cpidx (d_wal (st_db st)) < w_cur (d_wal (st_db st));
  inv_apps : forall id, lookup id (st_apps st) <> None -> open = Some id;
  inv_series : forall r, In r (series_ids (st_db st)) -> covered st open r;
  inv_items : forall it, In it (pending_items (pend st open)) -> covered st open (item_ref it)
}.

(* one step of wf_from *)
Definition next_open (open : option Z) (e : event) : option (option Z) :=
  match e with
  | EAppend a _ _ _ _ _ _ _ _ _ _ _ | EExemplar a _ _ =>
      match open with None => Some (Some a) | Some b => if a =? b then Some open else None end
  | ECommit a _ | ERollback a _ =>
      match open with None => Some None | Some b => if a =? b then Some None else None end
  | ETruncate _ _ | ERestart => match open with None => Some None | Some _ => None end
  | ERoll | ESnap | EQuery _ _ _ => Some open
  end.

Lemma wf_from_cons open e l :
  wf_from open (e :: l) = match next_open open e with Some o1 => wf_from o1 l | None => false end.
Proof.
  destruct e, open as [bb|]; simpl; auto; try (destruct (a =? bb); auto).
Qed.

Lemma inv_empty : Inv st_empty None.
Proof.
  constructor; simpl.
  - lia.
  - intros id H. contradiction.
  - intros r [].
  - intros it [].
Qed.

Lemma pend_open st open a :
  Inv st open -> (open = None \/ open = Some a) -> get_app st a = pend st open.
Proof.
  intros I [E|E]; subst; simpl; auto.
  unfold get_app. destruct (lookup a (st_apps st)) eqn:L; auto.
  assert (None = Some a) by (apply (inv_apps _ _ I); congruence). discriminate.
Qed.

Lemma inv_append st open a d' p' :
  Inv st open -> (open = None \/ open = Some a) ->
  ext (st_db st) (get_app st a) d' p' ->
  Inv (set_app st d' a p') (Some a).
Proof.
  intros I Ho X. rewrite (pend_open _ _ _ I Ho) in X. destruct X as [X1 X2 X3 X4 X5].
  assert (P : pend (set_app st d' a p') (Some a) = p').
  { simpl. unfold get_app, set_app. simpl. rewrite lookup_upsert_eq. auto. }
  assert (C : forall r, covered st open r -> covered (set_app st d' a p') (Some a) r).
  { intros r [H|H]; [left|right].
    - simpl. rewrite X1. auto.
    - rewrite P. apply X2. auto. }
  assert (S : forall r, In r (series_ids d') -> covered (set_app st d' a p') (Some a) r).
  { intros r H. destruct (X4 r H) as [H1|H1].
    - apply C. apply (inv_series _ _ I). auto.
    - right. rewrite P. auto. }
  constructor.
  - simpl. rewrite X1. apply (inv_wal _ _ I).
  - intros id H. simpl in H. destruct (Z.eq_dec id a) as [E|N]; [subst; auto|].
    rewrite lookup_upsert_neq in H by auto. apply (inv_apps _ _ I) in H.
    destruct Ho as [E|E]; congruence.
  - exact S.
  - intros it H. rewrite P in H. destruct (X5 it H) as [H1|H1].
    + apply C. apply (inv_items _ _ I). auto.
    + apply S. auto.
Qed.

Lemma bump_ids : forall xs l, map s_ref (bump l xs) = map s_ref l.
Proof.
  assert (A : forall r f l, map s_ref (set_last r f l) = map s_ref l).
  { intros r f. induction l as [|s l IH]; simpl; auto. destruct (s_ref s =? r); simpl; congruence. }
  unfold bump. induction xs as [|x xs IH]; intros l; simpl; auto. rewrite IH. apply A.
Qed.

Lemma series_refs_log p : incl (map fst (p_series p)) (series_refs (log_records p)).
Proof.
  unfold log_records. rewrite series_refs_app, series_refs_nonempty. apply incl_appl, incl_refl.
Qed.

Lemma inv_finish st open a w' ser' (recs : list record) :
  Inv st open -> (open = None \/ open = Some a) ->
  wal_records w' = wal_records (d_wal (st_db st)) ++ recs ->
  w_cpidx w' = w_cpidx (d_wal (st_db st)) -> w_cur (d_wal (st_db st)) <= w_cur w' ->
  incl (map fst (p_series (pend st open))) (series_refs recs) ->
  map s_ref ser' = series_ids (st_db st) ->
  Inv (mkSt (mkDB (d_next (st_db st)) ser' (d_deleted (st_db st)) (d_lastex (st_db st)) w' (d_dlab (st_db st)))
            (remove_key a (st_apps st))) None.
Proof.
  intros I Ho HW HC HU HS HI. constructor; simpl.
  - rewrite HC. pose proof (inv_wal _ _ I). lia.
  - intros id H. rewrite lookup_remove_key in H. destruct (id =? a) eqn:E; [congruence|].
    apply (inv_apps _ _ I) in H. apply Z.eqb_neq in E. destruct Ho; congruence.
  - intros r H. unfold series_ids in H. simpl in H. rewrite HI in H.
    left. simpl. rewrite HW, series_refs_app. apply in_app_iff.
    destruct (inv_series _ _ I r H) as [H1|H1]; auto.
  - intros it [].
Qed.

Lemma run_from_cons o st e t :
  fst (run_from o st (e :: t)) = fst (run_from o (fst (step o st e)) t).
Proof.
  simpl. destruct (step o st e) as [st1 ob]. simpl. destruct (run_from o st1 t). reflexivity.
Qed.

Lemma run_from_app o : forall es st e,
  fst (run_from o st (es ++ [e])) = fst (step o (fst (run_from o st es)) e).
Proof.
  induction es as [|x es IH]; intros st e.
  - simpl. destruct (step o st e). reflexivity.
  - rewrite <- app_comm_cons, !run_from_cons. apply IH.
Qed.

Lemma replay_series_refs im : forall recs st0 r,
  In r (map s_ref (r_series (fold_left (replay_rec im) recs st0))) ->
  In r (map s_ref (r_series st0)) \/ In r (series_refs (map snd recs)).
Proof.
  assert (SL : forall r f l, map s_ref (set_last r f l) = map s_ref l).
  { intros r f. induction l as [|s l IH]; simpl; auto. destruct (s_ref s =? r); simpl; congruence. }
  assert (A : forall seg l st0 r, In r (map s_ref (r_series (fold_left (replay_series im seg) l st0))) ->
                                  In r (map s_ref (r_series st0)) \/ In r (map fst l)).
  { intros seg. induction l as [|e l IH]; intros st0 r H; simpl in *; auto.
    apply IH in H. destruct H as [H|H]; auto. unfold replay_series in H.
    destruct (find_lab (snd e) (r_series st0)); simpl in H; auto.
    rewrite map_app in H. apply in_app_iff in H. simpl in H. destruct H as [H|[H|[]]]; auto. }
  assert (B : forall seg l st0, map s_ref (r_series (fold_left (replay_sample seg) l st0)) = map s_ref (r_series st0)).
  { intros seg. induction l as [|x l IH]; intros st0; simpl; auto. rewrite IH. unfold replay_sample.
    destruct (lookup (fst (fst x)) (r_dup st0)); simpl; apply SL. }
  induction recs as [|[seg R] recs IH]; intros st0 r H; simpl in *; auto.
  apply IH in H. unfold series_refs. simpl. rewrite in_app_iff. destruct H as [H|H]; auto.
  unfold replay_rec in H. simpl in H. destruct R; auto.
  - apply A in H. destruct H; auto.
  - rewrite B in H. auto.
Qed.

Lemma wal_tagged_records w : map snd (wal_tagged w) = wal_records w.
Proof.
  unfold wal_tagged, wal_records. rewrite map_app, map_map. simpl. rewrite map_id. reflexivity.
Qed.

Theorem inv_step o st open e open' :
  Inv st open -> next_open open e = Some open' -> Inv (fst (step o st e)) open'.
Proof.
  intros I N. destruct e; simpl in N.
  - (* EAppend *)
    assert (Ho : (open = None \/ open = Some a) /\ open' = Some a).
    { destruct open as [bb|]; [destruct (a =? bb) eqn:E; [|discriminate]|]; inversion N; subst; auto.
      apply Z.eqb_eq in E. subst. auto. }
    destruct Ho as [Ho E]. subst open'. simpl.
    destruct (ver =? 1).
    + destruct (append_v1 o (st_db st) (get_app st a) r b t v kind hbad) as [[d' p'] [[rr err] perr]] eqn:A.
      simpl. eapply inv_append; eauto. eapply append_v1_ext; eauto.
    + destruct (append_v2 o (st_db st) (get_app st a) r b st0 t v zv kind hbad stale exs) as [[d' p'] [[rr err] perr]] eqn:A.
      simpl. eapply inv_append; eauto. eapply append_v2_ext; eauto.
  - (* EExemplar *)
    assert (Ho : (open = None \/ open = Some a) /\ open' = Some a).
    { destruct open as [bb|]; [destruct (a =? bb) eqn:E; [|discriminate]|]; inversion N; subst; auto.
      apply Z.eqb_eq in E. subst. auto. }
    destruct Ho as [Ho E]. subst open'. simpl.
    destruct (exemplar_v1 (st_db st) (get_app st a) r e) as [[d' p'] [[rr err] perr]] eqn:A.
    simpl. eapply inv_append; eauto. eapply exemplar_v1_ext; eauto.
  - (* ECommit *)
    assert (Ho : (open = None \/ open = Some a) /\ open' = None).
    { destruct open as [bb|]; [destruct (a =? bb) eqn:E; [|discriminate]|]; inversion N; subst; auto.
      apply Z.eqb_eq in E. subst. auto. }
    destruct Ho as [Ho E]. subst open'. simpl. unfold commit.
    rewrite (pend_open _ _ _ I Ho).
    eapply inv_finish with (recs := log_records (pend st open)); eauto.
    + apply wal_records_write. apply (inv_wal _ _ I).
    + apply wal_write_cur.
    + apply series_refs_log.
    + rewrite !bump_ids. reflexivity.
  - (* ERollback *)
    assert (Ho : (open = None \/ open = Some a) /\ open' = None).
    { destruct open as [bb|]; [destruct (a =? bb) eqn:E; [|discriminate]|]; inversion N; subst; auto.
      apply Z.eqb_eq in E. subst. auto. }
    destruct Ho as [Ho E]. subst open'. simpl. unfold rollback.
    rewrite (pend_open _ _ _ I Ho).
    eapply inv_finish with (recs := nonempty RSeries (p_series (pend st open))); eauto.
    + apply wal_records_write. apply (inv_wal _ _ I).
    + apply wal_write_cur.
    + rewrite series_refs_nonempty. apply incl_refl.
  - (* ETruncate *)
    destruct open; [discriminate|]. inversion N; subst. simpl.
    assert (W : w_cpidx (d_wal (truncate o (st_db st) mint zv)) < w_cur (d_wal (truncate o (st_db st) mint zv))).
    { pose proof (inv_wal _ _ I). destruct (o_inmem o) eqn:HO.
      - unfold truncate. rewrite HO.
        destruct (plan_last (w_first (d_wal (st_db st))) (w_cur (d_wal (st_db st)))) eqn:P; simpl; [|lia].
        apply plan_last_lt in P. lia.
      - rewrite (truncate_wal _ _ _ _ HO), agent_truncate_wal. simpl.
        destruct (plan_last (w_first (d_wal (st_db st))) (w_cur (d_wal (st_db st)))) eqn:P; simpl; [|lia].
        apply plan_last_lt in P. lia. }
    constructor; auto.
    + apply (inv_apps _ _ I).
    + intros r H. left. change (st_db {| st_db := truncate o (st_db st) mint zv; st_apps := st_apps st |}) with (truncate o (st_db st) mint zv) in *.
      apply truncate_keeps_series; auto.
      assert (H0 : In r (series_ids (st_db st))).
      { unfold series_ids in *. rewrite truncate_series in H. apply in_map_iff in H. destruct H as [s [E Hs]].
        apply filter_In in Hs. subst. apply in_map. tauto. }
      destruct (inv_series _ _ I r H0) as [H1|H1]; auto. simpl in H1. contradiction.
    + intros it [].
  - (* ERoll *)
    inversion N; subst. simpl. destruct I as [I1 I2 I3 I4]. constructor; simpl; auto. lia.
  - (* ERestart *)
    destruct open; [discriminate|]. inversion N; subst. simpl. constructor; simpl.
    + pose proof (inv_wal _ _ I). lia.
    + intros id H. contradiction.
    + intros r H. left. simpl. unfold series_ids in H. simpl in H. unfold replay in H.
      apply replay_series_refs in H. simpl in H. rewrite wal_tagged_records in H. destruct H as [[]|H]. auto.
    + intros it [].
  - (* ESnap *) inversion N; subst. exact I.
  - (* EQuery *) inversion N; subst. exact I.
Qed.

Lemma inv_run o : forall es st open e,
  Inv st open -> wf_from open (es ++ [e]) = true ->
  exists open', Inv (fst (run_from o st es)) open' /\ next_open open' e <> None.
Proof.
  induction es as [|x es IH]; intros st open e I W.
  - exists open. split; auto. change ([] ++ [e]) with [e] in W. rewrite wf_from_cons in W.
    destruct (next_open open e); congruence.
  - rewrite <- app_comm_cons, wf_from_cons in W. destruct (next_open open x) as [o1|] eqn:N; [|discriminate].
    rewrite run_from_cons. eapply IH; eauto. eapply inv_step; eauto.
Qed.

(* in which record of a commit an item lands *)
Lemma item_in_log p it :
  In it (pending_items p) ->
  exists m1 R m2, log_records p = (nonempty RSeries (p_series p) ++ m1) ++ R :: m2 /\ holds_item (fst it) (snd it) R.
Proof.
  intros H. unfold pending_items in H. unfold log_records.
  assert (G : forall rest R, In R rest -> holds_item (fst it) (snd it) R ->
              exists m1 R0 m2, nonempty RSeries (p_series p) ++ rest = (nonempty RSeries (p_series p) ++ m1) ++ R0 :: m2 /\
                               holds_item (fst it) (snd it) R0).
  { intros rest R HR HH. apply in_split in HR. destruct HR as [m1 [m2 E]]. exists m1, R, m2. subst.
    rewrite app_assoc. auto. }
  rewrite !in_app_iff in H. destruct H as [H|[H|[H|H]]]; apply in_map_iff in H; destruct H as [y [E Hy]]; subst it; simpl.
  - apply G with (R := RSamples 0 (p_samples p)).
    + rewrite (in_nonempty _ _ _ Hy). simpl. auto.
    + simpl. auto.
  - destruct y as [c x]. simpl.
    assert (Hs : In x (sel c (p_hist p))).
    { unfold sel. apply in_map_iff. exists (c, x). split; auto. apply filter_In. split; auto. simpl. apply eqb_reflx. }
    destruct c.
    + apply G with (R := RSamples 3 (sel true (p_hist p))).
      * rewrite (in_nonempty _ _ _ Hs). rewrite !in_app_iff. simpl. auto.
      * simpl. auto.
    + apply G with (R := RSamples 1 (sel false (p_hist p))).
      * rewrite (in_nonempty _ _ _ Hs). rewrite !in_app_iff. simpl. auto.
      * simpl. auto.
  - destruct y as [c x]. simpl.
    assert (Hs : In x (sel c (p_fhist p))).
    { unfold sel. apply in_map_iff. exists (c, x). split; auto. apply filter_In. split; auto. simpl. apply eqb_reflx. }
    destruct c.
    + apply G with (R := RSamples 4 (sel true (p_fhist p))).
      * rewrite (in_nonempty _ _ _ Hs). rewrite !in_app_iff. simpl. auto 10.
      * simpl. auto.
    + apply G with (R := RSamples 2 (sel false (p_fhist p))).
      * rewrite (in_nonempty _ _ _ Hs). rewrite !in_app_iff. simpl. auto 10.
      * simpl. auto.
  - apply G with (R := RExemplars (p_ex p)).
    + rewrite (in_nonempty _ _ _ Hy). rewrite !in_app_iff. simpl. auto 10.
    + simpl. auto.
Qed.

(* the commit of the (only) open appender logs every pending item after a series record of its ref *)
Lemma commit_logged o st open a rolls it :
  Inv st open -> next_open open (ECommit a rolls) <> None ->
  In it (pending_items (get_app st a)) ->
  logged (fst it) (snd it) (wal_records (d_wal (st_db (fst (step o st (ECommit a rolls)))))) = true.
Proof.
  intros I N H.
  assert (Ho : open = None \/ open = Some a).
  { simpl in N. destruct open as [bb|]; auto. destruct (a =? bb) eqn:E; [|congruence]. apply Z.eqb_eq in E. subst; auto. }
  simpl. unfold commit. simpl. rewrite wal_records_write by apply (inv_wal _ _ I).
  rewrite (pend_open _ _ _ I Ho) in *.
  destruct (item_in_log _ _ H) as [m1 [R [m2 [E HR]]]]. rewrite E.
  rewrite app_assoc. apply logged_from_intro; auto. right.
  rewrite !series_refs_app, series_refs_nonempty, !in_app_iff.
  destruct (inv_items _ _ I it H) as [C|C]; auto.
Qed.

(* ------------------------------------------------------------------ accepted => pending *)
Ltac bad_err := exfalso; repeat match goal with X : _ = _ |- _ => (compute in X; discriminate X) || clear X end.

Lemma in_push p kind x : 0 <= kind <= 4 -> In (kind, x) (pending_items (push p kind x)).
Proof.
  intros H. assert (K : kind = 0 \/ kind = 1 \/ kind = 2 \/ kind = 3 \/ kind = 4) by lia.
  unfold push, pending_items.
  destruct K as [K|[K|[K|[K|K]]]]; subst; simpl; rewrite ?map_app, ?in_app_iff; simpl; auto 10.
Qed.

Lemma push_mono p kind x : incl (pending_items p) (pending_items (push p kind x)).
Proof.
  intros it H. unfold push, pending_items in *.
  destruct (kind =? 0); [|destruct ((kind =? 1) || (kind =? 3))]; simpl;
    rewrite ?map_app, ?in_app_iff in *; simpl; tauto.
Qed.

Lemma push_ex_mono p x : incl (pending_items p) (pending_items (push_ex p x)).
Proof.
  intros it H. unfold push_ex, pending_items in *. simpl. rewrite ?map_app, ?in_app_iff in *. simpl. tauto.
Qed.

Lemma ex_fold_mono : forall es d p r errs d' p' errs',
  ex_fold d p r es errs = (d', p', errs') -> incl (pending_items p) (pending_items p').
Proof.
  induction es as [|e es IH]; intros d p r errs d' p' errs' H; simpl in H.
  - inversion H; subst. apply incl_refl.
  - destruct (ex_check d r e =? -1); [eapply IH; eauto|].
    destruct (negb (ex_check d r e =? 0)); [eapply IH; eauto|].
    eapply incl_tran; [apply push_ex_mono|]. eapply IH; eauto.
Qed.

Lemma best_effort_mono p s lastTS st t zv kind : incl (pending_items p) (pending_items (best_effort p s lastTS st t zv kind)).
Proof.
  unfold best_effort. destruct (t <=? st); [apply incl_refl|]. destruct (st <=? lastTS); [apply incl_refl|].
  apply push_mono.
Qed.

Lemma goc_items d p r b d1 p1 s : get_or_create d p r b = inl (d1, p1, s) -> pending_items p1 = pending_items p.
Proof. intros H. apply goc_ext in H. tauto. Qed.

Lemma goc_err d p r b e : get_or_create d p r b = inr e -> e = E_INVALID.
Proof.
  unfold get_or_create. destruct (if r =? 0 then None else find_id r (d_series d)); [discriminate|].
  destruct (b <=? 0); [intros H; inversion H; auto|]. destruct (find_lab b (d_series d)); discriminate.
Qed.

(* appender V1: an append that returns no error has put its sample into the pending list *)
Theorem append_v1_accept o d p r b t v kind hbad d' p' rr err perr :
  append_v1 o d p r b t v kind hbad = (d', p', (rr, err, perr)) -> err = E_OK -> 0 <= kind <= 4 ->
  In (kind, (rr, t, v)) (pending_items p').
Proof.
  unfold append_v1. intros H E K.
  destruct (negb (kind =? 0) && hbad); [inversion H; subst; bad_err|].
  destruct (get_or_create d p r b) as [[[d1 p1] s]|e] eqn:G; [|apply goc_err in G; inversion H; subst; bad_err].
  destruct (t <=? min_valid (o_oow o) (s_last s)); inversion H; subst; [bad_err|].
  apply in_push; auto.
Qed.

Theorem append_v1_mono o d p r b t v kind hbad d' p' res :
  append_v1 o d p r b t v kind hbad = (d', p', res) -> incl (pending_items p) (pending_items p').
Proof.
  unfold append_v1. intros H.
  destruct (negb (kind =? 0) && hbad); [inversion H; subst; apply incl_refl|].
  destruct (get_or_create d p r b) as [[[d1 p1] s]|e] eqn:G; [|inversion H; subst; apply incl_refl].
  apply goc_items in G.
  destruct (t <=? min_valid (o_oow o) (s_last s)); inversion H; subst.
  - rewrite G. apply incl_refl.
  - rewrite <- G. apply push_mono.
Qed.

(* appender V2 *)
Theorem append_v2_accept o d p r b st t v zv kind hbad stale exs d' p' rr err perr :
  append_v2 o d p r b st t v zv kind hbad stale exs = (d', p', (rr, err, perr)) ->
  err = E_OK \/ err = E_PARTIAL -> 0 <= kind <= 4 ->
  In (kind, (rr, t, v)) (pending_items p').
Proof.
  unfold append_v2. intros H E K.
  destruct (negb (kind =? 0) && hbad); [destruct E as [E|E]; inversion H; subst; bad_err|].
  destruct (get_or_create d p r b) as [[[d1 p1] s]|e] eqn:G; [|apply goc_err in G; destruct E as [E|E]; inversion H; subst; bad_err].
  set (p2 := if o_stz o && negb (st =? 0) then best_effort p1 s (s_last s) st t zv kind else p1) in *.
  destruct (t <=? min_valid (o_oow o) (s_last s)); [destruct E as [E|E]; inversion H; subst; bad_err|].
  pose proof (in_push p2 kind (s_ref s, t, v) K) as IP.
  destruct stale; [inversion H; subst; auto|].
  destruct exs as [|e0 exs]; [inversion H; subst; auto|].
  destruct (ex_fold d1 (push p2 kind (s_ref s, t, v)) (s_ref s) (e0 :: exs) []) as [[d4 p4] errs] eqn:F.
  apply ex_fold_mono in F.
  destruct errs; inversion H; subst; apply F; auto.
Qed.

Theorem append_v2_mono o d p r b st t v zv kind hbad stale exs d' p' res :
  append_v2 o d p r b st t v zv kind hbad stale exs = (d', p', res) -> incl (pending_items p) (pending_items p').
Proof.
  unfold append_v2. intros H.
  destruct (negb (kind =? 0) && hbad); [inversion H; subst; apply incl_refl|].
  destruct (get_or_create d p r b) as [[[d1 p1] s]|e] eqn:G; [|inversion H; subst; apply incl_refl].
  apply goc_items in G.
  set (p2 := if o_stz o && negb (st =? 0) then best_effort p1 s (s_last s) st t zv kind else p1) in *.
  assert (M2 : incl (pending_items p) (pending_items p2)).
  { rewrite <- G. unfold p2. destruct (o_stz o && negb (st =? 0)); [apply best_effort_mono|apply incl_refl]. }
  destruct (t <=? min_valid (o_oow o) (s_last s)); [inversion H; subst; auto|].
  assert (M3 : incl (pending_items p) (pending_items (push p2 kind (s_ref s, t, v)))).
  { eapply incl_tran; [exact M2|apply push_mono]. }
  destruct stale; [inversion H; subst; auto|].
  destruct exs as [|e0 exs]; [inversion H; subst; auto|].
  destruct (ex_fold d1 (push p2 kind (s_ref s, t, v)) (s_ref s) (e0 :: exs) []) as [[d4 p4] errs] eqn:F.
  apply ex_fold_mono in F.
  destruct errs; inversion H; subst; eapply incl_tran; eauto.
Qed.

(* AppendExemplar (V1): accepted = returned the series ref *)
Theorem exemplar_v1_accept d p r e d' p' rr err perr :
  exemplar_v1 d p r e = (d', p', (rr, err, perr)) -> err = E_OK -> rr <> 0 ->
  In (-1, (rr, snd (fst e), fst (fst e))) (pending_items p').
Proof.
  unfold exemplar_v1. intros H E N.
  destruct (find_id r (d_series d)) as [s|]; [|inversion H; subst; contradiction].
  destruct (ex_check d (s_ref s) e =? -1); [inversion H; subst; contradiction|].
  destruct (negb (ex_check d (s_ref s) e =? 0)); inversion H; subst; [contradiction|].
  unfold push_ex, pending_items. simpl. rewrite !in_app_iff, map_app, in_app_iff. simpl. auto 10.
Qed.

Theorem exemplar_v1_mono d p r e d' p' res :
  exemplar_v1 d p r e = (d', p', res) -> incl (pending_items p) (pending_items p').
Proof.
  unfold exemplar_v1. intros H.
  destruct (find_id r (d_series d)) as [s|]; [|inversion H; subst; apply incl_refl].
  destruct (ex_check d (s_ref s) e =? -1); [inversion H; subst; apply incl_refl|].
  destruct (negb (ex_check d (s_ref s) e =? 0)); inversion H; subst; [apply incl_refl|apply push_ex_mono].
Qed.

(* pending data of appender a stays pending until a's own commit / rollback (or a restart) *)
Definition ends (a : Z) (e : event) : bool :=
  match e with
  | ECommit a' _ | ERollback a' _ => a' =? a
  | ERestart => true
  | _ => false
  end.

Theorem pending_kept o st e a :
  ends a e = false ->
  incl (pending_items (get_app st a)) (pending_items (get_app (fst (step o st e)) a)).
Proof.
  intros En. destruct e; simpl in *; try apply incl_refl; try discriminate.
  - destruct (ver =? 1).
    + destruct (append_v1 o (st_db st) (get_app st a0) r b t v kind hbad) as [[d' p'] [[rr err] perr]] eqn:A.
      simpl. unfold get_app at 2. simpl. destruct (Z.eq_dec a a0) as [E|N].
      * subst. rewrite lookup_upsert_eq. eapply append_v1_mono; eauto.
      * rewrite lookup_upsert_neq by auto. apply incl_refl.
    + destruct (append_v2 o (st_db st) (get_app st a0) r b st0 t v zv kind hbad stale exs) as [[d' p'] [[rr err] perr]] eqn:A.
      simpl. unfold get_app at 2. simpl. destruct (Z.eq_dec a a0) as [E|N].
      * subst. rewrite lookup_upsert_eq. eapply append_v2_mono; eauto.
      * rewrite lookup_upsert_neq by auto. apply incl_refl.
  - destruct (exemplar_v1 (st_db st) (get_app st a0) r e) as [[d' p'] [[rr err] perr]] eqn:A.
    simpl. unfold get_app at 2. simpl. destruct (Z.eq_dec a a0) as [E|N].
    + subst. rewrite lookup_upsert_eq. eapply exemplar_v1_mono; eauto.
    + rewrite lookup_upsert_neq by auto. apply incl_refl.
  - unfold get_app. simpl. rewrite lookup_remove_key. rewrite Z.eqb_sym, En. apply incl_refl.
  - unfold get_app. simpl. rewrite lookup_remove_key. rewrite Z.eqb_sym, En. apply incl_refl.
Qed.

(* ------------------------------------------------------------------ admission *)
Lemma min_valid_spec oow last :
  0 <= oow -> int64 oow -> int64 last -> min_valid oow last = Z.max minInt64 (last - oow).
Proof.
  unfold int64, min_valid. intros H0 H1 H2.
  rewrite (wrap64_id (minInt64 + oow)) by (unfold int64, minInt64, maxInt64 in *; lia).
  destruct (last <? minInt64 + oow) eqn:E.
  - apply Z.ltb_lt in E. lia.
  - apply Z.ltb_ge in E. rewrite wrap64_id by (unfold int64, minInt64, maxInt64 in *; lia). lia.
Qed.

(* the series an append resolves to when the label set is known and no (live) ref is given *)
Lemma goc_existing d p b s :
  0 < b -> find_lab b (d_series d) = Some s -> get_or_create d p 0 b = inl (d, p, s).
Proof.
  intros Hb F. unfold get_or_create. simpl.
  destruct (b <=? 0) eqn:E; [apply Z.leb_le in E; lia|]. rewrite F. reflexivity.
Qed.

Lemma goc_by_ref d p r b s :
  r <> 0 -> find_id r (d_series d) = Some s -> get_or_create d p r b = inl (d, p, s).
Proof.
  intros Hr F. unfold get_or_create. apply Z.eqb_neq in Hr. rewrite Hr, F. reflexivity.
Qed.

Theorem append_v1_admission o d p r b t v kind hbad d1 p1 s :
  negb (kind =? 0) && hbad = false ->
  get_or_create d p r b = inl (d1, p1, s) ->
  snd (append_v1 o d p r b t v kind hbad) =
  if t <=? min_valid (o_oow o) (s_last s) then (0, E_OOO, []) else (s_ref s, E_OK, []).
Proof.
  intros H G. unfold append_v1. rewrite H, G. destruct (t <=? min_valid (o_oow o) (s_last s)); reflexivity.
Qed.

Theorem append_v2_admission o d p r b st t v zv kind hbad stale exs d1 p1 s :
  negb (kind =? 0) && hbad = false ->
  get_or_create d p r b = inl (d1, p1, s) ->
  let res := snd (append_v2 o d p r b st t v zv kind hbad stale exs) in
  if t <=? min_valid (o_oow o) (s_last s) then res = (0, E_OOO, [])
  else fst (fst res) = s_ref s /\ (snd (fst res) = E_OK \/ snd (fst res) = E_PARTIAL).
Proof.
  intros H G. unfold append_v2. rewrite H, G.
  destruct (t <=? min_valid (o_oow o) (s_last s)); [reflexivity|].
  destruct stale; [simpl; auto|]. destruct exs as [|e0 exs]; [simpl; auto|].
  destruct (ex_fold _ _ _ _ _) as [[d4 p4] errs]. destruct errs; simpl; auto.
Qed.

(* ------------------------------------------------------------------ lastTs dominates what was committed *)
Lemma find_id_set_last r r' f l :
  find_id r (set_last r' f l) =
  match find_id r l with
  | Some s => Some (if r =? r' then mkS (s_ref s) (s_lab s) (f (s_last s)) else s)
  | None => None
  end.
Proof.
  induction l as [|a l IH]; simpl; auto.
  destruct (s_ref a =? r') eqn:E1; simpl.
  - destruct (s_ref a =? r) eqn:E2.
    + apply Z.eqb_eq in E1, E2. subst. rewrite Z.eqb_refl. auto.
    + destruct (find_id r l) eqn:F; auto.
      destruct (r =? r') eqn:E3; auto. apply Z.eqb_eq in E1, E3. subst. rewrite Z.eqb_refl in E2. discriminate.
  - destruct (s_ref a =? r) eqn:E2.
    + destruct (r =? r') eqn:E3; auto. apply Z.eqb_eq in E2, E3. subst. rewrite Z.eqb_refl in E1. discriminate.
    + apply IH.
Qed.

Lemma bump_last : forall xs l r s,
  find_id r l = Some s ->
  exists s', find_id r (bump l xs) = Some s' /\ s_lab s' = s_lab s /\ s_last s <= s_last s' /\
             (forall x, In x xs -> fst (fst x) = r -> snd (fst x) <= s_last s').
Proof.
  unfold bump. induction xs as [|x xs IH]; intros l r s F; simpl.
  - exists s. repeat split; auto; try lia; try (intros x []).
  - pose proof (find_id_set_last r (fst (fst x)) (update_ts (snd (fst x))) l) as E. rewrite F in E.
    destruct (IH _ _ _ E) as [s' [F' [L' [M' A']]]]. exists s'. split; auto.
    assert (U : forall t l0, l0 <= update_ts t l0 /\ t <= update_ts t l0).
    { intros t l0. unfold update_ts. destruct (l0 <=? t) eqn:C; [apply Z.leb_le in C|apply Z.leb_gt in C]; lia. }
    destruct (r =? fst (fst x)) eqn:C; simpl in *.
    + apply Z.eqb_eq in C. destruct (U (snd (fst x)) (s_last s)). repeat split; auto; try lia.
      intros y [Hy|Hy] Ey; [subst y; lia|auto].
    + repeat split; auto. intros y [Hy|Hy] Ey; [subst y; apply Z.eqb_neq in C; congruence|auto].
Qed.

(* Commit: the series keeps its label set, lastTs does not decrease and is at least the timestamp of
   every float / histogram / float histogram sample the commit logged for it *)
Theorem commit_last d p rolls r s :
  find_id r (d_series d) = Some s ->
  exists s', find_id r (d_series (commit d p rolls)) = Some s' /\ s_lab s' = s_lab s /\ s_last s <= s_last s' /\
    (forall x, In x (p_samples p ++ map snd (p_hist p) ++ map snd (p_fhist p)) -> fst (fst x) = r ->
               snd (fst x) <= s_last s').
Proof.
  intros F. simpl.
  destruct (bump_last (p_samples p) _ _ _ F) as [s1 [F1 [L1 [M1 A1]]]].
  destruct (bump_last (map snd (p_hist p)) _ _ _ F1) as [s2 [F2 [L2 [M2 A2]]]].
  destruct (bump_last (map snd (p_fhist p)) _ _ _ F2) as [s3 [F3 [L3 [M3 A3]]]].
  exists s3. split; auto. split; [congruence|]. split; [lia|].
  intros x H E. rewrite !in_app_iff in H. destruct H as [H|[H|H]].
  - specialize (A1 x H E). lia.
  - specialize (A2 x H E). lia.
  - auto.
Qed.

Lemma find_id_app r l n s : find_id r l = Some s -> find_id r (l ++ n) = Some s.
Proof. induction l as [|a l IH]; simpl; [discriminate|]. destruct (s_ref a =? r); auto. Qed.

Definition grow (d d' : db) : Prop := exists n, d_series d' = d_series d ++ n.

Lemma grow_refl d : grow d d. Proof. exists []. rewrite app_nil_r. auto. Qed.
Lemma grow_trans a b c : grow a b -> grow b c -> grow a c.
Proof. intros [n E] [m F]. exists (n ++ m). rewrite F, E, app_assoc. auto. Qed.

Lemma goc_grow d p r b d1 p1 s : get_or_create d p r b = inl (d1, p1, s) -> grow d d1.
Proof.
  unfold get_or_create.
  destruct (if r =? 0 then None else find_id r (d_series d)); [intros H; inversion H; subst; apply grow_refl|].
  destruct (b <=? 0); [discriminate|].
  destruct (find_lab b (d_series d)); intros H; inversion H; subst; [apply grow_refl|].
  eexists. simpl. reflexivity.
Qed.

Lemma set_lastex_grow d r e : grow d (set_lastex d r e).
Proof. exists []. rewrite (proj2 (set_lastex_same d r e)), app_nil_r. auto. Qed.

Lemma ex_fold_grow : forall es d p r errs d' p' errs', ex_fold d p r es errs = (d', p', errs') -> grow d d'.
Proof.
  induction es as [|e es IH]; intros d p r errs d' p' errs' H; simpl in H.
  - inversion H; subst. apply grow_refl.
  - destruct (ex_check d r e =? -1); [eapply IH; eauto|].
    destruct (negb (ex_check d r e =? 0)); [eapply IH; eauto|].
    eapply grow_trans; [apply set_lastex_grow|eapply IH; eauto].
Qed.

Lemma append_v1_grow o d p r b t v kind hbad d' p' res :
  append_v1 o d p r b t v kind hbad = (d', p', res) -> grow d d'.
Proof.
  unfold append_v1. destruct (negb (kind =? 0) && hbad); [intros H; inversion H; subst; apply grow_refl|].
  destruct (get_or_create d p r b) as [[[d1 p1] s]|e] eqn:G; [|intros H; inversion H; subst; apply grow_refl].
  apply goc_grow in G. destruct (t <=? min_valid (o_oow o) (s_last s)); intros H; inversion H; subst; auto.
Qed.

Lemma append_v2_grow o d p r b st t v zv kind hbad stale exs d' p' res :
  append_v2 o d p r b st t v zv kind hbad stale exs = (d', p', res) -> grow d d'.
Proof.
  unfold append_v2. destruct (negb (kind =? 0) && hbad); [intros H; inversion H; subst; apply grow_refl|].
  destruct (get_or_create d p r b) as [[[d1 p1] s]|e] eqn:G; [|intros H; inversion H; subst; apply grow_refl].
  apply goc_grow in G.
  destruct (t <=? min_valid (o_oow o) (s_last s)); [intros H; inversion H; subst; auto|].
  destruct stale; [intros H; inversion H; subst; auto|].
  destruct exs as [|e0 exs]; [intros H; inversion H; subst; auto|].
  destruct (ex_fold _ _ _ _ _) as [[d4 p4] errs] eqn:F. apply ex_fold_grow in F.
  destruct errs; intros H; inversion H; subst; eapply grow_trans; eauto.
Qed.

Lemma exemplar_v1_grow d p r e d' p' res : exemplar_v1 d p r e = (d', p', res) -> grow d d'.
Proof.
  unfold exemplar_v1. destruct (find_id r (d_series d)); [|intros H; inversion H; subst; apply grow_refl].
  destruct (ex_check d (s_ref m) e =? -1); [intros H; inversion H; subst; apply grow_refl|].
  destruct (negb (ex_check d (s_ref m) e =? 0)); intros H; inversion H; subst; [apply grow_refl|apply set_lastex_grow].
Qed.

Lemma find_id_filter r (g : list ref) l :
  find_id r (filter (fun s => negb (memz (s_ref s) g)) l) = if memz r g then None else find_id r l.
Proof.
  induction l as [|a l IH]; simpl.
  - destruct (memz r g); auto.
  - destruct (memz (s_ref a) g) eqn:M; simpl.
    + rewrite IH. destruct (s_ref a =? r) eqn:E; auto. apply Z.eqb_eq in E. subst. rewrite M. auto.
    + destruct (s_ref a =? r) eqn:E; auto. apply Z.eqb_eq in E. subst. rewrite M. auto.
Qed.

(* between restarts the lastTs of a series never decreases; a series disappears only through the
   garbage collection of DB.truncate *)
Theorem last_monotone o st e r s :
  e <> ERestart ->
  find_id r (d_series (st_db st)) = Some s ->
  match find_id r (d_series (st_db (fst (step o st e)))) with
  | Some s' => s_lab s' = s_lab s /\ s_last s <= s_last s'
  | None => exists mint zv, e = ETruncate mint zv /\ In r (gc_gone mint (d_series (st_db st)))
  end.
Proof.
  intros NR F.
  assert (G : forall d', grow (st_db st) d' -> match find_id r (d_series d') with
                                              | Some s' => s_lab s' = s_lab s /\ s_last s <= s_last s'
                                              | None => exists mint zv, e = ETruncate mint zv /\ In r (gc_gone mint (d_series (st_db st))) end).
  { intros d' [n E]. rewrite E, (find_id_app _ _ n _ F). split; auto; lia. }
  destruct e; simpl; try (apply G; apply grow_refl); try contradiction.
  - destruct (ver =? 1).
    + destruct (append_v1 _ _ _ _ _ _ _ _ _) as [[d' p'] [[rr err] perr]] eqn:A. simpl. apply G. eapply append_v1_grow; eauto.
    + destruct (append_v2 _ _ _ _ _ _ _ _ _ _ _ _ _) as [[d' p'] [[rr err] perr]] eqn:A. simpl. apply G. eapply append_v2_grow; eauto.
  - destruct (exemplar_v1 _ _ _ _) as [[d' p'] [[rr err] perr]] eqn:A. simpl. apply G. eapply exemplar_v1_grow; eauto.
  - destruct (commit_last (st_db st) (get_app st a) rolls r s F) as [s' [F' [L' [M' _]]]].
    simpl in F'. rewrite F'. auto.
  - change (d_series (st_db (mkSt (truncate o (st_db st) mint zv) (st_apps st)))) with (d_series (truncate o (st_db st) mint zv)).
    rewrite truncate_series, find_id_filter. destruct (memz r (gc_gone mint (d_series (st_db st)))) eqn:M.
    + exists mint, zv. split; auto. apply memz_iff. auto.
    + rewrite F. split; auto; lia.
Qed.

(* ------------------------------------------------------------------ sequential histories: the theorems *)
Theorem logged_sequential o es a rolls it :
  wellformed (es ++ [ECommit a rolls]) = true ->
  In it (pending_items (get_app (run o es) a)) ->
  logged (fst it) (snd it)
         (wal_records (d_wal (st_db (run o (es ++ [ECommit a rolls]))))) = true.
Proof.
  intros W H. unfold run in *. rewrite run_from_app.
  destruct (inv_run o es st_empty None (ECommit a rolls) inv_empty W) as [open' [I N]].
  eapply commit_logged; eauto.
Qed.

(* every live series has its series record in the WAL whenever no appender is open *)
Theorem live_series_logged o es e s :
  wellformed (es ++ [e]) = true -> (e = ERestart \/ exists m zv, e = ETruncate m zv) ->
  In s (d_series (st_db (run o es))) ->
  In (s_ref s) (series_refs (wal_records (d_wal (st_db (run o es))))).
Proof.
  intros W He H. unfold run in *.
  destruct (inv_run o es st_empty None e inv_empty W) as [open' [I N]].
  assert (open' = None).
  { destruct open'; auto. destruct He as [He|[m [zv He]]]; subst e; simpl in N; congruence. }
  subst. destruct (inv_series _ _ I (s_ref s)) as [C|C]; auto.
  - unfold series_ids. apply in_map. auto.
  - simpl in C. contradiction.
Qed.

Theorem no_queries o es which mint maxt :
  query (st_db (run o es)) which mint maxt = E_UNSUPPORTED /\
  step o (run o es) (EQuery which mint maxt) = (run o es, OQuery E_UNSUPPORTED).
Proof. split; reflexivity. Qed.

(* ------------------------------------------------------------------ refutations (replayed on the real agent DB by the
   harness: corpus cases 0 and 2) *)
Definition o0 : opts := mkO 0 false false.

(* appender 1 creates the series, appender 2 appends to it and commits first *)
Definition ex_interleaved : list event :=
  [EAppend 1 1 0 1 0 1000 1 9 0 false false [];
   EAppend 2 1 0 1 0 1001 2 9 0 false false []].

Lemma interleaved_refuted :
  wellformed (ex_interleaved ++ [ECommit 2 []]) = false /\
  In (0, (1, 1001, 2)) (pending_items (get_app (run o0 ex_interleaved) 2)) /\
  logged 0 (1, 1001, 2) (wal_records (d_wal (st_db (run o0 (ex_interleaved ++ [ECommit 2 []]))))) = false /\
  wal_records (d_wal (st_db (run o0 (ex_interleaved ++ [ECommit 2 []; ECommit 1 []])))) =
    [RSamples 0 [(1, 1001, 2)]; RSeries [(1, 1)]; RSamples 0 [(1, 1000, 1)]].
Proof. vm_compute. auto. Qed.

(* a series created by an open appender is garbage collected before the commit; two truncations later its
   series record is gone while its sample (at or after every truncation time) is still in the WAL *)
Definition ex_gc_pending : list event :=
  [EAppend 1 1 0 1 0 5000 1 9 0 false false []; ECommit 1 [];
   EAppend 2 1 0 2 0 5000 1 9 0 false false []; ERoll; ERoll; ETruncate 4000 9; ECommit 2 [];
   ERoll; ERoll; ERoll; ERoll; ETruncate 4500 9].

Lemma gc_pending_refuted :
  wellformed ex_gc_pending = false /\
  let w := wal_records (d_wal (st_db (run o0 ex_gc_pending))) in
  w = [RSeries [(1, 1)]; RSamples 0 [(1, 5000, 1)]; RSamples 0 [(2, 5000, 1)]] /\
  logged 0 (2, 5000, 1) w = false.
Proof. vm_compute. auto. Qed.

(* non-vacuity: a sequential history with an out-of-order rejection, a rollback, a garbage collection, a
   checkpoint and a restart (which re-creates the collected series 2 and 3 from their kept records, lastTs 0) *)
Definition ex_seq : list event :=
  [EAppend 1 1 0 1 0 1000 1 9 0 false false []; EAppend 1 1 0 2 0 1000 2 9 1 false false [];
   EExemplar 1 1 (7, 1000, 0); ECommit 1 [];
   EAppend 2 2 0 1 0 900 3 9 0 false false []; EAppend 2 2 0 1 0 2000 4 9 0 false false [(8, 2000, 0)]; ECommit 2 [1];
   EAppend 3 1 0 3 0 2100 5 9 0 false false []; ERollback 3 [];
   ERoll; ERoll; ETruncate 1500 9; ERestart;
   EAppend 4 1 0 1 0 2500 6 9 0 false false []].

Lemma ex_seq_facts :
  wellformed (ex_seq ++ [ECommit 4 []]) = true /\
  pending_items (get_app (run o0 ex_seq) 4) = [(0, (1, 2500, 6))] /\
  w_cpidx (d_wal (st_db (run o0 ex_seq))) = 1 /\
  map s_last (d_series (st_db (run o0 ex_seq))) = [2000; 0; 0] /\
  logged 0 (1, 2500, 6) (wal_records (d_wal (st_db (run o0 (ex_seq ++ [ECommit 4 []]))))) = true.
Proof. vm_compute. auto. Qed.

(* ------------------------------------------------------------------ end to end: accepted, then committed => logged *)
Lemma run_from_app2 o : forall l1 st l2,
  fst (run_from o st (l1 ++ l2)) = fst (run_from o (fst (run_from o st l1)) l2).
Proof.
  induction l1 as [|x l1 IH]; intros st l2; [reflexivity|].
  rewrite <- app_comm_cons, !run_from_cons. apply IH.
Qed.

Lemma pending_kept_run o a : forall es st,
  forallb (fun e => negb (ends a e)) es = true ->
  incl (pending_items (get_app st a)) (pending_items (get_app (fst (run_from o st es)) a)).
Proof.
  induction es as [|e es IH]; intros st H; [apply incl_refl|].
  simpl in H. apply andb_true_iff in H. destruct H as [H1 H2]. apply negb_true_iff in H1.
  rewrite run_from_cons. eapply incl_tran; [apply pending_kept; exact H1|apply IH; auto].
Qed.

Theorem accepted_logged o es1 a ver r b stt t v zv kind hbad stale exs es2 rolls rr err perr :
  let ap := EAppend a ver r b stt t v zv kind hbad stale exs in
  wellformed (es1 ++ ap :: es2 ++ [ECommit a rolls]) = true ->
  forallb (fun e => negb (ends a e)) es2 = true ->
  0 <= kind <= 4 ->
  snd (step o (run o es1) ap) = OAppend rr err perr ->
  err = E_OK \/ err = E_PARTIAL ->
  logged kind (rr, t, v)
         (wal_records (d_wal (st_db (run o (es1 ++ ap :: es2 ++ [ECommit a rolls]))))) = true.
Proof.
  intros ap W K2 K O E.
  replace (es1 ++ ap :: es2 ++ [ECommit a rolls]) with ((es1 ++ ap :: es2) ++ [ECommit a rolls]) in *
    by (rewrite <- app_assoc; reflexivity).
  apply (logged_sequential o (es1 ++ ap :: es2) a rolls (kind, (rr, t, v))); auto.
  unfold run. rewrite run_from_app2, run_from_cons.
  apply (pending_kept_run o a es2); auto.
  fold (run o es1). unfold ap in *. simpl in *.
  destruct (ver =? 1).
  - destruct (append_v1 o (st_db (run o es1)) (get_app (run o es1) a) r b t v kind hbad) as [[d' p'] [[rr' err'] perr']] eqn:A.
    simpl in *. inversion O; subst. unfold get_app. simpl. rewrite lookup_upsert_eq.
    destruct E as [E|E]; [|eapply append_v1_accept in A; eauto].
    + eapply append_v1_accept; eauto.
    + exfalso. clear - A E. unfold append_v1 in A.
      destruct (negb (kind =? 0) && hbad); [inversion A; subst; discriminate|].
      destruct (get_or_create _ _ _ _) as [[[d1 p1] s]|e] eqn:G; [|apply goc_err in G; inversion A; subst; discriminate].
      destruct (t <=? min_valid _ _); inversion A; subst; discriminate.
  - destruct (append_v2 o (st_db (run o es1)) (get_app (run o es1) a) r b stt t v zv kind hbad stale exs) as [[d' p'] [[rr' err'] perr']] eqn:A.
    simpl in *. inversion O; subst. unfold get_app. simpl. rewrite lookup_upsert_eq.
    eapply append_v2_accept; eauto.
Qed.

(* ------------------------------------------------------------------ CheckpointFromInMemorySeries *)
(* what the in-memory checkpoint keeps: for every surviving series its series record followed by a float
   sample carrying its last timestamp *)
Theorem inmem_truncate_keeps_last o d mint zv last s :
  o_inmem o = true ->
  plan_last (w_first (d_wal d)) (w_cur (d_wal d)) = Some last ->
  In s (d_series (truncate o d mint zv)) ->
  logged 0 (s_ref s, s_last s, zv) (wal_records (d_wal (truncate o d mint zv))) = true.
Proof.
  intros HO HP HS. rewrite truncate_series in HS. unfold truncate. rewrite HO, HP. simpl.
  rewrite wal_records_checkpointed.
  set (ser := filter (fun s0 => negb (memz (s_ref s0) (gc_gone mint (d_series d)))) (d_series d)) in *.
  unfold inmem_checkpoint. destruct ser as [|s0 ser'] eqn:E; [contradiction|]. rewrite <- E in *.
  unfold logged.
  change ((([RSeries (map (fun s1 => (s_ref s1, s_lab s1)) ser); RSamples 0 (map (fun s1 => (s_ref s1, s_last s1, zv)) ser)] ++
            nonempty RSeries _) ++ _))
    with ([RSeries (map (fun s1 => (s_ref s1, s_lab s1)) ser)] ++
          RSamples 0 (map (fun s1 => (s_ref s1, s_last s1, zv)) ser) ::
          (nonempty RSeries (map (fun e => (fst e, match lookup (fst e) (fold_left (fun m s1 => if memz (s_ref s1) (gc_gone mint (d_series d)) then upsert (s_ref s1) (s_lab s1) m else m) (d_series d) (d_dlab d)) with Some b => b | None => 0 end))
                                 (filter (fun e => last <? snd e) (set_all (gc_gone mint (d_series d)) (w_cur (d_wal d)) (d_deleted d)))) ++
           map snd (filter (fun sr => last <? fst sr) (filter (fun sr => last <? fst sr) (w_segs (wal_next_segment (d_wal d))))))).
  apply logged_from_intro.
  - simpl. split; auto. apply in_map_iff. exists s. auto.
  - right. unfold series_refs. simpl. rewrite app_nil_r, map_map. simpl. apply in_map_iff. exists s. auto.
Qed.

(* ... and what it does not keep: the samples themselves.  Two committed samples at 5000 and 6000, three
   forced segment rollovers, DB.truncate(4000): both samples are at or after the truncation time and
   neither is in the WAL afterwards (only the stand-in (1, 6000, value 0)) *)
Definition o_im : opts := mkO 0 false true.
Definition ex_inmem : list event :=
  [EAppend 1 1 0 1 0 5000 1 9 0 false false []; ECommit 1 [];
   EAppend 2 1 0 1 0 6000 2 9 0 false false []; ECommit 2 []; ERoll; ERoll; ERoll].

Lemma inmem_refuted :
  wellformed (ex_inmem ++ [ETruncate 4000 9]) = true /\
  wal_records (d_wal (st_db (run o_im ex_inmem))) =
    [RSeries [(1, 1)]; RSamples 0 [(1, 5000, 1)]; RSamples 0 [(1, 6000, 2)]] /\
  wal_records (d_wal (st_db (run o_im (ex_inmem ++ [ETruncate 4000 9])))) =
    [RSeries [(1, 1)]; RSamples 0 [(1, 6000, 9)]].
Proof. vm_compute. auto. Qed.

(* proof/CompactRaceClose.v — second invariant of model/CompactRace.v: block release vs. pending
   readers (no use after close), reader registrations belong to live queriers (progress). *)
From Coq Require Import List ZArith Bool Lia.
From Verif Require Import model.CompactRace proof.CompactRaceInv.
Import ListNotations.
Open Scope Z_scope.

Definition fresh3 (s : state) (i : Z) : Prop :=
  ~ In i (to_close s) /\ ~ In i (closing s) /\ ~ In i (closed s).

Definition pc2_fact (s : state) : Prop :=
  match pc s with
  | HWritten bs _ | OWritten _ bs | VWritten bs _ => forall b, In b bs -> fresh3 s (b_id b)
  | BWritten b ps => fresh3 s (b_id b) /\ ~ In (b_id b) ps /\ to_close s = []
  | _ => True
  end.

Definition has_q (s : state) (a : Z) : Prop := exists x, In x (queriers s) /\ q_id x = a.

Record Inv2 (s : state) : Prop := mkInv2 {
  k_failed : failed s = false;
  k_blocks : forall b, In b (db_blocks s) -> fresh3 s (b_id b);
  k_pending : forall x b, In x (queriers s) -> In b (q_blocks x) -> In (q_id x, b_id b) (pending s);
  k_open : forall x b, In x (queriers s) -> In b (q_blocks x) -> ~ In (b_id b) (closed s);
  k_sub : forall x b, In x (queriers s) -> q_stage x <> Done -> In b (q_blocks x) -> In b (db_blocks s);
  k_closing : forall i, In i (closing s) -> In i (to_close s);
  k_pc : pc2_fact s;
  k_iso : forall a lo hi, In (a, lo, hi) (iso s) -> has_q s a;
  k_rd : forall a r, In (a, r) (ooo_reads s) -> has_q s a;
  k_pd : forall a i, In (a, i) (pending s) -> has_q s a
}.

Lemma memZ_false x l : memZ x l = false <-> ~ In x l.
Proof.
  rewrite <- memZ_true. destruct (memZ x l); split; intros H.
  - discriminate.
  - exfalso; apply H; reflexivity.
  - intros E; discriminate.
  - reflexivity.
Qed.

Lemma not_in_all_ids s i : memZ i (all_ids s) = false ->
  ~ In i (map b_id (db_blocks s)) /\ fresh3 s i.
Proof.
  intros H. apply memZ_false in H. unfold all_ids in H. rewrite !in_app_iff in H. unfold fresh3. tauto.
Qed.

(* only fields the invariant does not read change, and the program counter *)
Lemma inv2_frame s s' :
  failed s' = failed s -> db_blocks s' = db_blocks s -> to_close s' = to_close s -> closing s' = closing s ->
  closed s' = closed s -> pending s' = pending s -> queriers s' = queriers s -> iso s' = iso s ->
  ooo_reads s' = ooo_reads s -> pc2_fact s' -> Inv2 s -> Inv2 s'.
Proof.
  intros E1 E2 E3 E4 E5 E6 E7 E8 E9 PF I. destruct I.
  constructor; unfold fresh3, has_q in *; rewrite ?E1, ?E2, ?E3, ?E4, ?E5, ?E6, ?E7, ?E8, ?E9; auto.
Qed.

Ltac frame2 s := apply (inv2_frame s); [reflexivity .. | | assumption].

Lemma gc_done_some s hi om lower nm no p s' :
  gc_done s hi om lower nm no p = Some s' -> s' = set_pc (set_ooo (set_head s hi nm) om no) p.
Proof. unfold gc_done. intros H. apply guard_some in H. tauto. Qed.

Lemma has_q_replace s q nq a :
  q_id nq = q -> has_q s a -> exists x, In x (nq :: others s q) /\ q_id x = a.
Proof.
  intros E (x & Hx & Ha). destruct (Z.eq_dec a q).
  - exists nq. split; [left; auto | congruence].
  - exists x. split; auto. right. apply in_others. split; auto. congruence.
Qed.


Lemma inv2_ESwapped s s' : Inv2 s -> step s ESwapped = Some s' -> Inv2 s'.
Proof.
  intros I H. cbn [step] in H. destruct (all_done s) eqn:AD; try discriminate.
  destruct I as [K1 K2 K3 K4 K5 K6 K7 K8 K9 K10]; unfold fresh3, has_q, pc2_fact in *.
  destruct (pc s) eqn:P; try discriminate; inv H.
  - 
    constructor; unfold fresh3, has_q, pc2_fact; cbn;
    [ exact K1
    | intros b Hb; apply in_app_or in Hb; destruct Hb as [Hb|Hb]; [exact (K2 b Hb) | exact (K7 b Hb)]
    | exact K3
    | exact K4
    | intros x0 b0 Hx St; exfalso; apply St; eapply all_done_spec; eauto
    | exact K6
    | exact Logic.I
    | exact K8
    | exact K9
    | exact K10 ].
  - 
    constructor; unfold fresh3, has_q, pc2_fact; cbn;
    [ exact K1
    | intros b Hb; apply in_app_or in Hb; destruct Hb as [Hb|Hb]; [exact (K2 b Hb) | exact (K7 b Hb)]
    | exact K3
    | exact K4
    | intros x0 b0 Hx St; exfalso; apply St; eapply all_done_spec; eauto
    | exact K6
    | exact Logic.I
    | exact K8
    | exact K9
    | exact K10 ].
  - destruct K7 as (F1 & F2 & F3).
    constructor; unfold fresh3, has_q, pc2_fact; cbn;
    [ exact K1
    | intros b' Hb; apply in_app_or in Hb; destruct Hb as [Hb|[<-|[]]]; [apply filter_In in Hb; destruct Hb as [Hb M]; apply negb_true_iff in M; apply memZ_false in M; destruct (K2 b' Hb) as (_ & A & B); repeat split; assumption | destruct F1 as (_ & A & B); repeat split; assumption]
    | exact K3
    | exact K4
    | intros x0 b0 Hx St; exfalso; apply St; eapply all_done_spec; eauto
    | intros i Hi; rewrite F3 in K6; destruct (K6 i Hi)
    | exact Logic.I
    | exact K8
    | exact K9
    | exact K10 ].
  - 
    constructor; unfold fresh3, has_q, pc2_fact; cbn;
    [ exact K1
    | intros b Hb; apply in_app_or in Hb; destruct Hb as [Hb|Hb]; [exact (K2 b Hb) | exact (K7 b Hb)]
    | exact K3
    | exact K4
    | intros x0 b0 Hx St; exfalso; apply St; eapply all_done_spec; eauto
    | exact K6
    | exact Logic.I
    | exact K8
    | exact K9
    | exact K10 ].
Qed.

Lemma inv2_EBlockClosing s s' id : Inv2 s -> step s (EBlockClosing id) = Some s' -> Inv2 s'.
Proof.
  intros I H. cbn [step] in H.
  apply guard_some in H as [G ->]. apply andb_true_iff in G. destruct G as [G1 G2]. apply memZ_true in G1.
  destruct I as [K1 K2 K3 K4 K5 K6 K7 K8 K9 K10]; unfold fresh3, has_q, pc2_fact in *.
  constructor; unfold fresh3, has_q, pc2_fact; cbn;
  [ exact K1
  | intros b Hb; destruct (K2 b Hb) as (A & B & D); repeat split; auto; intros [E|?]; [apply A; rewrite <- E; exact G1 | auto]
  | exact K3
  | exact K4
  | exact K5
  | intros i [<-|?]; auto
  | destruct (pc s); auto; [ intros b Hb; destruct (K7 b Hb) as (A & B & D); repeat split; auto; intros [E|?]; [apply A; rewrite <- E; exact G1 | auto] | intros b Hb; destruct (K7 b Hb) as (A & B & D); repeat split; auto; intros [E|?]; [apply A; rewrite <- E; exact G1 | auto] | destruct K7 as ((A & B & D) & F2 & F3); repeat split; auto; intros [E|?]; [apply A; rewrite <- E; exact G1 | auto] | intros b Hb; destruct (K7 b Hb) as (A & B & D); repeat split; auto; intros [E|?]; [apply A; rewrite <- E; exact G1 | auto] ]
  | exact K8
  | exact K9
  | exact K10 ].
Qed.

Lemma inv2_EBlockClosed s s' id : Inv2 s -> step s (EBlockClosed id) = Some s' -> Inv2 s'.
Proof.
  intros I H. cbn [step] in H.
  destruct (memZ id (closing s) && negb (existsb (fun p => snd p =? id) (pending s))) eqn:G; try discriminate.
  apply andb_true_iff in G. destruct G as [G1 G2]. apply memZ_true in G1. apply negb_true_iff in G2.
  assert (NP : forall a, ~ In (a, id) (pending s)).
  { intros a Ha. assert (existsb (fun p : Z * Z => snd p =? id) (pending s) = true).
    { apply existsb_exists. exists (a, id). split; auto. cbn. apply Z.eqb_refl. }
    congruence. }
  set (s1 := set_closing s (filter (fun x => negb (x =? id)) (to_close s))
               (filter (fun x => negb (x =? id)) (closing s)) (id :: closed s)).
  assert (FR : forall i, (~ In i (to_close s) /\ ~ In i (closing s) /\ ~ In i (closed s)) ->
     ~ In i (filter (fun x => negb (x =? id)) (to_close s)) /\
     ~ In i (filter (fun x => negb (x =? id)) (closing s)) /\ ~ In i (id :: closed s)).
  { intros i (A & B & D). repeat split.
    - intros Hf. apply filter_In in Hf. tauto.
    - intros Hf. apply filter_In in Hf. tauto.
    - intros [E|?]; [apply B; rewrite <- E; exact G1 | auto]. }
  assert (I1 : Inv2 s1).
  { destruct I as [K1 K2 K3 K4 K5 K6 K7 K8 K9 K10]; unfold fresh3, has_q, pc2_fact in *.
    constructor; unfold fresh3, has_q, pc2_fact; cbn;
    [ exact K1
    | intros b Hb; apply FR; apply K2; assumption
    | exact K3
    | intros x b Hx Hb [E|?]; [apply (NP (q_id x)); rewrite E; auto | eapply K4; eauto]
    | exact K5
    | intros i Hi; apply filter_In in Hi; destruct Hi as [Hi M]; apply filter_In; split; auto
    | destruct (pc s); auto; [ intros b Hb; apply FR; apply K7; assumption | intros b Hb; apply FR; apply K7; assumption | destruct K7 as (F1 & F2 & F3); split; [apply FR; assumption | split; auto; rewrite F3; reflexivity] | intros b Hb; apply FR; apply K7; assumption ]
    | exact K8
    | exact K9
    | exact K10 ]. }
  inv H. destruct (pc s) eqn:P; auto.
  destruct (filter (fun x => negb (x =? id)) (to_close s)); auto.
  apply (inv2_frame s1); auto; try reflexivity; try (unfold pc2_fact; cbn; exact Logic.I).
Qed.

Lemma inv2_EQBegin s s' q mint maxt : Inv2 s -> step s (EQBegin q mint maxt) = Some s' -> Inv2 s'.
Proof.
  intros I H. cbn [step] in H.
  destruct (negb (existsb (fun x => q_id x =? q) (queriers s)) && (mint <=? maxt)) eqn:G; try discriminate.
  set (bs := filter (block_overlaps mint maxt) (db_blocks s)) in *.
  assert (NB : existsb (fun b => memZ (b_id b) (closing s) || memZ (b_id b) (closed s)) bs = false).
  { destruct (existsb _ bs) eqn:E; auto. exfalso. apply existsb_exists in E. destruct E as (b & Hb & E).
    apply filter_In in Hb. destruct (k_blocks _ I b) as (A & B & D); [tauto|].
    apply orb_true_iff in E. destruct E as [E|E]; apply memZ_true in E; auto. }
  rewrite NB in H. inv H.
  destruct I as [K1 K2 K3 K4 K5 K6 K7 K8 K9 K10]; unfold fresh3, has_q, pc2_fact in *.
  constructor; unfold fresh3, has_q, pc2_fact; cbn;
  [ exact K1
  | exact K2
  | intros x b [<-|Hx] Hb; cbn in *; [apply in_or_app; left; apply in_map_iff; exists b; auto | apply in_or_app; right; auto]
  | intros x b [<-|Hx] Hb; cbn in *; [apply filter_In in Hb; destruct (K2 b) as (A & B & D); tauto | eapply K4; eauto]
  | intros x b [<-|Hx] St Hb; cbn in *; [apply filter_In in Hb; tauto | eapply K5; eauto]
  | exact K6
  | exact K7
  | intros a lo hi Hi; destruct (K8 a lo hi Hi) as (x & Hx & E); exists x; auto
  | intros a r Hi; destruct (K9 a r Hi) as (x & Hx & E); exists x; auto
  | intros a i Hi; apply in_app_or in Hi; destruct Hi as [Hi|Hi]; [apply in_map_iff in Hi; destruct Hi as (b & E & _); inv E; eexists; split; [left; reflexivity | auto] | destruct (K10 a i Hi) as (x & Hx & E); exists x; auto] ].
Qed.

Ltac q_pending K3 Fq := intros y b [<-|Hy] Hb; [cbn in *; try rewrite <- Fq; auto | apply in_others in Hy; destruct Hy as [Hy1 Hy2]; apply K3; assumption].
Ltac q_open K4 := intros y b [<-|Hy] Hb; [cbn in *; eapply K4; eauto | apply in_others in Hy; destruct Hy as [Hy1 Hy2]; eapply K4; eauto].
Ltac q_sub K5 := intros y b [<-|Hy] Sy Hb; [cbn in *; first [congruence | eapply K5; eauto; congruence] | apply in_others in Hy; destruct Hy as [Hy1 Hy2]; eapply K5; eauto].

Lemma inv2_EQOpenHead s s' q : Inv2 s -> step s (EQOpenHead q) = Some s' -> Inv2 s'.
Proof.
  intros I H. cbn [step] in H.
  destruct (find_q s q) as [x|] eqn:F; try discriminate. apply find_q_some in F. destruct F as [Fx Fq]. subst q.
  destruct (q_stage x) eqn:St; try discriminate. apply guard_some in H as [G ->].
  destruct I as [K1 K2 K3 K4 K5 K6 K7 K8 K9 K10]; unfold fresh3, has_q, pc2_fact in *.
  constructor; unfold fresh3, has_q, pc2_fact; cbn;
  [ exact K1
  | exact K2
  | q_pending K3 Fx
  | q_open K4
  | q_sub K5
  | exact K6
  | exact K7
  | intros a lo hi [E|Hi]; [inv E; eexists; split; [left; reflexivity | auto] | apply (has_q_replace s (q_id x)); auto; eapply K8; eauto]
  | intros a r Hi; apply (has_q_replace s (q_id x)); auto; eapply K9; eauto
  | intros a i Hi; apply (has_q_replace s (q_id x)); auto; eapply K10; eauto ].
Qed.

Lemma inv2_EQFinish s s' q : Inv2 s -> step s (EQFinish q) = Some s' -> Inv2 s'.
Proof.
  intros I H. cbn [step] in H.
  destruct (find_q s q) as [x|] eqn:F; try discriminate. apply find_q_some in F. destruct F as [Fx Fq]. subst q.
  destruct I as [K1 K2 K3 K4 K5 K6 K7 K8 K9 K10]; unfold fresh3, has_q, pc2_fact in *.
  destruct (q_stage x) eqn:St; try discriminate.
  - apply guard_some in H as [G ->].
    constructor; unfold fresh3, has_q, pc2_fact; cbn;
    [ exact K1
    | exact K2
    | q_pending K3 Fx
    | q_open K4
    | q_sub K5
    | exact K6
    | exact K7
    | intros a lo hi Hi; apply (has_q_replace s (q_id x)); auto; eapply K8; eauto
    | intros a r Hi; apply (has_q_replace s (q_id x)); auto; eapply K9; eauto
    | intros a i Hi; apply (has_q_replace s (q_id x)); auto; eapply K10; eauto ].
  - destruct (colliding s (q_mint x) (q_maxt x)) as [[cl gn] nm].
    assert (SUB : forall e, In e (if gn then (q_id x, nm, q_maxt x) :: (if cl then filter (fun r => negb (fst (fst r) =? q_id x)) (iso s) else iso s)
                                 else (if cl then filter (fun r => negb (fst (fst r) =? q_id x)) (iso s) else iso s)) ->
                  In e (iso s) \/ fst (fst e) = q_id x).
    { intros e He. destruct gn; [destruct He as [<-|He]; [right; auto|]|];
        (destruct cl; [apply filter_In in He; tauto | auto]). }
    destruct (q_ooo x); inv H.
    + 
      constructor; unfold fresh3, has_q, pc2_fact; cbn;
      [ exact K1
      | exact K2
      | q_pending K3 Fx
      | q_open K4
      | q_sub K5
      | exact K6
      | exact K7
      | intros a lo hi [E|Hi]; [inv E; eexists; split; [left; reflexivity | auto] | destruct (SUB _ Hi) as [Hi'|E]; [apply (has_q_replace s (q_id x)); auto; eapply K8; eauto | cbn in E; subst a; eexists; split; [left; reflexivity | auto]]]
      | intros a r [E|Hi]; [inv E; eexists; split; [left; reflexivity | auto] | apply (has_q_replace s (q_id x)); auto; eapply K9; eauto]
      | intros a i Hi; apply (has_q_replace s (q_id x)); auto; eapply K10; eauto ].
    + 
      constructor; unfold fresh3, has_q, pc2_fact; cbn;
      [ exact K1
      | exact K2
      | q_pending K3 Fx
      | q_open K4
      | q_sub K5
      | exact K6
      | exact K7
      | intros a lo hi Hi; destruct (SUB _ Hi) as [Hi'|E]; [apply (has_q_replace s (q_id x)); auto; eapply K8; eauto | cbn in E; subst a; eexists; split; [left; reflexivity | auto]]
      | intros a r Hi; apply (has_q_replace s (q_id x)); auto; eapply K9; eauto
      | intros a i Hi; apply (has_q_replace s (q_id x)); auto; eapply K10; eauto ].
Qed.

Lemma inv2_EQIter s s' q : Inv2 s -> step s (EQIter q) = Some s' -> Inv2 s'.
Proof.
  intros I H. cbn [step] in H.
  destruct (find_q s q) as [x|] eqn:F; try discriminate. apply find_q_some in F. destruct F as [Fx Fq].
  destruct (q_stage x); try discriminate.
  assert (NB : existsb (fun b => memZ (b_id b) (closed s)) (q_blocks x) = false).
  { destruct (existsb _ (q_blocks x)) eqn:E; auto. exfalso. apply existsb_exists in E. destruct E as (b & Hb & E).
    apply memZ_true in E. eapply (k_open _ I); eauto. }
  rewrite NB in H. inv H. auto.
Qed.

Lemma inv2_EQClose s s' q : Inv2 s -> step s (EQClose q) = Some s' -> Inv2 s'.
Proof.
  intros I H. cbn [step] in H.
  destruct (find_q s q) as [x|] eqn:F; try discriminate. apply find_q_some in F. destruct F as [Fx Fq]. subst q.
  destruct (q_stage x); try discriminate. inv H.
  assert (OTH : forall a, a <> q_id x -> has_q s a -> exists y, In y (others s (q_id x)) /\ q_id y = a).
  { intros a N (y & Hy & E). exists y. split; auto. apply in_others. split; auto. congruence. }
  destruct I as [K1 K2 K3 K4 K5 K6 K7 K8 K9 K10]; unfold fresh3, has_q, pc2_fact in *.
  constructor; unfold fresh3, has_q, pc2_fact; cbn;
  [ exact K1
  | exact K2
  | intros y b Hy Hb; apply in_others in Hy; destruct Hy as [Hy1 Hy2]; apply filter_In; split; [apply K3; assumption | cbn; apply negb_true_iff; apply Z.eqb_neq; assumption]
  | intros y b Hy Hb; apply in_others in Hy; destruct Hy as [Hy1 Hy2]; eapply K4; eauto
  | intros y b Hy Sy Hb; apply in_others in Hy; destruct Hy as [Hy1 Hy2]; eapply K5; eauto
  | exact K6
  | exact K7
  | intros a lo hi Hi; apply filter_In in Hi; destruct Hi as [Hi M]; cbn in M; apply negb_true_iff in M; apply Z.eqb_neq in M; apply OTH; auto; eapply K8; eauto
  | intros a r Hi; apply filter_In in Hi; destruct Hi as [Hi M]; cbn in M; apply negb_true_iff in M; apply Z.eqb_neq in M; apply OTH; auto; eapply K9; eauto
  | intros a i Hi; apply filter_In in Hi; destruct Hi as [Hi M]; cbn in M; apply negb_true_iff in M; apply Z.eqb_neq in M; apply OTH; auto; eapply K10; eauto ].
Qed.

Lemma step_inv2 s s' e : Inv2 s -> step s e = Some s' -> Inv2 s'.
Proof.
  intros I H. destruct e; try (cbn [step] in H).
  - (* EHWritten *)
    destruct (pc s) eqn:P; try discriminate. apply guard_some in H as [G ->].
    frame2 s. unfold pc2_fact; cbn. rewrite !andb_true_iff in G. destruct G as [_ G3].
    destruct id; intros b Hb; [destruct Hb as [<-|[]] | destruct Hb]. cbn.
    apply negb_true_iff in G3. apply not_in_all_ids in G3. tauto.
  - eapply inv2_ESwapped; eauto.
  - eapply inv2_EBlockClosing; eauto.
  - eapply inv2_EBlockClosed; eauto.
  - (* ETimePub *)
    destruct (pc s); try discriminate. destruct (to_close s) eqn:TC; try discriminate.
    apply guard_some in H as [G ->]. frame2 s. exact Logic.I.
  - (* EFlagSet *)
    destruct (pc s); try discriminate. inv H. frame2 s. exact Logic.I.
  - (* EAwaited *)
    destruct (pc s); try discriminate. apply guard_some in H as [G ->]. frame2 s. exact Logic.I.
  - (* EMinSet *)
    destruct (pc s); try discriminate. inv H. frame2 s. exact Logic.I.
  - (* EGcDone *)
    destruct (pc s); try discriminate; apply gc_done_some in H; subst s'; frame2 s; exact Logic.I.
  - (* EHeadDone *)
    destruct (pc s); try discriminate.
    + destruct (to_close s); try discriminate. apply guard_some in H as [G ->]. frame2 s. exact Logic.I.
    + assert (E : s' = set_pc (set_trunc s (trunc_time s) false) Idle) by (destruct (to_close s); inv H; auto).
      subst s'. frame2 s. exact Logic.I.
  - (* EOStart *)
    destruct (pc s); try discriminate. apply guard_some in H as [G ->]. frame2 s. exact Logic.I.
  - (* EOWritten *)
    destruct (pc s); try discriminate. apply guard_some in H as [G ->].
    rewrite !andb_true_iff in G. destruct G as [[[G1 _] _] _].
    frame2 s. unfold pc2_fact; cbn. intros b Hb. unfold fresh_ids in G1. rewrite forallb_forall in G1.
    specialize (G1 (b_id b) (in_map b_id _ _ Hb)). apply negb_true_iff in G1. apply not_in_all_ids in G1. tauto.
  - (* EGcPub *)
    destruct (pc s); try discriminate. destruct (to_close s); try discriminate.
    apply guard_some in H as [G ->]. frame2 s. exact Logic.I.
  - (* EOAwaited *)
    destruct (pc s); try discriminate. apply guard_some in H as [G ->]. frame2 s. exact Logic.I.
  - (* EODone *)
    destruct (pc s); try discriminate.
    + destruct (to_close s); try discriminate. apply guard_some in H as [G ->]. frame2 s. exact Logic.I.
    + assert (E : s' = set_pc s Idle) by (destruct (to_close s); inv H; auto). subst s'. frame2 s. exact Logic.I.
  - (* EBWritten *)
    destruct (pc s); try discriminate. apply guard_some in H as [G ->].
    rewrite !andb_true_iff in G. destruct G as [[[[G1 G2] G3] G4] G5].
    frame2 s. unfold pc2_fact; cbn. apply negb_true_iff in G3. apply not_in_all_ids in G3. destruct G3 as [N F].
    split; auto. split.
    + intros Hp. apply N. rewrite forallb_forall in G2. apply memZ_true. apply G2; auto.
    + destruct (to_close s); auto; discriminate.
  - (* EVWritten *)
    destruct (pc s) eqn:P; try discriminate; apply guard_some in H as [G ->];
      rewrite !andb_true_iff in G; frame2 s; unfold pc2_fact; cbn;
      intros b [<-|[]]; cbn.
    + destruct G as [[_ G2] _]. apply negb_true_iff in G2. apply not_in_all_ids in G2. tauto.
    + destruct G as [[[_ G2] _] _]. apply negb_true_iff in G2. apply not_in_all_ids in G2. tauto.
  - (* EVAwaited *)
    destruct (pc s); try discriminate; apply guard_some in H as [G ->]; frame2 s; exact Logic.I.
  - (* EVEvicted *)
    destruct (pc s); try discriminate; apply guard_some in H as [G ->]; frame2 s; exact Logic.I.
  - eapply inv2_EQBegin; eauto.
  - eapply inv2_EQOpenHead; eauto.
  - eapply inv2_EQFinish; eauto.
  - eapply inv2_EQIter; eauto.
  - eapply inv2_EQClose; eauto.
Qed.

Lemma inv2_init s : wf_init s = true -> Inv2 s.
Proof.
  unfold wf_init. intros H. rewrite !andb_true_iff in H.
  destruct H as [[[[[[[[[W1 W2] W3] W4] W5] W6] W7] W8] W9] W10].
  destruct (pc s) eqn:P; try discriminate.
  apply negb_true_iff in W3.
  destruct (queriers s) eqn:EQ; try discriminate.
  destruct (iso s) eqn:EI; try discriminate.
  destruct (ooo_reads s) eqn:ER; try discriminate.
  destruct (pending s) eqn:EP; try discriminate.
  destruct (to_close s) eqn:ET; try discriminate.
  destruct (closing s) eqn:EC; try discriminate.
  rewrite forallb_forall in W10.
  constructor; unfold fresh3, has_q, pc2_fact; rewrite ?EQ, ?EI, ?ER, ?EP, ?ET, ?EC, ?P; auto;
    try (intros; exfalso; cbn in *; tauto).
  intros b Hb. repeat split; auto. specialize (W10 b Hb). apply negb_true_iff in W10. apply memZ_false in W10. auto.
Qed.

Lemma run_inv2 tr : forall s s' outs, Inv2 s -> run s tr = Some (s', outs) -> Inv2 s'.
Proof.
  induction tr as [|e tr IH]; intros s s' outs I H; cbn in H.
  - inv H. auto.
  - destruct (step s e) as [s1|] eqn:S1; try discriminate.
    destruct (run s1 tr) as [[sf o1]|] eqn:R1; try discriminate. inv H.
    exact (IH s1 s' o1 (step_inv2 _ _ _ I S1) R1).
Qed.

Theorem no_use_after_close : forall s0 tr s outs,
  wf_init s0 = true -> run s0 tr = Some (s, outs) ->
  failed s = false /\
  (forall x b, In x (queriers s) -> In b (q_blocks x) -> ~ In (b_id b) (closed s)).
Proof.
  intros s0 tr s outs W R. pose proof (run_inv2 tr s0 s outs (inv2_init s0 W) R) as I.
  split; [apply (k_failed _ I) | apply (k_open _ I)].
Qed.

Theorem progress : forall s0 tr s outs,
  wf_init s0 = true -> run s0 tr = Some (s, outs) -> queriers s = [] ->
  forall e, next_wait s = Some e -> step s e <> None.
Proof.
  intros s0 tr s outs W R Q e H. pose proof (run_inv2 tr s0 s outs (inv2_init s0 W) R) as I.
  assert (ISO : iso s = []).
  { destruct (iso s) as [|[[a lo] hi] l] eqn:E; auto. exfalso.
    destruct (k_iso _ I a lo hi) as (x & Hx & _); [rewrite E; left; auto|]. rewrite Q in Hx. destruct Hx. }
  assert (RD : ooo_reads s = []).
  { destruct (ooo_reads s) as [|[a r] l] eqn:E; auto. exfalso.
    destruct (k_rd _ I a r) as (x & Hx & _); [rewrite E; left; auto|]. rewrite Q in Hx. destruct Hx. }
  assert (PD : pending s = []).
  { destruct (pending s) as [|[a r] l] eqn:E; auto. exfalso.
    destruct (k_pd _ I a r) as (x & Hx & _); [rewrite E; left; auto|]. rewrite Q in Hx. destruct Hx. }
  unfold next_wait in H.
  destruct (pc s) eqn:P; destruct (to_close s) eqn:TC; destruct (closing s) eqn:CL; cbn in H;
    try discriminate;
    try (destruct (0 <? L) eqn:GL; try discriminate);
    inv H; cbn [step]; unfold all_done, guard;
    rewrite ?P, ?TC, ?CL, ?Q, ?ISO, ?RD, ?PD; cbn; rewrite ?Z.eqb_refl, ?Z.leb_refl, ?GL; cbn; try discriminate.
Qed.

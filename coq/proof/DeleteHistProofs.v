(* proof/DeleteHistProofs.v — proofs of the history part of property C20 (vocabulary in
   model/DeleteHist.v): a Delete acts on EVERY query answer of the flat specification exactly as
   del_answer says, a deleted sample never comes back by itself, and both facts lifted to the
   structured model of C01 through the C01 refinement (with C01's assumptions). *)
From Coq Require Import List ZArith Bool Lia.
From Verif Require Import lib.Int64 model.TsdbSpec model.Tsdb proof.TsdbProofs model.DeleteHist.
Import ListNotations.
Open Scope Z_scope.

(* ------------------------------------------------------------------ *)
(** * Generic list lemmas *)

Lemma flat_map_app' {A B} (f : A -> list B) l1 l2 :
  flat_map f (l1 ++ l2) = flat_map f l1 ++ flat_map f l2.
Proof.
  induction l1 as [|a l1 IH]; cbn [flat_map app]; [reflexivity|].
  rewrite IH, app_assoc. reflexivity.
Qed.

Lemma flat_map_flat_map {A B C} (f : B -> list C) (g : A -> list B) l :
  flat_map f (flat_map g l) = flat_map (fun x => flat_map f (g x)) l.
Proof.
  induction l as [|a l IH]; cbn [flat_map]; [reflexivity|].
  rewrite flat_map_app', IH. reflexivity.
Qed.

Lemma filter_comm {A} (f g : A -> bool) l : filter f (filter g l) = filter g (filter f l).
Proof.
  induction l as [|a l IH]; [reflexivity|]. cbn [filter].
  destruct (f a) eqn:F; destruct (g a) eqn:G; cbn [filter]; rewrite ?F, ?G; congruence.
Qed.

Lemma map_filter_fst {B} (f : Z -> Z * B) (P : Z -> bool) ts :
  (forall t, fst (f t) = t) ->
  map f (filter P ts) = filter (fun p => P (fst p)) (map f ts).
Proof.
  intros Hf. induction ts as [|a ts IH]; [reflexivity|]. cbn [map filter].
  rewrite Hf. destruct (P a); cbn [map]; rewrite IH; reflexivity.
Qed.

(* ------------------------------------------------------------------ *)
(** * Filtering the candidates of a series by timestamp = filtering its answer *)

Lemma sincr_cons_lb a l : sincr l -> (forall u, In u l -> a < u) -> sincr (a :: l).
Proof.
  intros Hs Hl. destruct l as [|b r]; constructor; auto.
  apply Hl. left; reflexivity.
Qed.

Lemma sincr_filter (P : Z -> bool) l : sincr l -> sincr (filter P l).
Proof.
  induction l as [|a l IH]; intros H; cbn [filter]; [constructor|].
  pose proof (sincr_lb _ _ H) as Hlb. apply sincr_tail in H.
  destruct (P a); [|auto]. apply sincr_cons_lb; auto.
  intros u Hu. apply filter_In in Hu. apply Hlb. tauto.
Qed.

Lemma sort_uniq_filter (P : Z -> bool) (l : list sample) :
  sort_uniq (map st (filter (fun x => P (st x)) l)) = filter P (sort_uniq (map st l)).
Proof.
  apply sincr_unique.
  - apply sincr_sort_uniq.
  - apply sincr_filter, sincr_sort_uniq.
  - intros t. rewrite in_sort_uniq, filter_In, in_sort_uniq, !in_map_iff. split.
    + intros [x [E Hx]]. apply filter_In in Hx. destruct Hx as [Hx HP]. subst t.
      split; [exists x; auto|exact HP].
    + intros [[x [E Hx]] HP]. exists x. split; [exact E|].
      apply filter_In. split; [exact Hx|]. rewrite E. exact HP.
Qed.

Lemma filter_at_filter (P : Z -> bool) (l : list sample) t : P t = true ->
  filter (fun x => st x =? t) (filter (fun x => P (st x)) l) = filter (fun x => st x =? t) l.
Proof.
  intros HP. induction l as [|a l IH]; [reflexivity|]. cbn [filter].
  destruct (st a =? t) eqn:E.
  - assert (Pa : P (st a) = true) by (apply Z.eqb_eq in E; rewrite E; exact HP).
    rewrite Pa. cbn [filter]. rewrite E, IH. reflexivity.
  - destruct (P (st a)); cbn [filter]; rewrite ?E; exact IH.
Qed.

Lemma vals_at_filter (P : Z -> bool) (l : list sample) t : P t = true ->
  vals_at (filter (fun x => P (st x)) l) t = vals_at l t.
Proof. intros HP. unfold vals_at. rewrite filter_at_filter by exact HP. reflexivity. Qed.

Lemma series_answer_filter (P : Z -> bool) (l : list sample) :
  series_answer (filter (fun x => P (st x)) l) = filter (fun p => P (fst p)) (series_answer l).
Proof.
  unfold series_answer. rewrite sort_uniq_filter.
  transitivity (map (fun t => (t, vals_at l t)) (filter P (sort_uniq (map st l)))).
  - apply map_ext_in. intros t Ht. apply filter_In in Ht. destruct Ht as [_ HP].
    rewrite vals_at_filter by exact HP. reflexivity.
  - apply map_filter_fst. intros t. reflexivity.
Qed.

Lemma series_answer_nil l : series_answer l = [] -> l = [].
Proof.
  unfold series_answer. intros H. apply map_eq_nil in H. apply sort_uniq_nil in H.
  apply map_eq_nil in H. exact H.
Qed.

Lemma entry_nonempty (i : sid) (F : list sample) :
  match F with [] => [] | _ :: _ => [(i, series_answer F)] end
  = match series_answer F with [] => [] | p :: q => [(i, p :: q)] end.
Proof.
  destruct F as [|x F']; [reflexivity|].
  destruct (series_answer (x :: F')) as [|p q] eqn:E; [|reflexivity].
  apply series_answer_nil in E. discriminate E.
Qed.

Lemma del_series mint maxt (i : sid) (l : list sample) :
  match filter (fun x => negb (in_rng mint maxt (st x))) l with
  | [] => []
  | _ :: _ => [(i, series_answer (filter (fun x => negb (in_rng mint maxt (st x))) l))]
  end
  = match del_pts mint maxt (series_answer l) with [] => [] | p :: q => [(i, p :: q)] end.
Proof.
  pose proof (series_answer_filter (fun t => negb (in_rng mint maxt t)) l) as HS.
  cbv beta in HS. unfold del_pts. rewrite <- HS. apply entry_nonempty.
Qed.

Lemma entry_not_sel mint maxt sel (i : sid) (l : list sample) : memZ i sel = false ->
  flat_map (del_entry mint maxt sel) (match l with [] => [] | _ :: _ => [(i, series_answer l)] end)
  = match l with [] => [] | _ :: _ => [(i, series_answer l)] end.
Proof.
  intros M. destruct l as [|x l0]; [reflexivity|]. cbn [flat_map].
  unfold del_entry. cbn [fst snd]. rewrite M. reflexivity.
Qed.

Lemma entry_sel mint maxt sel (i : sid) (l : list sample) : memZ i sel = true ->
  flat_map (del_entry mint maxt sel) (match l with [] => [] | _ :: _ => [(i, series_answer l)] end)
  = match filter (fun x => negb (in_rng mint maxt (st x))) l with
    | [] => []
    | _ :: _ => [(i, series_answer (filter (fun x => negb (in_rng mint maxt (st x))) l))]
    end.
Proof.
  intros M. destruct l as [|x l0]; [reflexivity|]. cbn [flat_map]. rewrite app_nil_r.
  unfold del_entry. cbn [fst snd]. rewrite M. symmetry. apply del_series.
Qed.

(* ------------------------------------------------------------------ *)
(** * 1. Deleting is exact on the flat specification, for every query *)

Lemma delete_exact_spec : forall (sp : sstate) (mint maxt : Z) (sel : list sid) (qmin qmax : Z) (qsel : list sid),
  spec_query (spec_step sp (SDelete mint maxt sel)) qmin qmax qsel =
  del_answer mint maxt sel (spec_query sp qmin qmax qsel).
Proof.
  intros sp mint maxt sel qmin qmax qsel.
  unfold spec_query, query_of, del_answer. rewrite flat_map_flat_map.
  apply flat_map_ext_in. intros i _. cbv beta zeta. unfold spec_step. cbv beta.
  destruct (memZ i sel) eqn:M.
  - rewrite (entry_sel mint maxt sel i _ M). rewrite filter_comm. reflexivity.
  - rewrite (entry_not_sel mint maxt sel i _ M). reflexivity.
Qed.

(* ------------------------------------------------------------------ *)
(** * 2. No resurrection on the flat specification *)

Lemma in_fold_spec ops : forall (sp : sstate) i x,
  In x (fold_left spec_step ops sp i) -> In x (sp i) \/ acked_in ops i x.
Proof.
  induction ops as [|o ops IH]; intros sp i x H; [left; exact H|].
  cbn [fold_left] in H. apply IH in H. destruct H as [H|[l [Hl Hx]]].
  - destruct o as [l|a b s|].
    + cbn [spec_step] in H. apply in_ack in H. destruct H as [H|H]; [left; exact H|].
      right. exists l. split; [left; reflexivity|exact H].
    + apply in_sdelete in H. left. tauto.
    + left. exact H.
  - right. exists l. split; [right; exact Hl|exact Hx].
Qed.

Lemma no_resurrection_spec : forall (ops1 ops2 : list sop) mint maxt sel i x,
  In x (spec_run (ops1 ++ SDelete mint maxt sel :: ops2) i) -> In i sel -> mint <= st x <= maxt ->
  acked_in ops2 i x.
Proof.
  intros ops1 ops2 mint maxt sel i x H Hi Hr.
  unfold spec_run in H. rewrite fold_left_app in H. cbn [fold_left] in H.
  apply in_fold_spec in H. destruct H as [H|H]; [|exact H].
  apply in_sdelete in H. destruct H as [_ Hn]. exfalso. apply Hn. split; assumption.
Qed.

(* ------------------------------------------------------------------ *)
(** * 3. Lifted to the structured model through the C01 refinement *)

Lemma maint_nop ops : forallb is_maint ops = true ->
  forall sp, fold_left spec_step (map spec_of_op ops) sp = sp.
Proof.
  induction ops as [|o ops IH]; intros H sp; [reflexivity|].
  cbn [forallb] in H. apply andb_true_iff in H. destruct H as [Ho Hr].
  cbn [map fold_left].
  destruct o; cbn [is_maint] in Ho; try discriminate Ho; cbn [spec_of_op spec_step]; apply IH; exact Hr.
Qed.

Lemma delete_history_partial : forall (c : cfg) (ops1 ops2 : list op) mint maxt sel,
  wf_cfg c -> wf_ops c state0 (ops1 ++ Delete mint maxt sel :: ops2) ->
  forallb is_maint ops2 = true ->
  dead_covered (run c (ops1 ++ Delete mint maxt sel :: ops2)) ->
  forall qmin qmax qsel,
    answer_equiv (query (run c (ops1 ++ Delete mint maxt sel :: ops2)) qmin qmax qsel)
                 (del_answer mint maxt sel (spec_query (spec_run (map spec_of_op ops1)) qmin qmax qsel)).
Proof.
  intros c ops1 ops2 mint maxt sel Hw Hwf Hm Hdc qmin qmax qsel.
  pose proof (refinement_partial c _ Hw Hwf Hdc qmin qmax qsel) as H.
  rewrite map_app in H. cbn [map spec_of_op] in H.
  unfold spec_run in H. rewrite fold_left_app in H. cbn [fold_left] in H.
  rewrite (maint_nop ops2 Hm) in H.
  rewrite delete_exact_spec in H. exact H.
Qed.

(* ------------------------------------------------------------------ *)
(** * 4. Non-vacuity *)

Definition ex_cfg : cfg := mkCfg 1000 100000 [0; 1].
Definition io (i t v : Z) : acc := (i, mkS t v, false).
Definition oo (i t v : Z) : acc := (i, mkS t v, true).
Definition lg (l : list acc) : list (sid * option sample) := map (fun a => (fst (fst a), Some (snd (fst a)))) l.
Definition cmc (created : list sid) (l : list acc) : op :=
  Commit l (map (fun i => (i, None)) created ++ lg l) (match l with a :: _ => Some (st (snd (fst a))) | [] => None end).
Definition cm := cmc [].
Definition ex_ops1 : list op :=
  [ cmc [0; 1] [io 0 (-1500) 1; io 1 150 2]; cm [io 0 900 3; io 1 950 4]; cm [oo 1 400 5];
    CompactOOO; cm [io 0 1700 6; io 1 1800 7]; cm [io 0 2700 8]; Compact ].
Definition ex_ops2 : list op := [ CleanTombstones; Compact; CompactOOO ].

Lemma ex_wf : wf_cfg ex_cfg /\ wf_ops ex_cfg state0 (ex_ops1 ++ Delete 120 1750 [0; 1] :: ex_ops2).
Proof.
  split; [unfold wf_cfg; cbn; lia|].
  unfold ex_ops1, ex_ops2. cbn [app wf_ops wf_op].
  repeat match goal with
  | |- _ /\ _ => split
  | |- True => exact I
  end;
  try (vm_compute; repeat split; auto; try lia; try discriminate; intuition congruence).
  all: try (intros i y [<-|[<-|[]]] Hy; vm_compute in Hy; contradiction).
Qed.

Lemma ex_maint : forallb is_maint ex_ops2 = true.
Proof. reflexivity. Qed.

Lemma ex_dead_covered : dead_covered (run ex_cfg (ex_ops1 ++ Delete 120 1750 [0; 1] :: ex_ops2)).
Proof.
  apply (dead_free_covered ex_cfg); [|vm_compute; reflexivity].
  destruct ex_wf as [Hw Hwf]. exact (proj1 (abs_run ex_cfg _ Hw Hwf)).
Qed.

Lemma ex_answer :
  query (run ex_cfg (ex_ops1 ++ Delete 120 1750 [0; 1] :: ex_ops2)) minInt64 maxInt64 [0; 1]
    = [(0, [(-1500, [1]); (2700, [8])]); (1, [(1800, [7])])]
  /\ del_answer 120 1750 [0; 1] (spec_query (spec_run (map spec_of_op ex_ops1)) minInt64 maxInt64 [0; 1])
    = [(0, [(-1500, [1]); (2700, [8])]); (1, [(1800, [7])])].
Proof. vm_compute. split; reflexivity. Qed.

(* ------------------------------------------------------------------ *)
(** * The Delete step of the structured model (instance of the C01 step lemma; no Restart
    assumption involved) *)
Lemma delete_step_exact : forall (c : cfg) (s : state) mint maxt sel,
  wf_cfg c -> inv c s -> wf_delete (s_head s) mint maxt sel ->
  inv c (delete mint maxt sel s) /\
  sequiv (abs (delete mint maxt sel s)) (spec_step (abs s) (SDelete mint maxt sel)).
Proof.
  intros c s mint maxt sel Hw Hi Hd.
  exact (step_refines c s (Delete mint maxt sel) Hw Hi Hd).
Qed.

Lemma ex_all :
  (wf_cfg ex_cfg /\ wf_ops ex_cfg state0 (ex_ops1 ++ Delete 120 1750 [0; 1] :: ex_ops2)) /\
  forallb is_maint ex_ops2 = true /\
  dead_covered (run ex_cfg (ex_ops1 ++ Delete 120 1750 [0; 1] :: ex_ops2)) /\
  query (run ex_cfg (ex_ops1 ++ Delete 120 1750 [0; 1] :: ex_ops2)) minInt64 maxInt64 [0; 1]
    = [(0, [(-1500, [1]); (2700, [8])]); (1, [(1800, [7])])] /\
  spec_query (spec_run (map spec_of_op ex_ops1)) minInt64 maxInt64 [0; 1]
    = [(0, [(-1500, [1]); (900, [3]); (1700, [6]); (2700, [8])]); (1, [(150, [2]); (400, [5]); (950, [4]); (1800, [7])])].
Proof.
  split; [exact ex_wf|]. split; [exact ex_maint|]. split; [exact ex_dead_covered|].
  split; [exact (proj1 ex_answer)|]. vm_compute. reflexivity.
Qed.

(* ------------------------------------------------------------------ *)
(** * No resurrection, lifted to the structured model for ARBITRARY later operations *)

Lemma answer_equiv_in a b (i : sid) pts :
  answer_equiv a b -> In (i, pts) a -> exists pts', In (i, pts') b /\ pts_equiv pts pts'.
Proof.
  unfold answer_equiv. intros H. induction H as [|p q a b [Hf Hp] _ IH]; intros Hin; [inversion Hin|].
  destruct Hin as [E|Hin].
  - subst p. destruct q as [j pts']. cbn in Hf, Hp. subst j. exists pts'. split; [left; reflexivity|exact Hp].
  - destruct (IH Hin) as [pts' [Hin' He]]. exists pts'. split; [right; exact Hin'|exact He].
Qed.

Lemma pts_equiv_in a b (t : Z) vs :
  pts_equiv a b -> In (t, vs) a -> exists vs', In (t, vs') b /\ forall v, In v vs <-> In v vs'.
Proof.
  unfold pts_equiv. intros H. induction H as [|p q a b [Hf Hv] _ IH]; intros Hin; [inversion Hin|].
  destruct Hin as [E|Hin].
  - subst p. destruct q as [u vs']. cbn in Hf, Hv. subst u. exists vs'. split; [left; reflexivity|exact Hv].
  - destruct (IH Hin) as [vs' [Hin' He]]. exists vs'. split; [right; exact Hin'|exact He].
Qed.

Lemma acked_in_map_commit (ops : list op) i x :
  acked_in (map spec_of_op ops) i x ->
  exists l lg f, In (Commit l lg f) ops /\ In (i, x) (map (fun a => (fst (fst a), snd (fst a))) l).
Proof.
  intros [l [Hin Hx]]. apply in_map_iff in Hin. destruct Hin as [o [Ho Hin]].
  destruct o as [l0 lg f|mi ma se| | | |rl|pend]; cbn in Ho; try discriminate.
  inversion Ho; subst l. exists l0, lg, f. split; assumption.
Qed.

Lemma no_resurrection_history_partial : forall (c : cfg) (ops1 ops2 : list op) mint maxt sel,
  wf_cfg c -> wf_ops c state0 (ops1 ++ Delete mint maxt sel :: ops2) ->
  dead_covered (run c (ops1 ++ Delete mint maxt sel :: ops2)) ->
  forall qmin qmax qsel i pts t vs v,
    In (i, pts) (query (run c (ops1 ++ Delete mint maxt sel :: ops2)) qmin qmax qsel) ->
    In i sel -> In (t, vs) pts -> mint <= t <= maxt -> In v vs ->
    exists l lg f, In (Commit l lg f) ops2 /\ In (i, mkS t v) (map (fun a => (fst (fst a), snd (fst a))) l).
Proof.
  intros c ops1 ops2 mint maxt sel Hw Hwf Hdc qmin qmax qsel i pts t vs v Hin Hsel Hpt Hr Hv.
  pose proof (refinement_partial c _ Hw Hwf Hdc qmin qmax qsel) as He.
  destruct (answer_equiv_in _ _ i pts He Hin) as [pts' [Hin' Hpe]].
  destruct (pts_equiv_in _ _ t vs Hpe Hpt) as [vs' [Hpt' Hvs]].
  destruct (spec_query_exact _ _ _ _ _ _ Hin') as (_ & _ & _ & Hex & _).
  destruct (Hex t vs' Hpt') as (_ & _ & Hlive).
  assert (Hx : In (mkS t v) (spec_run (map spec_of_op (ops1 ++ Delete mint maxt sel :: ops2)) i)).
  { apply Hlive, Hvs, Hv. }
  rewrite map_app in Hx. cbn [map spec_of_op] in Hx.
  apply acked_in_map_commit.
  exact (no_resurrection_spec _ _ mint maxt sel i (mkS t v) Hx Hsel Hr).
Qed.

(* ------------------------------------------------------------------ *)
(** * The hypothesis dead_covered cannot be dropped: a FINDING on the code as it is.
    Series 1 has -707, -498, 0 in ONE head chunk (rangeForTimestamp(-707) = 1000 by truncating
    division, so the chunk straddles 0); Delete(-707,-707); the head compaction writes block
    [-1000,0) without -707, truncates the head to 0, Head.gc drops the tombstone
    (MemTombstones.TruncateBefore(0)) but keeps the chunk, and the head querier (no floor at
    Head.MinTime) returns -707 again.  Replayed on the real tsdb.DB by the harness
    (C20_FINDINGS=1, corpus finding-head-compaction-resurrects-deleted-sample...). *)
Definition rf_cfg : cfg := mkCfg 1000 0 [0; 1].
Definition rf_ops1 : list op :=
  [ cmc [0] [io 0 (-1000) 1]; cmc [1] [io 1 (-707) 2]; cm [io 1 (-498) 3; io 1 0 4]; cm [io 0 503 5] ].
Definition rf_ops2 : list op := [ Compact ].

Lemma rf_wf : wf_cfg rf_cfg /\ wf_ops rf_cfg state0 (rf_ops1 ++ Delete (-707) (-707) [1] :: rf_ops2).
Proof.
  split; [unfold wf_cfg; cbn; lia|].
  unfold rf_ops1, rf_ops2. cbn [app wf_ops wf_op].
  repeat match goal with
  | |- _ /\ _ => split
  | |- True => exact I
  end;
  try (vm_compute; repeat split; auto; try lia; try discriminate; intuition congruence).
  all: try (intros i y [<-|[]] Hy; vm_compute in Hy; contradiction).
Qed.

Lemma delete_history_refuted :
  exists (c : cfg) (ops1 ops2 : list op) mint maxt sel,
    wf_cfg c /\ wf_ops c state0 (ops1 ++ Delete mint maxt sel :: ops2) /\ forallb is_maint ops2 = true /\
    ~ answer_equiv (query (run c (ops1 ++ Delete mint maxt sel :: ops2)) minInt64 maxInt64 [0; 1])
                   (del_answer mint maxt sel (spec_query (spec_run (map spec_of_op ops1)) minInt64 maxInt64 [0; 1])).
Proof.
  exists rf_cfg, rf_ops1, rf_ops2, (-707), (-707), [1].
  destruct rf_wf as [Hw Hwf]. split; [exact Hw|]. split; [exact Hwf|]. split; [reflexivity|].
  intros H. apply answer_equiv_shape in H. vm_compute in H. discriminate.
Qed.

Lemma rf_detail :
  shape (query (run rf_cfg (rf_ops1 ++ Delete (-707) (-707) [1] :: rf_ops2)) minInt64 maxInt64 [0; 1])
    = [(0, [-1000; 503]); (1, [-707; -498; 0])] /\
  shape (query (run rf_cfg (rf_ops1 ++ [Delete (-707) (-707) [1]])) minInt64 maxInt64 [0; 1])
    = [(0, [-1000; 503]); (1, [-498; 0])].
Proof. vm_compute. split; reflexivity. Qed.

(* proof/LabelsXCompare.v — Compare of the stringlabels build (first differing byte, then a walk
   over the length-prefixed fields) equals the entry-wise Compare of slicelabels/dedupelabels. *)
From Coq Require Import List ZArith Bool Lia.
From Verif Require Import model.LabelsX proof.LabelsXProofs.
Import ListNotations.
Open Scope Z_scope.

Fixpoint flat (ls : list label) : list str := match ls with [] => [] | (n, v) :: t => n :: v :: flat t end.
Definition encf (fs : list str) : str := flat_map enc_str fs.
Fixpoint fcmp (a b : list str) : Z :=
  match a, b with
  | [], [] => 0
  | [], _ :: _ => -1
  | _ :: _, [] => 1
  | x :: a', y :: b' => match str_cmp x y with Lt => -1 | Gt => 1 | Eq => fcmp a' b' end
  end.
Definition fshort (fs : list str) : Prop := Forall short fs.

Lemma enc_flat ls : enc ls = encf (flat ls).
Proof.
  induction ls as [|[n v] t IH]; auto. rewrite enc_cons. cbn [fst snd flat]. unfold encf in *. simpl.
  rewrite IH. reflexivity.
Qed.
Lemma flat_short ls : all_short ls -> fshort (flat ls).
Proof. induction 1 as [|[n v] t [H1 H2] _ IH]; simpl; repeat (constructor; auto). Qed.

Lemma zlen_cons {A} (x : A) l : zlen (x :: l) = 1 + zlen l.
Proof. unfold zlen. simpl length. lia. Qed.
Lemma zlen_app {A} (a b : list A) : zlen (a ++ b) = zlen a + zlen b.
Proof. unfold zlen. rewrite app_length. lia. Qed.
Lemma zlen_nil {A} : zlen (@nil A) = 0.
Proof. reflexivity. Qed.

Lemma cp_bounds a : forall b, 0 <= common_prefix a b /\ common_prefix a b <= zlen a /\ common_prefix a b <= zlen b.
Proof.
  induction a as [|x a IH]; intros [|y b]; cbn [common_prefix]; rewrite ?zlen_cons, ?(@zlen_nil Z);
    try (pose proof (zlen_nonneg a)); try (pose proof (zlen_nonneg b)); try lia.
  destruct (x =? y); [specialize (IH b)|]; lia.
Qed.
Lemma cp_app p a b : common_prefix (p ++ a) (p ++ b) = zlen p + common_prefix a b.
Proof. induction p as [|c p IH]; cbn [app common_prefix]; [rewrite (@zlen_nil Z); lia|]. rewrite Z.eqb_refl, IH, zlen_cons. lia. Qed.
Lemma cp_sym a : forall b, common_prefix a b = common_prefix b a.
Proof. induction a as [|x a IH]; intros [|y b]; simpl; auto. rewrite (Z.eqb_sym y x). destruct (x =? y); auto. rewrite IH. auto. Qed.
Lemma cp_prefix p : forall a' b, zlen p <= common_prefix (p ++ a') b -> exists b', b = p ++ b'.
Proof.
  induction p as [|c p IH]; intros a' b H; [exists b; auto|].
  destruct b as [|y b]; cbn [app common_prefix] in H; rewrite zlen_cons in H; [pose proof (zlen_nonneg p); lia|].
  destruct (Z.eqb_spec c y); [|pose proof (zlen_nonneg p); lia]. subst.
  destruct (IH a' b) as (b' & ->); [lia|]. exists b'. auto.
Qed.

(* prefix-freeness of the field encoding: two different fields differ before either ends *)
Lemma cp_fields_ne x y A B : short x -> short y -> x <> y ->
  common_prefix (enc_str x ++ A) (enc_str y ++ B) < zlen (enc_str x).
Proof.
  intros Hx Hy Hne. destruct (Z.lt_ge_cases (common_prefix (enc_str x ++ A) (enc_str y ++ B)) (zlen (enc_str x))); auto.
  destruct (cp_prefix (enc_str x) A (enc_str y ++ B)) as (b' & E); auto.
  pose proof (decode_string_enc y B Hy) as D1. rewrite E in D1. rewrite decode_string_enc in D1 by auto. congruence.
Qed.

Lemma encf_cons x fs : encf (x :: fs) = enc_str x ++ encf fs.
Proof. reflexivity. Qed.
Lemma enc_str_zlen x : 1 <= zlen (enc_str x).
Proof. pose proof (enc_str_length x). unfold zlen. lia. Qed.

Lemma str_cmp_eq_iff x y : str_cmp x y = Eq <-> x = y.
Proof. split; [apply str_cmp_eq | intros ->; apply str_cmp_refl]. Qed.

(* the branch "one data string is a prefix of the other" *)
Lemma top_branch fa : forall fb, fshort fa -> fshort fb ->
  common_prefix (encf fa) (encf fb) = Z.min (zlen (encf fa)) (zlen (encf fb)) ->
  sgn (zlen (encf fa) - zlen (encf fb)) = fcmp fa fb.
Proof.
  induction fa as [|x fa IH]; intros [|y fb] Ha Hb H.
  - reflexivity.
  - rewrite encf_cons, zlen_app. cbn [encf flat_map fcmp]. rewrite (@zlen_nil Z).
    pose proof (enc_str_zlen y). pose proof (zlen_nonneg (encf fb)).
    destruct (0 - (zlen (enc_str y) + zlen (encf fb))) eqn:E; try lia. reflexivity.
  - rewrite encf_cons, zlen_app. cbn [encf flat_map fcmp]. rewrite (@zlen_nil Z).
    pose proof (enc_str_zlen x). pose proof (zlen_nonneg (encf fa)).
    destruct (zlen (enc_str x) + zlen (encf fa) - 0) eqn:E; try lia. reflexivity.
  - inversion Ha; inversion Hb; subst. rewrite !encf_cons in *. rewrite !zlen_app in *. cbn [fcmp].
    destruct (str_cmp x y) eqn:C.
    + apply str_cmp_eq in C. subst y. rewrite cp_app in H.
      replace (zlen (enc_str x) + zlen (encf fa) - (zlen (enc_str x) + zlen (encf fb))) with (zlen (encf fa) - zlen (encf fb)) by lia.
      apply IH; auto. lia.
    + exfalso. assert (x <> y) as Hne by (intros ->; rewrite str_cmp_refl in C; discriminate).
      pose proof (cp_fields_ne x y (encf fa) (encf fb) H2 H6 Hne).
      pose proof (cp_fields_ne y x (encf fb) (encf fa) H6 H2 (fun e => Hne (eq_sym e))) as S. rewrite cp_sym in S.
      pose proof (zlen_nonneg (encf fa)). pose proof (zlen_nonneg (encf fb)). lia.
    + exfalso. assert (x <> y) as Hne by (intros ->; rewrite str_cmp_refl in C; discriminate).
      pose proof (cp_fields_ne x y (encf fa) (encf fb) H2 H6 Hne).
      pose proof (cp_fields_ne y x (encf fb) (encf fa) H6 H2 (fun e => Hne (eq_sym e))) as S. rewrite cp_sym in S.
      pose proof (zlen_nonneg (encf fa)). pose proof (zlen_nonneg (encf fb)). lia.
Qed.

(* the field walk *)
Lemma walk_branch fa : forall fb fuel, fshort fa -> fshort fb -> (length fa < fuel)%nat ->
  common_prefix (encf fa) (encf fb) <> Z.min (zlen (encf fa)) (zlen (encf fb)) ->
  st_cmp_walk fuel (encf fa) (encf fb) (common_prefix (encf fa) (encf fb)) = Ok (fcmp fa fb).
Proof.
  induction fa as [|x fa IH]; intros [|y fb] fuel Ha Hb Hf H.
  - exfalso. apply H. reflexivity.
  - exfalso. apply H. change (encf []) with (@nil Z). cbn [common_prefix]. rewrite (@zlen_nil Z).
    pose proof (zlen_nonneg (encf (y :: fb))). lia.
  - exfalso. apply H. change (encf []) with (@nil Z). rewrite (@zlen_nil Z). pose proof (zlen_nonneg (encf (x :: fa))).
    destruct (cp_bounds (encf (x :: fa)) []) as (B1 & B2 & B3). rewrite (@zlen_nil Z) in B3. lia.
  - inversion Ha; inversion Hb; subst. destruct fuel as [|f]; [simpl in Hf; lia|].
    rewrite !encf_cons in *. cbn [st_cmp_walk fcmp].
    unfold enc_str at 1. rewrite <- app_assoc. pose proof (zlen_nonneg x).
    rewrite decode_size_esz by (unfold short, two24 in *; lia). cbn [bind].
    replace (zlen (enc_str x ++ encf fa) - zlen (x ++ encf fa) + zlen x) with (zlen (enc_str x))
      by (unfold enc_str; rewrite !zlen_app; lia).
    destruct (str_cmp x y) eqn:C.
    + apply str_cmp_eq in C. subst y. rewrite cp_app in *. rewrite !zlen_app in H.
      destruct (Z.leb_spec (zlen (enc_str x)) (zlen (enc_str x) + common_prefix (encf fa) (encf fb)));
        [|destruct (cp_bounds (encf fa) (encf fb)); lia].
      rewrite !skip_app.
      replace (zlen (enc_str x) + common_prefix (encf fa) (encf fb) - zlen (enc_str x)) with (common_prefix (encf fa) (encf fb)) by lia.
      apply IH; auto; [simpl in Hf; lia | lia].
    + assert (x <> y) as Hne by (intros ->; rewrite str_cmp_refl in C; discriminate).
      pose proof (cp_fields_ne x y (encf fa) (encf fb) H2 H6 Hne) as Hlt.
      destruct (Z.leb_spec (zlen (enc_str x)) (common_prefix (enc_str x ++ encf fa) (enc_str y ++ encf fb))); [lia|].
      rewrite !decode_string_enc by auto. cbn [bind]. unfold str_ltb. rewrite C. reflexivity.
    + assert (x <> y) as Hne by (intros ->; rewrite str_cmp_refl in C; discriminate).
      pose proof (cp_fields_ne x y (encf fa) (encf fb) H2 H6 Hne) as Hlt.
      destruct (Z.leb_spec (zlen (enc_str x)) (common_prefix (enc_str x ++ encf fa) (enc_str y ++ encf fb))); [lia|].
      rewrite !decode_string_enc by auto. cbn [bind]. unfold str_ltb. rewrite C. reflexivity.
Qed.

Lemma encf_length fs : (length fs <= length (encf fs))%nat.
Proof. induction fs as [|x t IH]; simpl; auto. rewrite app_length. pose proof (enc_str_length x). lia. Qed.

Lemma fcmp_sgn a : forall b, sgn (fcmp a b) = fcmp a b.
Proof. induction a as [|x a IH]; intros [|y b]; simpl; auto. destruct (str_cmp x y); auto. Qed.

Lemma st_compare_fields fa fb : fshort fa -> fshort fb ->
  exists c, st_compare (encf fa) (encf fb) = Ok c /\ sgn c = fcmp fa fb.
Proof.
  intros Ha Hb. unfold st_compare.
  destruct (Z.eqb_spec (common_prefix (encf fa) (encf fb)) (Z.min (zlen (encf fa)) (zlen (encf fb)))) as [E|E].
  - eexists. split; [reflexivity|]. rewrite (top_branch fa fb Ha Hb E). apply fcmp_sgn.
  - eexists. split; [apply walk_branch; auto; pose proof (encf_length fa); lia|]. apply fcmp_sgn.
Qed.

Lemma sl_compare_flat la : forall lb, sgn (sl_compare la lb) = fcmp (flat la) (flat lb).
Proof.
  induction la as [|[an av] la IH]; intros [|[bn bv] lb]; cbn [sl_compare flat fcmp].
  - reflexivity.
  - rewrite (@zlen_nil label), zlen_cons. pose proof (zlen_nonneg lb). destruct (0 - (1 + zlen lb)) eqn:E; try lia. reflexivity.
  - rewrite (@zlen_nil label), zlen_cons. pose proof (zlen_nonneg la). destruct (1 + zlen la - 0) eqn:E; try lia. reflexivity.
  - unfold str_eqb, str_ltb. destruct (str_cmp an bn); simpl; auto. destruct (str_cmp av bv); simpl; auto.
Qed.

(* Compare of the stringlabels build = Compare of the slicelabels build, on all label lists *)
Lemma compare_string_slice la lb : all_short la -> all_short lb ->
  l_compare I_string (enc la) (enc lb) = l_compare I_slice la lb.
Proof.
  intros Ha Hb. cbn [l_compare I_string I_slice]. rewrite !enc_flat.
  destruct (st_compare_fields (flat la) (flat lb) (flat_short _ Ha) (flat_short _ Hb)) as (c & -> & S).
  cbn [bind]. rewrite S, <- sl_compare_flat. reflexivity.
Qed.

(* Equal of the stringlabels build (string equality of the data) = Equal of slicelabels *)
Lemma zlist_eqb_eq a : forall b, list_eqb Z.eqb a b = true <-> a = b.
Proof.
  induction a as [|x a IH]; intros [|y b]; simpl; split; try discriminate; auto.
  - intros H. apply andb_prop in H. destruct H as [H1 H2]. apply Z.eqb_eq in H1. apply IH in H2. subst. auto.
  - intros E. inversion E; subst. rewrite Z.eqb_refl. apply IH. auto.
Qed.
Lemma labels_eqb_eq a : forall b, labels_eqb a b = true <-> a = b.
Proof.
  unfold labels_eqb. induction a as [|[n v] a IH]; intros [|[m w] b]; simpl; split; try discriminate; auto.
  - intros H. apply andb_prop in H. destruct H as [H1 H2]. unfold label_eqb in H1. cbn [fst snd] in H1.
    apply andb_prop in H1. destruct H1 as [E1 E2]. apply str_eqb_eq in E1, E2. apply IH in H2. subst. auto.
  - intros E. inversion E; subst. unfold label_eqb. cbn [fst snd]. rewrite !str_eqb_refl. apply IH. auto.
Qed.
Lemma equal_string_slice la lb : all_short la -> all_short lb ->
  l_equal I_string (enc la) (enc lb) = l_equal I_slice la lb.
Proof.
  intros Ha Hb. cbn [l_equal I_string I_slice]. f_equal.
  destruct (labels_eqb la lb) eqn:E.
  - apply labels_eqb_eq in E. subst. apply zlist_eqb_eq. auto.
  - destruct (list_eqb Z.eqb (enc la) (enc lb)) eqn:E2; auto.
    apply zlist_eqb_eq in E2. apply enc_inj in E2; auto. subst. 
    assert (labels_eqb lb lb = true) by (apply labels_eqb_eq; auto). congruence.
Qed.

(* Compare is a total order consistent with Equal (entry level) *)
Lemma fcmp_zero a : forall b, fcmp a b = 0 <-> a = b.
Proof.
  induction a as [|x a IH]; intros [|y b]; simpl; split; try discriminate; auto.
  - destruct (str_cmp x y) eqn:C; try discriminate. intros H. apply str_cmp_eq in C. apply IH in H. subst. auto.
  - intros E. inversion E; subst. rewrite str_cmp_refl. apply IH. auto.
Qed.
Lemma flat_inj a : forall b, flat a = flat b -> a = b.
Proof.
  induction a as [|[n v] a IH]; intros [|[m w] b] H; simpl in H; try discriminate; auto.
  inversion H; subst. f_equal. auto.
Qed.
Lemma compare_zero_iff_equal la lb : sgn (sl_compare la lb) = 0 <-> la = lb.
Proof.
  rewrite sl_compare_flat, fcmp_zero. split; [apply flat_inj | intros ->; auto].
Qed.
Lemma fcmp_antisym a : forall b, fcmp b a = - fcmp a b.
Proof.
  induction a as [|x a IH]; intros [|y b]; simpl; auto.
  rewrite (str_cmp_antisym x y). destruct (str_cmp x y); simpl; auto.
Qed.
Lemma compare_antisym la lb : sgn (sl_compare lb la) = - sgn (sl_compare la lb).
Proof. rewrite !sl_compare_flat. apply fcmp_antisym. Qed.

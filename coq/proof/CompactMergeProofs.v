(* proof/CompactMergeProofs.v — proofs for C07 (model/CompactMerge.v).
   Built on proof/IntervalsProofs.v (C20: Intervals.Add) and proof/MergeProofs.v (C19: k-way
   series-set merge, compacting chunk merger). *)
From Coq Require Import List ZArith Bool Lia Sorted Permutation.
From Verif Require Import lib.Int64 model.Intervals proof.IntervalsProofs model.Merge proof.MergeProofs
     model.CompactMerge.
Import ListNotations.
Open Scope Z_scope.

(* ------------------------------------------------------------------ small list facts *)
Lemma filter_all {A} (p : A -> bool) l : (forall x, In x l -> p x = true) -> filter p l = l.
Proof.
  induction l as [|a l IH]; simpl; intros H; [reflexivity|].
  rewrite (H a (or_introl eq_refl)). f_equal. apply IH. intros x Hx. apply H. right. exact Hx.
Qed.

Lemma filter_none {A} (p : A -> bool) l : (forall x, In x l -> p x = false) -> filter p l = [].
Proof.
  induction l as [|a l IH]; simpl; intros H; [reflexivity|].
  rewrite (H a (or_introl eq_refl)). apply IH. intros x Hx. apply H. right. exact Hx.
Qed.

Lemma ssorted_filter p l : ssorted l -> ssorted (filter p l).
Proof.
  unfold ssorted. induction 1 as [|a l Hs IH Hf]; simpl; [constructor|].
  destruct (p a); [|exact IH]. constructor; [exact IH|].
  rewrite Forall_forall in *. intros x Hx. apply filter_In in Hx as [Hx _]. apply Hf, Hx.
Qed.

Lemma last_cons {A} : forall (r : list A) a s, last (a :: r) s = last r a.
Proof.
  induction r as [|b r IH]; intros a s; [reflexivity|].
  change (last (a :: b :: r) s) with (last (b :: r) s). rewrite (IH b s), (IH b a). reflexivity.
Qed.

Lemma last_in {A} : forall (r : list A) s, In (last r s) (s :: r).
Proof.
  induction r as [|a r IH]; intros s; [left; reflexivity|].
  rewrite last_cons. right. apply IH.
Qed.

Lemma ssorted_head_last : forall r s, ssorted (s :: r) ->
  forall x, In x (s :: r) -> s_t s <= s_t x <= s_t (last r s).
Proof.
  induction r as [|a r IH]; intros s Hs x Hx.
  - destruct Hx as [<-|[]]. simpl. lia.
  - inversion Hs as [|? ? Hs' Hf]; subst. rewrite Forall_forall in Hf.
    assert (Ha : s_t s < s_t a) by (apply Hf; left; reflexivity).
    rewrite last_cons. destruct Hx as [<-|Hx].
    + pose proof (IH a Hs' a (or_introl eq_refl)). lia.
    + pose proof (IH a Hs' x Hx). lia.
Qed.

(* ------------------------------------------------------------------ intervals *)
Lemma coveredb_spec ivs t : coveredb ivs t = true <-> covered ivs t.
Proof.
  unfold coveredb, covered. rewrite existsb_exists, Exists_exists.
  split; intros [i [Hi H]]; exists i; (split; [exact Hi|]).
  - apply andb_true_iff in H as [H1 H2]. apply Z.leb_le in H1, H2. lia.
  - apply andb_true_iff. rewrite !Z.leb_le. lia.
Qed.

Lemma coveredb_false ivs t : coveredb ivs t = false <-> ~ covered ivs t.
Proof. rewrite <- coveredb_spec. destruct (coveredb ivs t); split; intros; congruence. Qed.

Lemma coveredb_ext a b t : (covered a t <-> covered b t) -> coveredb a t = coveredb b t.
Proof.
  intros H. destruct (coveredb a t) eqn:Ha, (coveredb b t) eqn:Hb; try reflexivity.
  - apply coveredb_spec, H, coveredb_spec in Ha. congruence.
  - apply coveredb_spec, H, coveredb_spec in Hb. congruence.
Qed.

Lemma in_bounds_spec i t : in_bounds i t = true <-> imin i <= t <= imax i.
Proof. unfold in_bounds. rewrite andb_true_iff, !Z.leb_le. tauto. Qed.

(* DeletedIterator.Next over canonical intervals and time-sorted samples = filter *)
Lemma del_check_spec ts : forall ivs, canonS ivs ->
  fst (del_check ts ivs) = negb (coveredb ivs ts) /\ canonS (snd (del_check ts ivs)) /\
  (forall t, ts <= t -> coveredb (snd (del_check ts ivs)) t = coveredb ivs t).
Proof.
  induction ivs as [|tr r IH]; intros Hc.
  - simpl. split; [reflexivity|]. split; [exact I|]. reflexivity.
  - cbn [del_check]. cbn [canonS] in Hc. destruct Hc as (Hw & Hlt & Hr).
    destruct (in_bounds tr ts) eqn:Hb.
    + cbn [fst snd]. split; [|split; [cbn [canonS]; tauto|reflexivity]].
      apply in_bounds_spec in Hb. symmetry. apply negb_false_iff, coveredb_spec. left. exact Hb.
    + destruct (ts <=? imax tr) eqn:Hle.
      * cbn [fst snd]. split; [|split; [cbn [canonS]; tauto|reflexivity]].
        symmetry. apply negb_true_iff, coveredb_false. intros Hcov.
        apply Z.leb_le in Hle.
        assert (Hnb : ~ (imin tr <= ts <= imax tr)).
        { intros X. apply in_bounds_spec in X. congruence. }
        inversion Hcov as [? ? Hx|? ? Hx]; subst; [tauto|].
        apply Exists_exists in Hx as [i [Hi Hin]]. rewrite Forall_forall in Hlt.
        specialize (Hlt i Hi). unfold lt_iv in Hlt. lia.
      * destruct (IH Hr) as (H1 & H2 & H3). apply Z.leb_gt in Hle.
        split; [|split; [exact H2|]].
        -- rewrite H1. f_equal. apply coveredb_ext. split; intros Hcov; [right; exact Hcov|].
           inversion Hcov as [? ? Hx|? ? Hx]; subst; [lia|exact Hx].
        -- intros t Ht. rewrite (H3 t Ht). apply coveredb_ext. split; intros Hcov; [right; exact Hcov|].
           inversion Hcov as [? ? Hx|? ? Hx]; subst; [lia|exact Hx].
Qed.

Lemma del_filter_spec : forall l ivs, canonS ivs -> ssorted l ->
  del_filter ivs l = filter (fun s => negb (coveredb ivs (s_t s))) l.
Proof.
  induction l as [|s r IH]; intros ivs Hc Hs; [reflexivity|].
  cbn [del_filter filter]. destruct (del_check_spec (s_t s) ivs Hc) as (H1 & H2 & H3).
  destruct (del_check (s_t s) ivs) as [keep ivs'] eqn:E. cbn [fst snd] in *.
  inversion Hs as [|? ? Hs' Hf]; subst. rewrite Forall_forall in Hf.
  assert (Hr : del_filter ivs' r = filter (fun x => negb (coveredb ivs (s_t x))) r).
  { rewrite (IH ivs' H2 Hs'). apply filter_ext_in. intros x Hx. f_equal. apply H3.
    specialize (Hf x Hx). lia. }
  rewrite Hr. destruct (coveredb ivs (s_t s)); reflexivity.
Qed.

(* ------------------------------------------------------------------ one chunk *)
Definition kinds_uniform (c : chunk) : Prop :=
  forall x y, In x (c_smp c) -> In y (c_smp c) -> s_k x = s_k y.

Definition live (ivs : list interval) (s : sample) : bool := negb (coveredb ivs (s_t s)).

Lemma canonS_filter p ivs : canonS ivs -> canonS (filter p ivs).
Proof.
  induction ivs as [|a r IH]; simpl; intros H; [exact I|]. destruct H as (Hw & Hf & Hr).
  destruct (p a); [|apply IH, Hr]. cbn [canonS]. split; [exact Hw|]. split; [|apply IH, Hr].
  rewrite Forall_forall in *. intros x Hx. apply filter_In in Hx as [Hx _]. apply Hf, Hx.
Qed.

(* the intervals that overlap the chunk decide the same samples as all intervals *)
Lemma overlap_cover ivs c r : cb c ->
  (forall t, covered r t <-> Exists (fun n => imin n <= t <= imax n) (filter (overlaps_closed c) ivs)) ->
  forall x, In x (c_smp c) -> coveredb r (s_t x) = coveredb ivs (s_t x).
Proof.
  intros Hcb Hr x Hx. apply coveredb_ext. rewrite Hr. unfold covered.
  pose proof (cb_bounds c Hcb x Hx) as Hb.
  rewrite !Exists_exists. split; intros [i [Hi Hin]].
  - apply filter_In in Hi as [Hi _]. exists i. split; assumption.
  - exists i. split; [|exact Hin]. apply filter_In. split; [exact Hi|].
    unfold overlaps_closed. apply andb_true_iff. rewrite !Z.leb_le. lia.
Qed.

Lemma del_chunk_spec ivs c : canonS ivs -> cb c -> kinds_uniform c ->
  (filter (live ivs) (c_smp c) = [] /\ del_chunk ivs c = Some None) \/
  (exists c', del_chunk ivs c = Some (Some c') /\ c_smp c' = filter (live ivs) (c_smp c) /\
              cb c' /\ kinds_uniform c' /\ c_min c <= c_min c' /\ c_max c' <= c_max c).
Proof.
  intros Hc Hcb Hu. unfold del_chunk.
  set (ov := filter (overlaps_closed c) ivs).
  assert (Hwf : Forall wf_iv ov).
  { apply Forall_forall. intros i Hi. apply filter_In in Hi as [Hi _]. eapply canonS_wf; eauto. }
  destruct (adds_reachable ov Hwf) as (r & Hfold & Hcr & Hcov). rewrite Hfold.
  pose proof (overlap_cover ivs c r Hcb Hcov) as Heq.
  destruct r as [|i0 r0].
  - right. exists c. split; [reflexivity|]. split; [|split; [exact Hcb|split; [exact Hu|lia]]].
    symmetry. apply filter_all. intros x Hx. unfold live. rewrite <- (Heq x Hx). reflexivity.
  - set (r := i0 :: r0) in *.
    assert (Hdf : del_filter r (c_smp c) = filter (live ivs) (c_smp c)).
    { rewrite del_filter_spec; [|apply canonical_canonS; exact Hcr|apply cb_sorted; exact Hcb].
      apply filter_ext_in. intros x Hx. unfold live. rewrite (Heq x Hx). reflexivity. }
    rewrite Hdf. destruct (filter (live ivs) (c_smp c)) as [|s k] eqn:Hk.
    + left. split; reflexivity.
    + right.
      assert (Hsub : forall x, In x (s :: k) -> In x (c_smp c)).
      { intros x Hx. rewrite <- Hk in Hx. apply filter_In in Hx as [Hx _]. exact Hx. }
      assert (Hall : forallb (fun x => s_k x =? s_k s) k = true).
      { apply forallb_forall. intros x Hx. apply Z.eqb_eq. apply Hu; apply Hsub; [right; exact Hx|left; reflexivity]. }
      rewrite Hall. eexists. split; [reflexivity|]. cbn [c_smp c_min c_max].
      assert (Hss : ssorted (s :: k)).
      { rewrite <- Hk. apply ssorted_filter, cb_sorted, Hcb. }
      split; [reflexivity|]. split; [|split].
      * constructor; cbn [c_smp c_min c_max].
        -- discriminate.
        -- exact Hss.
        -- apply ssorted_head_last, Hss.
        -- exists s. split; [left; reflexivity|reflexivity].
        -- exists (last k s). split; [apply last_in|reflexivity].
      * intros x y Hx Hy. cbn [c_smp] in *. apply Hu; apply Hsub; assumption.
      * pose proof (cb_bounds c Hcb s (Hsub s (or_introl eq_refl))).
        pose proof (cb_bounds c Hcb (last k s) (Hsub _ (last_in k s))). lia.
Qed.

Lemma smps_nil : smps [] = []. Proof. reflexivity. Qed.

Lemma del_chunks_spec ivs : canonS ivs -> forall cs, Forall cb cs -> cdisj cs -> Forall kinds_uniform cs ->
  exists out, del_chunks ivs cs = Some out /\ Forall cb out /\ cdisj out /\ Forall kinds_uniform out /\
    smps out = filter (live ivs) (smps cs) /\
    (forall c', In c' out -> exists c, In c cs /\ c_min c <= c_min c' /\ c_max c' <= c_max c).
Proof.
  intros Hc. induction cs as [|c r IH]; intros Hcb Hd Hu.
  - exists []. simpl. repeat split; try constructor. intros c' [].
  - inversion Hcb as [|? ? Hcb1 Hcb2]; subst. inversion Hd as [|? ? Hd2 Hd1]; subst.
    inversion Hu as [|? ? Hu1 Hu2]; subst.
    destruct (IH Hcb2 Hd2 Hu2) as (out & He & Ho1 & Ho2 & Ho3 & Ho4 & Ho5).
    cbn [del_chunks]. rewrite He. rewrite smps_cons, filter_app.
    destruct (del_chunk_spec ivs c Hc Hcb1 Hu1) as [[Hk Hdc]|(c' & Hdc & Hs & Hcb' & Hu' & Hmin & Hmax)]; rewrite Hdc.
    + exists out. rewrite Hk. cbn [app]. repeat split; try assumption.
      intros c' Hc'. destruct (Ho5 c' Hc') as (c0 & Hc0 & Hb). exists c0. split; [right; exact Hc0|exact Hb].
    + exists (c' :: out). split; [reflexivity|]. split; [constructor; assumption|].
      split; [|split; [constructor; assumption|split]].
      * constructor; [exact Ho2|]. apply Forall_forall. intros d Hdin.
        destruct (Ho5 d Hdin) as (c0 & Hc0 & Hb1 & Hb2). rewrite Forall_forall in Hd1.
        specialize (Hd1 c0 Hc0). lia.
      * rewrite smps_cons, Hs, Ho4. reflexivity.
      * intros d [<-|Hdin]; [exists c; split; [left; reflexivity|lia]|].
        destruct (Ho5 d Hdin) as (c0 & Hc0 & Hb). exists c0. split; [right; exact Hc0|exact Hb].
Qed.

(* ------------------------------------------------------------------ one series of a block *)
Record series_wf (s : bseries) : Prop := mkSW {
  sw_cb : Forall cb (bs_chunks s);
  sw_disj : cdisj (bs_chunks s);
  sw_unif : Forall kinds_uniform (bs_chunks s);
  sw_tombs : canonical (bs_tombs s);
  sw_int : forall c, In c (bs_chunks s) -> int64 (c_min c) /\ int64 (c_max c) }.

Lemma alive_spec mint maxt s x :
  alive mint maxt s x = true <-> mint <= s_t x <= maxt /\ ~ covered (bs_tombs s) (s_t x).
Proof.
  unfold alive. rewrite !andb_true_iff, !Z.leb_le, negb_true_iff, coveredb_false. tauto.
Qed.

Lemma all_smps_smps cs : all_smps cs = smps cs. Proof. reflexivity. Qed.

(* the chunks the prefilter drops hold no surviving sample *)
Lemma dropped_chunk mint maxt s c : cb c ->
  keep_chunk mint maxt (bs_tombs s) c = false -> filter (alive mint maxt s) (c_smp c) = [].
Proof.
  intros Hcb Hk. apply filter_none. intros x Hx.
  destruct (alive mint maxt s x) eqn:Ha; [|reflexivity]. exfalso.
  apply alive_spec in Ha as [Hr Hnc]. pose proof (cb_bounds c Hcb x Hx) as Hb.
  unfold keep_chunk in Hk. apply andb_false_iff in Hk as [Hk|Hk]; [apply andb_false_iff in Hk as [Hk|Hk]|].
  - apply negb_false_iff, Z.ltb_lt in Hk. lia.
  - apply negb_false_iff, Z.ltb_lt in Hk. lia.
  - apply negb_false_iff in Hk. unfold is_subrange in Hk. apply existsb_exists in Hk as [r [Hr1 Hr2]].
    apply andb_true_iff in Hr2 as [H1 H2]. apply in_bounds_spec in H1, H2.
    apply Hnc. apply Exists_exists. exists r. split; [exact Hr1|lia].
Qed.

Lemma filter_kept_smps mint maxt s cs : Forall cb cs ->
  filter (alive mint maxt s) (smps (filter (keep_chunk mint maxt (bs_tombs s)) cs)) =
  filter (alive mint maxt s) (smps cs).
Proof.
  induction cs as [|c r IH]; intros Hcb; [reflexivity|]. inversion Hcb; subst.
  cbn [filter]. destruct (keep_chunk mint maxt (bs_tombs s) c) eqn:Hk.
  - rewrite !smps_cons, !filter_app, IH by assumption. reflexivity.
  - rewrite smps_cons, filter_app, (dropped_chunk mint maxt s c) by assumption. apply IH. assumption.
Qed.

Lemma cdisj_filter p cs : cdisj cs -> cdisj (filter p cs).
Proof.
  unfold cdisj. induction 1 as [|a l Hs IH Hf]; simpl; [constructor|].
  destruct (p a); [|exact IH]. constructor; [exact IH|].
  rewrite Forall_forall in *. intros x Hx. apply filter_In in Hx as [Hx _]. apply Hf, Hx.
Qed.

Lemma Forall_filter {A} (P : A -> Prop) p l : Forall P l -> Forall P (filter p l).
Proof.
  rewrite !Forall_forall. intros H x Hx. apply filter_In in Hx as [Hx _]. apply H, Hx.
Qed.

Lemma base_series_spec mint maxt s : series_wf s -> int64 mint -> int64 maxt ->
  (base_series mint maxt s = Some None /\ filter (alive mint maxt s) (smps (bs_chunks s)) = []) \/
  (exists chks ivs, base_series mint maxt s = Some (Some (chks, ivs)) /\ canonS ivs /\
      Forall cb chks /\ cdisj chks /\ Forall kinds_uniform chks /\
      filter (live ivs) (smps chks) = filter (alive mint maxt s) (smps (bs_chunks s))).
Proof.
  intros [Hcb Hd Hu Ht Hint] Hmi Hma. unfold base_series.
  set (K := keep_chunk mint maxt (bs_tombs s)).
  pose proof (filter_kept_smps mint maxt s (bs_chunks s) Hcb) as Hkept. fold K in Hkept.
  destruct (filter K (bs_chunks s)) as [|c0 r0] eqn:Hf.
  - left. split; [reflexivity|]. rewrite <- Hkept. reflexivity.
  - right. set (chks := c0 :: r0) in *.
    assert (Hin : forall c, In c chks -> In c (bs_chunks s) /\ K c = true).
    { intros c Hc. rewrite <- Hf in Hc. apply filter_In in Hc. exact Hc. }
    set (tf := existsb (fun c => c_min c <? mint) chks).
    set (tb := existsb (fun c => maxt <? c_max c) chks).
    (* front trim *)
    assert (H1 : exists ivs1, (if tf then add (bs_tombs s) (mkI minInt64 (wrap64 (mint - 1))) else Ok (bs_tombs s)) = Ok ivs1
                 /\ canonical ivs1 /\
                 forall t, covered ivs1 t <-> covered (bs_tombs s) t \/ (tf = true /\ minInt64 <= t <= mint - 1)).
    { destruct tf eqn:Etf.
      - unfold tf in Etf. apply existsb_exists in Etf as [c [Hc Hlt]]. apply Z.ltb_lt in Hlt.
        destruct (Hin c Hc) as [Hc' _]. destruct (Hint c Hc') as [Hi1 _].
        assert (Hw : wrap64 (mint - 1) = mint - 1) by (apply wrap64_id; unfold int64 in *; lia).
        rewrite Hw.
        assert (Hwf : wf_iv (mkI minInt64 (mint - 1))).
        { unfold wf_iv, int64 in *. cbn [imin imax]. unfold minInt64, maxInt64 in *. lia. }
        destruct (add_total _ _ Ht Hwf) as (r & Hr). exists r. split; [exact Hr|].
        destruct (add_canonical _ _ _ Ht Hwf Hr) as (Hc1 & Hc2). split; [exact Hc1|].
        intros t. rewrite Hc2. cbn [imin imax]. tauto.
      - exists (bs_tombs s). split; [reflexivity|]. split; [exact Ht|]. intros t. split; [tauto|].
        intros [H|[H _]]; [exact H|discriminate]. }
    destruct H1 as (ivs1 & He1 & Hc1 & Hcov1). cbv zeta. fold tf tb. rewrite He1.
    assert (H2 : exists ivs2, (if tb then add ivs1 (mkI (wrap64 (maxt + 1)) maxInt64) else Ok ivs1) = Ok ivs2
                 /\ canonical ivs2 /\
                 forall t, covered ivs2 t <-> covered ivs1 t \/ (tb = true /\ maxt + 1 <= t <= maxInt64)).
    { destruct tb eqn:Etb.
      - unfold tb in Etb. apply existsb_exists in Etb as [c [Hc Hlt]]. apply Z.ltb_lt in Hlt.
        destruct (Hin c Hc) as [Hc' _]. destruct (Hint c Hc') as [_ Hi2].
        assert (Hw : wrap64 (maxt + 1) = maxt + 1) by (apply wrap64_id; unfold int64 in *; lia).
        rewrite Hw.
        assert (Hwf : wf_iv (mkI (maxt + 1) maxInt64)).
        { unfold wf_iv, int64 in *. cbn [imin imax]. unfold minInt64, maxInt64 in *. lia. }
        destruct (add_total _ _ Hc1 Hwf) as (r & Hr). exists r. split; [exact Hr|].
        destruct (add_canonical _ _ _ Hc1 Hwf Hr) as (Hc3 & Hc4). split; [exact Hc3|].
        intros t. rewrite Hc4. cbn [imin imax]. tauto.
      - exists ivs1. split; [reflexivity|]. split; [exact Hc1|]. intros t. split; [tauto|].
        intros [H|[H _]]; [exact H|discriminate]. }
    destruct H2 as (ivs2 & He2 & Hc2 & Hcov2). rewrite He2.
    exists chks, ivs2. split; [reflexivity|]. split; [apply canonical_canonS; exact Hc2|].
    assert (Hcbk : Forall cb chks) by (rewrite <- Hf; apply Forall_filter, Hcb).
    split; [exact Hcbk|]. split; [rewrite <- Hf; apply cdisj_filter, Hd|].
    split; [rewrite <- Hf; apply Forall_filter, Hu|].
    rewrite <- Hkept. apply filter_ext_in. intros x Hx.
    apply in_smps in Hx as [c [Hc Hxc]]. destruct (Hin c Hc) as [Hc' HK].
    rewrite Forall_forall in Hcbk. pose proof (cb_bounds c (Hcbk c Hc) x Hxc) as Hb.
    destruct (Hint c Hc') as [Hi1 Hi2].
    unfold live. destruct (alive mint maxt s x) eqn:Ha.
    + apply alive_spec in Ha as [Hr Hnc]. apply negb_true_iff, coveredb_false.
      rewrite Hcov2, Hcov1. intros [[H|[_ H]]|[_ H]]; [tauto|lia|lia].
    + apply negb_false_iff, coveredb_spec. rewrite Hcov2, Hcov1.
      destruct (coveredb (bs_tombs s) (s_t x)) eqn:Hcv; [left; left; apply coveredb_spec, Hcv|].
      apply coveredb_false in Hcv.
      assert (Hout : ~ (mint <= s_t x <= maxt)).
      { intros Hr. assert (alive mint maxt s x = true) by (apply alive_spec; tauto). congruence. }
      destruct (Z_lt_le_dec (s_t x) mint) as [Hlt|Hge].
      * left. right. split; [|unfold int64 in *; lia].
        unfold tf. apply existsb_exists. exists c. split; [exact Hc|]. apply Z.ltb_lt. lia.
      * right. split; [|unfold int64 in *; lia].
        unfold tb. apply existsb_exists. exists c. split; [exact Hc|]. apply Z.ltb_lt. lia.
Qed.

(* ------------------------------------------------------------------ the set of one block *)
Definition bsorted (ss : list bseries) : Prop := StronglySorted (fun a b => bs_l a < bs_l b) ss.
Definition csorted (set : list cseries) : Prop := StronglySorted (fun a b => fst a < fst b) set.

(* what a block's chunk series set holds for series s: chunks cs *)
Definition set_entry (mint maxt : Z) (s : bseries) (cs : list chunk) : Prop :=
  iter_ok cs /\ Forall kinds_uniform cs /\ smps cs = filter (alive mint maxt s) (smps (bs_chunks s)).

Lemma block_set_spec mint maxt : int64 mint -> int64 maxt ->
  forall ss, Forall series_wf ss -> bsorted ss ->
  exists set, block_set mint maxt ss = Some set /\ csorted set /\
    (forall l cs, In (l, cs) set -> exists s, In s ss /\ bs_l s = l /\ set_entry mint maxt s cs) /\
    (forall s, In s ss -> filter (alive mint maxt s) (smps (bs_chunks s)) <> [] ->
               exists cs, In (bs_l s, cs) set /\ set_entry mint maxt s cs).
Proof.
  intros Hmi Hma. induction ss as [|s r IH]; intros Hwf Hs.
  - exists []. simpl. split; [reflexivity|]. split; [constructor|]. split; [intros ? ? []|intros ? []].
  - inversion Hwf as [|? ? Hw1 Hw2]; subst. inversion Hs as [|? ? Hs2 Hs1]; subst.
    destruct (IH Hw2 Hs2) as (set & He & Hcs & Hsound & Hcompl). cbn [block_set]. rewrite He.
    destruct (base_series_spec mint maxt s Hw1 Hmi Hma) as [[Hb Hnil]|(chks & ivs & Hb & Hci & Hcb & Hd & Hu & Hsm)]; rewrite Hb.
    + exists set. split; [reflexivity|]. split; [exact Hcs|]. split.
      * intros l cs Hin. destruct (Hsound l cs Hin) as (s0 & Hs0 & Hrest). exists s0. split; [right; exact Hs0|exact Hrest].
      * intros s0 [<-|Hs0] Hne; [congruence|]. apply Hcompl; assumption.
    + destruct (del_chunks_spec ivs Hci chks Hcb Hd Hu) as (out & Ho & Ho1 & Ho2 & Ho3 & Ho4 & _).
      rewrite Ho. exists ((bs_l s, out) :: set). split; [reflexivity|].
      assert (Hent : set_entry mint maxt s out).
      { split; [split; assumption|]. split; [exact Ho3|]. rewrite Ho4, Hsm. reflexivity. }
      split; [|split].
      * constructor; [exact Hcs|]. apply Forall_forall. intros [l cs] Hin. cbn [fst].
        destruct (Hsound l cs Hin) as (s0 & Hs0 & Hl & _). rewrite Forall_forall in Hs1.
        specialize (Hs1 s0 Hs0). lia.
      * intros l cs [Heq|Hin].
        -- injection Heq as <- <-. exists s. split; [left; reflexivity|]. split; [reflexivity|exact Hent].
        -- destruct (Hsound l cs Hin) as (s0 & Hs0 & Hrest). exists s0. split; [right; exact Hs0|exact Hrest].
      * intros s0 [<-|Hs0] Hne.
        -- exists out. split; [left; reflexivity|exact Hent].
        -- destruct (Hcompl s0 Hs0 Hne) as (cs & Hin & Hrest). exists cs. split; [right; exact Hin|exact Hrest].
Qed.

Definition block_wf (b : block) : Prop := Forall series_wf (b_series b) /\ bsorted (b_series b).

(* sets and blocks in correspondence, position by position *)
Lemma block_sets_spec mint maxt : int64 mint -> int64 maxt ->
  forall bs, Forall block_wf bs ->
  exists sets, block_sets mint maxt bs = Some sets /\
    Forall2 (fun b set => csorted set /\
       (forall l cs, In (l, cs) set -> exists s, In s (b_series b) /\ bs_l s = l /\ set_entry mint maxt s cs) /\
       (forall s, In s (b_series b) -> filter (alive mint maxt s) (smps (bs_chunks s)) <> [] ->
                  exists cs, In (bs_l s, cs) set /\ set_entry mint maxt s cs)) bs sets.
Proof.
  intros Hmi Hma. induction bs as [|b r IH]; intros Hwf.
  - exists []. split; [reflexivity|constructor].
  - inversion Hwf as [|? ? [H1 H2] Hr]; subst. destruct (IH Hr) as (sets & He & Hf).
    destruct (block_set_spec mint maxt Hmi Hma (b_series b) H1 H2) as (set & Hs & Hrest).
    exists (set :: sets). cbn [block_sets]. rewrite Hs, He. split; [reflexivity|]. constructor; assumption.
Qed.

(* ------------------------------------------------------------------ tags and lookup *)
Definition tag (k : Z) (y : cseries) : series := mkSer (fst y) [mkS k 0 0].

Ltac tag_eq := unfold tag; do 3 f_equal; lia.

Lemma tag_sets_in : forall sets i x, In x (concat (tag_sets i sets)) <->
  exists k set y, nth_error sets k = Some set /\ In y set /\ x = tag (i + Z.of_nat k) y.
Proof.
  induction sets as [|s r IH]; intros i x.
  - simpl. split; [intros []|]. intros (k & set & y & Hn & _). destruct k; discriminate.
  - cbn [tag_sets concat]. rewrite in_app_iff, IH, in_map_iff. split.
    + intros [(y & <- & Hy)|(k & set & y & Hn & Hy & ->)].
      * exists O, s, y. split; [reflexivity|]. split; [exact Hy|]. tag_eq.
      * exists (S k), set, y. split; [exact Hn|]. split; [exact Hy|]. tag_eq.
    + intros (k & set & y & Hn & Hy & ->). destruct k as [|k].
      * left. injection Hn as <-. exists y. split; [|exact Hy]. tag_eq.
      * right. exists k, set, y. split; [exact Hn|]. split; [exact Hy|]. tag_eq.
Qed.

Lemma tag_sets_lsorted : forall sets i, Forall csorted sets -> Forall lsorted (tag_sets i sets).
Proof.
  induction sets as [|s r IH]; intros i H; [constructor|]. inversion H as [|? ? H1 H2]; subst.
  cbn [tag_sets]. constructor; [|apply IH, H2]. clear -H1. unfold lsorted, csorted in *.
  induction H1 as [|a l Hs IH Hf]; simpl; [constructor|]. constructor; [exact IH|].
  rewrite Forall_forall in *. intros x Hx. apply in_map_iff in Hx as (y & <- & Hy). cbn [ser_l]. apply Hf, Hy.
Qed.

Lemma find_csorted set : csorted set -> forall y, In y set -> find (fun z => fst z =? fst y) set = Some y.
Proof.
  unfold csorted. induction 1 as [|a l Hs IH Hf]; intros y Hy; [destruct Hy|].
  cbn [find]. destruct Hy as [<-|Hy]; [rewrite Z.eqb_refl; reflexivity|].
  rewrite Forall_forall in Hf. specialize (Hf y Hy).
  destruct (fst a =? fst y) eqn:E; [apply Z.eqb_eq in E; lia|]. apply IH, Hy.
Qed.

Lemma resolve_tag sets k set y : Forall csorted sets -> nth_error sets k = Some set -> In y set ->
  resolve sets (tag (Z.of_nat k) y) = Some (snd y).
Proof.
  intros Hcs Hn Hy. unfold resolve, tag. cbn [ser_s ser_l s_t]. rewrite Nat2Z.id, Hn.
  rewrite Forall_forall in Hcs. rewrite (find_csorted set (Hcs set (nth_error_In _ _ Hn)) y Hy). reflexivity.
Qed.

(* ------------------------------------------------------------------ one group *)
Definition group_res (css : list (list chunk)) (chks : list chunk) : Prop :=
  Forall cb chks /\ cdisj chks /\
  map s_t (smps chks) = merged_ts (map c_smp (concat css)) /\
  (forall x, In x (smps chks) -> In x (smps (concat css))).

Lemma merge_group_spec ch css : css <> [] -> Forall iter_ok css -> above (smps (concat css)) ->
  exists chks ch', merge_group ch true css = (Some chks, ch') /\ group_res css chks.
Proof.
  intros Hne Hok Hab. destruct css as [|a [|b r]]; [congruence| |].
  - exists a, ch. split; [reflexivity|]. inversion Hok as [|? ? [H1 H2] _]; subst.
    unfold group_res. cbn [concat]. rewrite app_nil_r. split; [exact H1|]. split; [exact H2|]. split; [|tauto].
    unfold merged_ts. change (concat (map c_smp a)) with (smps a).
    symmetry. apply fold_ins_sorted, ssorted_ts, out_sorted; assumption.
  - destruct (compact_chunks_correct ch (a :: b :: r) Hok Hab) as (out & ch' & He & H1 & H2 & H3 & H4).
    exists out, ch'. split; [exact He|]. repeat split; assumption.
Qed.

Lemma cdisj_inorder cs : cdisj cs -> chunks_inorder cs = true.
Proof.
  unfold cdisj. induction 1 as [|a l Hs IH Hf]; [reflexivity|].
  destruct l as [|b l]; [reflexivity|]. change (chunks_inorder (a :: b :: l)) with ((c_max a <? c_min b) && chunks_inorder (b :: l)).
  rewrite IH. inversion Hf; subst. apply andb_true_iff. split; [apply Z.ltb_lt; assumption|reflexivity].
Qed.

(* ------------------------------------------------------------------ the main loop *)
Definition nonnil (o : cseries) : bool := match snd o with [] => false | _ => true end.

Lemma populate_loop_spec sets : forall groups ch st,
  (forall g, In g groups -> g <> [] /\ exists css, resolve_all sets g = Some css /\ css <> [] /\
                            Forall iter_ok css /\ above (smps (concat css))) ->
  exists out st' ch', populate_loop ch true sets groups st = (Some (out, st'), ch') /\
    st' = fold_left add_series_stats (map (@snd _ _) out) st /\
    exists results,
      Forall2 (fun g chks => exists css, resolve_all sets g = Some css /\ group_res css chks) groups results /\
      out = filter nonnil (combine (map group_label groups) results).
Proof.
  induction groups as [|g rest IH]; intros ch st H.
  - exists [], st, ch. split; [reflexivity|]. split; [reflexivity|]. exists []. split; [constructor|reflexivity].
  - destruct (H g (or_introl eq_refl)) as (Hne & css & Hres & Hcne & Hok & Hab).
    destruct g as [|x g']; [congruence|]. cbn [populate_loop]. rewrite Hres.
    destruct (merge_group_spec ch css Hcne Hok Hab) as (chks & ch1 & Hm & Hgr). rewrite Hm.
    assert (Hrest : forall g, In g rest -> g <> [] /\ exists css, resolve_all sets g = Some css /\ css <> [] /\
                            Forall iter_ok css /\ above (smps (concat css))).
    { intros g0 Hg0. apply H. right. exact Hg0. }
    destruct chks as [|c0 chks0].
    + destruct (IH ch1 st Hrest) as (out & st' & ch' & He & Hst & results & Hf2 & Hout).
      exists out, st', ch'. split; [exact He|]. split; [exact Hst|].
      exists ([] :: results). split; [constructor; [exists css; split; assumption|exact Hf2]|].
      cbn [map combine filter nonnil snd]. exact Hout.
    + destruct Hgr as (G1 & G2 & G3 & G4).
      rewrite (cdisj_inorder _ G2). cbn [negb].
      destruct (IH ch1 (add_series_stats st (c0 :: chks0)) Hrest) as (out & st' & ch' & He & Hst & results & Hf2 & Hout).
      rewrite He. exists ((ser_l x, c0 :: chks0) :: out), st', ch'. split; [reflexivity|].
      split; [exact Hst|]. exists ((c0 :: chks0) :: results).
      split; [constructor; [exists css; split; [assumption|repeat split; assumption]|exact Hf2]|].
      cbn [map combine filter nonnil snd group_label]. rewrite Hout. reflexivity.
Qed.

(* ------------------------------------------------------------------ stats *)
Definition cnt (p : chunk -> bool) (cs : list chunk) : Z :=
  fold_right (fun c a => if p c then nsamples c + a else a) 0 cs.
Definition is_hist (c : chunk) : bool := (chunk_kind c =? 2) || (chunk_kind c =? 3).
Definition is_float (c : chunk) : bool := chunk_kind c =? 1.

Lemma cnt_app p a b : cnt p (a ++ b) = cnt p a + cnt p b.
Proof. induction a as [|c a IH]; simpl; [reflexivity|]. rewrite IH. destruct (p c); lia. Qed.

Lemma fold_chunk_stats : forall chks st,
  fold_left add_chunk_stats chks st =
  mkSt (st_series st) (st_chunks st) (st_samples st + cnt (fun _ => true) chks)
       (st_hist st + cnt is_hist chks) (st_float st + cnt is_float chks).
Proof.
  induction chks as [|c r IH]; intros st.
  - simpl. destruct st; simpl. f_equal; lia.
  - cbn [fold_left]. rewrite IH. unfold add_chunk_stats. cbn [st_series st_chunks st_samples st_hist st_float cnt fold_right].
    fold (cnt (fun _ => true) r) (cnt is_hist r) (cnt is_float r). unfold is_hist at 2, is_float at 2.
    destruct ((chunk_kind c =? 2) || (chunk_kind c =? 3)), (chunk_kind c =? 1); f_equal; lia.
Qed.

Lemma fold_series_stats : forall (out : list cseries) st,
  fold_left add_series_stats (map (@snd _ _) out) st =
  let cs := flat_map (@snd _ _) out in
  mkSt (st_series st + Z.of_nat (length out)) (st_chunks st + Z.of_nat (length cs))
       (st_samples st + cnt (fun _ => true) cs) (st_hist st + cnt is_hist cs) (st_float st + cnt is_float cs).
Proof.
  induction out as [|o r IH]; intros st.
  - simpl. destruct st; simpl. f_equal; lia.
  - cbn [map fold_left]. rewrite IH. unfold add_series_stats. rewrite fold_chunk_stats.
    cbn [st_series st_chunks st_samples st_hist st_float flat_map]. cbv zeta.
    rewrite !cnt_app, app_length. cbn [length]. f_equal; lia.
Qed.

Lemma stats_count out : fold_left add_series_stats (map (@snd _ _) out) stats0 = count_stats out.
Proof. rewrite fold_series_stats. unfold count_stats, stats0. cbn [st_series st_chunks st_samples st_hist st_float]. reflexivity. Qed.

(* ------------------------------------------------------------------ groups vs survivors *)
Lemma Forall2_nth_l {A B} (P : A -> B -> Prop) l1 l2 : Forall2 P l1 l2 ->
  forall k a, nth_error l1 k = Some a -> exists b, nth_error l2 k = Some b /\ P a b.
Proof.
  induction 1 as [|x y l1 l2 Hxy Hf IH]; intros k a Hk; [destruct k; discriminate|].
  destruct k as [|k]; [injection Hk as <-; exists y; split; [reflexivity|exact Hxy]|]. apply IH, Hk.
Qed.

Lemma Forall2_nth_r {A B} (P : A -> B -> Prop) l1 l2 : Forall2 P l1 l2 ->
  forall k b, nth_error l2 k = Some b -> exists a, nth_error l1 k = Some a /\ P a b.
Proof.
  induction 1 as [|x y l1 l2 Hxy Hf IH]; intros k b Hk; [destruct k; discriminate|].
  destruct k as [|k]; [injection Hk as <-; exists x; split; [reflexivity|exact Hxy]|]. apply IH, Hk.
Qed.

Lemma Forall2_in_l {A B} (P : A -> B -> Prop) l1 l2 : Forall2 P l1 l2 ->
  forall a, In a l1 -> exists b, In b l2 /\ P a b.
Proof.
  induction 1 as [|x y l1 l2 Hxy Hf IH]; intros a Ha; [destruct Ha|].
  destruct Ha as [<-|Ha]; [exists y; split; [left; reflexivity|exact Hxy]|].
  destruct (IH a Ha) as (b & Hb & Hp). exists b. split; [right; exact Hb|exact Hp].
Qed.

Lemma Forall2_in_r {A B} (P : A -> B -> Prop) l1 l2 : Forall2 P l1 l2 ->
  forall b, In b l2 -> exists a, In a l1 /\ P a b.
Proof.
  induction 1 as [|x y l1 l2 Hxy Hf IH]; intros b Hb; [destruct Hb|].
  destruct Hb as [<-|Hb]; [exists x; split; [left; reflexivity|exact Hxy]|].
  destruct (IH b Hb) as (a & Ha & Hp). exists a. split; [right; exact Ha|exact Hp].
Qed.

Definition tagged (sets : list (list cseries)) (x : series) (cs : list chunk) : Prop :=
  exists k set y, nth_error sets k = Some set /\ In y set /\ x = tag (Z.of_nat k) y /\ cs = snd y.

Lemma resolve_all_spec sets : Forall csorted sets -> forall g,
  (forall x, In x g -> exists cs, tagged sets x cs) ->
  exists css, resolve_all sets g = Some css /\ Forall2 (tagged sets) g css.
Proof.
  intros Hcs. induction g as [|x g IH]; intros H.
  - exists []. split; [reflexivity|constructor].
  - destruct (H x (or_introl eq_refl)) as (cs & k & set & y & Hn & Hy & -> & ->).
    destruct IH as (css & He & Hf); [intros x0 Hx0; apply H; right; exact Hx0|].
    exists (snd y :: css). cbn [resolve_all]. rewrite (resolve_tag sets k set y Hcs Hn Hy), He.
    split; [reflexivity|]. constructor; [|exact Hf]. exists k, set, y. repeat split; assumption.
Qed.

Lemma in_survivors mint maxt blocks l x : In x (survivors mint maxt blocks l) <->
  exists b s, In b blocks /\ In s (b_series b) /\ bs_l s = l /\
              In x (filter (alive mint maxt s) (smps (bs_chunks s))).
Proof.
  unfold survivors. rewrite in_flat_map. split.
  - intros (b & Hb & Hx). apply in_flat_map in Hx as (s & Hs & Hx).
    destruct (bs_l s =? l) eqn:E; [|destruct Hx]. apply Z.eqb_eq in E.
    exists b, s. repeat split; assumption.
  - intros (b & s & Hb & Hs & Hl & Hx). exists b. split; [exact Hb|]. apply in_flat_map.
    exists s. split; [exact Hs|]. apply Z.eqb_eq in Hl. rewrite Hl. exact Hx.
Qed.

Lemma smps_concat_in css x : In x (smps (concat css)) <-> exists cs, In cs css /\ In x (smps cs).
Proof.
  rewrite in_smps. split.
  - intros (c & Hc & Hx). apply in_concat in Hc as (cs & Hcs & Hc). exists cs. split; [exact Hcs|].
    apply in_smps. exists c. split; assumption.
  - intros (cs & Hcs & Hx). apply in_smps in Hx as (c & Hc & Hx). exists c. split; [|exact Hx].
    apply in_concat. exists cs. split; assumption.
Qed.

Lemma label_unique (groups : list (list series)) :
  StronglySorted Z.lt (map group_label groups) ->
  forall a b, In a groups -> In b groups -> group_label a = group_label b -> a = b.
Proof.
  induction groups as [|g r IH]; intros Hs a b Ha Hb Hl; [destruct Ha|].
  cbn [map] in Hs. inversion Hs as [|? ? Hs' Hf]; subst. rewrite Forall_forall in Hf.
  destruct Ha as [<-|Ha], Hb as [<-|Hb]; [reflexivity| | |apply IH; assumption].
  - specialize (Hf (group_label b) (in_map _ _ _ Hb)). lia.
  - specialize (Hf (group_label a) (in_map _ _ _ Ha)). lia.
Qed.

Definition blocks_above (blocks : list block) : Prop :=
  forall b s x, In b blocks -> In s (b_series b) -> In x (smps (bs_chunks s)) -> minInt64 < s_t x.

Definition set_rel (mint maxt : Z) (b : block) (set : list cseries) : Prop :=
  csorted set /\
  (forall l cs, In (l, cs) set -> exists s, In s (b_series b) /\ bs_l s = l /\ set_entry mint maxt s cs) /\
  (forall s, In s (b_series b) -> filter (alive mint maxt s) (smps (bs_chunks s)) <> [] ->
             exists cs, In (bs_l s, cs) set /\ set_entry mint maxt s cs).

Section Groups.
  Variables (mint maxt : Z) (blocks : list block) (sets : list (list cseries)) (groups : list (list series)).
  Hypothesis Hrel : Forall2 (set_rel mint maxt) blocks sets.
  Hypothesis Habove : blocks_above blocks.
  Hypothesis Hperm : Permutation (concat groups) (concat (tag_sets 0 sets)).
  Hypothesis Hlab : Forall (fun g => g <> [] /\ forall s, In s g -> ser_l s = group_label g) groups.
  Hypothesis Hsorted : StronglySorted Z.lt (map group_label groups).

  Lemma sets_csorted : Forall csorted sets.
  Proof.
    apply Forall_forall. intros set Hin. apply In_nth_error in Hin as [k Hk].
    destruct (Forall2_nth_r _ _ _ Hrel k set Hk) as (b & _ & H & _). exact H.
  Qed.

  Lemma group_tagged g x : In g groups -> In x g -> exists cs, tagged sets x cs.
  Proof.
    intros Hg Hx. assert (Hc : In x (concat groups)) by (apply in_concat; exists g; split; assumption).
    apply (Permutation_in _ Hperm) in Hc. apply tag_sets_in in Hc as (k & set & y & Hn & Hy & ->).
    exists (snd y), k, set, y. repeat split; assumption.
  Qed.

  Lemma tagged_survivors x cs : tagged sets x cs ->
    iter_ok cs /\ (forall z, In z (smps cs) -> In z (survivors mint maxt blocks (ser_l x))).
  Proof.
    intros (k & set & y & Hn & Hy & -> & ->).
    destruct (Forall2_nth_r _ _ _ Hrel k set Hn) as (b & Hb & _ & Hsound & _).
    destruct y as [l cs]. destruct (Hsound l cs Hy) as (s & Hs & Hl & Hok & _ & Hsm).
    split; [exact Hok|]. cbn [snd tag ser_l fst]. intros z Hz. apply in_survivors.
    exists b, s. split; [eapply nth_error_In; eauto|]. split; [exact Hs|]. split; [exact Hl|].
    rewrite <- Hsm. exact Hz.
  Qed.

  Lemma survivor_group l z : In z (survivors mint maxt blocks l) ->
    exists g x cs, In g groups /\ In x g /\ group_label g = l /\ tagged sets x cs /\ In z (smps cs) /\
                   resolve sets x = Some cs.
  Proof.
    intros Hz. apply in_survivors in Hz as (b & s & Hb & Hs & Hl & Hz).
    apply In_nth_error in Hb as [k Hk].
    destruct (Forall2_nth_l _ _ _ Hrel k b Hk) as (set & Hn & _ & _ & Hcompl).
    destruct (Hcompl s Hs) as (cs & Hin & _ & _ & Hsm); [intros E; rewrite E in Hz; destruct Hz|].
    assert (Ht : In (tag (Z.of_nat k) (bs_l s, cs)) (concat (tag_sets 0 sets))).
    { apply tag_sets_in. exists k, set, (bs_l s, cs). repeat split; assumption. }
    apply (Permutation_in _ (Permutation_sym Hperm)) in Ht. apply in_concat in Ht as (g & Hg & Hx).
    exists g, (tag (Z.of_nat k) (bs_l s, cs)), cs. split; [exact Hg|]. split; [exact Hx|].
    pose proof (proj1 (Forall_forall _ _) Hlab) as Hlab'. destruct (Hlab' g Hg) as [_ Hsame].
    split; [rewrite <- (Hsame _ Hx); cbn; exact Hl|].
    split; [exists k, set, (bs_l s, cs); repeat split; assumption|].
    split; [rewrite Hsm; exact Hz|].
    apply (resolve_tag sets k set (bs_l s, cs) sets_csorted Hn Hin).
  Qed.

  Lemma resolve_all_in g : forall css, resolve_all sets g = Some css ->
    forall x cs, In x g -> resolve sets x = Some cs -> In cs css.
  Proof.
    induction g as [|a g IH]; intros css He x cs Hx Hr; [destruct Hx|].
    cbn [resolve_all] in He. destruct (resolve sets a) as [ca|] eqn:Ea; [|discriminate].
    destruct (resolve_all sets g) as [cr|] eqn:Eg; [|discriminate]. injection He as <-.
    destruct Hx as [<-|Hx]; [left; congruence|right; eapply IH; eauto].
  Qed.

  Lemma group_spec g : In g groups ->
    g <> [] /\ exists css, resolve_all sets g = Some css /\ css <> [] /\ Forall iter_ok css /\
      above (smps (concat css)) /\
      (forall z, In z (smps (concat css)) <-> In z (survivors mint maxt blocks (group_label g))).
  Proof.
    intros Hg. pose proof (proj1 (Forall_forall _ _) Hlab) as Hlab'. destruct (Hlab' g Hg) as [Hne Hsame]. split; [exact Hne|].
    destruct (resolve_all_spec sets sets_csorted g (fun x Hx => group_tagged g x Hg Hx)) as (css & He & Hf2).
    exists css. split; [exact He|].
    assert (Hsound : forall cs, In cs css -> iter_ok cs /\
              forall z, In z (smps cs) -> In z (survivors mint maxt blocks (group_label g))).
    { intros cs Hcs. destruct (Forall2_in_r _ _ _ Hf2 cs Hcs) as (x & Hx & Ht).
      destruct (tagged_survivors x cs Ht) as [H1 H2]. rewrite (Hsame x Hx) in H2. split; assumption. }
    split; [|split; [|split]].
    - destruct g as [|x g']; [congruence|]. inversion Hf2; subst. discriminate.
    - apply Forall_forall. intros cs Hcs. apply Hsound, Hcs.
    - intros z Hz. apply smps_concat_in in Hz as (cs & Hcs & Hz).
      destruct (Hsound cs Hcs) as [_ H]. specialize (H z Hz).
      apply in_survivors in H as (b & s & Hb & Hs & _ & Hin). apply filter_In in Hin as [Hin _].
      eapply Habove; eauto.
    - intros z. split.
      + intros Hz. apply smps_concat_in in Hz as (cs & Hcs & Hz). apply (Hsound cs Hcs), Hz.
      + intros Hz. destruct (survivor_group _ z Hz) as (g' & x & cs & Hg' & Hx & Hl & _ & Hzc & Hr).
        assert (g' = g) by (apply (label_unique groups Hsorted); assumption). subst g'.
        apply smps_concat_in. exists cs. split; [|exact Hzc]. eapply resolve_all_in; eauto.
  Qed.
End Groups.

(* ------------------------------------------------------------------ the main theorem *)
Lemma sorted_filter_combine {B} (p : Z * B -> bool) : forall (L : list Z) (R : list B),
  StronglySorted Z.lt L -> StronglySorted Z.lt (map fst (filter p (combine L R))).
Proof.
  induction L as [|a L IH]; intros R Hs; [constructor|]. destruct R as [|r R]; [constructor|].
  inversion Hs as [|? ? Hs' Hf]; subst. cbn [combine filter].
  assert (Hrest : Forall (Z.lt a) (map fst (filter p (combine L R)))).
  { rewrite Forall_forall in *. intros x Hx. apply in_map_iff in Hx as ([x' c] & <- & Hin).
    apply filter_In in Hin as [Hin _]. apply in_combine_l in Hin. apply Hf, Hin. }
  destruct (p (a, r)); [cbn [map fst]; constructor; [apply IH, Hs'|exact Hrest]|apply IH, Hs'].
Qed.

Lemma combine_Forall2_in {A B} (f : A -> Z) (R : A -> B -> Prop) gs rs : Forall2 R gs rs ->
  forall l c, In (l, c) (combine (map f gs) rs) -> exists g, In g gs /\ f g = l /\ R g c.
Proof.
  induction 1 as [|g r gs rs Hgr Hf IH]; intros l c Hin; [destruct Hin|].
  cbn [map combine] in Hin. destruct Hin as [Heq|Hin].
  - injection Heq as <- <-. exists g. split; [left; reflexivity|split; [reflexivity|exact Hgr]].
  - destruct (IH l c Hin) as (g0 & Hg0 & Hrest). exists g0. split; [right; exact Hg0|exact Hrest].
Qed.

Lemma Forall2_combine_in {A B} (f : A -> Z) (R : A -> B -> Prop) gs rs : Forall2 R gs rs ->
  forall g, In g gs -> exists c, In (f g, c) (combine (map f gs) rs) /\ R g c.
Proof.
  induction 1 as [|g r gs rs Hgr Hf IH]; intros g0 Hin; [destruct Hin|].
  cbn [map combine]. destruct Hin as [<-|Hin].
  - exists r. split; [left; reflexivity|exact Hgr].
  - destruct (IH g0 Hin) as (c & Hc & Hrest). exists c. split; [right; exact Hc|exact Hrest].
Qed.

Lemma merged_ts_members A B :
  (forall x, In x (concat A) <-> In x (concat B)) -> merged_ts A = merged_ts B.
Proof.
  intros H. destruct (merged_ts_spec A) as [Ha1 Ha2]. destruct (merged_ts_spec B) as [Hb1 Hb2].
  apply sorted_unique; [assumption|assumption|]. intros t. rewrite Ha2, Hb2.
  split; intros (s & Hs & Ht); exists s; (split; [apply H, Hs|exact Ht]).
Qed.

Theorem populate_block_correct ch blocks mint maxt :
  blocks <> [] -> Forall block_wf blocks -> blocks_above blocks ->
  int64 mint -> minInt64 < maxt <= maxInt64 ->
  exists out st ch', populate_block ch true blocks mint maxt = (Some (out, st), ch') /\
    StronglySorted Z.lt (map fst out) /\
    (forall l chks, In (l, chks) out ->
        chks <> [] /\ Forall cb chks /\ cdisj chks /\
        map s_t (smps chks) = dedup_ts (survivors mint (maxt - 1) blocks l) /\
        (forall x, In x (smps chks) -> In x (survivors mint (maxt - 1) blocks l))) /\
    (forall l, survivors mint (maxt - 1) blocks l <> [] -> In l (map fst out)) /\
    st = count_stats out.
Proof.
  intros Hne Hwf Hab Hmi Hma. unfold populate_block.
  destruct blocks as [|b0 br] eqn:Eb; [congruence|]. rewrite <- Eb in *. clear Eb Hne.
  assert (Hw : wrap64 (maxt - 1) = maxt - 1) by (apply wrap64_id; unfold int64, minInt64, maxInt64 in *; lia).
  rewrite Hw. set (mx := maxt - 1).
  assert (Hmx : int64 mx) by (unfold mx, int64, minInt64, maxInt64 in *; lia).
  destruct (block_sets_spec mint mx Hmi Hmx blocks Hwf) as (sets & Hsets & Hrel). rewrite Hsets.
  change (Forall2 (set_rel mint mx) blocks sets) in Hrel.
  pose proof (sets_csorted mint mx blocks sets Hrel) as Hcs.
  destruct (merge_sets_correct ch (tag_sets 0 sets) (tag_sets_lsorted sets 0 Hcs))
    as (groups & ch1 & Hms & Hperm & Hlab & Hsorted). rewrite Hms.
  pose proof (group_spec mint mx blocks sets groups Hrel Hab Hperm Hlab Hsorted) as Hgs.
  destruct (populate_loop_spec sets groups ch1 stats0) as (out & st & ch2 & Hloop & Hst & results & Hf2 & Hout).
  { intros g Hg. destruct (Hgs g Hg) as (H1 & css & H2 & H3 & H4 & H5 & _).
    split; [exact H1|]. exists css. repeat split; assumption. }
  exists out, st, ch2. split; [exact Hloop|]. split; [|split; [|split]].
  - rewrite Hout. apply sorted_filter_combine, Hsorted.
  - intros l chks Hin. rewrite Hout in Hin. apply filter_In in Hin as [Hin Hnn].
    destruct (combine_Forall2_in _ _ _ _ Hf2 l chks Hin) as (g & Hg & Hl & css & Hres & G1 & G2 & G3 & G4).
    destruct (Hgs g Hg) as (_ & css' & Hres' & _ & _ & _ & Hmem). rewrite Hres in Hres'. injection Hres' as <-.
    rewrite Hl in Hmem.
    split; [intros E; subst chks; discriminate|]. split; [exact G1|]. split; [exact G2|]. split.
    + rewrite G3. unfold dedup_ts. apply merged_ts_members. intros x. cbn [concat]. rewrite app_nil_r.
      change (concat (map c_smp (concat css))) with (smps (concat css)). apply Hmem.
    + intros x Hx. apply Hmem, G4, Hx.
  - intros l Hsurv. destruct (survivors mint mx blocks l) as [|z zs] eqn:Ez; [congruence|].
    assert (Hz : In z (survivors mint mx blocks l)) by (rewrite Ez; left; reflexivity).
    destruct (survivor_group mint mx blocks sets groups Hrel Hperm Hlab l z Hz)
      as (g & x & cs & Hg & Hx & Hl & _ & _ & _).
    destruct (Forall2_combine_in group_label _ _ _ Hf2 g Hg) as (chks & Hin & css & Hres & G1 & G2 & G3 & G4).
    destruct (Hgs g Hg) as (_ & css' & Hres' & _ & _ & _ & Hmem). rewrite Hres in Hres'. injection Hres' as <-.
    rewrite Hl in Hin, Hmem.
    assert (Hnn : chks <> []).
    { intros E. subst chks. cbn in G3. symmetry in G3.
      destruct (merged_ts_spec (map c_smp (concat css))) as [_ Hm]. rewrite G3 in Hm.
      apply (proj2 (Hm (s_t z))). exists z. split; [|reflexivity].
      change (concat (map c_smp (concat css))) with (smps (concat css)). apply Hmem, Hz. }
    apply in_map_iff. exists (l, chks). split; [reflexivity|]. rewrite Hout. apply filter_In.
    split; [exact Hin|]. unfold nonnil. cbn [snd]. destruct chks; [congruence|reflexivity].
  - rewrite Hst. apply stats_count.
Qed.

(* ------------------------------------------------------------------ the statements of props/C07.v *)
Definition inputs_ok (blocks : list block) (mint maxt : Z) : Prop :=
  blocks <> [] /\ Forall block_wf blocks /\ blocks_above blocks /\ int64 mint /\ minInt64 < maxt <= maxInt64.

Ltac use_correct ch blocks mint maxt H He :=
  let out := fresh "out" in let st := fresh "st" in let ch' := fresh "ch'" in
  let E := fresh "E" in
  destruct H as (H1 & H2 & H3 & H4 & H5);
  destruct (populate_block_correct ch blocks mint maxt H1 H2 H3 H4 H5) as (out & st & ch' & E & P1 & P2 & P3 & P4);
  rewrite E in He; injection He as <- <- <-.

Lemma pb_total ch blocks mint maxt : inputs_ok blocks mint maxt ->
  exists out st ch', populate_block ch true blocks mint maxt = (Some (out, st), ch').
Proof.
  intros (H1 & H2 & H3 & H4 & H5).
  destruct (populate_block_correct ch blocks mint maxt H1 H2 H3 H4 H5) as (out & st & ch' & E & _).
  exists out, st, ch'. exact E.
Qed.

Lemma pb_union ch blocks mint maxt out st ch' : inputs_ok blocks mint maxt ->
  populate_block ch true blocks mint maxt = (Some (out, st), ch') ->
  forall l chks, In (l, chks) out ->
    map s_t (all_smps chks) = dedup_ts (survivors mint (maxt - 1) blocks l) /\
    (forall x, In x (all_smps chks) -> In x (survivors mint (maxt - 1) blocks l)).
Proof.
  intros H He. use_correct ch blocks mint maxt H He. intros l chks Hin.
  destruct (P2 l chks Hin) as (_ & _ & _ & A & B). split; assumption.
Qed.

Lemma pb_chunks ch blocks mint maxt out st ch' : inputs_ok blocks mint maxt ->
  populate_block ch true blocks mint maxt = (Some (out, st), ch') ->
  forall l chks, In (l, chks) out -> chks <> [] /\ Forall cb chks /\ cdisj chks.
Proof.
  intros H He. use_correct ch blocks mint maxt H He. intros l chks Hin.
  destruct (P2 l chks Hin) as (A & B & C & _). repeat split; assumption.
Qed.

Lemma pb_series ch blocks mint maxt out st ch' : inputs_ok blocks mint maxt ->
  populate_block ch true blocks mint maxt = (Some (out, st), ch') ->
  StronglySorted Z.lt (map fst out) /\
  forall l, In l (map fst out) <-> survivors mint (maxt - 1) blocks l <> [].
Proof.
  intros H He. use_correct ch blocks mint maxt H He. split; [exact P1|]. intros l. split; [|apply P3].
  intros Hin. apply in_map_iff in Hin as ([l' chks] & Hl & Hin). cbn in Hl. subst l'.
  destruct (P2 l chks Hin) as (A & B & _ & _ & D).
  destruct chks as [|c r]; [congruence|]. inversion B as [|? ? Hc _]; subst.
  destruct (c_smp c) as [|x xs] eqn:Ex; [exfalso; apply (cb_ne c Hc), Ex|].
  intros En. assert (Hx : In x (smps (c :: r))) by (rewrite smps_cons, Ex; left; reflexivity).
  apply D in Hx. rewrite En in Hx. destruct Hx.
Qed.

Lemma pb_stats ch blocks mint maxt out st ch' : inputs_ok blocks mint maxt ->
  populate_block ch true blocks mint maxt = (Some (out, st), ch') -> st = count_stats out.
Proof. intros H He. use_correct ch blocks mint maxt H He. exact P4. Qed.

(* ------------------------------------------------------------------ concrete inputs *)
Ltac split_in :=
  repeat match goal with
         | H : In _ (_ :: _) |- _ => destruct H as [<-|H]
         | H : In _ [] |- _ => destruct H
         | H : False |- _ => destruct H
         end.

Lemma uniform_one a k v : kinds_uniform (mkC a a [mkS a k v]).
Proof. intros x y Hx Hy. cbn [c_smp] in *. split_in. reflexivity. Qed.
Lemma uniform_two a b k v w : kinds_uniform (mkC a b [mkS a k v; mkS b k w]).
Proof. intros x y Hx Hy. cbn [c_smp] in *. split_in; reflexivity. Qed.

Definition ex_blocks : list block :=
  [mkB 0 31 [mkBS 0 [mkC 0 10 [mkS 0 1 1; mkS 10 1 1]; mkC 20 30 [mkS 20 1 1; mkS 30 1 1]] [mkI 10 20]];
   mkB 5 26 [mkBS 0 [mkC 5 10 [mkS 5 1 2; mkS 10 1 2]; mkC 25 25 [mkS 25 1 2]] [];
             mkBS 3 [mkC 7 7 [mkS 7 2 9]] []]].

Ltac list_goals := repeat (apply Forall_cons || apply Forall_nil || apply SSorted_cons || apply SSorted_nil).
Ltac wf_series :=
  constructor; cbn [bs_chunks bs_tombs];
  [ list_goals; first [apply cb_two; lia | apply cb_one]
  | unfold cdisj; list_goals; cbn; lia
  | list_goals; first [apply uniform_two | apply uniform_one]
  | cbn; unfold wf_iv, int64, minInt64, maxInt64; cbn; repeat split; lia
  | intros c Hc; split_in; cbn; unfold int64, minInt64, maxInt64; lia ].
Ltac wf_blocks :=
  list_goals; (split; cbn [b_series]; [list_goals; wf_series | unfold bsorted; list_goals; cbn; lia]).

Lemma ex_blocks_ok : inputs_ok ex_blocks 0 26.
Proof.
  unfold inputs_ok, ex_blocks. split; [discriminate|]. split; [|split; [|split]].
  - wf_blocks.
  - intros b s x Hb Hs Hx. split_in; cbn [b_series] in Hs; split_in; cbn in Hx;
      repeat (destruct Hx as [<-|Hx]; [unfold minInt64; cbn; lia|]); destruct Hx.
  - unfold int64, minInt64, maxInt64. lia.
  - unfold minInt64, maxInt64. lia.
Qed.

(* block 1 loses t=10,20 to its tombstone and t=30 to the range; t=10 survives through block 2 *)
Lemma ex_blocks_run :
  fst (populate_block [] true ex_blocks 0 26) =
  Some ([(0, [mkC 0 0 [mkS 0 1 1]; mkC 5 10 [mkS 5 1 2; mkS 10 1 2]; mkC 25 25 [mkS 25 1 2]]);
         (3, [mkC 7 7 [mkS 7 2 9]])], mkSt 2 4 5 1 4) /\
  survivors 0 25 ex_blocks 0 = [mkS 0 1 1; mkS 5 1 2; mkS 10 1 2; mkS 25 1 2].
Proof. split; vm_compute; reflexivity. Qed.

(* three blocks, disjoint in time and in time order, one series *)
Definition cc_blocks : list block :=
  [mkB 0 11 [mkBS 0 [mkC 0 10 [mkS 0 1 1; mkS 10 1 1]] []];
   mkB 20 31 [mkBS 0 [mkC 20 30 [mkS 20 1 1; mkS 30 1 1]] []];
   mkB 40 51 [mkBS 0 [mkC 40 50 [mkS 40 1 1; mkS 50 1 1]] []]].

Lemma cc_blocks_ok : inputs_ok cc_blocks 0 51.
Proof.
  unfold inputs_ok, cc_blocks. split; [discriminate|]. split; [|split; [|split]].
  - wf_blocks.
  - intros b s x Hb Hs Hx. split_in; cbn [b_series] in Hs; split_in; cbn in Hx;
      repeat (destruct Hx as [<-|Hx]; [unfold minInt64; cbn; lia|]); destruct Hx.
  - unfold int64, minInt64, maxInt64. lia.
  - unfold minInt64, maxInt64. lia.
Qed.

(* With the concatenating merger the order of the concatenation is the pop order of equal keys
   from the heap of sets: under one tie-breaking the chunks come out of time order and
   index.Writer.AddSeries rejects them (the compaction fails), under another they are in order.
   The compacting merger is insensitive to it. *)
Lemma concat_order_dependent :
  inputs_ok cc_blocks 0 51 /\
  fst (populate_block [] false cc_blocks 0 51) = None /\
  (exists out st, fst (populate_block [2%nat; 1%nat] false cc_blocks 0 51) = Some (out, st)) /\
  (exists out st, fst (populate_block [] true cc_blocks 0 51) = Some (out, st)).
Proof.
  split; [exact cc_blocks_ok|]. split; [vm_compute; reflexivity|].
  split; eexists; eexists; vm_compute; reflexivity.
Qed.

(* ------------------------------------------------------------------ LeveledCompactor.Compact:
   the range computed by CompactBlockMetas covers every input block, so nothing is trimmed *)
Lemma fold_min_spec (f : block -> Z) : forall l init,
  let r := fold_left (fun m x => if f x <? m then f x else m) l init in
  r <= init /\ (forall b, In b l -> r <= f b) /\ (r = init \/ exists b, In b l /\ r = f b).
Proof.
  induction l as [|a l IH]; intros init; cbn [fold_left].
  - split; [lia|]. split; [intros ? []|left; reflexivity].
  - destruct (IH (if f a <? init then f a else init)) as (H1 & H2 & H3).
    destruct (f a <? init) eqn:E; [apply Z.ltb_lt in E|apply Z.ltb_ge in E].
    + split; [lia|]. split; [intros b [<-|Hb]; [lia|apply H2, Hb]|].
      right. destruct H3 as [H3|(b & Hb & H3)]; [exists a; split; [left; reflexivity|exact H3]|exists b; split; [right; exact Hb|exact H3]].
    + split; [lia|]. split; [intros b [<-|Hb]; [lia|apply H2, Hb]|].
      destruct H3 as [H3|(b & Hb & H3)]; [left; exact H3|right; exists b; split; [right; exact Hb|exact H3]].
Qed.

Lemma fold_max_spec (f : block -> Z) : forall l init,
  let r := fold_left (fun m x => if m <? f x then f x else m) l init in
  init <= r /\ (forall b, In b l -> f b <= r) /\ (r = init \/ exists b, In b l /\ r = f b).
Proof.
  induction l as [|a l IH]; intros init; cbn [fold_left].
  - split; [lia|]. split; [intros ? []|left; reflexivity].
  - destruct (IH (if init <? f a then f a else init)) as (H1 & H2 & H3).
    destruct (init <? f a) eqn:E; [apply Z.ltb_lt in E|apply Z.ltb_ge in E].
    + split; [lia|]. split; [intros b [<-|Hb]; [lia|apply H2, Hb]|].
      right. destruct H3 as [H3|(b & Hb & H3)]; [exists a; split; [left; reflexivity|exact H3]|exists b; split; [right; exact Hb|exact H3]].
    + split; [lia|]. split; [intros b [<-|Hb]; [lia|apply H2, Hb]|].
      destruct H3 as [H3|(b & Hb & H3)]; [left; exact H3|right; exists b; split; [right; exact Hb|exact H3]].
Qed.

Lemma compact_range_spec blocks : blocks <> [] ->
  (forall b, In b blocks -> fst (compact_range blocks) <= b_min b /\ b_max b <= snd (compact_range blocks)) /\
  (exists b, In b blocks /\ fst (compact_range blocks) = b_min b) /\
  (exists b, In b blocks /\ snd (compact_range blocks) = b_max b).
Proof.
  destruct blocks as [|b0 r]; [congruence|]. intros _. unfold compact_range. cbn [fst snd].
  destruct (fold_min_spec b_min (b0 :: r) (b_min b0)) as (A1 & A2 & A3).
  destruct (fold_max_spec b_max (b0 :: r) (b_max b0)) as (B1 & B2 & B3).
  split; [intros b Hb; split; [apply A2, Hb|apply B2, Hb]|]. split.
  - destruct A3 as [A3|A3]; [exists b0; split; [left; reflexivity|exact A3]|exact A3].
  - destruct B3 as [B3|B3]; [exists b0; split; [left; reflexivity|exact B3]|exact B3].
Qed.

(* every sample of every input that is in no deleted interval of its series in its block *)
Definition undeleted (blocks : list block) (l : Z) : list sample :=
  flat_map (fun b => flat_map (fun s => if bs_l s =? l
                                        then filter (fun x => negb (coveredb (bs_tombs s) (s_t x))) (all_smps (bs_chunks s))
                                        else []) (b_series b)) blocks.

(* the block metas are honest: int64 bounds and every sample inside [MinTime, MaxTime) *)
Definition metas_ok (blocks : list block) : Prop :=
  forall b, In b blocks -> int64 (b_min b) /\ minInt64 < b_max b <= maxInt64 /\
    forall s x, In s (b_series b) -> In x (all_smps (bs_chunks s)) -> b_min b <= s_t x < b_max b.

Lemma flat_map_ext_in {A B} (f g : A -> list B) l : (forall a, In a l -> f a = g a) -> flat_map f l = flat_map g l.
Proof.
  induction l as [|a l IH]; intros H; [reflexivity|]. cbn [flat_map].
  rewrite (H a (or_introl eq_refl)), IH; [reflexivity|]. intros x Hx. apply H. right. exact Hx.
Qed.

Lemma compact_survivors blocks l : blocks <> [] -> metas_ok blocks ->
  survivors (fst (compact_range blocks)) (snd (compact_range blocks) - 1) blocks l = undeleted blocks l.
Proof.
  intros Hne Hm. destruct (compact_range_spec blocks Hne) as (Hcov & _ & _).
  unfold survivors, undeleted. apply flat_map_ext_in. intros b Hb. apply flat_map_ext_in. intros s Hs.
  destruct (bs_l s =? l); [|reflexivity]. apply filter_ext_in. intros x Hx.
  destruct (Hm b Hb) as (_ & _ & Hin). specialize (Hin s x Hs Hx). destruct (Hcov b Hb) as [H1 H2].
  unfold alive. replace (fst (compact_range blocks) <=? s_t x) with true by (symmetry; apply Z.leb_le; lia).
  replace (s_t x <=? snd (compact_range blocks) - 1) with true by (symmetry; apply Z.leb_le; lia).
  reflexivity.
Qed.

Definition compact_inputs_ok (blocks : list block) : Prop :=
  blocks <> [] /\ Forall block_wf blocks /\ blocks_above blocks /\ metas_ok blocks.

Lemma compact_inputs blocks : compact_inputs_ok blocks ->
  inputs_ok blocks (fst (compact_range blocks)) (snd (compact_range blocks)).
Proof.
  intros (H1 & H2 & H3 & H4). destruct (compact_range_spec blocks H1) as (_ & (b1 & Hb1 & E1) & (b2 & Hb2 & E2)).
  split; [exact H1|]. split; [exact H2|]. split; [exact H3|]. rewrite E1, E2.
  destruct (H4 b1 Hb1) as (A & _ & _). destruct (H4 b2 Hb2) as (_ & B & _). split; assumption.
Qed.

(* LeveledCompactor.Compact: the written block holds, per label set, exactly the de-duplicated
   union of all undeleted input samples - nothing is cut by the range *)
Theorem compact_blocks_correct ch blocks : compact_inputs_ok blocks ->
  exists out st ch', compact_blocks ch true blocks = (Some (out, st), ch') /\
    StronglySorted Z.lt (map fst out) /\
    (forall l, In l (map fst out) <-> undeleted blocks l <> []) /\
    (forall l chks, In (l, chks) out ->
       chks <> [] /\ Forall cb chks /\ cdisj chks /\
       map s_t (all_smps chks) = dedup_ts (undeleted blocks l) /\
       (forall x, In x (all_smps chks) -> In x (undeleted blocks l))) /\
    st = count_stats out.
Proof.
  intros Hok. pose proof (compact_inputs blocks Hok) as Hin. destruct Hok as (Hne & _ & _ & Hm).
  unfold compact_blocks. destruct (compact_range blocks) as [mn mx] eqn:Er. cbn [fst snd] in Hin.
  destruct (pb_total ch blocks mn mx Hin) as (out & st & ch' & E). exists out, st, ch'. split; [exact E|].
  pose proof (compact_survivors blocks) as Hs. rewrite Er in Hs. cbn [fst snd] in Hs.
  destruct (pb_series ch blocks mn mx out st ch' Hin E) as [S1 S2]. split; [exact S1|].
  split; [intros l; rewrite (S2 l), (Hs l Hne Hm); tauto|]. split.
  - intros l chks Hl. destruct (pb_chunks ch blocks mn mx out st ch' Hin E l chks Hl) as (C1 & C2 & C3).
    destruct (pb_union ch blocks mn mx out st ch' Hin E l chks Hl) as (U1 & U2).
    rewrite (Hs l Hne Hm) in U1, U2. repeat split; assumption.
  - apply (pb_stats ch blocks mn mx out st ch' Hin E).
Qed.

(* proof/RemoteReadProofs.v — proofs about model/RemoteRead.v (C42). *)
From Coq Require Import List ZArith Bool NArith Lia Sorted.
From Verif Require Import lib.Int64 model.RemoteRead.
Import ListNotations.
Open Scope Z_scope.

(* ------------------------------------------------------------------ hypotheses of the theorems *)

(* timestamps strictly increasing (what any storage.Series iterator guarantees) *)
Definition ts_sorted (l : list sample) : Prop := StronglySorted (fun a b => s_t a < s_t b) l.
(* timestamps non-decreasing (enough for the streamed path) *)
Definition ts_nondecr (l : list sample) : Prop := StronglySorted (fun a b => s_t a <= s_t b) l.
(* no sample sits on the noTS sentinel (MaxInt64) *)
Definition below_noTS (l : list sample) : Prop := Forall (fun s => s_t s < noTS) l.
(* no float sample is the negative zero *)
Definition no_negzero (l : list sample) : Prop :=
  Forall (fun s => s_k s = KF -> s_v s <> neg_zero_bits) l.

Definition good_series (s : series) : Prop :=
  ts_sorted (ser_s s) /\ below_noTS (ser_s s) /\ no_negzero (ser_s s).

Definition total_samples (l : list series) : Z :=
  fold_right (fun s a => Z.of_nat (length (ser_s s)) + a) 0 l.

Definition with_ext (ext : labels) (s : series) : series := mkSer (merge_labels (ser_l s) ext) (ser_s s).

Lemma ts_sorted_nondecr l : ts_sorted l -> ts_nondecr l.
Proof.
  induction 1 as [|a l Hs IH Hf]; constructor; auto.
  eapply Forall_impl; [|exact Hf]. cbn; intros; lia.
Qed.

(* ------------------------------------------------------------------ strings and labels *)

Lemma str_cmp_refl a : str_cmp a a = Eq.
Proof. induction a as [|x a IH]; cbn; auto. rewrite N.compare_refl. exact IH. Qed.

Lemma str_eqb_refl a : str_eqb a a = true.
Proof. unfold str_eqb. now rewrite str_cmp_refl. Qed.

Lemma labels_eqb_refl a : labels_eqb a a = true.
Proof. induction a as [|[n v] a IH]; cbn; auto. now rewrite !str_eqb_refl, IH. Qed.

(* ------------------------------------------------------------------ sampled response *)

Lemma split_length l : (length (floats_of l) + length (hists_of l) = length l)%nat.
Proof. induction l as [|[t k v] l IH]; cbn; auto. destruct k; cbn; lia. Qed.

Lemma peek_f_lb l t : Forall (fun s => t < s_t s) l -> t < noTS -> t < peek_f (floats_of l).
Proof.
  induction l as [|[t' k v] l IH]; cbn; intros Hf Hn; auto.
  inversion Hf as [|? ? Hh Ht]; subst. cbn in Hh. destruct k; cbn; auto.
Qed.

Lemma peek_h_lb l t : Forall (fun s => t < s_t s) l -> t < noTS -> t < peek_h (hists_of l).
Proof.
  induction l as [|[t' k v] l IH]; cbn; intros Hf Hn; auto.
  inversion Hf as [|? ? Hh Ht]; subst. cbn in Hh. destruct k; cbn; auto.
Qed.

(* draining the client-side iterator over what ToQueryResult made of a series gives the series back *)
Lemma concrete_iter_roundtrip l : forall fuel,
  ts_sorted l -> below_noTS l -> (length l < fuel)%nat ->
  concrete_iter fuel (floats_of l) (hists_of l) = l.
Proof.
  induction l as [|[t k v] l IH]; intros fuel Hs Hb Hfu.
  - destruct fuel; [cbn in Hfu; lia|]. reflexivity.
  - destruct fuel as [|fuel]; [cbn in Hfu; lia|].
    inversion Hs as [|? ? Hs' Hlt]; subst. inversion Hb as [|? ? Ht Hb']; subst.
    cbn in Ht, Hlt.
    assert (Hfu' : (length l < fuel)%nat) by (cbn in Hfu; lia).
    pose proof (peek_f_lb l t Hlt Ht) as Hpf. pose proof (peek_h_lb l t Hlt Ht) as Hph.
    destruct k; cbn [floats_of hists_of s_k s_t s_v concrete_iter peek_f peek_h].
    + (* float *)
      replace (t <? peek_h (hists_of l)) with true by (symmetry; apply Z.ltb_lt; lia).
      f_equal. apply IH; auto.
    + (* integer histogram *)
      replace (peek_f (floats_of l) <? t) with false by (symmetry; apply Z.ltb_ge; lia).
      replace (t <? peek_f (floats_of l)) with true by (symmetry; apply Z.ltb_lt; lia).
      cbn [hist_sample]. f_equal. apply IH; auto.
    + (* float histogram *)
      replace (peek_f (floats_of l) <? t) with false by (symmetry; apply Z.ltb_ge; lia).
      replace (t <? peek_f (floats_of l)) with true by (symmetry; apply Z.ltb_lt; lia).
      cbn [hist_sample]. f_equal. apply IH; auto.
Qed.

Definition to_ts (s : series) : pbts := mkTS (ser_l s) (floats_of (ser_s s)) (hists_of (ser_s s)).

Lemma series_of_to_ts s : ts_sorted (ser_s s) -> below_noTS (ser_s s) -> series_of_ts (to_ts s) = s.
Proof.
  intros Hs Hb. destruct s as [l ss]. unfold series_of_ts, to_ts, iter_fuel. cbn [ts_l ts_f ts_h ser_l ser_s].
  f_equal. apply concrete_iter_roundtrip; auto. cbn in *. rewrite split_length. lia.
Qed.

Lemma total_samples_cons s ss :
  total_samples (s :: ss) = Z.of_nat (length (ser_s s)) + total_samples ss.
Proof. reflexivity. Qed.

Lemma total_samples_nonneg ss : 0 <= total_samples ss.
Proof. induction ss as [|x ss IH]; [cbn; lia|]. rewrite total_samples_cons. lia. Qed.

Lemma to_query_result_from_ok ss : forall n limit,
  limit <= 0 \/ n + total_samples ss <= limit ->
  to_query_result_from n limit ss = Ok (map to_ts ss).
Proof.
  induction ss as [|s ss IH]; intros n limit H; cbn; auto.
  assert (Hlen : 0 <= Z.of_nat (length (ser_s s))) by lia.
  pose proof (total_samples_nonneg ss) as Htot.
  rewrite total_samples_cons in H.
  replace ((0 <? limit) && (limit <? n + Z.of_nat (length (ser_s s)))) with false.
  - rewrite IH; [reflexivity|]. lia.
  - symmetry. apply andb_false_iff. destruct H; [left; apply Z.ltb_ge; lia|right; apply Z.ltb_ge; lia].
Qed.

Lemma to_query_result_from_limit ss : forall n limit,
  0 < limit -> n <= limit -> limit < n + total_samples ss ->
  to_query_result_from n limit ss = ErrLimit.
Proof.
  induction ss as [|s ss IH]; intros n limit H0 Hn H; [cbn in *; lia|].
  rewrite total_samples_cons in H.
  cbn [to_query_result_from].
  destruct (limit <? n + Z.of_nat (length (ser_s s))) eqn:E.
  - replace (0 <? limit) with true by (symmetry; apply Z.ltb_lt; lia). reflexivity.
  - apply Z.ltb_ge in E. rewrite andb_false_r. rewrite IH; auto; lia.
Qed.

Lemma floats_of_no_negzero l : no_negzero l ->
  map (fun p => (fst p, pb_double (snd p))) (floats_of l) = floats_of l.
Proof.
  induction 1 as [|[t k v] l Hh Hf IH]; cbn; auto.
  destruct k; cbn; auto. rewrite IH. f_equal. f_equal.
  unfold pb_double. cbn in Hh. destruct (v =? neg_zero_bits) eqn:E; auto.
  apply Z.eqb_eq in E. exfalso. now apply Hh.
Qed.

Lemma wire_roundtrip ext ss : Forall good_series ss ->
  map series_of_ts (map wire_ts (add_ext ext (map to_ts ss))) = map (with_ext ext) ss.
Proof.
  induction 1 as [|s ss [Hs [Hb Hz]] Hf IH]; cbn; auto.
  f_equal; [|exact IH].
  unfold wire_ts. cbn [ts_l ts_f ts_h to_ts].
  rewrite floats_of_no_negzero by auto.
  change (mkTS (merge_labels (ser_l s) ext) (floats_of (ser_s s)) (hists_of (ser_s s)))
    with (to_ts (with_ext ext s)).
  apply series_of_to_ts; auto.
Qed.

(* the sampled path is the identity (up to the external labels and the requested sort) *)
Theorem sampled_id : forall limit ext sortSeries ss,
  Forall good_series ss ->
  limit <= 0 \/ total_samples ss <= limit ->
  sampled_path limit ext sortSeries ss =
    Ok (let l := map (with_ext ext) ss in if sortSeries then sort_series l else l).
Proof.
  intros limit ext sortSeries ss Hg Hl. unfold sampled_path, to_query_result.
  rewrite to_query_result_from_ok by (destruct Hl; [left|right]; lia).
  unfold from_query_result. rewrite wire_roundtrip by auto. reflexivity.
Qed.

Theorem sampled_limit : forall limit ext sortSeries ss,
  0 < limit < total_samples ss -> sampled_path limit ext sortSeries ss = ErrLimit.
Proof.
  intros limit ext sortSeries ss H. unfold sampled_path, to_query_result.
  rewrite to_query_result_from_limit; auto; lia.
Qed.

(* sorting a label-sorted list changes nothing *)
Definition label_sorted (l : list series) : Prop :=
  StronglySorted (fun a b => labels_cmp (ser_l a) (ser_l b) <> Gt) l.

Lemma sort_series_sorted l : label_sorted l -> sort_series l = l.
Proof.
  induction 1 as [|s l Hs IH Hf]; cbn; auto. rewrite IH.
  destruct l as [|x r]; cbn; auto.
  inversion Hf as [|? ? Hx _]; subst.
  destruct (labels_cmp (ser_l s) (ser_l x)); auto. now exfalso.
Qed.

Corollary sampled_id_sorted : forall limit ext sortSeries ss,
  Forall good_series ss -> limit <= 0 \/ total_samples ss <= limit ->
  label_sorted (map (with_ext ext) ss) ->
  sampled_path limit ext sortSeries ss = Ok (map (with_ext ext) ss).
Proof.
  intros. rewrite sampled_id by auto. cbn. destruct sortSeries; auto. now rewrite sort_series_sorted.
Qed.

(* the two data-losing corners of the sampled path *)
Lemma sampled_negzero_refuted : exists ss,
  Forall (fun s => ts_sorted (ser_s s) /\ below_noTS (ser_s s)) ss /\
  sampled_path 0 [] false ss <> Ok ss.
Proof.
  exists [mkSer [([97%N], [98%N])] [mkS 1000 KF neg_zero_bits]]. split.
  - repeat constructor.
  - vm_compute. discriminate.
Qed.

Lemma sampled_maxint64_refuted : exists ss,
  Forall (fun s => ts_sorted (ser_s s) /\ no_negzero (ser_s s)) ss /\
  sampled_path 0 [] false ss <> Ok ss.
Proof.
  exists [mkSer [([97%N], [98%N])] [mkS 1000 KF 1; mkS maxInt64 KF 2]]. split.
  - repeat constructor; intros _; vm_compute; discriminate.
  - vm_compute. discriminate.
Qed.

(* Seek on the sampled-response iterator: after one Next on a series that has floats and
   histograms, a Seek that has nothing to do (the current sample is already >= t) moves the
   histogram cursor from -1 to 0, and the first histogram is never returned *)
Lemma sampled_seek_mixed_refuted : exists all skip t,
  ts_sorted all /\ below_noTS all /\ no_negzero all /\ seek_probe (floats_of all) (hists_of all) skip t <> Some (Some (seek_spec all skip t)).
Proof.
  exists [mkS 10 KF 1; mkS 20 KH 3; mkS 30 KF 2], 1%nat, 10.
  split; [repeat constructor|split; [repeat constructor|split]].
  - repeat constructor; intros _; vm_compute; discriminate.
  - vm_compute. intros H. congruence.
Qed.

(* ... while on the same series a fresh iterator seeks correctly (the probe is not vacuous) *)
Example seek_fresh_example :
  seek_probe (floats_of [mkS 10 KF 1; mkS 20 KH 3; mkS 30 KF 2]) (hists_of [mkS 10 KF 1; mkS 20 KH 3; mkS 30 KF 2]) 0 15
  = Some (Some (seek_spec [mkS 10 KF 1; mkS 20 KH 3; mkS 30 KF 2] 0 15)).
Proof. vm_compute. reflexivity. Qed.

(* ------------------------------------------------------------------ streamed chunks: frames *)

Lemma frames_go_concat md rest : forall acc left, rest <> [] ->
  concat (frames_go md acc left rest) = acc ++ rest.
Proof.
  induction rest as [|c rest IH]; intros acc left Hne; [congruence|].
  cbn [frames_go]. destruct rest as [|c2 r].
  - cbn. now rewrite app_nil_r.
  - destruct (0 <? left - chunk_size c).
    + rewrite IH by congruence. now rewrite <- app_assoc.
    + cbn [concat]. rewrite IH by congruence. cbn. now rewrite <- app_assoc.
Qed.

Lemma frames_of_concat maxBytes lbls chs : concat (frames_of maxBytes lbls chs) = chs.
Proof.
  unfold frames_of. destruct chs as [|c r]; [reflexivity|].
  now rewrite frames_go_concat by congruence.
Qed.

Lemma frames_go_nonempty md rest : forall acc left,
  Forall (fun f => f <> []) (frames_go md acc left rest).
Proof.
  induction rest as [|c rest IH]; intros acc left; cbn [frames_go]; [constructor|].
  assert (Hne : acc ++ [c] <> []) by (destruct acc; cbn; congruence).
  destruct rest as [|c2 r].
  - constructor; auto.
  - destruct (0 <? left - chunk_size c); [apply IH|constructor; auto].
Qed.

Lemma frames_go_count md rest : forall acc left, rest <> [] -> frames_go md acc left rest <> [].
Proof.
  induction rest as [|c rest IH]; intros acc left Hne; [congruence|].
  cbn [frames_go]. destruct rest as [|c2 r]; [congruence|].
  destruct (0 <? left - chunk_size c); [apply IH; congruence|congruence].
Qed.

(* sizes are non-negative *)
Lemma sov_nonneg x : 0 <= sov x.
Proof. unfold sov. apply Z.div_pos; [|lia]. pose proof (Z.log2_nonneg (Z.lor (u64 x) 1)). lia. Qed.

Lemma chunk_size_nonneg c : 0 <= chunk_size c.
Proof.
  unfold chunk_size, varint_field_size, bytes_field_size.
  pose proof (sov_nonneg (c_min c)). pose proof (sov_nonneg (c_max c)).
  pose proof (sov_nonneg (c_enc c)). pose proof (sov_nonneg (c_len c)).
  destruct (c_min c =? 0), (c_max c =? 0), (c_enc c =? 0); destruct (0 <? c_len c) eqn:E;
    try apply Z.ltb_lt in E; lia.
Qed.

Definition total_size (chs : list chunk) : Z := fold_right (fun c a => chunk_size c + a) 0 chs.

Lemma total_size_cons c r : total_size (c :: r) = chunk_size c + total_size r.
Proof. reflexivity. Qed.

Lemma total_size_nonneg chs : 0 <= total_size chs.
Proof.
  induction chs as [|c r IH]; [cbn; lia|]. rewrite total_size_cons.
  pose proof (chunk_size_nonneg c). lia.
Qed.

(* a series whose chunks all fit below the frame budget is sent as one frame *)
Lemma frames_go_one md rest : forall acc left, rest <> [] -> total_size rest < left ->
  frames_go md acc left rest = [acc ++ rest].
Proof.
  induction rest as [|c rest IH]; intros acc left Hne Hsz; [congruence|].
  cbn [frames_go]. destruct rest as [|c2 r]; [reflexivity|].
  rewrite !total_size_cons in Hsz.
  pose proof (total_size_nonneg r). pose proof (chunk_size_nonneg c2).
  replace (0 <? left - chunk_size c) with true by (symmetry; apply Z.ltb_lt; lia).
  rewrite IH; [now rewrite <- app_assoc|congruence|].
  rewrite total_size_cons. lia.
Qed.

Lemma frames_of_one maxBytes lbls chs : chs <> [] ->
  total_size chs < max_data_length maxBytes lbls -> frames_of maxBytes lbls chs = [chs].
Proof. intros. unfold frames_of. now rewrite frames_go_one. Qed.

(* ------------------------------------------------------------------ streamed chunks: the client iterator *)

Lemma nondecr_app a b : ts_nondecr (a ++ b) ->
  ts_nondecr a /\ ts_nondecr b /\ Forall (fun x => Forall (fun y => s_t x <= s_t y) b) a.
Proof.
  induction a as [|x a IH]; cbn; intros H.
  - repeat split; auto; constructor.
  - inversion H as [|? ? Hs Hf]; subst. destruct (IH Hs) as [Ha [Hb Hab]].
    apply Forall_app in Hf. destruct Hf as [Hfa Hfb].
    repeat split; auto; constructor; auto.
Qed.

Lemma filter_above mint maxt l t : maxt < t -> Forall (fun y => t <= s_t y) l ->
  filter (in_range mint maxt) l = [].
Proof.
  intros Ht. induction 1 as [|y l Hy Hf IH]; cbn; auto.
  unfold in_range at 1. replace (s_t y <=? maxt) with false by (symmetry; apply Z.leb_gt; lia).
  rewrite andb_false_r. exact IH.
Qed.

Lemma scan_spec mint maxt cur : ts_nondecr cur ->
  fst (scan mint maxt cur) = filter (in_range mint maxt) cur /\
  (snd (scan mint maxt cur) = true -> exists s, In s cur /\ maxt < s_t s).
Proof.
  induction 1 as [|s cur Hs IH Hf]; cbn; [split; [auto|discriminate]|].
  destruct (maxt <? s_t s) eqn:E.
  - apply Z.ltb_lt in E. cbn. split.
    + unfold in_range at 1. replace (s_t s <=? maxt) with false by (symmetry; apply Z.leb_gt; lia).
      rewrite andb_false_r. symmetry. eapply filter_above; eauto.
    + intros _. exists s. auto.
  - apply Z.ltb_ge in E. destruct (scan mint maxt cur) as [r d] eqn:Es. cbn in IH.
    destruct IH as [IH1 IH2]. unfold in_range at 1.
    replace (s_t s <=? maxt) with true by (symmetry; apply Z.leb_le; lia). rewrite andb_true_r.
    destruct (mint <=? s_t s); cbn; (split; [now rewrite IH1|]);
      intros Hd; destruct (IH2 Hd) as [x [Hx Hlt]]; exists x; auto.
Qed.

Lemma chunked_iter_spec mint maxt chs : ts_nondecr (all_samples chs) ->
  chunked_iter mint maxt chs = filter (in_range mint maxt) (all_samples chs).
Proof.
  induction chs as [|c rest IH]; cbn [chunked_iter all_samples flat_map]; auto.
  intros H. apply nondecr_app in H. destruct H as [Hc [Hr Hcr]].
  destruct (scan_spec mint maxt (c_samples c) Hc) as [H1 H2].
  destruct (scan mint maxt (c_samples c)) as [r d]. cbn in H1, H2. subst r.
  rewrite filter_app. destruct d.
  - destruct (H2 eq_refl) as [x [Hx Hlt]].
    rewrite Forall_forall in Hcr. specialize (Hcr x Hx).
    erewrite (filter_above mint maxt (flat_map c_samples rest)); eauto. now rewrite app_nil_r.
  - f_equal. apply IH. exact Hr.
Qed.

Lemma all_samples_app a b : all_samples (a ++ b) = all_samples a ++ all_samples b.
Proof. unfold all_samples. apply flat_map_app. Qed.

Lemma chunked_iter_frames mint maxt fs : ts_nondecr (all_samples (concat fs)) ->
  concat (map (chunked_iter mint maxt) fs) = filter (in_range mint maxt) (all_samples (concat fs)).
Proof.
  induction fs as [|f fs IH]; cbn; auto.
  rewrite all_samples_app. intros H. apply nondecr_app in H. destruct H as [Hf [Hfs _]].
  rewrite filter_app, chunked_iter_spec by auto. f_equal. auto.
Qed.

(* per series: whatever the frame size, the samples the client yields for the frames of one
   series, taken together, are exactly the in-range samples of the series' chunks *)
Theorem chunked_series_samples : forall maxBytes lbls mint maxt chs,
  ts_nondecr (all_samples chs) ->
  concat (map (chunked_iter mint maxt) (frames_of maxBytes lbls chs))
  = filter (in_range mint maxt) (all_samples chs).
Proof.
  intros. rewrite chunked_iter_frames; now rewrite frames_of_concat.
Qed.

(* ------------------------------------------------------------------ streamed chunks: whole response *)

Fixpoint adj_distinct (l : list labels) : Prop :=
  match l with
  | a :: ((b :: _) as r) => labels_eqb a b = false /\ adj_distinct r
  | _ => True
  end.

Definition good_cseries (s : cseries) : Prop := ts_nondecr (all_samples (cs_c s)) /\ cs_c s <> [].

Definition head_differs (lbls : labels) (l : list series) : Prop :=
  match l with [] => True | s :: _ => labels_eqb lbls (ser_l s) = false end.

Lemma reassemble_frames mint maxt lbls tail : forall fs, fs <> [] ->
  head_differs lbls (reassemble tail) ->
  reassemble (map (fun f => mkSer lbls (chunked_iter mint maxt f)) fs ++ tail)
  = mkSer lbls (concat (map (chunked_iter mint maxt) fs)) :: reassemble tail.
Proof.
  induction fs as [|f fs IH]; intros Hne Hd; [congruence|].
  destruct fs as [|f2 fs].
  - cbn [map app concat reassemble]. rewrite app_nil_r.
    destruct (reassemble tail) as [|s' r']; auto. cbn in Hd. cbn [ser_l]. now rewrite Hd.
  - change (map (fun f => mkSer lbls (chunked_iter mint maxt f)) (f :: f2 :: fs) ++ tail)
      with (mkSer lbls (chunked_iter mint maxt f) ::
            (map (fun f => mkSer lbls (chunked_iter mint maxt f)) (f2 :: fs) ++ tail)).
    cbn [reassemble]. rewrite IH by (auto; congruence).
    cbn [ser_l ser_s]. rewrite labels_eqb_refl. reflexivity.
Qed.

Lemma client_chunked_app mint maxt a b :
  client_chunked mint maxt (a ++ b) = client_chunked mint maxt a ++ client_chunked mint maxt b.
Proof. unfold client_chunked. apply map_app. Qed.

(* gluing neighbouring entries with equal label sets turns the client's series set into the
   direct result: every series once, with exactly its in-range samples, in the server's order *)
Theorem chunked_reassemble : forall maxBytes ext mint maxt ss,
  Forall good_cseries ss ->
  adj_distinct (map (fun s => merge_labels (cs_l s) ext) ss) ->
  reassemble (chunked_path maxBytes ext mint maxt ss) = map (trim_series mint maxt ext) ss.
Proof.
  intros maxBytes ext mint maxt ss Hg. unfold chunked_path, stream_frames.
  induction Hg as [|s ss [Hs Hne] Hg IH]; intros Hd; [reflexivity|].
  cbn [flat_map map]. rewrite client_chunked_app.
  unfold stream_series at 1. unfold client_chunked at 1. rewrite map_map. cbn [f_l f_c].
  assert (Hd' : adj_distinct (map (fun s => merge_labels (cs_l s) ext) ss)).
  { cbn in Hd. destruct ss; cbn in *; tauto. }
  specialize (IH Hd').
  rewrite reassemble_frames.
  - rewrite IH. cbn [map]. f_equal. unfold trim_series. f_equal. now apply chunked_series_samples.
  - unfold frames_of. apply frames_go_count. exact Hne.
  - rewrite IH. destruct ss as [|s2 ss2]; cbn; auto. cbn in Hd. tauto.
Qed.

(* when every series fits into one frame the client's series set IS the direct result *)
Definition fits (maxBytes : Z) (ext : labels) (s : cseries) : Prop :=
  total_size (cs_c s) < max_data_length maxBytes (merge_labels (cs_l s) ext).

Theorem chunked_id_one_frame : forall maxBytes ext mint maxt ss,
  Forall good_cseries ss -> Forall (fits maxBytes ext) ss ->
  chunked_path maxBytes ext mint maxt ss = map (trim_series mint maxt ext) ss.
Proof.
  intros maxBytes ext mint maxt ss Hg Hf. unfold chunked_path, stream_frames.
  induction Hg as [|s ss [Hs Hne] Hg IH]; [reflexivity|].
  inversion Hf as [|? ? Hfs Hf']; subst.
  cbn [flat_map map]. rewrite client_chunked_app, IH by auto.
  unfold stream_series, fits in *. rewrite frames_of_one by auto.
  unfold client_chunked at 1. cbn [map app f_l f_c].
  f_equal. unfold trim_series. f_equal. now apply chunked_iter_spec.
Qed.

(* ... and when a series does not fit, it is not: the client returns one entry per frame *)
Lemma chunked_split_refuted : exists maxBytes ext mint maxt ss,
  Forall good_cseries ss /\
  adj_distinct (map (fun s => merge_labels (cs_l s) ext) ss) /\
  Forall (fun s => Forall (fun c => chunk_size c < max_data_length maxBytes (merge_labels (cs_l s) ext)) (cs_c s)) ss /\
  chunked_path maxBytes ext mint maxt ss <> map (trim_series mint maxt ext) ss.
Proof.
  exists 60, [], 0, 100,
    [mkCS [([97%N], [98%N])] [mkC 1 2 1 30 [mkS 1 KF 5; mkS 2 KF 6]; mkC 3 4 1 30 [mkS 3 KF 7; mkS 4 KF 8];
                               mkC 5 6 1 30 [mkS 5 KF 7; mkS 6 KF 8]]].
  split; [|split; [|split]].
  - constructor; [|constructor]. split; [|discriminate]. cbn. repeat constructor; cbn; lia.
  - exact I.
  - repeat constructor; vm_compute; reflexivity.
  - intros H. apply (f_equal (@length _)) in H. vm_compute in H. discriminate.
Qed.

(* ------------------------------------------------------------------ non-vacuity witnesses *)

Example good_series_example :
  Forall good_series
    [mkSer [([97%N], [98%N])] [mkS 10 KF 4607182418800017408; mkS 20 KH 77; mkS 30 KFH 78; mkS 40 KF 0];
     mkSer [([97%N], [99%N])] []]
  /\ sampled_path 3 [([122%N], [49%N])] true
       [mkSer [([97%N], [98%N])] [mkS 10 KF 4607182418800017408; mkS 20 KH 77; mkS 30 KFH 78; mkS 40 KF 0]]
     = ErrLimit.
Proof.
  split; [|vm_compute; reflexivity].
  repeat constructor; cbn; try lia; try (unfold noTS, maxInt64; lia); try discriminate;
    intros _; unfold neg_zero_bits; lia.
Qed.

Definition ex_cseries : list cseries :=
  [mkCS [([97%N], [98%N])] [mkC 1 2 1 30 [mkS 1 KF 5; mkS 2 KF 6]; mkC 3 4 1 30 [mkS 3 KF 7; mkS 4 KF 8];
                             mkC 5 9 1 30 [mkS 5 KF 7; mkS 9 KF 8]];
   mkCS [([97%N], [99%N])] [mkC 2 2 2 50 [mkS 2 KH 1]]].

Example good_cseries_example :
  Forall good_cseries ex_cseries /\ adj_distinct (map (fun s => merge_labels (cs_l s) []) ex_cseries)
  /\ length (stream_frames 60 [] ex_cseries) = 3%nat
  /\ length (chunked_path 60 [] 2 5 ex_cseries) = 3%nat
  /\ Forall (fits 1000 []) ex_cseries.
Proof.
  split; [|split; [|split; [|split]]].
  - repeat constructor; cbn; try lia; discriminate.
  - split; [vm_compute; reflexivity|exact I].
  - vm_compute. reflexivity.
  - vm_compute. reflexivity.
  - repeat (constructor; [vm_compute; reflexivity|]). constructor.
Qed.

(* ------------------------------------------------------------------ read.go querier: external labels round trip *)

Lemma merge_labels_eq p s :
  merge_labels p s =
  match p, s with
  | [], _ => s
  | _, [] => p
  | (pn, pv) :: p', (sn, sv) :: s' =>
      match str_cmp pn sn with
      | Lt => (pn, pv) :: merge_labels p' s
      | Gt => (sn, sv) :: merge_labels p s'
      | Eq => (pn, pv) :: merge_labels p' s'
      end
  end.
Proof. destruct p as [|[pn pv] p']; destruct s as [|[sn sv] s']; reflexivity. Qed.

Definition keeps (names : list str) (p : label) : Prop := str_mem (fst p) names = false /\ snd p <> [].

Lemma strip_keep names l : Forall (keeps names) l -> strip_labels names l = l.
Proof.
  unfold strip_labels. induction 1 as [|[n v] l [Hn Hv] Hf IH]; cbn [filter fst snd]; auto.
  cbn in Hn, Hv. rewrite Hn. destruct v; [congruence|]. cbn [negb andb]. now rewrite IH.
Qed.

Lemma strip_drop names l : Forall (fun p => str_mem (fst p) names = true) l -> strip_labels names l = [].
Proof.
  unfold strip_labels. induction 1 as [|[n v] l Hn Hf IH]; cbn [filter fst snd]; auto.
  cbn in Hn. now rewrite Hn.
Qed.

Lemma strip_merge names p : Forall (keeps names) p -> forall s,
  Forall (fun x => str_mem (fst x) names = true) s ->
  strip_labels names (merge_labels p s) = p.
Proof.
  induction 1 as [|[pn pv] p' [Hn Hv] Hp IHp]; intros s Hs.
  - rewrite merge_labels_eq. now apply strip_drop.
  - induction Hs as [|[sn sv] s' Hsn Hs IHs].
    + rewrite merge_labels_eq. apply strip_keep. constructor; [split|]; auto.
    + rewrite merge_labels_eq. cbn in Hn, Hv, Hsn. destruct (str_cmp pn sn).
      * unfold strip_labels at 1. cbn [filter fst snd]. rewrite Hn. destruct pv; [congruence|].
        cbn [negb andb]. f_equal. now apply IHp.
      * unfold strip_labels at 1. cbn [filter fst snd]. rewrite Hn. destruct pv; [congruence|].
        cbn [negb andb]. f_equal. apply IHp. constructor; auto.
      * unfold strip_labels at 1. cbn [filter fst snd]. rewrite Hsn. cbn [negb andb]. exact IHs.
Qed.

Lemma str_mem_self n l : In n l -> str_mem n l = true.
Proof.
  unfold str_mem. intros H. apply existsb_exists. exists n. split; auto. apply str_eqb_refl.
Qed.

Lemma ext_names_in (ext : labels) : Forall (fun x => str_mem (fst x) (map fst ext) = true) ext.
Proof. apply Forall_forall. intros x Hx. apply str_mem_self. now apply in_map. Qed.

Lemma added_names_all (ext : labels) mnames :
  Forall (fun l => str_mem (fst l) mnames = false) ext -> added_names ext mnames = map fst ext.
Proof.
  unfold added_names. induction 1 as [|x ext Hx Hf IH]; cbn; auto. rewrite Hx. cbn. now rewrite IH.
Qed.

(* stored series: no empty label value, no label named like an external label *)
Definition storable (ext : labels) (l : labels) : Prop := Forall (keeps (map fst ext)) l.

Lemma strip_with_ext ext ss : Forall (fun s => storable ext (ser_l s)) ss ->
  strip_series (map fst ext) (map (with_ext ext) ss) = ss.
Proof.
  unfold strip_series. induction 1 as [|[l sm] ss Hs Hf IH]; cbn [map]; auto. rewrite IH. f_equal.
  unfold with_ext. cbn [ser_l ser_s]. f_equal. apply strip_merge; auto. apply ext_names_in.
Qed.

(* querier of read.go over the sampled response = the direct result *)
Theorem querier_sampled_id : forall limit maxBytes ext mnames sortSeries mint maxt ss chunks,
  Forall good_series ss -> limit <= 0 \/ total_samples ss <= limit ->
  Forall (fun l => str_mem (fst l) mnames = false) ext ->
  Forall (fun s => storable ext (ser_l s)) ss ->
  label_sorted (map (with_ext ext) ss) ->
  querier_path false limit maxBytes ext mnames sortSeries mint maxt ss chunks = Ok ss.
Proof.
  intros. unfold querier_path. rewrite sampled_id_sorted by auto.
  rewrite added_names_all by auto. now rewrite strip_with_ext.
Qed.

(* ... and over the streamed response, when every series fits one frame *)
Theorem querier_chunked_id : forall limit maxBytes ext mnames sortSeries mint maxt direct ss,
  Forall good_cseries ss -> Forall (fits maxBytes ext) ss ->
  Forall (fun l => str_mem (fst l) mnames = false) ext ->
  Forall (fun s => storable ext (cs_l s)) ss ->
  querier_path true limit maxBytes ext mnames sortSeries mint maxt direct ss
  = Ok (map (fun s => mkSer (cs_l s) (filter (in_range mint maxt) (all_samples (cs_c s)))) ss).
Proof.
  intros limit maxBytes ext mnames sortSeries mint maxt direct ss Hg Hf Hm Hs. unfold querier_path.
  rewrite chunked_id_one_frame by auto. rewrite added_names_all by auto. f_equal.
  clear Hg Hf. unfold strip_series. induction Hs as [|s ss Hs Hss IH]; cbn [map]; auto. rewrite IH. f_equal.
  unfold trim_series. cbn [ser_l ser_s]. f_equal. apply strip_merge; auto. apply ext_names_in.
Qed.

Example querier_example :
  storable [([122%N], [49%N])] [([97%N], [98%N]); ([99%N], [100%N])] /\
  querier_path false 0 100 [([122%N], [49%N])] [[97%N]] true 0 100
     [mkSer [([97%N], [98%N])] [mkS 5 KF 1]] [] = Ok [mkSer [([97%N], [98%N])] [mkS 5 KF 1]].
Proof. split; [repeat constructor; discriminate|vm_compute; reflexivity]. Qed.

(* ------------------------------------------------------------------ frame budget *)

Lemma total_size_app a b : total_size (a ++ b) = total_size a + total_size b.
Proof.
  induction a as [|x a IH]; [change (total_size b = 0 + total_size b); lia|].
  cbn [app]. rewrite !total_size_cons, IH. lia.
Qed.

Definition within_budget (md : Z) (f : list chunk) : Prop :=
  removelast f = [] \/ total_size (removelast f) < md.

Lemma frames_go_budget md rest : forall acc left,
  left = md - total_size acc -> (acc = [] \/ total_size acc < md) ->
  Forall (within_budget md) (frames_go md acc left rest).
Proof.
  induction rest as [|c rest IH]; intros acc left Hl Hacc; cbn [frames_go]; [constructor|].
  assert (Hwb : within_budget md (acc ++ [c])).
  { unfold within_budget. rewrite removelast_last. destruct Hacc; auto. }
  destruct rest as [|c2 r]; [constructor; auto|].
  destruct (0 <? left - chunk_size c) eqn:E.
  - apply IH.
    + rewrite total_size_app, total_size_cons. change (total_size []) with 0. lia.
    + right. apply Z.ltb_lt in E. rewrite total_size_app, total_size_cons. change (total_size []) with 0. lia.
  - constructor; auto. apply IH; [change (total_size []) with 0; lia|auto].
Qed.

(* every frame holds a single chunk, or its chunks except the last stay below the budget
   (maxBytesInFrame minus the label sizes): "inaccuracy of at most one chunk" *)
Theorem frames_budget : forall maxBytes lbls chs,
  Forall (within_budget (max_data_length maxBytes lbls)) (frames_of maxBytes lbls chs).
Proof. intros. unfold frames_of. apply frames_go_budget; [change (total_size []) with 0; lia|auto]. Qed.

(* proof/FastRegexProofs2.v — C17, continued: clearBeginEndText / clearCapture /
   optimizeAlternatingSimpleContains preserve the anchored meaning; the top-level theorems. *)
From Coq Require Import List ZArith Bool Lia.
From Verif Require Import lib.Regex lib.RegexProofs model.FastRegex proof.FastRegexProofs.
Import ListNotations.
Open Scope Z_scope.

Ltac bool_eq :=
  rewrite ?isnil_app; cbn [isnil app];
  repeat match goal with |- context [isnil ?l] => destruct (isnil l) end;
  repeat match goal with |- context [andb ?b _] => is_var b; destruct b end;
  reflexivity.
Ltac flags H :=
  match goal with
  | |- ?M ?b1 ?e1 ?r ?s =>
      match type of H with
      | _ ?b2 ?e2 _ _ =>
          let E1 := fresh in let E2 := fresh in
          assert (E1 : b2 = b1) by bool_eq; assert (E2 : e2 = e1) by bool_eq;
          exact (eq_ind e2 (fun e' => M b1 e' r s) (eq_ind b2 (fun b' => M b' e2 r s) H b1 E1) e1 E2)
      end
  end.

Section Sem.
Variable F : rune -> rune -> bool.
Notation CM := (CM F).
Notation ML := (ML F).

(* ---- expressions that can only match the empty string *)
Definition oe (c : cre) : Prop := forall b e s, CM b e c s -> s = [].

Lemma oe_beg : oe CBeg. Proof. intros b e s H. now apply CM_beg_inv in H. Qed.
Lemma oe_end : oe CEnd. Proof. intros b e s H. now apply CM_end_inv in H. Qed.
Lemma oe_eps : oe CEps. Proof. intros b e s H. now apply CM_eps_inv in H. Qed.
Lemma oe_cat a c : oe a -> oe c -> oe (CCat a c).
Proof.
  intros Ha Hc b e s H. apply CM_cat_inv in H. destruct H as (s1 & s2 & -> & H1 & H2).
  apply Ha in H1. apply Hc in H2. now subst.
Qed.
Lemma oe_alt a c : oe a -> oe c -> oe (CAlt a c).
Proof. intros Ha Hc b e s H. apply CM_alt_inv in H. destruct H; eauto. Qed.
Lemma oe_star a : oe a -> oe (CStar a).
Proof.
  intros Ha b e s H. apply CM_star_inv in H. destruct H as [H | (s1 & s2 & _ & Hn & H1 & _)]; auto.
  apply Ha in H1. congruence.
Qed.
Lemma oe_crep n a : oe a -> oe (crep n a).
Proof. intros Ha. induction n; simpl; [apply oe_eps | now apply oe_cat]. Qed.
Lemma oe_copt n a : oe a -> oe (copt n a).
Proof. intros Ha. induction n; simpl; [apply oe_eps | apply oe_alt; [apply oe_eps | now apply oe_cat]]. Qed.

Lemma null_crep n a b e : nullable b e a = true -> nullable b e (crep n a) = true.
Proof. intros H. induction n; simpl; auto. now rewrite H, IHn. Qed.
Lemma null_copt n a b e : nullable b e (copt n a) = true.
Proof. destruct n; reflexivity. Qed.

Lemma anchor_sem c s : oe c -> nullable true true c = true -> (CM true true c s <-> s = []).
Proof.
  intros Ho Hn. split; [apply Ho | intros ->; now apply nullable_spec].
Qed.

Lemma is_begin_eq x : is_begin x = true -> x = RBeginText.
Proof. destruct x; simpl; congruence. Qed.
Lemma is_end_eq x : is_end x = true -> x = REndText.
Proof. destruct x; simpl; congruence. Qed.

Lemma anchor_cases x : is_begin x || is_end x = true ->
  oe (lower x) /\ nullable true true (lower x) = true.
Proof.
  intros H. apply orb_true_iff in H. destruct H as [H | H].
  - apply is_begin_eq in H. subst. split; [apply oe_beg | reflexivity].
  - apply is_end_eq in H. subst. split; [apply oe_end | reflexivity].
Qed.

Lemma drop_begin e t s : ML true e (RConcat (RBeginText :: t)) s <-> ML true e (RConcat t) s.
Proof.
  rewrite ML_concat_cons. split.
  - intros (s1 & s2 & -> & H1 & H2). apply CM_beg_inv in H1. destruct H1 as [-> _]. simpl. flags H2.
  - intros H. exists [], s. split; auto. split; [constructor | flags H].
Qed.

Lemma drop_end b l s : l <> [] -> last l RNoMatch = REndText ->
  (ML b true (RConcat l) s <-> ML b true (RConcat (removelast l)) s).
Proof.
  intros Hne Hl. rewrite (app_removelast_last RNoMatch Hne) at 1. rewrite Hl, ML_concat_app. split.
  - intros (s1 & s2 & -> & H1 & H2). rewrite ML_concat_single in H2. apply CM_end_inv in H2.
    destruct H2 as [-> _]. rewrite app_nil_r. flags H1.
  - intros H. exists s, []. rewrite app_nil_r. split; auto. split; [flags H |].
    rewrite ML_concat_single. constructor.
Qed.

Theorem cbe_sem r s : Matches F (clear_begin_end r) s <-> Matches F r s.
Proof.
  unfold Matches. change (CM true true (lower ?x) s) with (ML true true x s).
  destruct r; try reflexivity.
  - (* capture *) simpl. destruct (is_begin r || is_end r) eqn:E; [| reflexivity].
    destruct (anchor_cases r E) as [Ho Hn]. unfold FastRegexProofs.ML. simpl.
    rewrite (anchor_sem _ s Ho Hn). split; [apply CM_eps_inv | intros ->; constructor].
  - (* star *) simpl. destruct (is_begin r || is_end r) eqn:E; [| reflexivity].
    destruct (anchor_cases r E) as [Ho Hn]. unfold FastRegexProofs.ML. simpl.
    rewrite (anchor_sem (CStar (lower r)) s (oe_star _ Ho) eq_refl).
    split; [apply CM_eps_inv | intros ->; constructor].
  - (* plus *) simpl. destruct (is_begin r || is_end r) eqn:E; [| reflexivity].
    destruct (anchor_cases r E) as [Ho Hn]. unfold FastRegexProofs.ML. simpl.
    rewrite (anchor_sem (CCat (lower r) (CStar (lower r))) s (oe_cat _ _ Ho (oe_star _ Ho))).
    + split; [apply CM_eps_inv | intros ->; constructor].
    + simpl. now rewrite Hn.
  - (* quest *) simpl. destruct (is_begin r || is_end r) eqn:E; [| reflexivity].
    destruct (anchor_cases r E) as [Ho Hn]. unfold FastRegexProofs.ML. simpl.
    rewrite (anchor_sem (CAlt (lower r) CEps) s (oe_alt _ _ Ho oe_eps)).
    + split; [apply CM_eps_inv | intros ->; constructor].
    + simpl. now rewrite Hn.
  - (* repeat *) simpl. destruct (is_begin r || is_end r) eqn:E; [| reflexivity].
    destruct (anchor_cases r E) as [Ho Hn]. unfold FastRegexProofs.ML. simpl.
    rewrite (anchor_sem (CCat (crep (Z.to_nat mn) (lower r))
               (if mx <? 0 then CStar (lower r) else copt (Z.to_nat (mx - mn)) (lower r))) s).
    + split; [apply CM_eps_inv | intros ->; constructor].
    + apply oe_cat; [now apply oe_crep |]. destruct (mx <? 0); [now apply oe_star | now apply oe_copt].
    + simpl. rewrite (null_crep _ _ _ _ Hn). destruct (mx <? 0); [reflexivity | apply null_copt].
  - (* concat *)
    destruct l as [| x [| y t]]; try reflexivity.
    + simpl. destruct (is_begin x || is_end x) eqn:E; [| reflexivity].
      destruct (anchor_cases x E) as [Ho Hn]. rewrite ML_concat_single.
      unfold FastRegexProofs.ML. simpl. rewrite (anchor_sem _ s Ho Hn).
      split; [apply CM_eps_inv | intros ->; constructor].
    + cbn [clear_begin_end].
      set (l1 := if is_begin x then y :: t else x :: y :: t).
      assert (H1 : ML true true (RConcat (x :: y :: t)) s <-> ML true true (RConcat l1) s).
      { unfold l1. destruct (is_begin x) eqn:E; [| reflexivity].
        apply is_begin_eq in E. subst x. apply drop_begin. }
      assert (Hne : l1 <> []). { unfold l1. destruct (is_begin x); discriminate. }
      rewrite H1. destruct (is_end (last l1 RNoMatch)) eqn:E; [| reflexivity].
      apply is_end_eq in E. symmetry. now apply drop_end.
Qed.

Lemma forallb_removelast {A} (f : A -> bool) l : forallb f l = true -> forallb f (removelast l) = true.
Proof.
  induction l as [| a [| b l] IH]; simpl; auto. intros H. apply andb_true_iff in H.
  destruct H as [Ha H]. rewrite Ha. simpl. apply IH. exact H.
Qed.

Lemma cbe_wf r : wf_csb r = true -> wf_csb (clear_begin_end r) = true.
Proof.
  destruct r; simpl; auto; try (destruct (is_begin r || is_end r); auto).
  destruct l as [| x [| y t]]; auto.
  - destruct (is_begin x || is_end x); auto.
  - intros H. set (l1 := if is_begin x then y :: t else x :: y :: t).
    assert (H1 : forallb wf_csb l1 = true).
    { unfold l1. destruct (is_begin x); auto. simpl in H. apply andb_true_iff in H. tauto. }
    destruct (is_end (last l1 RNoMatch)); simpl; auto. now apply forallb_removelast.
Qed.
End Sem.

(* ================= optimizeEqualOrPrefixStringMatchers (case-sensitive) ================= *)
Section SmIndOr.
Variable P : sm -> Prop.
Hypothesis H_or : forall l, Forall P l -> P (SOr l).
Hypothesis H_other : forall m, (forall l, m <> SOr l) -> P m.
Lemma sm_ind_or : forall m, P m.
Proof.
  fix IH 1. intros m. destruct m as [ | | l | | | | | | | | | ];
    try (apply H_other; intros l' E; discriminate).
  apply H_or. induction l as [| a l IHl]; constructor; [apply IH | exact IHl].
Qed.
End SmIndOr.

Section Opt.
Variable F : rune -> rune -> bool.
Variable NL TL : bytes -> bytes.
Notation smm := (smm F NL).

Definition leafm (s : str) (l : leaf) : bool :=
  match l with LEq v cs => smm (SEqual v cs) s | LPre _ _ m => smm m s end.

Lemma existsb_concat {A} (f : A -> bool) (ls : list (list A)) :
  existsb f (concat ls) = existsb (existsb f) ls.
Proof. induction ls; simpl; auto. now rewrite existsb_app, IHls. Qed.

Lemma leaves_sem : forall M lv, leaves M = Some lv -> forall s, smm M s = existsb (leafm s) lv.
Proof.
  intros M. induction M using sm_ind_or; intros lv Hl s.
  - simpl in Hl. destruct (all_some (map leaves l)) as [ls |] eqn:E; [| discriminate].
    inversion Hl; subst. cbn [FastRegex.smm]. rewrite existsb_concat. clear Hl.
    revert ls E. induction H as [| x l Hx _ IH]; intros ls E; simpl in E.
    + inversion E; subst. reflexivity.
    + destruct (leaves x) as [lx |] eqn:Ex; [| discriminate].
      destruct (all_some (map leaves l)) as [ls' |] eqn:E'; [| discriminate].
      inversion E; subst. simpl. now rewrite (Hx lx eq_refl s), (IH ls' eq_refl).
  - destruct M; simpl in Hl; try discriminate; inversion Hl; subst; simpl; try now rewrite orb_false_r.
    exfalso. eapply H. reflexivity.
Qed.

(* what the callers guarantee about the leaves in the case-sensitive fragment *)
Fixpoint good_or (m : sm) : bool :=
  match m with
  | SOr l => forallb good_or l
  | SEqual _ cs => cs
  | SPrefix cs p _ => cs && negb (isnil p)
  | _ => true
  end.

Definition good_leaf (l : leaf) : Prop :=
  match l with
  | LEq _ cs => cs = true
  | LPre p cs m => cs = true /\ p <> [] /\ exists rt, m = SPrefix true p rt
  end.

Lemma leaves_good : forall M lv, good_or M = true -> leaves M = Some lv -> Forall good_leaf lv.
Proof.
  intros M. induction M using sm_ind_or; intros lv Hg Hl.
  - simpl in Hl, Hg. destruct (all_some (map leaves l)) as [ls |] eqn:E; [| discriminate].
    inversion Hl; subst. clear Hl.
    revert ls E. induction H as [| x l Hx _ IH]; intros ls E; simpl in E.
    + inversion E; subst. constructor.
    + destruct (leaves x) as [lx |] eqn:Ex; [| discriminate].
      destruct (all_some (map leaves l)) as [ls' |] eqn:E'; [| discriminate].
      inversion E; subst. simpl in Hg. apply andb_true_iff in Hg. destruct Hg as [Hgx Hgl].
      simpl. apply Forall_app. split; [now apply Hx | now apply IH].
  - destruct M; simpl in Hl; try discriminate; inversion Hl; subst; simpl in Hg.
    + repeat constructor. exact Hg.
    + exfalso. eapply H. reflexivity.
    + apply andb_true_iff in Hg. destruct Hg as [-> Hp]. repeat constructor.
      * intros ->. discriminate.
      * eauto.
Qed.

(* -- the prefix map *)
Definition pre_hit (g : sm -> bool) (k : bytes) (p : bytes * list sm) : bool :=
  match p with (k', ms) => str_eqb k' k && existsb g ms end.

Lemma add_prefix_sem g k k0 m : forall acc,
  existsb (pre_hit g k) (add_prefix k0 m acc) = existsb (pre_hit g k) acc || (str_eqb k0 k && g m).
Proof.
  induction acc as [| [k' ms] t IH]; simpl.
  - now rewrite !orb_false_r.
  - destruct (str_eqb k' k0) eqn:E; simpl.
    + apply str_eqb_eq in E. subst k'. rewrite existsb_app. simpl.
      destruct (str_eqb k0 k), (existsb g ms), (g m), (existsb (pre_hit g k) t); reflexivity.
    + rewrite IH. now rewrite orb_assoc.
Qed.

Definition pre_step (cs : bool) (minp : Z) (acc : list (bytes * list sm)) (l : leaf) :=
  match l with
  | LPre p _ m =>
      let k := firstn (Z.to_nat minp) (enc p) in
      add_prefix (if cs then k else to_lower TL k) m acc
  | _ => acc
  end.

Lemma pre_fold_sem g k minp : forall lv acc,
  existsb (pre_hit g k) (fold_left (pre_step true minp) lv acc) =
  existsb (pre_hit g k) acc ||
  existsb (fun l => match l with
                    | LPre p _ m => str_eqb (firstn (Z.to_nat minp) (enc p)) k && g m
                    | _ => false end) lv.
Proof.
  induction lv as [| l lv IH]; intros acc; simpl.
  - now rewrite orb_false_r.
  - rewrite IH. destruct l; simpl; [reflexivity |]. rewrite add_prefix_sem. now rewrite orb_assoc.
Qed.

(* -- the minimum prefix length *)
Definition min_step (a : option Z) (l : leaf) : option Z :=
  match l with
  | LPre p _ _ => match a with None => Some (blen p) | Some x => Some (Z.min x (blen p)) end
  | _ => a
  end.

Lemma min_fold_some : forall lv x, exists y, fold_left min_step lv (Some x) = Some y /\ y <= x /\
  forall p cs m, In (LPre p cs m) lv -> y <= blen p.
Proof.
  induction lv as [| l lv IH]; intros x; simpl.
  - exists x. split; auto. split; [lia | intros ? ? ? []].
  - destruct l as [v c | p c m]; simpl.
    + destruct (IH x) as (y & Hy & Hle & Hall). exists y. split; auto. split; auto.
      intros p cs m [H | H]; [discriminate | eauto].
    + destruct (IH (Z.min x (blen p))) as (y & Hy & Hle & Hall). exists y. split; auto. split; [lia |].
      intros p' cs m' [H | H]; [inversion H; subst; lia | eauto].
Qed.

Lemma min_fold_none : forall lv,
  (fold_left min_step lv None = None /\ forall p cs m, ~ In (LPre p cs m) lv) \/
  (exists y, fold_left min_step lv None = Some y /\ (forall p cs m, In (LPre p cs m) lv -> y <= blen p)).
Proof.
  induction lv as [| l lv IH]; simpl.
  - left. split; auto.
  - destruct l as [v c | p c m]; simpl.
    + destruct IH as [[H1 H2] | (y & H1 & H2)].
      * left. split; auto. intros p cs m [H | H]; [discriminate | eapply H2; eauto].
      * right. exists y. split; auto. intros p cs m [H | H]; [discriminate | eauto].
    + right. destruct (min_fold_some lv (blen p)) as (y & Hy & Hle & Hall). exists y. split; auto.
      intros p' cs m' [H | H]; [inversion H; subst; lia | eauto].
Qed.

Lemma enc_app a b : enc (a ++ b) = enc a ++ enc b.
Proof. unfold enc. apply flat_map_app. Qed.

Lemma enc1_len r : (1 <= length (enc1 r))%nat.
Proof. unfold enc1. destruct (r <? 128), (r <? 2048), (r <? 65536); simpl; lia. Qed.

Lemma blen_pos p : p <> [] -> 0 < blen p.
Proof.
  destruct p as [| r p]; [congruence |]. intros _. unfold blen, len, enc. simpl.
  rewrite app_length. pose proof (enc1_len r). lia.
Qed.

Lemma blen_app a b : blen (a ++ b) = blen a + blen b.
Proof. unfold blen, len. rewrite enc_app, app_length. lia. Qed.

Lemma blen_nonneg a : 0 <= blen a.
Proof. unfold blen, len. lia. Qed.

Lemma mask_of_mem vs s : mem_str s vs = true -> mask_ok vs s = true.
Proof.
  intros H. apply mem_str_In in H. unfold mask_ok. apply existsb_exists. exists s. split; auto.
  apply Z.eqb_refl.
Qed.

Lemma mem_str_sym_exists s vals :
  existsb (fun v => str_eqb v s) vals = mem_str s vals.
Proof.
  unfold mem_str. induction vals as [| v vals IH]; simpl; auto. rewrite IH. f_equal.
  destruct (str_eqb v s) eqn:E1, (str_eqb s v) eqn:E2; auto.
  - apply str_eqb_eq in E1. subst. rewrite (proj2 (str_eqb_eq s s) eq_refl) in E2. discriminate.
  - apply str_eqb_eq in E2. subst. rewrite (proj2 (str_eqb_eq v v) eq_refl) in E1. discriminate.
Qed.

Lemma min_fold_pos : forall lv x, 0 < x ->
  (forall p cs m, In (LPre p cs m) lv -> 0 < blen p) ->
  forall y, fold_left min_step lv (Some x) = Some y -> 0 < y.
Proof.
  induction lv as [| l lv IH]; intros x Hx Hall y H; simpl in H.
  - inversion H; subst. exact Hx.
  - destruct l as [v c | p c m]; simpl in H.
    + eapply IH; eauto. intros; eapply Hall; right; eauto.
    + eapply (IH (Z.min x (blen p))); eauto.
      * assert (0 < blen p) by (eapply Hall; left; eauto). lia.
      * intros; eapply Hall; right; eauto.
Qed.

Lemma min_fold_pos' : forall lv,
  (forall p cs m, In (LPre p cs m) lv -> 0 < blen p) ->
  forall y, fold_left min_step lv None = Some y -> 0 < y.
Proof.
  induction lv as [| l lv IH]; intros Hall y H; simpl in H; [discriminate |].
  destruct l as [v c | p c m]; simpl in H.
  - eapply IH; eauto. intros; eapply Hall; right; eauto.
  - eapply (min_fold_pos lv (blen p)); eauto.
    + eapply Hall; left; eauto.
    + intros; eapply Hall; right; eauto.
Qed.

Lemma no_pre_of_len lv : len (filter (fun l => negb (is_leq l)) lv) = 0 ->
  forall p cs m, ~ In (LPre p cs m) lv.
Proof.
  intros H p cs m Hin.
  assert (Hf : In (LPre p cs m) (filter (fun l => negb (is_leq l)) lv)) by (apply filter_In; auto).
  destruct (filter (fun l => negb (is_leq l)) lv); [auto | unfold len in H; simpl in H; lia].
Qed.

Definition vals_of (lv : list leaf) : list str :=
  flat_map (fun l => match l with LEq s _ => [s] | _ => [] end) lv.
Definition pm (s : str) (l : leaf) : bool :=
  match l with LPre _ _ m => smm m s | _ => false end.

Lemma str_eqb_sym a b : str_eqb a b = str_eqb b a.
Proof.
  destruct (str_eqb a b) eqn:E1, (str_eqb b a) eqn:E2; auto.
  - apply str_eqb_eq in E1. subst. rewrite (proj2 (str_eqb_eq b b) eq_refl) in E2. discriminate.
  - apply str_eqb_eq in E2. subst. rewrite (proj2 (str_eqb_eq a a) eq_refl) in E1. discriminate.
Qed.

Lemma split_leaves s lv : Forall good_leaf lv ->
  existsb (leafm s) lv = mem_str s (vals_of lv) || existsb (pm s) lv.
Proof.
  induction 1 as [| l lv Hl _ IH]; simpl; auto. rewrite IH. destruct l as [v c | p c m]; simpl.
  - simpl in Hl. subst c. unfold mem_str. simpl. rewrite (str_eqb_sym v s).
    now rewrite orb_assoc.
  - destruct (smm m s), (mem_str s (vals_of lv)); reflexivity.
Qed.

Lemma no_pre_pm s lv : (forall p cs m, ~ In (LPre p cs m) lv) -> existsb (pm s) lv = false.
Proof.
  intros H. induction lv as [| l lv IH]; simpl; auto. destruct l as [v c | p c m]; simpl.
  - apply IH. intros p cs m Hin. eapply H. right. eauto.
  - exfalso. eapply H. left. eauto.
Qed.

Lemma firstn_key p r n : Z.of_nat n <= blen p -> firstn n (enc (p ++ r)) = firstn n (enc p).
Proof.
  intros H. rewrite enc_app, firstn_app.
  replace (n - length (enc p))%nat with 0%nat by (unfold blen, len in H; lia).
  simpl. now rewrite app_nil_r.
Qed.

Lemma pre_pointwise s y lv : Forall good_leaf lv -> 0 <= y ->
  (forall p cs m, In (LPre p cs m) lv -> y <= blen p) ->
  existsb (fun l => match l with
                    | LPre p _ m => str_eqb (firstn (Z.to_nat y) (enc p)) (firstn (Z.to_nat y) (enc s)) && smm m s
                    | _ => false end) lv = existsb (pm s) lv.
Proof.
  intros Hg Hy Hall. induction Hg as [| l lv Hl _ IH]; simpl; auto.
  rewrite IH by (intros; eapply Hall; right; eauto). f_equal.
  destruct l as [v c | p c m]; simpl; auto.
  destruct Hl as (-> & Hp & rt & ->). cbn [FastRegex.smm].
  destruct (is_prefix p s) eqn:E; [| now rewrite andb_false_r].
  apply is_prefix_spec in E. destruct E as (r & ->).
  rewrite firstn_key by (rewrite Z2Nat.id by lia; eapply Hall; left; eauto).
  rewrite (proj2 (str_eqb_eq _ _) eq_refl). reflexivity.
Qed.

Theorem optimize_eop_correct th M : good_or M = true ->
  forall s, smm (optimize_eop NL TL th M) s = smm M s.
Proof.
  intros Hg s. unfold optimize_eop. destruct M; try reflexivity.
  destruct (leaves (SOr l)) as [lv |] eqn:El; [| reflexivity].
  pose proof (leaves_good _ _ Hg El) as Hgl. pose proof (leaves_sem _ _ El s) as Hs.
  destruct (negb (forallb _ lv)); [reflexivity |].
  destruct (_ <? th); [reflexivity |].
  rewrite Hs, (split_leaves s lv Hgl).
  assert (Hcs : lv <> [] -> match lv with l0 :: _ => leaf_cs l0 | [] => false end = true).
  { destruct lv as [| l0 lv']; [congruence |]. intros _. inversion Hgl as [| ? ? H0 _]; subst.
    destruct l0; simpl in *; tauto. }
  destruct lv as [| l0 lv'].
  { simpl. reflexivity. }
  rewrite (Hcs ltac:(discriminate)). clear Hcs. set (lv := l0 :: lv') in *. clearbody lv.
  change (flat_map (fun l1 => match l1 with LEq s0 _ => [s0] | LPre _ _ _ => [] end) lv) with (vals_of lv).
  destruct ((len (filter is_leq lv) <? min_equal_multi_threshold) &&
            (len (filter (fun l1 => negb (is_leq l1)) lv) =? 0)) eqn:Eslice.
  - (* slice *)
    apply andb_true_iff in Eslice. destruct Eslice as [_ Enp]. apply Z.eqb_eq in Enp.
    rewrite (no_pre_pm s lv (no_pre_of_len lv Enp)), orb_false_r. cbn [FastRegex.smm].
    destruct (mem_str s (vals_of lv)) eqn:Em; [now rewrite (mask_of_mem _ _ Em) | now rewrite andb_false_r].
  - (* map *)
    clear Eslice.
    change (fold_left _ lv None) with (fold_left min_step lv None).
    set (minp := match fold_left min_step lv None with Some x => x | None => 0 end).
    change (fold_left _ lv []) with (fold_left (pre_step true minp) lv []).
    change (flat_map (fun l1 => match l1 with LEq s0 _ => [s0] | LPre _ _ _ => [] end) lv) with (vals_of lv).
    cbn [FastRegex.smm].
    set (k := firstn (Z.to_nat minp) (enc s)).
    set (PP := if (0 <? minp) && (minp <=? blen s)
               then existsb (fun p => match p with
                                      | (k', ms) => str_eqb k' k && existsb (fun x => smm x s) ms end)
                      (fold_left (pre_step true minp) lv [])
               else false).
    assert (HPP : PP = existsb (pm s) lv).
    { unfold PP.
      assert (Hpos : forall p cs m, In (LPre p cs m) lv -> 0 < blen p).
      { intros p cs m Hin. rewrite Forall_forall in Hgl. specialize (Hgl _ Hin). simpl in Hgl.
        apply blen_pos. tauto. }
      destruct (min_fold_none lv) as [[Hn Hno] | (y & Hy & Hall)].
      - unfold minp. rewrite Hn. simpl. symmetry. now apply no_pre_pm.
      - assert (Hy0 : 0 < y) by (eapply min_fold_pos'; eauto).
        assert (Em : minp = y) by (unfold minp; now rewrite Hy). rewrite Em.
        destruct ((0 <? y) && (y <=? blen s)) eqn:Ec.
        + transitivity (existsb (pre_hit (fun x => smm x s) k) (fold_left (pre_step true y) lv [])); [reflexivity |].
          rewrite pre_fold_sem. simpl. unfold k. rewrite Em. apply pre_pointwise; auto. lia.
        + symmetry. apply not_true_is_false. intros HP. apply existsb_exists in HP.
          destruct HP as (l1 & Hin & Hl1). destruct l1 as [v c | p c m]; [discriminate |]. simpl in Hl1.
          rewrite Forall_forall in Hgl. pose proof (Hgl _ Hin) as (-> & Hp & rt & ->).
          cbn [FastRegex.smm] in Hl1. apply andb_true_iff in Hl1. destruct Hl1 as [Hpre _].
          apply is_prefix_spec in Hpre. destruct Hpre as (r & ->).
          pose proof (Hall _ _ _ Hin). pose proof (blen_nonneg r). rewrite blen_app in Ec.
          apply andb_false_iff in Ec. destruct Ec as [Ec | Ec]; [apply Z.ltb_ge in Ec | apply Z.leb_gt in Ec]; lia. }
    fold PP. rewrite <- HPP.
    destruct (isnil (vals_of lv)) eqn:Ev.
    + destruct (vals_of lv); [| discriminate]. reflexivity.
    + assert (Ev' : @isnil (list Z) (vals_of lv) = false) by exact Ev.
      destruct ((minp =? 0) && true && negb (mask_ok (vals_of lv) s)) eqn:Em.
      * apply andb_true_iff in Em. destruct Em as [Em Hmask]. apply andb_true_iff in Em.
        destruct Em as [Em _]. apply Z.eqb_eq in Em.
        assert (PP = false) by (unfold PP; rewrite Em; reflexivity).
        destruct (mem_str s (vals_of lv)) eqn:Emem.
        -- rewrite (mask_of_mem _ _ Emem) in Hmask. discriminate.
        -- rewrite Ev'. now rewrite H.
      * rewrite Ev'. destruct (mem_str s (vals_of lv)); reflexivity.
Qed.
End Opt.

(* ================= shape facts: set matches are non-empty strings; matchers are "good" ===== *)
Definition ne (m : str) : Prop := m <> [].

Lemma alt_loop_ne : forall l base first acc cs res c,
  Forall (fun x => forall base ms c, fsm x base = (ms, c) -> Forall ne ms) l ->
  Forall ne acc -> alt_loop fsm l base first acc cs = (res, c) -> Forall ne res.
Proof.
  induction l as [| x t IH]; intros base first acc cs res c HF Ha H; simpl in H.
  - inversion H; subst. exact Ha.
  - inversion HF as [| ? ? Hx Ht]; subst. destruct (fsm x base) as [found cx] eqn:Ex.
    destruct (isnil found); [inversion H; subst; constructor |].
    destruct (too_many acc found); [inversion H; subst; constructor |].
    destruct (negb _); [inversion H; subst; constructor |].
    eapply (IH base false (acc ++ found)); [exact Ht | | exact H].
    apply Forall_app. split; auto. eapply Hx; eauto.
Qed.

Lemma inner_loop_ne : forall g i0 bs j0 nm mcs nm' mcs',
  (forall b ms c, g b = (ms, c) -> Forall ne ms) ->
  Forall ne nm -> inner_loop g i0 bs j0 nm mcs = Some (nm', mcs') -> Forall ne nm'.
Proof.
  induction bs as [| b bs IH]; intros j0 nm mcs nm' mcs' Hg Hn H; simpl in H.
  - inversion H; subst. exact Hn.
  - destruct (g b) as [m c] eqn:Eg. destruct (isnil m); [discriminate |].
    destruct (too_many nm m); [discriminate |]. destruct (negb _); [discriminate |].
    eapply (IH false (nm ++ m)); [exact Hg | | exact H].
    apply Forall_app. split; auto. eapply Hg; eauto.
Qed.

Lemma cat_loop_ne : forall l i0 ms0 mcs res c,
  Forall (fun x => forall base ms c, fsm x base = (ms, c) -> Forall ne ms) l ->
  l <> [] \/ Forall ne ms0 -> cat_loop fsm l i0 ms0 mcs = (res, c) -> Forall ne res.
Proof.
  induction l as [| x t IH]; intros i0 ms0 mcs res c HF Hm H; simpl in H.
  - inversion H; subst. destruct Hm; [congruence | assumption].
  - inversion HF as [| ? ? Hx Ht]; subst.
    destruct (inner_loop (fsm x) i0 ms0 true [] mcs) as [[nm mcs'] |] eqn:E; [| inversion H; subst; constructor].
    eapply (IH false nm); [exact Ht | | exact H]. right.
    eapply inner_loop_ne; [| | exact E]; [intros b ms c0 Hb; eapply Hx; eauto | constructor].
Qed.

Lemma fsm_nonempty : forall r, wf_csb r = true ->
  forall base ms c, fsm r base = (ms, c) -> Forall ne ms.
Proof.
  induction r using re_ind'; intros Hwf base ms c H0; simpl in H0;
    try (inversion H0; subst; constructor).
  - destruct (isnil base) eqn:E; inversion H0; subst; constructor; [| constructor].
    intros ->. discriminate.
  - simpl in Hwf. apply andb_true_iff in Hwf. destruct Hwf as [_ Hn].
    intros E. apply app_eq_nil in E. destruct E as [_ ->]. discriminate.
  - constructor.
  - destruct (_ >? _); inversion H0; subst; [constructor |].
    apply Forall_forall. intros m Hm. apply in_flat_map in Hm. destruct Hm as (p & _ & Hm).
    apply in_map_iff in Hm. destruct Hm as (c' & <- & _). intros E. apply app_eq_nil in E.
    destruct E; discriminate.
  - eapply IHr; eauto.
  - destruct (isnil l) eqn:E; [inversion H0; subst; constructor |].
    simpl in Hwf. eapply cat_loop_ne; [| | exact H0].
    + rewrite Forall_forall in *. intros x Hx. apply H; auto.
      rewrite forallb_forall in Hwf. now apply Hwf.
    + left. intros ->. discriminate.
  - simpl in Hwf. eapply alt_loop_ne; [| | exact H0]; [| constructor].
    rewrite Forall_forall in *. intros x Hx. apply H; auto.
    rewrite forallb_forall in Hwf. now apply Hwf.
Qed.

Lemma refine_mid_shape lft mid rgt lft' rgt' matches mcs :
  forallb wf_csb (map fst mid) = true ->
  refine_mid lft mid rgt = (lft', rgt', matches, mcs) -> matches <> [] ->
  mcs = true /\ Forall ne matches.
Proof.
  intros Hwf H Hne. unfold refine_mid in H.
  destruct (fsm (RConcat (map fst mid)) []) as [ms0 c0] eqn:Ef.
  destruct (isnil ms0) eqn:En.
  - destruct ms0; [| discriminate].
    assert (Hlit : forall a f rs, wf_csb a = true -> lit_of a = Some (f, rs) -> negb f = true /\ Forall ne [rs]).
    { intros a f rs Hw Hl. apply lit_of_some in Hl. subst a. simpl in Hw. apply andb_true_iff in Hw.
      destruct Hw as [Hf Hr]. split; auto. constructor; [| constructor]. intros ->. discriminate. }
    destruct mid as [| [a ma] [| [c mc] [| ? ?]]]; try (inversion H; subst; congruence).
    simpl in Hwf. apply andb_true_iff in Hwf. destruct Hwf as [Hwa Hwc].
    apply andb_true_iff in Hwc. destruct Hwc as [Hwc _].
    destruct rgt as [rt |].
    + destruct lft as [lf |]; [destruct (lit_of a) as [[? ?] |]; inversion H; subst; congruence |].
      assert (H' : (match lit_of c with
                    | Some (f, rs) => match ma with
                                      | Some _ => (ma, Some rt, [rs], negb f)
                                      | None => (None, Some rt, [], c0) end
                    | None => (None, Some rt, [], c0) end) = (lft', rgt', matches, mcs)).
      { destruct (lit_of a) as [[? ?] |]; exact H. }
      destruct (lit_of c) as [[f rs] |] eqn:Elc; [| inversion H'; subst; congruence].
      destruct ma; inversion H'; subst; [| congruence]. eapply (Hlit c); [exact Hwc | exact Elc].
    + destruct (lit_of a) as [[f rs] |] eqn:Ela.
      * destruct mc; inversion H; subst; [| congruence]. eapply (Hlit a); [exact Hwa | exact Ela].
      * destruct lft as [lf |]; [inversion H; subst; congruence |].
        destruct (lit_of c) as [[f rs] |] eqn:Elc; [| inversion H; subst; congruence].
        destruct ma; inversion H; subst; [| congruence]. eapply (Hlit c); [exact Hwc | exact Elc].
  - assert (H' : (lft, rgt, ms0, c0) = (lft', rgt', matches, mcs)).
    { destruct mid as [| [a ma] [| [c mc] [| ? ?]]]; exact H. }
    inversion H'; subst. split.
    + eapply (fsm_cs (RConcat (map fst mid))); eauto.
    + eapply (fsm_nonempty (RConcat (map fst mid))); eauto.
Qed.

Lemma assemble_good lft rgt matches M :
  assemble lft rgt matches true = Some M -> Forall ne matches -> good_or M = true.
Proof.
  intros H Hn. unfold assemble in H. destruct matches as [| m1 mt]; [discriminate |].
  inversion Hn as [| ? ? Hm1 _]; subst.
  destruct lft, rgt; try (destruct mt); inversion H; subst; simpl; auto;
    try (destruct m1; [unfold ne in Hm1; congruence | reflexivity]);
    try (match goal with |- context [forallb _ (map _ ?l)] => clear; induction l; simpl; auto end).
Qed.

Lemma split_wild_wf ps lft mid rgt :
  forallb wf_csb (map fst ps) = true -> split_wild ps = Some (lft, mid, rgt) ->
  forallb wf_csb (map fst mid) = true.
Proof.
  intros Hwf H. destruct ps as [| [x0 m0] rest]; [discriminate |]. unfold split_wild in H.
  set (ps1 := if is_wild_op x0 then rest else (x0, m0) :: rest) in *.
  assert (H1 : forallb wf_csb (map fst ps1) = true).
  { unfold ps1. destruct (is_wild_op x0); auto. simpl in Hwf. apply andb_true_iff in Hwf. tauto. }
  destruct (is_wild_op x0 && is_none m0); [discriminate |].
  destruct (last ps1 (RNoMatch, None)) as [xl ml].
  destruct (is_wild_op xl && is_none ml); [discriminate |]. inversion H; subst.
  destruct (is_wild_op xl); auto.
  clear -H1. induction ps1 as [| a [| b l] IH]; simpl in *; auto.
  apply andb_true_iff in H1. destruct H1 as [Ha H1]. rewrite Ha. simpl. apply IH. exact H1.
Qed.

Lemma concat_logic_good ps M :
  Forall (fun p => wf_csb (fst p) = true /\ forall mm, snd p = Some mm -> good_or mm = true) ps ->
  concat_logic ps = Some M -> good_or M = true.
Proof.
  intros Hok H.
  assert (Hwf : forallb wf_csb (map fst ps) = true).
  { clear H. induction Hok as [| p l [Hp _] _ IH]; simpl; auto. now rewrite Hp. }
  destruct ps as [| [x0 m0] [| p1 rest]].
  - simpl in H. inversion H; subst. reflexivity.
  - simpl in H. subst m0. inversion Hok as [| ? ? [_ H0] _]; subst. now apply H0.
  - assert (H' : match split_wild ((x0, m0) :: p1 :: rest) with
                 | None => None
                 | Some (lft, mid, rgt) =>
                     let '(lft', rgt', matches, mcs) := refine_mid lft mid rgt in
                     assemble lft' rgt' matches mcs
                 end = Some M) by exact H.
    clear H. destruct (split_wild ((x0, m0) :: p1 :: rest)) as [[[lft mid] rgt] |] eqn:Es; [| discriminate].
    pose proof (split_wild_wf _ _ _ _ Hwf Es) as Hmid.
    destruct (refine_mid lft mid rgt) as [[[lft' rgt'] matches] mcs] eqn:Er.
    assert (Hne : matches <> []). { intros ->. destruct lft', rgt'; discriminate. }
    destruct (refine_mid_shape _ _ _ _ _ _ _ Hmid Er Hne) as [-> Hn].
    eapply assemble_good; eauto.
Qed.

Lemma smi_good : forall r, wf_csb r = true -> forall M, smi r = Some M -> good_or M = true.
Proof.
  induction r using re_ind'; intros Hwf M HM; simpl in HM; try discriminate.
  - inversion HM; subst. reflexivity.
  - inversion HM; subst. simpl in *. apply andb_true_iff in Hwf. tauto.
  - eapply IHr; eauto.
  - destruct r; try discriminate; inversion HM; subst; reflexivity.
  - destruct r; try discriminate; inversion HM; subst; reflexivity.
  - destruct r; try discriminate; inversion HM; subst; reflexivity.
  - simpl in Hwf. eapply concat_logic_good; [| exact HM].
    clear HM. induction H as [| x l Hx _ IH]; simpl; constructor.
    + simpl in Hwf. apply andb_true_iff in Hwf. destruct Hwf as [Hwx _]. split; simpl.
      * now apply wf_strip.
      * intros mm Hmm. now apply Hx.
    + apply IH. simpl in Hwf. apply andb_true_iff in Hwf. tauto.
  - simpl in Hwf. destruct (all_some (map smi l)) as [ms |] eqn:Ea; [| discriminate].
    inversion HM; subst. simpl. clear HM.
    revert ms Ea. induction H as [| x l Hx _ IH]; intros ms Ea; simpl in Ea.
    + inversion Ea; subst. reflexivity.
    + simpl in Hwf. apply andb_true_iff in Hwf. destruct Hwf as [Hwx Hwl].
      destruct (smi x) as [mx |] eqn:Ex; [| discriminate].
      destruct (all_some (map smi l)) as [ms' |] eqn:Ea'; [| discriminate].
      inversion Ea; subst. simpl. rewrite (Hx Hwx mx eq_refl), (IH Hwl ms' eq_refl). reflexivity.
Qed.

(* ================= stringMatcherFromRegexp ================= *)
Theorem smfr_correct F NL TL r m :
  wf_csb r = true -> string_matcher_from_regexp NL TL r = Some m ->
  forall s, smm F NL m s = true <-> Matches F r s.
Proof.
  intros Hwf H s. unfold string_matcher_from_regexp in H.
  destruct (smi (clear_begin_end r)) as [m0 |] eqn:E; [| discriminate]. inversion H; subst.
  pose proof (cbe_wf r Hwf) as Hwf'.
  rewrite (optimize_eop_correct F NL TL _ m0 (smi_good _ Hwf' _ E) s).
  rewrite (smi_correct F NL TL _ Hwf' m0 E true true s). apply cbe_sem.
Qed.

(* ================= refutations: witnesses replayed on the real code by the harness corpus === *)
Definition tabf (t : list (bytes * bytes)) (b : bytes) : bytes :=
  match lookup b t with Some v => v | None => oracle_miss end.

(* ".*a(b).*" : [.*; "a"; ("b"); .*] — the two literals become adjacent literal nodes after
   clearCapture; isSimpleConcatenationPattern accepts, the match degenerates to
   containsInOrder(["a";"b"]) and "axb" matches. *)
Definition adj_pat : str := [46; 42; 97; 40; 98; 41; 46; 42].
Definition adj_ast : re := RConcat [RStar RAny; RLit false [97]; RCapture (RLit false [98]); RStar RAny].

Lemma adjacent_literals_old_refuted :
  wf_csb adj_ast = true /\ optimize_alternating_literals (fun b => b) adj_pat = None /\
  match_string (fun _ _ => false) (fun b => b) (new_frm_old (fun b => b) (fun b => b) adj_pat adj_ast)
    [97; 120; 98] = true /\
  re_match (fun _ _ => false) adj_ast [97; 120; 98] = false.
Proof. vm_compute. auto. Qed.

Lemma adjacent_literals_fixed :
  match_string (fun _ _ => false) (fun b => b) (new_frm (fun b => b) (fun b => b) adj_pat adj_ast)
    [97; 120; 98] = false.
Proof. vm_compute. auto. Qed.

(* "(?i:fi|v0|...|v15)" as parsed by Go; oracles: the real fold orbits of the runes involved and
   toNormalisedLower("ﬁ") = "fi" (NFKD). The ligature U+FB01 matches although the
   expression does not. *)
Definition ci_pat : str :=
  [40; 63; 105; 58; 102; 105; 124; 118; 48; 124; 118; 49; 124; 118; 50; 124; 118; 51; 124; 118; 52;
   124; 118; 53; 124; 118; 54; 124; 118; 55; 124; 118; 56; 124; 118; 57; 124; 118; 49; 48; 124; 118;
   49; 49; 124; 118; 49; 50; 124; 118; 49; 51; 124; 118; 49; 52; 124; 118; 49; 53; 41].
Definition ci_ast : re :=
  RAlt [RLit true [70; 73];
        RConcat [RLit true [86];
                 RAlt [RClass true [(48, 57)]; RConcat [RLit true [49]; RClass true [(48, 53)]]]]].
Definition ci_orbits : list (list rune) := [[73; 105]; [70; 102]; [86; 118]; [75; 107; 8490]].
Definition ci_nl : list (bytes * bytes) :=
  [([239; 172; 129], [102; 105]); ([226; 132; 170; 120], [107; 120]); ([226; 132; 170], [107]);
   ([226], [239; 191; 189])].

Lemma ci_map_values_refuted :
  optimize_alternating_literals (tabf ci_nl) ci_pat = None /\
  match_string (fold_of ci_orbits) (tabf ci_nl) (new_frm (tabf ci_nl) (tabf []) ci_pat ci_ast) [64257] = true /\
  re_match (fold_of ci_orbits) ci_ast [64257] = false.
Proof. vm_compute. auto. Qed.

(* "(?i:k.*|v0|...|v15)": the Kelvin sign U+212A folds to k, so "Kx" matches the
   expression, but the prefix-map key s[:1] = 0xE2 is not the key "k". *)
Definition cik_pat : str :=
  [40; 63; 105; 58; 107; 46; 42; 124; 118; 48; 124; 118; 49; 124; 118; 50; 124; 118; 51; 124; 118; 52;
   124; 118; 53; 124; 118; 54; 124; 118; 55; 124; 118; 56; 124; 118; 57; 124; 118; 49; 48; 124; 118;
   49; 49; 124; 118; 49; 50; 124; 118; 49; 51; 124; 118; 49; 52; 124; 118; 49; 53; 41].
Definition cik_ast : re :=
  RAlt [RConcat [RLit true [75]; RStar RAny];
        RConcat [RLit true [86];
                 RAlt [RClass true [(48, 57)]; RConcat [RLit true [49]; RClass true [(48, 53)]]]]].

Lemma ci_map_prefix_refuted :
  optimize_alternating_literals (tabf ci_nl) cik_pat = None /\
  match_string (fold_of ci_orbits) (tabf ci_nl) (new_frm (tabf ci_nl) (tabf []) cik_pat cik_ast) [8490; 120] = false /\
  re_match (fold_of ci_orbits) cik_ast [8490; 120] = true.
Proof. vm_compute. auto. Qed.
